(* CNOTP.v — correctness of the CNOT decomposer (Model/CNOTDec.v [cnot_gates],
   decomposer/cnot_decomposer.py) over the reals.

   Part 1: 2x2 complex matrices as tuples [M2], block-diagonal 4x4 matrices
           [bd4 (M0, M1)] (control qubit most significant), the generic
           "controlled decomposition" lemmas [ctrl_decomp_blocks], [ctrl_decomp]
           (two CNOTs) and [ctrl_decomp1_blocks], [ctrl_decomp1] (one CNOT).
   Part 2: SU(2) level: [abc_identity] (two-CNOT "ABC" branch) and
           [lemma55_identity] (single-CNOT branch, lemma 5.5 of Barenco et al.),
           the sign computed by the code ([sign_eps]), and the two circuit
           identities [abc_circuit], [lemma55_circuit].
   Part 3: the model: matrices of the emitted gates on 2 qubits (control = 1,
           target = 0, [get_matrix RNum 2]: [get_matrix_tgt], [get_matrix_cnot],
           [get_matrix_ctl_phase], [get_matrix_ctrl2]), the identity filter, angle
           normalisation, and the theorems [cnot_gates_two_exact],
           [cnot_gates_single_exact], [cnot_gates_exact_partial]:
           gates_matrix RNum 2 (emitted list) = e^{i phi} . get_matrix RNum 2 (Ctrl 1 (BSR 0 ax angle phase)).
   Conventions: a quaternion (w, x, y, z) is the matrix w I - i (x X + y Y + z Z) ([qmat]);
   matrix index = 2 * (control bit) + (target bit), so [bd4 (M0, M1)] = diag(M0, M1) has M0
   acting when the control is 0 and M1 when it is 1. *)
From Coq Require Import String Reals ZArith List Bool Lra Lia.
Import ListNotations.
From OSQ Require Import Num IR Construct DefaultTable Matrix ABA Merge CNOTDec
     RTrig RNum SU2 ConstructP DefaultP ABAP ComposeP MatrixP.
Open Scope R_scope.

(* ================================================================== *)
(** * Part 1. 2x2 blocks and block-diagonal 4x4 matrices *)

Definition C2 : Type := (R * R)%type.
Definition M2 : Type := (C2 * C2 * C2 * C2)%type.      (* m00, m01, m10, m11 *)
Definition B2 : Type := (M2 * M2)%type.                (* control = 0 block, control = 1 block *)

Definition m00 (M : M2) : C2 := fst (fst (fst M)).
Definition m01 (M : M2) : C2 := snd (fst (fst M)).
Definition m10 (M : M2) : C2 := snd (fst M).
Definition m11 (M : M2) : C2 := snd M.

Definition m2l (M : M2) : list (list C2) := [[m00 M; m01 M]; [m10 M; m11 M]].

Definition m2mul (A B : M2) : M2 :=
  (cadd RNum (cmul RNum (m00 A) (m00 B)) (cmul RNum (m01 A) (m10 B)),
   cadd RNum (cmul RNum (m00 A) (m01 B)) (cmul RNum (m01 A) (m11 B)),
   cadd RNum (cmul RNum (m10 A) (m00 B)) (cmul RNum (m11 A) (m10 B)),
   cadd RNum (cmul RNum (m10 A) (m01 B)) (cmul RNum (m11 A) (m11 B))).

Definition m2scale (z : C2) (A : M2) : M2 :=
  (cmul RNum z (m00 A), cmul RNum z (m01 A), cmul RNum z (m10 A), cmul RNum z (m11 A)).

Definition m2one : M2 := ((1, 0), (0, 0), (0, 0), (1, 0)).
Definition m2X : M2 := ((0, 0), (1, 0), (1, 0), (0, 0)).          (* Pauli X *)

(* z . (w I - i (x X + y Y + z Z)), the tuple form of [mscale z (qmat q)] *)
Definition m2q (z : C2) (q : quat) : M2 :=
  m2scale z ((qw q, - qz q), (- qy q, - qx q), (qy q, - qx q), (qw q, qz q)).

Definition b2mul (P Q : B2) : B2 := (m2mul (fst P) (fst Q), m2mul (snd P) (snd Q)).
Definition b2one : B2 := (m2one, m2one).
Definition b2neg (P : B2) : B2 := (m2scale (-1, 0) (fst P), m2scale (-1, 0) (snd P)).

(* the 4x4 matrix diag(M0, M1); row/column index = 2 * control + target *)
Definition bd4 (P : B2) : list (list C2) :=
  let A := fst P in let B := snd P in
  [[m00 A; m01 A; (0, 0); (0, 0)];
   [m10 A; m11 A; (0, 0); (0, 0)];
   [(0, 0); (0, 0); m00 B; m01 B];
   [(0, 0); (0, 0); m10 B; m11 B]].

Definition tgt (P : M2) : list (list C2) := bd4 (P, P).                 (* I (x) P *)
Definition cnot4 : list (list C2) := bd4 (m2one, m2X).                  (* CNOT *)
Definition ctrl2 (U : M2) : list (list C2) := bd4 (m2one, U).           (* controlled-U *)
Definition ctl_phase (d : R) : list (list C2) :=                        (* Rz(d) (x) I *)
  bd4 (m2scale (cis RNum (- d / 2)) m2one, m2scale (cis RNum (d / 2)) m2one).

Lemma pair_eq_gen {A B} (a a' : A) (b b' : B) : a = a' -> b = b' -> (a, b) = (a', b').
Proof. intros; subst; reflexivity. Qed.

Ltac destr_all :=
  repeat match goal with
         | x : B2 |- _ => destruct x as [? ?]
         | x : M2 |- _ => destruct x as [[[? ?] ?] ?]
         | x : quat |- _ => destruct x as [[[? ?] ?] ?]
         | x : C2 |- _ => destruct x as [? ?]
         | x : (R * R)%type |- _ => destruct x as [? ?]
         end.

Ltac tup_eq :=
  repeat match goal with
         | |- cons _ _ = cons _ _ => apply f_equal2
         | |- (_, _) = (_, _) => apply pair_eq_gen
         | |- nil = nil => reflexivity
         end.

Ltac m2unf :=
  unfold b2mul, b2one, b2neg, m2q, m2mul, m2scale, m2one, m2X, m00, m01, m10, m11,
         cadd, cmul, cis, qmul, qneg, qone, qw, qx, qy, qz;
  cbn [fst snd];
  cbn [nofZ nadd nsub nmul ndiv nneg nsin ncos RNum].

(* [clear_eqs]: the hypotheses are never needed by [m2crush]; unfolding in them is expensive *)
Ltac clear_props :=
  repeat match goal with H : ?P |- _ => match type of P with Prop => clear H end end.

Ltac m2crush := intros; clear_props; destr_all; m2unf; tup_eq; try ring.

Lemma m2mul_assoc A B C : m2mul A (m2mul B C) = m2mul (m2mul A B) C.
Proof. m2crush. Qed.
Lemma m2mul_1_l A : m2mul m2one A = A.
Proof. m2crush. Qed.
Lemma m2mul_1_r A : m2mul A m2one = A.
Proof. m2crush. Qed.
Lemma m2scale_mul_l z A B : m2mul (m2scale z A) B = m2scale z (m2mul A B).
Proof. m2crush. Qed.
Lemma m2scale_mul_r z A B : m2mul A (m2scale z B) = m2scale z (m2mul A B).
Proof. m2crush. Qed.
Lemma m2scale_scale z1 z2 A : m2scale z1 (m2scale z2 A) = m2scale (cmul RNum z1 z2) A.
Proof. m2crush. Qed.
Lemma m2scale_1 A : m2scale (1, 0) A = A.
Proof. m2crush. Qed.

Lemma b2mul_assoc P Q S : b2mul P (b2mul Q S) = b2mul (b2mul P Q) S.
Proof. unfold b2mul. cbn [fst snd]. rewrite !m2mul_assoc. reflexivity. Qed.
Lemma b2mul_1_l P : b2mul b2one P = P.
Proof. destruct P. unfold b2mul, b2one. cbn [fst snd]. rewrite !m2mul_1_l. reflexivity. Qed.
Lemma b2mul_1_r P : b2mul P b2one = P.
Proof. destruct P. unfold b2mul, b2one. cbn [fst snd]. rewrite !m2mul_1_r. reflexivity. Qed.
Lemma b2mul_neg_l P Q : b2mul (b2neg P) Q = b2neg (b2mul P Q).
Proof. unfold b2mul, b2neg. cbn [fst snd]. rewrite !m2scale_mul_l. reflexivity. Qed.
Lemma b2mul_neg_r P Q : b2mul P (b2neg Q) = b2neg (b2mul P Q).
Proof. unfold b2mul, b2neg. cbn [fst snd]. rewrite !m2scale_mul_r. reflexivity. Qed.
Lemma b2neg_involutive P : b2neg (b2neg P) = P.
Proof.
  destruct P. unfold b2neg. cbn [fst snd]. rewrite !m2scale_scale.
  replace (cmul RNum (-1, 0) (-1, 0)) with (1, 0) by m2crush.
  rewrite !m2scale_1. reflexivity.
Qed.

(* quaternion blocks *)
Lemma m2q_mul z1 z2 p q : m2mul (m2q z1 p) (m2q z2 q) = m2q (cmul RNum z1 z2) (qmul p q).
Proof. m2crush. Qed.
Lemma m2one_q : m2one = m2q (1, 0) qone.
Proof. m2crush. Qed.
Lemma m2X_q : m2X = m2q (0, 1) (0, 1, 0, 0).
Proof. m2crush. Qed.
Lemma m2q_neg z q : m2q z (qneg q) = m2scale (-1, 0) (m2q z q).
Proof. m2crush. Qed.
Lemma m2scale_q z1 z2 q : m2scale z1 (m2q z2 q) = m2q (cmul RNum z1 z2) q.
Proof. m2crush. Qed.
Lemma m2l_m2q z q : m2l (m2q z q) = mscale z (qmat q).
Proof. reflexivity. Qed.
Lemma can1_m2q ax angle phase : can1 RNum ax angle phase = m2l (m2q (cis RNum phase) (qrot ax angle)).
Proof. rewrite can1_phase. reflexivity. Qed.

(* the list-based product of the model on 2x2 tuples *)
Lemma m2l_mmul A B : mmul RNum (m2l A) (m2l B) = m2l (m2mul A B).
Proof.
  destr_all. unfold mmul, transpose, m2l.
  cbn [hd length transpose_aux map tl]. unfold vdot. cbn [combine fold_left fst snd].
  unfold czero, c0, n0. m2unf. tup_eq; ring.
Qed.

(* product of block-diagonal matrices = block-diagonal matrix of the products *)
Theorem bd4_mmul P Q : mmul RNum (bd4 P) (bd4 Q) = bd4 (b2mul P Q).
Proof.
  destr_all. unfold mmul, transpose, bd4.
  cbn [hd length transpose_aux map tl fst snd]. unfold vdot. cbn [combine fold_left fst snd].
  unfold czero, c0, n0. m2unf. tup_eq; ring.
Qed.

Lemma bd4_scale z P : bd4 (m2scale z (fst P), m2scale z (snd P)) = mscale z (bd4 P).
Proof.
  destr_all. unfold mscale, bd4. cbn [map fst snd]. m2unf. tup_eq; ring.
Qed.

Lemma bd4_neg P : bd4 (b2neg P) = mscale (-1, 0) (bd4 P).
Proof. unfold b2neg. apply bd4_scale. Qed.

Lemma eye4_bd4 : eye RNum (zpow2 2) = bd4 b2one.
Proof. reflexivity. Qed.

(* ---- the generic controlled-decomposition lemma (two CNOTs) ---- *)

(* circuit order: P1 on the target, CNOT, P2, CNOT, P3, then Rz(d) on the control *)
Theorem ctrl_decomp_blocks (P1 P2 P3 : M2) (d : R) :
  mmul RNum (ctl_phase d)
    (mmul RNum (tgt P3) (mmul RNum cnot4 (mmul RNum (tgt P2) (mmul RNum cnot4 (tgt P1))))) =
  bd4 (m2scale (cis RNum (- d / 2)) (m2mul P3 (m2mul P2 P1)),
       m2scale (cis RNum (d / 2)) (m2mul P3 (m2mul m2X (m2mul P2 (m2mul m2X P1))))).
Proof.
  unfold ctl_phase, tgt, cnot4. rewrite !bd4_mmul. unfold b2mul. cbn [fst snd].
  rewrite !m2mul_1_l, !m2scale_mul_l, !m2mul_1_l. reflexivity.
Qed.

Lemma cis_half_split d : cis RNum (d / 2) = cmul RNum (cis RNum (- d / 2)) (cis RNum d).
Proof. rewrite cis_mul. f_equal. field. Qed.

(* ... hence a global phase times controlled-U *)
Theorem ctrl_decomp (P1 P2 P3 U : M2) (d : R) :
  m2mul P3 (m2mul P2 P1) = m2one ->
  m2scale (cis RNum d) (m2mul P3 (m2mul m2X (m2mul P2 (m2mul m2X P1)))) = U ->
  mmul RNum (ctl_phase d)
    (mmul RNum (tgt P3) (mmul RNum cnot4 (mmul RNum (tgt P2) (mmul RNum cnot4 (tgt P1))))) =
  mscale (cis RNum (- d / 2)) (ctrl2 U).
Proof.
  intros H0 H1. rewrite ctrl_decomp_blocks, H0, <- H1.
  unfold ctrl2. rewrite <- bd4_scale. cbn [fst snd].
  rewrite m2scale_scale, <- cis_half_split. reflexivity.
Qed.

(* ---- one CNOT ---- *)

Theorem ctrl_decomp1_blocks (P1 P2 : M2) (d : R) :
  mmul RNum (ctl_phase d) (mmul RNum (tgt P2) (mmul RNum cnot4 (tgt P1))) =
  bd4 (m2scale (cis RNum (- d / 2)) (m2mul P2 P1),
       m2scale (cis RNum (d / 2)) (m2mul P2 (m2mul m2X P1))).
Proof.
  unfold ctl_phase, tgt, cnot4. rewrite !bd4_mmul. unfold b2mul. cbn [fst snd].
  rewrite !m2mul_1_l, !m2scale_mul_l, !m2mul_1_l. reflexivity.
Qed.

Theorem ctrl_decomp1 (P1 P2 U : M2) (d : R) :
  m2mul P2 P1 = m2one ->
  m2scale (cis RNum d) (m2mul P2 (m2mul m2X P1)) = U ->
  mmul RNum (ctl_phase d) (mmul RNum (tgt P2) (mmul RNum cnot4 (tgt P1))) =
  mscale (cis RNum (- d / 2)) (ctrl2 U).
Proof.
  intros H0 H1. rewrite ctrl_decomp1_blocks, H0, <- H1.
  unfold ctrl2. rewrite <- bd4_scale. cbn [fst snd].
  rewrite m2scale_scale, <- cis_half_split. reflexivity.
Qed.

(* ================================================================== *)
(** * Part 2. The two SU(2) identities *)

Definition qxp : quat := (0, 1, 0, 0).                 (* Rx(pi) *)
(* conjugation by Rx(pi): keeps w and x, flips y and z *)
Definition qflip (q : quat) : quat := (qw q, qx q, - qy q, - qz q).

Lemma qrx_PI : qrx PI = qxp.
Proof.
  unfold qrx, qrot, qxp, e_axis, ax_x, ax_y, ax_z. cbn [fst snd].
  rewrite cos_PI2, sin_PI2. apply quat_eq; unfold qw, qx, qy, qz; cbn [fst snd]; ring.
Qed.

Lemma qrot_x_PI : qrot (1, 0, 0) PI = qxp.
Proof. exact qrx_PI. Qed.

Lemma qxp_conj q : qmul qxp (qmul q qxp) = qneg (qflip q).
Proof. unfold qxp, qflip. destr_all. qcrush. Qed.
Lemma qxp_comm q : qmul q qxp = qmul qxp (qflip q).
Proof. unfold qxp, qflip. destr_all. qcrush. Qed.
Lemma qxp_sq : qmul qxp qxp = qneg qone.
Proof. unfold qxp. qcrush. Qed.
Lemma qflip_mul p q : qflip (qmul p q) = qmul (qflip p) (qflip q).
Proof. unfold qflip. destr_all. qcrush. Qed.

Lemma half_neg s : - s / 2 = - (s / 2).
Proof. field. Qed.

Lemma qflip_qry s : qflip (qry s) = qry (- s).
Proof.
  unfold qflip, qry, qrot, e_axis, ax_x, ax_y, ax_z, qw, qx, qy, qz. cbn [fst snd].
  rewrite half_neg, cos_neg, sin_neg. tup_eq; ring.
Qed.
Lemma qflip_qrz s : qflip (qrz s) = qrz (- s).
Proof.
  unfold qflip, qrz, qrot, e_axis, ax_x, ax_y, ax_z, qw, qx, qy, qz. cbn [fst snd].
  rewrite half_neg, cos_neg, sin_neg. tup_eq; ring.
Qed.

Lemma qry_add s t : qmul (qry s) (qry t) = qry (s + t).
Proof. apply qrot_add, e_axis_unit. Qed.
Lemma qrz_add s t : qmul (qrz s) (qrz t) = qrz (s + t).
Proof. apply qrot_add, e_axis_unit. Qed.
Lemma qry_0 : qry 0 = qone.
Proof. apply qrot_0. Qed.
Lemma qrz_0 : qrz 0 = qone.
Proof. apply qrot_0. Qed.

(* ---- two CNOTs: U = A X B X C, A B C = I ---- *)

Section ABC.
  Variables t0 t1 t2 : R.
  (* as operators; the circuit applies C first *)
  Definition qA : quat := qmul (qrz t2) (qry (t1 / 2)).
  Definition qB : quat := qmul (qry (- t1 / 2)) (qrz (- (t0 + t2) / 2)).
  Definition qC : quat := qrz ((t0 - t2) / 2).

  Lemma abc_identity_I : qmul qA (qmul qB qC) = qone.
  Proof.
    unfold qA, qB, qC.
    rewrite <- (qmul_assoc (qrz t2)), (qmul_assoc (qry (t1 / 2))), (qmul_assoc (qry (t1 / 2))).
    rewrite qry_add. replace (t1 / 2 + - t1 / 2) with 0 by field.
    rewrite qry_0, qmul_1_l, !qrz_add.
    replace (t2 + (- (t0 + t2) / 2 + (t0 - t2) / 2)) with 0 by field. apply qrz_0.
  Qed.

  Lemma abc_flipB : qflip qB = qmul (qry (t1 / 2)) (qrz ((t0 + t2) / 2)).
  Proof.
    unfold qB. rewrite qflip_mul, qflip_qry, qflip_qrz. f_equal; f_equal; field.
  Qed.

  Lemma abc_identity_q :
    qmul qA (qmul (qflip qB) qC) = qmul (qrz t2) (qmul (qry t1) (qrz t0)).
  Proof.
    rewrite abc_flipB. unfold qA, qC.
    rewrite <- (qmul_assoc (qrz t2)). f_equal.
    rewrite <- (qmul_assoc (qry (t1 / 2)) (qrz ((t0 + t2) / 2))), qrz_add.
    rewrite qmul_assoc, qry_add. f_equal; f_equal; field.
  Qed.

  (* (i) A B C = I and (ii) A X B X C = Rz(t2) Ry(t1) Rz(t0), as 2x2 matrices, exactly *)
  Theorem abc_identity :
    m2mul (m2q (1, 0) qA) (m2mul (m2q (1, 0) qB) (m2q (1, 0) qC)) = m2one /\
    m2mul (m2q (1, 0) qA) (m2mul m2X (m2mul (m2q (1, 0) qB) (m2mul m2X (m2q (1, 0) qC)))) =
      m2q (1, 0) (qmul (qrz t2) (qmul (qry t1) (qrz t0))).
  Proof.
    split.
    - rewrite !m2q_mul, abc_identity_I, m2one_q. f_equal. m2crush.
    - rewrite m2X_q, !m2q_mul. fold qxp.
      rewrite (qmul_assoc qB), (qmul_assoc qxp), (qmul_assoc qxp qB qxp).
      rewrite <- (qmul_assoc qxp qB qxp), qxp_conj, qmul_neg_l, qmul_neg_r.
      rewrite abc_identity_q, m2q_neg, m2scale_q. f_equal. m2crush.
  Qed.
End ABC.

(* the emitted two-CNOT circuit is e^{-i phase/2} . controlled-(e^{i phase} R) *)
Theorem abc_circuit t0 t1 t2 phase (R0 : quat) :
  qmul (qrz t2) (qmul (qry t1) (qrz t0)) = R0 ->
  mmul RNum (ctl_phase phase)
    (mmul RNum (tgt (m2q (1, 0) (qA t1 t2)))
       (mmul RNum cnot4
          (mmul RNum (tgt (m2q (1, 0) (qB t0 t1 t2)))
             (mmul RNum cnot4 (tgt (m2q (1, 0) (qC t0 t2))))))) =
  mscale (cis RNum (- phase / 2)) (ctrl2 (m2q (cis RNum phase) R0)).
Proof.
  intros HR. destruct (abc_identity t0 t1 t2) as [H0 H1].
  apply ctrl_decomp; [exact H0|].
  rewrite H1, HR, m2scale_q. f_equal. m2crush.
Qed.

(* ---- one CNOT: lemma 5.5 ---- *)

Section L55.
  Variables th t : R.          (* th = theta1 of X.U, t = theta2 of X.U *)
  Definition qP1 : quat := qmul (qry (th / 2)) (qrz t).          (* applied first *)
  Definition qP2 : quat := qmul (qrz (- t)) (qry (- th / 2)).
  Definition qW : quat := qmul (qrz t) (qmul (qry th) (qrz t)).   (* Z-Y-Z with theta0 = theta2 *)

  Lemma l55_identity_I : qmul qP2 qP1 = qone.
  Proof.
    unfold qP2, qP1.
    rewrite <- (qmul_assoc (qrz (- t))), (qmul_assoc (qry (- th / 2))), qry_add.
    replace (- th / 2 + th / 2) with 0 by field.
    rewrite qry_0, qmul_1_l, qrz_add. replace (- t + t) with 0 by ring. apply qrz_0.
  Qed.

  Lemma l55_flipP2 : qmul (qflip qP2) qP1 = qW.
  Proof.
    unfold qP2, qP1, qW. rewrite qflip_mul, qflip_qrz, qflip_qry.
    rewrite <- (qmul_assoc (qrz (- - t))), (qmul_assoc (qry (- (- th / 2)))), qry_add.
    f_equal; [f_equal; ring|]. f_equal. f_equal. field.
  Qed.

  (* (i) P2 P1 = I and (ii) P2 X P1 = i . Rx(pi) . W, as 2x2 matrices *)
  Theorem lemma55_identity :
    m2mul (m2q (1, 0) qP2) (m2q (1, 0) qP1) = m2one /\
    m2mul (m2q (1, 0) qP2) (m2mul m2X (m2q (1, 0) qP1)) = m2q (0, 1) (qmul qxp qW).
  Proof.
    split.
    - rewrite m2q_mul, l55_identity_I, m2one_q. f_equal. m2crush.
    - rewrite m2X_q, !m2q_mul. fold qxp.
      rewrite (qmul_assoc qP2), qxp_comm, <- (qmul_assoc qxp), l55_flipP2.
      f_equal. m2crush.
  Qed.

  (* W in components: the vector [zyz] of the Python code *)
  Lemma qW_components :
    qW = (cos (th / 2) * cos t, 0, sin (th / 2), cos (th / 2) * sin t).
  Proof.
    unfold qW, qrz, qry. rewrite (aba_product AxZ AxY t th t) by discriminate.
    unfold qabc, sigma.
    change (is_sin_m_negative AxZ AxY) with false.
    change (Z.eqb (axis_index AxX) (axis_index AxZ)) with false.
    change (Z.eqb (axis_index AxX) (axis_index AxY)) with false.
    change (Z.eqb (axis_index AxY) (axis_index AxZ)) with false.
    change (Z.eqb (axis_index AxY) (axis_index AxY)) with true.
    change (Z.eqb (axis_index AxZ) (axis_index AxZ)) with true.
    cbv iota.
    replace ((t + t) / 2) with t by field. replace ((t - t) / 2) with 0 by field.
    rewrite cos_0, sin_0. tup_eq; ring.
  Qed.
End L55.

(* the 4-dimensional inner product and the sign the code computes *)
Definition qdot (p q : quat) : R := qw p * qw q + qx p * qx q + qy p * qy q + qz p * qz q.

Definition code_sign (ax : axis3 R) (angle t1x t2x : R) : R :=
  (- sin (angle / 2) * ax_x ax) * (cos (t1x / 2) * cos t2x)
  + cos (angle / 2) * 0
  + (- sin (angle / 2) * ax_z ax) * sin (t1x / 2)
  + (sin (angle / 2) * ax_y ax) * (cos (t1x / 2) * sin t2x).

Lemma code_sign_qdot ax angle t1x t2x :
  code_sign ax angle t1x t2x = qdot (qmul qxp (qrot ax angle)) (qW t1x t2x).
Proof.
  rewrite qW_components. unfold code_sign, qdot, qxp, qrot, qmul, qw, qx, qy, qz. cbn [fst snd]. ring.
Qed.

Lemma qdot_self q : qdot q q = qnorm2 q.
Proof. reflexivity. Qed.
Lemma qdot_neg_r p q : qdot p (qneg q) = - qdot p q.
Proof. unfold qdot, qneg, qw, qx, qy, qz. cbn [fst snd]. ring. Qed.

Lemma qxp_rot_unit ax angle : unit_axis ax -> qnorm2 (qmul qxp (qrot ax angle)) = 1.
Proof.
  intros Hu. rewrite qnorm2_mul, (qrot_unit ax angle Hu).
  unfold qnorm2, qxp, qw, qx, qy, qz. cbn [fst snd]. ring.
Qed.

(* if W = eps . Rx(pi) . R then the code's sign is eps *)
Theorem sign_eps ax angle t1x t2x :
  unit_axis ax ->
  (qW t1x t2x = qmul qxp (qrot ax angle) -> code_sign ax angle t1x t2x = 1) /\
  (qW t1x t2x = qneg (qmul qxp (qrot ax angle)) -> code_sign ax angle t1x t2x = -1).
Proof.
  intros Hu. rewrite code_sign_qdot. split; intros ->.
  - rewrite qdot_self. apply qxp_rot_unit, Hu.
  - rewrite qdot_neg_r, qdot_self, (qxp_rot_unit ax angle Hu). ring.
Qed.

(* the control phase chosen by the code *)
Definition code_cphase (ax : axis3 R) (angle phase t1x t2x : R) : R :=
  if Rltb (code_sign ax angle t1x t2x) 0 then phase - PI / 2 else phase + PI / 2.

Lemma cis_PI2 : cis RNum (PI / 2) = (0, 1).
Proof. unfold cis. cbn [nsin ncos RNum]. rewrite cos_PI2, sin_PI2. reflexivity. Qed.
Lemma cis_mPI2 : cis RNum (- (PI / 2)) = (0, -1).
Proof. unfold cis. cbn [nsin ncos RNum]. rewrite cos_neg, sin_neg, cos_PI2, sin_PI2. reflexivity. Qed.

(* the emitted single-CNOT circuit is a global phase times controlled-(e^{i phase} R), for the
   control phase the code chooses; eps = +1 / -1 are the two disjuncts of the hypothesis *)
Theorem lemma55_circuit ax angle phase th t :
  unit_axis ax ->
  (qW th t = qmul qxp (qrot ax angle) \/ qW th t = qneg (qmul qxp (qrot ax angle))) ->
  let d := code_cphase ax angle phase th t in
  mmul RNum (ctl_phase d)
    (mmul RNum (tgt (m2q (1, 0) (qP2 th t))) (mmul RNum cnot4 (tgt (m2q (1, 0) (qP1 th t))))) =
  mscale (cis RNum (- d / 2)) (ctrl2 (m2q (cis RNum phase) (qrot ax angle))).
Proof.
  intros Hu HW d. destruct (lemma55_identity th t) as [H0 H1].
  destruct (sign_eps ax angle th t Hu) as [Hp Hm].
  apply ctrl_decomp1; [exact H0|]. rewrite H1, m2scale_q.
  unfold d, code_cphase.
  destruct HW as [HW | HW]; rewrite HW.
  - rewrite (Hp HW).
    assert (E : Rltb 1 0 = false) by (apply Rltb_false; lra). rewrite E.
    rewrite qmul_assoc, qxp_sq, qmul_neg_l, qmul_1_l, m2q_neg, m2scale_q.
    f_equal. rewrite <- cis_mul, cis_PI2. m2crush.
  - rewrite (Hm HW).
    assert (E : Rltb (-1) 0 = true) by (apply Rltb_true; lra). rewrite E.
    rewrite qmul_neg_r, qmul_assoc, qxp_sq, qmul_neg_l, qmul_1_l, qneg_involutive.
    f_equal. unfold Rminus. rewrite <- cis_mul, cis_mPI2. m2crush.
Qed.

(* ================================================================== *)
(** * Part 3. The model *)

(* ---- matrices of the emitted gates on two qubits: control = 1, target = 0 ---- *)

Lemma get_matrix_tgt ax t ph :
  get_matrix RNum 2 (BSR 0 ax t ph) = Ok (tgt (m2q (cis RNum ph) (qrot ax t))).
Proof.
  change (get_matrix RNum 2 (BSR 0 ax t ph))
    with (Ok (kron RNum (kron RNum (eye RNum 2) (can1 RNum ax t ph)) (eye RNum 1))).
  rewrite can1_m2q. set (U := m2q (cis RNum ph) (qrot ax t)). clearbody U.
  apply f_equal. destr_all.
  unfold tgt, bd4, m2l, m00, m01, m10, m11, kron, eye, unit_row.
  cbn [seq map flat_map Nat.eqb app fst snd].
  unfold cmul, c1, c0, n1, n0. cbn [fst snd]. cbn [nofZ nadd nsub nmul RNum].
  tup_eq; ring.
Qed.

Lemma get_matrix_ctl t ph :
  get_matrix RNum 2 (BSR 1 (0, 0, 1) t ph) =
  Ok (bd4 (m2scale (cmul RNum (cis RNum ph) (cos (t / 2), - sin (t / 2))) m2one,
           m2scale (cmul RNum (cis RNum ph) (cos (t / 2), sin (t / 2))) m2one)).
Proof.
  change (get_matrix RNum 2 (BSR 1 (0, 0, 1) t ph))
    with (Ok (kron RNum (kron RNum (eye RNum 1) (can1 RNum (0, 0, 1) t ph)) (eye RNum 2))).
  apply f_equal. unfold can1. set (z := cis RNum ph). clearbody z. destruct z as [u v].
  unfold nhalf, n2, bd4, m2scale, m2one, m00, m01, m10, m11, kron, eye, unit_row, ax_x, ax_y, ax_z.
  cbn [seq map flat_map Nat.eqb app fst snd].
  unfold cmul, c1, c0, n1, n0. cbn [fst snd]. cbn [nofZ nadd nsub nmul ndiv nneg nsin ncos RNum].
  tup_eq; ring.
Qed.

Lemma get_matrix_ctrl2 ax t ph :
  get_matrix RNum 2 (Ctrl 1 (BSR 0 ax t ph)) = Ok (ctrl2 (m2q (cis RNum ph) (qrot ax t))).
Proof.
  rewrite (get_matrix_ctrl_eq RNum 2 1 _ _ ltac:(lia) (get_matrix_tgt ax t ph)).
  set (U := m2q (cis RNum ph) (qrot ax t)). clearbody U.
  apply f_equal. destr_all.
  unfold ctrl_matrix, tgt, ctrl2, bd4, m2one, m00, m01, m10, m11.
  cbn [length seq map fst snd nth Nat.eqb].
  repeat match goal with
         | |- context [N.eqb ?a ?b] =>
             let v := eval vm_compute in (N.eqb a b) in change (N.eqb a b) with v
         end.
  cbv iota. reflexivity.
Qed.

(* ---- block denotation of a gate, circuits, the identity filter ---- *)

Definition gb (g : gate R) : B2 :=
  match g with
  | BSR q ax t ph =>
      if Z.eqb q 0 then (m2q (cis RNum ph) (qrot ax t), m2q (cis RNum ph) (qrot ax t))
      else (m2scale (cmul RNum (cis RNum ph) (cos (t / 2), - sin (t / 2))) m2one,
            m2scale (cmul RNum (cis RNum ph) (cos (t / 2), sin (t / 2))) m2one)
  | Ctrl _ (BSR _ ax t ph) => (m2one, m2q (cis RNum ph) (qrot ax t))
  | _ => b2one
  end.

(* the three kinds of gates the decomposer emits (control 1, target 0) *)
Definition okgate (g : gate R) : Prop :=
  (exists ax t ph, g = BSR 0 ax t ph) \/
  (exists t ph, g = BSR 1 (0, 0, 1) t ph) \/
  (exists ax t ph, g = Ctrl 1 (BSR 0 ax t ph)).

Lemma get_matrix_gb g : okgate g -> get_matrix RNum 2 g = Ok (bd4 (gb g)).
Proof.
  intros [(ax & t & ph & ->) | [(t & ph & ->) | (ax & t & ph & ->)]].
  - apply get_matrix_tgt.
  - apply get_matrix_ctl.
  - apply get_matrix_ctrl2.
Qed.

Fixpoint bprod (l : list (gate R)) (acc : B2) : B2 :=
  match l with [] => acc | g :: l' => bprod l' (b2mul (gb g) acc) end.

Lemma circuit_bd4 l :
  Forall okgate l ->
  forall B, circuit_matrix_from RNum 2 (bd4 B) (map (fun g => SGate 1%positive g anon) l) =
            Ok (bd4 (bprod l B)).
Proof.
  induction 1 as [|g l Hg Hl IH]; intros B; [reflexivity|].
  cbn [map circuit_matrix_from bprod]. rewrite (get_matrix_gb g Hg), bd4_mmul. apply IH.
Qed.

Lemma gates_matrix_bd4 l :
  Forall okgate l -> gates_matrix RNum 2 l = Ok (bd4 (bprod l b2one)).
Proof.
  intros H. unfold gates_matrix, circuit_matrix. rewrite eye4_bd4. apply circuit_bd4, H.
Qed.

Lemma bprod_filter (keep : gate R -> bool) l :
  (forall g, In g l -> keep g = false -> gb g = b2one) ->
  forall acc, bprod (filter keep l) acc = bprod l acc.
Proof.
  induction l as [|g l IH]; intros H acc; [reflexivity|].
  cbn [filter bprod]. destruct (keep g) eqn:E.
  - cbn [bprod]. apply IH. intros g' Hin. apply H. right; exact Hin.
  - rewrite (H g (or_introl eq_refl) E), b2mul_1_l. apply IH. intros g' Hin. apply H. right; exact Hin.
Qed.

(* equal up to a common sign of both blocks *)
Definition bpm (P Q : B2) : Prop := P = Q \/ P = b2neg Q.

Lemma bpm_refl P : bpm P P.
Proof. left; reflexivity. Qed.

Lemma bpm_mul P P' Q Q' : bpm P P' -> bpm Q Q' -> bpm (b2mul P Q) (b2mul P' Q').
Proof.
  intros [-> | ->] [-> | ->]; unfold bpm;
    rewrite ?b2mul_neg_l, ?b2mul_neg_r, ?b2neg_involutive; auto.
Qed.

(* the ideal blocks *)
Definition bt (q : quat) : B2 := (m2q (1, 0) q, m2q (1, 0) q).            (* rotation on the target *)
Definition bcn : B2 := (m2one, m2X).                                       (* CNOT *)
Definition bc (d : R) : B2 :=                                              (* Rz(d) on the control *)
  (m2scale (cis RNum (- d / 2)) m2one, m2scale (cis RNum (d / 2)) m2one).

Lemma bt_mul p q : b2mul (bt p) (bt q) = bt (qmul p q).
Proof.
  unfold b2mul, bt. cbn [fst snd]. rewrite m2q_mul.
  replace (cmul RNum (1, 0) (1, 0)) with (1, 0) by m2crush. reflexivity.
Qed.
Lemma bt_one : bt qone = b2one.
Proof. unfold bt, b2one. rewrite <- m2one_q. reflexivity. Qed.
Lemma bd4_bt q : bd4 (bt q) = tgt (m2q (1, 0) q).
Proof. reflexivity. Qed.
Lemma bd4_bcn : bd4 bcn = cnot4.
Proof. reflexivity. Qed.
Lemma bd4_bc d : bd4 (bc d) = ctl_phase d.
Proof. reflexivity. Qed.

Lemma gb_rot a t : gb (BSR 0 (e_axis a) t 0) = bt (qrot (e_axis a) t).
Proof. cbn [gb Z.eqb]. rewrite cis_0. reflexivity. Qed.

Lemma bt_neg q : bt (qneg q) = b2neg (bt q).
Proof. unfold bt, b2neg. cbn [fst snd]. rewrite m2q_neg. reflexivity. Qed.

Lemma gb_rot_pm a t : bpm (gb (BSR 0 (e_axis a) (normalize_angle RNum t) 0)) (bt (qrot (e_axis a) t)).
Proof.
  rewrite gb_rot. destruct (qrot_normalize (e_axis a) t) as [-> | ->]; [left; reflexivity|].
  right. apply bt_neg.
Qed.

Lemma gb_cnot : gb (Ctrl 1 (BSR 0 (1, 0, 0) PI (PI / 2))) = bcn.
Proof.
  cbn [gb]. unfold bcn. rewrite qrot_x_PI, cis_PI2, m2X_q. reflexivity.
Qed.

Lemma gb_ctl d : gb (BSR 1 (0, 0, 1) d 0) = bc d.
Proof.
  cbn [gb Z.eqb]. unfold bc. rewrite cis_0. unfold cis. cbn [nsin ncos RNum].
  rewrite half_neg, cos_neg, sin_neg.
  apply pair_eq_gen; f_equal; m2crush.
Qed.

(* the model's matrices of CNOT(1, 0) and of Rz(d) on the control are [cnot4] and [ctl_phase d] *)
Lemma get_matrix_cnot : get_matrix RNum 2 (Ctrl 1 (BSR 0 (1, 0, 0) PI (PI / 2))) = Ok cnot4.
Proof. rewrite get_matrix_ctrl2, qrot_x_PI, cis_PI2. unfold qxp. rewrite <- m2X_q. reflexivity. Qed.

Lemma get_matrix_ctl_phase d : get_matrix RNum 2 (BSR 1 (0, 0, 1) d 0) = Ok (ctl_phase d).
Proof.
  rewrite get_matrix_ctl.
  change (Ok (bd4 (gb (BSR 1 (0, 0, 1) d 0))) = Ok (ctl_phase d)).
  rewrite gb_ctl. reflexivity.
Qed.

Lemma cos_sin_half_shift d (j : Z) :
  (cos ((d + 2 * PI * IZR j) / 2) = cos (d / 2) /\ sin ((d + 2 * PI * IZR j) / 2) = sin (d / 2)) \/
  (cos ((d + 2 * PI * IZR j) / 2) = - cos (d / 2) /\ sin ((d + 2 * PI * IZR j) / 2) = - sin (d / 2)).
Proof.
  destruct (qrot_shift (e_axis AxZ) d j) as [H | H]; [left | right];
    unfold qrot, qneg, e_axis, ax_x, ax_y, ax_z, qw, qx, qy, qz in H; cbn [fst snd] in H;
    injection H as H1 _ _ H2; split; lra.
Qed.

Lemma bc_shift_pm d (j : Z) : bpm (bc (d + 2 * PI * IZR j)) (bc d).
Proof.
  unfold bc, cis. cbn [nsin ncos RNum].
  rewrite !half_neg, !cos_neg, !sin_neg.
  destruct (cos_sin_half_shift d j) as [[-> ->] | [-> ->]]; [left; reflexivity | right].
  unfold b2neg. cbn [fst snd]. apply pair_eq_gen; m2crush.
Qed.

Lemma gb_ctl_pm d : bpm (gb (BSR 1 (0, 0, 1) (normalize_angle RNum d) 0)) (bc d).
Proof.
  rewrite gb_ctl. destruct (normalize_angle_shift d) as [j ->]. apply bc_shift_pm.
Qed.

(* what the identity filter drops *)
Lemma filter_exact_zero q ax t :
  filter_exact t ->
  negb (is_identity RNum (BSR q ax (normalize_angle RNum t) 0)) = false ->
  normalize_angle RNum t = 0.
Proof.
  intros Hf H. apply negb_false_iff in H. cbn [is_identity] in H.
  apply andb_true_iff in H. destruct H as [H _].
  change (nltb RNum (nabs RNum (normalize_angle RNum t)) (atol RNum))
    with (Rltb (Rabs (normalize_angle RNum t)) ATOL) in H.
  apply Rltb_true in H. destruct Hf as [E | Hge]; [exact E | lra].
Qed.

Lemma dropped_rot a t :
  filter_exact t ->
  negb (is_identity RNum (BSR 0 (e_axis a) (normalize_angle RNum t) 0)) = false ->
  gb (BSR 0 (e_axis a) (normalize_angle RNum t) 0) = b2one.
Proof.
  intros Hf H. rewrite (filter_exact_zero _ _ _ Hf H), gb_rot, qrot_0. apply bt_one.
Qed.

Lemma dropped_ctl d :
  filter_exact d ->
  negb (is_identity RNum (BSR 1 (0, 0, 1) (normalize_angle RNum d) 0)) = false ->
  gb (BSR 1 (0, 0, 1) (normalize_angle RNum d) 0) = b2one.
Proof.
  intros Hf H. rewrite (filter_exact_zero _ _ _ Hf H), gb_ctl. unfold bc, b2one.
  replace (- 0 / 2) with 0 by field. replace (0 / 2) with 0 by field.
  rewrite cis_0, m2scale_1. reflexivity.
Qed.

Lemma cnot_kept : negb (is_identity RNum (Ctrl 1 (BSR 0 (1, 0, 0) PI (PI / 2)))) = true.
Proof.
  cbn [is_identity].
  change (nltb RNum (nabs RNum PI) (atol RNum)) with (Rltb (Rabs PI) ATOL).
  assert (E : Rltb (Rabs PI) ATOL = false).
  { apply Rltb_false. pose proof PI_bounds. rewrite Rabs_pos_eq by lra. unfold ATOL. lra. }
  rewrite E. reflexivity.
Qed.

(* ---- the model [cnot_gates] at RNumX (idealised rounding in [compose]), c = 1, tq = 0 ---- *)

Open Scope string_scope.
Definition x_info : ginfo R := gi "X" [AQ 0%Z].
Definition cn_gate : gate R * ginfo R :=
  (Ctrl 1 (BSR 0 (1, 0, 0) PI (PI / 2)), gi "CNOT" [AQ 1%Z; AQ 0%Z]).

Lemma X_gate_X : default_gate RNumX "X" [AQ 0%Z] = Ok (BSR 0 (1, 0, 0) PI (PI / 2), x_info).
Proof.
  change (default_gate RNumX "X" [AQ 0%Z]) with (default_gate RNum "X" [AQ 0%Z]).
  rewrite X_eval, X_bsr. reflexivity.
Qed.

Lemma CNOT_gate_X : cnot RNumX 1 0 = Ok cn_gate.
Proof.
  unfold cnot. change (default_gate RNumX "CNOT" [AQ 1%Z; AQ 0%Z]) with (default_gate RNum "CNOT" [AQ 1%Z; AQ 0%Z]).
  rewrite CNOT_eval, X_bsr, mk_ctrl_bsr_ok by discriminate. reflexivity.
Qed.
Close Scope string_scope.

(* X.U as computed by the model, and its Z-Y-Z angles *)
Definition xu_gate (ax : axis3 R) (angle phase : R) : gate R :=
  fst (compose RNumX 0 (1, 0, 0) PI (PI / 2) x_info ax angle phase anon).

Definition single_list (ax : axis3 R) (angle phase t1x t2x : R) : list (gate R * ginfo R) :=
  [rot_gate RNum AxZ 0 t2x; rot_gate RNum AxY 0 (t1x / 2); cn_gate;
   rot_gate RNum AxY 0 (- t1x / 2); rot_gate RNum AxZ 0 (- t2x);
   rot_gate RNum AxZ 1 (code_cphase ax angle phase t1x t2x)].

Definition two_list (phase t0 t1 t2 : R) : list (gate R * ginfo R) :=
  [rot_gate RNum AxZ 0 ((t0 - t2) / 2); cn_gate;
   rot_gate RNum AxZ 0 (- (t0 + t2) / 2); rot_gate RNum AxY 0 (- t1 / 2); cn_gate;
   rot_gate RNum AxY 0 (t1 / 2); rot_gate RNum AxZ 0 t2;
   rot_gate RNum AxZ 1 phase].

Lemma rot_gate_X a q t : rot_gate RNumX a q t = rot_gate RNum a q t.
Proof. destruct a; reflexivity. Qed.

Lemma cnot_gates_unfold ax angle phase :
  cnot_gates RNumX 1 0 ax angle phase =
  match xu_gate ax angle phase with
  | BSR _ axx angx _ =>
      match aba_angles RNum AxZ AxY angx axx with
      | Err e => Err e
      | Ok (t0x, t1x, t2x) =>
          if Rltb (Rabs (nmod RNum (t0x - t2x) (2 * PI))) ATOL then
            Ok (filter_identities RNum (single_list ax angle phase t1x t2x))
          else
            match aba_angles RNum AxZ AxY angle ax with
            | Err e => Err e
            | Ok (t0, t1, t2) => Ok (filter_identities RNum (two_list phase t0 t1 t2))
            end
      end
  | _ => Err EOther
  end.
Proof.
  unfold cnot_gates. rewrite X_gate_X, CNOT_gate_X. unfold compose_gates, xu_gate. cbn [fst snd].
  change (Z.eqb 0 0) with true. cbv iota.
  destruct (compose RNumX 0 (1, 0, 0) PI (PI / 2) x_info ax angle phase anon) as [g gi0].
  cbn [fst]. destruct g as [q axx angx phx | c g' | m ops]; [|reflexivity|reflexivity].
  unfold ry, rz'. rewrite !rot_gate_X.
  change (aba_angles RNumX) with (aba_angles RNum).
  change (filter_identities RNumX) with (filter_identities RNum).
  destruct (aba_angles RNum AxZ AxY angx axx) as [[[t0x t1x] t2x]|e]; [|reflexivity].
  change (nltb RNumX (nabs RNumX (nmod RNumX (nsub RNumX t0x t2x) (nmul RNumX (nofZ RNumX 2) (pi RNumX)))) (atol RNumX))
    with (Rltb (Rabs (nmod RNum (t0x - t2x) (2 * PI))) ATOL).
  destruct (Rltb (Rabs (nmod RNum (t0x - t2x) (2 * PI))) ATOL).
  - reflexivity.
  - destruct (aba_angles RNum AxZ AxY angle ax) as [[[t0 t1] t2]|e]; reflexivity.
Qed.

(* ---- finishing lemmas ---- *)

Lemma mscale_mscale_gen z1 z2 (M : list (list (R * R))) :
  mscale z1 (mscale z2 M) = mscale (cmul RNum z1 z2) M.
Proof.
  unfold mscale. rewrite map_map. apply map_ext. intros row. rewrite map_map. apply map_ext.
  intros x. m2crush.
Qed.

Lemma finish_pm P Q a M :
  bpm P Q -> bd4 Q = mscale (cis RNum a) M -> exists phi, bd4 P = mscale (cis RNum phi) M.
Proof.
  intros [-> | ->] HQ.
  - exists a. exact HQ.
  - exists (PI + a). rewrite bd4_neg, HQ, mscale_mscale_gen, <- cis_PI, cis_mul. reflexivity.
Qed.

(* the controlled gate to be decomposed, as a matrix of the model *)
Definition ctrlU (ax : axis3 R) (angle phase : R) : list (list (R * R)) :=
  ctrl2 (m2q (cis RNum phase) (qrot ax angle)).

Lemma ctrlU_model ax angle phase :
  get_matrix RNum 2 (Ctrl 1 (BSR 0 ax angle phase)) = Ok (ctrlU ax angle phase).
Proof. apply get_matrix_ctrl2. Qed.

Ltac ok_gates Hg :=
  cbn [In] in Hg;
  repeat (destruct Hg as [<- | Hg];
          [ (left; do 3 eexists; reflexivity) || (right; left; do 2 eexists; reflexivity) ||
            (right; right; do 3 eexists; reflexivity) |]);
  destruct Hg.

Lemma gates_of_list (l : list (gate R * ginfo R)) :
  map fst (filter_identities RNum l) = filter (fun g => negb (is_identity RNum g)) (map fst l).
Proof. unfold filter_identities. apply (map_fst_filter (fun g => negb (is_identity RNum g))). Qed.

Lemma rot_gate_fst a q t :
  fst (rot_gate RNum a q t) = BSR q (e_axis a) (normalize_angle RNum t) 0.
Proof. rewrite rot_gate_R, mk_axis_e, normalize_angle_0. reflexivity. Qed.

(* ---- the two-CNOT branch ---- *)

Theorem cnot_gates_two_exact ax angle phase q axx angx phx t0x t1x t2x :
  unit_axis ax -> - PI < angle <= PI -> - PI + ATOL <= angle -> exact_regime AxZ AxY angle ax ->
  (* the single-CNOT test fails *)
  xu_gate ax angle phase = BSR q axx angx phx ->
  aba_angles RNum AxZ AxY angx axx = Ok (t0x, t1x, t2x) ->
  ATOL <= Rabs (nmod RNum (t0x - t2x) (2 * PI)) ->
  (* the identity filter is exact on the emitted angles *)
  (forall t0 t1 t2, aba_angles RNum AxZ AxY angle ax = Ok (t0, t1, t2) ->
     filter_exact ((t0 - t2) / 2) /\ filter_exact (- (t0 + t2) / 2) /\ filter_exact (- t1 / 2) /\
     filter_exact (t1 / 2) /\ filter_exact t2 /\ filter_exact phase) ->
  exists l phi,
    cnot_gates RNumX 1 0 ax angle phase = Ok l /\
    gates_matrix RNum 2 (map fst l) = Ok (mscale (cis RNum phi) (ctrlU ax angle phase)).
Proof.
  intros Hu Hrange Hlow Hreg Hxu Hxang Hfar Hfilt.
  destruct (aba_angles_exact_strong AxZ AxY angle ax ltac:(discriminate) Hu Hrange Hlow Hreg)
    as (t0 & t1 & t2 & Hang & Hprod).
  destruct (Hfilt t0 t1 t2 Hang) as (F1 & F2 & F3 & F4 & F5 & F6).
  exists (filter_identities RNum (two_list phase t0 t1 t2)).
  assert (Hres : cnot_gates RNumX 1 0 ax angle phase = Ok (filter_identities RNum (two_list phase t0 t1 t2))).
  { rewrite cnot_gates_unfold, Hxu, Hxang.
    assert (E : Rltb (Rabs (nmod RNum (t0x - t2x) (2 * PI))) ATOL = false) by (apply Rltb_false; exact Hfar).
    rewrite E, Hang. reflexivity. }
  enough (Hm : exists phi, gates_matrix RNum 2 (map fst (filter_identities RNum (two_list phase t0 t1 t2))) =
                            Ok (mscale (cis RNum phi) (ctrlU ax angle phase))).
  { destruct Hm as [phi Hm]. exists phi. split; [exact Hres | exact Hm]. }
  clear Hres.
  rewrite gates_of_list. unfold two_list. cbn [map]. rewrite !rot_gate_fst. cbn [fst cn_gate].
  rewrite gates_matrix_bd4.
  2:{ apply Forall_forall. intros g Hg. apply filter_In in Hg. destruct Hg as [Hg _]. ok_gates Hg. }
  rewrite bprod_filter.
  2:{ intros g Hg Hk. cbn [In] in Hg.
      destruct Hg as [<- | [<- | [<- | [<- | [<- | [<- | [<- | [<- | []]]]]]]]];
        try (apply dropped_rot; assumption);
        try (rewrite cnot_kept in Hk; discriminate).
      apply dropped_ctl; assumption. }
  cbn [bprod]. rewrite !gb_cnot, b2mul_1_r.
  match goal with |- exists phi, Ok (bd4 ?P) = _ =>
    assert (Hpm : bpm P
      (b2mul (bc phase)
        (b2mul (bt (qA t1 t2)) (b2mul bcn (b2mul (bt (qB t0 t1 t2)) (b2mul bcn (bt (qC t0 t2))))))))
  end.
  { unfold qA, qB, qC. rewrite <- !bt_mul, <- !b2mul_assoc.
    repeat apply bpm_mul; try apply gb_rot_pm; try apply gb_ctl_pm; apply bpm_refl. }
  eapply finish_pm in Hpm.
  2:{ rewrite <- !bd4_mmul, bd4_bc, !bd4_bt, bd4_bcn. exact (abc_circuit t0 t1 t2 phase _ Hprod). }
  destruct Hpm as [phi Hphi]. exists phi. rewrite Hphi. reflexivity.
Qed.

(* ---- the single-CNOT branch ---- *)

Lemma nmod_zero_shift x : nmod RNum x (2 * PI) = 0 -> exists k : Z, x = 2 * PI * IZR k.
Proof.
  cbn [nmod RNum]. unfold Rfloor. intros H. exists (Int_part (x / (2 * PI))). lra.
Qed.

Theorem cnot_gates_single_exact ax angle phase q axx angx phx t0x t1x t2x :
  unit_axis ax ->
  (* X.U as composed by the model, up to the sign of the double cover *)
  xu_gate ax angle phase = BSR q axx angx phx ->
  (qrot axx angx = qmul qxp (qrot ax angle) \/ qrot axx angx = qneg (qmul qxp (qrot ax angle))) ->
  (* its exact Z-Y-Z angles *)
  aba_angles RNum AxZ AxY angx axx = Ok (t0x, t1x, t2x) ->
  qmul (qrz t2x) (qmul (qry t1x) (qrz t0x)) = qrot axx angx ->
  (* theta0 = theta2 modulo 2 PI *)
  nmod RNum (t0x - t2x) (2 * PI) = 0 ->
  (* the identity filter is exact on the emitted angles *)
  filter_exact t2x -> filter_exact (t1x / 2) -> filter_exact (- t1x / 2) -> filter_exact (- t2x) ->
  filter_exact (code_cphase ax angle phase t1x t2x) ->
  exists l phi,
    cnot_gates RNumX 1 0 ax angle phase = Ok l /\
    gates_matrix RNum 2 (map fst l) = Ok (mscale (cis RNum phi) (ctrlU ax angle phase)).
Proof.
  intros Hu Hxu Hcomp Hxang Hzyz Hmod F1 F2 F3 F4 F5.
  set (d := code_cphase ax angle phase t1x t2x) in *.
  exists (filter_identities RNum (single_list ax angle phase t1x t2x)).
  assert (Hres : cnot_gates RNumX 1 0 ax angle phase =
                 Ok (filter_identities RNum (single_list ax angle phase t1x t2x))).
  { rewrite cnot_gates_unfold, Hxu, Hxang, Hmod, Rabs_R0.
    assert (E : Rltb 0 ATOL = true) by (apply Rltb_true; exact ATOL_pos).
    rewrite E. reflexivity. }
  enough (Hm : exists phi,
             gates_matrix RNum 2 (map fst (filter_identities RNum (single_list ax angle phase t1x t2x))) =
             Ok (mscale (cis RNum phi) (ctrlU ax angle phase))).
  { destruct Hm as [phi Hm]. exists phi. split; [exact Hres | exact Hm]. }
  clear Hres.
  (* W = Rz(t2x) Ry(t1x) Rz(t2x) is +- Rx(pi).R *)
  assert (HW : qW t1x t2x = qmul qxp (qrot ax angle) \/ qW t1x t2x = qneg (qmul qxp (qrot ax angle))).
  { destruct (nmod_zero_shift _ Hmod) as [k Hk].
    assert (E0 : t0x = t2x + 2 * PI * IZR k) by lra.
    assert (Hpm : qpm (qW t1x t2x) (qrot axx angx)).
    { rewrite <- Hzyz. unfold qW. repeat apply qpm_mul; try (left; reflexivity).
      rewrite E0. unfold qrz.
      destruct (qrot_shift (e_axis AxZ) t2x k) as [-> | ->]; [left; reflexivity|].
      right. symmetry. apply qneg_involutive. }
    destruct Hpm as [-> | ->]; destruct Hcomp as [-> | ->]; rewrite ?qneg_involutive; auto. }
  rewrite gates_of_list. unfold single_list. fold d. cbn [map]. rewrite !rot_gate_fst. cbn [fst cn_gate].
  rewrite gates_matrix_bd4.
  2:{ apply Forall_forall. intros g Hg. apply filter_In in Hg. destruct Hg as [Hg _]. ok_gates Hg. }
  rewrite bprod_filter.
  2:{ intros g Hg Hk. cbn [In] in Hg.
      destruct Hg as [<- | [<- | [<- | [<- | [<- | [<- | []]]]]]];
        try (apply dropped_rot; assumption);
        try (rewrite cnot_kept in Hk; discriminate).
      apply dropped_ctl; assumption. }
  cbn [bprod]. rewrite !gb_cnot, b2mul_1_r.
  match goal with |- exists phi, Ok (bd4 ?P) = _ =>
    assert (Hpm : bpm P (b2mul (bc d) (b2mul (bt (qP2 t1x t2x)) (b2mul bcn (bt (qP1 t1x t2x))))))
  end.
  { unfold qP1, qP2. rewrite <- !bt_mul, <- !b2mul_assoc.
    repeat apply bpm_mul; try apply gb_rot_pm; try apply gb_ctl_pm; apply bpm_refl. }
  eapply finish_pm in Hpm.
  2:{ rewrite <- !bd4_mmul, bd4_bc, !bd4_bt, bd4_bcn. exact (lemma55_circuit ax angle phase t1x t2x Hu HW). }
  destruct Hpm as [phi Hphi]. exists phi. rewrite Hphi. reflexivity.
Qed.

(* ---- both branches, under exact-regime hypotheses ---- *)

(* Stated for control qubit 1 and target qubit 0 of a two-qubit register ([gates_matrix RNum 2],
   [get_matrix RNum 2]; the control is the most significant bit of the matrix index), with the
   roundings of [compose] idealised (RNumX).  "partial": every tolerance test of the model is
   assumed to agree with its exact counterpart. *)
Theorem cnot_gates_exact_partial ax angle phase :
  unit_axis ax ->
  (* the controlled rotation: range of the angle and exact regime of its Z-Y-Z decomposition *)
  - PI < angle <= PI -> - PI + ATOL <= angle -> exact_regime AxZ AxY angle ax ->
  (* X.U: exact regime of the composition and of its Z-Y-Z decomposition *)
  compose_regime (1, 0, 0) ax PI angle ->
  (forall q axx angx phx, xu_gate ax angle phase = BSR q axx angx phx ->
     - PI < angx <= PI /\ - PI + ATOL <= angx /\ exact_regime AxZ AxY angx axx) ->
  (* the branch test agrees with exact congruence, and in the single-CNOT branch the identity
     filter is exact on the emitted angles *)
  (forall q axx angx phx t0x t1x t2x,
     xu_gate ax angle phase = BSR q axx angx phx ->
     aba_angles RNum AxZ AxY angx axx = Ok (t0x, t1x, t2x) ->
     (nmod RNum (t0x - t2x) (2 * PI) = 0 /\
      filter_exact t2x /\ filter_exact (t1x / 2) /\ filter_exact (- t1x / 2) /\ filter_exact (- t2x) /\
      filter_exact (code_cphase ax angle phase t1x t2x)) \/
     ATOL <= Rabs (nmod RNum (t0x - t2x) (2 * PI))) ->
  (* in the two-CNOT branch the identity filter is exact on the emitted angles *)
  (forall t0 t1 t2, aba_angles RNum AxZ AxY angle ax = Ok (t0, t1, t2) ->
     filter_exact ((t0 - t2) / 2) /\ filter_exact (- (t0 + t2) / 2) /\ filter_exact (- t1 / 2) /\
     filter_exact (t1 / 2) /\ filter_exact t2 /\ filter_exact phase) ->
  exists l phi M,
    cnot_gates RNumX 1 0 ax angle phase = Ok l /\
    get_matrix RNum 2 (Ctrl 1 (BSR 0 ax angle phase)) = Ok M /\
    gates_matrix RNum 2 (map fst l) = Ok (mscale (cis RNum phi) M).
Proof.
  intros Hu Hrange Hlow Hreg Hcr HregX Hbranch Hfilt2.
  assert (Hx : unit_axis (1, 0, 0)) by (unfold unit_axis, ax_x, ax_y, ax_z; cbn [fst snd]; ring).
  destruct (compose_exact_partial 0 (1, 0, 0) PI (PI / 2) x_info ax angle phase anon Hx Hu Hcr)
    as (axx & angx & phx & Hxu & Huxx & Hq).
  fold (xu_gate ax angle phase) in Hxu. rewrite qrot_x_PI in Hq.
  destruct (HregX 0%Z axx angx phx Hxu) as (Hr1 & Hr2 & Hr3).
  destruct (aba_angles_exact_strong AxZ AxY angx axx ltac:(discriminate) Huxx Hr1 Hr2 Hr3)
    as (t0x & t1x & t2x & Hxang & Hzyz).
  enough (Hm : exists l phi, cnot_gates RNumX 1 0 ax angle phase = Ok l /\
                 gates_matrix RNum 2 (map fst l) = Ok (mscale (cis RNum phi) (ctrlU ax angle phase))).
  { destruct Hm as (l & phi & H1 & H2). exists l, phi, (ctrlU ax angle phase).
    split; [exact H1|]. split; [apply ctrlU_model | exact H2]. }
  destruct (Hbranch 0%Z axx angx phx t0x t1x t2x Hxu Hxang) as [(Hmod & F1 & F2 & F3 & F4 & F5) | Hfar].
  - eapply cnot_gates_single_exact; eassumption.
  - eapply cnot_gates_two_exact; eassumption.
Qed.

Print Assumptions ctrl_decomp_blocks.
Print Assumptions ctrl_decomp.
Print Assumptions ctrl_decomp1.
Print Assumptions abc_identity.
Print Assumptions abc_circuit.
Print Assumptions lemma55_identity.
Print Assumptions sign_eps.
Print Assumptions lemma55_circuit.
Print Assumptions cnot_gates_two_exact.
Print Assumptions cnot_gates_single_exact.
Print Assumptions cnot_gates_exact_partial.
