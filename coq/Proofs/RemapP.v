(* RemapP.v — structural theorems about the qubit mapping pass
   (Model/Remap.v; mapper/mapping.py, general_mapper.py, qubit_remapper.py)
   for ANY number type [T].  Nothing here depends on a [Num] instance except
   the statement about the generic replacer, which holds for any [N : Num T]. *)
From Coq Require Import ZArith List Bool String Lia PeanoNat Permutation.
Import ListNotations.
From OSQ Require Import Num IR Construct DefaultTable Check ABA Decompose Remap Dec Writer QSExport.

(* ------------------------------------------------------------------ *)
(** * 0. Toolkit: the boolean set helpers of IR.v                       *)
(* ------------------------------------------------------------------ *)

Lemma zmem_In (x : Z) (l : list Z) : zmem x l = true <-> In x l.
Proof.
  induction l as [|y l IH]; cbn [zmem In].
  - split; [discriminate|tauto].
  - rewrite orb_true_iff, IH, Z.eqb_eq. split; intros [H|H]; auto.
Qed.

Lemma zmem_false (x : Z) (l : list Z) : zmem x l = false <-> ~ In x l.
Proof.
  rewrite <- zmem_In. destruct (zmem x l); split; try discriminate; auto.
  intros H; exfalso; now apply H.
Qed.

Lemma zsubset_incl (a b : list Z) : zsubset a b = true <-> incl a b.
Proof.
  unfold zsubset. rewrite forallb_forall. unfold incl.
  split; intros H x Hx; apply zmem_In; auto.
Qed.

Lemma zset_eq_incl (a b : list Z) : zset_eq a b = true <-> incl a b /\ incl b a.
Proof. unfold zset_eq. now rewrite andb_true_iff, !zsubset_incl. Qed.

Lemma znodup_NoDup (l : list Z) : znodup l = true <-> NoDup l.
Proof.
  induction l as [|x l IH]; cbn [znodup].
  - split; [constructor|reflexivity].
  - rewrite andb_true_iff, negb_true_iff, zmem_false, IH. split.
    + intros [H1 H2]; now constructor.
    + intros H; inversion H; auto.
Qed.

(* the key set {0..k-1} *)
Definition keys (k : nat) : list Z := map Z.of_nat (seq 0 k).

Lemma keys_length k : List.length (keys k) = k.
Proof. unfold keys. now rewrite map_length, seq_length. Qed.

Lemma keys_In k x : In x (keys k) <-> (0 <= x < Z.of_nat k)%Z.
Proof.
  unfold keys. rewrite in_map_iff. split.
  - intros [n [<- Hn]]. apply in_seq in Hn. lia.
  - intros H. exists (Z.to_nat x). split; [lia|]. apply in_seq. lia.
Qed.

Lemma keys_NoDup k : NoDup (keys k).
Proof.
  unfold keys. apply FinFun.Injective_map_NoDup; [|apply seq_NoDup].
  intros a b Hab. now apply Nat2Z.inj.
Qed.

Lemma keys_nth k n d : (n < k)%nat -> nth n (keys k) d = Z.of_nat n.
Proof.
  intros Hn. unfold keys.
  rewrite nth_indep with (d' := Z.of_nat 0) by (now rewrite map_length, seq_length).
  rewrite map_nth, seq_nth by assumption. reflexivity.
Qed.

Lemma covered_iff (l : list Z) q : covered l q = true <-> (0 <= q < Z.of_nat (List.length l))%Z.
Proof. unfold covered. rewrite andb_true_iff, Z.leb_le, Z.ltb_lt. tauto. Qed.

Lemma covered_keys (l : list Z) q : covered l q = true <-> In q (keys (List.length l)).
Proof. now rewrite covered_iff, keys_In. Qed.

(* ------------------------------------------------------------------ *)
(** * 1. Mapping.__init__ accepts exactly the permutations of 0..k-1    *)
(* ------------------------------------------------------------------ *)

Lemma mapping_ok_incl (l : list Z) :
  mapping_ok l = true <-> incl (keys (List.length l)) l /\ incl l (keys (List.length l)).
Proof. unfold mapping_ok. apply zset_eq_incl. Qed.

Theorem mapping_ok_iff_perm (l : list Z) :
  mapping_ok l = true <-> Permutation l (map Z.of_nat (seq 0 (List.length l))).
Proof.
  fold (keys (List.length l)). rewrite mapping_ok_incl. split.
  - intros [H1 _]. apply Permutation_sym.
    apply NoDup_Permutation_bis; [apply keys_NoDup| |exact H1].
    rewrite keys_length. lia.
  - intros HP. split; intros x Hx.
    + eapply Permutation_in; [apply Permutation_sym; exact HP|exact Hx].
    + eapply Permutation_in; [exact HP|exact Hx].
Qed.

Lemma mapping_ok_NoDup (l : list Z) : mapping_ok l = true -> NoDup l.
Proof.
  intros H. apply mapping_ok_iff_perm in H.
  eapply Permutation_NoDup; [apply Permutation_sym; exact H|apply keys_NoDup].
Qed.

Lemma mapping_ok_range (l : list Z) x :
  mapping_ok l = true -> In x l -> (0 <= x < Z.of_nat (List.length l))%Z.
Proof. intros H Hx. apply mapping_ok_incl in H. apply keys_In. now apply H. Qed.

Lemma mapping_ok_onto (l : list Z) x :
  mapping_ok l = true -> (0 <= x < Z.of_nat (List.length l))%Z -> In x l.
Proof. intros H Hx. apply mapping_ok_incl in H. apply H. now apply keys_In. Qed.

(* a duplicate, a value >= length, or a negative value is rejected *)
Theorem mapping_ok_rejects (l : list Z) :
  (~ NoDup l -> mapping_ok l = false) /\
  (forall x, In x l -> (Z.of_nat (List.length l) <= x)%Z -> mapping_ok l = false) /\
  (forall x, In x l -> (x < 0)%Z -> mapping_ok l = false).
Proof.
  repeat split.
  - intros H. destruct (mapping_ok l) eqn:E; [|reflexivity].
    exfalso. apply H. now apply mapping_ok_NoDup.
  - intros x Hx Hge. destruct (mapping_ok l) eqn:E; [|reflexivity].
    pose proof (mapping_ok_range l x E Hx). lia.
  - intros x Hx Hneg. destruct (mapping_ok l) eqn:E; [|reflexivity].
    pose proof (mapping_ok_range l x E Hx). lia.
Qed.

(* the explicit form with a duplicated entry *)
Corollary mapping_ok_rejects_duplicate (l1 l2 l3 : list Z) x :
  mapping_ok (l1 ++ x :: l2 ++ x :: l3) = false.
Proof.
  apply (proj1 (mapping_ok_rejects _)). intros H.
  apply NoDup_remove_2 in H. apply H.
  apply in_or_app. right. apply in_or_app. right. now left.
Qed.

(* a list that misses a key is rejected as well (dual of the pigeonhole) *)
Lemma mapping_ok_rejects_missing (l : list Z) x :
  (0 <= x < Z.of_nat (List.length l))%Z -> ~ In x l -> mapping_ok l = false.
Proof.
  intros Hx Hn. destruct (mapping_ok l) eqn:E; [|reflexivity].
  exfalso. apply Hn. now apply mapping_ok_onto.
Qed.

Theorem mapper_ok_size (size : Z) (l : list Z) :
  mapper_ok size l = true <-> mapping_ok l = true /\ size = Z.of_nat (List.length l).
Proof. unfold mapper_ok. now rewrite andb_true_iff, Z.eqb_eq. Qed.

(* Mapper(n) with no mapping: the identity mapping is always accepted *)
Lemma mapping_ok_identity k : mapping_ok (keys k) = true.
Proof.
  apply mapping_ok_iff_perm. fold (keys (List.length (keys k))).
  rewrite keys_length. apply Permutation_refl.
Qed.

Lemma mapper_ok_identity k : mapper_ok (Z.of_nat k) (keys k) = true.
Proof. apply mapper_ok_size. split; [apply mapping_ok_identity|now rewrite keys_length]. Qed.

Print Assumptions mapping_ok_iff_perm.
Print Assumptions mapping_ok_rejects.
Print Assumptions mapper_ok_size.

(* ------------------------------------------------------------------ *)
(** * 2-6. The pass on statements                                       *)
(* ------------------------------------------------------------------ *)
Section RemapP.
  Context {T : Type}.
  Implicit Types (s : stmt T) (g : gate T) (gi : ginfo T) (ir : list (stmt T)) (f : Z -> Z).

  (** ** 2. Refusals *)

  Theorem remap_too_long_refused nq (l : list Z) ir :
    (Z.of_nat (List.length l) > nq)%Z -> remap nq l ir = Err EValue.
  Proof.
    intros H. unfold remap.
    destruct (Z.ltb_spec nq (Z.of_nat (List.length l))) as [_|H']; [reflexivity|lia].
  Qed.

  Definition all_covered (l : list Z) ir : Prop :=
    Forall (fun s => Forall (fun q => covered l q = true) (stmt_all_qubits s)) ir.

  Lemma all_covered_forallb (l : list Z) ir :
    forallb (fun s => forallb (covered l) (stmt_all_qubits s)) ir = true <-> all_covered l ir.
  Proof.
    unfold all_covered. rewrite forallb_forall, Forall_forall.
    split; intros H s Hs.
    - apply Forall_forall. apply forallb_forall. now apply H.
    - apply forallb_forall. apply Forall_forall. now apply H.
  Qed.

  (* the complete case analysis of the result *)
  Theorem remap_cases nq (l : list Z) ir :
    ((Z.of_nat (List.length l) > nq)%Z /\ remap nq l ir = Err EValue) \/
    ((Z.of_nat (List.length l) <= nq)%Z /\ ~ all_covered l ir /\ remap nq l ir = Err EKey) \/
    ((Z.of_nat (List.length l) <= nq)%Z /\ all_covered l ir /\
     remap nq l ir = Ok (map (remap_stmt (apply_mapping l)) ir)).
  Proof.
    unfold remap.
    destruct (Z.ltb_spec nq (Z.of_nat (List.length l))) as [H|H]; [left; split; [lia|reflexivity]|right].
    destruct (forallb (fun s => forallb (covered l) (stmt_all_qubits s)) ir) eqn:E; cbn [negb].
    - right. repeat split; [lia|now apply all_covered_forallb].
    - left. repeat split; [lia|]. intros Hc. apply all_covered_forallb in Hc. congruence.
  Qed.

  Theorem remap_uncovered_refused nq (l : list Z) ir s q :
    (Z.of_nat (List.length l) <= nq)%Z ->
    In s ir -> In q (stmt_all_qubits s) -> covered l q = false ->
    remap nq l ir = Err EKey.
  Proof.
    intros Hlen Hs Hq Hc.
    destruct (remap_cases nq l ir) as [[H _]|[[_ [_ H]]|[_ [H _]]]]; [lia|exact H|].
    exfalso. unfold all_covered in H. rewrite Forall_forall in H.
    specialize (H s Hs). rewrite Forall_forall in H. rewrite (H q Hq) in Hc. discriminate.
  Qed.

  (* no partial result: a result exists only if every used qubit (semantic
     fields and arguments) is covered and the mapping fits the register *)
  Theorem remap_ok_covered nq (l : list Z) ir ir' :
    remap nq l ir = Ok ir' ->
    Forall (fun s => Forall (fun q => covered l q = true) (stmt_all_qubits s)) ir.
  Proof.
    intros H. destruct (remap_cases nq l ir) as [[_ E]|[[_ [_ E]]|[_ [Hc _]]]];
      [rewrite E in H; discriminate|rewrite E in H; discriminate|exact Hc].
  Qed.

  Theorem remap_ok_fits nq (l : list Z) ir ir' :
    remap nq l ir = Ok ir' -> (Z.of_nat (List.length l) <= nq)%Z.
  Proof.
    intros H. destruct (remap_cases nq l ir) as [[_ E]|[[Hl _]|[Hl _]]];
      [rewrite E in H; discriminate|exact Hl|exact Hl].
  Qed.

  (* the only errors are ValueError and KeyError, with these exact causes *)
  Theorem remap_err_iff nq (l : list Z) ir e :
    remap nq l ir = Err e <->
    (e = EValue /\ (Z.of_nat (List.length l) > nq)%Z) \/
    (e = EKey /\ (Z.of_nat (List.length l) <= nq)%Z /\ ~ all_covered l ir).
  Proof.
    destruct (remap_cases nq l ir) as [[Hl E]|[[Hl [Hc E]]|[Hl [Hc E]]]]; rewrite E; split.
    - intros H; inversion H; subst; left; auto.
    - intros [[-> _]|[_ [H _]]]; [reflexivity|lia].
    - intros H; inversion H; subst; right; auto.
    - intros [[_ H]|[-> _]]; [lia|reflexivity].
    - discriminate.
    - intros [[_ H]|[_ [_ H]]]; [lia|contradiction].
  Qed.

  (** ** 3. Success relabels every qubit and nothing else *)

  Theorem remap_relabels nq (l : list Z) ir ir' :
    remap nq l ir = Ok ir' -> ir' = map (remap_stmt (apply_mapping l)) ir.
  Proof.
    intros H. destruct (remap_cases nq l ir) as [[_ E]|[[_ [_ E]]|[_ [_ E]]]];
      rewrite E in H; try discriminate. now inversion H.
  Qed.

  Corollary remap_length nq (l : list Z) ir ir' :
    remap nq l ir = Ok ir' -> List.length ir' = List.length ir.
  Proof. intros H. rewrite (remap_relabels _ _ _ _ H). apply map_length. Qed.

  (* order: the n-th statement of the result is the image of the n-th statement *)
  Corollary remap_nth_error nq (l : list Z) ir ir' n :
    remap nq l ir = Ok ir' ->
    nth_error ir' n = option_map (remap_stmt (apply_mapping l)) (nth_error ir n).
  Proof. intros H. rewrite (remap_relabels _ _ _ _ H). apply nth_error_map. Qed.

  Lemma gate_qubits_map f g : gate_qubits (map_gate_qubits f g) = map f (gate_qubits g).
  Proof.
    induction g as [q ax a p|c g IH|m ops]; cbn [map_gate_qubits gate_qubits map]; [reflexivity| |reflexivity].
    now rewrite IH.
  Qed.

  Lemma stmt_qubits_remap f s : stmt_qubits (remap_stmt f s) = map f (stmt_qubits s).
  Proof. destruct s; cbn [remap_stmt stmt_qubits map]; [apply gate_qubits_map|reflexivity..]. Qed.

  Definition qargs_of (args : list (arg T)) : list Z :=
    flat_map (fun a => match a with AQ q => [q] | _ => [] end) args.

  Lemma ginfo_qubits_args gi :
    ginfo_qubits gi = match gargs gi with None => [] | Some args => qargs_of args end.
  Proof. reflexivity. Qed.

  Lemma qargs_of_map f (args : list (arg T)) :
    qargs_of (map (map_arg f) args) = map f (qargs_of args).
  Proof.
    induction args as [|a args IH]; [reflexivity|].
    cbn [map qargs_of flat_map]. fold (qargs_of args). fold (qargs_of (map (map_arg f) args)).
    rewrite IH, map_app. destruct a; reflexivity.
  Qed.

  Lemma ginfo_qubits_map f gi : ginfo_qubits (map_ginfo f gi) = map f (ginfo_qubits gi).
  Proof.
    rewrite !ginfo_qubits_args. unfold map_ginfo. cbn [gargs].
    destruct (gargs gi) as [args|]; cbn [option_map]; [apply qargs_of_map|reflexivity].
  Qed.

  Lemma stmt_all_qubits_remap f s : stmt_all_qubits (remap_stmt f s) = map f (stmt_all_qubits s).
  Proof.
    destruct s; cbn [remap_stmt stmt_all_qubits map].
    - now rewrite map_app, gate_qubits_map, ginfo_qubits_map.
    - now rewrite ginfo_qubits_map.
    - now rewrite ginfo_qubits_map.
    - reflexivity.
  Qed.

  (* functoriality *)
  Lemma map_gate_qubits_comp f1 f2 g :
    map_gate_qubits f2 (map_gate_qubits f1 g) = map_gate_qubits (fun q => f2 (f1 q)) g.
  Proof.
    induction g as [q ax a p|c g IH|m ops]; cbn [map_gate_qubits]; [reflexivity| |].
    - now rewrite IH.
    - now rewrite map_map.
  Qed.

  Lemma map_arg_comp f1 f2 (a : arg T) : map_arg f2 (map_arg f1 a) = map_arg (fun q => f2 (f1 q)) a.
  Proof. destruct a; reflexivity. Qed.

  Lemma map_ginfo_comp f1 f2 gi :
    map_ginfo f2 (map_ginfo f1 gi) = map_ginfo (fun q => f2 (f1 q)) gi.
  Proof.
    unfold map_ginfo. cbn [gname gargs]. f_equal.
    destruct (gargs gi) as [args|]; cbn [option_map]; [|reflexivity].
    f_equal. rewrite map_map. apply map_ext. intros a. apply map_arg_comp.
  Qed.

  Lemma remap_stmt_comp f1 f2 s :
    remap_stmt f2 (remap_stmt f1 s) = remap_stmt (fun q => f2 (f1 q)) s.
  Proof.
    destruct s; cbn [remap_stmt]; try reflexivity.
    - now rewrite map_gate_qubits_comp, map_ginfo_comp.
    - now rewrite map_ginfo_comp.
    - now rewrite map_ginfo_comp.
  Qed.

  (* the result depends on f only through its values on the qubits used *)
  Lemma map_gate_qubits_ext f1 f2 g :
    (forall q, In q (gate_qubits g) -> f1 q = f2 q) -> map_gate_qubits f1 g = map_gate_qubits f2 g.
  Proof.
    induction g as [q ax a p|c g IH|m ops]; cbn [map_gate_qubits gate_qubits]; intros H.
    - rewrite (H q); [reflexivity|now left].
    - rewrite (H c) by now left. rewrite IH; [reflexivity|]. intros q Hq. apply H. now right.
    - f_equal. apply map_ext_in. exact H.
  Qed.

  Lemma map_args_ext f1 f2 (args : list (arg T)) :
    (forall q, In q (qargs_of args) -> f1 q = f2 q) -> map (map_arg f1) args = map (map_arg f2) args.
  Proof.
    induction args as [|a args IH]; intros H; [reflexivity|].
    cbn [map]. cbn [qargs_of flat_map] in H. fold (qargs_of args) in H. f_equal.
    - destruct a; cbn [map_arg]; try reflexivity. rewrite (H q); [reflexivity|]. apply in_or_app. left. now left.
    - apply IH. intros q Hq. apply H. apply in_or_app. now right.
  Qed.

  Lemma map_ginfo_ext f1 f2 gi :
    (forall q, In q (ginfo_qubits gi) -> f1 q = f2 q) -> map_ginfo f1 gi = map_ginfo f2 gi.
  Proof.
    rewrite ginfo_qubits_args. unfold map_ginfo. intros H. f_equal.
    destruct (gargs gi) as [args|]; cbn [option_map]; [|reflexivity].
    f_equal. now apply map_args_ext.
  Qed.

  Lemma remap_stmt_ext f1 f2 s :
    (forall q, In q (stmt_all_qubits s) -> f1 q = f2 q) -> remap_stmt f1 s = remap_stmt f2 s.
  Proof.
    destruct s; cbn [remap_stmt stmt_all_qubits]; intros H; try reflexivity.
    - rewrite (map_gate_qubits_ext f1 f2), (map_ginfo_ext f1 f2); [reflexivity| |];
        intros q Hq; apply H; apply in_or_app; auto.
    - rewrite (H q) by now left. rewrite (map_ginfo_ext f1 f2); [reflexivity|].
      intros q' Hq; apply H; now right.
    - rewrite (H q) by now left. rewrite (map_ginfo_ext f1 f2); [reflexivity|].
      intros q' Hq; apply H; now right.
  Qed.

  Lemma map_gate_qubits_id g : map_gate_qubits (fun q => q) g = g.
  Proof.
    induction g as [q ax a p|c g IH|m ops]; cbn [map_gate_qubits]; [reflexivity| |].
    - now rewrite IH.
    - now rewrite map_id.
  Qed.

  Lemma map_ginfo_id gi : map_ginfo (fun q => q) gi = gi.
  Proof.
    destruct gi as [nm [args|]]; unfold map_ginfo; cbn [gname gargs option_map]; [|reflexivity].
    do 2 f_equal. rewrite <- (map_id args) at 2. apply map_ext. intros a; now destruct a.
  Qed.

  Lemma remap_stmt_id s : remap_stmt (fun q => q) s = s.
  Proof.
    destruct s; cbn [remap_stmt]; try reflexivity;
      now rewrite ?map_gate_qubits_id, ?map_ginfo_id.
  Qed.

  Lemma remap_stmt_fix f s :
    (forall q, In q (stmt_all_qubits s) -> f q = q) -> remap_stmt f s = s.
  Proof. intros H. rewrite (remap_stmt_ext f (fun q => q)); [apply remap_stmt_id|exact H]. Qed.

  (* the statement with every qubit erased: everything that must not change *)
  Definition stmt_skeleton s : stmt T := remap_stmt (fun _ => 0%Z) s.

  Theorem stmt_skeleton_remap f s : stmt_skeleton (remap_stmt f s) = stmt_skeleton s.
  Proof. unfold stmt_skeleton. apply remap_stmt_comp. Qed.

  (* the skeleton loses nothing but the qubits: skeleton + qubit list determine the statement *)
  Lemma gate_skeleton_inj g1 g2 :
    map_gate_qubits (fun _ => 0%Z) g1 = map_gate_qubits (fun _ => 0%Z) g2 ->
    gate_qubits g1 = gate_qubits g2 -> g1 = g2.
  Proof.
    revert g2. induction g1 as [q ax a p|c g1 IH|m ops]; intros [q2 ax2 a2 p2|c2 g2|m2 ops2];
      cbn [map_gate_qubits gate_qubits]; intros Hs Hq; try discriminate.
    - inversion Hs; inversion Hq; subst; reflexivity.
    - inversion Hs as [Hs']. inversion Hq as [[Hc Hq']]. subst. f_equal. now apply IH.
    - inversion Hs. subst. reflexivity.
  Qed.

  Lemma gate_skeleton_length g1 g2 :
    map_gate_qubits (fun _ => 0%Z) g1 = map_gate_qubits (fun _ => 0%Z) g2 ->
    List.length (gate_qubits g1) = List.length (gate_qubits g2).
  Proof.
    intros H. apply (f_equal gate_qubits) in H. rewrite !gate_qubits_map in H.
    apply (f_equal (@List.length Z)) in H. now rewrite !map_length in H.
  Qed.

  Lemma args_skeleton_inj (a1 a2 : list (arg T)) :
    map (map_arg (fun _ => 0%Z)) a1 = map (map_arg (fun _ => 0%Z)) a2 ->
    qargs_of a1 = qargs_of a2 -> a1 = a2.
  Proof.
    revert a2. induction a1 as [|x a1 IH]; intros [|y a2]; cbn [map]; intros Hs Hq; try discriminate; [reflexivity|].
    inversion Hs as [[Hx Hs']]. cbn [qargs_of flat_map] in Hq. fold (qargs_of a1) in Hq. fold (qargs_of a2) in Hq.
    destruct x, y; cbn [map_arg] in Hx; try discriminate; cbn [app] in Hq.
    - inversion Hq. subst. f_equal. now apply IH.
    - inversion Hx. subst. f_equal. now apply IH.
    - inversion Hx. subst. f_equal. now apply IH.
    - inversion Hx. subst. f_equal. now apply IH.
  Qed.

  Lemma ginfo_skeleton_inj gi1 gi2 :
    map_ginfo (fun _ => 0%Z) gi1 = map_ginfo (fun _ => 0%Z) gi2 ->
    ginfo_qubits gi1 = ginfo_qubits gi2 -> gi1 = gi2.
  Proof.
    rewrite !ginfo_qubits_args. destruct gi1 as [n1 [a1|]], gi2 as [n2 [a2|]];
      unfold map_ginfo; cbn [gname gargs option_map]; intros Hs Hq; inversion Hs; subst; try reflexivity.
    f_equal. f_equal. now apply args_skeleton_inj.
  Qed.

  Lemma app_eq_length_inv {A} (a1 a2 b1 b2 : list A) :
    List.length a1 = List.length a2 -> (a1 ++ b1 = a2 ++ b2)%list -> a1 = a2 /\ b1 = b2.
  Proof.
    revert a2. induction a1 as [|x a1 IH]; intros [|y a2]; cbn [List.length app]; intros Hl H; try discriminate; [now split|].
    inversion H as [[Hx H']]. destruct (IH a2) as [-> ->]; [lia|exact H'|]. now split.
  Qed.

  Theorem stmt_skeleton_lossless s1 s2 :
    stmt_skeleton s1 = stmt_skeleton s2 -> stmt_all_qubits s1 = stmt_all_qubits s2 -> s1 = s2.
  Proof.
    unfold stmt_skeleton. destruct s1 as [o1 g1 gi1|o1 q1 b1 ax1 gi1|o1 q1 gi1|t1], s2 as [o2 g2 gi2|o2 q2 b2 ax2 gi2|o2 q2 gi2|t2];
      cbn [remap_stmt stmt_all_qubits]; intros Hs Hq; try discriminate.
    - assert (Ho : o1 = o2) by congruence.
      assert (Hg : map_gate_qubits (fun _ => 0%Z) g1 = map_gate_qubits (fun _ => 0%Z) g2) by congruence.
      assert (Hgi : map_ginfo (fun _ => 0%Z) gi1 = map_ginfo (fun _ => 0%Z) gi2) by congruence.
      apply app_eq_length_inv in Hq; [|now apply gate_skeleton_length].
      destruct Hq as [Hq1 Hq2]. subst o2.
      rewrite (gate_skeleton_inj g1 g2 Hg Hq1), (ginfo_skeleton_inj gi1 gi2 Hgi Hq2). reflexivity.
    - assert (Ho : o1 = o2) by congruence. assert (Hb : b1 = b2) by congruence.
      assert (Hax : ax1 = ax2) by congruence.
      assert (Hgi : map_ginfo (fun _ => 0%Z) gi1 = map_ginfo (fun _ => 0%Z) gi2) by congruence.
      assert (Hq1 : q1 = q2) by congruence.
      assert (Hq2 : ginfo_qubits gi1 = ginfo_qubits gi2) by congruence.
      subst. rewrite (ginfo_skeleton_inj gi1 gi2 Hgi Hq2). reflexivity.
    - assert (Ho : o1 = o2) by congruence.
      assert (Hgi : map_ginfo (fun _ => 0%Z) gi1 = map_ginfo (fun _ => 0%Z) gi2) by congruence.
      assert (Hq1 : q1 = q2) by congruence.
      assert (Hq2 : ginfo_qubits gi1 = ginfo_qubits gi2) by congruence.
      subst. rewrite (ginfo_skeleton_inj gi1 gi2 Hgi Hq2). reflexivity.
    - exact Hs.
  Qed.

  (* explicit projections, all read off the skeleton *)
  Lemma skeleton_invariant {A} (P : stmt T -> A) :
    (forall s, P s = P (stmt_skeleton s)) -> forall f s, P (remap_stmt f s) = P s.
  Proof. intros H f s. now rewrite (H (remap_stmt f s)), stmt_skeleton_remap, <- H. Qed.

  Definition stmt_ginfo s : option (ginfo T) :=
    match s with SGate _ _ gi | SMeasure _ _ _ _ gi | SReset _ _ gi => Some gi | SComment _ => None end.
  Definition stmt_oid s : option positive :=
    match s with SGate o _ _ | SMeasure o _ _ _ _ | SReset o _ _ => Some o | SComment _ => None end.
  Definition stmt_name s : option (option string) := option_map (@gname T) (stmt_ginfo s).
  Definition stmt_anonymous s : option bool := option_map (@is_anonymous T) (stmt_ginfo s).
  Definition stmt_bit_axis s : option (Z * axis3 T) :=
    match s with SMeasure _ _ b ax _ => Some (b, ax) | _ => None end.
  Definition stmt_comment s : option string := match s with SComment t => Some t | _ => None end.
  Definition stmt_kind s : nat :=
    match s with SGate _ _ _ => 0 | SMeasure _ _ _ _ _ => 1 | SReset _ _ _ => 2 | SComment _ => 3 end%nat.
  (* the numeric content of a gate: axis, angle, phase of the target rotation,
     or the matrix and the number of operands; one [None] per control *)
  Fixpoint gate_data g : list (option ((axis3 T * T * T) + (list (list (T * T)) * nat))) :=
    match g with
    | BSR _ ax a p => [Some (inl (ax, a, p))]
    | Ctrl _ g' => None :: gate_data g'
    | Mat m ops => [Some (inr (m, List.length ops))]
    end.
  Definition stmt_gate_data s := match s with SGate _ g _ => gate_data g | _ => [] end.
  (* the arguments that are not qubits, with their positions: qubits replaced by a placeholder *)
  Definition arg_erase (a : arg T) : arg T := map_arg (fun _ => 0%Z) a.
  Definition stmt_args_erased s : option (option (list (arg T))) :=
    option_map (fun gi => option_map (map arg_erase) (gargs gi)) (stmt_ginfo s).

  Lemma gate_data_map f g : gate_data (map_gate_qubits f g) = gate_data g.
  Proof.
    induction g as [q ax a p|c g IH|m ops]; cbn [map_gate_qubits gate_data]; [reflexivity| |].
    - now rewrite IH.
    - now rewrite map_length.
  Qed.

  Theorem remap_stmt_preserves f s :
    stmt_kind (remap_stmt f s) = stmt_kind s /\
    stmt_oid (remap_stmt f s) = stmt_oid s /\
    stmt_name (remap_stmt f s) = stmt_name s /\
    stmt_anonymous (remap_stmt f s) = stmt_anonymous s /\
    stmt_bit_axis (remap_stmt f s) = stmt_bit_axis s /\
    stmt_comment (remap_stmt f s) = stmt_comment s /\
    stmt_gate_data (remap_stmt f s) = stmt_gate_data s /\
    stmt_args_erased (remap_stmt f s) = stmt_args_erased s.
  Proof.
    repeat split; revert f s; apply skeleton_invariant; intros s; unfold stmt_skeleton;
      destruct s as [o g gi|o q b ax gi|o q gi|t]; try reflexivity;
      cbn [remap_stmt stmt_gate_data stmt_anonymous stmt_args_erased stmt_ginfo option_map].
    - unfold is_anonymous, map_ginfo. cbn [gargs]. now destruct (gargs gi).
    - unfold is_anonymous, map_ginfo. cbn [gargs]. now destruct (gargs gi).
    - unfold is_anonymous, map_ginfo. cbn [gargs]. now destruct (gargs gi).
    - now rewrite gate_data_map.
    - unfold map_ginfo. cbn [gargs]. destruct (gargs gi) as [args|]; cbn [option_map]; [|reflexivity].
      rewrite map_map. do 2 f_equal. apply map_ext. intros a. now destruct a.
    - unfold map_ginfo. cbn [gargs]. destruct (gargs gi) as [args|]; cbn [option_map]; [|reflexivity].
      rewrite map_map. do 2 f_equal. apply map_ext. intros a. now destruct a.
    - unfold map_ginfo. cbn [gargs]. destruct (gargs gi) as [args|]; cbn [option_map]; [|reflexivity].
      rewrite map_map. do 2 f_equal. apply map_ext. intros a. now destruct a.
  Qed.

  (* arguments: positions and non-qubit arguments are untouched *)
  Lemma map_arg_nonqubit f (a : arg T) : (forall q, a <> AQ q) -> map_arg f a = a.
  Proof. destruct a; intros H; try reflexivity. now destruct (H q). Qed.

  Lemma map_arg_cases f (a : arg T) :
    (exists q, a = AQ q /\ map_arg f a = AQ (f q)) \/ ((forall q, a <> AQ q) /\ map_arg f a = a).
  Proof. destruct a; [left; eauto|right; split; [intros; discriminate|reflexivity]..]. Qed.

  (** ** 4. Both descriptions are relabelled with the same function *)

  Definition args_agree s : Prop :=
    forall gi, stmt_ginfo s = Some gi -> is_anonymous gi = false -> ginfo_qubits gi = stmt_qubits s.

  Theorem remap_both_descriptions f s :
    (forall gi, stmt_ginfo s = Some gi ->
       stmt_ginfo (remap_stmt f s) = Some (map_ginfo f gi) /\
       ginfo_qubits (map_ginfo f gi) = map f (ginfo_qubits gi)) /\
    stmt_qubits (remap_stmt f s) = map f (stmt_qubits s) /\
    (args_agree s -> args_agree (remap_stmt f s)).
  Proof.
    split; [|split].
    - intros gi H. split; [|apply ginfo_qubits_map].
      destruct s; cbn [stmt_ginfo remap_stmt] in *; try discriminate; now inversion H.
    - apply stmt_qubits_remap.
    - unfold args_agree. intros H gi' Hgi' Hanon.
      rewrite stmt_qubits_remap.
      assert (exists gi, stmt_ginfo s = Some gi /\ gi' = map_ginfo f gi) as [gi [Hgi ->]].
      { destruct s; cbn [stmt_ginfo remap_stmt] in *; try discriminate; inversion Hgi'; eauto. }
      rewrite ginfo_qubits_map. f_equal. apply H; [exact Hgi|].
      unfold is_anonymous, map_ginfo in *. cbn [gargs] in Hanon. now destruct (gargs gi).
  Qed.

  Corollary args_agree_remap f s : args_agree s -> args_agree (remap_stmt f s).
  Proof. apply remap_both_descriptions. Qed.

  Corollary remap_keeps_agreement nq (l : list Z) ir ir' :
    remap nq l ir = Ok ir' -> Forall args_agree ir -> Forall args_agree ir'.
  Proof.
    intros H Ha. rewrite (remap_relabels _ _ _ _ H). apply Forall_forall.
    intros s' Hs'. apply in_map_iff in Hs' as [s [<- Hs]]. apply args_agree_remap.
    rewrite Forall_forall in Ha. now apply Ha.
  Qed.
End RemapP.

Print Assumptions remap_too_long_refused.
Print Assumptions remap_uncovered_refused.
Print Assumptions remap_ok_covered.
Print Assumptions remap_err_iff.
Print Assumptions remap_relabels.
Print Assumptions stmt_skeleton_remap.
Print Assumptions stmt_skeleton_lossless.
Print Assumptions remap_stmt_preserves.
Print Assumptions remap_both_descriptions.

(* ------------------------------------------------------------------ *)
(** * 5-6. apply_mapping, the inverse mapping, the identity mapping     *)
(* ------------------------------------------------------------------ *)

Lemma apply_mapping_covered (l : list Z) q :
  covered l q = true -> apply_mapping l q = nth (Z.to_nat q) l q /\ In (apply_mapping l q) l.
Proof.
  intros H. apply covered_iff in H. unfold apply_mapping.
  destruct (Z.ltb_spec q 0) as [Hq|Hq]; [lia|]. split; [reflexivity|].
  apply nth_In. lia.
Qed.

(* [Mapping.__getitem__] raises KeyError outside the keys; the model returns q
   there, and [remap] never calls it there (remap_ok_covered) *)
Lemma apply_mapping_uncovered (l : list Z) q : covered l q = false -> apply_mapping l q = q.
Proof.
  intros H. unfold apply_mapping. destruct (Z.ltb_spec q 0) as [Hq|Hq]; [reflexivity|].
  apply nth_overflow. unfold covered in H. apply andb_false_iff in H as [H|H].
  - apply Z.leb_gt in H. lia.
  - apply Z.ltb_ge in H. lia.
Qed.

Lemma apply_mapping_identity k q : apply_mapping (keys k) q = q.
Proof.
  destruct (covered (keys k) q) eqn:E; [|now apply apply_mapping_uncovered].
  destruct (apply_mapping_covered _ _ E) as [-> _]. apply covered_iff in E.
  rewrite keys_length in E. rewrite keys_nth by lia. lia.
Qed.

Lemma apply_mapping_range (l : list Z) q :
  mapping_ok l = true -> covered l q = true -> covered l (apply_mapping l q) = true.
Proof.
  intros Hok Hc. apply covered_iff. apply mapping_ok_range; [exact Hok|].
  now apply apply_mapping_covered.
Qed.

(* a mapping is injective on its keys *)
Lemma apply_mapping_inj (l : list Z) q1 q2 :
  mapping_ok l = true -> covered l q1 = true -> covered l q2 = true ->
  apply_mapping l q1 = apply_mapping l q2 -> q1 = q2.
Proof.
  intros Hok H1 H2 E.
  destruct (apply_mapping_covered _ _ H1) as [E1 _]. destruct (apply_mapping_covered _ _ H2) as [E2 _].
  rewrite E1, E2 in E. apply covered_iff in H1. apply covered_iff in H2.
  rewrite (nth_indep l q1 q2) in E by lia.
  pose proof (proj1 (NoDup_nth l q2) (mapping_ok_NoDup l Hok) (Z.to_nat q1) (Z.to_nat q2)) as Hn.
  assert (Z.to_nat q1 = Z.to_nat q2) by (apply Hn; [lia|lia|exact E]). lia.
Qed.

Lemma zindex_Some x (l : list Z) p d :
  zindex x l = Some p -> (0 <= p < Z.of_nat (List.length l))%Z /\ nth (Z.to_nat p) l d = x.
Proof.
  revert p. induction l as [|y l IH]; intros p; cbn [zindex]; [discriminate|].
  destruct (Z.eqb_spec x y) as [->|Hxy].
  - intros H; inversion H; subst. cbn [List.length nth Z.to_nat]. split; [lia|reflexivity].
  - destruct (zindex x l) as [p'|]; cbn [option_map]; [|discriminate].
    intros H; inversion H; subst. destruct (IH p' eq_refl) as [Hr Hn].
    cbn [List.length]. split; [lia|].
    replace (Z.to_nat (Z.succ p')) with (S (Z.to_nat p')) by lia. exact Hn.
Qed.

Lemma zindex_In x (l : list Z) : In x l -> exists p, zindex x l = Some p.
Proof.
  induction l as [|y l IH]; cbn [In zindex]; [tauto|].
  intros H. destruct (Z.eqb_spec x y) as [->|Hxy]; [eauto|].
  destruct H as [H|H]; [congruence|]. destruct (IH H) as [p ->]. cbn [option_map]. eauto.
Qed.

(* the inverse permutation: entry i is the position of i in l *)
Definition inverse_entry (l : list Z) (i : nat) : Z :=
  match zindex (Z.of_nat i) l with Some p => p | None => Z.of_nat i end.
Definition inverse_mapping (l : list Z) : list Z := map (inverse_entry l) (seq 0 (List.length l)).

Lemma inverse_mapping_length (l : list Z) : List.length (inverse_mapping l) = List.length l.
Proof. unfold inverse_mapping. now rewrite map_length, seq_length. Qed.

Lemma inverse_mapping_nth (l : list Z) n d :
  (n < List.length l)%nat -> nth n (inverse_mapping l) d = inverse_entry l n.
Proof.
  intros Hn. unfold inverse_mapping.
  rewrite nth_indep with (d' := inverse_entry l 0) by (now rewrite map_length, seq_length).
  rewrite map_nth, seq_nth by assumption. reflexivity.
Qed.

Lemma covered_inverse (l : list Z) q : covered (inverse_mapping l) q = covered l q.
Proof. unfold covered. now rewrite inverse_mapping_length. Qed.

Theorem apply_inverse_apply (l : list Z) q :
  mapping_ok l = true -> covered l q = true ->
  apply_mapping (inverse_mapping l) (apply_mapping l q) = q.
Proof.
  intros Hok Hc.
  pose proof (apply_mapping_range l q Hok Hc) as Hv.
  destruct (apply_mapping_covered l q Hc) as [Ev Hin].
  set (v := apply_mapping l q) in *.
  rewrite <- covered_inverse in Hv.
  destruct (apply_mapping_covered _ _ Hv) as [-> _].
  rewrite covered_inverse in Hv. apply covered_iff in Hv. apply covered_iff in Hc.
  rewrite inverse_mapping_nth by lia. unfold inverse_entry.
  rewrite Z2Nat.id by lia.
  destruct (zindex_In v l Hin) as [p Hp]. rewrite Hp.
  destruct (zindex_Some v l p q Hp) as [Hr Hn].
  rewrite Ev in Hn.
  pose proof (proj1 (NoDup_nth l q) (mapping_ok_NoDup l Hok) (Z.to_nat p) (Z.to_nat q)) as Hnd.
  assert (Z.to_nat p = Z.to_nat q) by (apply Hnd; [lia|lia|exact Hn]). lia.
Qed.

Theorem apply_apply_inverse (l : list Z) q :
  mapping_ok l = true -> covered l q = true ->
  apply_mapping l (apply_mapping (inverse_mapping l) q) = q.
Proof.
  intros Hok Hc. pose proof Hc as Hc'. rewrite <- covered_inverse in Hc'.
  destruct (apply_mapping_covered _ _ Hc') as [-> _].
  apply covered_iff in Hc. rewrite inverse_mapping_nth by lia. unfold inverse_entry.
  rewrite Z2Nat.id by lia.
  destruct (zindex_In q l (mapping_ok_onto l q Hok Hc)) as [p Hp]. rewrite Hp.
  destruct (zindex_Some q l p p Hp) as [Hr Hn].
  assert (Hcp : covered l p = true) by (apply covered_iff; lia).
  destruct (apply_mapping_covered _ _ Hcp) as [-> _]. exact Hn.
Qed.

(* the inverse of a mapping is a mapping *)
Theorem inverse_mapping_ok (l : list Z) : mapping_ok l = true -> mapping_ok (inverse_mapping l) = true.
Proof.
  intros Hok. apply mapping_ok_incl. rewrite inverse_mapping_length. split; intros x Hx.
  - apply keys_In in Hx. assert (Hc : covered l x = true) by now apply covered_iff.
    rewrite <- (apply_inverse_apply l x Hok Hc).
    pose proof (apply_mapping_range l x Hok Hc) as Hv. rewrite <- covered_inverse in Hv.
    now apply apply_mapping_covered.
  - unfold inverse_mapping in Hx. apply in_map_iff in Hx as [i [<- Hi]]. apply in_seq in Hi.
    apply keys_In. unfold inverse_entry. destruct (zindex (Z.of_nat i) l) as [p|] eqn:E; [|lia].
    now destruct (zindex_Some _ _ _ 0%Z E).
Qed.

Section RemapInverse.
  Context {T : Type}.
  Implicit Types (s : stmt T) (ir : list (stmt T)).

  (** ** 5. Remapping with the inverse mapping restores the circuit *)
  Theorem remap_inverse nq (l : list Z) ir ir' :
    mapping_ok l = true -> remap nq l ir = Ok ir' -> remap nq (inverse_mapping l) ir' = Ok ir.
  Proof.
    intros Hok H.
    pose proof (remap_ok_fits _ _ _ _ H) as Hfit.
    pose proof (remap_ok_covered _ _ _ _ H) as Hcov.
    rewrite (remap_relabels _ _ _ _ H).
    destruct (remap_cases nq (inverse_mapping l) (map (remap_stmt (apply_mapping l)) ir))
      as [[Hl _]|[[_ [Hn _]]|[_ [_ E]]]].
    - rewrite inverse_mapping_length in Hl. lia.
    - exfalso. apply Hn. unfold all_covered. apply Forall_forall. intros s' Hs'.
      apply in_map_iff in Hs' as [s [<- Hs]]. rewrite stmt_all_qubits_remap.
      apply Forall_forall. intros q' Hq'. apply in_map_iff in Hq' as [q [<- Hq]].
      rewrite covered_inverse. apply apply_mapping_range; [exact Hok|].
      rewrite Forall_forall in Hcov. specialize (Hcov s Hs). rewrite Forall_forall in Hcov. now apply Hcov.
    - rewrite E. f_equal. rewrite map_map. rewrite <- (map_id ir) at 2. apply map_ext_in.
      intros s Hs. rewrite remap_stmt_comp. apply remap_stmt_fix. intros q Hq.
      apply apply_inverse_apply; [exact Hok|].
      rewrite Forall_forall in Hcov. specialize (Hcov s Hs). rewrite Forall_forall in Hcov. now apply Hcov.
  Qed.

  (* the statement as asked, with the register exactly as large as the mapping *)
  Corollary remap_inverse_full nq (l : list Z) ir ir' :
    mapper_ok nq l = true -> remap nq l ir = Ok ir' ->
    mapper_ok nq (inverse_mapping l) = true /\ remap nq (inverse_mapping l) ir' = Ok ir.
  Proof.
    intros Hm H. apply mapper_ok_size in Hm as [Hok Hsz]. split.
    - apply mapper_ok_size. split; [now apply inverse_mapping_ok|now rewrite inverse_mapping_length].
    - now apply remap_inverse.
  Qed.

  (* distinct qubits stay distinct: a mapping never merges two used qubits *)
  Corollary remap_injective_on_used nq (l : list Z) ir ir' s q1 q2 :
    mapping_ok l = true -> remap nq l ir = Ok ir' ->
    In s ir -> In q1 (stmt_all_qubits s) -> In q2 (stmt_all_qubits s) ->
    apply_mapping l q1 = apply_mapping l q2 -> q1 = q2.
  Proof.
    intros Hok H Hs H1 H2. pose proof (remap_ok_covered _ _ _ _ H) as Hcov.
    rewrite Forall_forall in Hcov. specialize (Hcov s Hs). rewrite Forall_forall in Hcov.
    apply apply_mapping_inj; auto.
  Qed.

  (** ** 6. IdentityMapper leaves the circuit unchanged *)
  Theorem remap_identity nq k ir :
    (Z.of_nat k <= nq)%Z ->
    Forall (fun s => Forall (fun q => covered (map Z.of_nat (seq 0 k)) q = true) (stmt_all_qubits s)) ir ->
    remap nq (map Z.of_nat (seq 0 k)) ir = Ok ir.
  Proof.
    fold (keys k). intros Hk Hc.
    destruct (remap_cases nq (keys k) ir) as [[Hl _]|[[_ [Hn _]]|[_ [_ E]]]].
    - rewrite keys_length in Hl. lia.
    - now destruct Hn.
    - rewrite E. f_equal. rewrite <- (map_id ir) at 2. apply map_ext. intros s.
      apply remap_stmt_fix. intros q _. apply apply_mapping_identity.
  Qed.

  (* and otherwise it is refused: the identity never changes anything *)
  Corollary remap_identity_ok_or_err nq k ir :
    remap nq (map Z.of_nat (seq 0 k)) ir = Ok ir \/ exists e, remap nq (map Z.of_nat (seq 0 k)) ir = Err e.
  Proof.
    fold (keys k). destruct (remap_cases nq (keys k) ir) as [[_ E]|[[_ [_ E]]|[Hl [Hc E]]]]; eauto.
    left. apply remap_identity; [now rewrite keys_length in Hl|exact Hc].
  Qed.
End RemapInverse.

Print Assumptions apply_inverse_apply.
Print Assumptions inverse_mapping_ok.
Print Assumptions remap_inverse.
Print Assumptions remap_identity.

(* ------------------------------------------------------------------ *)
(** * 7. Views: what the writers, the exporters and the replacer see    *)
(* ------------------------------------------------------------------ *)
Section Views.
  Context {T : Type}.
  Variable dec8 : T -> dec.
  Variable anon_text : gate T -> string.
  Implicit Types (s : stmt T) (g : gate T) (gi : ginfo T) (ir : list (stmt T)) (f : Z -> Z)
           (args : list (arg T)).

  (* relabel the captured arguments only, leave the semantic fields alone *)
  Definition remap_args f s : stmt T :=
    match s with
    | SGate o g gi => SGate o g (map_ginfo f gi)
    | SMeasure o q b ax gi => SMeasure o q b ax (map_ginfo f gi)
    | SReset o q gi => SReset o q (map_ginfo f gi)
    | SComment t => SComment t
    end.

  (* replace the captured arguments *)
  Definition with_args gi args : ginfo T := mkGinfo (gname gi) (Some args).

  Lemma map_ginfo_named f gi args :
    gargs gi = Some args -> map_ginfo f gi = with_args gi (map (map_arg f) args).
  Proof. intros H. unfold map_ginfo, with_args. now rewrite H. Qed.

  Lemma remap_stmt_split f s : remap_stmt f s = remap_args f (map_stmt_qubits f s).
  Proof. now destruct s. Qed.

  Lemma filter_qarg_map f args :
    filter (@is_qarg T) (map (map_arg f) args) = map (map_arg f) (filter (@is_qarg T) args).
  Proof.
    induction args as [|a args IH]; [reflexivity|]. cbn [map filter].
    destruct a; cbn [map_arg is_qarg map]; now rewrite IH.
  Qed.

  Lemma filter_nonqarg_map f args :
    filter (fun a => negb (is_qarg a)) (map (map_arg f) args) = filter (fun a => negb (is_qarg a)) args.
  Proof.
    induction args as [|a args IH]; [reflexivity|]. cbn [map filter].
    destruct a; cbn [map_arg is_qarg negb]; now rewrite IH.
  Qed.

  Lemma filter_qarg_qargs args : filter (@is_qarg T) args = map (fun q => AQ q) (qargs_of args).
  Proof.
    induction args as [|a args IH]; [reflexivity|]. cbn [filter qargs_of flat_map]. fold (qargs_of args).
    destruct a; cbn [is_qarg app map]; now rewrite IH.
  Qed.

  Lemma nonqarg_untouched f (a : arg T) : is_qarg a = false -> map_arg f a = a.
  Proof. now destruct a. Qed.

  Lemma v3_arg_map f (a : arg T) :
    v3_arg dec8 (map_arg f a) = match a with AQ q => qstr (f q) | _ => v3_arg dec8 a end.
  Proof. now destruct a. Qed.

  Lemma v1_arg_map f (a : arg T) :
    v1_arg dec8 (map_arg f a) = match a with AQ q => Some (qstr (f q)) | _ => v1_arg dec8 a end.
  Proof. now destruct a. Qed.

  Lemma name_of_map f gi d : name_of (map_ginfo f gi) d = name_of gi d.
  Proof. reflexivity. Qed.

  (* the qubit strings printed for a named gate *)
  Lemma v3_qubit_strings f args :
    map (v3_arg dec8) (filter (@is_qarg T) (map (map_arg f) args)) = map (fun q => qstr (f q)) (qargs_of args).
  Proof. now rewrite filter_qarg_map, filter_qarg_qargs, !map_map. Qed.

  Lemma v1_qubit_strings f args :
    all_some (map (v1_arg dec8) (filter (@is_qarg T) (map (map_arg f) args))) =
    Some (map (fun q => qstr (f q)) (qargs_of args)).
  Proof.
    rewrite filter_qarg_map, filter_qarg_qargs, !map_map. cbn [map_arg v1_arg].
    induction (qargs_of args) as [|q l IH]; [reflexivity|]. cbn [map all_some]. now rewrite IH.
  Qed.

  Definition named_or_nongate s : Prop :=
    match s with SGate _ _ gi => is_anonymous gi = false | _ => True end.

  (** cQASM 3 writer *)
  Theorem remap_view_v3 f s :
    named_or_nongate s ->
    v3_stmt dec8 anon_text (remap_stmt f s) = v3_stmt dec8 anon_text (remap_args f s).
  Proof.
    destruct s as [o g gi|o q b ax gi|o q gi|t]; cbn [named_or_nongate remap_stmt remap_args]; intros H; try reflexivity.
    unfold is_anonymous in H. destruct (gargs gi) as [args|] eqn:E; [|discriminate].
    rewrite (map_ginfo_named f gi args E). reflexivity.
  Qed.

  (* the task's concrete form: a named gate is printed from the mapped arguments *)
  Theorem remap_view_v3_gate f o g gi args :
    gargs gi = Some args ->
    v3_stmt dec8 anon_text (remap_stmt f (SGate o g gi)) =
      v3_stmt dec8 anon_text (SGate o g (with_args gi (map (map_arg f) args))) /\
    v3_stmt dec8 anon_text (remap_stmt f (SGate o g gi)) =
      (let params := map (v3_arg dec8) (filter (fun a => negb (is_qarg a)) args) in
       let qs := map (fun q => qstr (f q)) (qargs_of args) in
       Some ((name_of gi "" ++ (match params with [] => "" | _ => "(" ++ join ", " params ++ ")" end))
             ++ " " ++ join ", " qs ++ NL))%string.
  Proof.
    intros E. cbn [remap_stmt]. rewrite (map_ginfo_named f gi args E). split; [reflexivity|].
    unfold with_args. cbn [v3_stmt gargs]. rewrite filter_nonqarg_map, v3_qubit_strings. reflexivity.
  Qed.

  (* an anonymous gate is printed from its (relabelled) semantic fields *)
  Lemma remap_view_v3_anonymous f o g gi :
    gargs gi = None ->
    v3_stmt dec8 anon_text (remap_stmt f (SGate o g gi)) = Some (anon_text (map_gate_qubits f g) ++ NL)%string.
  Proof. intros E. cbn [remap_stmt v3_stmt]. unfold map_ginfo. cbn [gargs]. now rewrite E. Qed.

  Lemma remap_view_v3_measure f o q b ax gi a0 a1 rest :
    gargs gi = Some (a0 :: a1 :: rest) ->
    v3_stmt dec8 anon_text (remap_stmt f (SMeasure o q b ax gi)) =
      Some (v3_arg dec8 (map_arg f a1) ++ " = " ++ name_of gi "" ++ " " ++ v3_arg dec8 (map_arg f a0) ++ NL)%string.
  Proof. intros E. cbn [remap_stmt]. rewrite (map_ginfo_named f gi _ E). reflexivity. Qed.

  Lemma remap_view_v3_reset f o q gi a0 rest :
    gargs gi = Some (a0 :: rest) ->
    v3_stmt dec8 anon_text (remap_stmt f (SReset o q gi)) =
      Some (name_of gi "" ++ " " ++ v3_arg dec8 (map_arg f a0) ++ NL)%string.
  Proof. intros E. cbn [remap_stmt]. rewrite (map_ginfo_named f gi _ E). reflexivity. Qed.

  Corollary remap_view_write3 f nq nb ir :
    Forall named_or_nongate ir ->
    write3 dec8 anon_text nq nb (map (remap_stmt f) ir) = write3 dec8 anon_text nq nb (map (remap_args f) ir).
  Proof.
    intros H. unfold write3. rewrite !map_map.
    rewrite (map_ext_in (fun s => v3_stmt dec8 anon_text (remap_stmt f s)) (fun s => v3_stmt dec8 anon_text (remap_args f s))); [reflexivity|].
    intros s Hs. apply remap_view_v3. rewrite Forall_forall in H. now apply H.
  Qed.

  (** cQASM 1 exporter: it never reads the semantic fields *)
  Theorem remap_view_v1 f s : v1_stmt dec8 (remap_stmt f s) = v1_stmt dec8 (remap_args f s).
  Proof. destruct s as [o g gi|o q b ax gi|o q gi|t]; reflexivity. Qed.

  Theorem remap_view_v1_gate f o g gi args :
    gargs gi = Some args ->
    v1_stmt dec8 (remap_stmt f (SGate o g gi)) =
      v1_stmt dec8 (SGate o g (with_args gi (map (map_arg f) args))) /\
    v1_stmt dec8 (remap_stmt f (SGate o g gi)) =
      (let qs := map (fun q => qstr (f q)) (qargs_of args) in
       match all_some (map (v1_arg dec8) (filter (fun a => negb (is_qarg a)) args)) with
       | Some params =>
           Ok (lower (name_of gi "") ++ " " ++ join ", " qs ++
               (match params with [] => "" | _ => ", " ++ join ", " params end) ++ NL)
       | None => Err EType
       end)%string.
  Proof.
    intros E. cbn [remap_stmt]. rewrite (map_ginfo_named f gi args E). split; [reflexivity|].
    unfold with_args. cbn [v1_stmt gargs]. rewrite filter_nonqarg_map, v1_qubit_strings. reflexivity.
  Qed.

  Lemma remap_view_v1_measure f o q b ax gi q0 rest :
    gargs gi = Some (AQ q0 :: rest) ->
    v1_stmt dec8 (remap_stmt f (SMeasure o q b ax gi)) = Ok ("measure_z " ++ qstr (f q0) ++ NL)%string.
  Proof. intros E. cbn [remap_stmt]. rewrite (map_ginfo_named f gi _ E). reflexivity. Qed.

  Lemma remap_view_v1_reset f o q gi q0 rest :
    gargs gi = Some (AQ q0 :: rest) ->
    v1_stmt dec8 (remap_stmt f (SReset o q gi)) = Ok ("prep_z " ++ qstr (f q0) ++ NL)%string.
  Proof. intros E. cbn [remap_stmt]. rewrite (map_ginfo_named f gi _ E). reflexivity. Qed.

  Corollary remap_view_export_v1 f nq ir :
    export_v1 dec8 nq (map (remap_stmt f) ir) = export_v1 dec8 nq (map (remap_args f) ir).
  Proof.
    unfold export_v1. rewrite !map_map.
    rewrite (map_ext (fun s => v1_stmt dec8 (remap_stmt f s)) (fun s => v1_stmt dec8 (remap_args f s))); [reflexivity|].
    intros s. apply remap_view_v1.
  Qed.

  (** generic replacer and quantify-scheduler exporter *)
  Section WithNum.
    Context (N : Num T).

    Theorem remap_view_replacer target r f g gi :
      run_replacer N target r (map_gate_qubits f g) (map_ginfo f gi) =
      match gargs gi, gname gi with
      | Some args, Some nm => if String.eqb nm target then run_rule N r (map (map_arg f) args) else Ok [DSame]
      | _, _ => Ok [DSame]
      end.
    Proof.
      unfold run_replacer, map_ginfo. cbn [gargs gname].
      destruct (gargs gi) as [args|]; cbn [option_map]; reflexivity.
    Qed.

    (* the rule is called iff it was called before, and the semantic gate is never consulted *)
    Corollary remap_view_replacer_gate target r f g g' gi :
      run_replacer N target r g (map_ginfo f gi) = run_replacer N target r g' (map_ginfo f gi).
    Proof. reflexivity. Qed.

    (* the quantify-scheduler exporter reads the relabelled semantic fields only *)
    Lemma export_loop_remap f ir acq bm out :
      export_loop N (map (remap_stmt f) ir) acq bm out = export_loop N (map (map_stmt_qubits f) ir) acq bm out.
    Proof.
      revert acq bm out. induction ir as [|s ir IH]; intros acq bm out; [reflexivity|].
      destruct s as [o g gi|o q b ax gi|o q gi|t]; cbn [map remap_stmt map_stmt_qubits export_loop].
      - destruct (export_gate N (map_gate_qubits f g)); [apply IH|reflexivity].
      - destruct (py_index (List.length acq) (f q)); [|reflexivity].
        destruct (py_index (List.length bm) b); [apply IH|reflexivity].
      - apply IH.
      - apply IH.
    Qed.

    Theorem remap_view_qs f nq nb ir :
      export_qs N nq nb (map (remap_stmt f) ir) = export_qs N nq nb (map (map_stmt_qubits f) ir).
    Proof. unfold export_qs. apply export_loop_remap. Qed.

    (** every default gate is built with agreeing descriptions *)
    Ltac dargs n args :=
      lazymatch n with
      | O => idtac
      | S ?n' => let a := fresh "a" in destruct args as [|a args]; [|destruct a; dargs n' args]
      end.

    Lemma eval_entry_qubits e : In e hand_table -> forall args g,
      eval_entry N 2 hand_table e args = Ok g -> qargs_of args = gate_qubits g.
    Proof.
      intros He. unfold hand_table in He. cbn [In] in He.
      repeat (destruct He as [<-|He]); [..|contradiction]; intros args g;
      dargs 4%nat args; try (cbn; discriminate);
      cbn -[Z.pow Z.leb Z.opp]; unfold mk_ctrl, eval_bsrdef, mk_bsr; cbn [gate_qubits znodup zmem].
      all: try (intros H; inversion H; reflexivity).
      all: try (destruct (q =? q0)%Z; cbn; try discriminate; intros H; inversion H; reflexivity).
    Qed.

    Lemma find_entry_In name tbl e : find_entry name tbl = Some e -> In e tbl.
    Proof.
      induction tbl as [|e' tbl IH]; cbn [find_entry]; [discriminate|].
      destruct (String.eqb (e_name e') name); [intros H; inversion H; now left|intros H; right; auto].
    Qed.

    Theorem default_gate_args_agree name args g gi o :
      default_gate N name args = Ok (g, gi) -> args_agree (SGate o g gi).
    Proof.
      unfold default_gate. destruct (find_entry name hand_table) as [e|] eqn:Ef; [|discriminate].
      destruct (eval_entry N 2 hand_table e args) as [g0|] eqn:Ee; [|discriminate].
      intros H; inversion H; subst. intros gi' Hgi' _. cbn [stmt_ginfo] in Hgi'. inversion Hgi'; subst.
      cbn [stmt_qubits]. rewrite ginfo_qubits_args. cbn [gargs].
      eapply eval_entry_qubits; [eapply find_entry_In; exact Ef|exact Ee].
    Qed.
  End WithNum.
End Views.

Print Assumptions remap_view_v3.
Print Assumptions remap_view_v3_gate.
Print Assumptions remap_view_v1.
Print Assumptions remap_view_v1_gate.
Print Assumptions remap_view_replacer.
Print Assumptions remap_view_qs.
Print Assumptions default_gate_args_agree.
