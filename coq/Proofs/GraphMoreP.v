(* GraphMoreP.v — further structural theorems about Model/Graph.v:
   exact characterisation of graph_edges, composition, relabelling,
   order-independence of the edge multiset, invariance under merge. *)
From Coq Require Import String ZArith List Bool Lia Permutation.
Import ListNotations.
From OSQ Require Import Num IR Graph Remap Merge GraphP RemapP MergeP.
Local Open Scope Z_scope.

Section GraphMoreP.
  Context {T : Type}.

  Definition stmt_edge (s : stmt T) : list (Z * Z) :=
    match s with
    | SGate _ g _ => match gate_qubits g with [a; b] => [(a, b)] | _ => [] end
    | _ => []
    end.

  (* (1) exact characterisation, with order and multiplicity *)
  Theorem graph_edges_exact (ir : list (stmt T)) es :
    graph_edges ir = Ok es -> es = flat_map stmt_edge ir.
  Proof.
    revert es. induction ir as [|s ir IH]; cbn [graph_edges flat_map]; intros es H.
    - inversion H; reflexivity.
    - destruct s as [o g gi|o q bb ax gi|o q gi|t]; cbn [stmt_edge app]; try (apply IH; exact H).
      destruct (gate_qubits g) as [|a [|b [|c l]]]; try discriminate; cbn [app].
      + apply IH; exact H.
      + destruct (graph_edges ir) as [es'|e]; [|discriminate].
        inversion H; subst. f_equal. apply IH; reflexivity.
  Qed.

  (* (2) composition *)
  Theorem graph_edges_app (l1 l2 : list (stmt T)) es1 es2 :
    graph_edges l1 = Ok es1 -> graph_edges l2 = Ok es2 ->
    graph_edges (l1 ++ l2)%list = Ok (es1 ++ es2)%list.
  Proof.
    intros H1 H2. revert es1 H1.
    induction l1 as [|s l1 IH]; cbn [graph_edges app]; intros es1 H1.
    - inversion H1; subst. exact H2.
    - destruct s as [o g gi|o q bb ax gi|o q gi|t]; try (apply IH; exact H1).
      destruct (gate_qubits g) as [|a [|b [|c l]]]; try discriminate.
      + apply IH; exact H1.
      + destruct (graph_edges l1) as [es'|e]; [|discriminate].
        inversion H1; subst. rewrite (IH es' eq_refl). reflexivity.
  Qed.

  (* (3) relabelling the circuit relabels the graph *)
  Theorem graph_edges_remap (f : Z -> Z) (ir : list (stmt T)) es :
    graph_edges ir = Ok es ->
    graph_edges (map (remap_stmt f) ir) = Ok (map (fun e => (f (fst e), f (snd e))) es).
  Proof.
    revert es. induction ir as [|s ir IH]; cbn [graph_edges map]; intros es H.
    - inversion H; reflexivity.
    - destruct s as [o g gi|o q bb ax gi|o q gi|t]; cbn [remap_stmt graph_edges]; try (apply IH; exact H).
      rewrite gate_qubits_map.
      destruct (gate_qubits g) as [|a [|b [|c l]]]; try discriminate; cbn [map].
      + apply IH; exact H.
      + destruct (graph_edges ir) as [es'|e]; [|discriminate].
        inversion H; subst. rewrite (IH es' eq_refl). reflexivity.
  Qed.

  (* (4) the edge multiset does not depend on the order of the statements *)
  Theorem graph_edges_perm (ir ir' : list (stmt T)) es es' :
    Permutation ir ir' -> graph_edges ir = Ok es -> graph_edges ir' = Ok es' -> Permutation es es'.
  Proof.
    intros P H H'. rewrite (graph_edges_exact _ _ H), (graph_edges_exact _ _ H').
    apply Permutation_flat_map. exact P.
  Qed.

  (* (5) merging single-qubit gates does not change the graph *)
  Lemma stmt_edge_bsr (s : stmt T) : is_bsr_stmt s = true -> stmt_edge s = [].
  Proof.
    destruct s as [o g gi|o q bb ax gi|o q gi|t]; try reflexivity.
    destruct g as [q ax a p|c g|m ops]; cbn [is_bsr_stmt]; try discriminate. reflexivity.
  Qed.

  Lemma flat_map_stmt_edge_filter (l : list (stmt T)) :
    flat_map stmt_edge l = flat_map stmt_edge (filter (fun s => negb (is_bsr_stmt s)) l).
  Proof.
    induction l as [|s l IH]; [reflexivity|]. cbn [flat_map filter].
    destruct (is_bsr_stmt s) eqn:E; cbn [negb].
    - rewrite (stmt_edge_bsr s E). exact IH.
    - cbn [flat_map]. now rewrite IH.
  Qed.

  Theorem graph_edges_merge_invariant (N : Num T) n (ir ir' : list (stmt T)) es es' :
    merge N n ir = Ok ir' -> graph_edges ir = Ok es -> graph_edges ir' = Ok es' -> es' = es.
  Proof.
    intros Hm H H'. rewrite (graph_edges_exact _ _ H), (graph_edges_exact _ _ H').
    rewrite (flat_map_stmt_edge_filter ir'), (flat_map_stmt_edge_filter ir).
    now rewrite (merge_keeps_others N n ir ir' Hm).
  Qed.
End GraphMoreP.

(* (6) non-vacuity *)
Definition ex_ir : list (stmt nat) :=
  [SGate 1 (Ctrl 2 (BSR 0 (1,0,0)%nat 0%nat 0%nat)) anon;
   SGate 2 (BSR 2 (1,0,0)%nat 0%nat 0%nat) anon;
   SGate 3 (Ctrl 0 (BSR 1 (1,0,0)%nat 0%nat 0%nat)) anon].

Example graph_edges_example :
  graph_edges ex_ir = Ok [(2, 0); (0, 1)]
  /\ graph_edges (map (remap_stmt (fun q => q + 10)) ex_ir) = Ok [(12, 10); (10, 11)]
  /\ flat_map stmt_edge ex_ir = [(2, 0); (0, 1)].
Proof. repeat split; reflexivity. Qed.

Print Assumptions graph_edges_exact.
Print Assumptions graph_edges_app.
Print Assumptions graph_edges_remap.
Print Assumptions graph_edges_perm.
Print Assumptions graph_edges_merge_invariant.
Print Assumptions graph_edges_example.
