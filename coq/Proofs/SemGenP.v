(* SemGenP.v — the extracted, executable semantics (Model/Sem.v) at the real numbers is the semantics of
   Theory/Kraus.v in which the theorems are stated. *)
From Coq Require Import Reals ZArith List Bool Lra.
Import ListNotations.
From OSQ Require Import Num IR Bits Construct Matrix RNum Sem Kraus.
Local Open Scope R_scope.

Lemma proj_axis_gen_R ax b : proj_axis_gen RNum ax b = proj_axis ax b.
Proof.
  unfold proj_axis_gen, proj_axis. destruct b; cbn [nadd nsub nmul ndiv nneg nofZ RNum];
    repeat (f_equal; try lra).
Qed.

Lemma reset_op_gen_R b : reset_op_gen RNum b = reset_op b.
Proof. destruct b; reflexivity. Qed.

Lemma embed1_gen_R n q U : embed1_gen RNum n q U = embed1 n q U.
Proof. reflexivity. Qed.

Lemma stmt_op_gen_R n o k s : stmt_op_gen RNum n o k s = stmt_op n o k s.
Proof.
  destruct s; cbn [stmt_op_gen stmt_op]; try reflexivity;
    rewrite ?embed1_gen_R, ?proj_axis_gen_R, ?reset_op_gen_R; reflexivity.
Qed.

Lemma kraus_from_gen_R n o ir : forall k acc, kraus_from_gen RNum n o k acc ir = kraus_from n o k acc ir.
Proof.
  induction ir as [|s rest IH]; intros k acc; cbn [kraus_from_gen kraus_from]; [reflexivity|].
  rewrite stmt_op_gen_R. destruct (stmt_op n o k s) as [[[M|]|e] k']; auto.
Qed.

Theorem kraus_gen_is_kraus n outcomes ir :
  kraus_gen RNum n outcomes ir = kraus n (fun k => nth k outcomes false) ir.
Proof. apply kraus_from_gen_R. Qed.

Print Assumptions kraus_gen_is_kraus.
