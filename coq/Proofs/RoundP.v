(* RoundP.v — how far the operator of the gate returned by the real model of
   compose_bloch_sphere_rotations ([compose RNum], with the four roundings to 7
   decimals) is from the exact product of the two operators.
     1. Lipschitz bounds for [can1] in the axis and the phase
     2. the renormalisation [mk_axis] of a slightly perturbed unit vector
     3. the propagated bound for one composition
     4. chains of compositions (the fold of the merger)
     5. the shortcut branch *)
From Coq Require Import Reals ZArith List Bool Lra Lia.
Import ListNotations.
From OSQ Require Import Num IR Construct Matrix ABA Merge RTrig RNum SU2 ConstructP ABAP ComposeP.
From OSQ Require MergeP.
Open Scope R_scope.

(* ------------------------------------------------------------------ *)
(** * 0. real-analysis helpers *)

Lemma sin_le_x_pos x : 0 <= x -> sin x <= x.
Proof.
  intros [H | <-]; [left; apply sin_lt_x; exact H | rewrite sin_0; lra].
Qed.

Lemma sin_ge_mx_pos x : 0 <= x -> - x <= sin x.
Proof.
  intros H. destruct (Rle_dec 1 x) as [H1 | H1].
  - pose proof (SIN_bound x). lra.
  - destruct H as [H | <-]; [|rewrite sin_0; lra].
    assert (0 < sin x) by (apply sin_gt_0; pose proof PI_bounds; lra). lra.
Qed.

Lemma Rabs_sin_le x : Rabs (sin x) <= Rabs x.
Proof.
  destruct (Rle_dec 0 x) as [H | H].
  - rewrite (Rabs_pos_eq x H). apply Rabs_le.
    split; [apply sin_ge_mx_pos | apply sin_le_x_pos]; exact H.
  - assert (H' : 0 <= - x) by lra.
    rewrite (Rabs_left x) by lra.
    pose proof (sin_ge_mx_pos (- x) H') as H1. pose proof (sin_le_x_pos (- x) H') as H2.
    rewrite sin_neg in H1, H2. apply Rabs_le. lra.
Qed.

Lemma sin_lipschitz x y : Rabs (sin x - sin y) <= Rabs (x - y).
Proof.
  rewrite form4.
  rewrite !Rabs_mult, (Rabs_pos_eq 2) by lra.
  pose proof (COS_bound ((x + y) / 2)) as [Hc1 Hc2].
  assert (Hc : Rabs (cos ((x + y) / 2)) <= 1) by (apply Rabs_le; lra).
  pose proof (Rabs_sin_le ((x - y) / 2)) as Hs.
  pose proof (Rabs_pos (cos ((x + y) / 2))) as Hc0.
  pose proof (Rabs_pos (sin ((x - y) / 2))) as Hs0.
  replace (Rabs (x - y)) with (2 * Rabs ((x - y) / 2)).
  2:{ unfold Rdiv. rewrite Rabs_mult, (Rabs_pos_eq (/ 2)) by lra. lra. }
  nra.
Qed.

Lemma cos_lipschitz x y : Rabs (cos x - cos y) <= Rabs (x - y).
Proof.
  rewrite form2.
  rewrite !Rabs_mult, (Rabs_left (-2)) by lra.
  pose proof (SIN_bound ((x + y) / 2)) as [Hc1 Hc2].
  assert (Hc : Rabs (sin ((x + y) / 2)) <= 1) by (apply Rabs_le; lra).
  pose proof (Rabs_sin_le ((x - y) / 2)) as Hs.
  pose proof (Rabs_pos (sin ((x + y) / 2))) as Hc0.
  pose proof (Rabs_pos (sin ((x - y) / 2))) as Hs0.
  replace (Rabs (x - y)) with (2 * Rabs ((x - y) / 2)).
  2:{ unfold Rdiv. rewrite Rabs_mult, (Rabs_pos_eq (/ 2)) by lra. lra. }
  nra.
Qed.

Lemma sq_le_of_Rabs a b : Rabs a <= Rabs b -> a * a <= b * b.
Proof.
  unfold Rabs. destruct (Rcase_abs a), (Rcase_abs b); intros H; nra.
Qed.

(* the chord of the unit circle is shorter than the arc *)
Lemma cis_chord x y :
  (cos x - cos y) * (cos x - cos y) + (sin x - sin y) * (sin x - sin y) <= (x - y) * (x - y).
Proof.
  rewrite form2, form4.
  pose proof (sin2_cos2 ((x + y) / 2)) as H1. unfold Rsqr in H1.
  pose proof (Rabs_sin_le ((x - y) / 2)) as Hs.
  set (s := sin ((x - y) / 2)) in *. set (t := (x - y) / 2) in *.
  replace (x - y) with (2 * t) by (unfold t; field).
  assert (Hss : s * s <= t * t).
  { apply sq_le_of_Rabs. exact Hs. }
  set (a := sin ((x + y) / 2)) in *. set (b := cos ((x + y) / 2)) in *.
  replace (-2 * s * a * (-2 * s * a) + 2 * b * s * (2 * b * s)) with (4 * (s * s) * (a * a + b * b)) by ring.
  rewrite H1. lra.
Qed.

Lemma Rabs_le_of_sq x d : 0 <= d -> x * x <= d * d -> Rabs x <= d.
Proof.
  intros Hd H. apply Rabs_le. split; nra.
Qed.

Lemma Rabs_le_sqrt x S : x * x <= S -> Rabs x <= sqrt S.
Proof.
  intros H. assert (HS : 0 <= S) by nra.
  apply Rabs_le_of_sq; [apply sqrt_pos|]. rewrite sqrt_sqrt by exact HS. exact H.
Qed.

(* Cauchy-Schwarz in the plane *)
Lemma cs2 a b x y : (a * x + b * y) * (a * x + b * y) <= (a * a + b * b) * (x * x + y * y).
Proof.
  assert (H : 0 <= (a * y - b * x) * (a * y - b * x)) by (apply Rle_0_sqr).
  lra.
Qed.

Lemma sq_le_prod t A B d :
  t * t <= A * B -> 0 <= A -> A <= d * d -> 0 <= B -> B <= 1 -> t * t <= d * d.
Proof.
  intros H HA HAd HB HB1. apply (Rle_trans _ (A * B)); [exact H|].
  replace (d * d) with (d * d * 1) by ring. apply Rmult_le_compat; assumption.
Qed.

(* ------------------------------------------------------------------ *)
(** * 1. Lipschitz bounds for the operator [can1] *)

Definition entry (M : list (list (R * R))) (r c : nat) : R * R := nth c (nth r M []) (0, 0).

(* two complex numbers whose real and imaginary parts differ by at most d *)
Definition cclose (d : R) (x y : R * R) : Prop :=
  Rabs (fst x - fst y) <= d /\ Rabs (snd x - snd y) <= d.

(* entry-wise distance of two 2x2 matrices, in the max norm over real and imaginary parts *)
Definition mclose (d : R) (A B : list (list (R * R))) : Prop :=
  forall r c, (r < 2)%nat -> (c < 2)%nat -> cclose d (entry A r c) (entry B r c).

Lemma cclose_mono d d' x y : d <= d' -> cclose d x y -> cclose d' x y.
Proof. intros H [H1 H2]. split; lra. Qed.

Lemma mclose_mono d d' A B : d <= d' -> mclose d A B -> mclose d' A B.
Proof. intros H HA r c Hr Hc. apply (cclose_mono d); [exact H | apply HA; assumption]. Qed.

Lemma cclose_refl d x : 0 <= d -> cclose d x x.
Proof. intros H. split; rewrite Rminus_diag_eq, Rabs_R0 by reflexivity; exact H. Qed.

Lemma cclose_sym d x y : cclose d x y -> cclose d y x.
Proof. intros [H1 H2]. split; rewrite Rabs_minus_sym; assumption. Qed.

Lemma cclose_trans d1 d2 x y z : cclose d1 x y -> cclose d2 y z -> cclose (d1 + d2) x z.
Proof.
  intros [H1 H2] [H3 H4]. split.
  - replace (fst x - fst z) with ((fst x - fst y) + (fst y - fst z)) by ring.
    eapply Rle_trans; [apply Rabs_triang | lra].
  - replace (snd x - snd z) with ((snd x - snd y) + (snd y - snd z)) by ring.
    eapply Rle_trans; [apply Rabs_triang | lra].
Qed.

Lemma mclose_trans d1 d2 A B C : mclose d1 A B -> mclose d2 B C -> mclose (d1 + d2) A C.
Proof. intros H1 H2 r c Hr Hc. eapply cclose_trans; [apply H1 | apply H2]; assumption. Qed.

Lemma mclose_sym d A B : mclose d A B -> mclose d B A.
Proof. intros H r c Hr Hc. apply cclose_sym, H; assumption. Qed.

Lemma mclose_intro d a00 a01 a10 a11 b00 b01 b10 b11 :
  cclose d a00 b00 -> cclose d a01 b01 -> cclose d a10 b10 -> cclose d a11 b11 ->
  mclose d [[a00; a01]; [a10; a11]] [[b00; b01]; [b10; b11]].
Proof.
  intros H00 H01 H10 H11 r c Hr Hc.
  destruct r as [|[|r]]; [| |lia]; (destruct c as [|[|c]]; [| |lia]);
    unfold entry; cbn [nth]; assumption.
Qed.

Lemma mclose_elim d a00 a01 a10 a11 b00 b01 b10 b11 :
  mclose d [[a00; a01]; [a10; a11]] [[b00; b01]; [b10; b11]] ->
  cclose d a00 b00 /\ cclose d a01 b01 /\ cclose d a10 b10 /\ cclose d a11 b11.
Proof.
  intros H.
  pose proof (H 0%nat 0%nat ltac:(lia) ltac:(lia)) as H00.
  pose proof (H 0%nat 1%nat ltac:(lia) ltac:(lia)) as H01.
  pose proof (H 1%nat 0%nat ltac:(lia) ltac:(lia)) as H10.
  pose proof (H 1%nat 1%nat ltac:(lia) ltac:(lia)) as H11.
  unfold entry in *. cbn [nth] in *. auto.
Qed.

(* a phase factor times a complex number of modulus at most 1: Lipschitz in both *)
Lemma cis_mul_close p p' (x y : R * R) D :
  0 <= D ->
  (fst x - fst y) * (fst x - fst y) + (snd x - snd y) * (snd x - snd y) <= D * D ->
  fst y * fst y + snd y * snd y <= 1 ->
  cclose (D + Rabs (p - p')) (cmul RNum (cis RNum p) x) (cmul RNum (cis RNum p') y).
Proof.
  destruct x as [xr xi], y as [yr yi]. cbn [fst snd]. intros HD Hxy Hy.
  unfold cclose, cmul, cis. cbn [fst snd nadd nsub nmul ncos nsin RNum].
  pose proof (sin2_cos2 p) as Hp. unfold Rsqr in Hp.
  pose proof (cis_chord p p') as Hch.
  pose proof (Rabs_pos (p - p')) as Hap.
  assert (Hpp : (p - p') * (p - p') = Rabs (p - p') * Rabs (p - p')).
  { unfold Rabs. destruct (Rcase_abs (p - p')); ring. }
  set (dc := cos p - cos p') in *. set (ds := sin p - sin p') in *.
  set (dr := xr - yr) in *. set (di := xi - yi) in *.
  split.
  - replace (cos p * xr - sin p * xi - (cos p' * yr - sin p' * yi))
      with ((dr * cos p + di * (- sin p)) + (dc * yr + (- ds) * yi)) by (unfold dc, ds, dr, di; ring).
    eapply Rle_trans; [apply Rabs_triang|]. apply Rplus_le_compat.
    + apply Rabs_le_of_sq; [exact HD|].
      apply (sq_le_prod _ _ _ _ (cs2 dr di (cos p) (- sin p))); nra.
    + apply Rabs_le_of_sq; [exact Hap|].
      apply (sq_le_prod _ _ _ _ (cs2 dc (- ds) yr yi)); nra.
  - replace (cos p * xi + sin p * xr - (cos p' * yi + sin p' * yr))
      with ((di * cos p + dr * sin p) + (dc * yi + ds * yr)) by (unfold dc, ds, dr, di; ring).
    eapply Rle_trans; [apply Rabs_triang|]. apply Rplus_le_compat.
    + apply Rabs_le_of_sq; [exact HD|].
      apply (sq_le_prod _ _ _ _ (cs2 di dr (cos p) (sin p))); nra.
    + apply Rabs_le_of_sq; [exact Hap|].
      apply (sq_le_prod _ _ _ _ (cs2 dc ds yi yr)); nra.
Qed.

(* Euclidean distance of two axes *)
Definition adist2 (u v : axis3 R) : R :=
  (ax_x u - ax_x v) * (ax_x u - ax_x v) + (ax_y u - ax_y v) * (ax_y u - ax_y v) +
  (ax_z u - ax_z v) * (ax_z u - ax_z v).
Definition adist (u v : axis3 R) : R := sqrt (adist2 u v).

Lemma adist2_nonneg u v : 0 <= adist2 u v.
Proof. unfold adist2. repeat apply Rplus_le_le_0_compat; apply Rle_0_sqr. Qed.

Lemma adist_nonneg u v : 0 <= adist u v.
Proof. apply sqrt_pos. Qed.

Lemma adist_sq u v : adist u v * adist u v = adist2 u v.
Proof. apply sqrt_sqrt, adist2_nonneg. Qed.

Lemma adist_le_l1 u v :
  adist u v <= Rabs (ax_x u - ax_x v) + Rabs (ax_y u - ax_y v) + Rabs (ax_z u - ax_z v).
Proof.
  pose proof (Rabs_pos (ax_x u - ax_x v)) as H1. pose proof (Rabs_pos (ax_y u - ax_y v)) as H2.
  pose proof (Rabs_pos (ax_z u - ax_z v)) as H3.
  rewrite <- (Rabs_pos_eq (adist u v)) by apply adist_nonneg.
  apply Rabs_le_of_sq; [lra|]. rewrite adist_sq. unfold adist2.
  assert (E : forall t, t * t = Rabs t * Rabs t) by (intros t; unfold Rabs; destruct (Rcase_abs t); ring).
  rewrite (E (ax_x u - ax_x v)), (E (ax_y u - ax_y v)), (E (ax_z u - ax_z v)). nra.
Qed.

Lemma adist_le_of_sq u v d : 0 <= d -> adist2 u v <= d * d -> adist u v <= d.
Proof.
  intros Hd H. rewrite <- (Rabs_pos_eq (adist u v)) by apply adist_nonneg.
  apply Rabs_le_of_sq; [exact Hd|]. rewrite adist_sq. exact H.
Qed.

(* the operator as a function of the axis (Euclidean distance) and the phase *)
Theorem can1_lipschitz u v a p p' :
  unit_axis v ->
  mclose (adist u v + Rabs (p - p')) (can1 RNum u a p) (can1 RNum v a p').
Proof.
  intros Hv.
  destruct u as [[ux uy] uz], v as [[vx vy] vz].
  pose proof (adist_nonneg (ux, uy, uz) (vx, vy, vz)) as HD.
  pose proof (adist_sq (ux, uy, uz) (vx, vy, vz)) as HDD.
  set (D := adist (ux, uy, uz) (vx, vy, vz)) in *.
  unfold adist2, unit_axis, ax_x, ax_y, ax_z in *. cbn [fst snd] in *.
  unfold can1, nhalf, n2, ax_x, ax_y, ax_z. cbn [fst snd].
  cbn [nofZ ndiv nneg nmul nsin ncos RNum].
  pose proof (sin2_cos2 (a / 2)) as Ha. unfold Rsqr in Ha.
  set (s := sin (a / 2)) in *. set (c := cos (a / 2)) in *.
  assert (Hss : 0 <= s * s) by apply Rle_0_sqr.
  assert (Hcc : 0 <= c * c) by apply Rle_0_sqr.
  assert (Hs2 : s * s <= 1) by lra.
  assert (Hx2 : 0 <= (ux - vx) * (ux - vx)) by apply Rle_0_sqr.
  assert (Hy2 : 0 <= (uy - vy) * (uy - vy)) by apply Rle_0_sqr.
  assert (Hz2 : 0 <= (uz - vz) * (uz - vz)) by apply Rle_0_sqr.
  assert (Hvx : 0 <= vx * vx) by apply Rle_0_sqr. assert (Hvy : 0 <= vy * vy) by apply Rle_0_sqr.
  assert (Hvz : 0 <= vz * vz) by apply Rle_0_sqr.
  apply mclose_intro; apply cis_mul_close; try exact HD; cbn [fst snd]; try rewrite HDD.
  - replace (c - c) with 0 by ring.
    replace (- (s * uz) - - (s * vz)) with (- s * (uz - vz)) by ring. nra.
  - nra.
  - replace (- (s * uy) - - (s * vy)) with (- s * (uy - vy)) by ring.
    replace (- (s * ux) - - (s * vx)) with (- s * (ux - vx)) by ring. nra.
  - nra.
  - replace (s * uy - s * vy) with (s * (uy - vy)) by ring.
    replace (- (s * ux) - - (s * vx)) with (- s * (ux - vx)) by ring. nra.
  - nra.
  - replace (c - c) with 0 by ring.
    replace (s * uz - s * vz) with (s * (uz - vz)) by ring. nra.
  - nra.
Qed.

(* the form asked for: l1 distance of the axes plus the phase difference *)
Theorem can1_entry_lipschitz u v a p p' :
  unit_axis u -> unit_axis v ->
  forall r c, (r < 2)%nat -> (c < 2)%nat ->
    Rabs (fst (entry (can1 RNum u a p) r c) - fst (entry (can1 RNum v a p') r c)) <=
      Rabs (ax_x u - ax_x v) + Rabs (ax_y u - ax_y v) + Rabs (ax_z u - ax_z v) + Rabs (p - p') /\
    Rabs (snd (entry (can1 RNum u a p) r c) - snd (entry (can1 RNum v a p') r c)) <=
      Rabs (ax_x u - ax_x v) + Rabs (ax_y u - ax_y v) + Rabs (ax_z u - ax_z v) + Rabs (p - p').
Proof.
  intros _ Hv r c Hr Hc.
  apply (mclose_mono (adist u v + Rabs (p - p'))); [|apply can1_lipschitz; exact Hv | exact Hr | exact Hc].
  pose proof (adist_le_l1 u v). lra.
Qed.

(* ------------------------------------------------------------------ *)
(** * 2. renormalising a slightly perturbed unit vector *)

(* Cauchy-Schwarz in space (Lagrange's identity) *)
Lemma cs3 a b c x y z :
  (a * x + b * y + c * z) * (a * x + b * y + c * z) <= (a * a + b * b + c * c) * (x * x + y * y + z * z).
Proof.
  assert (H1 : 0 <= (a * y - b * x) * (a * y - b * x)) by apply Rle_0_sqr.
  assert (H2 : 0 <= (a * z - c * x) * (a * z - c * x)) by apply Rle_0_sqr.
  assert (H3 : 0 <= (b * z - c * y) * (b * z - c * y)) by apply Rle_0_sqr.
  lra.
Qed.

Lemma unit_axis_of_norm3 v : norm3 RNum v = 1 -> unit_axis v.
Proof.
  destruct v as [[a b] c]. rewrite norm3_RNum. unfold unit_axis, ax_x, ax_y, ax_z. cbn [fst snd].
  intros H. assert (HS : 0 <= a * a + b * b + c * c).
  { repeat apply Rplus_le_le_0_compat; apply Rle_0_sqr. }
  rewrite <- (sqrt_sqrt _ HS), H. ring.
Qed.

(* the norm of w is within |w - v| of 1, and normalising w does not move it away from v:
   n |w/n - v|^2 = |w - v|^2 - (n - 1)^2 *)
Lemma mk_axis_near v w d :
  unit_axis v -> 0 <= d -> d < 1 -> adist2 w v <= d * d ->
  1 - d <= norm3 RNum w /\ adist2 (mk_axis RNum w) v * (1 - d) <= d * d.
Proof.
  destruct v as [[vx vy] vz], w as [[a b] c].
  intros Hv Hd0 Hd1 Hw.
  rewrite mk_axis_RNum, norm3_RNum.
  unfold unit_axis, adist2, ax_x, ax_y, ax_z in *. cbn [fst snd] in *.
  assert (HS : 0 <= a * a + b * b + c * c).
  { repeat apply Rplus_le_le_0_compat; apply Rle_0_sqr. }
  pose proof (sqrt_sqrt _ HS) as Hnn. pose proof (sqrt_pos (a * a + b * b + c * c)) as Hn0.
  set (n := sqrt (a * a + b * b + c * c)) in *.
  set (D2 := (a - vx) * (a - vx) + (b - vy) * (b - vy) + (c - vz) * (c - vz)) in *.
  assert (HD2 : 0 <= D2).
  { unfold D2. repeat apply Rplus_le_le_0_compat; apply Rle_0_sqr. }
  (* w.w = 1 + 2 v.(w - v) + |w - v|^2 and (v.(w - v))^2 <= |w - v|^2 *)
  set (t := vx * (a - vx) + vy * (b - vy) + vz * (c - vz)).
  assert (Hexp : n * n = 1 + 2 * t + D2) by (rewrite Hnn; unfold t, D2; nra).
  assert (Ht : t * t <= D2).
  { pose proof (cs3 vx vy vz (a - vx) (b - vy) (c - vz)) as H. rewrite Hv in H.
    fold t in H. fold D2 in H. lra. }
  assert (Htd : - d <= t) by nra.
  assert (Hn : 1 - d <= n) by nra.
  split; [exact Hn|].
  assert (Hnp : 0 < n) by lra.
  assert (E : ((a / n - vx) * (a / n - vx) + (b / n - vy) * (b / n - vy) + (c / n - vz) * (c / n - vz)) * n
              = D2 - (n - 1) * (n - 1)).
  { replace (((a / n - vx) * (a / n - vx) + (b / n - vy) * (b / n - vy) + (c / n - vz) * (c / n - vz)) * n)
      with ((a * a + b * b + c * c) / n - 2 * (a * vx + b * vy + c * vz) + (vx * vx + vy * vy + vz * vz) * n)
      by (field; lra).
    rewrite <- Hnn, Hv. unfold D2.
    replace ((a - vx) * (a - vx) + (b - vy) * (b - vy) + (c - vz) * (c - vz))
      with ((a * a + b * b + c * c) - 2 * (a * vx + b * vy + c * vz) + (vx * vx + vy * vy + vz * vz)) by ring.
    rewrite <- Hnn, Hv. field. lra. }
  set (U := (a / n - vx) * (a / n - vx) + (b / n - vy) * (b / n - vy) + (c / n - vz) * (c / n - vz)) in *.
  assert (HU : 0 <= U).
  { unfold U. repeat apply Rplus_le_le_0_compat; apply Rle_0_sqr. }
  assert (Hq : 0 <= (n - 1) * (n - 1)) by apply Rle_0_sqr.
  apply (Rle_trans _ (U * n)); [apply Rmult_le_compat_l; lra | lra].
Qed.

(* from the componentwise bound e to the Euclidean bound K, through any d with 3 e^2 <= d^2 *)
Lemma mk_axis_near_K v w e d K :
  unit_axis v -> 0 <= e ->
  Rabs (ax_x w - ax_x v) <= e -> Rabs (ax_y w - ax_y v) <= e -> Rabs (ax_z w - ax_z v) <= e ->
  0 <= d -> d < 1 -> 3 * (e * e) <= d * d -> 0 <= K -> d * d <= K * K * (1 - d) ->
  unit_axis (mk_axis RNum w) /\ adist (mk_axis RNum w) v <= K.
Proof.
  intros Hv He Hx Hy Hz Hd0 Hd1 Hed HK HdK.
  assert (Hw : adist2 w v <= d * d).
  { unfold adist2.
    pose proof (sq_le_of_Rabs (ax_x w - ax_x v) e) as H1.
    pose proof (sq_le_of_Rabs (ax_y w - ax_y v) e) as H2.
    pose proof (sq_le_of_Rabs (ax_z w - ax_z v) e) as H3.
    rewrite (Rabs_pos_eq e He) in H1, H2, H3. specialize (H1 Hx). specialize (H2 Hy). specialize (H3 Hz).
    lra. }
  destruct (mk_axis_near v w d Hv Hd0 Hd1 Hw) as [Hn HU].
  split.
  - apply unit_axis_of_norm3, mk_axis_unit. lra.
  - apply adist_le_of_sq; [exact HK|].
    pose proof (adist2_nonneg (mk_axis RNum w) v) as H0.
    set (U := adist2 (mk_axis RNum w) v) in *.
    assert (H1 : U * (1 - d) <= K * K * (1 - d)) by lra.
    apply (Rmult_le_reg_r (1 - d)); lra.
Qed.

Lemma adist_comp u v :
  Rabs (ax_x u - ax_x v) <= adist u v /\ Rabs (ax_y u - ax_y v) <= adist u v /\
  Rabs (ax_z u - ax_z v) <= adist u v.
Proof.
  pose proof (adist_nonneg u v) as H0. pose proof (adist_sq u v) as H1. unfold adist2 in H1.
  assert (Hx : 0 <= (ax_x u - ax_x v) * (ax_x u - ax_x v)) by apply Rle_0_sqr.
  assert (Hy : 0 <= (ax_y u - ax_y v) * (ax_y u - ax_y v)) by apply Rle_0_sqr.
  assert (Hz : 0 <= (ax_z u - ax_z v) * (ax_z u - ax_z v)) by apply Rle_0_sqr.
  repeat split; apply Rabs_le_of_sq; lra.
Qed.

(* item 2: every component of the perturbation at most e <= 1/10; the renormalised vector is
   a unit axis within 2 e of v (Euclidean distance, hence also every component) *)
Theorem mk_axis_perturbed v w e :
  unit_axis v -> 0 <= e <= 1 / 10 ->
  Rabs (ax_x w - ax_x v) <= e -> Rabs (ax_y w - ax_y v) <= e -> Rabs (ax_z w - ax_z v) <= e ->
  unit_axis (mk_axis RNum w) /\
  adist (mk_axis RNum w) v <= 2 * e /\
  Rabs (ax_x (mk_axis RNum w) - ax_x v) <= 2 * e /\
  Rabs (ax_y (mk_axis RNum w) - ax_y v) <= 2 * e /\
  Rabs (ax_z (mk_axis RNum w) - ax_z v) <= 2 * e.
Proof.
  intros Hv [He0 He1] Hx Hy Hz.
  destruct (mk_axis_near_K v w e (7 / 4 * e) (2 * e) Hv He0 Hx Hy Hz) as [Hu HK]; try nra.
  split; [exact Hu|]. split; [exact HK|].
  pose proof (adist_comp (mk_axis RNum w) v) as (H1 & H2 & H3). repeat split; lra.
Qed.

(* the sharper constant used below: for e <= 1e-6 the distance is at most 1.7321 e
   (sqrt 3 = 1.73205...) *)
Lemma mk_axis_perturbed_small v w e :
  unit_axis v -> 0 <= e <= 1 / 1000000 ->
  Rabs (ax_x w - ax_x v) <= e -> Rabs (ax_y w - ax_y v) <= e -> Rabs (ax_z w - ax_z v) <= e ->
  unit_axis (mk_axis RNum w) /\ adist (mk_axis RNum w) v <= 17321 / 10000 * e.
Proof.
  intros Hv [He0 He1] Hx Hy Hz.
  apply (mk_axis_near_K v w e (173206 / 100000 * e)); try assumption; nra.
Qed.

(* ------------------------------------------------------------------ *)
(** * 3. one composition: the propagated bound *)

(* the model at RNum, written over R (the same shape as [compose_X_unfold], with the roundings) *)
Lemma compose_R_unfold q axa anga pha gia axb angb phb gib :
  compose RNum q axa anga pha gia axb angb phb gib =
  let w := Rclamp (cW axa axb anga angb) in
  let s := sin (2 * acos w / 2) in
  let v := cV axa axb anga angb in
  if Rltb (Rabs s) ATOL then (bsr_identity RNum q, anon)
  else (mk_bsr RNum q (Rround 7 (1 / s * ax_x v), Rround 7 (1 / s * ax_y v), Rround 7 (1 / s * ax_z v))
               (2 * acos w) (Rround 7 (pha + phb)),
        if is_identity RNum (BSR q axa anga pha) then gib
        else if is_identity RNum (BSR q axb angb phb) then gia else anon).
Proof. reflexivity. Qed.

(* outside the shortcut: the returned gate, with the exact axis [caxis] rounded and renormalised *)
Lemma compose_R_result q axa anga pha gia axb angb phb gib :
  unit_axis axa -> unit_axis axb ->
  ATOL <= sin (cgamma axa axb anga angb / 2) ->
  fst (compose RNum q axa anga pha gia axb angb phb gib) =
  BSR q (mk_axis RNum (Rround 7 (ax_x (caxis axa axb anga angb)),
                       Rround 7 (ax_y (caxis axa axb anga angb)),
                       Rround 7 (ax_z (caxis axa axb anga angb))))
        (normalize_angle RNum (cgamma axa axb anga angb))
        (normalize_angle RNum (Rround 7 (pha + phb))).
Proof.
  intros Ha Hb Hs. pose proof ATOL_pos as Hat.
  rewrite compose_R_unfold. cbv zeta.
  rewrite (Rclamp_id _ (cW_range axa axb anga angb Ha Hb)).
  fold (cgamma axa axb anga angb).
  set (s := sin (cgamma axa axb anga angb / 2)) in *.
  rewrite (Rabs_pos_eq s) by lra.
  assert (E : Rltb s ATOL = false) by (apply Rltb_false; exact Hs).
  rewrite E. cbn [fst]. reflexivity.
Qed.

(* a phase enters the operator only through cis, so its normalisation is invisible *)
Lemma can1_normalize_phase u a p :
  can1 RNum u a (normalize_angle RNum p) = can1 RNum u a p.
Proof.
  rewrite !can1_phase. destruct (normalize_cos_sin p) as [Hc Hs].
  unfold cis. cbn [ncos nsin RNum]. rewrite Hc, Hs. reflexivity.
Qed.

(* the bound: sqrt 3 (1 + 2e-6) * 5e-8 for the axis  +  5e-8 for the phase  <  1.37e-7 *)
Definition compose_eps : R := 137 / 1000000000.

Theorem compose_rounded_operator_bound_unit q axa anga pha gia axb angb phb gib :
  unit_axis axa -> unit_axis axb ->
  ATOL <= sin (cgamma axa axb anga angb / 2) ->
  exists ax ang ph (sg : R),
    fst (compose RNum q axa anga pha gia axb angb phb gib) = BSR q ax ang ph /\
    unit_axis ax /\
    (sg = 1 \/ sg = -1) /\
    forall r c, (r < 2)%nat -> (c < 2)%nat ->
      let M := can1 RNum ax ang ph in
      let P := mscale (sg, 0) (mmul RNum (can1 RNum axa anga pha) (can1 RNum axb angb phb)) in
      Rabs (fst (entry M r c) - fst (entry P r c)) <= compose_eps /\
      Rabs (snd (entry M r c) - snd (entry P r c)) <= compose_eps.
Proof.
  intros Ha Hb Hs. pose proof ATOL_pos as Hat.
  (* the exact result *)
  assert (Hreg : compose_regime axa axb anga angb).
  { right. rewrite Rabs_pos_eq; lra. }
  destruct (compose_exact_cases q axa anga pha gia axb angb phb gib Ha Hb Hreg)
    as [(Hs' & _) | (_ & HcX & Hu & _)]; [lra|].
  destruct (compose_matrix q axa anga pha gia axb angb phb gib Ha Hb Hs)
    as (ax' & ang' & ph' & sg & HfX & Hsg & HM).
  rewrite HcX in HfX. cbn [fst] in HfX. injection HfX as <- <- <-.
  rewrite can1_X in HM.
  (* the rounded result *)
  pose proof (compose_R_result q axa anga pha gia axb angb phb gib Ha Hb Hs) as HcR.
  set (v := caxis axa axb anga angb) in *.
  set (g := cgamma axa axb anga angb) in *.
  set (w := (Rround 7 (ax_x v), Rround 7 (ax_y v), Rround 7 (ax_z v))) in *.
  destruct (mk_axis_perturbed_small v w (5 / 100000000) Hu) as [Huw Hd].
  { lra. }
  { unfold w, ax_x at 1. cbn [fst snd]. apply Rround7_error. }
  { unfold w, ax_y at 1. cbn [fst snd]. apply Rround7_error. }
  { unfold w, ax_z at 1. cbn [fst snd]. apply Rround7_error. }
  exists (mk_axis RNum w), (normalize_angle RNum g), (normalize_angle RNum (Rround 7 (pha + phb))), sg.
  split; [exact HcR|]. split; [exact Huw|]. split; [exact Hsg|].
  intros r c Hr Hc. cbv zeta. rewrite <- HM.
  rewrite !can1_normalize_phase.
  pose proof (can1_lipschitz (mk_axis RNum w) v (normalize_angle RNum g)
                (Rround 7 (pha + phb)) (pha + phb) Hu) as HL.
  pose proof (Rround7_error (pha + phb)) as Hp.
  apply (mclose_mono _ compose_eps) in HL; [exact (HL r c Hr Hc)|].
  unfold compose_eps. lra.
Qed.

(* the statement as asked (without the extra conjunct [unit_axis ax]) *)
Theorem compose_rounded_operator_bound q axa anga pha gia axb angb phb gib :
  unit_axis axa -> unit_axis axb ->
  ATOL <= sin (cgamma axa axb anga angb / 2) ->
  exists ax ang ph (sg : R),
    fst (compose RNum q axa anga pha gia axb angb phb gib) = BSR q ax ang ph /\
    (sg = 1 \/ sg = -1) /\
    forall r c, (r < 2)%nat -> (c < 2)%nat ->
      let M := can1 RNum ax ang ph in
      let P := mscale (sg, 0) (mmul RNum (can1 RNum axa anga pha) (can1 RNum axb angb phb)) in
      Rabs (fst (entry M r c) - fst (entry P r c)) <= compose_eps /\
      Rabs (snd (entry M r c) - snd (entry P r c)) <= compose_eps.
Proof.
  intros Ha Hb Hs.
  destruct (compose_rounded_operator_bound_unit q axa anga pha gia axb angb phb gib Ha Hb Hs)
    as (ax & ang & ph & sg & H1 & _ & H2 & H3).
  exists ax, ang, ph, sg. auto.
Qed.

(* ------------------------------------------------------------------ *)
(** * 5. the shortcut branch *)

Lemma can1_product axa anga pha axb angb phb :
  mmul RNum (can1 RNum axa anga pha) (can1 RNum axb angb phb) =
  mscale (cis RNum (pha + phb)) (qmat (qmul (qrot axa anga) (qrot axb angb))).
Proof.
  rewrite !can1_phase. fold (mscale (cis RNum pha) (qmat (qrot axa anga))).
  fold (mscale (cis RNum phb) (qmat (qrot axb angb))).
  rewrite mscale_qmat_mul, cis_mul. reflexivity.
Qed.

Lemma can1_identity : can1 RNum (1, 0, 0) 0 0 = qmat qone.
Proof. rewrite can1_phase, qrot_0, cis_0. fold (mscale (1, 0) (qmat qone)). apply mscale_1. Qed.

Lemma signed_phase_identity sg phi :
  mscale (cmul RNum (sg, 0) (cis RNum phi)) (qmat qone) =
  [[cmul RNum (cis RNum phi) (sg, 0); cmul RNum (cis RNum phi) (0, 0)];
   [cmul RNum (cis RNum phi) (0, 0); cmul RNum (cis RNum phi) (sg, 0)]].
Proof.
  unfold mscale, qmat, qone, cmul, cis, qw, qx, qy, qz. cbn [map fst snd].
  cbn [nadd nsub nmul ncos nsin RNum].
  repeat match goal with
         | |- cons _ _ = cons _ _ => apply f_equal2
         | |- (_, _) = (_, _) => apply pair_eq
         | |- nil = nil => reflexivity
         end; ring.
Qed.

(* when the shortcut fires (|sin(gamma/2)| < ATOL) the model returns the identity with phase 0;
   the exact product is then within 3/2 ATOL of +- cis(pha + phb) . I : what is discarded is a
   global phase and a rotation below the library's tolerance *)
Theorem compose_shortcut_operator_bound q axa anga pha gia axb angb phb gib :
  unit_axis axa -> unit_axis axb ->
  Rabs (sin (cgamma axa axb anga angb / 2)) < ATOL ->
  fst (compose RNum q axa anga pha gia axb angb phb gib) = BSR q (1, 0, 0) 0 0 /\
  exists sg : R, (sg = 1 \/ sg = -1) /\
    forall r c, (r < 2)%nat -> (c < 2)%nat ->
      let P := mmul RNum (can1 RNum axa anga pha) (can1 RNum axb angb phb) in
      let Z := mscale (cmul RNum (sg, 0) (cis RNum (pha + phb))) (can1 RNum (1, 0, 0) 0 0) in
      Rabs (fst (entry P r c) - fst (entry Z r c)) <= 3 / 2 * ATOL /\
      Rabs (snd (entry P r c) - snd (entry Z r c)) <= 3 / 2 * ATOL.
Proof.
  intros Ha Hb Hs. pose proof ATOL_pos as Hat.
  split.
  { rewrite compose_R_unfold. cbv zeta.
    rewrite (Rclamp_id _ (cW_range axa axb anga angb Ha Hb)).
    fold (cgamma axa axb anga angb).
    assert (E : Rltb (Rabs (sin (cgamma axa axb anga angb / 2))) ATOL = true) by (apply Rltb_true; exact Hs).
    rewrite E. cbn [fst]. apply bsr_identity_R. }
  pose proof (sin_half_gamma_nonneg axa axb anga angb Ha Hb) as Hs0.
  pose proof (sin_half_gamma axa axb anga angb Ha Hb) as Hsv.
  pose proof (compose_quaternion_norm axa axb anga angb Ha Hb) as Hn.
  pose proof (cW_range axa axb anga angb Ha Hb) as HW.
  set (s := sin (cgamma axa axb anga angb / 2)) in *.
  rewrite (Rabs_pos_eq s Hs0) in Hs.
  assert (Hss : s * s = nsq3 (cV axa axb anga angb)).
  { rewrite Hsv. apply sqrt_sqrt, nsq3_nonneg. }
  unfold nsq3 in *.
  set (W := cW axa axb anga angb) in *. set (V := cV axa axb anga angb) in *.
  assert (Hx2 : 0 <= ax_x V * ax_x V) by apply Rle_0_sqr.
  assert (Hy2 : 0 <= ax_y V * ax_y V) by apply Rle_0_sqr.
  assert (Hz2 : 0 <= ax_z V * ax_z V) by apply Rle_0_sqr.
  assert (HD0 : 0 <= 3 / 2 * s) by lra.
  exists (if Rle_dec 0 W then 1 else -1).
  split; [destruct (Rle_dec 0 W); [left | right]; reflexivity|].
  intros r c Hr Hc. cbv zeta.
  rewrite can1_product, compose_quaternion_prod, can1_identity, signed_phase_identity.
  fold W. fold V.
  unfold mscale, qmat, qw, qx, qy, qz. cbn [map fst snd].
  apply (mclose_mono (3 / 2 * s + Rabs (pha + phb - (pha + phb)))).
  { replace (pha + phb - (pha + phb)) with 0 by ring. rewrite Rabs_R0. lra. }
  2: exact Hr. 2: exact Hc.
  apply mclose_intro; apply cis_mul_close; try exact HD0; cbn [fst snd];
    destruct (Rle_dec 0 W) as [HW0 | HW0]; nra.
Qed.

(* ------------------------------------------------------------------ *)
(** * 4. chains of compositions *)

(** ** 4a. 2x2 matrices in the list representation of the model *)

Definition is22 (M : list (list (R * R))) : Prop := exists a b c d, M = [[a; b]; [c; d]].

Definition dot2 (x y a b : R * R) : R * R :=
  cadd RNum (cadd RNum (czero RNum) (cmul RNum x a)) (cmul RNum y b).

Lemma mmul22 u00 u01 u10 u11 a00 a01 a10 a11 :
  mmul RNum [[u00; u01]; [u10; u11]] [[a00; a01]; [a10; a11]] =
  [[dot2 u00 u01 a00 a10; dot2 u00 u01 a01 a11]; [dot2 u10 u11 a00 a10; dot2 u10 u11 a01 a11]].
Proof. reflexivity. Qed.

Lemma is22_mmul A B : is22 A -> is22 B -> is22 (mmul RNum A B).
Proof.
  intros (a & b & c & d & ->) (e & f & g & h & ->). rewrite mmul22. do 4 eexists; reflexivity.
Qed.

Lemma is22_mscale z A : is22 A -> is22 (mscale z A).
Proof. intros (a & b & c & d & ->). unfold mscale. cbn [map]. do 4 eexists; reflexivity. Qed.

Lemma is22_qmat q : is22 (qmat q).
Proof. unfold qmat. do 4 eexists; reflexivity. Qed.

Lemma is22_can1 u a p : is22 (can1 RNum u a p).
Proof. unfold can1. do 4 eexists; reflexivity. Qed.

Ltac c_unfold :=
  unfold dot2, mscale, cadd, cmul, czero, c0, n0; cbn [map fst snd];
  cbn [nofZ nadd nsub nmul RNum].

Ltac m22_eq :=
  repeat match goal with
         | |- cons _ _ = cons _ _ => apply f_equal2
         | |- (_, _) = (_, _) => apply pair_eq
         | |- nil = nil => reflexivity
         end.

Lemma mmul22_assoc U V P : is22 U -> is22 V -> is22 P ->
  mmul RNum U (mmul RNum V P) = mmul RNum (mmul RNum U V) P.
Proof.
  intros (u00 & u01 & u10 & u11 & ->) (v00 & v01 & v10 & v11 & ->) (a & b & c & d & ->).
  rewrite !mmul22.
  destruct u00, u01, u10, u11, v00, v01, v10, v11, a, b, c, d.
  c_unfold. m22_eq; ring.
Qed.

Lemma mmul22_mscale_r U z A : is22 U -> is22 A ->
  mmul RNum U (mscale z A) = mscale z (mmul RNum U A).
Proof.
  intros (u00 & u01 & u10 & u11 & ->) (a & b & c & d & ->).
  unfold mscale at 1. cbn [map]. rewrite !mmul22.
  destruct u00, u01, u10, u11, a, b, c, d, z.
  c_unfold. m22_eq; ring.
Qed.

Lemma mscale_sign_sign s1 s2 A : is22 A ->
  mscale (s1, 0) (mscale (s2, 0) A) = mscale (s1 * s2, 0) A.
Proof.
  intros (a & b & c & d & ->). destruct a, b, c, d. c_unfold. m22_eq; ring.
Qed.

Lemma mscale_one A : is22 A -> mscale (1, 0) A = A.
Proof.
  intros (a & b & c & d & ->). destruct a, b, c, d. c_unfold. m22_eq; ring.
Qed.

Lemma mmul22_one_l A : is22 A -> mmul RNum (mscale (cis RNum 0) (qmat qone)) A = A.
Proof.
  intros (a & b & c & d & ->). rewrite cis_0.
  unfold qmat, qone, qw, qx, qy, qz. cbn [fst snd]. unfold mscale at 1. cbn [map].
  rewrite mmul22. destruct a, b, c, d. c_unfold. m22_eq; ring.
Qed.

Lemma cclose_sign d sg x y : sg = 1 \/ sg = -1 ->
  cclose d x y -> cclose d (cmul RNum (sg, 0) x) (cmul RNum (sg, 0) y).
Proof.
  destruct x as [xr xi], y as [yr yi]. unfold cclose, cmul. cbn [fst snd nadd nsub nmul RNum].
  intros [-> | ->] [H1 H2]; split.
  - replace (1 * xr - 0 * xi - (1 * yr - 0 * yi)) with (xr - yr) by ring. exact H1.
  - replace (1 * xi + 0 * xr - (1 * yi + 0 * yr)) with (xi - yi) by ring. exact H2.
  - replace (-1 * xr - 0 * xi - (-1 * yr - 0 * yi)) with (- (xr - yr)) by ring. rewrite Rabs_Ropp. exact H1.
  - replace (-1 * xi + 0 * xr - (-1 * yi + 0 * yr)) with (- (xi - yi)) by ring. rewrite Rabs_Ropp. exact H2.
Qed.

Lemma mclose_sign d sg A B : sg = 1 \/ sg = -1 -> is22 A -> is22 B ->
  mclose d A B -> mclose d (mscale (sg, 0) A) (mscale (sg, 0) B).
Proof.
  intros Hsg (a & b & c & e & ->) (a' & b' & c' & e' & ->) H.
  apply mclose_elim in H. destruct H as (H1 & H2 & H3 & H4).
  unfold mscale. cbn [map]. apply mclose_intro; apply cclose_sign; assumption.
Qed.

Lemma mclose_refl d A : 0 <= d -> mclose d A A.
Proof. intros H r c _ _. apply cclose_refl. exact H. Qed.

(** ** 4b. multiplying by a matrix with rows of norm at most 1 amplifies the entry-wise
       distance by at most 2 *)

Lemma cs4 a1 a2 a3 a4 d1 d2 d3 d4 :
  (a1 * d1 + a2 * d2 + a3 * d3 + a4 * d4) * (a1 * d1 + a2 * d2 + a3 * d3 + a4 * d4) <=
  (d1 * d1 + d2 * d2 + d3 * d3 + d4 * d4) * (a1 * a1 + a2 * a2 + a3 * a3 + a4 * a4).
Proof.
  assert (H12 : 0 <= (a1 * d2 - a2 * d1) * (a1 * d2 - a2 * d1)) by apply Rle_0_sqr.
  assert (H13 : 0 <= (a1 * d3 - a3 * d1) * (a1 * d3 - a3 * d1)) by apply Rle_0_sqr.
  assert (H14 : 0 <= (a1 * d4 - a4 * d1) * (a1 * d4 - a4 * d1)) by apply Rle_0_sqr.
  assert (H23 : 0 <= (a2 * d3 - a3 * d2) * (a2 * d3 - a3 * d2)) by apply Rle_0_sqr.
  assert (H24 : 0 <= (a2 * d4 - a4 * d2) * (a2 * d4 - a4 * d2)) by apply Rle_0_sqr.
  assert (H34 : 0 <= (a3 * d4 - a4 * d3) * (a3 * d4 - a4 * d3)) by apply Rle_0_sqr.
  lra.
Qed.

Lemma amp4 a1 a2 a3 a4 d1 d2 d3 d4 d :
  a1 * a1 + a2 * a2 + a3 * a3 + a4 * a4 <= 1 ->
  Rabs d1 <= d -> Rabs d2 <= d -> Rabs d3 <= d -> Rabs d4 <= d ->
  Rabs (a1 * d1 + a2 * d2 + a3 * d3 + a4 * d4) <= 2 * d.
Proof.
  intros Ha H1 H2 H3 H4.
  assert (Hd : 0 <= d) by (pose proof (Rabs_pos d1); lra).
  assert (Q : forall t, Rabs t <= d -> 0 <= t * t <= d * d).
  { intros t Ht. split; [apply Rle_0_sqr|]. apply sq_le_of_Rabs. rewrite (Rabs_pos_eq d Hd). exact Ht. }
  pose proof (Q d1 H1). pose proof (Q d2 H2). pose proof (Q d3 H3). pose proof (Q d4 H4).
  apply Rabs_le_of_sq; [lra|].
  apply (sq_le_prod _ _ _ _ (cs4 a1 a2 a3 a4 d1 d2 d3 d4)); try lra.
  assert (0 <= a1 * a1) by apply Rle_0_sqr. assert (0 <= a2 * a2) by apply Rle_0_sqr.
  assert (0 <= a3 * a3) by apply Rle_0_sqr. assert (0 <= a4 * a4) by apply Rle_0_sqr. lra.
Qed.

Definition cnorm2 (z : R * R) : R := fst z * fst z + snd z * snd z.

Lemma dot2_close (x y a b a' b' : R * R) d :
  cnorm2 x + cnorm2 y <= 1 -> cclose d a a' -> cclose d b b' ->
  cclose (2 * d) (dot2 x y a b) (dot2 x y a' b').
Proof.
  destruct x as [xr xi], y as [yr yi], a as [ar ai], b as [br bi], a' as [ar' ai'], b' as [br' bi'].
  unfold cnorm2, cclose. cbn [fst snd]. intros Hn [Ha1 Ha2] [Hb1 Hb2].
  c_unfold. split.
  - replace (0 + (xr * ar - xi * ai) + (yr * br - yi * bi) - (0 + (xr * ar' - xi * ai') + (yr * br' - yi * bi')))
      with (xr * (ar - ar') + (- xi) * (ai - ai') + yr * (br - br') + (- yi) * (bi - bi')) by ring.
    apply amp4; try assumption. lra.
  - replace (0 + (xr * ai + xi * ar) + (yr * bi + yi * br) - (0 + (xr * ai' + xi * ar') + (yr * bi' + yi * br')))
      with (xr * (ai - ai') + xi * (ar - ar') + yr * (bi - bi') + yi * (br - br')) by ring.
    apply amp4; try assumption. lra.
Qed.

Lemma mmul22_close u00 u01 u10 u11 A B d :
  cnorm2 u00 + cnorm2 u01 <= 1 -> cnorm2 u10 + cnorm2 u11 <= 1 ->
  is22 A -> is22 B -> mclose d A B ->
  mclose (2 * d) (mmul RNum [[u00; u01]; [u10; u11]] A) (mmul RNum [[u00; u01]; [u10; u11]] B).
Proof.
  intros H0 H1 (a & b & c & e & ->) (a' & b' & c' & e' & ->) H.
  apply mclose_elim in H. destruct H as (Ha & Hb & Hc & He).
  rewrite !mmul22. apply mclose_intro; apply dot2_close; assumption.
Qed.

(* the unitaries of the form cis(phi) . qmat(Q), Q a unit quaternion *)
Lemma phase_qmat_close phi Q A B d :
  qnorm2 Q = 1 -> is22 A -> is22 B -> mclose d A B ->
  mclose (2 * d) (mmul RNum (mscale (cis RNum phi) (qmat Q)) A) (mmul RNum (mscale (cis RNum phi) (qmat Q)) B).
Proof.
  intros HQ HA HB H.
  unfold mscale, qmat. cbn [map].
  pose proof (sin2_cos2 phi) as Hp. unfold Rsqr in Hp.
  unfold qnorm2 in HQ.
  apply mmul22_close; try assumption;
    unfold cnorm2, cmul, cis; cbn [fst snd nadd nsub nmul ncos nsin RNum];
    set (cp := cos phi) in *; set (sp := sin phi) in *;
    set (w := qw Q) in *; set (x := qx Q) in *; set (y := qy Q) in *; set (z := qz Q) in *.
  - replace ((cp * w - sp * - z) * (cp * w - sp * - z) + (cp * - z + sp * w) * (cp * - z + sp * w) +
             ((cp * - y - sp * - x) * (cp * - y - sp * - x) + (cp * - x + sp * - y) * (cp * - x + sp * - y)))
      with ((sp * sp + cp * cp) * (w * w + x * x + y * y + z * z)) by ring.
    rewrite Hp, HQ. lra.
  - replace ((cp * y - sp * - x) * (cp * y - sp * - x) + (cp * - x + sp * y) * (cp * - x + sp * y) +
             ((cp * w - sp * z) * (cp * w - sp * z) + (cp * z + sp * w) * (cp * z + sp * w)))
      with ((sp * sp + cp * cp) * (w * w + x * x + y * y + z * z)) by ring.
    rewrite Hp, HQ. lra.
Qed.

(** ** 4c. the fold of the merger over a run of rotations on one qubit *)

(* a rotation: axis, angle, phase *)
Definition rot : Type := (axis3 R * R * R)%type.
Definition r_ax (x : rot) : axis3 R := fst (fst x).
Definition r_ang (x : rot) : R := snd (fst x).
Definition r_ph (x : rot) : R := snd x.
Definition op (x : rot) : list (list (R * R)) := can1 RNum (r_ax x) (r_ang x) (r_ph x).
Definition gate_of (q : Z) (x : rot) : gate R := BSR q (r_ax x) (r_ang x) (r_ph x).
Definition rot_of (g : gate R) : rot :=
  match g with BSR _ ax a p => (ax, a, p) | _ => ((1, 0, 0), 0, 0) end.

(* one update of the accumulator, as in [merge_loop]: the new gate [a] is composed onto [acc] *)
Definition cstep (q : Z) (a acc : rot) : rot :=
  rot_of (fst (compose RNum q (r_ax a) (r_ang a) (r_ph a) anon (r_ax acc) (r_ang acc) (r_ph acc) anon)).

Fixpoint cfold (q : Z) (acc : rot) (l : list rot) : rot :=
  match l with [] => acc | a :: l' => cfold q (cstep q a acc) l' end.

(* the exact operator: later gates multiply from the left *)
Fixpoint oprod (P : list (list (R * R))) (l : list rot) : list (list (R * R)) :=
  match l with [] => P | a :: l' => oprod (mmul RNum (op a) P) l' end.

(* every gate has a unit axis and every composition stays out of the shortcut *)
Fixpoint chain_ok (q : Z) (acc : rot) (l : list rot) : Prop :=
  match l with
  | [] => True
  | a :: l' =>
      unit_axis (r_ax a) /\
      ATOL <= sin (cgamma (r_ax a) (r_ax acc) (r_ang a) (r_ang acc) / 2) /\
      chain_ok q (cstep q a acc) l'
  end.

(* the gate part of [compose] does not look at the generator information *)
Lemma compose_fst_gate q axa anga pha gia axb angb phb gib :
  fst (compose RNum q axa anga pha gia axb angb phb gib) =
  gate_of q (cstep q (axa, anga, pha) (axb, angb, phb)).
Proof.
  unfold cstep, r_ax, r_ang, r_ph. cbn [fst snd].
  rewrite !compose_R_unfold. cbv zeta.
  destruct (Rltb (Rabs (sin (2 * acos (Rclamp (cW axa axb anga angb)) / 2))) ATOL); cbn [fst].
  - rewrite bsr_identity_R. reflexivity.
  - reflexivity.
Qed.

(* the same fold written with [compose_gates] on (gate, generator) pairs, as [merge_loop] does *)
Fixpoint gfold (acc : gate R * ginfo R) (l : list (gate R * ginfo R)) : result (gate R * ginfo R) :=
  match l with
  | [] => Ok acc
  | a :: l' => match compose_gates RNum a acc with Err e => Err e | Ok y => gfold y l' end
  end.

Lemma gfold_cfold q : forall (l : list (rot * ginfo R)) (acc : rot) (gi : ginfo R),
  exists gi', gfold (gate_of q acc, gi) (map (fun a => (gate_of q (fst a), snd a)) l) =
              Ok (gate_of q (cfold q acc (map fst l)), gi').
Proof.
  induction l as [|[a ga] l IH]; intros acc gi; cbn [map gfold cfold fst snd].
  - exists gi. reflexivity.
  - unfold compose_gates. cbn [fst snd gate_of]. rewrite Z.eqb_refl.
    set (y := compose RNum q (r_ax a) (r_ang a) (r_ph a) ga (r_ax acc) (r_ang acc) (r_ph acc) gi).
    destruct (IH (cstep q a acc) (snd y)) as [gi' E]. exists gi'.
    rewrite <- E. f_equal. rewrite (surjective_pairing y). f_equal.
    unfold y. rewrite compose_fst_gate.
    destruct a as [[aa an] ap], acc as [[ba bn] bp]. reflexivity.
Qed.

(* the unitary collected from a list of rotations: phase and unit quaternion *)
Fixpoint uph (l : list rot) : R :=
  match l with [] => 0 | a :: l' => uph l' + r_ph a end.
Fixpoint uq (l : list rot) : quat :=
  match l with [] => qone | a :: l' => qmul (uq l') (qrot (r_ax a) (r_ang a)) end.

Lemma op_phase_qmat a : op a = mscale (cis RNum (r_ph a)) (qmat (qrot (r_ax a) (r_ang a))).
Proof. unfold op. rewrite can1_phase. reflexivity. Qed.

Lemma is22_op a : is22 (op a).
Proof. apply is22_can1. Qed.

Lemma oprod_U : forall l P, is22 P ->
  oprod P l = mmul RNum (mscale (cis RNum (uph l)) (qmat (uq l))) P.
Proof.
  induction l as [|a l IH]; intros P HP; cbn [oprod uph uq].
  - rewrite mmul22_one_l by exact HP. reflexivity.
  - rewrite IH by (apply is22_mmul; [apply is22_op | exact HP]).
    rewrite mmul22_assoc; [| apply is22_mscale, is22_qmat | apply is22_op | exact HP].
    rewrite op_phase_qmat, mscale_qmat_mul, cis_mul. reflexivity.
Qed.

Lemma is22_oprod l P : is22 P -> is22 (oprod P l).
Proof.
  intros HP. rewrite oprod_U by exact HP.
  apply is22_mmul; [apply is22_mscale, is22_qmat | exact HP].
Qed.

Lemma qnorm2_one : qnorm2 qone = 1.
Proof. unfold qnorm2, qone, qw, qx, qy, qz. cbn [fst snd]. ring. Qed.

Lemma uq_unit l : Forall (fun a => unit_axis (r_ax a)) l -> qnorm2 (uq l) = 1.
Proof.
  induction 1 as [|a l Ha _ IH]; cbn [uq]; [apply qnorm2_one|].
  rewrite qnorm2_mul, IH, (qrot_unit _ _ Ha). ring.
Qed.

Lemma chain_ok_units q : forall l acc, chain_ok q acc l -> Forall (fun a => unit_axis (r_ax a)) l.
Proof.
  induction l as [|a l IH]; intros acc H; [constructor|].
  destruct H as (Ha & _ & H). constructor; [exact Ha | exact (IH _ H)].
Qed.

(* the exact product, applied to two nearby starting matrices *)
Lemma oprod_close l A B d :
  Forall (fun a => unit_axis (r_ax a)) l -> is22 A -> is22 B ->
  mclose d A B -> mclose (2 * d) (oprod A l) (oprod B l).
Proof.
  intros Hl HA HB H. rewrite !oprod_U by assumption.
  apply phase_qmat_close; try assumption. apply uq_unit. exact Hl.
Qed.

Lemma oprod_sign l sg A : is22 A -> oprod (mscale (sg, 0) A) l = mscale (sg, 0) (oprod A l).
Proof.
  intros HA. rewrite !oprod_U by (try apply is22_mscale; exact HA).
  apply mmul22_mscale_r; [apply is22_mscale, is22_qmat | exact HA].
Qed.

(* twice the one-step bound: an error made early is multiplied by the remaining (unitary)
   operators, which at most doubles it in the entry-wise max norm *)
Definition chain_eps : R := 2 * compose_eps.

Theorem chain_operator_bound q : forall l acc,
  unit_axis (r_ax acc) -> chain_ok q acc l ->
  exists sg : R, (sg = 1 \/ sg = -1) /\
    unit_axis (r_ax (cfold q acc l)) /\
    mclose (INR (length l) * chain_eps) (op (cfold q acc l)) (mscale (sg, 0) (oprod (op acc) l)).
Proof.
  induction l as [|a l IH]; intros acc Hacc Hok.
  - exists 1. split; [left; reflexivity|]. split; [exact Hacc|].
    cbn [cfold oprod length INR]. rewrite mscale_one by apply is22_op.
    apply mclose_refl. lra.
  - destruct Hok as (Ha & Hs & Hok).
    pose proof (chain_ok_units q l _ Hok) as Hunits.
    destruct (compose_rounded_operator_bound_unit q (r_ax a) (r_ang a) (r_ph a) anon
                (r_ax acc) (r_ang acc) (r_ph acc) anon Ha Hacc Hs)
      as (ax & ang & ph & sg1 & Hc & Hu & Hsg1 & Hclose).
    assert (E1 : cstep q a acc = (ax, ang, ph)).
    { unfold cstep. rewrite Hc. reflexivity. }
    cbn [cfold oprod]. rewrite E1 in *.
    destruct (IH (ax, ang, ph) Hu Hok) as (sg' & Hsg' & Hufin & Hrest).
    exists (sg' * sg1). split.
    { destruct Hsg' as [-> | ->], Hsg1 as [-> | ->]; [left | right | right | left]; ring. }
    split; [exact Hufin|].
    set (P1 := mmul RNum (op a) (op acc)) in *.
    assert (HP1 : is22 P1) by (apply is22_mmul; apply is22_op).
    assert (H1 : mclose compose_eps (op (ax, ang, ph)) (mscale (sg1, 0) P1)).
    { intros r c Hr Hc'. exact (Hclose r c Hr Hc'). }
    (* propagate the first error through the remaining exact operators *)
    apply (oprod_close l _ _ _ Hunits (is22_op _) (is22_mscale _ _ HP1)) in H1.
    rewrite oprod_sign in H1 by exact HP1.
    apply (mclose_sign _ sg' _ _ Hsg' (is22_oprod _ _ (is22_op _))
             (is22_mscale _ _ (is22_oprod _ _ HP1))) in H1.
    rewrite mscale_sign_sign in H1 by (apply is22_oprod; exact HP1).
    pose proof (mclose_trans _ _ _ _ _ Hrest H1) as Hfin.
    apply (mclose_mono _ (INR (length (a :: l)) * chain_eps)) in Hfin; [exact Hfin|].
    change (length (a :: l)) with (S (length l)). rewrite S_INR. unfold chain_eps. lra.
Qed.

(** ** 4d. the same statements on the objects of Model/Merge.v *)

(* entry-wise form, on the fold with [compose_gates] *)
Theorem gfold_operator_bound q (l : list (rot * ginfo R)) (acc : rot) (gi : ginfo R) :
  unit_axis (r_ax acc) -> chain_ok q acc (map fst l) ->
  exists ax ang ph gi' (sg : R),
    gfold (gate_of q acc, gi) (map (fun a => (gate_of q (fst a), snd a)) l) = Ok (BSR q ax ang ph, gi') /\
    unit_axis ax /\ (sg = 1 \/ sg = -1) /\
    forall r c, (r < 2)%nat -> (c < 2)%nat ->
      let M := can1 RNum ax ang ph in
      let P := mscale (sg, 0) (oprod (op acc) (map fst l)) in
      Rabs (fst (entry M r c) - fst (entry P r c)) <= INR (length l) * chain_eps /\
      Rabs (snd (entry M r c) - snd (entry P r c)) <= INR (length l) * chain_eps.
Proof.
  intros Hacc Hok.
  destruct (gfold_cfold q l acc gi) as [gi' E].
  destruct (chain_operator_bound q (map fst l) acc Hacc Hok) as (sg & Hsg & Hu & Hclose).
  set (fin := cfold q acc (map fst l)) in *.
  exists (r_ax fin), (r_ang fin), (r_ph fin), gi', sg.
  split; [exact E|]. split; [exact Hu|]. split; [exact Hsg|].
  intros r c Hr Hc. cbv zeta. rewrite map_length in Hclose. exact (Hclose r c Hr Hc).
Qed.

(* ... and on [merge_loop]: a run of rotations on qubit q only updates the accumulator of q,
   by the fold above *)
Lemma acc_set_twice (a : accs (T := R)) : forall i x y, acc_set (acc_set a i x) i y = acc_set a i y.
Proof.
  induction a as [|z a IH]; intros [|i] x y; cbn [acc_set]; try reflexivity.
  rewrite IH. reflexivity.
Qed.

Lemma acc_set_same_val (a : accs (T := R)) : forall i x, nth_error a i = Some x -> acc_set a i x = a.
Proof.
  induction a as [|z a IH]; intros [|i] x H; cbn [acc_set nth_error] in *; try discriminate.
  - injection H as ->. reflexivity.
  - rewrite (IH _ _ H). reflexivity.
Qed.

Definition rot_stmt (q : Z) (x : positive * rot * ginfo R) : stmt R :=
  SGate (fst (fst x)) (gate_of q (snd (fst x))) (snd x).

Lemma merge_loop_run q : forall (l : list (positive * rot * ginfo R)) a next rest out acc gi,
  acc_get a q = Some (gate_of q acc, gi) ->
  exists gi',
    merge_loop RNum a next (map (rot_stmt q) l ++ rest)%list out =
    merge_loop RNum (acc_set a (Z.to_nat q)
                       (gate_of q (cfold q acc (map (fun x => snd (fst x)) l)), gi')) next rest out.
Proof.
  induction l as [|[[o x] gx] l IH]; intros a next rest out acc gi Hget.
  - exists gi. cbn [map app cfold].
    rewrite acc_set_same_val; [reflexivity|].
    unfold acc_get in Hget. destruct (Z.ltb q 0); [discriminate | exact Hget].
  - cbn [map app cfold fst snd]. unfold rot_stmt at 1. cbn [fst snd]. unfold gate_of at 1.
    rewrite MergeP.merge_loop_rot, Hget.
    unfold compose_gates. cbn [fst snd gate_of]. rewrite Z.eqb_refl.
    set (y := compose RNum q (r_ax x) (r_ang x) (r_ph x) gx (r_ax acc) (r_ang acc) (r_ph acc) gi).
    assert (Ey : y = (gate_of q (cstep q x acc), snd y)).
    { rewrite (surjective_pairing y) at 1. f_equal. unfold y. rewrite compose_fst_gate.
      destruct x as [[xa xn] xp], acc as [[ba bn] bp]. reflexivity. }
    rewrite Ey.
    destruct (IH (acc_set a (Z.to_nat q) (gate_of q (cstep q x acc), snd y)) next rest out
                 (cstep q x acc) (snd y)) as [gi' E].
    { apply (MergeP.acc_get_set_same _ _ _ _ Hget). }
    exists gi'. rewrite E, acc_set_twice. reflexivity.
Qed.

Theorem merge_loop_run_operator_bound q (l : list (positive * rot * ginfo R)) a next rest out acc gi :
  acc_get a q = Some (gate_of q acc, gi) ->
  unit_axis (r_ax acc) -> chain_ok q acc (map (fun x => snd (fst x)) l) ->
  exists ax ang ph gi' (sg : R),
    merge_loop RNum a next (map (rot_stmt q) l ++ rest)%list out =
    merge_loop RNum (acc_set a (Z.to_nat q) (BSR q ax ang ph, gi')) next rest out /\
    unit_axis ax /\ (sg = 1 \/ sg = -1) /\
    forall r c, (r < 2)%nat -> (c < 2)%nat ->
      let M := can1 RNum ax ang ph in
      let P := mscale (sg, 0) (oprod (op acc) (map (fun x => snd (fst x)) l)) in
      Rabs (fst (entry M r c) - fst (entry P r c)) <= INR (length l) * chain_eps /\
      Rabs (snd (entry M r c) - snd (entry P r c)) <= INR (length l) * chain_eps.
Proof.
  intros Hget Hacc Hok.
  destruct (merge_loop_run q l a next rest out acc gi Hget) as [gi' E].
  destruct (chain_operator_bound q _ acc Hacc Hok) as (sg & Hsg & Hu & Hclose).
  set (fin := cfold q acc (map (fun x => snd (fst x)) l)) in *.
  exists (r_ax fin), (r_ang fin), (r_ph fin), gi', sg.
  split; [exact E|]. split; [exact Hu|]. split; [exact Hsg|].
  intros r c Hr Hc. cbv zeta. rewrite map_length in Hclose. exact (Hclose r c Hr Hc).
Qed.

Print Assumptions sin_lipschitz.
Print Assumptions cos_lipschitz.
Print Assumptions can1_lipschitz.
Print Assumptions can1_entry_lipschitz.
Print Assumptions mk_axis_perturbed.
Print Assumptions compose_rounded_operator_bound_unit.
Print Assumptions compose_rounded_operator_bound.
Print Assumptions compose_shortcut_operator_bound.
Print Assumptions chain_operator_bound.
Print Assumptions gfold_operator_bound.
Print Assumptions merge_loop_run_operator_bound.
