(* EqualityP.v — in the exact regime, gate equality [==] (Model/Check.v: [gate_eq],
   [compare_gates], [bsr_eq]) behaves like an equivalence relation.

   Exactness is [mequiv] (Theory/Kraus.v): A = z . B for ONE complex z of modulus 1.
   [prop_on order g1 g2]: the matrices of g1 and g2 written on the qubit list [order]
   (what compare_gates builds) exist and are [mequiv].

   Part 1  [compare_gates_exact], [compare_gates_sound], [compare_gates_true_iff],
           [compare_gates_exact_iff], [compare_gates_exact_operators].
   Part 2  the order of the union does not matter: [scale_order_change],
           [prop_on_order_change], [prop_on_iff_register]; symmetry
           [compare_gates_exact_sym], [compare_gates_exact_both].
   Part 3  transitivity [prop_on_union_trans], [compare_gates_exact_trans];
           [gate_pequiv] is an equivalence on valid gates.
   Part 4  [bsr_eq] on exact representations: [bsr_eq_exact_refl], [bsr_eq_exact],
           [bsr_eq_exact_sym]; tolerance breaks transitivity
           [bsr_eq_not_transitive_refuted] and symmetry [bsr_eq_sym_refuted].
   Part 5  (circuit equality) the model has no circuit / statement equality: nothing to prove.
   Part 6  non-vacuity: CNOT as a controlled X against its matrix form, both orders.

   Everything is at RNum. *)
From Coq Require Import Reals ZArith NArith List Bool Lia Lra Arith.
Import ListNotations.
From OSQ Require Import Num IR Bits Construct Matrix Check RTrig RNum SU2 Kraus.
From OSQ Require Import BitsP ConstructP MatrixP CheckP EmbedP SemBaseP CNOTP SemP.
Close Scope N_scope.
Close Scope R_scope.
Open Scope nat_scope.

(* ================================================================== *)
(* 0. small facts                                                      *)

Lemma unit_c_Cabs z : unit_c z -> Cabs z = 1%R.
Proof. unfold unit_c, Cabs. intros ->. apply sqrt_1. Qed.

Lemma Cabs_unit_c z : Cabs z = 1%R -> unit_c z.
Proof. intros H. unfold unit_c. rewrite <- Cabs_sq, H. ring. Qed.

(* the two names of "multiply every entry by z" *)
Lemma mscale_mat_scale z (A : matR) : mscale z A = mat_scale RNum z A.
Proof. reflexivity. Qed.

(* registers for which the reference entry of a unitary is above ATOL: 2^k * ATOL^2 < 1 *)
Definition fits (k : nat) : Prop := (INR (2 ^ k) * (ATOL * ATOL) < 1)%R.

Lemma fits_46 k : k <= 46 -> fits k.
Proof.
  intros Hk. unfold fits. rewrite pow_INR. change (INR 2) with 2%R.
  assert (H : (2 ^ k <= 2 ^ 46)%R) by (apply Rle_pow; [lra|exact Hk]).
  assert (H46 : (2 ^ 46 = 70368744177664)%R) by (simpl; lra).
  assert (H0 : (0 < 2 ^ k)%R) by (apply pow_lt; lra).
  unfold ATOL. rewrite H46 in H. nra.
Qed.

Lemma union_order_NoDup {T} (g1 g2 : gate T) : NoDup (union_order g1 g2).
Proof. apply zdedup_NoDup. Qed.

Lemma union_order_In {T} (g1 g2 : gate T) q :
  In q (union_order g1 g2) <-> In q (gate_qubits g1) \/ In q (gate_qubits g2).
Proof. unfold union_order. rewrite zdedup_In_iff, in_app_iff. reflexivity. Qed.

Lemma union_order_length_sym {T} (g1 g2 : gate T) :
  length (union_order g2 g1) = length (union_order g1 g2).
Proof.
  apply Nat.le_antisymm; apply NoDup_incl_length; try apply union_order_NoDup;
    intros q Hq; apply union_order_In; apply union_order_In in Hq; tauto.
Qed.

(* ================================================================== *)
(* 1. the matrix compare_gates builds for one gate                      *)

(* what [reindexed_matrix order [g]] is: the matrix, on length order qubits, of the
   gate relabelled by position (angles passed through the constructor once more) *)
Lemma reindexed_matrix_single_inv order (g : gate R) A :
  reindexed_matrix RNum order [g] = Ok A ->
  incl (gate_qubits g) order /\ NoDup (gate_qubits g) /\
  get_matrix RNum (Z.of_nat (length order))
             (map_gate_qubits (zpos order) (renorm_gate RNum g)) = Ok A.
Proof.
  unfold reindexed_matrix. cbn [reindex_gates].
  destruct (reindex_gate RNum order g) as [g'|e] eqn:Eg; [|discriminate].
  destruct (reindex_gate_spec RNum order g g' Eg) as [-> [Hi Hnd]].
  unfold gates_matrix, circuit_matrix. cbn [map circuit_matrix_from].
  destruct (get_matrix RNum (Z.of_nat (length order))
              (map_gate_qubits (zpos order) (renorm_gate RNum g))) as [G|e] eqn:EG; [|discriminate].
  intros H. injection H as <-. split; [exact Hi|]. split; [exact Hnd|].
  f_equal. symmetry.
  apply (mmul_eye_r (zpow2 (Z.of_nat (length order))) (zpow2 (Z.of_nat (length order))));
    [apply SemBaseP.zpow2_pos|]. exact (get_matrix_wf RNum _ _ _ EG).
Qed.

Lemma gate_unitary_ok_relabel f (g : gate R) :
  inj_on f (gate_qubits g) -> gate_unitary_ok g ->
  gate_unitary_ok (map_gate_qubits f (renorm_gate RNum g)).
Proof.
  induction g as [q ax a p|c g IH|m ops]; intros Hinj Hok;
    cbn [renorm_gate map_gate_qubits gate_unitary_ok gate_qubits] in *.
  - exact Hok.
  - destruct Hok as [Hc Hok]. split.
    + rewrite gate_qubits_map, gate_qubits_renorm. intros Hin.
      apply in_map_iff in Hin. destruct Hin as [y [Hy Hyin]].
      apply Hc. rewrite <- (Hinj y c); [exact Hyin|now right|now left|exact Hy].
    + apply IH; [|exact Hok]. eapply inj_on_incl; [|exact Hinj]. intros z Hz; now right.
  - destruct Hok as [Hnd Hu]. split; [now apply NoDup_map_inj_in|]. now rewrite map_length.
Qed.

(* a well-formed gate gives a unitary matrix on any list of qubits that contains its own *)
Theorem reindexed_matrix_unitary order (g : gate R) A :
  gate_unitary_ok g -> reindexed_matrix RNum order [g] = Ok A -> unitary (2 ^ length order) A.
Proof.
  intros Hok HA. destruct (reindexed_matrix_single_inv order g A HA) as [Hi [_ HG]].
  rewrite <- (zpow2_of_nat (length order)).
  apply (get_matrix_unitary _ _ A) in HG; [exact HG|].
  apply gate_unitary_ok_relabel; [|exact Hok].
  eapply inj_on_incl; [exact Hi|apply zpos_inj].
Qed.

(* ================================================================== *)
(* 2. Part 1: exact proportionality is accepted                         *)

Theorem equiv_up_to_phase_exact_unitary d (A B : matR) :
  0 < d -> unitary d A -> mequiv A B -> (INR d * (ATOL * ATOL) < 1)%R ->
  equiv_up_to_phase RNum A B = Ok true.
Proof.
  intros Hd HU [z [Hz HA]] Hfit. pose proof HU as [HwA _].
  assert (HlA : length A = d) by (destruct HwA; assumption).
  destruct (argmax_entry_wf RNum d A Hd HwA) as [i [j [Hfn [Hi Hj]]]].
  pose proof (equiv_up_to_phase_reference_above_atol d A i j HU Hfn Hfit) as Hbig.
  apply (equiv_up_to_phase_complete_exact A B z i j).
  - now apply unit_c_Cabs.
  - exact HA.
  - rewrite (shape_row _ _ _ _ HwA Hd). exact Hd.
  - lia.
  - rewrite (shape_row _ _ _ _ HwA Hi). exact Hj.
  - lra.
Qed.

(* the two gates written on [order] have matrices equal up to a global phase, exactly *)
Definition prop_on (order : list Z) (g1 g2 : gate R) : Prop :=
  exists A B, reindexed_matrix RNum order [g1] = Ok A /\
              reindexed_matrix RNum order [g2] = Ok B /\ mequiv A B.

Lemma pow2_pos k : 0 < 2 ^ k.
Proof. apply Nat.neq_0_lt_0, Nat.pow_nonzero. lia. Qed.

Theorem compare_gates_ord_exact order (g1 g2 : gate R) :
  gate_unitary_ok g1 -> fits (length order) -> prop_on order g1 g2 ->
  compare_gates_ord RNum order g1 g2 = Ok true.
Proof.
  intros Hok Hfit [A [B [HA [HB Hm]]]]. unfold compare_gates_ord. rewrite HA, HB.
  apply (equiv_up_to_phase_exact_unitary (2 ^ length order)); [apply pow2_pos| |exact Hm|exact Hfit].
  now apply (reindexed_matrix_unitary order g1).
Qed.

(* 1a. exactly proportional matrices on the union: the gates compare equal *)
Theorem compare_gates_exact (g1 g2 : gate R) :
  gate_unitary_ok g1 -> fits (length (union_order g1 g2)) ->
  prop_on (union_order g1 g2) g1 g2 -> compare_gates RNum g1 g2 = Ok true.
Proof. apply compare_gates_ord_exact. Qed.

(* 1b. conversely: [Ok true] means both matrices exist on the union and agree entrywise,
   up to the ONE factor p read off at the entry of largest modulus, within
   ATOL + 1e-5 |p B_rc| *)
Theorem compare_gates_sound (g1 g2 : gate R) :
  compare_gates RNum g1 g2 = Ok true ->
  exists A B i j p,
    let d := 2 ^ length (union_order g1 g2) in
    reindexed_matrix RNum (union_order g1 g2) [g1] = Ok A /\
    reindexed_matrix RNum (union_order g1 g2) [g2] = Ok B /\
    wf_mat d A /\ wf_mat d B /\ i < d /\ j < d /\
    argmax_entry RNum A = Some (i, j) /\
    (ATOL <= Cabs (mget RNum A i j))%R /\ (ATOL <= Cabs (mget RNum B i j))%R /\
    p = cdiv RNum (mget RNum A i j) (mget RNum B i j) /\
    forall r c, r < d -> c < d ->
      (Cabs (csub RNum (mget RNum A r c) (cmul RNum p (mget RNum B r c)))
       <= ATOL + 1 / 100000 * Cabs (cmul RNum p (mget RNum B r c)))%R.
Proof.
  intros H. apply compare_gates_ord_spec in H. destruct H as [A [B [HA [HB He]]]].
  pose proof (reindexed_matrix_wf _ _ _ _ HA) as HwA.
  pose proof (reindexed_matrix_wf _ _ _ _ HB) as HwB.
  apply equiv_up_to_phase_sound in He.
  destruct He as [i [j [p [Hfn [Hi [Hj [_ [_ [HbA [HbB [Hp [_ [_ Hent]]]]]]]]]]]]].
  set (d := 2 ^ length (union_order g1 g2)) in *.
  assert (HlA : length A = d) by (destruct HwA; assumption).
  assert (Hi' : i < d) by lia.
  rewrite (shape_row _ _ _ _ HwA Hi') in Hj.
  exists A, B, i, j, p. cbv zeta. fold d.
  do 10 (split; [assumption|]).
  intros r c Hr Hc. apply Hent; [lia|]. now rewrite (shape_row _ _ _ _ HwA Hr).
Qed.

(* 1c. for a well-formed first gate on a register that [fits], the verdict [Ok true] IS
   entrywise closeness for the factor read off at the reference entry (the test on the
   reference entry of the first matrix never fires) *)
Theorem compare_gates_true_iff (g1 g2 : gate R) :
  gate_unitary_ok g1 -> fits (length (union_order g1 g2)) ->
  (compare_gates RNum g1 g2 = Ok true <->
   exists A B i j,
     let d := 2 ^ length (union_order g1 g2) in
     let p := cdiv RNum (mget RNum A i j) (mget RNum B i j) in
     reindexed_matrix RNum (union_order g1 g2) [g1] = Ok A /\
     reindexed_matrix RNum (union_order g1 g2) [g2] = Ok B /\
     argmax_entry RNum A = Some (i, j) /\
     (ATOL <= Cabs (mget RNum B i j))%R /\
     forall r c, r < d -> c < d ->
       (Cabs (csub RNum (mget RNum A r c) (cmul RNum p (mget RNum B r c)))
        <= ATOL + 1 / 100000 * Cabs (cmul RNum p (mget RNum B r c)))%R).
Proof.
  intros Hok Hfit. split.
  - intros H. destruct (compare_gates_sound g1 g2 H) as [A [B [i [j [p Hs]]]]]. cbv zeta in Hs.
    destruct Hs as [HA [HB [_ [_ [_ [_ [Hfn [_ [HbB [Hp Hent]]]]]]]]]].
    exists A, B, i, j. cbv zeta. rewrite <- Hp. auto.
  - intros [A [B [i [j H]]]]. cbv zeta in H. destruct H as [HA [HB [Hfn [HbB Hent]]]].
    apply compare_gates_ord_spec. exists A, B. split; [exact HA|]. split; [exact HB|].
    pose proof (reindexed_matrix_wf _ _ _ _ HA) as HwA.
    pose proof (reindexed_matrix_wf _ _ _ _ HB) as HwB.
    set (d := 2 ^ length (union_order g1 g2)) in *.
    pose proof (reindexed_matrix_unitary _ g1 A Hok HA) as HU. fold d in HU.
    pose proof (equiv_up_to_phase_reference_above_atol d A i j HU Hfn Hfit) as Hbig.
    apply equiv_up_to_phase_true_iff. exists (i, j). split; [exact Hfn|].
    change (mat_get RNum A (i, j)) with (mget RNum A i j).
    change (mat_get RNum B (i, j)) with (mget RNum B i j).
    split; [apply smallb_false_iff; lra|]. split; [apply smallb_false_iff; exact HbB|].
    apply (mat_allclose_tol_shape_iff _ d d); [exact HwA|now apply shape_mat_scale|].
    intros r c Hr Hc. change (atol RNum) with ATOL.
    assert (HlB : length B = d) by (destruct HwB; assumption).
    rewrite mget_mat_scale; [now apply Hent|lia|now rewrite (shape_row _ _ _ _ HwB Hr)].
Qed.

(* 1d. the statement asked for: exactness gives [Ok true]; [Ok true] gives closeness *)
Theorem compare_gates_exact_iff (g1 g2 : gate R) :
  gate_unitary_ok g1 -> fits (length (union_order g1 g2)) ->
  (prop_on (union_order g1 g2) g1 g2 -> compare_gates RNum g1 g2 = Ok true) /\
  (compare_gates RNum g1 g2 = Ok true ->
   exists A B i j p,
     let d := 2 ^ length (union_order g1 g2) in
     reindexed_matrix RNum (union_order g1 g2) [g1] = Ok A /\
     reindexed_matrix RNum (union_order g1 g2) [g2] = Ok B /\
     wf_mat d A /\ wf_mat d B /\ i < d /\ j < d /\
     argmax_entry RNum A = Some (i, j) /\
     (ATOL <= Cabs (mget RNum A i j))%R /\ (ATOL <= Cabs (mget RNum B i j))%R /\
     p = cdiv RNum (mget RNum A i j) (mget RNum B i j) /\
     forall r c, r < d -> c < d ->
       (Cabs (csub RNum (mget RNum A r c) (cmul RNum p (mget RNum B r c)))
        <= ATOL + 1 / 100000 * Cabs (cmul RNum p (mget RNum B r c)))%R).
Proof.
  intros Hok Hfit. split; [now apply compare_gates_exact|apply compare_gates_sound].
Qed.

(* ================================================================== *)
(* 3. Part 2: the order (and the extent) of the qubit list does not matter *)

(* from the list to a register: the gate (angles as the constructors store them) has a
   matrix on every register holding [order], and it is the compared matrix embedded *)
Lemma reindexed_to_register order n (g : gate R) A :
  NoDup order -> (forall q, In q order -> (0 <= q < n)%Z) ->
  reindexed_matrix RNum order [g] = Ok A ->
  exists M, get_matrix RNum n (renorm_gate RNum g) = Ok M /\ embeds order n M A.
Proof.
  intros Hnd Hrange HA.
  destruct (reindexed_matrix_single_inv order g A HA) as [Hi [_ HG]].
  assert (Hi' : incl (gate_qubits (renorm_gate RNum g)) order) by (now rewrite gate_qubits_renorm).
  destruct (proj2 (get_matrix_embed_ok RNum order n (renorm_gate RNum g) Hi' Hrange)) as [M HM].
  { now exists A. }
  exists M. split; [exact HM|].
  apply (reindexed_matrix_embed order n [g] A M Hnd Hrange HA). cbn [map].
  now apply gates_matrix_single.
Qed.

(* the entries of the compared matrix are entries of the register matrix *)
Lemma embeds_entry order n (M A : matR) i j :
  NoDup order -> (forall q, In q order -> (0 <= q < n)%Z) -> embeds order n M A ->
  i < 2 ^ length order -> j < 2 ^ length order ->
  mget RNum A i j = mget RNum M (unpack order 0 i) (unpack order 0 j).
Proof.
  intros Hnd Hrange HE Hi Hj.
  assert (HndN : NoDup (map Z.to_N order)).
  { apply idxN_NoDup; [exact Hnd|]. intros q Hq. apply (Hrange q Hq). }
  rewrite (HE _ _ (unpack_lt order n 0 i Hrange (SemBaseP.zpow2_pos n))
                  (unpack_lt order n 0 j Hrange (SemBaseP.zpow2_pos n))).
  assert (E : agreeb (map Z.to_N order) (N.of_nat (unpack order 0 i)) (N.of_nat (unpack order 0 j)) = true).
  { apply (agreeb_trans _ _ (N.of_nat 0)); [rewrite agreeb_sym|]; apply agree_unpack. }
  rewrite E, !pack_unpack by assumption. reflexivity.
Qed.

Lemma scale_order_change_nonneg n order order' (g1 g2 : gate R) A B A' B' z :
  NoDup order -> (forall q, In q order -> (0 <= q < n)%Z) ->
  NoDup order' -> (forall q, In q order' -> (0 <= q < n)%Z) ->
  reindexed_matrix RNum order [g1] = Ok A -> reindexed_matrix RNum order [g2] = Ok B ->
  reindexed_matrix RNum order' [g1] = Ok A' -> reindexed_matrix RNum order' [g2] = Ok B' ->
  A = mscale z B -> A' = mscale z B'.
Proof.
  intros Hnd Hr Hnd' Hr' HA HB HA' HB' Hz.
  destruct (reindexed_to_register order n g1 A Hnd Hr HA) as [M1 [HM1 E1]].
  destruct (reindexed_to_register order n g2 B Hnd Hr HB) as [M2 [HM2 E2]].
  destruct (reindexed_to_register order' n g1 A' Hnd' Hr' HA') as [M1' [HM1' E1']].
  destruct (reindexed_to_register order' n g2 B' Hnd' Hr' HB') as [M2' [HM2' E2']].
  rewrite HM1 in HM1'. injection HM1' as <-. rewrite HM2 in HM2'. injection HM2' as <-.
  apply (mat_ext RNum (2 ^ length order') (2 ^ length order')).
  - exact (reindexed_matrix_wf _ _ _ _ HA').
  - apply mscale_wf. exact (reindexed_matrix_wf _ _ _ _ HB').
  - intros r c Hrr Hc. rewrite mget_mscale.
    rewrite (embeds_entry order' n M1 A' r c Hnd' Hr' E1' Hrr Hc).
    rewrite (embeds_entry order' n M2 B' r c Hnd' Hr' E2' Hrr Hc).
    apply (embedded_proportional order n B A M2 M1 z E2 E1).
    + intros i j _ _. rewrite Hz. apply mget_mscale.
    + apply unpack_lt; [exact Hr'|apply SemBaseP.zpow2_pos].
    + apply unpack_lt; [exact Hr'|apply SemBaseP.zpow2_pos].
Qed.

(* an exact factor between the matrices of two gates on one qubit list is the same exact
   factor on any other list (other order, more qubits, fewer qubits) on which both gates
   can be written; qubit indices are arbitrary integers *)
Theorem scale_order_change order order' (g1 g2 : gate R) A B A' B' z :
  NoDup order -> NoDup order' ->
  reindexed_matrix RNum order [g1] = Ok A -> reindexed_matrix RNum order [g2] = Ok B ->
  reindexed_matrix RNum order' [g1] = Ok A' -> reindexed_matrix RNum order' [g2] = Ok B' ->
  A = mscale z B -> A' = mscale z B'.
Proof.
  intros Hnd Hnd' HA HB HA' HB' Hz.
  set (all := (order ++ order')%list). set (f := zpos all). set (n := Z.of_nat (length all)).
  assert (Hinj : inj_on f all) by apply zpos_inj.
  assert (Hrel : forall o (g : gate R) X, incl o all -> reindexed_matrix RNum o [g] = Ok X ->
                   reindexed_matrix RNum (map f o) [map_gate_qubits f g] = Ok X).
  { intros o g X Ho HX. change [map_gate_qubits f g] with (map (map_gate_qubits f) [g]).
    rewrite reindexed_matrix_relabel; [exact HX|].
    unfold gates_qubits. cbn [flat_map]. rewrite app_nil_r.
    eapply inj_on_incl; [|exact Hinj]. intros q Hq. apply in_app_or in Hq.
    destruct Hq as [Hq|Hq]; [now apply Ho|]. apply Ho.
    apply (proj1 (reindexed_matrix_single_inv o g X HX)). exact Hq. }
  assert (Ho : incl order all) by (apply incl_appl, incl_refl).
  assert (Ho' : incl order' all) by (apply incl_appr, incl_refl).
  assert (Hndf : forall o, incl o all -> NoDup o -> NoDup (map f o)).
  { intros o Hio Hndo. apply NoDup_map_inj_in; [|exact Hndo].
    intros x y Hx Hy. apply Hinj; now apply Hio. }
  assert (Hrf : forall o, incl o all -> forall q, In q (map f o) -> (0 <= q < n)%Z).
  { intros o Hio q Hq. apply in_map_iff in Hq. destruct Hq as [x [<- Hx]].
    apply (zpos_spec all x). now apply Hio. }
  apply (scale_order_change_nonneg n (map f order) (map f order')
           (map_gate_qubits f g1) (map_gate_qubits f g2) A B A' B' z).
  - now apply Hndf.
  - now apply Hrf.
  - now apply Hndf.
  - now apply Hrf.
  - now apply Hrel.
  - now apply Hrel.
  - now apply Hrel.
  - now apply Hrel.
  - exact Hz.
Qed.

Corollary mequiv_order_change order order' (g1 g2 : gate R) A B A' B' :
  NoDup order -> NoDup order' ->
  reindexed_matrix RNum order [g1] = Ok A -> reindexed_matrix RNum order [g2] = Ok B ->
  reindexed_matrix RNum order' [g1] = Ok A' -> reindexed_matrix RNum order' [g2] = Ok B' ->
  mequiv A B -> mequiv A' B'.
Proof.
  intros Hnd Hnd' HA HB HA' HB' [z [Hz HAB]]. exists z. split; [exact Hz|].
  exact (scale_order_change order order' g1 g2 A B A' B' z Hnd Hnd' HA HB HA' HB' HAB).
Qed.

(* ---- prop_on: algebra ------------------------------------------------ *)

Lemma prop_on_refl order (g : gate R) :
  gate_valid g -> incl (gate_qubits g) order -> prop_on order g g.
Proof.
  intros Hv Hi. destruct (reindexed_matrix_total RNum order g Hi Hv) as [A [HA _]].
  exists A, A. split; [exact HA|]. split; [exact HA|apply mequiv_refl].
Qed.

Lemma prop_on_sym order (g1 g2 : gate R) : prop_on order g1 g2 -> prop_on order g2 g1.
Proof. intros [A [B [HA [HB H]]]]. exists B, A. split; [exact HB|]. split; [exact HA|now apply mequiv_sym]. Qed.

Lemma prop_on_trans order (g1 g2 g3 : gate R) :
  prop_on order g1 g2 -> prop_on order g2 g3 -> prop_on order g1 g3.
Proof.
  intros [A [B [HA [HB H]]]] [B' [C [HB' [HC H']]]].
  rewrite HB in HB'. injection HB' as <-.
  exists A, C. split; [exact HA|]. split; [exact HC|]. now apply (mequiv_trans _ B).
Qed.

(* index-free: exactness on one qubit list is exactness on any other list that holds
   the qubits of both (valid) gates *)
Theorem prop_on_order_change order order' (g1 g2 : gate R) :
  NoDup order -> NoDup order' ->
  gate_valid g1 -> gate_valid g2 ->
  incl (gate_qubits g1) order' -> incl (gate_qubits g2) order' ->
  prop_on order g1 g2 -> prop_on order' g1 g2.
Proof.
  intros Hnd Hnd' Hv1 Hv2 Hi1 Hi2 [A [B [HA [HB H]]]].
  destruct (reindexed_matrix_total RNum order' g1 Hi1 Hv1) as [A' [HA' _]].
  destruct (reindexed_matrix_total RNum order' g2 Hi2 Hv2) as [B' [HB' _]].
  exists A', B'. split; [exact HA'|]. split; [exact HB'|].
  exact (mequiv_order_change order order' g1 g2 A B A' B' Hnd Hnd' HA HB HA' HB' H).
Qed.

(* exactness on the compared list is exactness of the operators on a register, both ways *)
Theorem prop_on_to_register order n (g1 g2 : gate R) :
  NoDup order -> (forall q, In q order -> (0 <= q < n)%Z) ->
  prop_on order g1 g2 ->
  exists M1 M2, get_matrix RNum n (renorm_gate RNum g1) = Ok M1 /\
                get_matrix RNum n (renorm_gate RNum g2) = Ok M2 /\ mequiv M1 M2.
Proof.
  intros Hnd Hr [A [B [HA [HB [z [Hz HAB]]]]]].
  destruct (reindexed_to_register order n g1 A Hnd Hr HA) as [M1 [HM1 E1]].
  destruct (reindexed_to_register order n g2 B Hnd Hr HB) as [M2 [HM2 E2]].
  exists M1, M2. split; [exact HM1|]. split; [exact HM2|]. exists z. split; [exact Hz|].
  apply (mat_ext RNum (zpow2 n) (zpow2 n)).
  - exact (get_matrix_wf RNum n _ M1 HM1).
  - apply mscale_wf. exact (get_matrix_wf RNum n _ M2 HM2).
  - intros r c Hrr Hc. rewrite mget_mscale.
    apply (embedded_proportional order n B A M2 M1 z E2 E1); auto.
    intros i j _ _. rewrite HAB. apply mget_mscale.
Qed.

Theorem register_to_prop_on order n (g1 g2 : gate R) M1 M2 :
  NoDup order -> (forall q, In q order -> (0 <= q < n)%Z) ->
  gate_valid g1 -> gate_valid g2 ->
  incl (gate_qubits g1) order -> incl (gate_qubits g2) order ->
  get_matrix RNum n (renorm_gate RNum g1) = Ok M1 ->
  get_matrix RNum n (renorm_gate RNum g2) = Ok M2 -> mequiv M1 M2 ->
  prop_on order g1 g2.
Proof.
  intros Hnd Hr Hv1 Hv2 Hi1 Hi2 HM1 HM2 [z [Hz HM]].
  destruct (reindexed_matrix_total RNum order g1 Hi1 Hv1) as [A [HA HwA]].
  destruct (reindexed_matrix_total RNum order g2 Hi2 Hv2) as [B [HB HwB]].
  destruct (reindexed_to_register order n g1 A Hnd Hr HA) as [M1' [HM1' E1]].
  destruct (reindexed_to_register order n g2 B Hnd Hr HB) as [M2' [HM2' E2]].
  rewrite HM1 in HM1'. injection HM1' as <-. rewrite HM2 in HM2'. injection HM2' as <-.
  exists A, B. split; [exact HA|]. split; [exact HB|]. exists z. split; [exact Hz|].
  apply (mat_ext RNum (2 ^ length order) (2 ^ length order)); [exact HwA|now apply mscale_wf|].
  intros r c Hrr Hc. rewrite mget_mscale.
  rewrite (embeds_entry order n M1 A r c Hnd Hr E1 Hrr Hc).
  rewrite (embeds_entry order n M2 B r c Hnd Hr E2 Hrr Hc).
  rewrite HM. apply mget_mscale.
Qed.

(* 1e. the exact-regime corollary, on operators: two valid gates (angles as the
   constructors store them) whose operators on a register are exactly equal up to a
   global phase compare equal *)
Corollary compare_gates_exact_operators n (g1 g2 : gate R) M1 M2 :
  gate_valid g1 -> gate_valid g2 -> gate_unitary_ok g1 ->
  normalised g1 -> normalised g2 ->
  get_matrix RNum n g1 = Ok M1 -> get_matrix RNum n g2 = Ok M2 -> mequiv M1 M2 ->
  fits (length (union_order g1 g2)) ->
  compare_gates RNum g1 g2 = Ok true.
Proof.
  intros Hv1 Hv2 Hok Hn1 Hn2 HM1 HM2 Hm Hfit.
  apply compare_gates_exact; [exact Hok|exact Hfit|].
  apply (register_to_prop_on _ n g1 g2 M1 M2); auto.
  - apply union_order_NoDup.
  - intros q Hq. apply union_order_In in Hq. destruct Hq as [Hq|Hq].
    + exact (get_matrix_ok_range RNum n g1 M1 HM1 q Hq).
    + exact (get_matrix_ok_range RNum n g2 M2 HM2 q Hq).
  - intros q Hq. apply union_order_In. now left.
  - intros q Hq. apply union_order_In. now right.
  - now rewrite Hn1.
  - now rewrite Hn2.
Qed.

(* ---- symmetry ------------------------------------------------------------ *)

(* exactness on the union taken in one order is exactness on the union taken in the other *)
Lemma prop_on_union_sym (g1 g2 : gate R) :
  gate_valid g1 -> gate_valid g2 ->
  prop_on (union_order g1 g2) g1 g2 -> prop_on (union_order g2 g1) g2 g1.
Proof.
  intros Hv1 Hv2 H. apply prop_on_sym.
  apply (prop_on_order_change (union_order g1 g2) (union_order g2 g1) g1 g2);
    try apply union_order_NoDup; try assumption.
  - intros q Hq. apply union_order_In. now right.
  - intros q Hq. apply union_order_In. now left.
Qed.

(* 2. symmetry in the exact regime (the verdict in the first order is not even needed) *)
Theorem compare_gates_exact_sym (g1 g2 : gate R) :
  gate_valid g1 -> gate_valid g2 -> gate_unitary_ok g2 ->
  fits (length (union_order g1 g2)) ->
  prop_on (union_order g1 g2) g1 g2 ->
  compare_gates RNum g1 g2 = Ok true -> compare_gates RNum g2 g1 = Ok true.
Proof.
  intros Hv1 Hv2 Hok2 Hfit H _. apply compare_gates_exact; [exact Hok2| |now apply prop_on_union_sym].
  now rewrite union_order_length_sym.
Qed.

Theorem compare_gates_exact_both (g1 g2 : gate R) :
  gate_valid g1 -> gate_valid g2 -> gate_unitary_ok g1 -> gate_unitary_ok g2 ->
  fits (length (union_order g1 g2)) ->
  prop_on (union_order g1 g2) g1 g2 ->
  compare_gates RNum g1 g2 = Ok true /\ compare_gates RNum g2 g1 = Ok true.
Proof.
  intros Hv1 Hv2 Hok1 Hok2 Hfit H.
  assert (H12 : compare_gates RNum g1 g2 = Ok true) by now apply compare_gates_exact.
  split; [exact H12|]. now apply (compare_gates_exact_sym g1 g2).
Qed.

(* ================================================================== *)
(* 4. Part 3: transitivity in the exact regime                          *)

(* three different unions are involved; all three gates are written on the list of all
   their qubits, where [mequiv] composes, and the result is brought back to the union of
   the outer two *)
Theorem prop_on_union_trans (g1 g2 g3 : gate R) :
  gate_valid g1 -> gate_valid g2 -> gate_valid g3 ->
  prop_on (union_order g1 g2) g1 g2 -> prop_on (union_order g2 g3) g2 g3 ->
  prop_on (union_order g1 g3) g1 g3.
Proof.
  intros Hv1 Hv2 Hv3 H12 H23.
  set (all := zdedup (gate_qubits g1 ++ gate_qubits g2 ++ gate_qubits g3)).
  assert (Hnd : NoDup all) by apply zdedup_NoDup.
  assert (Hin : forall q, In q all <-> In q (gate_qubits g1) \/ In q (gate_qubits g2) \/ In q (gate_qubits g3)).
  { intros q. unfold all. rewrite zdedup_In_iff, !in_app_iff. reflexivity. }
  assert (Hi1 : incl (gate_qubits g1) all) by (intros q Hq; apply Hin; auto).
  assert (Hi2 : incl (gate_qubits g2) all) by (intros q Hq; apply Hin; auto).
  assert (Hi3 : incl (gate_qubits g3) all) by (intros q Hq; apply Hin; auto).
  assert (A12 : prop_on all g1 g2).
  { apply (prop_on_order_change (union_order g1 g2) all); auto. apply union_order_NoDup. }
  assert (A23 : prop_on all g2 g3).
  { apply (prop_on_order_change (union_order g2 g3) all); auto. apply union_order_NoDup. }
  apply (prop_on_order_change all (union_order g1 g3)); auto.
  - apply union_order_NoDup.
  - intros q Hq. apply union_order_In. now left.
  - intros q Hq. apply union_order_In. now right.
  - now apply (prop_on_trans all g1 g2 g3).
Qed.

Theorem compare_gates_exact_trans (g1 g2 g3 : gate R) :
  gate_valid g1 -> gate_valid g2 -> gate_valid g3 -> gate_unitary_ok g1 ->
  fits (length (union_order g1 g3)) ->
  prop_on (union_order g1 g2) g1 g2 -> prop_on (union_order g2 g3) g2 g3 ->
  compare_gates RNum g1 g2 = Ok true -> compare_gates RNum g2 g3 = Ok true ->
  compare_gates RNum g1 g3 = Ok true.
Proof.
  intros Hv1 Hv2 Hv3 Hok Hfit H12 H23 _ _.
  apply compare_gates_exact; [exact Hok|exact Hfit|]. now apply (prop_on_union_trans g1 g2 g3).
Qed.

(* exact equality of two gates up to a global phase, as compare_gates sees it *)
Definition gate_pequiv (g1 g2 : gate R) : Prop := prop_on (union_order g1 g2) g1 g2.

(* ... is an equivalence relation on valid gates, and implies the verdict True *)
Theorem gate_pequiv_equivalence :
  (forall g, gate_valid g -> gate_pequiv g g) /\
  (forall g1 g2, gate_valid g1 -> gate_valid g2 -> gate_pequiv g1 g2 -> gate_pequiv g2 g1) /\
  (forall g1 g2 g3, gate_valid g1 -> gate_valid g2 -> gate_valid g3 ->
     gate_pequiv g1 g2 -> gate_pequiv g2 g3 -> gate_pequiv g1 g3) /\
  (forall g1 g2, gate_unitary_ok g1 -> fits (length (union_order g1 g2)) ->
     gate_pequiv g1 g2 -> compare_gates RNum g1 g2 = Ok true).
Proof.
  split; [|split; [|split]].
  - intros g Hv. apply prop_on_refl; [exact Hv|]. intros q Hq. apply union_order_In. now left.
  - intros g1 g2. apply prop_on_union_sym.
  - intros g1 g2 g3. apply prop_on_union_trans.
  - intros g1 g2. apply compare_gates_exact.
Qed.

(* reflexivity of == on one valid, well-formed gate *)
Corollary compare_gates_refl (g : gate R) :
  gate_valid g -> gate_unitary_ok g -> fits (length (union_order g g)) ->
  compare_gates RNum g g = Ok true.
Proof.
  intros Hv Hok Hfit. apply compare_gates_exact; [exact Hok|exact Hfit|].
  apply prop_on_refl; [exact Hv|]. intros q Hq. apply union_order_In. now left.
Qed.

(* [gate_pequiv] does not see the actual qubit indices (C19) *)
Theorem gate_pequiv_relabel f (g1 g2 : gate R) :
  inj_on f (gate_qubits g1 ++ gate_qubits g2) ->
  gate_pequiv (map_gate_qubits f g1) (map_gate_qubits f g2) <-> gate_pequiv g1 g2.
Proof.
  intros Hinj. unfold gate_pequiv, prop_on. rewrite union_order_map by exact Hinj.
  assert (Hu : incl (union_order g1 g2) (gate_qubits g1 ++ gate_qubits g2)).
  { intros q Hq. apply union_order_In in Hq. apply in_or_app. exact Hq. }
  assert (H1 : reindexed_matrix RNum (map f (union_order g1 g2)) [map_gate_qubits f g1] =
               reindexed_matrix RNum (union_order g1 g2) [g1]).
  { change [map_gate_qubits f g1] with (map (map_gate_qubits f) [g1]).
    apply reindexed_matrix_relabel. unfold gates_qubits. cbn [flat_map]. rewrite app_nil_r.
    eapply inj_on_incl; [|exact Hinj]. intros q Hq. apply in_app_or in Hq.
    destruct Hq as [Hq|Hq]; [now apply Hu|apply in_or_app; now left]. }
  assert (H2 : reindexed_matrix RNum (map f (union_order g1 g2)) [map_gate_qubits f g2] =
               reindexed_matrix RNum (union_order g1 g2) [g2]).
  { change [map_gate_qubits f g2] with (map (map_gate_qubits f) [g2]).
    apply reindexed_matrix_relabel. unfold gates_qubits. cbn [flat_map]. rewrite app_nil_r.
    eapply inj_on_incl; [|exact Hinj]. intros q Hq. apply in_app_or in Hq.
    destruct Hq as [Hq|Hq]; [now apply Hu|apply in_or_app; now right]. }
  rewrite H1, H2. reflexivity.
Qed.

(* the dispatch of ==: every pair that is not rotation-against-rotation *)
Corollary gate_eq_exact_both (g1 g2 : gate R) :
  is_bsr g1 && is_bsr g2 = false ->
  gate_valid g1 -> gate_valid g2 -> gate_unitary_ok g1 -> gate_unitary_ok g2 ->
  fits (length (union_order g1 g2)) -> gate_pequiv g1 g2 ->
  gate_eq RNum g1 g2 = Ok true /\ gate_eq RNum g2 g1 = Ok true.
Proof.
  intros Hd Hv1 Hv2 Hok1 Hok2 Hfit H.
  rewrite (gate_eq_dispatch RNum g1 g2 Hd).
  rewrite (gate_eq_dispatch RNum g2 g1) by (now rewrite andb_comm).
  now apply compare_gates_exact_both.
Qed.

(* ================================================================== *)
(* 5. Part 4: BlochSphereRotation.__eq__ on exact representations        *)

Section BsrExact.
  Local Open Scope R_scope.

  Ltac rabs := unfold Rabs in *; repeat destruct Rcase_abs; lra.

  (* the representations of one rotation that __eq__ recognises, exactly *)
  Inductive bsr_rep : Z -> axis3 R -> R -> R -> Z -> axis3 R -> R -> R -> Prop :=
  | rep_same q ax a p : bsr_rep q ax a p q ax a p
  | rep_identity q1 ax1 q2 ax2 p : bsr_rep q1 ax1 0 p q2 ax2 0 p
  | rep_negated q ax a p : bsr_rep q ax a p q (neg_axis RNum ax) (- a) p
  | rep_half_turn_l q ax p : bsr_rep q ax PI (p + PI) q (neg_axis RNum ax) PI p
  | rep_half_turn_r q ax p : bsr_rep q ax PI p q (neg_axis RNum ax) PI (p + PI).

  Lemma neg_axis_involutive (ax : axis3 R) : neg_axis RNum (neg_axis RNum ax) = ax.
  Proof.
    destruct ax as [[x y] z]. unfold neg_axis, ax_x, ax_y, ax_z. cbn [fst snd]. rnum_cbn.
    now rewrite !Ropp_involutive.
  Qed.

  Lemma unit_axis_neg ax : unit_axis ax -> unit_axis (neg_axis RNum ax).
  Proof.
    destruct ax as [[x y] z]. unfold unit_axis, neg_axis, ax_x, ax_y, ax_z. cbn [fst snd]. rnum_cbn.
    intros H. rewrite <- H. ring.
  Qed.

  Lemma bsr_rep_sym q1 ax1 a1 p1 q2 ax2 a2 p2 :
    bsr_rep q1 ax1 a1 p1 q2 ax2 a2 p2 -> bsr_rep q2 ax2 a2 p2 q1 ax1 a1 p1.
  Proof.
    intros H. destruct H as [q ax a p|q1 ax1 q2 ax2 p|q ax a p|q ax p|q ax p].
    - constructor.
    - constructor.
    - pose proof (rep_negated q (neg_axis RNum ax) (- a) p) as H.
      now rewrite neg_axis_involutive, Ropp_involutive in H.
    - pose proof (rep_half_turn_r q (neg_axis RNum ax) p) as H.
      now rewrite neg_axis_involutive in H.
    - pose proof (rep_half_turn_l q (neg_axis RNum ax) p) as H.
      now rewrite neg_axis_involutive in H.
  Qed.

  (* a unit axis is never np.allclose to its opposite *)
  Lemma unit_axis_not_close_neg ax : unit_axis ax -> ~ Close_axis ax (neg_axis RNum ax).
  Proof.
    destruct ax as [[x y] z].
    unfold unit_axis, Close_axis, Close_r, neg_axis, ax_x, ax_y, ax_z. cbn [fst snd]. rnum_cbn.
    intros Hu [Hx [Hy Hz]].
    assert (Bx : - (1 / 10000000) <= x <= 1 / 10000000) by rabs.
    assert (By : - (1 / 10000000) <= y <= 1 / 10000000) by rabs.
    assert (Bz : - (1 / 10000000) <= z <= 1 / 10000000) by rabs.
    assert (x * x <= 1 / 100) by nra. assert (y * y <= 1 / 100) by nra.
    assert (z * z <= 1 / 100) by nra. lra.
  Qed.

  Lemma Rabs_0_le_ATOL : Rabs 0 <= ATOL.
  Proof. rewrite Rabs_R0. pose proof ATOL_pos. lra. Qed.
  Lemma Rabs_0_lt_ATOL : Rabs 0 < ATOL.
  Proof. rewrite Rabs_R0. apply ATOL_pos. Qed.

  (* 4a. every exact representation is accepted (first axis a unit vector) *)
  Theorem bsr_eq_exact q1 ax1 a1 p1 q2 ax2 a2 p2 :
    bsr_rep q1 ax1 a1 p1 q2 ax2 a2 p2 -> unit_axis ax1 ->
    bsr_eq RNum q1 ax1 a1 p1 q2 ax2 a2 p2 = true.
  Proof.
    intros H Hu. pose proof PI_bounds as HPI. pose proof ATOL_pos as HA0.
    assert (HA1 : ATOL < 1) by (unfold ATOL; lra).
    destruct H as [q ax a p|q1 ax1 q2 ax2 p|q ax a p|q ax p|q ax p].
    - apply bsr_eq_refl.
    - apply bsr_eq_identity_any_axis_gen; try apply Rabs_0_lt_ATOL.
      replace (p - p) with 0 by ring. apply Rabs_0_le_ATOL.
    - apply bsr_eq_iff.
      assert (Hp : Rabs (p - p) <= ATOL) by (replace (p - p) with 0 by ring; apply Rabs_0_le_ATOL).
      destruct (Rlt_dec (Rabs a) ATOL) as [Hs|Hs].
      + left. split; [exact Hs|]. split; [now rewrite Rabs_Ropp|exact Hp].
      + right. split; [tauto|]. split; [reflexivity|]. right.
        split; [now apply unit_axis_not_close_neg|].
        split; [rewrite neg_axis_involutive; apply Close_axis_refl|].
        left. split; [exact Hp|]. replace (a + - a) with 0 by ring. apply Rabs_0_lt_ATOL.
    - apply bsr_eq_iff. right.
      assert (RPI : Rabs PI = PI) by (apply Rabs_pos_eq; lra).
      split; [rewrite RPI; lra|]. split; [reflexivity|]. right.
      split; [now apply unit_axis_not_close_neg|].
      split; [rewrite neg_axis_involutive; apply Close_axis_refl|].
      right. replace (p + PI - p) with PI by ring. rewrite RPI.
      replace (PI - PI) with 0 by ring. split; [apply Rabs_0_le_ATOL|]. split; apply Rabs_0_lt_ATOL.
    - apply bsr_eq_iff. right.
      assert (RPI : Rabs PI = PI) by (apply Rabs_pos_eq; lra).
      split; [rewrite RPI; lra|]. split; [reflexivity|]. right.
      split; [now apply unit_axis_not_close_neg|].
      split; [rewrite neg_axis_involutive; apply Close_axis_refl|].
      right. replace (p - (p + PI)) with (- PI) by ring. rewrite Rabs_Ropp, RPI.
      replace (PI - PI) with 0 by ring. split; [apply Rabs_0_le_ATOL|]. split; apply Rabs_0_lt_ATOL.
  Qed.

  Theorem bsr_eq_exact_refl q ax a p : bsr_eq RNum q ax a p q ax a p = true.
  Proof. apply bsr_eq_refl. Qed.

  (* 4b. ... in both orders *)
  Theorem bsr_eq_exact_sym q1 ax1 a1 p1 q2 ax2 a2 p2 :
    bsr_rep q1 ax1 a1 p1 q2 ax2 a2 p2 -> unit_axis ax1 -> unit_axis ax2 ->
    bsr_eq RNum q1 ax1 a1 p1 q2 ax2 a2 p2 = true /\
    bsr_eq RNum q2 ax2 a2 p2 q1 ax1 a1 p1 = true.
  Proof.
    intros H Hu1 Hu2. split; [now apply bsr_eq_exact|].
    apply bsr_eq_exact; [now apply bsr_rep_sym|exact Hu2].
  Qed.

  Corollary gate_eq_bsr_exact_sym q1 ax1 a1 p1 q2 ax2 a2 p2 :
    bsr_rep q1 ax1 a1 p1 q2 ax2 a2 p2 -> unit_axis ax1 -> unit_axis ax2 ->
    gate_eq RNum (BSR q1 ax1 a1 p1) (BSR q2 ax2 a2 p2) = Ok true /\
    gate_eq RNum (BSR q2 ax2 a2 p2) (BSR q1 ax1 a1 p1) = Ok true.
  Proof.
    intros H Hu1 Hu2. rewrite !gate_eq_bsr_bsr.
    destruct (bsr_eq_exact_sym _ _ _ _ _ _ _ _ H Hu1 Hu2) as [-> ->]. auto.
  Qed.

  (* ... and the representations denote one operator: the 2x2 matrices are EQUAL *)
  Lemma cis_plus_PI p : cis RNum (p + PI) = cmul RNum (-1, 0) (cis RNum p).
  Proof. unfold cis, cmul. rnum_cbn. rewrite neg_cos, neg_sin. apply pair_eq; ring. Qed.

  Theorem bsr_rep_same_operator q1 ax1 a1 p1 q2 ax2 a2 p2 :
    bsr_rep q1 ax1 a1 p1 q2 ax2 a2 p2 -> can1 RNum ax1 a1 p1 = can1 RNum ax2 a2 p2.
  Proof.
    intros H. destruct H as [q ax a p|q1 ax1 q2 ax2 p|q ax a p|q ax p|q ax p].
    - reflexivity.
    - apply can1_zero_angle_axis_irrelevant.
    - apply can1_neg_axis_neg_angle.
    - apply can1_half_turn_negated.
    - rewrite <- (neg_axis_involutive ax) at 1. symmetry. apply can1_half_turn_negated.
  Qed.

  (* 4c. with the tolerance, == on rotations is NOT transitive: angles 0, 0.8e-7, 1.6e-7
     about one axis, same qubit, same phase: first == second (both below ATOL = 1e-7),
     second == third (difference 0.8e-7 < ATOL), first != third (difference 1.6e-7) *)
  Theorem bsr_eq_not_transitive_refuted :
    exists q ax a1 a2 a3 p,
      unit_axis ax /\
      bsr_eq RNum q ax a1 p q ax a2 p = true /\
      bsr_eq RNum q ax a2 p q ax a3 p = true /\
      bsr_eq RNum q ax a1 p q ax a3 p = false.
  Proof.
    exists 0%Z, (1, 0, 0), 0, (8 / 100000000), (16 / 100000000), 0.
    assert (Hp : Rabs (0 - 0) <= ATOL) by (unfold ATOL; rabs).
    split; [unfold unit_axis, ax_x, ax_y, ax_z; cbn [fst snd]; ring|]. split; [|split].
    - apply bsr_eq_iff. left. unfold ATOL in *. repeat split; rabs.
    - apply bsr_eq_iff. right. split; [intros [_ H]; unfold ATOL in H; rabs|].
      split; [reflexivity|]. left. split; [apply Close_axis_refl|]. unfold ATOL in *. split; rabs.
    - apply not_true_is_false. intros H. apply bsr_eq_iff in H.
      destruct H as [[_ [H _]]|[_ [_ [[_ [_ H]]|[H _]]]]].
      + unfold ATOL in H. rabs.
      + unfold ATOL in H. rabs.
      + apply H, Close_axis_refl.
  Qed.

  (* the same on gates *)
  Corollary gate_eq_not_transitive_refuted :
    exists g1 g2 g3 : gate R,
      gate_eq RNum g1 g2 = Ok true /\ gate_eq RNum g2 g3 = Ok true /\ gate_eq RNum g1 g3 = Ok false.
  Proof.
    destruct bsr_eq_not_transitive_refuted as [q [ax [a1 [a2 [a3 [p [_ [H12 [H23 H13]]]]]]]]].
    exists (BSR q ax a1 p), (BSR q ax a2 p), (BSR q ax a3 p).
    rewrite !gate_eq_bsr_bsr, H12, H23, H13. auto.
  Qed.

  (* 4d. with the tolerance, == on rotations is NOT symmetric either: np.allclose on the
     axes is relative to its SECOND argument.  Two unit axes, (1, 0, 0) and
     (sqrt(1 - s^2), s, 0) with s = 1.00001e-8: |0 - s| <= 1e-8 + 1e-5 s, but
     |s - 0| > 1e-8 + 1e-5 * 0 *)
  Theorem bsr_eq_sym_refuted :
    exists q ax1 ax2 a p,
      unit_axis ax1 /\ unit_axis ax2 /\
      bsr_eq RNum q ax1 a p q ax2 a p = true /\
      bsr_eq RNum q ax2 a p q ax1 a p = false.
  Proof.
    set (s := 100001 / 10000000000000).
    set (c := sqrt (1 - s * s)).
    assert (Hs : s = 100001 / 10000000000000) by reflexivity.
    assert (Hcc : c * c = 1 - s * s) by (apply sqrt_sqrt; rewrite Hs; lra).
    assert (Hc0 : 0 <= c) by apply sqrt_pos.
    assert (Hc1 : c <= 1) by nra.
    assert (Hc2 : 1 - s * s <= c) by nra.
    assert (Hss : s * s <= 1 / 1000000000000) by (rewrite Hs; lra).
    clearbody c s.
    exists 0%Z, (1, 0, 0), (c, s, 0), 1, 0.
    split; [unfold unit_axis, ax_x, ax_y, ax_z; cbn [fst snd]; ring|].
    split; [unfold unit_axis, ax_x, ax_y, ax_z; cbn [fst snd]; lra|].
    assert (Hp : Rabs (0 - 0) <= ATOL) by (unfold ATOL; rabs).
    assert (Hbig : ~ (Rabs 1 < ATOL /\ Rabs 1 < ATOL)) by (intros [H _]; unfold ATOL in H; rabs).
    split.
    - apply bsr_eq_iff. right. split; [exact Hbig|]. split; [reflexivity|]. left.
      split; [|split; [exact Hp|unfold ATOL; rabs]].
      unfold Close_axis, Close_r, ax_x, ax_y, ax_z. cbn [fst snd]. subst s. repeat split; rabs.
    - apply not_true_is_false. intros H. apply bsr_eq_iff in H.
      destruct H as [[H _]|[_ [_ [[H _]|[_ [H _]]]]]].
      + unfold ATOL in H. rabs.
      + destruct H as [_ [H _]]. unfold Close_r, ax_y in H. cbn [fst snd] in H. subst s. rabs.
      + destruct H as [H _]. unfold Close_r, neg_axis, ax_x in H. cbn [fst snd] in H.
        revert H. rnum_cbn. intros H. rabs.
  Qed.
End BsrExact.

(* ================================================================== *)
(* 6. Part 6: non-vacuity                                              *)

Section ExamplesEq.
  Local Open Scope R_scope.

  (* CNOT(control 1, target 0) as a controlled X, and as a matrix gate on operands [0; 1] *)
  Definition CNOTm : matR :=
    [[(1, 0); (0, 0); (0, 0); (0, 0)];
     [(0, 0); (0, 0); (0, 0); (1, 0)];
     [(0, 0); (0, 0); (1, 0); (0, 0)];
     [(0, 0); (1, 0); (0, 0); (0, 0)]].
  Definition cnot_ctrl : gate R := Ctrl 1 (BSR 0 (1, 0, 0) PI (PI / 2)).
  Definition cnot_mat : gate R := Mat CNOTm [0; 1]%Z.

  Lemma shape_CNOTm : wf_mat 4 CNOTm.
  Proof. split; [reflexivity|]. repeat constructor. Qed.

  Lemma shape_cnot4 : wf_mat 4 cnot4.
  Proof. split; [reflexivity|]. repeat constructor. Qed.

  Lemma unitary_CNOTm : unitary 4 CNOTm.
  Proof.
    split; [apply shape_CNOTm|].
    unfold mmul, dagger, transpose, CNOTm, vdot, eye, unit_row, cconj.
    cbn [length hd tl map transpose_aux fold_left combine seq Nat.eqb fst snd].
    unfold cadd, cmul, czero, c0, c1, n0, n1. rnum_cbn. mat_eq.
  Qed.

  Lemma union_cnot : union_order cnot_ctrl cnot_mat = [0; 1]%Z.
  Proof. reflexivity. Qed.
  Lemma union_cnot' : union_order cnot_mat cnot_ctrl = [1; 0]%Z.
  Proof. reflexivity. Qed.

  Lemma reindexed_cnot_ctrl : reindexed_matrix RNum [0; 1]%Z [cnot_ctrl] = Ok cnot4.
  Proof.
    assert (E : reindex_gate RNum [0; 1]%Z cnot_ctrl = Ok cnot_ctrl).
    { unfold cnot_ctrl. cbn [reindex_gate].
      change (zindex 1 [0; 1]%Z) with (Some 1%Z). change (zindex 0 [0; 1]%Z) with (Some 0%Z).
      cbv beta iota. unfold mk_bsr_ax. rewrite normalize_PI, normalize_PI2. reflexivity. }
    unfold reindexed_matrix. cbn [reindex_gates]. rewrite E.
    cbn [length Z.of_nat Pos.of_succ_nat Pos.succ].
    unfold gates_matrix, circuit_matrix. cbn [map circuit_matrix_from]. unfold cnot_ctrl.
    rewrite get_matrix_cnot. change (zpow2 2) with 4%nat. apply f_equal.
    apply (mmul_eye_r 4 4); [lia|apply shape_cnot4].
  Qed.

  Lemma reindexed_cnot_mat : reindexed_matrix RNum [0; 1]%Z [cnot_mat] = Ok cnot4.
  Proof.
    unfold reindexed_matrix.
    change (reindex_gates RNum [0; 1]%Z [cnot_mat]) with (@Ok (list (gate R)) [cnot_mat]).
    cbv iota. cbn [length Z.of_nat Pos.of_succ_nat Pos.succ].
    unfold gates_matrix, circuit_matrix. cbn [map circuit_matrix_from].
    unfold cnot_mat, CNOTm. rewrite get_matrix_mat2_01.
    change (zpow2 2) with 4%nat. apply f_equal. apply (mmul_eye_r 4 4); [lia|apply shape_cnot4].
  Qed.

  Lemma cnot_valid : gate_valid cnot_ctrl /\ gate_valid cnot_mat.
  Proof.
    split; cbn [gate_valid cnot_ctrl cnot_mat gate_qubits length].
    - split; [|exact I]. repeat constructor; cbn [In]; intros H; intuition discriminate.
    - split; [lia|]. split; [|apply shape_CNOTm].
      repeat constructor; cbn [In]; intros H; intuition discriminate.
  Qed.

  Lemma cnot_unitary_ok : gate_unitary_ok cnot_ctrl /\ gate_unitary_ok cnot_mat.
  Proof.
    split; cbn [gate_unitary_ok cnot_ctrl cnot_mat gate_qubits length].
    - split; [cbn [In]; intros H; intuition discriminate|].
      unfold unit_axis, ax_x, ax_y, ax_z. cbn [fst snd]. ring.
    - split; [|apply unitary_CNOTm].
      repeat constructor; cbn [In]; intros H; intuition discriminate.
  Qed.

  (* the two forms are exactly the same operator on the union [0; 1] *)
  Example cnot_pequiv : gate_pequiv cnot_ctrl cnot_mat.
  Proof.
    unfold gate_pequiv. rewrite union_cnot. exists cnot4, cnot4.
    split; [apply reindexed_cnot_ctrl|]. split; [apply reindexed_cnot_mat|apply mequiv_refl].
  Qed.

  (* ... hence equal in both orders; the second order (union [1; 0], other matrices) is
     obtained from the symmetry theorem, not recomputed *)
  Example gate_eq_cnot_ctrl_vs_matrix :
    gate_eq RNum cnot_ctrl cnot_mat = Ok true /\ gate_eq RNum cnot_mat cnot_ctrl = Ok true.
  Proof.
    destruct cnot_valid as [Hv1 Hv2]. destruct cnot_unitary_ok as [Hu1 Hu2].
    apply gate_eq_exact_both; try assumption; [reflexivity| |apply cnot_pequiv].
    apply fits_46. rewrite union_cnot. cbn [length]. lia.
  Qed.

  (* transitivity instance: ctrl form == matrix form == ctrl form gives ctrl == ctrl *)
  Example compare_gates_cnot_trans : compare_gates RNum cnot_ctrl cnot_ctrl = Ok true.
  Proof.
    destruct cnot_valid as [Hv1 Hv2]. destruct cnot_unitary_ok as [Hu1 Hu2].
    destruct gate_eq_cnot_ctrl_vs_matrix as [H12 H21].
    apply (compare_gates_exact_trans cnot_ctrl cnot_mat cnot_ctrl); try assumption.
    - apply fits_46. change (union_order cnot_ctrl cnot_ctrl) with [1; 0]%Z. cbn [length]. lia.
    - apply cnot_pequiv.
    - apply prop_on_union_sym; [exact Hv1|exact Hv2|apply cnot_pequiv].
  Qed.

  (* the three-rotation witness, as gates *)
  Example three_rotations_not_transitive :
    let g a := BSR 0 (1, 0, 0) a 0 in
    gate_eq RNum (g 0) (g (8 / 100000000)) = Ok true /\
    gate_eq RNum (g (8 / 100000000)) (g (16 / 100000000)) = Ok true /\
    gate_eq RNum (g 0) (g (16 / 100000000)) = Ok false.
  Proof.
    cbv beta zeta. rewrite !gate_eq_bsr_bsr.
    assert (Hp : Rabs (0 - 0) <= ATOL) by (unfold ATOL, Rabs; destruct Rcase_abs; lra).
    split; [|split]; f_equal.
    - apply bsr_eq_iff. left. unfold ATOL in *.
      repeat split; unfold Rabs in *; repeat destruct Rcase_abs; lra.
    - apply bsr_eq_iff. right.
      split; [intros [_ H]; unfold ATOL, Rabs in H; destruct Rcase_abs; lra|].
      split; [reflexivity|]. left. split; [apply Close_axis_refl|]. unfold ATOL in *.
      split; unfold Rabs in *; repeat destruct Rcase_abs; lra.
    - apply not_true_is_false. intros H. apply bsr_eq_iff in H.
      destruct H as [[_ [H _]]|[_ [_ [[_ [_ H]]|[H _]]]]].
      + unfold ATOL, Rabs in H. destruct Rcase_abs; lra.
      + unfold ATOL, Rabs in H. destruct Rcase_abs; lra.
      + apply H, Close_axis_refl.
  Qed.
End ExamplesEq.

(* ================================================================== *)
(* Part 5 (circuit equality): Model/ has no equality on statements, statement lists or
   circuits (Python's IR.__eq__ / Circuit.__eq__ are not modelled; the only modelled
   equalities are [gate_eq], [compare_gates] and [bsr_eq]), so there is nothing to state. *)

(* ================================================================== *)
Print Assumptions compare_gates_exact.
Print Assumptions compare_gates_sound.
Print Assumptions compare_gates_true_iff.
Print Assumptions compare_gates_exact_iff.
Print Assumptions compare_gates_exact_operators.
Print Assumptions scale_order_change.
Print Assumptions prop_on_order_change.
Print Assumptions prop_on_to_register.
Print Assumptions register_to_prop_on.
Print Assumptions compare_gates_exact_sym.
Print Assumptions compare_gates_exact_both.
Print Assumptions prop_on_union_trans.
Print Assumptions compare_gates_exact_trans.
Print Assumptions gate_pequiv_equivalence.
Print Assumptions gate_pequiv_relabel.
Print Assumptions gate_eq_exact_both.
Print Assumptions bsr_eq_exact.
Print Assumptions bsr_eq_exact_sym.
Print Assumptions bsr_rep_same_operator.
Print Assumptions bsr_eq_not_transitive_refuted.
Print Assumptions bsr_eq_sym_refuted.
Print Assumptions gate_eq_cnot_ctrl_vs_matrix.
Print Assumptions compare_gates_cnot_trans.
Print Assumptions three_rotations_not_transitive.
