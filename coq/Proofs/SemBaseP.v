(* SemBaseP.v — the algebra under the Kraus-operator semantics of Theory/Kraus.v.

   1. scaling a matrix by a complex number [mscale] commutes with the product (no shape conditions)
   2. unit complex numbers [unit_c]
   3. equality up to a global phase [mequiv] is an equivalence and a congruence for the product
   4. shapes of the operators of statements [stmt_op_wf], [kraus_from_wf]
   5. counting the non-unitary statements [nonunitary], [effects]
   6. threading [kraus_from] through appends, accumulators and outcome numbering; on gate-only lists the
      semantics is the implementation's circuit matrix [kraus_gates_only]
   7. [same_operation] is reflexive and transitive
   8. the congruences [same_operation_congr] and [same_operation_replace]: replacing one gate, anywhere in a
      circuit with measurements and resets, by gates whose product is its matrix up to a global phase gives a
      circuit doing the same operation.

   Everything is at the instance RNum (Coq's reals). *)
From Coq Require Import Reals ZArith List Bool Lia Lra Arith.
Import ListNotations.
From OSQ Require Import Num IR Bits Construct Matrix Check RTrig RNum SU2 MatrixP Kraus.
Close Scope R_scope.
Open Scope nat_scope.

Local Notation c0R := (czero RNum).

(* ================================================================== *)
(* 1. mscale                                                           *)

Lemma nth_map_cmul z (row : list CR) c :
  nth c (map (cmul RNum z) row) c0R = cmul RNum z (nth c row c0R).
Proof.
  revert c. induction row as [|a row IH]; intros [|c]; cbn [map nth];
    try (symmetry; apply cmulR_0_r); auto.
Qed.

Lemma mget_mscale z (A : matR) r c : mget RNum (mscale z A) r c = cmul RNum z (mget RNum A r c).
Proof.
  unfold mget, mscale. revert r.
  induction A as [|row A IH]; intros [|r]; cbn [map nth];
    first [apply IH | apply nth_map_cmul | apply (nth_map_cmul z [] c)].
Qed.

Lemma mscale_shape z nr nc (A : matR) : shape nr nc A -> shape nr nc (mscale z A).
Proof.
  intros [Hl Hf]. unfold mscale. split; [now rewrite map_length|].
  apply Forall_forall. intros row Hin. apply in_map_iff in Hin. destruct Hin as [r0 [<- Hin]].
  rewrite map_length. rewrite Forall_forall in Hf. now apply Hf.
Qed.

Lemma mscale_wf z d (A : matR) : wf_mat d A -> wf_mat d (mscale z A).
Proof. apply mscale_shape. Qed.

Lemma mscale_mscale z w (A : matR) : mscale z (mscale w A) = mscale (cmul RNum z w) A.
Proof.
  unfold mscale. rewrite map_map. apply map_ext. intros row. rewrite map_map. apply map_ext.
  intros c. apply cmulR_assoc.
Qed.

Lemma mscale_one (A : matR) : mscale (1, 0)%R A = A.
Proof.
  unfold mscale. rewrite <- (map_id A) at 2. apply map_ext. intros row.
  rewrite <- (map_id row) at 2. apply map_ext. intros c. apply (cmulR_1_l c).
Qed.

Lemma vdot_fold_scale_l z : forall (r c : list CR) (acc : CR),
  fold_left (fun a (xy : CR * CR) => cadd RNum a (cmul RNum (fst xy) (snd xy)))
            (combine (map (cmul RNum z) r) c) (cmul RNum z acc) =
  cmul RNum z (fold_left (fun a (xy : CR * CR) => cadd RNum a (cmul RNum (fst xy) (snd xy)))
                         (combine r c) acc).
Proof.
  induction r as [|a r IH]; intros [|b c] acc; cbn [map combine fold_left fst snd]; try reflexivity.
  rewrite <- IH. f_equal. rewrite cmulR_add_l, cmulR_assoc. reflexivity.
Qed.

Lemma vdot_fold_scale_r z : forall (r c : list CR) (acc : CR),
  fold_left (fun a (xy : CR * CR) => cadd RNum a (cmul RNum (fst xy) (snd xy)))
            (combine r (map (cmul RNum z) c)) (cmul RNum z acc) =
  cmul RNum z (fold_left (fun a (xy : CR * CR) => cadd RNum a (cmul RNum (fst xy) (snd xy)))
                         (combine r c) acc).
Proof.
  induction r as [|a r IH]; intros [|b c] acc; cbn [map combine fold_left fst snd]; try reflexivity.
  rewrite <- IH. f_equal. rewrite cmulR_add_l. f_equal.
  rewrite !cmulR_assoc, (cmulR_comm a z). reflexivity.
Qed.

Lemma vdot_scale_l z (r c : list CR) : vdot RNum (map (cmul RNum z) r) c = cmul RNum z (vdot RNum r c).
Proof.
  unfold vdot. rewrite <- vdot_fold_scale_l. f_equal. symmetry. apply cmulR_0_r.
Qed.

Lemma vdot_scale_r z (r c : list CR) : vdot RNum r (map (cmul RNum z) c) = cmul RNum z (vdot RNum r c).
Proof.
  unfold vdot. rewrite <- vdot_fold_scale_r. f_equal. symmetry. apply cmulR_0_r.
Qed.

(* no shape conditions are needed: scaling commutes with the list-based product as it stands *)
Lemma mmul_mscale_l z (A B : matR) : mmul RNum (mscale z A) B = mscale z (mmul RNum A B).
Proof.
  cbv beta zeta delta [mmul mscale]. rewrite !map_map. apply map_ext. intros ra.
  rewrite map_map. apply map_ext. intros cb. apply vdot_scale_l.
Qed.

Lemma transpose_aux_mscale z : forall k (m : matR),
  transpose_aux RNum k (mscale z m) = mscale z (transpose_aux RNum k m).
Proof.
  induction k as [|k IH]; intros m; cbn [transpose_aux]; [reflexivity|].
  unfold mscale at 3. cbn [map]. apply f_equal2.
  - unfold mscale. rewrite !map_map. apply map_ext. intros [|a row]; cbn [map hd]; [|reflexivity].
    symmetry. apply cmulR_0_r.
  - replace (map (@tl CR) (mscale z m)) with (mscale z (map (@tl CR) m)).
    + apply IH.
    + unfold mscale. rewrite !map_map. apply map_ext. intros [|a row]; reflexivity.
Qed.

Lemma transpose_mscale z (B : matR) : transpose RNum (mscale z B) = mscale z (transpose RNum B).
Proof.
  unfold transpose. rewrite transpose_aux_mscale. f_equal. f_equal.
  destruct B as [|row B]; cbn [mscale map hd]; [reflexivity|]. unfold mscale. cbn [map hd]. apply map_length.
Qed.

Lemma mmul_mscale_r z (A B : matR) : mmul RNum A (mscale z B) = mscale z (mmul RNum A B).
Proof.
  cbv beta zeta delta [mmul]. rewrite transpose_mscale. unfold mscale. rewrite map_map.
  apply map_ext. intros ra. rewrite !map_map. apply map_ext. intros cb. apply vdot_scale_r.
Qed.

(* ================================================================== *)
(* 2. unit complex numbers                                             *)

Lemma unit_c_one : unit_c (1, 0)%R.
Proof. unfold unit_c. cbn [fst snd]. ring. Qed.

Lemma unit_c_mul z w : unit_c z -> unit_c w -> unit_c (cmul RNum z w).
Proof.
  destruct z as [a b], w as [c d]. unfold unit_c, cmul. rnum_cbn. intros Hz Hw.
  transitivity ((a * a + b * b) * (c * c + d * d))%R; [ring|]. rewrite Hz, Hw. ring.
Qed.

Lemma unit_c_conj z : unit_c z -> unit_c (cconj RNum z).
Proof.
  destruct z as [a b]. unfold unit_c, cconj. rnum_cbn. intros Hz. rewrite <- Hz. ring.
Qed.

Lemma unit_c_conj_inv z : unit_c z -> cmul RNum (cconj RNum z) z = (1, 0)%R.
Proof.
  destruct z as [a b]. unfold unit_c, cconj, cmul. rnum_cbn. intros Hz.
  apply pair_eq; [rewrite <- Hz; ring|ring].
Qed.

Lemma unit_c_conj_inv_r z : unit_c z -> cmul RNum z (cconj RNum z) = (1, 0)%R.
Proof. intros Hz. rewrite cmulR_comm. now apply unit_c_conj_inv. Qed.

Lemma unit_c_cis p : unit_c (cis RNum p).
Proof.
  unfold unit_c, cis. rnum_cbn. pose proof (sin2_cos2 p) as H. unfold Rsqr in H. lra.
Qed.

Lemma unit_c_m1 : unit_c (-1, 0)%R.
Proof. unfold unit_c. cbn [fst snd]. ring. Qed.

(* ================================================================== *)
(* 3. equality up to a global phase                                    *)

Lemma mequiv_refl A : mequiv A A.
Proof. exists (1, 0)%R. split; [apply unit_c_one|symmetry; apply mscale_one]. Qed.

Lemma mequiv_eq A B : A = B -> mequiv A B.
Proof. intros ->. apply mequiv_refl. Qed.

Lemma mequiv_sym A B : mequiv A B -> mequiv B A.
Proof.
  intros [z [Hz ->]]. exists (cconj RNum z). split; [now apply unit_c_conj|].
  rewrite mscale_mscale, unit_c_conj_inv by exact Hz. symmetry. apply mscale_one.
Qed.

Lemma mequiv_trans A B C : mequiv A B -> mequiv B C -> mequiv A C.
Proof.
  intros [z [Hz ->]] [w [Hw ->]]. exists (cmul RNum z w). split; [now apply unit_c_mul|].
  apply mscale_mscale.
Qed.

Lemma mequiv_mscale z A : unit_c z -> mequiv (mscale z A) A.
Proof. intros Hz. exists z. split; [exact Hz|reflexivity]. Qed.

Lemma mequiv_mmul_l M A B : mequiv A B -> mequiv (mmul RNum M A) (mmul RNum M B).
Proof. intros [z [Hz ->]]. exists z. split; [exact Hz|apply mmul_mscale_r]. Qed.

Lemma mequiv_mmul_r M A B : mequiv A B -> mequiv (mmul RNum A M) (mmul RNum B M).
Proof. intros [z [Hz ->]]. exists z. split; [exact Hz|apply mmul_mscale_l]. Qed.

Lemma mequiv_mmul A A' B B' : mequiv A A' -> mequiv B B' -> mequiv (mmul RNum A B) (mmul RNum A' B').
Proof.
  intros HA HB. apply (mequiv_trans _ (mmul RNum A' B)); [now apply mequiv_mmul_r|now apply mequiv_mmul_l].
Qed.

Lemma mequiv_wf d A B : mequiv A B -> wf_mat d B -> wf_mat d A.
Proof. intros [z [_ ->]]. apply mscale_wf. Qed.

(* ================================================================== *)
(* 4. shapes                                                           *)

Lemma zpow2_pos n : 0 < zpow2 n.
Proof. apply MatrixP.zpow2_pos. Qed.

Lemma proj_axis_wf ax b : wf_mat 2 (proj_axis ax b).
Proof. split; [reflexivity|]. repeat constructor. Qed.

Lemma reset_op_wf b : wf_mat 2 (reset_op b).
Proof. destruct b; (split; [reflexivity|]); repeat constructor. Qed.

Lemma embed1_ok n q U M : embed1 n q U = Ok M ->
  (0 <= q < n)%Z /\ M = kron RNum (kron RNum (eye RNum (zpow2 (n - q - 1))) U) (eye RNum (zpow2 q)).
Proof.
  unfold embed1. intros H.
  destruct (Z.geb q n) eqn:E1; [discriminate|].
  destruct (Z.ltb q 0) eqn:E2; [discriminate|].
  injection H as <-. rewrite Z.geb_leb in E1. apply Z.leb_gt in E1. apply Z.ltb_ge in E2.
  split; [lia|reflexivity].
Qed.

Lemma embed1_in_range n q U : (0 <= q < n)%Z ->
  embed1 n q U = Ok (kron RNum (kron RNum (eye RNum (zpow2 (n - q - 1))) U) (eye RNum (zpow2 q))).
Proof.
  intros Hq. unfold embed1.
  assert (E1 : Z.geb q n = false) by (rewrite Z.geb_leb; apply Z.leb_gt; lia).
  assert (E2 : Z.ltb q 0 = false) by (apply Z.ltb_ge; lia).
  rewrite E1, E2. reflexivity.
Qed.

Lemma embed1_wf n q U M : embed1 n q U = Ok M -> wf_mat 2 U -> wf_mat (zpow2 n) M.
Proof.
  intros H HU. apply embed1_ok in H. destruct H as [Hq ->].
  unfold wf_mat. rewrite <- (zpow2_split n q) by lia.
  apply shape_kron; [apply shape_kron|]; first [apply shape_eye|exact HU].
Qed.

(* whether the operator exists does not depend on the 2x2 matrix *)
Lemma embed1_err n q U U' e : embed1 n q U = Err e -> embed1 n q U' = Err e.
Proof.
  unfold embed1. destruct (Z.geb q n); [auto|]. destruct (Z.ltb q 0); [auto|discriminate].
Qed.

(* the BSR case of get_matrix is embed1 of can1 *)
Lemma get_matrix_bsr_embed1 n q ax a p :
  get_matrix RNum n (BSR q ax a p) = embed1 n q (can1 RNum ax a p).
Proof. reflexivity. Qed.

Lemma stmt_op_wf n o k s M : fst (stmt_op n o k s) = Ok (Some M) -> wf_mat (zpow2 n) M.
Proof.
  destruct s as [oid g gi|oid q b ax gi|oid q gi|t]; cbn [stmt_op fst]; intros H.
  - destruct (get_matrix RNum n g) as [G|e] eqn:EG; [|discriminate]. injection H as <-.
    exact (get_matrix_wf RNum n g G EG).
  - destruct (embed1 n q (proj_axis ax (o k))) as [P|e] eqn:EP; [|discriminate]. injection H as <-.
    exact (embed1_wf _ _ _ _ EP (proj_axis_wf _ _)).
  - destruct (embed1 n q (reset_op (o k))) as [P|e] eqn:EP; [|discriminate]. injection H as <-.
    exact (embed1_wf _ _ _ _ EP (reset_op_wf _)).
  - discriminate.
Qed.

(* ================================================================== *)
(* 5. counting                                                         *)

Fixpoint nonunitary (ir : list (stmt R)) : nat :=
  match ir with
  | [] => 0
  | SMeasure _ _ _ _ _ :: rest => S (nonunitary rest)
  | SReset _ _ _ :: rest => S (nonunitary rest)
  | _ :: rest => nonunitary rest
  end.

Lemma nonunitary_app a b : nonunitary (a ++ b) = nonunitary a + nonunitary b.
Proof.
  induction a as [|s a IH]; [reflexivity|].
  destruct s; cbn [app nonunitary]; rewrite IH; reflexivity.
Qed.

Lemma effects_app a b : effects (a ++ b) = effects a ++ effects b.
Proof.
  induction a as [|s a IH]; [reflexivity|].
  destruct s; cbn [app effects]; rewrite IH; reflexivity.
Qed.

Lemma length_effects ir : length (effects ir) = nonunitary ir.
Proof.
  induction ir as [|s ir IH]; [reflexivity|].
  destruct s; cbn [effects nonunitary length]; rewrite IH; reflexivity.
Qed.

Lemma effects_nonunitary a b : effects a = effects b -> nonunitary a = nonunitary b.
Proof. intros H. rewrite <- !length_effects, H. reflexivity. Qed.

Lemma stmt_op_snd n o k s : snd (stmt_op n o k s) = k + nonunitary [s].
Proof. destruct s; cbn [stmt_op snd nonunitary]; lia. Qed.

(* the statement list consists of gate statements only *)
Definition all_gates (ir : list (stmt R)) : Prop :=
  forall s, In s ir -> exists o g gi, s = SGate o g gi.

Lemma all_gates_gates_only ir : all_gates ir -> gates_only ir.
Proof. intros H s Hs. destruct (H s Hs) as [o [g [gi ->]]]. exact I. Qed.

Lemma gates_only_nonunitary ir : gates_only ir -> nonunitary ir = 0.
Proof.
  induction ir as [|s ir IH]; intros H; [reflexivity|].
  assert (Hs := H s (or_introl eq_refl)).
  assert (Hr : gates_only ir) by (intros s' Hs'; apply H; now right).
  destruct s; cbn [nonunitary]; try contradiction; now apply IH.
Qed.

Lemma gates_only_effects ir : gates_only ir -> effects ir = [].
Proof.
  induction ir as [|s ir IH]; intros H; [reflexivity|].
  assert (Hs := H s (or_introl eq_refl)).
  assert (Hr : gates_only ir) by (intros s' Hs'; apply H; now right).
  destruct s; cbn [effects]; try contradiction; now apply IH.
Qed.

Lemma gates_only_app a b : gates_only a -> gates_only b -> gates_only (a ++ b).
Proof. intros Ha Hb s Hs. apply in_app_or in Hs. destruct Hs; [now apply Ha|now apply Hb]. Qed.

(* ================================================================== *)
(* 6. threading kraus_from                                             *)

Lemma kraus_from_cons n o k acc s rest :
  kraus_from n o k acc (s :: rest) =
  match fst (stmt_op n o k s) with
  | Err e => Err e
  | Ok None => kraus_from n o (k + nonunitary [s]) acc rest
  | Ok (Some M) => kraus_from n o (k + nonunitary [s]) (mmul RNum M acc) rest
  end.
Proof.
  cbn [kraus_from]. rewrite <- (stmt_op_snd n o k s).
  destruct (stmt_op n o k s) as [[[M|]|e] k']; reflexivity.
Qed.

Lemma kraus_from_app n o ir1 : forall k acc ir2,
  kraus_from n o k acc (ir1 ++ ir2) =
  match kraus_from n o k acc ir1 with
  | Err e => Err e
  | Ok A => kraus_from n o (k + nonunitary ir1) A ir2
  end.
Proof.
  induction ir1 as [|s ir1 IH]; intros k acc ir2.
  - cbn [app kraus_from nonunitary]. rewrite Nat.add_0_r. reflexivity.
  - rewrite <- app_comm_cons, !kraus_from_cons.
    replace (k + nonunitary (s :: ir1)) with (k + nonunitary [s] + nonunitary ir1)
      by (change (s :: ir1) with ([s] ++ ir1); rewrite nonunitary_app; lia).
    destruct (fst (stmt_op n o k s)) as [[M|]|e]; [apply IH|apply IH|reflexivity].
Qed.

Lemma kraus_from_wf n o ir : forall k acc A,
  wf_mat (zpow2 n) acc -> kraus_from n o k acc ir = Ok A -> wf_mat (zpow2 n) A.
Proof.
  induction ir as [|s ir IH]; intros k acc A Hacc H.
  - injection H as <-. exact Hacc.
  - rewrite kraus_from_cons in H.
    destruct (fst (stmt_op n o k s)) as [[M|]|e] eqn:E; [| |discriminate].
    + apply (IH _ _ _ (wf_mmul RNum _ _ _ (stmt_op_wf _ _ _ _ _ E) Hacc) H).
    + apply (IH _ _ _ Hacc H).
Qed.

Lemma kraus_wf n o ir A : kraus n o ir = Ok A -> wf_mat (zpow2 n) A.
Proof. apply kraus_from_wf. apply shape_eye. Qed.

Lemma kraus_from_acc n o ir : forall k acc,
  wf_mat (zpow2 n) acc ->
  kraus_from n o k acc ir =
  match kraus_from n o k (eye RNum (zpow2 n)) ir with
  | Err e => Err e
  | Ok K => Ok (mmul RNum K acc)
  end.
Proof.
  pose proof (zpow2_pos n) as Hd.
  induction ir as [|s ir IH]; intros k acc Hacc.
  - cbn [kraus_from]. now rewrite (mmul_eye_l (zpow2 n) (zpow2 n) acc Hd Hacc).
  - rewrite !kraus_from_cons.
    destruct (fst (stmt_op n o k s)) as [[M|]|e] eqn:E; [|now apply IH|reflexivity].
    pose proof (stmt_op_wf _ _ _ _ _ E) as HM.
    rewrite (IH _ (mmul RNum M acc)) by now apply wf_mmul.
    rewrite (IH _ (mmul RNum M (eye RNum (zpow2 n)))) by (apply wf_mmul; [exact HM|apply shape_eye]).
    destruct (kraus_from n o (k + nonunitary [s]) (eye RNum (zpow2 n)) ir) as [K|e] eqn:EK; [|reflexivity].
    pose proof (kraus_from_wf _ _ _ _ _ _ (shape_eye RNum _) EK) as HK.
    rewrite (mmul_eye_r (zpow2 n) (zpow2 n) M Hd HM).
    rewrite (mmul_assoc (zpow2 n) (zpow2 n) (zpow2 n) (zpow2 n) K M acc Hd Hd HK HM Hacc). reflexivity.
Qed.

(* errors do not depend on the accumulator *)
Lemma kraus_from_err_acc n o ir : forall k acc acc' e,
  kraus_from n o k acc ir = Err e -> kraus_from n o k acc' ir = Err e.
Proof.
  induction ir as [|s ir IH]; intros k acc acc' e H; [discriminate|].
  rewrite kraus_from_cons in *.
  destruct (fst (stmt_op n o k s)) as [[M|]|e0]; [| |exact H]; eapply IH; exact H.
Qed.

Lemma kraus_from_mequiv_acc n o ir : forall k acc acc' A,
  mequiv acc acc' -> kraus_from n o k acc ir = Ok A ->
  exists A', kraus_from n o k acc' ir = Ok A' /\ mequiv A A'.
Proof.
  induction ir as [|s ir IH]; intros k acc acc' A Heq H.
  - injection H as <-. exists acc'. split; [reflexivity|exact Heq].
  - rewrite kraus_from_cons in *.
    destruct (fst (stmt_op n o k s)) as [[M|]|e0]; [| |discriminate].
    + apply (IH _ (mmul RNum M acc)); [now apply mequiv_mmul_l|exact H].
    + apply (IH _ acc); assumption.
Qed.

(* outcomes are consumed in program order: starting at k is starting at 0 with the outcomes shifted *)
Lemma kraus_from_shift n o k ir : forall j acc,
  kraus_from n o (k + j) acc ir = kraus_from n (fun i => o (k + i)) j acc ir.
Proof.
  induction ir as [|s ir IH]; intros j acc; [reflexivity|].
  destruct s as [oid g gi|oid q b ax gi|oid q gi|t]; cbn [kraus_from stmt_op].
  - destruct (get_matrix RNum n g); [apply IH|reflexivity].
  - destruct (embed1 n q (proj_axis ax (o (k + j)))); [|reflexivity].
    rewrite <- Nat.add_succ_r. apply IH.
  - destruct (embed1 n q (reset_op (o (k + j)))); [|reflexivity].
    rewrite <- Nat.add_succ_r. apply IH.
  - apply IH.
Qed.

Lemma kraus_from_shift0 n o k acc ir :
  kraus_from n o k acc ir = kraus_from n (fun i => o (k + i)) 0 acc ir.
Proof. rewrite <- (kraus_from_shift n o k ir 0 acc), Nat.add_0_r. reflexivity. Qed.

(* outcomes beyond those consumed do not matter *)
Lemma kraus_from_ext n o o' ir : forall k acc,
  (forall i, k <= i < k + nonunitary ir -> o i = o' i) ->
  kraus_from n o k acc ir = kraus_from n o' k acc ir.
Proof.
  induction ir as [|s ir IH]; intros k acc Ho; [reflexivity|].
  destruct s as [oid g gi|oid q b ax gi|oid q gi|t]; cbn [kraus_from stmt_op]; cbn [nonunitary] in Ho.
  - destruct (get_matrix RNum n g); [apply IH; exact Ho|reflexivity].
  - rewrite <- (Ho k) by lia. destruct (embed1 n q (proj_axis ax (o k))); [|reflexivity].
    apply IH. intros i Hi. apply Ho. lia.
  - rewrite <- (Ho k) by lia. destruct (embed1 n q (reset_op (o k))); [|reflexivity].
    apply IH. intros i Hi. apply Ho. lia.
  - apply IH. exact Ho.
Qed.

(* on gates and comments the semantics is the implementation's circuit matrix *)
Lemma kraus_from_gates_only n o ir : forall k acc,
  gates_only ir -> kraus_from n o k acc ir = circuit_matrix_from RNum n acc ir.
Proof.
  induction ir as [|s ir IH]; intros k acc H; [reflexivity|].
  assert (Hs := H s (or_introl eq_refl)).
  assert (Hr : gates_only ir) by (intros s' Hs'; apply H; now right).
  destruct s as [oid g gi|oid q b ax gi|oid q gi|t]; try contradiction;
    cbn [kraus_from stmt_op circuit_matrix_from].
  - destruct (get_matrix RNum n g); [now apply IH|reflexivity].
  - now apply IH.
Qed.

Theorem kraus_gates_only n o ir : gates_only ir -> kraus n o ir = circuit_matrix RNum n ir.
Proof. apply kraus_from_gates_only. Qed.

Lemma kraus_from_gates n o k acc news :
  (forall s, In s news -> exists o' g gi, s = SGate o' g gi) ->
  kraus_from n o k acc news = circuit_matrix_from RNum n acc news.
Proof. intros H. apply kraus_from_gates_only. now apply all_gates_gates_only. Qed.

Lemma nonunitary_gates news :
  (forall s, In s news -> exists o' g gi, s = SGate o' g gi) -> nonunitary news = 0.
Proof. intros H. apply gates_only_nonunitary. now apply all_gates_gates_only. Qed.

Lemma effects_gates news :
  (forall s, In s news -> exists o' g gi, s = SGate o' g gi) -> effects news = [].
Proof. intros H. apply gates_only_effects. now apply all_gates_gates_only. Qed.

(* the accumulator of the implementation's circuit matrix factors out *)
Lemma circuit_matrix_from_acc n ir acc :
  wf_mat (zpow2 n) acc ->
  circuit_matrix_from RNum n acc ir =
  match circuit_matrix RNum n ir with
  | Err e => Err e
  | Ok K => Ok (mmul RNum K acc)
  end.
Proof.
  intros Hacc. rewrite (circuit_matrix_filter RNum n ir). unfold circuit_matrix.
  assert (Hg : gates_only (filter is_gate ir)).
  { intros s Hs. apply filter_In in Hs. destruct Hs as [_ Hs]. destruct s; try discriminate; exact I. }
  rewrite <- (kraus_from_gates_only n (fun _ => false) _ 0 _ Hg).
  rewrite <- kraus_from_acc by exact Hacc.
  rewrite (kraus_from_gates_only n (fun _ => false) _ 0 _ Hg).
  clear Hg. revert acc Hacc. induction ir as [|s ir IH]; intros acc Hacc; [reflexivity|].
  destruct s as [oid g gi| | |]; cbn [filter is_gate circuit_matrix_from]; try (now apply IH).
  destruct (get_matrix RNum n g) as [G|e] eqn:EG; [|reflexivity].
  apply IH. apply wf_mmul; [exact (get_matrix_wf RNum n g G EG)|exact Hacc].
Qed.

(* ================================================================== *)
(* 7. same_operation is reflexive and transitive                       *)

Lemma same_operation_refl n ir : same_operation n ir ir.
Proof.
  split; [reflexivity|]. intros o A H. exists A. split; [exact H|apply mequiv_refl].
Qed.

Lemma same_operation_trans n a b c : same_operation n a b -> same_operation n b c -> same_operation n a c.
Proof.
  intros [He1 Hk1] [He2 Hk2]. split; [congruence|].
  intros o A HA. destruct (Hk1 o A HA) as [B [HB HBA]]. destruct (Hk2 o B HB) as [C [HC HCB]].
  exists C. split; [exact HC|]. now apply (mequiv_trans _ B).
Qed.

Lemma same_operation_nonunitary n a b : same_operation n a b -> nonunitary b = nonunitary a.
Proof. intros [He _]. now apply effects_nonunitary. Qed.

(* ================================================================== *)
(* 8. the congruences                                                  *)

(* a piece of a circuit may be replaced by a piece doing the same operation *)
Theorem same_operation_congr n pre a a' post :
  same_operation n a a' -> same_operation n (pre ++ a ++ post) (pre ++ a' ++ post).
Proof.
  intros Hsame. pose proof (same_operation_nonunitary _ _ _ Hsame) as Hnu.
  destruct Hsame as [He Hk]. split.
  - rewrite !effects_app, He. reflexivity.
  - intros o A HA. unfold kraus in *.
    rewrite kraus_from_app in HA. rewrite kraus_from_app.
    destruct (kraus_from n o 0 (eye RNum (zpow2 n)) pre) as [P|e] eqn:EP; [|discriminate].
    pose proof (kraus_from_wf _ _ _ _ _ _ (shape_eye RNum _) EP) as HP.
    cbn [Nat.add] in *.
    rewrite kraus_from_app in HA. rewrite kraus_from_app.
    rewrite (kraus_from_acc n o a _ P HP) in HA. rewrite (kraus_from_acc n o a' _ P HP).
    rewrite kraus_from_shift0 in HA. rewrite (kraus_from_shift0 n o (nonunitary pre) _ a').
    destruct (kraus_from n (fun i => o (nonunitary pre + i)) 0 (eye RNum (zpow2 n)) a) as [K|e] eqn:EK;
      [|discriminate].
    destruct (Hk _ K EK) as [K' [EK' HKK]]. unfold kraus in EK'. rewrite EK'. rewrite Hnu.
    apply (kraus_from_mequiv_acc n o post _ (mmul RNum K P) (mmul RNum K' P) A) in HA.
    + destruct HA as [A' [HA' HAA]]. exists A'. split; [exact HA'|now apply mequiv_sym].
    + apply mequiv_mmul_r. now apply mequiv_sym.
Qed.

Corollary same_operation_app_l n pre a a' :
  same_operation n a a' -> same_operation n (pre ++ a) (pre ++ a').
Proof.
  intros H. pose proof (same_operation_congr n pre a a' [] H) as H'. now rewrite !app_nil_r in H'.
Qed.

Corollary same_operation_app_r n a a' post :
  same_operation n a a' -> same_operation n (a ++ post) (a' ++ post).
Proof. intros H. exact (same_operation_congr n [] a a' post H). Qed.

Corollary same_operation_app n a a' b b' :
  same_operation n a a' -> same_operation n b b' -> same_operation n (a ++ b) (a' ++ b').
Proof.
  intros Ha Hb. apply (same_operation_trans _ _ (a' ++ b)).
  - now apply same_operation_app_r.
  - now apply same_operation_app_l.
Qed.

(* one gate against gate statements with the same product up to a phase *)
Lemma same_operation_gate n oid g gi news A B :
  (forall s, In s news -> exists o g' gi', s = SGate o g' gi') ->
  get_matrix RNum n g = Ok A -> circuit_matrix RNum n news = Ok B -> mequiv B A ->
  same_operation n [SGate oid g gi] news.
Proof.
  intros Hg HA HB Heq. split.
  - rewrite (effects_gates news Hg). reflexivity.
  - intros o K HK. unfold kraus in *. rewrite (kraus_from_gates n o 0 _ news Hg).
    fold (circuit_matrix RNum n news). rewrite HB.
    cbn [kraus_from stmt_op] in HK. rewrite HA in HK. injection HK as <-.
    exists B. split; [reflexivity|].
    rewrite (mmul_eye_r (zpow2 n) (zpow2 n) A (zpow2_pos n) (get_matrix_wf RNum n g A HA)). exact Heq.
Qed.

Theorem same_operation_replace n pre post oid g gi news A B :
  (forall s, In s news -> exists o g' gi', s = SGate o g' gi') ->
  get_matrix RNum n g = Ok A -> circuit_matrix RNum n news = Ok B -> mequiv B A ->
  same_operation n (pre ++ SGate oid g gi :: post) (pre ++ news ++ post).
Proof.
  intros Hg HA HB Heq.
  apply (same_operation_congr n pre [SGate oid g gi] news post).
  now apply (same_operation_gate n oid g gi news A B).
Qed.

(* a statement that does nothing may be dropped or inserted *)
Lemma same_operation_comment n t : same_operation n [SComment t] [].
Proof.
  split; [reflexivity|]. intros o A H. exists A. split; [exact H|apply mequiv_refl].
Qed.

(* ================================================================== *)
(* 9. Kronecker products, scaling, and one-qubit operators on the register *)

Lemma kron_mscale_l z ar ac br bc (A B : matR) :
  shape ar ac A -> shape br bc B -> kron RNum (mscale z A) B = mscale z (kron RNum A B).
Proof.
  intros HA HB. apply (mat_ext RNum (ar * br) (ac * bc)).
  - apply shape_kron; [now apply mscale_shape|exact HB].
  - apply mscale_shape. now apply shape_kron.
  - intros r c Hr Hc. rewrite mget_mscale.
    rewrite (mget_kron RNum ar ac br bc (mscale z A) B r c (mscale_shape z _ _ _ HA) HB Hr Hc).
    rewrite (mget_kron RNum ar ac br bc A B r c HA HB Hr Hc).
    rewrite mget_mscale. symmetry. apply cmulR_assoc.
Qed.

Lemma kron_mscale_r z ar ac br bc (A B : matR) :
  shape ar ac A -> shape br bc B -> kron RNum A (mscale z B) = mscale z (kron RNum A B).
Proof.
  intros HA HB. apply (mat_ext RNum (ar * br) (ac * bc)).
  - apply shape_kron; [exact HA|now apply mscale_shape].
  - apply mscale_shape. now apply shape_kron.
  - intros r c Hr Hc. rewrite mget_mscale.
    rewrite (mget_kron RNum ar ac br bc A (mscale z B) r c HA (mscale_shape z _ _ _ HB) Hr Hc).
    rewrite (mget_kron RNum ar ac br bc A B r c HA HB Hr Hc).
    rewrite mget_mscale. rewrite !cmulR_assoc, (cmulR_comm _ z). reflexivity.
Qed.

(* the operator on the register of a 2x2 operator on qubit q *)
Definition lift1 (n q : Z) (U : matR) : matR :=
  kron RNum (kron RNum (eye RNum (zpow2 (n - q - 1))) U) (eye RNum (zpow2 q)).

Lemma embed1_lift1 n q U : (0 <= q < n)%Z -> embed1 n q U = Ok (lift1 n q U).
Proof. apply embed1_in_range. Qed.

Lemma embed1_ok_lift1 n q U M : embed1 n q U = Ok M -> (0 <= q < n)%Z /\ M = lift1 n q U.
Proof. apply embed1_ok. Qed.

Lemma lift1_wf n q U : (0 <= q < n)%Z -> wf_mat 2 U -> wf_mat (zpow2 n) (lift1 n q U).
Proof. intros Hq HU. exact (embed1_wf n q U _ (embed1_lift1 n q U Hq) HU). Qed.

Lemma lift1_mmul n q U V : (0 <= q < n)%Z -> wf_mat 2 U -> wf_mat 2 V ->
  mmul RNum (lift1 n q U) (lift1 n q V) = lift1 n q (mmul RNum U V).
Proof.
  intros Hq HU HV. unfold lift1.
  set (a := zpow2 (n - q - 1)). set (b := zpow2 q).
  assert (Ha : 0 < a) by apply zpow2_pos. assert (Hb : 0 < b) by apply zpow2_pos.
  pose proof (shape_eye RNum a) as HIa. pose proof (shape_eye RNum b) as HIb.
  pose proof (shape_kron RNum _ _ _ _ _ _ HIa HU) as HaU.
  pose proof (shape_kron RNum _ _ _ _ _ _ HIa HV) as HaV.
  rewrite (kron_mixed_product (a * 2) (a * 2) (a * 2) b b b _ _ _ _ ltac:(lia) Hb HaU HIb HaV HIb).
  rewrite (kron_mixed_product a a a 2 2 2 _ _ _ _ Ha ltac:(lia) HIa HU HIa HV).
  rewrite (mmul_eye_l a a _ Ha HIa), (mmul_eye_l b b _ Hb HIb). reflexivity.
Qed.

Lemma lift1_mscale n q z U : wf_mat 2 U -> lift1 n q (mscale z U) = mscale z (lift1 n q U).
Proof.
  intros HU. unfold lift1.
  pose proof (shape_eye RNum (zpow2 (n - q - 1))) as HIa. pose proof (shape_eye RNum (zpow2 q)) as HIb.
  rewrite (kron_mscale_r z _ _ _ _ _ _ HIa HU).
  rewrite (kron_mscale_l z _ _ _ _ _ _ (shape_kron RNum _ _ _ _ _ _ HIa HU) HIb). reflexivity.
Qed.

Lemma lift1_eye n q : (0 <= q < n)%Z -> lift1 n q (eye RNum 2) = eye RNum (zpow2 n).
Proof.
  intros Hq. unfold lift1. rewrite !kron_eye. now rewrite (zpow2_split n q Hq).
Qed.

Lemma lift1_mequiv n q U V : wf_mat 2 V -> mequiv U V -> mequiv (lift1 n q U) (lift1 n q V).
Proof. intros HV [z [Hz ->]]. exists z. split; [exact Hz|now apply lift1_mscale]. Qed.

(* a rotation on the register is the lifted 2x2 rotation *)
Lemma get_matrix_bsr_lift1 n q ax a p : (0 <= q < n)%Z ->
  get_matrix RNum n (BSR q ax a p) = Ok (lift1 n q (can1 RNum ax a p)).
Proof. intros Hq. rewrite get_matrix_bsr_embed1. now apply embed1_lift1. Qed.

Print Assumptions same_operation_congr.
Print Assumptions same_operation_replace.
Print Assumptions kraus_gates_only.
