(* MergeP.v — structural proofs about Model/Merge.v (merge_single_qubit_gates).
   Everything in the section is proved for ANY type T and ANY N : Num T:
   compose / is_identity are treated as opaque functions. *)
From Coq Require Import String ZArith List Bool Lia.
Import ListNotations.
From OSQ Require Import Num IR Construct DefaultTable ABA Merge.
Local Open Scope Z_scope.

Section MergeP.
  Context {T : Type} (N : Num T).
  Notation stmt := (stmt T).
  Notation gate := (gate T).
  Notation ginfo := (ginfo T).
  Notation G := (gate * ginfo)%type.
  Notation accs := (list (gate * ginfo)).

  (* ------------------------------------------------------------------ *)
  (* Classification of statements                                         *)
  (* ------------------------------------------------------------------ *)
  Definition is_comment (s : stmt) : bool := match s with SComment _ => true | _ => false end.
  (* a barrier: any non-rotation, non-comment statement *)
  Definition is_barrier (s : stmt) : bool := negb (is_bsr_stmt s) && negb (is_comment s).
  Definition nonrot (s : stmt) : bool := negb (is_bsr_stmt s).
  (* s is a rotation statement acting on qubit q *)
  Definition rot_on (q : Z) (s : stmt) : bool :=
    match s with SGate _ (BSR q' _ _ _) _ => Z.eqb q' q | _ => false end.
  (* s is a barrier having q among its operands *)
  Definition bar_on (q : Z) (s : stmt) : bool := is_barrier s && zmem q (stmt_qubits s).
  Definition bsr_on (q : Z) (g : gate) : Prop := exists ax an ph, g = BSR q ax an ph.

  Lemma stmt_cases (s : stmt) :
    (exists t, s = SComment t) \/
    (exists o q ax an ph gi, s = SGate o (BSR q ax an ph) gi) \/
    is_barrier s = true.
  Proof.
    destruct s as [o [q ax an ph|c g|m ops] gi|o q b ax gi|o q gi|t].
    - right; left. do 6 eexists; reflexivity.
    - right; right; reflexivity.
    - right; right; reflexivity.
    - right; right; reflexivity.
    - right; right; reflexivity.
    - left; eexists; reflexivity.
  Qed.

  Lemma rot_on_unique q q' s : rot_on q s = true -> rot_on q' s = true -> q = q'.
  Proof.
    destruct s as [o [q0 ax an ph|c g|m ops] gi|o q0 b ax gi|o q0 gi|t]; cbn; try discriminate.
    intros H1 H2. apply Z.eqb_eq in H1. apply Z.eqb_eq in H2. congruence.
  Qed.

  Lemma rot_on_nonrot q s : rot_on q s = true -> nonrot s = false.
  Proof.
    destruct s as [o [q0 ax an ph|c g|m ops] gi|o q0 b ax gi|o q0 gi|t]; cbn; try discriminate; reflexivity.
  Qed.

  Lemma barrier_nonrot s : is_barrier s = true -> nonrot s = true.
  Proof. unfold is_barrier, nonrot. intros H. apply andb_prop in H. tauto. Qed.

  (* unfolding lemmas for the main loop *)
  Lemma merge_loop_comment a next t rest out :
    merge_loop N a next (SComment t :: rest) out = merge_loop N a next rest (SComment t :: out).
  Proof. reflexivity. Qed.

  Lemma merge_loop_rot a next o q ax an ph gi rest out :
    merge_loop N a next (SGate o (BSR q ax an ph) gi :: rest) out =
    match acc_get a q with
    | None => Err EKey
    | Some x =>
        match compose_gates N (BSR q ax an ph, gi) x with
        | Err e => Err e
        | Ok y => merge_loop N (acc_set a (Z.to_nat q) y) next rest out
        end
    end.
  Proof. reflexivity. Qed.

  Lemma merge_loop_barrier a next s rest out :
    is_barrier s = true ->
    merge_loop N a next (s :: rest) out =
    match flush N a next (stmt_qubits s) out with
    | Err e => Err e
    | Ok (a', next', out') => merge_loop N a' next' rest (s :: out')
    end.
  Proof.
    destruct s as [o [q ax an ph|c g|m ops] gi|o q b ax gi|o q gi|t]; cbn [is_barrier is_bsr_stmt is_comment negb andb];
      intros H; try discriminate; reflexivity.
  Qed.

  (* ------------------------------------------------------------------ *)
  (* Accumulator list: invariant "position i holds a BSR on qubit i"      *)
  (* ------------------------------------------------------------------ *)
  Fixpoint accs_on (k : nat) (a : accs) : Prop :=
    match a with
    | [] => True
    | x :: a' => bsr_on (Z.of_nat k) (fst x) /\ accs_on (S k) a'
    end.

  Lemma accs_on_nth (a : accs) : forall k i x,
    accs_on k a -> nth_error a i = Some x -> bsr_on (Z.of_nat (k + i)) (fst x).
  Proof.
    induction a as [|y a IH]; intros k i x H E.
    - destruct i; discriminate.
    - destruct H as [H1 H2]. destruct i as [|i]; cbn in E.
      + inversion E; subst. rewrite Nat.add_0_r. exact H1.
      + replace (k + S i)%nat with (S k + i)%nat by lia. eapply IH; eauto.
  Qed.

  Lemma accs_on_set (a : accs) : forall k i y,
    accs_on k a -> bsr_on (Z.of_nat (k + i)) (fst y) -> accs_on k (acc_set a i y).
  Proof.
    induction a as [|z a IH]; intros k i y H Hy; cbn [acc_set].
    - exact I.
    - destruct H as [H1 H2]. destruct i as [|i]; cbn [accs_on].
      + rewrite Nat.add_0_r in Hy. split; assumption.
      + split; [assumption|]. apply IH; [assumption|].
        replace (S k + i)%nat with (k + S i)%nat by lia. exact Hy.
  Qed.

  Lemma acc_set_length (a : accs) : forall i y, length (acc_set a i y) = length a.
  Proof.
    induction a as [|z a IH]; intros i y; cbn [acc_set]; [reflexivity|].
    destruct i; cbn [length]; [reflexivity|]. rewrite IH. reflexivity.
  Qed.

  Lemma nth_acc_set_same (a : accs) : forall i y, (i < length a)%nat -> nth_error (acc_set a i y) i = Some y.
  Proof.
    induction a as [|z a IH]; intros i y H; cbn [length] in H; [lia|].
    destruct i; cbn [acc_set nth_error]; [reflexivity|]. apply IH. lia.
  Qed.

  Lemma nth_acc_set_other (a : accs) : forall i j y, i <> j -> nth_error (acc_set a i y) j = nth_error a j.
  Proof.
    induction a as [|z a IH]; intros i j y H; cbn [acc_set]; [reflexivity|].
    destruct i, j; cbn [nth_error]; try reflexivity; try lia.
    apply IH. lia.
  Qed.

  Lemma acc_get_some (a : accs) q x : acc_get a q = Some x -> 0 <= q < Z.of_nat (length a).
  Proof.
    unfold acc_get. destruct (Z.ltb_spec q 0); [discriminate|].
    intros E. assert (Hn : nth_error a (Z.to_nat q) <> None) by congruence.
    apply nth_error_Some in Hn. lia.
  Qed.

  Lemma acc_get_in_range (a : accs) q : 0 <= q < Z.of_nat (length a) -> exists x, acc_get a q = Some x.
  Proof.
    intros H. unfold acc_get. destruct (Z.ltb_spec q 0); [lia|].
    destruct (nth_error a (Z.to_nat q)) as [x|] eqn:E; [eexists; reflexivity|].
    apply nth_error_None in E. lia.
  Qed.

  Lemma acc_get_none (a : accs) q : ~ (0 <= q < Z.of_nat (length a)) -> acc_get a q = None.
  Proof.
    intros H. destruct (acc_get a q) as [x|] eqn:E; [|reflexivity].
    apply acc_get_some in E. contradiction.
  Qed.

  Lemma acc_get_on (a : accs) q x : accs_on 0 a -> acc_get a q = Some x -> bsr_on q (fst x).
  Proof.
    intros Ha E. pose proof (acc_get_some _ _ _ E) as Hr.
    unfold acc_get in E. destruct (Z.ltb_spec q 0); [discriminate|].
    pose proof (accs_on_nth _ _ _ _ Ha E) as Hb. cbn [Nat.add] in Hb.
    rewrite Z2Nat.id in Hb by lia. exact Hb.
  Qed.

  Lemma acc_get_set_same (a : accs) q x y :
    acc_get a q = Some x -> acc_get (acc_set a (Z.to_nat q) y) q = Some y.
  Proof.
    intros E. pose proof (acc_get_some _ _ _ E) as Hr.
    unfold acc_get. destruct (Z.ltb_spec q 0); [lia|].
    apply nth_acc_set_same. lia.
  Qed.

  Lemma acc_get_set_other (a : accs) q q' y :
    0 <= q' -> q <> q' -> acc_get (acc_set a (Z.to_nat q') y) q = acc_get a q.
  Proof.
    intros H0 Hne. unfold acc_get. destruct (Z.ltb_spec q 0); [reflexivity|].
    apply nth_acc_set_other. lia.
  Qed.

  (* ------------------------------------------------------------------ *)
  (* compose_gates, ident, try_name only ever produce BSR gates           *)
  (* ------------------------------------------------------------------ *)
  Lemma bsr_on_mk_bsr q v a p : bsr_on q (mk_bsr N q v a p).
  Proof. unfold mk_bsr. do 3 eexists; reflexivity. Qed.

  Lemma bsr_on_identity q : bsr_on q (bsr_identity N q).
  Proof. unfold bsr_identity. apply bsr_on_mk_bsr. Qed.

  Lemma compose_on q axa anga pha gia axb angb phb gib :
    bsr_on q (fst (compose N q axa anga pha gia axb angb phb gib)).
  Proof.
    unfold compose. cbv zeta.
    match goal with |- context [if ?c then _ else _] => destruct c end; cbn [fst].
    - apply bsr_on_identity.
    - apply bsr_on_mk_bsr.
  Qed.

  (* compose_gates cannot fail on two BSRs of the same qubit *)
  Lemma compose_gates_ok s x q :
    bsr_on q (fst s) -> bsr_on q (fst x) ->
    exists y, compose_gates N s x = Ok y /\ bsr_on q (fst y).
  Proof.
    intros (ax & an & ph & Es) (bx & bn & bh & Ex).
    unfold compose_gates. rewrite Es, Ex. rewrite Z.eqb_refl.
    eexists. split; [reflexivity|]. apply compose_on.
  Qed.

  Lemma compose_gates_on s x y q :
    bsr_on q (fst s) -> compose_gates N s x = Ok y -> bsr_on q (fst y) /\ bsr_on q (fst x).
  Proof.
    intros (ax & an & ph & Es). unfold compose_gates. rewrite Es.
    destruct (fst x) as [qb bx bn bh| |] eqn:Ex; try discriminate.
    destruct (Z.eqb_spec q qb); [|discriminate]. subst qb.
    intros H. inversion H; subst. split; [apply compose_on|]. do 3 eexists; reflexivity.
  Qed.

  Lemma default_gate_I q :
    default_gate N "I"%string [AQ q] = Ok (bsr_identity N q, mkGinfo (Some "I"%string) (Some [AQ q])).
  Proof. reflexivity. Qed.

  Lemma ident_eq q : ident N q = (bsr_identity N q, mkGinfo (Some "I"%string) (Some [AQ q])).
  Proof. unfold ident. rewrite default_gate_I. reflexivity. Qed.

  Lemma ident_on q : bsr_on q (fst (ident N q)).
  Proof. rewrite ident_eq. apply bsr_on_identity. Qed.

  Lemma default_noparam_bsr q nm :
    In nm hand_noparam -> exists ax an ph gi, default_gate N nm [AQ q] = Ok (BSR q ax an ph, gi).
  Proof.
    intros H. cbv [hand_noparam In] in H.
    repeat (destruct H as [H|H]; [subst nm; do 4 eexists; reflexivity|]).
    contradiction.
  Qed.

  (* try_name_in returns a table gate (on the same qubit) close to its input *)
  Lemma try_name_in_spec names : forall q ax an ph y,
    incl names hand_noparam ->
    try_name_in N names q ax an ph = Some y ->
    exists nm gax gang gph,
      In nm names /\ default_gate N nm [AQ q] = Ok y /\ fst y = BSR q gax gang gph /\
      close_axis N gax ax = true /\ close_r N gang an = true /\ close_r N gph ph = true.
  Proof.
    induction names as [|nm names IH]; intros q ax an ph y Hin H; cbn [try_name_in] in H; [discriminate|].
    assert (Hin' : incl names hand_noparam) by (intros z Hz; apply Hin; right; exact Hz).
    assert (Hrec : try_name_in N names q ax an ph = Some y ->
                   exists nm0 gax gang gph,
                     In nm0 (nm :: names) /\ default_gate N nm0 [AQ q] = Ok y /\ fst y = BSR q gax gang gph /\
                     close_axis N gax ax = true /\ close_r N gang an = true /\ close_r N gph ph = true).
    { intros H'. destruct (IH q ax an ph y Hin' H') as (nm0 & gax & gang & gph & A & B).
      exists nm0, gax, gang, gph. split; [right; exact A|exact B]. }
    destruct (default_noparam_bsr q nm (Hin nm (or_introl eq_refl))) as (gax & gang & gph & gi & E).
    rewrite E in H.
    destruct (close_axis N gax ax && close_r N gang an && close_r N gph ph) eqn:C; [|auto].
    inversion H; subst y. apply andb_prop in C. destruct C as [C C3]. apply andb_prop in C. destruct C as [C1 C2].
    exists nm, gax, gang, gph. repeat split; auto. left; reflexivity.
  Qed.

  (* try_name returns its input or a named table gate on the same qubit *)
  Lemma try_name_spec x q ax an ph :
    fst x = BSR q ax an ph ->
    try_name N x = x \/
    exists nm gax gang gph,
      In nm hand_noparam /\ default_gate N nm [AQ q] = Ok (try_name N x) /\
      fst (try_name N x) = BSR q gax gang gph /\
      close_axis N gax ax = true /\ close_r N gang an = true /\ close_r N gph ph = true.
  Proof.
    intros E. unfold try_name. rewrite E.
    destruct (try_name_in N hand_noparam q ax an ph) as [y|] eqn:Ey; [|left; reflexivity].
    right. destruct (try_name_in_spec hand_noparam q ax an ph y (incl_refl _) Ey)
      as (nm & gax & gang & gph & A & B & C & D).
    exists nm, gax, gang, gph. repeat split; tauto.
  Qed.

  Lemma try_name_on x q : bsr_on q (fst x) -> bsr_on q (fst (try_name N x)).
  Proof.
    intros (ax & an & ph & E).
    destruct (try_name_spec x q ax an ph E) as [H|(nm & gax & gang & gph & _ & _ & H & _)].
    - rewrite H, E. do 3 eexists; reflexivity.
    - rewrite H. do 3 eexists; reflexivity.
  Qed.

  (* the accumulator as emitted by the final flush *)
  Definition fname (x : G) : G := if is_anonymous (snd x) then try_name N x else x.

  Lemma fname_on x q : bsr_on q (fst x) -> bsr_on q (fst (fname x)).
  Proof. unfold fname. destruct (is_anonymous (snd x)); [apply try_name_on|auto]. Qed.

  (* ------------------------------------------------------------------ *)
  (* Structure of what flush / merge_loop / final_flush emit              *)
  (* ------------------------------------------------------------------ *)
  (* a rotation statement is "good" if it is not the identity and acts on a
     qubit of the register; non-rotation statements are trivially good *)
  Definition good_rot (len : nat) (s : stmt) : Prop :=
    match s with
    | SGate _ (BSR q ax an ph) _ => is_identity N (BSR q ax an ph) = false /\ 0 <= q < Z.of_nat len
    | _ => True
    end.

  Lemma good_rot_nonrot len s : nonrot s = true -> good_rot len s.
  Proof.
    destruct s as [o [q ax an ph|c g|m ops] gi|o q b ax gi|o q gi|t]; cbn; try discriminate; auto.
  Qed.

  Lemma rot_on_emit q o (x : G) : bsr_on q (fst x) -> rot_on q (SGate o (fst x) (snd x)) = true.
  Proof. intros (ax & an & ph & E). rewrite E. cbn. apply Z.eqb_refl. Qed.

  Lemma good_rot_emit len q o (x : G) :
    bsr_on q (fst x) -> is_identity N (fst x) = false -> 0 <= q < Z.of_nat len ->
    good_rot len (SGate o (fst x) (snd x)).
  Proof. intros (ax & an & ph & E) Hi Hr. rewrite E in *. cbn [good_rot]. split; assumption. Qed.

  Lemma good_rot_range len q s : good_rot len s -> rot_on q s = true -> 0 <= q < Z.of_nat len.
  Proof.
    destruct s as [o [q0 ax an ph|c g|m ops] gi|o q0 b ax gi|o q0 gi|t]; cbn; try discriminate.
    intros [_ H] E. apply Z.eqb_eq in E. subst. exact H.
  Qed.

  (* a statement emitted by [flush a next qs out]: a good rotation on one of qs *)
  Definition emitted_on (len : nat) (qs : list Z) (s : stmt) : Prop :=
    exists q, In q qs /\ rot_on q s = true /\ good_rot len s.

  Lemma flush_struct qs : forall (a : accs) next out a' next' out',
    flush N a next qs out = Ok (a', next', out') -> accs_on 0 a ->
    accs_on 0 a' /\ length a' = length a /\
    Forall (fun q => 0 <= q < Z.of_nat (length a)) qs /\
    exists em, out' = (em ++ out)%list /\ Forall (emitted_on (length a) qs) em.
  Proof.
    induction qs as [|q qs IH]; intros a next out a' next' out' H Ha; cbn [flush] in H.
    - inversion H; subst. repeat split; auto. exists []. split; [reflexivity|constructor].
    - destruct (acc_get a q) as [x|] eqn:E; [|discriminate].
      pose proof (acc_get_some _ _ _ E) as Hr. pose proof (acc_get_on _ _ _ Ha E) as Hx.
      destruct (is_identity N (fst x)) eqn:Ei.
      + destruct (IH _ _ _ _ _ _ H Ha) as (A & B & C & em & D & F).
        repeat split; auto. exists em. split; [exact D|].
        eapply Forall_impl; [|exact F]. intros s (q0 & I0 & R0 & G0). exists q0. repeat split; auto. right; exact I0.
      + assert (Ha2 : accs_on 0 (acc_set a (Z.to_nat q) (ident N q))).
        { apply accs_on_set; [exact Ha|]. cbn [Nat.add]. rewrite Z2Nat.id by lia. apply ident_on. }
        destruct (IH _ _ _ _ _ _ H Ha2) as (A & B & C & em & D & F).
        rewrite acc_set_length in B, C, F.
        repeat split; auto.
        exists (em ++ [SGate next (fst x) (snd x)])%list. split.
        * rewrite D. rewrite <- app_assoc. reflexivity.
        * apply Forall_app. split.
          -- eapply Forall_impl; [|exact F]. intros s (q0 & I0 & R0 & G0). exists q0. repeat split; auto. right; exact I0.
          -- constructor; [|constructor]. exists q. repeat split.
             ++ left; reflexivity.
             ++ apply rot_on_emit. exact Hx.
             ++ eapply good_rot_emit; eauto.
  Qed.

  Lemma emitted_filter len qs em : Forall (emitted_on len qs) em -> filter nonrot em = [].
  Proof.
    induction em as [|s em IH]; intros H; [reflexivity|].
    inversion H as [|? ? (q & _ & R & _) H']; subst. cbn [filter].
    rewrite (rot_on_nonrot _ _ R). apply IH. exact H'.
  Qed.

  Lemma emitted_good len qs em : Forall (emitted_on len qs) em -> Forall (good_rot len) em.
  Proof. intros H. eapply Forall_impl; [|exact H]. intros s (q & _ & _ & G0). exact G0. Qed.

  Definition wf_len (len : nat) (s : stmt) : Prop :=
    Forall (fun q => 0 <= q < Z.of_nat len) (stmt_qubits s).

  Lemma merge_loop_struct ir : forall (a : accs) next out a' next' out',
    merge_loop N a next ir out = Ok (a', next', out') -> accs_on 0 a ->
    accs_on 0 a' /\ length a' = length a /\
    (Forall (good_rot (length a)) out -> Forall (good_rot (length a)) out') /\
    filter nonrot out' = (rev (filter nonrot ir) ++ filter nonrot out)%list /\
    Forall (wf_len (length a)) ir.
  Proof.
    induction ir as [|s ir IH]; intros a next out a' next' out' H Ha.
    - cbn in H. inversion H; subst. repeat split; auto.
    - destruct (stmt_cases s) as [(t & ->)|[(o & q & ax & an & ph & gi & ->)|Hb]].
      + rewrite merge_loop_comment in H.
        destruct (IH _ _ _ _ _ _ H Ha) as (A & B & C & D & F).
        repeat split; auto.
        * intros Ho. apply C. constructor; [exact I|exact Ho].
        * rewrite D. cbn [filter nonrot is_bsr_stmt negb rev]. rewrite <- app_assoc. reflexivity.
        * constructor; [constructor|exact F].
      + rewrite merge_loop_rot in H.
        destruct (acc_get a q) as [x|] eqn:E; [|discriminate].
        destruct (compose_gates N (BSR q ax an ph, gi) x) as [y|e] eqn:Ec; [|discriminate].
        pose proof (acc_get_some _ _ _ E) as Hr.
        assert (Hs : bsr_on q (fst (BSR q ax an ph, gi))) by (do 3 eexists; reflexivity).
        destruct (compose_gates_on _ _ _ _ Hs Ec) as [Hy _].
        assert (Ha2 : accs_on 0 (acc_set a (Z.to_nat q) y)).
        { apply accs_on_set; [exact Ha|]. cbn [Nat.add]. rewrite Z2Nat.id by lia. exact Hy. }
        destruct (IH _ _ _ _ _ _ H Ha2) as (A & B & C & D & F).
        rewrite acc_set_length in B, C, F.
        repeat split; auto.
        constructor; [|exact F]. unfold wf_len. cbn. constructor; [exact Hr|constructor].
      + rewrite (merge_loop_barrier _ _ _ _ _ Hb) in H.
        destruct (flush N a next (stmt_qubits s) out) as [[[a1 next1] out1]|e] eqn:Ef; [|discriminate].
        destruct (flush_struct _ _ _ _ _ _ _ Ef Ha) as (A1 & B1 & C1 & em & D1 & F1).
        destruct (IH _ _ _ _ _ _ H A1) as (A & B & C & D & F).
        rewrite B1 in B, C, F.
        repeat split; auto.
        * intros Ho. apply C. constructor; [apply good_rot_nonrot, barrier_nonrot, Hb|].
          rewrite D1. apply Forall_app. split; [eapply emitted_good; eauto|exact Ho].
        * rewrite D. cbn [filter]. rewrite (barrier_nonrot _ Hb). rewrite D1, filter_app.
          rewrite (emitted_filter _ _ _ F1). cbn [rev app]. rewrite <- app_assoc. reflexivity.
  Qed.

  (* the statements appended by the final flush, in order *)
  Fixpoint final_list (a : accs) (next : positive) : list stmt :=
    match a with
    | [] => []
    | x :: a' =>
        if is_identity N (fst x) then final_list a' next
        else SGate next (fst (fname x)) (snd (fname x)) :: final_list a' (Pos.succ next)
    end.

  Lemma final_flush_list (a : accs) : forall next out,
    final_flush N a next out = (rev (final_list a next) ++ out)%list.
  Proof.
    induction a as [|x a IH]; intros next out; cbn [final_flush final_list]; [reflexivity|].
    destruct (is_identity N (fst x)); [apply IH|].
    rewrite IH. cbn [rev]. rewrite <- app_assoc. reflexivity.
  Qed.

  (* a statement appended by the final flush: the (possibly renamed) image of a
     non-identity accumulator x sitting at position q of the accumulator list *)
  Definition final_emitted (lo hi : Z) (s : stmt) : Prop :=
    exists o x q, s = SGate o (fst (fname x)) (snd (fname x)) /\
                  bsr_on q (fst x) /\ is_identity N (fst x) = false /\ lo <= q < hi.

  Lemma final_list_struct (a : accs) : forall k next,
    accs_on k a -> Forall (final_emitted (Z.of_nat k) (Z.of_nat (k + length a))) (final_list a next).
  Proof.
    induction a as [|x a IH]; intros k next Ha; cbn [final_list]; [constructor|].
    destruct Ha as [Hx Ha].
    assert (Hrec : forall nx, Forall (final_emitted (Z.of_nat k) (Z.of_nat (k + length (x :: a)))) (final_list a nx)).
    { intros nx. eapply Forall_impl; [|apply (IH (S k) nx Ha)].
      intros s (o & y & q & A & B & C & D). exists o, y, q. repeat split; auto; cbn [length]; lia. }
    destruct (is_identity N (fst x)) eqn:Ei; [apply Hrec|].
    constructor; [|apply Hrec].
    exists next, x, (Z.of_nat k). repeat split; auto; cbn [length]; lia.
  Qed.

  Lemma final_emitted_rot lo hi s : final_emitted lo hi s -> exists q, rot_on q s = true /\ lo <= q < hi.
  Proof.
    intros (o & x & q & -> & B & C & D). exists q. split; [|exact D].
    apply rot_on_emit. apply fname_on. exact B.
  Qed.

  Lemma final_filter lo hi l : Forall (final_emitted lo hi) l -> filter nonrot l = [].
  Proof.
    induction l as [|s l IH]; intros H; [reflexivity|].
    inversion H as [|? ? Hs H']; subst. destruct (final_emitted_rot _ _ _ Hs) as (q & R & _).
    cbn [filter]. rewrite (rot_on_nonrot _ _ R). apply IH. exact H'.
  Qed.

  (* initial accumulators *)
  Definition acc0 (n : Z) : accs := map (fun i => ident N (Z.of_nat i)) (seq 0 (Z.to_nat n)).

  Lemma accs_on_init : forall m k, accs_on k (map (fun i => ident N (Z.of_nat i)) (seq k m)).
  Proof.
    induction m as [|m IH]; intros k; cbn [seq map accs_on]; [exact I|].
    split; [apply ident_on|apply IH].
  Qed.

  Lemma acc0_on n : accs_on 0 (acc0 n).
  Proof. apply accs_on_init. Qed.

  Lemma acc0_length n : length (acc0 n) = Z.to_nat n.
  Proof. unfold acc0. rewrite map_length, seq_length. reflexivity. Qed.

  Lemma nth_map_seq {A} (f : nat -> A) : forall m k i,
    (i < m)%nat -> nth_error (map f (seq k m)) i = Some (f (k + i)%nat).
  Proof.
    induction m as [|m IH]; intros k i H; [lia|].
    cbn [seq map]. destruct i as [|i]; cbn [nth_error].
    - rewrite Nat.add_0_r. reflexivity.
    - rewrite IH by lia. f_equal. f_equal. lia.
  Qed.

  Lemma acc0_get n q : 0 <= q < n -> acc_get (acc0 n) q = Some (ident N q).
  Proof.
    intros H. unfold acc_get, acc0. destruct (Z.ltb_spec q 0); [lia|].
    rewrite nth_map_seq by lia. cbn [Nat.add]. rewrite Z2Nat.id by lia. reflexivity.
  Qed.

  Lemma merge_unfold n ir ir' :
    merge N n ir = Ok ir' ->
    exists a next out,
      merge_loop N (acc0 n) (Pos.succ (max_oid ir)) ir [] = Ok (a, next, out) /\
      ir' = (rev out ++ final_list a next)%list.
  Proof.
    unfold merge. fold (acc0 n).
    destruct (merge_loop N (acc0 n) (Pos.succ (max_oid ir)) ir []) as [[[a next] out]|e] eqn:E; [|discriminate].
    intros H. inversion H; subst. exists a, next, out. split; [reflexivity|].
    rewrite final_flush_list, rev_app_distr, rev_involutive. reflexivity.
  Qed.

  (* Shape of the output: the main-loop part followed by the final flush. *)
  Theorem merge_shape n ir ir' :
    merge N n ir = Ok ir' ->
    exists main fin,
      ir' = (main ++ fin)%list /\
      filter nonrot main = filter nonrot ir /\
      Forall (good_rot (Z.to_nat n)) main /\
      Forall (final_emitted 0 (Z.of_nat (Z.to_nat n))) fin /\
      Forall (wf_len (Z.to_nat n)) ir.
  Proof.
    intros H. destruct (merge_unfold _ _ _ H) as (a & next & out & E & ->).
    destruct (merge_loop_struct _ _ _ _ _ _ _ E (acc0_on n)) as (A & B & C & D & F).
    rewrite acc0_length in *.
    exists (rev out), (final_list a next). repeat split.
    - rewrite <- (rev_involutive (filter nonrot ir)).
      cbn [filter] in D. rewrite app_nil_r in D. rewrite <- D.
      clear. induction out as [|s out IH]; [reflexivity|].
      cbn [rev filter]. rewrite filter_app, IH. cbn [filter].
      destruct (nonrot s); cbn [rev]; [reflexivity|apply app_nil_r].
    - apply Forall_rev. apply C. constructor.
    - pose proof (final_list_struct a 0 next A) as Hf. cbn [Nat.add Z.of_nat] in Hf.
      rewrite B in Hf. exact Hf.
    - exact F.
  Qed.

  (* ------------------------------------------------------------------ *)
  (* 1. Every non-rotation statement survives, same objects, same order   *)
  (* ------------------------------------------------------------------ *)
  Theorem merge_keeps_others n ir ir' :
    merge N n ir = Ok ir' ->
    filter (fun s => negb (is_bsr_stmt s)) ir' = filter (fun s => negb (is_bsr_stmt s)) ir.
  Proof.
    intros H. destruct (merge_shape _ _ _ H) as (main & fin & -> & A & _ & C & _).
    change (filter nonrot (main ++ fin) = filter nonrot ir).
    rewrite filter_app, A, (final_filter _ _ _ C). apply app_nil_r.
  Qed.

  (* ------------------------------------------------------------------ *)
  (* 2. Accumulator i is a rotation on qubit i; flushing emits rotations  *)
  (*    on the flushed operand qubits; output rotations act on 0..n-1     *)
  (* ------------------------------------------------------------------ *)
  Theorem merge_loop_accs_on ir (a : accs) next out a' next' out' :
    merge_loop N a next ir out = Ok (a', next', out') -> accs_on 0 a -> accs_on 0 a'.
  Proof. intros H Ha. apply (merge_loop_struct _ _ _ _ _ _ _ H Ha). Qed.

  Theorem flush_emits_on_operands qs (a : accs) next out a' next' out' :
    flush N a next qs out = Ok (a', next', out') -> accs_on 0 a ->
    exists em, out' = (em ++ out)%list /\
      Forall (fun s => exists q, In q qs /\ rot_on q s = true) em.
  Proof.
    intros H Ha. destruct (flush_struct _ _ _ _ _ _ _ H Ha) as (_ & _ & _ & em & D & F).
    exists em. split; [exact D|]. eapply Forall_impl; [|exact F].
    intros s (q & A & B & _). exists q. split; assumption.
  Qed.

  Theorem merge_output_rotations_on_own_qubit n ir ir' s q :
    merge N n ir = Ok ir' -> In s ir' -> rot_on q s = true -> 0 <= q < n.
  Proof.
    intros H Hin R. destruct (merge_shape _ _ _ H) as (main & fin & -> & _ & B & C & _).
    apply in_app_or in Hin. destruct Hin as [Hin|Hin].
    - rewrite Forall_forall in B. pose proof (good_rot_range _ _ _ (B _ Hin) R). lia.
    - rewrite Forall_forall in C. destruct (final_emitted_rot _ _ _ (C _ Hin)) as (q' & R' & Hr).
      rewrite (rot_on_unique _ _ _ R R'). lia.
  Qed.

  (* ------------------------------------------------------------------ *)
  (* 3. No identity rotation is emitted                                   *)
  (* ------------------------------------------------------------------ *)
  (* Main-loop part: every rotation statement is non-identity.  Final part:
     every statement is [fname x] (= x, or [try_name x] when x is anonymous)
     for a non-identity accumulator x; [try_name_spec] says what try_name
     may return.  That [is_identity (try_name x) = false] is a numeric fact
     (closeness tolerances vs ATOL), not a structural one. *)
  Theorem merge_no_identity_emitted n ir ir' :
    merge N n ir = Ok ir' ->
    exists main fin,
      ir' = (main ++ fin)%list /\
      filter nonrot main = filter nonrot ir /\
      Forall (fun s => match s with
                       | SGate _ (BSR q ax an ph) _ => is_identity N (BSR q ax an ph) = false
                       | _ => True end) main /\
      Forall (fun s => exists o x, s = SGate o (fst (fname x)) (snd (fname x)) /\
                                   is_identity N (fst x) = false) fin.
  Proof.
    intros H. destruct (merge_shape _ _ _ H) as (main & fin & E & A & B & C & _).
    exists main, fin. repeat split; auto.
    - eapply Forall_impl; [|exact B].
      intros s. destruct s as [o [q ax an ph|c g|m ops] gi|o q b ax gi|o q gi|t]; cbn; tauto.
    - eapply Forall_impl; [|exact C]. intros s (o & x & q & S1 & _ & S2 & _). exists o, x. split; assumption.
  Qed.

  (* ------------------------------------------------------------------ *)
  (* 6. Totality on well-formed input; KeyError otherwise                 *)
  (* ------------------------------------------------------------------ *)
  Definition wf_stmt (n : Z) (s : stmt) : Prop := Forall (fun q => 0 <= q < n) (stmt_qubits s).

  Lemma wf_len_stmt n s : wf_len (Z.to_nat n) s <-> wf_stmt n s.
  Proof.
    unfold wf_len, wf_stmt. split; intros H; (eapply Forall_impl; [|exact H]); intros q Hq; cbv beta in *; lia.
  Qed.

  Lemma flush_total qs : forall (a : accs) next out,
    Forall (fun q => 0 <= q < Z.of_nat (length a)) qs ->
    exists r, flush N a next qs out = Ok r.
  Proof.
    induction qs as [|q qs IH]; intros a next out H; cbn [flush].
    - eexists; reflexivity.
    - inversion H as [|? ? Hq Hqs]; subst.
      destruct (acc_get_in_range a q Hq) as (x & ->).
      destruct (is_identity N (fst x)); [apply IH; exact Hqs|].
      apply IH. rewrite acc_set_length. exact Hqs.
  Qed.

  Lemma flush_err_key qs : forall (a : accs) next out e, flush N a next qs out = Err e -> e = EKey.
  Proof.
    induction qs as [|q qs IH]; intros a next out e H; cbn [flush] in H; [discriminate|].
    destruct (acc_get a q) as [x|]; [|congruence].
    destruct (is_identity N (fst x)); eapply IH; exact H.
  Qed.

  Lemma merge_loop_total ir : forall (a : accs) next out,
    accs_on 0 a -> Forall (wf_len (length a)) ir ->
    exists r, merge_loop N a next ir out = Ok r.
  Proof.
    induction ir as [|s ir IH]; intros a next out Ha H.
    - eexists; reflexivity.
    - inversion H as [|? ? Hs Hir]; subst.
      destruct (stmt_cases s) as [(t & ->)|[(o & q & ax & an & ph & gi & ->)|Hb]].
      + rewrite merge_loop_comment. apply IH; assumption.
      + rewrite merge_loop_rot. unfold wf_len in Hs. cbn in Hs. inversion Hs as [|? ? Hq _]; subst.
        destruct (acc_get_in_range a q Hq) as (x & E). rewrite E.
        assert (Hst : bsr_on q (fst (BSR q ax an ph, gi))) by (do 3 eexists; reflexivity).
        destruct (compose_gates_ok _ _ _ Hst (acc_get_on _ _ _ Ha E)) as (y & -> & Hy).
        apply IH.
        * apply accs_on_set; [exact Ha|]. cbn [Nat.add]. rewrite Z2Nat.id by lia. exact Hy.
        * rewrite acc_set_length. exact Hir.
      + rewrite (merge_loop_barrier _ _ _ _ _ Hb).
        destruct (flush_total (stmt_qubits s) a next out Hs) as ([[a1 next1] out1] & Ef). rewrite Ef.
        destruct (flush_struct _ _ _ _ _ _ _ Ef Ha) as (A1 & B1 & _).
        apply IH; [exact A1|]. rewrite B1. exact Hir.
  Qed.

  (* the only error the loop can raise from a consistent state is KeyError:
     the ValueError / TypeError branches of compose_gates are unreachable *)
  Lemma merge_loop_err_key ir : forall (a : accs) next out e,
    accs_on 0 a -> merge_loop N a next ir out = Err e -> e = EKey.
  Proof.
    induction ir as [|s ir IH]; intros a next out e Ha H.
    - discriminate.
    - destruct (stmt_cases s) as [(t & ->)|[(o & q & ax & an & ph & gi & ->)|Hb]].
      + rewrite merge_loop_comment in H. eapply IH; eauto.
      + rewrite merge_loop_rot in H.
        destruct (acc_get a q) as [x|] eqn:E; [|congruence].
        pose proof (acc_get_some _ _ _ E) as Hr.
        assert (Hst : bsr_on q (fst (BSR q ax an ph, gi))) by (do 3 eexists; reflexivity).
        destruct (compose_gates_ok _ _ _ Hst (acc_get_on _ _ _ Ha E)) as (y & Ey & Hy).
        rewrite Ey in H. eapply IH; [|exact H].
        apply accs_on_set; [exact Ha|]. cbn [Nat.add]. rewrite Z2Nat.id by lia. exact Hy.
      + rewrite (merge_loop_barrier _ _ _ _ _ Hb) in H.
        destruct (flush N a next (stmt_qubits s) out) as [[[a1 next1] out1]|e1] eqn:Ef.
        * destruct (flush_struct _ _ _ _ _ _ _ Ef Ha) as (A1 & _). eapply IH; eauto.
        * inversion H; subst. eapply flush_err_key; eauto.
  Qed.

  Theorem merge_total n ir : Forall (wf_stmt n) ir -> exists ir', merge N n ir = Ok ir'.
  Proof.
    intros H. unfold merge. fold (acc0 n).
    destruct (merge_loop_total ir (acc0 n) (Pos.succ (max_oid ir)) [] (acc0_on n)) as ([[a next] out] & E).
    - rewrite acc0_length. eapply Forall_impl; [|exact H]. intros s. apply wf_len_stmt.
    - rewrite E. eexists; reflexivity.
  Qed.

  Theorem merge_ok_wf n ir ir' : merge N n ir = Ok ir' -> Forall (wf_stmt n) ir.
  Proof.
    intros H. destruct (merge_shape _ _ _ H) as (_ & _ & _ & _ & _ & _ & F).
    eapply Forall_impl; [|exact F]. intros s. apply wf_len_stmt.
  Qed.

  Theorem merge_ok_iff_wf n ir : (exists ir', merge N n ir = Ok ir') <-> Forall (wf_stmt n) ir.
  Proof. split; [intros (ir' & H); eapply merge_ok_wf; eauto|apply merge_total]. Qed.

  Theorem merge_err_only_key n ir e : merge N n ir = Err e -> e = EKey.
  Proof.
    unfold merge. fold (acc0 n).
    destruct (merge_loop N (acc0 n) (Pos.succ (max_oid ir)) ir []) as [[[a next] out]|e1] eqn:E; [discriminate|].
    intros H. inversion H; subst. eapply merge_loop_err_key; [apply acc0_on|exact E].
  Qed.

  (* any statement (rotation or barrier) with a qubit outside 0..n-1 makes the
     pass raise KeyError — whatever precedes or follows it *)
  Theorem merge_key_error n pre s post :
    ~ wf_stmt n s -> merge N n (pre ++ s :: post)%list = Err EKey.
  Proof.
    intros Hs. destruct (merge N n (pre ++ s :: post)%list) as [ir'|e] eqn:E.
    - exfalso. apply Hs. pose proof (merge_ok_wf _ _ _ E) as F.
      rewrite Forall_forall in F. apply F. apply in_or_app. right; left; reflexivity.
    - f_equal. eapply merge_err_only_key; eauto.
  Qed.

  Theorem merge_key_error_iff n ir : merge N n ir = Err EKey <-> ~ Forall (wf_stmt n) ir.
  Proof.
    split.
    - intros E F. destruct (merge_total n ir F) as (ir' & E'). congruence.
    - intros F. destruct (merge N n ir) as [ir'|e] eqn:E.
      + exfalso. apply F. eapply merge_ok_wf; eauto.
      + f_equal. eapply merge_err_only_key; eauto.
  Qed.

  (* ------------------------------------------------------------------ *)
  (* 5. Per-qubit reference machine and exact per-qubit characterisation  *)
  (* ------------------------------------------------------------------ *)
  (* What qubit q sees of a statement list: rotations on q (gate and
     generator description, the object identity is dropped) and barriers
     touching q (the statement itself, with its object identity). *)
  Inductive qevent := ERot (x : gate * ginfo) | EBar (s : stmt).

  Definition qev (q : Z) (s : stmt) : option qevent :=
    match s with
    | SComment _ => None
    | SGate _ (BSR q' ax an ph) gi => if Z.eqb q' q then Some (ERot (BSR q' ax an ph, gi)) else None
    | _ => if zmem q (stmt_qubits s) then Some (EBar s) else None
    end.

  Fixpoint qproj (q : Z) (l : list stmt) : list qevent :=
    match l with
    | [] => []
    | s :: l' => match qev q s with Some e => e :: qproj q l' | None => qproj q l' end
    end.

  Lemma qproj_app q l1 l2 : qproj q (l1 ++ l2) = (qproj q l1 ++ qproj q l2)%list.
  Proof.
    induction l1 as [|s l1 IH]; [reflexivity|]. cbn [app qproj].
    destruct (qev q s); [cbn [app]; f_equal; exact IH|exact IH].
  Qed.

  Definition bar_ev (q : Z) (s : stmt) : list qevent := if zmem q (stmt_qubits s) then [EBar s] else [].

  Lemma qproj_barrier q s : is_barrier s = true -> qproj q [s] = bar_ev q s.
  Proof.
    unfold bar_ev.
    destruct s as [o [q0 ax an ph|c g|m ops] gi|o q0 b ax gi|o q0 gi|t]; cbn [is_barrier is_bsr_stmt is_comment negb andb];
      intros H; try discriminate; cbn [qproj qev];
      match goal with |- context [zmem ?a ?b] => destruct (zmem a b) end; reflexivity.
  Qed.

  Lemma qev_emit q q' o (x : G) :
    bsr_on q' (fst x) -> qev q (SGate o (fst x) (snd x)) = if Z.eqb q' q then Some (ERot x) else None.
  Proof. destruct x as [g gi]. intros (ax & an & ph & E). cbn [fst snd] in *. subst g. reflexivity. Qed.

  (* compose, made total (the error branch is unreachable, see compose_gates_ok) *)
  Definition compose_tot (s x : G) : G := match compose_gates N s x with Ok y => y | Err _ => x end.

  (* The single-qubit reference machine for qubit q, state = accumulator cur.
     qflush: the barrier's operand list is scanned; at each occurrence of q the
     accumulator is emitted and reset to [ident q] iff it is not the identity.
     NOTE the accumulator is NOT reset when [is_identity] holds: an accumulator
     that is an identity within tolerance is carried across the barrier. *)
  Fixpoint qflush (q : Z) (cur : G) (qs : list Z) : list G * G :=
    match qs with
    | [] => ([], cur)
    | q' :: qs' =>
        if Z.eqb q' q then
          if is_identity N (fst cur) then qflush q cur qs'
          else (cur :: fst (qflush q (ident N q) qs'), snd (qflush q (ident N q) qs'))
        else qflush q cur qs'
    end.

  Fixpoint qloop (q : Z) (cur : G) (ir : list stmt) : list qevent * G :=
    match ir with
    | [] => ([], cur)
    | SComment _ :: rest => qloop q cur rest
    | SGate o (BSR q' ax an ph) gi :: rest =>
        qloop q (if Z.eqb q' q then compose_tot (BSR q' ax an ph, gi) cur else cur) rest
    | s :: rest =>
        (map ERot (fst (qflush q cur (stmt_qubits s))) ++ bar_ev q s ++
           fst (qloop q (snd (qflush q cur (stmt_qubits s))) rest),
         snd (qloop q (snd (qflush q cur (stmt_qubits s))) rest))%list
    end.

  Lemma qloop_barrier q cur s rest :
    is_barrier s = true ->
    qloop q cur (s :: rest) =
      ((map ERot (fst (qflush q cur (stmt_qubits s))) ++ bar_ev q s ++
           fst (qloop q (snd (qflush q cur (stmt_qubits s))) rest))%list,
       snd (qloop q (snd (qflush q cur (stmt_qubits s))) rest)).
  Proof.
    destruct s as [o [q0 ax an ph|c g|m ops] gi|o q0 b ax gi|o q0 gi|t]; cbn [is_barrier is_bsr_stmt is_comment negb andb];
      intros H; try discriminate; reflexivity.
  Qed.

  (* what the final flush appends for qubit q *)
  Definition qfinal (x : G) : list qevent := if is_identity N (fst x) then [] else [ERot (fname x)].

  Lemma flush_q qs : forall (a : accs) next out a' next' out' q cur,
    flush N a next qs out = Ok (a', next', out') -> accs_on 0 a -> acc_get a q = Some cur ->
    acc_get a' q = Some (snd (qflush q cur qs)) /\
    qproj q (rev out') = (qproj q (rev out) ++ map ERot (fst (qflush q cur qs)))%list.
  Proof.
    induction qs as [|q' qs IH]; intros a next out a' next' out' q cur H Ha Hq; cbn [flush] in H; cbn [qflush].
    - inversion H; subst. cbn [fst snd map]. rewrite app_nil_r. split; [exact Hq|reflexivity].
    - destruct (acc_get a q') as [x|] eqn:E; [|discriminate].
      pose proof (acc_get_some _ _ _ E) as Hr. pose proof (acc_get_on _ _ _ Ha E) as Hx.
      assert (Ha2 : accs_on 0 (acc_set a (Z.to_nat q') (ident N q'))).
      { apply accs_on_set; [exact Ha|]. cbn [Nat.add]. rewrite Z2Nat.id by lia. apply ident_on. }
      destruct (Z.eqb_spec q' q) as [->|Hne].
      + assert (x = cur) by congruence. subst x.
        destruct (is_identity N (fst cur)) eqn:Ei.
        * eapply IH; eauto.
        * destruct (IH _ _ _ _ _ _ q (ident N q) H Ha2 (acc_get_set_same _ _ _ _ Hq)) as [A B].
          cbn [fst snd map]. split; [exact A|]. rewrite B. cbn [rev]. rewrite qproj_app.
          cbn [qproj]. rewrite (qev_emit q q next cur Hx), Z.eqb_refl. rewrite <- app_assoc. reflexivity.
      + destruct (is_identity N (fst x)) eqn:Ei.
        * eapply IH; eauto.
        * assert (Hq2 : acc_get (acc_set a (Z.to_nat q') (ident N q')) q = Some cur).
          { rewrite acc_get_set_other; [exact Hq|lia|congruence]. }
          destruct (IH _ _ _ _ _ _ q cur H Ha2 Hq2) as [A B].
          split; [exact A|]. rewrite B. cbn [rev]. rewrite qproj_app. cbn [qproj].
          rewrite (qev_emit q q' next x Hx). destruct (Z.eqb_spec q' q); [contradiction|].
          rewrite app_nil_r. reflexivity.
  Qed.

  Lemma merge_loop_q ir : forall (a : accs) next out a' next' out' q cur,
    merge_loop N a next ir out = Ok (a', next', out') -> accs_on 0 a -> acc_get a q = Some cur ->
    acc_get a' q = Some (snd (qloop q cur ir)) /\
    qproj q (rev out') = (qproj q (rev out) ++ fst (qloop q cur ir))%list.
  Proof.
    induction ir as [|s ir IH]; intros a next out a' next' out' q cur H Ha Hq.
    - cbn in H. inversion H; subst. cbn [qloop fst snd]. rewrite app_nil_r. split; [exact Hq|reflexivity].
    - destruct (stmt_cases s) as [(t & ->)|[(o & q' & ax & an & ph & gi & ->)|Hb]].
      + rewrite merge_loop_comment in H. cbn [qloop].
        destruct (IH _ _ _ _ _ _ q cur H Ha Hq) as [A B]. split; [exact A|].
        rewrite B. cbn [rev]. rewrite qproj_app. cbn [qproj qev]. rewrite app_nil_r. reflexivity.
      + rewrite merge_loop_rot in H. cbn [qloop].
        destruct (acc_get a q') as [x|] eqn:E; [|discriminate].
        destruct (compose_gates N (BSR q' ax an ph, gi) x) as [y|e] eqn:Ec; [|discriminate].
        pose proof (acc_get_some _ _ _ E) as Hr.
        assert (Hs : bsr_on q' (fst (BSR q' ax an ph, gi))) by (do 3 eexists; reflexivity).
        destruct (compose_gates_on _ _ _ _ Hs Ec) as [Hy _].
        assert (Ha2 : accs_on 0 (acc_set a (Z.to_nat q') y)).
        { apply accs_on_set; [exact Ha|]. cbn [Nat.add]. rewrite Z2Nat.id by lia. exact Hy. }
        destruct (Z.eqb_spec q' q) as [->|Hne].
        * assert (x = cur) by congruence. subst x.
          assert (Ey : compose_tot (BSR q ax an ph, gi) cur = y) by (unfold compose_tot; rewrite Ec; reflexivity).
          rewrite Ey. eapply IH; eauto. eapply acc_get_set_same; eauto.
        * eapply IH; eauto. rewrite acc_get_set_other; [exact Hq|lia|congruence].
      + rewrite (merge_loop_barrier _ _ _ _ _ Hb) in H. rewrite (qloop_barrier _ _ _ _ Hb). cbn [fst snd].
        destruct (flush N a next (stmt_qubits s) out) as [[[a1 next1] out1]|e] eqn:Ef; [|discriminate].
        destruct (flush_struct _ _ _ _ _ _ _ Ef Ha) as (A1 & _).
        destruct (flush_q _ _ _ _ _ _ _ q cur Ef Ha Hq) as [Q1 Q2].
        destruct (IH _ _ _ _ _ _ q _ H A1 Q1) as [A B]. split; [exact A|].
        rewrite B. cbn [rev]. rewrite qproj_app, Q2, (qproj_barrier _ _ Hb).
        rewrite <- !app_assoc. reflexivity.
  Qed.

  Lemma final_list_q_none (a : accs) : forall k next q,
    accs_on k a -> (forall i, (i < length a)%nat -> Z.of_nat (k + i) <> q) ->
    qproj q (final_list a next) = [].
  Proof.
    induction a as [|x a IH]; intros k next q Ha Hne; cbn [final_list]; [reflexivity|].
    destruct Ha as [Hx Ha].
    assert (Hrec : forall nx, qproj q (final_list a nx) = []).
    { intros nx. apply (IH (S k)); [exact Ha|]. intros i Hi.
      replace (S k + i)%nat with (k + S i)%nat by lia. apply Hne. cbn [length]. lia. }
    destruct (is_identity N (fst x)); [apply Hrec|].
    cbn [qproj]. rewrite (qev_emit q (Z.of_nat k) next (fname x) (fname_on _ _ Hx)).
    destruct (Z.eqb_spec (Z.of_nat k) q) as [Heq|_]; [|apply Hrec].
    exfalso. apply (Hne 0%nat); [cbn [length]; lia|]. rewrite Nat.add_0_r. exact Heq.
  Qed.

  Lemma final_list_q_some (a : accs) : forall k next i x,
    accs_on k a -> nth_error a i = Some x ->
    qproj (Z.of_nat (k + i)) (final_list a next) = qfinal x.
  Proof.
    induction a as [|y a IH]; intros k next i x Ha E; [destruct i; discriminate|].
    destruct Ha as [Hy Ha]. cbn [final_list]. destruct i as [|i]; cbn [nth_error] in E.
    - inversion E; subst y. rewrite Nat.add_0_r. unfold qfinal.
      assert (Hrec : forall nx, qproj (Z.of_nat k) (final_list a nx) = []).
      { intros nx. apply (final_list_q_none a (S k)); [exact Ha|]. intros j _. lia. }
      destruct (is_identity N (fst x)); [apply Hrec|].
      cbn [qproj]. rewrite (qev_emit (Z.of_nat k) (Z.of_nat k) next (fname x) (fname_on _ _ Hy)).
      rewrite Z.eqb_refl, Hrec. reflexivity.
    - replace (k + S i)%nat with (S k + i)%nat by lia.
      destruct (is_identity N (fst y)); [apply IH; assumption|].
      cbn [qproj]. rewrite (qev_emit (Z.of_nat (S k + i)) (Z.of_nat k) next (fname y) (fname_on _ _ Hy)).
      destruct (Z.eqb_spec (Z.of_nat k) (Z.of_nat (S k + i))); [lia|]. apply IH; assumption.
  Qed.

  (* Exact per-qubit characterisation of the pass: what qubit q sees of the
     output is what the single-qubit machine produces from the input, started
     in [ident q], followed by the final emission of its accumulator. *)
  Theorem merge_per_qubit n ir ir' q :
    merge N n ir = Ok ir' -> 0 <= q < n ->
    qproj q ir' = (fst (qloop q (ident N q) ir) ++ qfinal (snd (qloop q (ident N q) ir)))%list.
  Proof.
    intros H Hq. destruct (merge_unfold _ _ _ H) as (a & next & out & E & ->).
    destruct (merge_loop_q _ _ _ _ _ _ _ q (ident N q) E (acc0_on n) (acc0_get n q Hq)) as [A B].
    pose proof (merge_loop_accs_on _ _ _ _ _ _ _ E (acc0_on n)) as Ha.
    rewrite qproj_app, B. cbn [rev qproj app]. f_equal.
    pose proof (acc_get_some _ _ _ A) as Hr.
    unfold acc_get in A. destruct (Z.ltb_spec q 0); [lia|].
    pose proof (final_list_q_some a 0 next _ _ Ha A) as F. cbn [Nat.add] in F.
    rewrite Z2Nat.id in F by lia. exact F.
  Qed.

  (* The loop invariant in isolation (the weaker statement asked for): after
     processing a prefix, accumulator q is the state of the single-qubit machine. *)
  Theorem merge_loop_acc_invariant n pre (a : accs) next0 next out q :
    merge_loop N (acc0 n) next0 pre [] = Ok (a, next, out) -> 0 <= q < n ->
    acc_get a q = Some (snd (qloop q (ident N q) pre)).
  Proof.
    intros H Hq. apply (merge_loop_q _ _ _ _ _ _ _ q (ident N q) H (acc0_on n) (acc0_get n q Hq)).
  Qed.

  (* Reading of the machine on segments.  (a) Over a stretch without barrier
     touching q the accumulator is the fold of compose (statement first,
     accumulator second) over the rotations on q. *)
  Definition qstep (q : Z) (cur : G) (s : stmt) : G :=
    match s with
    | SGate _ (BSR q' ax an ph) gi => if Z.eqb q' q then compose_tot (BSR q' ax an ph, gi) cur else cur
    | _ => cur
    end.

  Lemma qflush_notin q cur qs : zmem q qs = false -> qflush q cur qs = ([], cur).
  Proof.
    induction qs as [|q' qs IH]; intros H; cbn [qflush]; [reflexivity|].
    cbn [zmem] in H. apply orb_false_iff in H. destruct H as [H1 H2].
    rewrite Z.eqb_sym, H1. apply IH. exact H2.
  Qed.

  Lemma qloop_segment q seg : forall cur rest,
    forallb (fun s => negb (bar_on q s)) seg = true ->
    qloop q cur (seg ++ rest) = qloop q (fold_left (qstep q) seg cur) rest.
  Proof.
    induction seg as [|s seg IH]; intros cur rest H; [reflexivity|].
    cbn [forallb] in H. apply andb_prop in H. destruct H as [Hs H].
    cbn [app fold_left].
    destruct (stmt_cases s) as [(t & ->)|[(o & q' & ax & an & ph & gi & ->)|Hb]].
    - cbn [qloop qstep]. apply IH. exact H.
    - cbn [qloop qstep]. apply IH. exact H.
    - rewrite (qloop_barrier _ _ _ _ Hb).
      unfold bar_on in Hs. rewrite Hb in Hs. cbn [andb] in Hs. apply negb_true_iff in Hs.
      rewrite (qflush_notin _ _ _ Hs). unfold bar_ev. rewrite Hs. cbn [fst snd map app].
      assert (Eq : qstep q cur s = cur).
      { destruct s as [o [q0 ax an ph|c g|m ops] gi|o q0 b ax gi|o q0 gi|t]; try reflexivity. discriminate. }
      rewrite Eq. rewrite <- IH by exact H. destruct (qloop q cur (seg ++ rest)); reflexivity.
  Qed.

  (* (b) At a barrier b touching q exactly once: a non-identity accumulator is
     emitted just before b and the machine restarts from [ident q]; an identity
     accumulator is NOT emitted and is CARRIED OVER (not reset). *)
  Lemma qflush_once q cur qs :
    zmem q qs = true -> NoDup qs ->
    qflush q cur qs = if is_identity N (fst cur) then ([], cur) else ([cur], ident N q).
  Proof.
    induction qs as [|q' qs IH]; intros H Hnd; cbn [zmem] in H; [discriminate|].
    inversion Hnd as [|? ? Hnin Hnd']; subst. cbn [qflush].
    destruct (Z.eqb_spec q' q) as [->|Hne].
    - assert (Hz : zmem q qs = false).
      { destruct (zmem q qs) eqn:Ez; [|reflexivity]. exfalso. apply Hnin.
        clear -Ez. induction qs as [|z qs IH]; cbn [zmem] in Ez; [discriminate|].
        apply orb_prop in Ez. destruct Ez as [Ez|Ez]; [left; symmetry; apply Z.eqb_eq; exact Ez|right; auto]. }
      rewrite !(qflush_notin _ _ _ Hz). destruct (is_identity N (fst cur)); reflexivity.
    - apply IH; [|exact Hnd']. destruct (Z.eqb_spec q q'); [congruence|exact H].
  Qed.

  Lemma qloop_at_barrier q cur b rest :
    bar_on q b = true -> NoDup (stmt_qubits b) ->
    qloop q cur (b :: rest) =
      if is_identity N (fst cur)
      then (EBar b :: fst (qloop q cur rest), snd (qloop q cur rest))
      else (ERot cur :: EBar b :: fst (qloop q (ident N q) rest), snd (qloop q (ident N q) rest)).
  Proof.
    unfold bar_on. intros H Hnd. apply andb_prop in H. destruct H as [Hb Hz].
    rewrite (qloop_barrier _ _ _ _ Hb), (qflush_once _ _ _ Hz Hnd). unfold bar_ev. rewrite Hz.
    destruct (is_identity N (fst cur)); reflexivity.
  Qed.

  (* barriers touching q: same statements, same order, in input and output *)
  Lemma filter_bar_nonrot q l : filter (bar_on q) l = filter (bar_on q) (filter nonrot l).
  Proof.
    induction l as [|s l IH]; [reflexivity|]. cbn [filter].
    destruct (nonrot s) eqn:En; cbn [filter]; [rewrite IH; reflexivity|].
    assert (Eb : bar_on q s = false).
    { unfold bar_on, is_barrier. unfold nonrot in En. rewrite En. reflexivity. }
    rewrite Eb. exact IH.
  Qed.

  Theorem merge_keeps_barrier_order n ir ir' q :
    merge N n ir = Ok ir' -> filter (bar_on q) ir' = filter (bar_on q) ir.
  Proof.
    intros H. rewrite (filter_bar_nonrot q ir'), (filter_bar_nonrot q ir).
    pose proof (merge_keeps_others _ _ _ H) as E. unfold nonrot. rewrite E. reflexivity.
  Qed.

  Lemma qloop_app q l1 : forall cur l2,
    qloop q cur (l1 ++ l2) =
      ((fst (qloop q cur l1) ++ fst (qloop q (snd (qloop q cur l1)) l2))%list,
       snd (qloop q (snd (qloop q cur l1)) l2)).
  Proof.
    induction l1 as [|s l1 IH]; intros cur l2.
    - cbn [app qloop fst snd]. destruct (qloop q cur l2); reflexivity.
    - cbn [app]. destruct (stmt_cases s) as [(t & ->)|[(o & q' & ax & an & ph & gi & ->)|Hb]].
      + cbn [qloop]. apply IH.
      + cbn [qloop]. apply IH.
      + rewrite !(qloop_barrier _ _ _ _ Hb). cbn [fst snd]. rewrite IH. cbn [fst snd].
        rewrite <- !app_assoc. reflexivity.
  Qed.

  (* 5, segment form.  Input = pre ++ seg ++ b :: rest where b is a barrier
     touching q (once) and seg contains no barrier touching q.  With c0 the
     machine state after pre and cur = fold of compose over the rotations on q
     of seg starting from c0: if cur is not the identity it is emitted
     immediately before b and the machine restarts from [ident q]; otherwise
     nothing is emitted and cur is carried across b.
     The requested statement ("the rotation emitted before b is the composition
     of exactly the rotations between the previous barrier touching q and b,
     starting from ident q") is the special case c0 = ident q, which holds when
     pre is empty or when the previous barrier touching q emitted
     ([qloop_restart_after_emission]); it FAILS in general when the accumulator
     at the previous barrier was an identity within tolerance, because that
     accumulator is not reset (see merge_rotations_do_not_cross_barriers_refuted
     after the section). *)
  Theorem merge_rotations_do_not_cross_barriers_partial n pre seg b rest ir' q :
    merge N n (pre ++ seg ++ b :: rest)%list = Ok ir' -> 0 <= q < n ->
    bar_on q b = true -> NoDup (stmt_qubits b) ->
    forallb (fun s => negb (bar_on q s)) seg = true ->
    let c0 := snd (qloop q (ident N q) pre) in
    let cur := fold_left (qstep q) seg c0 in
    let tail c := (fst (qloop q c rest) ++ qfinal (snd (qloop q c rest)))%list in
    qproj q ir' =
      (fst (qloop q (ident N q) pre) ++
       (if is_identity N (fst cur) then EBar b :: tail cur
        else ERot cur :: EBar b :: tail (ident N q)))%list.
  Proof.
    intros H Hq Hb Hnd Hseg c0 cur tail.
    rewrite (merge_per_qubit _ _ _ _ H Hq).
    rewrite qloop_app. cbn [fst snd]. fold c0.
    rewrite (qloop_segment _ _ c0 (b :: rest) Hseg). fold cur.
    rewrite (qloop_at_barrier _ cur _ rest Hb Hnd).
    unfold tail. destruct (is_identity N (fst cur)); cbn [fst snd]; rewrite <- app_assoc; reflexivity.
  Qed.

  Lemma qloop_restart_after_emission q cur b :
    bar_on q b = true -> NoDup (stmt_qubits b) -> is_identity N (fst cur) = false ->
    qloop q cur [b] = ([ERot cur; EBar b], ident N q).
  Proof.
    intros Hb Hnd Hi. rewrite (qloop_at_barrier _ _ _ _ Hb Hnd), Hi. reflexivity.
  Qed.

  (* ------------------------------------------------------------------ *)
  (* 4. Normal form                                                       *)
  (* ------------------------------------------------------------------ *)
  (* Formalisation.  [nf] describes the admissible per-qubit event sequences:
     a concatenation of blocks [EBar] or [ERot; EBar], optionally closed by a
     single [ERot] — i.e. never two rotations on q without a barrier touching
     q in between.  [qloop_nf] shows the reference machine only produces such
     sequences, [merge_per_qubit] transfers this to the real output, and
     [merge_normal_form] restates it in list-decomposition form.
     A hypothesis is needed: flushing q twice for one barrier (operand list
     with q repeated) would emit [x; ident q] when [ident q] does not pass
     [is_identity].  So we assume EITHER that [ident q] is an identity for
     [is_identity] (a numeric fact about N), OR that operand lists have no
     repetition (what the constructors mk_ctrl / mk_mat enforce). *)
  Inductive nf : list qevent -> Prop :=
  | nf_nil : nf []
  | nf_rot_end x : nf [ERot x]
  | nf_bar s l : nf l -> nf (EBar s :: l)
  | nf_rot_bar x s l : nf l -> nf (ERot x :: EBar s :: l).

  Lemma zmem_in q qs : zmem q qs = true -> In q qs.
  Proof.
    induction qs as [|z qs IH]; cbn [zmem]; intros H; [discriminate|].
    apply orb_prop in H. destruct H as [H|H]; [left; symmetry; apply Z.eqb_eq; exact H|right; auto].
  Qed.

  Lemma qflush_id q cur qs : is_identity N (fst cur) = true -> qflush q cur qs = ([], cur).
  Proof.
    intros H. induction qs as [|q' qs IH]; cbn [qflush]; [reflexivity|].
    rewrite H. destruct (Z.eqb q' q); exact IH.
  Qed.

  Lemma qflush_shape q qs : forall cur,
    (is_identity N (fst (ident N q)) = true \/ NoDup qs) ->
    fst (qflush q cur qs) = [] \/ (fst (qflush q cur qs) = [cur] /\ zmem q qs = true).
  Proof.
    induction qs as [|q' qs IH]; intros cur H; cbn [qflush]; [left; reflexivity|].
    assert (H' : is_identity N (fst (ident N q)) = true \/ NoDup qs).
    { destruct H as [H|H]; [left; exact H|right; inversion H; assumption]. }
    destruct (Z.eqb_spec q' q) as [->|Hne].
    - assert (Hz : zmem q (q :: qs) = true) by (cbn [zmem]; rewrite Z.eqb_refl; reflexivity).
      destruct (is_identity N (fst cur)) eqn:Ei.
      + destruct (IH cur H') as [E|[E _]]; [left; exact E|right; split; assumption].
      + right. split; [|exact Hz]. cbn [fst]. f_equal.
        destruct H as [H|H].
        * rewrite (qflush_id _ _ _ H). reflexivity.
        * inversion H as [|? ? Hnin _]; subst.
          destruct (zmem q qs) eqn:Ez; [exfalso; apply Hnin, zmem_in, Ez|].
          rewrite (qflush_notin _ _ _ Ez). reflexivity.
    - destruct (IH cur H') as [E|[E Ez]]; [left; exact E|right; split; [exact E|]].
      cbn [zmem]. rewrite Ez. apply orb_true_r.
  Qed.

  Lemma qfinal_nf x : nf (qfinal x).
  Proof. unfold qfinal. destruct (is_identity N (fst x)); constructor. Qed.

  Lemma qloop_nf q ir : forall cur,
    (is_identity N (fst (ident N q)) = true \/ Forall (fun s => NoDup (stmt_qubits s)) ir) ->
    nf (fst (qloop q cur ir) ++ qfinal (snd (qloop q cur ir)))%list.
  Proof.
    induction ir as [|s ir IH]; intros cur H.
    - cbn [qloop fst snd app]. apply qfinal_nf.
    - assert (H' : is_identity N (fst (ident N q)) = true \/ Forall (fun s => NoDup (stmt_qubits s)) ir).
      { destruct H as [H|H]; [left; exact H|right; inversion H; assumption]. }
      assert (Hs : is_identity N (fst (ident N q)) = true \/ NoDup (stmt_qubits s)).
      { destruct H as [H|H]; [left; exact H|right; inversion H; assumption]. }
      destruct (stmt_cases s) as [(t & ->)|[(o & q' & ax & an & ph & gi & ->)|Hb]].
      + cbn [qloop]. apply IH. exact H'.
      + cbn [qloop]. apply IH. exact H'.
      + rewrite (qloop_barrier _ _ _ _ Hb). cbn [fst snd]. rewrite <- !app_assoc.
        pose proof (IH (snd (qflush q cur (stmt_qubits s))) H') as Hrec.
        unfold bar_ev.
        destruct (qflush_shape q (stmt_qubits s) cur Hs) as [E|[E Ez]]; rewrite E; cbn [map app].
        * destruct (zmem q (stmt_qubits s)); cbn [app]; [apply nf_bar|]; exact Hrec.
        * rewrite Ez. cbn [app]. apply nf_rot_bar. exact Hrec.
  Qed.

  Lemma nf_no_adj l : nf l -> forall p1 a b p3, l <> (p1 ++ ERot a :: ERot b :: p3)%list.
  Proof.
    induction 1 as [|x|s l Hl IH|x s l Hl IH]; intros p1 a b p3 E.
    - destruct p1; discriminate.
    - destruct p1 as [|e [|e' p1]]; discriminate.
    - destruct p1 as [|e p1]; [discriminate|]. cbn [app] in E. inversion E; subst. eapply IH; reflexivity.
    - destruct p1 as [|e [|e' p1]]; cbn [app] in E; try discriminate.
      inversion E; subst. eapply IH; reflexivity.
  Qed.

  Lemma qev_rot q r : rot_on q r = true -> exists x, qev q r = Some (ERot x).
  Proof.
    destruct r as [o [q0 ax an ph|c g|m ops] gi|o q0 b ax gi|o q0 gi|t]; cbn [rot_on]; try discriminate.
    intros H. cbn [qev]. rewrite H. eexists; reflexivity.
  Qed.

  Lemma qproj_norot q l : existsb (bar_on q) l = false -> exists xs, qproj q l = map ERot xs.
  Proof.
    induction l as [|s l IH]; intros H; [exists []; reflexivity|].
    cbn [existsb] in H. apply orb_false_iff in H. destruct H as [Hs H].
    destruct (IH H) as (xs & E). cbn [qproj]. rewrite E.
    destruct s as [o [q0 ax an ph|c g|m ops] gi|o q0 b ax gi|o q0 gi|t]; cbn [qev];
      unfold bar_on in Hs; cbn [is_barrier is_bsr_stmt is_comment negb andb] in Hs;
      try (rewrite Hs; exists xs; reflexivity).
    - destruct (Z.eqb q0 q); [eexists (_ :: xs); reflexivity|exists xs; reflexivity].
    - exists xs; reflexivity.
  Qed.

  Theorem merge_normal_form n ir ir' :
    ((forall q, is_identity N (fst (ident N q)) = true) \/ Forall (fun s => NoDup (stmt_qubits s)) ir) ->
    merge N n ir = Ok ir' ->
    forall q l1 r1 l2 r2 l3,
      ir' = (l1 ++ r1 :: l2 ++ r2 :: l3)%list -> rot_on q r1 = true -> rot_on q r2 = true ->
      exists b, In b l2 /\ bar_on q b = true.
  Proof.
    intros Hyp H q l1 r1 l2 r2 l3 E R1 R2.
    destruct (existsb (bar_on q) l2) eqn:Ex; [apply existsb_exists in Ex; exact Ex|exfalso].
    assert (Hq : 0 <= q < n).
    { apply (merge_output_rotations_on_own_qubit n ir ir' r1 q H); [|exact R1].
      rewrite E. apply in_or_app. right; left; reflexivity. }
    assert (Hnf : nf (qproj q ir')).
    { rewrite (merge_per_qubit _ _ _ _ H Hq). apply qloop_nf.
      destruct Hyp as [Hy|Hy]; [left; apply Hy|right; exact Hy]. }
    destruct (qev_rot _ _ R1) as (x1 & E1). destruct (qev_rot _ _ R2) as (x2 & E2).
    destruct (qproj_norot _ _ Ex) as (xs & Exs).
    assert (Ep : qproj q ir' = (qproj q l1 ++ ERot x1 :: map ERot xs ++ ERot x2 :: qproj q l3)%list).
    { rewrite E, qproj_app. cbn [qproj]. rewrite E1, qproj_app. cbn [qproj]. rewrite E2, Exs. reflexivity. }
    destruct xs as [|x xs]; cbn [map app] in Ep; eapply (nf_no_adj _ Hnf); exact Ep.
  Qed.

  (* the per-qubit form of the same fact *)
  Theorem merge_normal_form_events n ir ir' q :
    ((forall q, is_identity N (fst (ident N q)) = true) \/ Forall (fun s => NoDup (stmt_qubits s)) ir) ->
    merge N n ir = Ok ir' -> 0 <= q < n -> nf (qproj q ir').
  Proof.
    intros Hyp H Hq. rewrite (merge_per_qubit _ _ _ _ H Hq). apply qloop_nf.
    destruct Hyp as [Hy|Hy]; [left; apply Hy|right; exact Hy].
  Qed.

End MergeP.

(* ---------------------------------------------------------------------- *)
(* Witnesses showing that the hypotheses / corrections above are needed     *)
(* ---------------------------------------------------------------------- *)

(* a degenerate dictionary on [unit]; [lt] is the constant value of nltb *)
Definition unitNum (lt : bool) : Num unit :=
  mkNum unit (fun _ => tt) (fun _ _ => tt) (fun _ _ => tt) (fun _ _ => tt) (fun _ _ => tt)
    (fun _ => tt) (fun _ => tt) (fun _ => tt) (fun _ => tt) (fun _ => tt) (fun _ => tt) (fun _ => tt)
    (fun _ _ => tt) tt (fun _ _ => tt) (fun _ _ => tt)
    (fun _ _ => lt) (fun _ _ => true) (fun _ _ => true) (fun _ _ => tt) (fun _ _ => tt) (fun _ _ => tt)
    (fun _ => true) (fun _ => tt).

(* Without the hypothesis of [merge_normal_form] the normal form fails for
   some dictionary: with [ident q] not an identity and a barrier whose operand
   list repeats q, the flush emits two rotations on q in a row. *)
Theorem merge_normal_form_refuted_without_hypothesis :
  exists (T : Type) (N : Num T) n (ir ir' : list (stmt T)) q l1 r1 l2 r2 l3,
    merge N n ir = Ok ir' /\ ir' = (l1 ++ r1 :: l2 ++ r2 :: l3)%list /\
    rot_on q r1 = true /\ rot_on q r2 = true /\ forall b, In b l2 -> bar_on q b = false.
Proof.
  exists unit, (unitNum false), 1, [SGate 1%positive (Mat [] [0;0]) anon].
  eexists. exists 0, []. eexists. exists []. eexists. eexists.
  split; [vm_compute; reflexivity|]. split; [reflexivity|].
  split; [reflexivity|]. split; [reflexivity|]. intros b [].
Qed.

(* a toy dictionary on Z in which compose adds angles, [is_identity] means
   |angle| < 2 and |phase| < 2, and [ident q] is an identity *)
Definition toyNum : Num Z :=
  mkNum Z (fun z => if z =? 2 then 0 else if z =? 1 then 1000 else z)
    Z.add (fun x _ => x) Z.add (fun x y => if y =? 10000000 then 2 else x)
    Z.opp Z.abs (fun _ => 1) (fun _ => 5) (fun x => x) (fun x => x) (fun x => x)
    (fun x _ => x) 100000 (fun x _ => x) (fun x _ => x)
    Z.ltb Z.leb Z.eqb (fun x _ => x) (fun _ x => x) (fun _ x => x)
    (fun _ => true) (fun x => x).

(* The requested statement of 5 ("the rotation emitted before barrier b is the
   composition of exactly the input rotations on q between the previous
   barrier touching q and b, starting from ident q") is NOT a structural
   consequence of the algorithm: an accumulator that passes [is_identity] is
   neither emitted nor reset at a barrier, so it is carried across it.
   Witness: input [r1; b1; r2; b2] on one qubit; the output is
   [b1; x; b2] where x composes BOTH r1 (which stands before b1) and r2,
   whereas the rotations between b1 and b2 (r2 alone) compose to an identity,
   so that the requested statement predicts no emission at all.
   (For the real/float dictionary an accumulator returned by [compose] that
   passes [is_identity] is exactly [bsr_identity q] — a numeric fact outside
   the scope of this file — so there the carry-over is not observable except
   through the generator description.) *)
Theorem merge_rotations_do_not_cross_barriers_refuted :
  exists (N : Num Z) (g1 g2 : gate Z * ginfo Z) (b1 b2 : stmt Z) o,
    let r1 := SGate 1%positive (fst g1) (snd g1) in
    let r2 := SGate 3%positive (fst g2) (snd g2) in
    let x := compose_tot N g2 (compose_tot N g1 (ident N 0)) in
    rot_on 0 r1 = true /\ rot_on 0 r2 = true /\ bar_on 0 b1 = true /\ bar_on 0 b2 = true /\
    NoDup (stmt_qubits b1) /\ NoDup (stmt_qubits b2) /\
    is_identity N (fst (ident N 0)) = true /\
    merge N 1 [r1; b1; r2; b2] = Ok [b1; SGate o (fst x) (snd x); b2] /\
    is_identity N (fst (compose_tot N g2 (ident N 0))) = true /\
    x <> compose_tot N g2 (ident N 0).
Proof.
  exists toyNum, (BSR 0 (0,0,0) 1 0, anon), (BSR 0 (0,0,0) 1 0, anon),
         (SReset 2%positive 0 anon), (SReset 4%positive 0 anon), 5%positive.
  cbv zeta. repeat split; try (vm_compute; reflexivity).
  - constructor; [intros []|constructor].
  - constructor; [intros []|constructor].
  - intros H. vm_compute in H. discriminate H.
Qed.

(* ---------------------------------------------------------------------- *)
Print Assumptions merge_shape.
Print Assumptions merge_keeps_others.
Print Assumptions merge_loop_accs_on.
Print Assumptions flush_emits_on_operands.
Print Assumptions merge_output_rotations_on_own_qubit.
Print Assumptions try_name_spec.
Print Assumptions merge_no_identity_emitted.
Print Assumptions merge_normal_form.
Print Assumptions merge_normal_form_events.
Print Assumptions merge_normal_form_refuted_without_hypothesis.
Print Assumptions merge_per_qubit.
Print Assumptions merge_loop_acc_invariant.
Print Assumptions merge_rotations_do_not_cross_barriers_partial.
Print Assumptions merge_rotations_do_not_cross_barriers_refuted.
Print Assumptions merge_keeps_barrier_order.
Print Assumptions compose_gates_ok.
Print Assumptions merge_total.
Print Assumptions merge_ok_iff_wf.
Print Assumptions merge_err_only_key.
Print Assumptions merge_key_error.
Print Assumptions merge_key_error_iff.
