(* PassesP.v — property C05: ANY finite sequence of passes (decomposition,
   replacement, merging, mapping) keeps the circuit well-formed and coherent.

   Everything in the sections below is proved for ANY type T and ANY N : Num T
   (closed under the global context).  The one non-structural ingredient,
   needed only for the EXACT coherence of the merger, is isolated as the
   explicit hypothesis [compose_identity_exact] (part 3.5); the theorem that
   depends on it is named [merge_coherent_partial], the hypothesis is shown to
   be necessary by [merge_coherent_refuted], and part 6 proves what remains
   true without it ([passes_preserve_upto]).
     1  definitions: wf_stmt, wf_ir, coherent_qubits, named_from_table, coherent
     2  decompose / replace, on success and in the state left by a failure
     3  merge            4  remap
     5  run_pass, run_passes, passes_preserve (+ _wf, _restricted, _no_merge)
     6  coherence up to the rotation fields, unconditional *)
From Coq Require Import String ZArith List Bool Lia.
Import ListNotations.
From OSQ Require Import Num IR Construct DefaultTable Check ABA Merge McKay CNOTDec Decompose Remap.
From OSQ Require Import DecomposeP MergeP RemapP.
Local Open Scope Z_scope.

(* ------------------------------------------------------------------ *)
(** * 0. Small list facts                                               *)
(* ------------------------------------------------------------------ *)

Definition inj_on (f : Z -> Z) (l : list Z) : Prop :=
  forall x y, In x l -> In y l -> f x = f y -> x = y.

Lemma inj_on_incl f l1 l2 : incl l1 l2 -> inj_on f l2 -> inj_on f l1.
Proof. intros Hi H x y Hx Hy. apply H; auto. Qed.

Lemma NoDup_map_inj_on f (l : list Z) : inj_on f l -> NoDup l -> NoDup (map f l).
Proof.
  induction l as [|x l IH]; intros Hinj Hnd; cbn [map]; [constructor|].
  inversion Hnd as [|? ? Hx Hl]; subst. constructor.
  - intros Hin. apply in_map_iff in Hin. destruct Hin as [y [Hy Hyl]].
    assert (y = x) by (apply Hinj; [now right|now left|exact Hy]). subst. contradiction.
  - apply IH; [|exact Hl]. intros a b Ha Hb. apply Hinj; now right.
Qed.

Lemma znodup_map_inj_on f (l : list Z) : inj_on f l -> znodup l = true -> znodup (map f l) = true.
Proof. intros Hi H. apply znodup_NoDup. apply NoDup_map_inj_on; [exact Hi|]. now apply znodup_NoDup. Qed.

Lemma Forall_incl {A} (P : A -> Prop) (a b : list A) : incl a b -> Forall P b -> Forall P a.
Proof. intros Hi H. rewrite Forall_forall in *. auto. Qed.

Section PassesP.
  Context {T : Type} (N : Num T).
  Notation stmtT := (stmt T).
  Notation G := (gate T * ginfo T)%type.
  Notation decomposer := (gate T -> ginfo T -> result (list (ditem T))).

  (* ------------------------------------------------------------------ *)
  (** * 1. Definitions                                                    *)
  (* ------------------------------------------------------------------ *)

  (* all qubits of the statement in [0,nq), the bit of a measure in [0,nb),
     the operands of a gate pairwise distinct *)
  Definition wf_stmt (nq nb : Z) (s : stmtT) : Prop :=
    Forall (fun q => 0 <= q < nq) (stmt_qubits s) /\
    match s with
    | SGate _ g _ => znodup (gate_qubits g) = true
    | SMeasure _ _ b _ _ => 0 <= b < nb
    | _ => True
    end.
  Definition wf_ir (nq nb : Z) (ir : list stmtT) : Prop := Forall (wf_stmt nq nb) ir.

  (* a NAMED statement (captured arguments present): the qubit arguments are
     the semantic qubits, in order ([args_agree] of RemapP) *)
  Definition coherent_qubits (s : stmtT) : Prop := args_agree s.
  Definition qubits_coherent (ir : list stmtT) : Prop := Forall coherent_qubits ir.

  (* a named GATE statement: re-evaluating the generator on the captured
     arguments gives exactly the stored semantic fields *)
  Definition named_from_table (s : stmtT) : Prop :=
    match s with
    | SGate _ g gi =>
        match gname gi, gargs gi with
        | Some name, Some args => default_gate N name args = Ok (g, mkGinfo (Some name) (Some args))
        | _, _ => True
        end
    | _ => True
    end.
  Definition coherent (ir : list stmtT) : Prop := Forall named_from_table ir.

  Lemma named_from_table_iff o g gi :
    named_from_table (SGate o g gi) <->
    forall name args, gi = mkGinfo (Some name) (Some args) -> default_gate N name args = Ok (g, gi).
  Proof.
    destruct gi as [[name|] [args|]]; cbn [named_from_table gname gargs]; split; intros H;
      try exact I; try (intros ? ? E; discriminate E).
    - intros name' args' E; inversion E; subst; exact H.
    - apply H; reflexivity.
  Qed.

  (* the same properties for a (gate, description) pair, without identity *)
  Definition pair_named (x : G) : Prop := named_from_table (SGate 1%positive (fst x) (snd x)).
  Definition pair_agree (x : G) : Prop := args_agree (SGate 1%positive (fst x) (snd x)).

  Lemma pair_named_stmt x o : pair_named x <-> named_from_table (SGate o (fst x) (snd x)).
  Proof. reflexivity. Qed.

  Lemma pair_agree_stmt x o : pair_agree x <-> args_agree (SGate o (fst x) (snd x)).
  Proof. reflexivity. Qed.

  (** ** 1.1 Every default gate is well-formed and coherent by construction *)

  Lemma find_entry_name name tbl e : find_entry name tbl = Some e -> e_name e = name.
  Proof.
    induction tbl as [|e' tbl IH]; cbn [find_entry]; [discriminate|].
    destruct (String.eqb_spec (e_name e') name) as [E|_]; [intros H; inversion H; congruence|exact IH].
  Qed.

  Lemma default_gate_ginfo name args g gi :
    default_gate N name args = Ok (g, gi) -> gi = mkGinfo (Some name) (Some args).
  Proof.
    unfold default_gate. destruct (find_entry name hand_table) as [e|] eqn:Ef; [|discriminate].
    destruct (eval_entry N 2 hand_table e args) as [g0|]; [|discriminate].
    intros H; inversion H; subst. now rewrite (find_entry_name _ _ _ Ef).
  Qed.

  Lemma mk_ctrl_ok c (g g' : gate T) :
    mk_ctrl c g = Ok g' -> g' = Ctrl c g /\ znodup (c :: gate_qubits g) = true.
  Proof.
    unfold mk_ctrl. destruct (znodup (c :: gate_qubits g)) eqn:E; [|discriminate].
    intros H; inversion H; auto.
  Qed.

  Lemma eval_entry_nodup : forall fuel tbl e args g,
    eval_entry N fuel tbl e args = Ok g -> znodup (gate_qubits g) = true.
  Proof.
    intros fuel tbl e args g H.
    destruct fuel as [|fuel]; cbn [eval_entry] in H;
      (destruct (negb (args_match (e_params e) args)); [discriminate|]);
      destruct (e_def e) as [|d|callee|loc d]; destruct (arg_qubits args) as [|c [|t rest]];
      try discriminate;
      try (inversion H; subst; reflexivity);
      try (destruct (find_entry callee tbl) as [e'|]; [|discriminate];
           destruct (eval_entry N fuel tbl e' [AQ t]) as [g0|]; [|discriminate]);
      apply mk_ctrl_ok in H; destruct H as [-> H]; exact H.
  Qed.

  Lemma default_gate_nodup name args g gi :
    default_gate N name args = Ok (g, gi) -> znodup (gate_qubits g) = true.
  Proof.
    unfold default_gate. destruct (find_entry name hand_table) as [e|]; [|discriminate].
    destruct (eval_entry N 2 hand_table e args) as [g0|] eqn:Ee; [|discriminate].
    intros H; inversion H; subst. eapply eval_entry_nodup; eauto.
  Qed.

  (* [x] is literally the value of a default gate function on some arguments *)
  Definition from_table (x : G) : Prop := exists name args, default_gate N name args = Ok x.

  Lemma from_table_named x : from_table x -> pair_named x.
  Proof.
    intros (name & args & H). destruct x as [g gi].
    pose proof (default_gate_ginfo _ _ _ _ H) as ->.
    unfold pair_named. cbn [fst snd named_from_table gname gargs]. exact H.
  Qed.

  Lemma from_table_agree x : from_table x -> pair_agree x.
  Proof.
    intros (name & args & H). destruct x as [g gi]. unfold pair_agree. cbn [fst snd].
    eapply default_gate_args_agree; eauto.
  Qed.

  Lemma from_table_nodup x : from_table x -> znodup (gate_qubits (fst x)) = true.
  Proof. intros (name & args & H). destruct x as [g gi]. eapply default_gate_nodup; eauto. Qed.

  Lemma default_named_from_table o name args g gi :
    default_gate N name args = Ok (g, gi) -> named_from_table (SGate o g gi).
  Proof. intros H. apply (from_table_named (g, gi)). now exists name, args. Qed.

  (* named_from_table entails coherent_qubits as soon as the statement has a name *)
  Lemma named_from_table_qubits o g gi :
    gname gi <> None -> named_from_table (SGate o g gi) -> coherent_qubits (SGate o g gi).
  Proof.
    destruct gi as [[name|] [args|]]; cbn [named_from_table gname gargs]; intros Hn H;
      try (now elim Hn); try (intros gi' E Ha; inversion E; subst; discriminate Ha).
    eapply default_gate_args_agree; eauto.
  Qed.

  (* ------------------------------------------------------------------ *)
  (** * 2. Decomposition and replacement                                  *)
  (* ------------------------------------------------------------------ *)

  (** ** 2.0 The checker keeps an accepted replacement on the gate's qubits *)

  Lemma check_replacement_subset g repl u :
    check_replacement N g repl = Ok u -> zsubset (gates_qubits repl) (gate_qubits g) = true.
  Proof.
    unfold check_replacement. destruct (zsubset (gates_qubits repl) (gate_qubits g)); [reflexivity|].
    cbn [negb]. discriminate.
  Qed.

  Lemma accepted_on_qubits dec g gi items it :
    accepted N dec g gi items -> In it items -> incl (gate_qubits (item_gate g it)) (gate_qubits g).
  Proof.
    intros [_ Hc] Hin. apply check_replacement_subset in Hc. apply zsubset_incl in Hc.
    intros q Hq. apply Hc. unfold gates_qubits. apply in_flat_map.
    exists (item_gate g it). split; [now apply in_map|exact Hq].
  Qed.

  (** ** 2.1 A property of statements kept by every accepted rewriting step
         is kept by the loop, on success and in the state left by a failure *)

  Lemma rewrites_preserves dec (P : stmtT -> Prop) :
    (forall o g gi items next, P (SGate o g gi) -> accepted N dec g gi items ->
                               Forall P (materialise o g gi next items)) ->
    forall next ir out, rewrites N dec next ir out -> Forall P ir -> Forall P out.
  Proof.
    intros Hstep next ir out H.
    induction H as [next|next s rest out Hg _ IH|next o g gi items rest out Hacc _ IH]; intros HF.
    - constructor.
    - inversion HF; subst. constructor; auto.
    - inversion HF; subst. apply Forall_app. split; [|auto]. now apply Hstep.
  Qed.

  Theorem decompose_loop_preserves dec (P : stmtT -> Prop) :
    (forall o g gi items next, P (SGate o g gi) -> accepted N dec g gi items ->
                               Forall P (materialise o g gi next items)) ->
    forall next ir r out, decompose_loop N dec next [] ir = (r, out) -> Forall P ir -> Forall P out.
  Proof.
    intros Hstep next ir r out H HF. destruct r as [e|].
    - apply decompose_failure_state in H.
      destruct H as (pre & o & g & gi & post & pre' & -> & _ & Hrw & -> & _).
      apply Forall_app in HF. destruct HF as [HF1 HF2]. apply Forall_app. split; [|exact HF2].
      eapply rewrites_preserves; eauto.
    - apply decompose_loop_shape_iff in H. eapply rewrites_preserves; eauto.
  Qed.

  (** ** 2.2 Well-formedness: the replacement stays on the gate's qubits (the
         checker) and new gates have distinct operands (the decomposer) *)

  Definition new_items (P : G -> Prop) (items : list (ditem T)) : Prop :=
    Forall (fun it => match it with DSame => True | DNew _ g gi => P (g, gi) end) items.

  (* the decomposer only proposes new gates with pairwise distinct operands *)
  Definition dec_distinct (dec : decomposer) : Prop :=
    forall g gi items, dec g gi = Ok items -> new_items (fun x => znodup (gate_qubits (fst x)) = true) items.
  (* the decomposer only proposes new gates that are default gates *)
  Definition dec_from_table (dec : decomposer) : Prop :=
    forall g gi items, dec g gi = Ok items -> new_items from_table items.

  Lemma new_items_impl (P Q : G -> Prop) items :
    (forall x, P x -> Q x) -> new_items P items -> new_items Q items.
  Proof.
    intros HPQ H. eapply Forall_impl; [|exact H]. intros [|k g gi]; auto.
  Qed.

  Lemma dec_from_table_distinct dec : dec_from_table dec -> dec_distinct dec.
  Proof.
    intros H g gi items Hd. eapply new_items_impl; [|exact (H g gi items Hd)].
    intros x Hx. now apply from_table_nodup.
  Qed.

  Lemma materialise_wf dec nq nb (Hd : dec_distinct dec) o g gi items next :
    wf_stmt nq nb (SGate o g gi) -> accepted N dec g gi items ->
    Forall (wf_stmt nq nb) (materialise o g gi next items).
  Proof.
    intros Hwf Hacc. pose proof (Hd g gi items (proj1 Hacc)) as Hnew.
    unfold materialise. apply Forall_forall. intros s Hs. apply in_map_iff in Hs.
    destruct Hs as [it [<- Hin]].
    pose proof (accepted_on_qubits _ _ _ _ _ Hacc Hin) as Hsub.
    unfold new_items in Hnew. rewrite Forall_forall in Hnew. specialize (Hnew it Hin).
    destruct it as [|k g' gi']; [exact Hwf|].
    cbn [item_gate] in Hsub. cbn [fst] in Hnew. destruct Hwf as [Hr _].
    split; [|exact Hnew]. cbn [stmt_qubits] in *. eapply Forall_incl; eauto.
  Qed.

  (* general statement: ANY decomposer whose new gates have distinct operands *)
  Theorem decompose_loop_wf dec nq nb next ir r out :
    dec_distinct dec ->
    wf_ir nq nb ir -> decompose_loop N dec next [] ir = (r, out) -> wf_ir nq nb out.
  Proof.
    intros Hd Hwf H. eapply decompose_loop_preserves; [|exact H|exact Hwf].
    intros o g gi items nx. apply materialise_wf. exact Hd.
  Qed.

  (** ** 2.3 Coherence: new statements are default gates, the others are kept *)

  Lemma materialise_coherent dec (P : G -> Prop) (Hd : dec_from_table dec)
        (HP : forall x, from_table x -> P x) o g gi items next :
    P (g, gi) -> accepted N dec g gi items ->
    Forall (fun s => match s with SGate _ g' gi' => P (g', gi') | _ => True end)
           (materialise o g gi next items).
  Proof.
    intros Hs Hacc. pose proof (Hd g gi items (proj1 Hacc)) as Hnew.
    unfold materialise. apply Forall_forall. intros s Hin. apply in_map_iff in Hin.
    destruct Hin as [it [<- Hin]].
    unfold new_items in Hnew. rewrite Forall_forall in Hnew. specialize (Hnew it Hin).
    destruct it as [|k g' gi']; [exact Hs|]. now apply HP.
  Qed.

  Theorem decompose_loop_coherent dec next ir r out :
    dec_from_table dec ->
    coherent ir -> decompose_loop N dec next [] ir = (r, out) -> coherent out.
  Proof.
    intros Hd Hc H. eapply decompose_loop_preserves; [|exact H|exact Hc].
    intros o g gi items nx Hs Hacc.
    pose proof (materialise_coherent dec pair_named Hd from_table_named o g gi items nx Hs Hacc) as HF.
    eapply Forall_impl; [|exact HF]. intros [o' g' gi'| | |]; auto.
  Qed.

  Theorem decompose_loop_qubits_coherent dec next ir r out :
    dec_from_table dec ->
    qubits_coherent ir -> decompose_loop N dec next [] ir = (r, out) -> qubits_coherent out.
  Proof.
    intros Hd Hc H. eapply decompose_loop_preserves; [|exact H|exact Hc].
    intros o g gi items nx Hs Hacc.
    pose proof (materialise_coherent dec pair_agree Hd from_table_agree o g gi items nx Hs Hacc) as HF.
    apply Forall_forall. intros s Hin. rewrite Forall_forall in HF. specialize (HF s Hin).
    unfold materialise in Hin. apply in_map_iff in Hin. destruct Hin as [it [<- _]].
    destruct it; exact HF.
  Qed.

  (** ** 2.4 The built-in decomposers and the replacement rules only emit
         default gates *)

  Lemma rot_gate_from_table a q t : from_table (rot_gate N a q t).
  Proof. exists (axis_gate a), [AQ q; AF t]. destruct a; reflexivity. Qed.

  Lemma x90_from_table q : from_table (x90 N q).
  Proof. exists "X90"%string, [AQ q]. reflexivity. Qed.

  Lemma cnot_pair_from_table c t : c <> t -> from_table (cnot_pair N c t).
  Proof.
    intros Hne. exists "CNOT"%string, [AQ c; AQ t]. rewrite default_gate_CNOT.
    destruct (Z.eqb_spec c t); [contradiction|reflexivity].
  Qed.

  Lemma item_in_new_items (P Q : G -> Prop) items :
    (forall x, P x -> Q x) -> Forall (item_in P) items -> new_items Q items.
  Proof.
    intros HPQ H. eapply Forall_impl; [|exact H]. intros it (k & g & gi & -> & Hx). now apply HPQ.
  Qed.

  Lemma new_items_same (P : G -> Prop) : new_items P [DSame].
  Proof. constructor; [exact I|constructor]. Qed.

  Theorem run_decomposer_from_table d : dec_from_table (run_decomposer N d).
  Proof.
    intros g gi items H. destruct d as [ia ib| |]; cbn [run_decomposer] in H.
    - destruct g as [q ax angle phase|c g'|m ops].
      + apply aba_decompose_target in H.
        destruct H as (t1 & t2 & t3 & l & _ & _ & _ & _ & _ & _ & _ & HF).
        eapply item_in_new_items; [|exact HF]. cbv beta.
        intros x [[[t ->]|[t ->]] _]; apply rot_gate_from_table.
      + cbn in H. inversion H. apply new_items_same.
      + cbn in H. inversion H. apply new_items_same.
    - apply mckay_decompose_target_partial in H.
      destruct H as [->|(q & ax & angle & phase & l & _ & _ & _ & HF & _)]; [apply new_items_same|].
      eapply item_in_new_items; [|exact HF].
      intros x [[[t ->]| ->]|[t ->]]; auto using rot_gate_from_table, x90_from_table.
    - destruct (is_ctrl_bsr g) eqn:Hg.
      + destruct g as [|c g'|]; try discriminate. destruct g' as [tq ax angle phase| |]; try discriminate.
        apply cnot_decompose_target in H. destruct H as (Hne & l & _ & _ & HF & _).
        eapply item_in_new_items; [|exact HF]. cbv beta.
        intros x [[|t|t|t] _]; auto using rot_gate_from_table, cnot_pair_from_table.
      + rewrite cnot_decompose_same in H by exact Hg. inversion H. apply new_items_same.
  Qed.

  Lemma dg_from_table name args (h : G) : dg N name args = Ok h -> from_table (fst h, snd h).
  Proof. intros H. exists name, args. destruct h; exact H. Qed.

  (* all five rules of the model, not only the two H/CZ/CNOT ones *)
  Theorem run_rule_from_table r args items : run_rule N r args = Ok items -> new_items from_table items.
  Proof.
    intros H.
    assert (Hempty : new_items from_table []) by constructor.
    destruct r; try (destruct args as [|[c|?|?|?] [|[t|?|?|?] [|? ?]]]; try discriminate H);
      unfold run_rule in H;
      try (destruct (dg N "H" [AQ t]) as [h|e1] eqn:Eh;
           [|try destruct (dg N "CZ" [AQ c; AQ t]); try destruct (dg N "CNOT" [AQ c; AQ t]); discriminate H]);
      try (destruct (dg N "CZ" [AQ c; AQ t]) as [cz|e2] eqn:Ecz; [|discriminate H]);
      try (destruct (dg N "CNOT" [AQ c; AQ t]) as [cn|e2] eqn:Ecn; [|discriminate H]);
      inversion H; subst; try exact Hempty;
      repeat (constructor; [eapply dg_from_table; eassumption|]); constructor.
  Qed.

  Theorem run_replacer_from_table target r : dec_from_table (run_replacer N target r).
  Proof.
    intros g gi items H. rewrite replacer_spec in H.
    destruct (gargs gi) as [args|]; [|inversion H; apply new_items_same].
    destruct (match gname gi with Some nm => String.eqb nm target | None => false end);
      [|inversion H; apply new_items_same].
    eapply run_rule_from_table; eauto.
  Qed.

  (** ** 2.5 The passes [decompose] and [replace]: success ([r = None]) and
         the partially rewritten circuit left by a failure ([r = Some e]) *)

  Theorem decompose_wf nq nb d ir r ir' :
    wf_ir nq nb ir -> decompose N d ir = (r, ir') -> wf_ir nq nb ir'.
  Proof. apply decompose_loop_wf, dec_from_table_distinct, run_decomposer_from_table. Qed.

  Theorem decompose_coherent d ir r ir' :
    coherent ir -> decompose N d ir = (r, ir') -> coherent ir'.
  Proof. apply decompose_loop_coherent, run_decomposer_from_table. Qed.

  Theorem decompose_qubits_coherent d ir r ir' :
    qubits_coherent ir -> decompose N d ir = (r, ir') -> qubits_coherent ir'.
  Proof. apply decompose_loop_qubits_coherent, run_decomposer_from_table. Qed.

  (* the failure case spelled out: the circuit left behind by a decomposer that
     raised (or whose proposal the checker refused) at some gate *)
  Corollary decompose_failure_keeps nq nb d ir e ir' :
    wf_ir nq nb ir -> coherent ir -> decompose N d ir = (Some e, ir') ->
    wf_ir nq nb ir' /\ coherent ir'.
  Proof. intros Hwf Hc H. split; [eapply decompose_wf|eapply decompose_coherent]; eauto. Qed.

  Theorem replace_wf nq nb target rule ir r ir' :
    wf_ir nq nb ir -> replace N target rule ir = (r, ir') -> wf_ir nq nb ir'.
  Proof. apply decompose_loop_wf, dec_from_table_distinct, run_replacer_from_table. Qed.

  Theorem replace_coherent target rule ir r ir' :
    coherent ir -> replace N target rule ir = (r, ir') -> coherent ir'.
  Proof. apply decompose_loop_coherent, run_replacer_from_table. Qed.

  Theorem replace_qubits_coherent target rule ir r ir' :
    qubits_coherent ir -> replace N target rule ir = (r, ir') -> qubits_coherent ir'.
  Proof. apply decompose_loop_qubits_coherent, run_replacer_from_table. Qed.

  Corollary replace_failure_keeps nq nb target rule ir e ir' :
    wf_ir nq nb ir -> coherent ir -> replace N target rule ir = (Some e, ir') ->
    wf_ir nq nb ir' /\ coherent ir'.
  Proof. intros Hwf Hc H. split; [eapply replace_wf|eapply replace_coherent]; eauto. Qed.

  (* ------------------------------------------------------------------ *)
  (** * 3. Merging                                                        *)
  (* ------------------------------------------------------------------ *)

  (** ** 3.1 Well-formedness: emitted rotations act on a qubit of the
         register, every other statement is an input statement *)

  Theorem merge_wf nq nb ir ir' :
    wf_ir nq nb ir -> merge N nq ir = Ok ir' -> wf_ir nq nb ir'.
  Proof.
    intros Hwf H. apply Forall_forall. intros s Hin.
    destruct (is_bsr_stmt s) eqn:Hb.
    - destruct s as [o [q ax an ph|c g|m ops] gi|o q b ax gi|o q gi|t]; try discriminate Hb.
      assert (Hr : rot_on q (SGate o (BSR q ax an ph) gi) = true) by (cbn; apply Z.eqb_refl).
      pose proof (merge_output_rotations_on_own_qubit N nq ir ir' _ q H Hin Hr) as Hq.
      split; [|reflexivity]. cbn [stmt_qubits gate_qubits]. constructor; [exact Hq|constructor].
    - assert (Hin' : In s (filter (fun s => negb (is_bsr_stmt s)) ir')).
      { apply filter_In. split; [exact Hin|]. now rewrite Hb. }
      rewrite (merge_keeps_others N nq ir ir' H) in Hin'. apply filter_In in Hin'.
      unfold wf_ir in Hwf. rewrite Forall_forall in Hwf. apply Hwf. tauto.
  Qed.

  (** ** 3.2 An invariant of the merger: a property of (gate, description)
         pairs that holds of the input rotations, of [ident q], and is kept by
         [compose_gates] and by the final naming, holds of every accumulator
         and of every emitted statement *)
  Section MergeInvariant.
    Variable PS : stmtT -> Prop.
    Variable PA : G -> Prop.
    Hypothesis H_emit : forall x o, PA x -> PS (SGate o (fst x) (snd x)).
    Hypothesis H_in : forall o q ax an ph gi, PS (SGate o (BSR q ax an ph) gi) -> PA (BSR q ax an ph, gi).
    Hypothesis H_ident : forall q, PA (ident N q).
    Hypothesis H_comp : forall a x y, PA a -> PA x -> compose_gates N a x = Ok y -> PA y.
    Hypothesis H_name : forall x, PA x -> PA (fname N x).

    Lemma Forall_acc_set (a : list G) : forall i y, Forall PA a -> PA y -> Forall PA (acc_set a i y).
    Proof.
      induction a as [|z a IH]; intros i y Ha Hy; cbn [acc_set]; [constructor|].
      inversion Ha; subst. destruct i; constructor; auto.
    Qed.

    Lemma acc_get_In (a : list G) q x : acc_get a q = Some x -> In x a.
    Proof.
      unfold acc_get. destruct (Z.ltb q 0); [discriminate|]. apply nth_error_In.
    Qed.

    Lemma flush_inv qs : forall (a : list G) next out a' next' out',
      flush N a next qs out = Ok (a', next', out') ->
      Forall PA a -> Forall PS out -> Forall PA a' /\ Forall PS out'.
    Proof.
      induction qs as [|q qs IH]; intros a next out a' next' out' H Ha Ho; cbn [flush] in H.
      - inversion H; subst. auto.
      - destruct (acc_get a q) as [x|] eqn:E; [|discriminate].
        assert (Hx : PA x) by (rewrite Forall_forall in Ha; apply Ha; eapply acc_get_In; eauto).
        destruct (is_identity N (fst x)).
        + eapply IH; eauto.
        + eapply IH; [exact H| |].
          * apply Forall_acc_set; auto.
          * constructor; auto.
    Qed.

    Lemma merge_loop_inv ir : forall (a : list G) next out a' next' out',
      merge_loop N a next ir out = Ok (a', next', out') ->
      Forall PS ir -> Forall PA a -> Forall PS out -> Forall PA a' /\ Forall PS out'.
    Proof.
      induction ir as [|s ir IH]; intros a next out a' next' out' H Hir Ha Ho.
      - cbn in H. inversion H; subst. auto.
      - inversion Hir as [|? ? Hs Hir']; subst.
        destruct (stmt_cases s) as [(t & ->)|[(o & q & ax & an & ph & gi & ->)|Hb]].
        + rewrite merge_loop_comment in H. eapply IH; eauto.
        + rewrite merge_loop_rot in H.
          destruct (acc_get a q) as [x|] eqn:E; [|discriminate].
          destruct (compose_gates N (BSR q ax an ph, gi) x) as [y|e] eqn:Ec; [|discriminate].
          assert (Hx : PA x) by (rewrite Forall_forall in Ha; apply Ha; eapply acc_get_In; eauto).
          eapply IH; [exact H|exact Hir'| |exact Ho].
          apply Forall_acc_set; [exact Ha|]. eapply H_comp; [|exact Hx|exact Ec]. eapply H_in; eauto.
        + rewrite (merge_loop_barrier N _ _ _ _ _ Hb) in H.
          destruct (flush N a next (stmt_qubits s) out) as [[[a1 next1] out1]|e] eqn:Ef; [|discriminate].
          destruct (flush_inv _ _ _ _ _ _ _ Ef Ha Ho) as [Ha1 Ho1].
          eapply IH; [exact H|exact Hir'|exact Ha1|]. constructor; auto.
    Qed.

    Lemma final_flush_inv (a : list G) : forall next out,
      Forall PA a -> Forall PS out -> Forall PS (final_flush N a next out).
    Proof.
      induction a as [|x a IH]; intros next out Ha Ho; cbn [final_flush]; [exact Ho|].
      inversion Ha; subst. destruct (is_identity N (fst x)); [auto|].
      apply IH; [assumption|]. constructor; [|exact Ho].
      change (if is_anonymous (snd x) then try_name N x else x) with (fname N x).
      apply H_emit. now apply H_name.
    Qed.

    Theorem merge_preserves n ir ir' : Forall PS ir -> merge N n ir = Ok ir' -> Forall PS ir'.
    Proof.
      intros Hir H. unfold merge in H.
      destruct (merge_loop N _ (Pos.succ (max_oid ir)) ir []) as [[[a next] out]|e] eqn:E; [|discriminate].
      inversion H; subst. apply Forall_rev.
      assert (Ha0 : Forall PA (map (fun i => ident N (Z.of_nat i)) (seq 0 (Z.to_nat n)))).
      { apply Forall_forall. intros x Hx. apply in_map_iff in Hx. destruct Hx as [i [<- _]]. apply H_ident. }
      destruct (merge_loop_inv _ _ _ _ _ _ _ E Hir Ha0 (Forall_nil _)) as [Ha Ho].
      now apply final_flush_inv.
    Qed.
  End MergeInvariant.

  (** ** 3.3 What [compose] hands on: the rotation stays on its qubit and the
         description is dropped or inherited from one of the two operands *)

  Lemma compose_info q axa anga pha gia axb angb phb gib :
    let r := compose N q axa anga pha gia axb angb phb gib in
    snd r = anon \/
    (is_identity N (BSR q axa anga pha) = true /\ snd r = gib) \/
    (is_identity N (BSR q axa anga pha) = false /\ is_identity N (BSR q axb angb phb) = true /\ snd r = gia).
  Proof.
    unfold compose.
    set (ida := is_identity N (BSR q axa anga pha)). set (idb := is_identity N (BSR q axb angb phb)).
    cbv zeta.
    match goal with |- context [if ?c then (bsr_identity N q, anon) else _] => destruct c end; cbn [snd].
    - left; reflexivity.
    - destruct ida; [right; left; auto|]. destruct idb; [right; right; auto|left; reflexivity].
  Qed.

  Lemma ident_from_table q : from_table (ident N q).
  Proof. exists "I"%string, [AQ q]. rewrite ident_eq. apply default_gate_I. Qed.

  (* the description given by the final naming *)
  Lemma fname_cases x q ax an ph :
    fst x = BSR q ax an ph -> fname N x = x \/ from_table (fname N x).
  Proof.
    intros E. unfold fname. destruct (is_anonymous (snd x)); [|now left].
    destruct (try_name_spec N x q ax an ph E) as [->|(nm & _ & _ & _ & _ & Hd & _)]; [now left|right].
    now exists nm, [AQ q].
  Qed.

  (** ** 3.4 Agreement of the qubit arguments with the semantic qubit is
         structural: fully proved *)

  (* accumulators are rotations: carry that along with the property *)
  Definition is_rot_pair (x : G) : Prop := exists q ax an ph, fst x = BSR q ax an ph.

  Lemma compose_gates_rot a x y : compose_gates N a x = Ok y -> is_rot_pair y.
  Proof.
    unfold compose_gates. destruct (fst a) as [qa axa anga pha| |]; try discriminate.
    destruct (fst x) as [qb axb angb phb| |]; try discriminate.
    destruct (Z.eqb qa qb); [|discriminate]. intros H; inversion H.
    destruct (compose_on N qa axa anga pha (snd a) axb angb phb (snd x)) as (ax & an & ph & E).
    now exists qa, ax, an, ph.
  Qed.

  Lemma fname_rot x : is_rot_pair x -> is_rot_pair (fname N x).
  Proof.
    intros (q & ax & an & ph & E).
    assert (Hb : bsr_on q (fst x)) by (now exists ax, an, ph).
    destruct (fname_on N x q Hb) as (ax' & an' & ph' & E'). now exists q, ax', an', ph'.
  Qed.

  Lemma ident_rot q : is_rot_pair (ident N q).
  Proof. destruct (ident_on N q) as (ax & an & ph & E). now exists q, ax, an, ph. Qed.

  Lemma pair_agree_anon g : pair_agree (g, anon).
  Proof. intros gi E Ha. inversion E; subst. discriminate Ha. Qed.

  Lemma compose_gates_agree a x y :
    pair_agree a -> pair_agree x -> compose_gates N a x = Ok y -> pair_agree y.
  Proof.
    unfold compose_gates. destruct a as [ga gia], x as [gb gib]. cbn [fst snd].
    destruct ga as [qa axa anga pha| |]; try discriminate.
    destruct gb as [qb axb angb phb| |]; try discriminate.
    destruct (Z.eqb_spec qa qb) as [<-|]; [|discriminate]. intros Ha Hb H; inversion H; clear H.
    destruct (compose_on N qa axa anga pha gia axb angb phb gib) as (ax & an & ph & E).
    pose proof (compose_info qa axa anga pha gia axb angb phb gib) as Hi. cbv zeta in Hi.
    destruct (compose N qa axa anga pha gia axb angb phb gib) as [g gi]. cbn [fst snd] in *. subst g.
    destruct Hi as [->|[[_ ->]|[_ [_ ->]]]].
    - apply pair_agree_anon.
    - intros gi' E' Hn. inversion E'; subst gi'. exact (Hb gib eq_refl Hn).
    - intros gi' E' Hn. inversion E'; subst gi'. exact (Ha gia eq_refl Hn).
  Qed.

  Theorem merge_qubits_coherent n ir ir' :
    qubits_coherent ir -> merge N n ir = Ok ir' -> qubits_coherent ir'.
  Proof.
    apply (merge_preserves coherent_qubits (fun x => pair_agree x /\ is_rot_pair x)).
    - intros x o [H _]. exact H.
    - intros o q ax an ph gi H. split; [exact H|]. now exists q, ax, an, ph.
    - intros q. split; [apply from_table_agree, ident_from_table|apply ident_rot].
    - intros a x y [Ha _] [Hx _] H. split; [exact (compose_gates_agree a x y Ha Hx H)|exact (compose_gates_rot a x y H)].
    - intros x [Hx (q & ax & an & ph & E)]. split; [|apply fname_rot; now exists q, ax, an, ph].
      destruct (fname_cases x q ax an ph E) as [->|Hf]; [exact Hx|now apply from_table_agree].
  Qed.

  (** ** 3.5 Exact coherence of the merger needs one numeric fact *)

  (* Composing a rotation with an (approximate) identity hands the generator
     name and the arguments of the rotation on to the result.  The result then
     still DENOTES EXACTLY what the name and arguments say only if the composed
     rotation is the very same rotation.  This is a property of the numeric
     kernel ([compose] recomputes the angle through acos, rounds the axis to 7
     digits and renormalises it, rounds the phase), not of the algorithm. *)
  Definition compose_identity_exact : Prop :=
    forall q axa anga pha gia axb angb phb gib,
      let r := compose N q axa anga pha gia axb angb phb gib in
      is_anonymous (snd r) = false ->
      fst r = if is_identity N (BSR q axa anga pha) then BSR q axb angb phb else BSR q axa anga pha.

  Lemma pair_named_anonymous g gi : is_anonymous gi = true -> pair_named (g, gi).
  Proof.
    unfold pair_named, is_anonymous. cbn [fst snd named_from_table].
    destruct (gargs gi); [discriminate|]. intros _. now destruct (gname gi).
  Qed.

  Lemma compose_gates_named (Hex : compose_identity_exact) a x y :
    pair_named a -> pair_named x -> compose_gates N a x = Ok y -> pair_named y.
  Proof.
    unfold compose_gates. destruct a as [ga gia], x as [gb gib]. cbn [fst snd].
    destruct ga as [qa axa anga pha| |]; try discriminate.
    destruct gb as [qb axb angb phb| |]; try discriminate.
    destruct (Z.eqb_spec qa qb) as [<-|]; [|discriminate]. intros Ha Hb H; inversion H; clear H.
    pose proof (Hex qa axa anga pha gia axb angb phb gib) as He. cbv zeta in He.
    pose proof (compose_info qa axa anga pha gia axb angb phb gib) as Hi. cbv zeta in Hi.
    destruct (compose N qa axa anga pha gia axb angb phb gib) as [g gi]. cbn [fst snd] in *.
    destruct (is_anonymous gi) eqn:Han; [now apply pair_named_anonymous|].
    specialize (He eq_refl).
    destruct Hi as [->|[[Hida ->]|[Hida [_ ->]]]].
    - discriminate Han.
    - rewrite Hida in He. subst g. exact Hb.
    - rewrite Hida in He. subst g. exact Ha.
  Qed.

  (* PARTIAL: exact coherence of the merged circuit UNDER the numeric hypothesis
     [compose_identity_exact].  Full statement (false for some dictionaries,
     see [merge_coherent_refuted] after the section):
       forall n ir ir', coherent ir -> merge N n ir = Ok ir' -> coherent ir'.
     An emitted accumulator is anonymous (nothing to show), or a default gate
     chosen by [try_name] (coherent by construction), or it inherited the name
     and arguments of a rotation composed with identities: only this last case
     uses the hypothesis.  What holds with no hypothesis at all is
     [merge_qubits_coherent] (3.4) and [merge_coherent_upto] (part 6). *)
  Theorem merge_coherent_partial n ir ir' :
    compose_identity_exact ->
    coherent ir -> merge N n ir = Ok ir' -> coherent ir'.
  Proof.
    intros Hex.
    apply (merge_preserves named_from_table (fun x => pair_named x /\ is_rot_pair x)).
    - intros x o [H _]. exact H.
    - intros o q ax an ph gi H. split; [exact H|]. now exists q, ax, an, ph.
    - intros q. split; [apply from_table_named, ident_from_table|apply ident_rot].
    - intros a x y [Ha _] [Hx _] H. split; [exact (compose_gates_named Hex a x y Ha Hx H)|exact (compose_gates_rot a x y H)].
    - intros x [Hx (q & ax & an & ph & E)]. split; [|apply fname_rot; now exists q, ax, an, ph].
      destruct (fname_cases x q ax an ph E) as [->|Hf]; [exact Hx|now apply from_table_named].
  Qed.

  (* ------------------------------------------------------------------ *)
  (** * 4. Mapping                                                        *)
  (* ------------------------------------------------------------------ *)

  (** ** 4.1 Well-formedness: a permutation of the keys keeps indices in
         range and distinct operands distinct *)

  Lemma stmt_qubits_all (s : stmtT) : incl (stmt_qubits s) (stmt_all_qubits s).
  Proof.
    destruct s as [o g gi|o q0 b ax gi|o q0 gi|t]; cbn [stmt_qubits stmt_all_qubits]; intros q Hq.
    - apply in_or_app. now left.
    - destruct Hq as [<-|[]]. now left.
    - destruct Hq as [<-|[]]. now left.
    - contradiction.
  Qed.

  Lemma apply_mapping_inj_on (l qs : list Z) :
    mapping_ok l = true -> Forall (fun q => covered l q = true) qs -> inj_on (apply_mapping l) qs.
  Proof.
    intros Hok Hc x y Hx Hy. rewrite Forall_forall in Hc. apply apply_mapping_inj; auto.
  Qed.

  Lemma remap_stmt_wf nq nb (l : list Z) (s : stmtT) :
    mapping_ok l = true -> Z.of_nat (List.length l) <= nq ->
    Forall (fun q => covered l q = true) (stmt_all_qubits s) ->
    wf_stmt nq nb s -> wf_stmt nq nb (remap_stmt (apply_mapping l) s).
  Proof.
    intros Hok Hlen Hcov [Hr Hd].
    assert (Hcq : Forall (fun q => covered l q = true) (stmt_qubits s))
      by (eapply Forall_incl; [apply stmt_qubits_all|exact Hcov]).
    split.
    - rewrite stmt_qubits_remap. apply Forall_forall. intros q' Hq'. apply in_map_iff in Hq'.
      destruct Hq' as [q [<- Hq]]. rewrite Forall_forall in Hcq.
      pose proof (apply_mapping_range l q Hok (Hcq q Hq)) as Hc. apply covered_iff in Hc. lia.
    - destruct s as [o g gi|o q0 b ax gi|o q0 gi|t]; cbn [remap_stmt]; auto.
      rewrite gate_qubits_map. apply znodup_map_inj_on; [|exact Hd].
      now apply apply_mapping_inj_on.
  Qed.

  (* [length l = nq] is not needed: [remap] itself refuses a mapping longer
     than the register, and qubits beyond the mapping are refused as uncovered *)
  Theorem remap_wf nq nb (l : list Z) ir ir' :
    mapping_ok l = true ->
    wf_ir nq nb ir -> remap nq l ir = Ok ir' -> wf_ir nq nb ir'.
  Proof.
    intros Hok Hwf H.
    pose proof (remap_ok_covered _ _ _ _ H) as Hcov. pose proof (remap_ok_fits _ _ _ _ H) as Hfit.
    rewrite (remap_relabels _ _ _ _ H). apply Forall_forall. intros s' Hs'.
    apply in_map_iff in Hs'. destruct Hs' as [s [<- Hs]].
    unfold wf_ir in Hwf. rewrite Forall_forall in Hwf, Hcov. apply remap_stmt_wf; auto.
  Qed.

  (** ** 4.2 Coherence: a default gate function commutes with a relabelling
         that is injective on its qubit arguments *)

  Lemma args_match_map f ps (args : list (arg T)) :
    args_match ps (map (map_arg f) args) = args_match ps args.
  Proof.
    revert args. induction ps as [|[nm k] ps IH]; intros [|a args]; cbn [map args_match]; try reflexivity.
    destruct k, a; cbn [map_arg]; auto.
  Qed.

  Lemma first_float_map f (args : list (arg T)) : first_float N (map (map_arg f) args) = first_float N args.
  Proof.
    unfold first_float. induction args as [|a args IH]; [reflexivity|].
    cbn [map find]. destruct a; cbn [map_arg]; auto.
  Qed.

  Lemma first_int_map f (args : list (arg T)) : first_int (map (map_arg f) args) = first_int args.
  Proof.
    unfold first_int. induction args as [|a args IH]; [reflexivity|].
    cbn [map find]. destruct a; cbn [map_arg]; auto.
  Qed.

  Lemma arg_qubits_map f (args : list (arg T)) : arg_qubits (map (map_arg f) args) = map f (arg_qubits args).
  Proof. apply (qargs_of_map f args). Qed.

  Lemma mk_ctrl_map f c (g g' : gate T) :
    mk_ctrl c g = Ok g' -> inj_on f (c :: gate_qubits g) ->
    mk_ctrl (f c) (map_gate_qubits f g) = Ok (map_gate_qubits f g').
  Proof.
    intros H Hinj. apply mk_ctrl_ok in H. destruct H as [-> Hnd]. unfold mk_ctrl.
    rewrite gate_qubits_map. change (f c :: map f (gate_qubits g)) with (map f (c :: gate_qubits g)).
    rewrite (znodup_map_inj_on f _ Hinj Hnd). reflexivity.
  Qed.

  Lemma eval_bsrdef_qubits q th k lc d : gate_qubits (eval_bsrdef N q th k lc d) = [q].
  Proof. reflexivity. Qed.

  Lemma eval_bsrdef_map f q th k lc d :
    map_gate_qubits f (eval_bsrdef N q th k lc d) = eval_bsrdef N (f q) th k lc d.
  Proof. reflexivity. Qed.

  Lemma ctrl_bsr_map f c t rest th k lc d g :
    mk_ctrl c (eval_bsrdef N t th k lc d) = Ok g -> inj_on f (c :: t :: rest) ->
    incl (gate_qubits g) (c :: t :: rest) /\
    mk_ctrl (f c) (eval_bsrdef N (f t) th k lc d) = Ok (map_gate_qubits f g).
  Proof.
    intros H Hinj. pose proof (mk_ctrl_ok _ _ _ H) as [Eg _].
    assert (Hsub : incl [c; t] (c :: t :: rest)) by (intros z [<-|[<-|[]]]; [now left|right; now left]).
    split.
    - subst g. cbn [gate_qubits]. rewrite eval_bsrdef_qubits. exact Hsub.
    - rewrite <- eval_bsrdef_map. apply mk_ctrl_map; [exact H|]. rewrite eval_bsrdef_qubits.
      eapply inj_on_incl; eauto.
  Qed.

  Lemma eval_entry_map f : forall fuel tbl e (args : list (arg T)) g,
    eval_entry N fuel tbl e args = Ok g -> inj_on f (arg_qubits args) ->
    incl (gate_qubits g) (arg_qubits args) /\
    eval_entry N fuel tbl e (map (map_arg f) args) = Ok (map_gate_qubits f g).
  Proof.
    induction fuel as [|fuel IH]; intros tbl e args g H Hinj; cbn [eval_entry] in *;
      rewrite args_match_map, first_float_map, first_int_map, arg_qubits_map;
      (destruct (negb (args_match (e_params e) args)); [discriminate|]);
      destruct (e_def e) as [|d|callee|loc d]; destruct (arg_qubits args) as [|c [|t rest]];
      cbn [map]; try discriminate.
    all: try (inversion H; subst; split; [intros z [<-|[]]; now left|reflexivity]).
    all: try (apply ctrl_bsr_map; assumption).
    - (* DCtrlCall, one level of calls *)
      destruct (find_entry callee tbl) as [e'|]; [|discriminate].
      destruct (eval_entry N fuel tbl e' [AQ t]) as [g0|] eqn:E0; [|discriminate].
      assert (Hinj1 : inj_on f (arg_qubits [@AQ T t])).
      { intros x y [<-|[]] [<-|[]] _. reflexivity. }
      destruct (IH tbl e' [AQ t] g0 E0 Hinj1) as [Hsub Hmap].
      cbn [map map_arg] in Hmap. rewrite Hmap.
      pose proof (mk_ctrl_ok _ _ _ H) as [Eg _].
      assert (Hsub2 : incl (c :: gate_qubits g0) (c :: t :: rest)).
      { intros z [<-|Hz]; [now left|]. apply Hsub in Hz. destruct Hz as [<-|[]]. right; now left. }
      split; [subst g; exact Hsub2|].
      apply mk_ctrl_map; [exact H|]. eapply inj_on_incl; [exact Hsub2|exact Hinj].
  Qed.

  Theorem default_gate_map f name args g gi :
    default_gate N name args = Ok (g, gi) -> inj_on f (arg_qubits args) ->
    default_gate N name (map (map_arg f) args) = Ok (map_gate_qubits f g, map_ginfo f gi).
  Proof.
    unfold default_gate. destruct (find_entry name hand_table) as [e|]; [|discriminate].
    destruct (eval_entry N 2 hand_table e args) as [g0|] eqn:Ee; [|discriminate].
    intros H Hinj; inversion H; subst.
    destruct (eval_entry_map f _ _ _ _ _ Ee Hinj) as [_ ->]. reflexivity.
  Qed.

  Lemma remap_stmt_named f (s : stmtT) :
    inj_on f (stmt_all_qubits s) -> named_from_table s -> named_from_table (remap_stmt f s).
  Proof.
    destruct s as [o g gi|o q b ax gi|o q gi|t]; cbn [remap_stmt named_from_table]; auto.
    destruct gi as [[name|] [args|]]; cbn [map_ginfo gname gargs option_map]; auto.
    intros Hinj H.
    apply (default_gate_map f) in H; [exact H|].
    eapply inj_on_incl; [|exact Hinj]. cbn [stmt_all_qubits]. intros z Hz. apply in_or_app. right. exact Hz.
  Qed.

  (* neither well-formedness nor [length l = nq] is needed here *)
  Theorem remap_coherent nq (l : list Z) ir ir' :
    mapping_ok l = true ->
    coherent ir -> remap nq l ir = Ok ir' -> coherent ir'.
  Proof.
    intros Hok Hc H. pose proof (remap_ok_covered _ _ _ _ H) as Hcov.
    rewrite (remap_relabels _ _ _ _ H). apply Forall_forall. intros s' Hs'.
    apply in_map_iff in Hs'. destruct Hs' as [s [<- Hs]].
    unfold coherent in Hc. rewrite Forall_forall in Hc, Hcov.
    apply remap_stmt_named; [|now apply Hc]. apply apply_mapping_inj_on; auto.
  Qed.

  Theorem remap_qubits_coherent nq (l : list Z) ir ir' :
    qubits_coherent ir -> remap nq l ir = Ok ir' -> qubits_coherent ir'.
  Proof. intros Hc H. exact (remap_keeps_agreement nq l ir ir' H Hc). Qed.

  (* ------------------------------------------------------------------ *)
  (** * 5. Any finite sequence of passes                                  *)
  (* ------------------------------------------------------------------ *)

  Inductive pass :=
  | PDecompose (d : decomposer_id)
  | PReplace (target : string) (r : rule_id)
  | PMerge
  | PMap (l : list Z).

  (* one pass on a circuit with [nq] qubits; [Err] when the pass raises *)
  Definition run_pass (nq : Z) (p : pass) (ir : list stmtT) : result (list stmtT) :=
    match p with
    | PDecompose d => match decompose N d ir with (None, ir') => Ok ir' | (Some e, _) => Err e end
    | PReplace target r => match replace N target r ir with (None, ir') => Ok ir' | (Some e, _) => Err e end
    | PMerge => merge N nq ir
    | PMap l => remap nq l ir
    end.

  Fixpoint run_passes (nq : Z) (ps : list pass) (ir : list stmtT) : result (list stmtT) :=
    match ps with
    | [] => Ok ir
    | p :: ps' => match run_pass nq p ir with Err e => Err e | Ok ir1 => run_passes nq ps' ir1 end
    end.

  (* the only side condition: a mapping pass is given a permutation of its keys
     (what [Mapping(...)] checks on construction) *)
  Definition pass_ok (p : pass) : Prop :=
    match p with PMap l => mapping_ok l = true | _ => True end.

  (* the hypothesis of [merge_coherent_partial] is needed by merging passes only *)
  Definition pass_numeric (p : pass) : Prop :=
    match p with PMerge => compose_identity_exact | _ => True end.

  Theorem pass_preserves_wf nq nb p ir ir' :
    pass_ok p -> wf_ir nq nb ir -> run_pass nq p ir = Ok ir' -> wf_ir nq nb ir'.
  Proof.
    intros Hok Hwf H. destruct p as [d|target r| |l]; cbn [run_pass pass_ok] in *.
    - destruct (decompose N d ir) as [[e|] out] eqn:E; inversion H; subst. eapply decompose_wf; eauto.
    - destruct (replace N target r ir) as [[e|] out] eqn:E; inversion H; subst. eapply replace_wf; eauto.
    - eapply merge_wf; eauto.
    - eapply remap_wf; eauto.
  Qed.

  Theorem pass_preserves_qubits_coherent nq p ir ir' :
    qubits_coherent ir -> run_pass nq p ir = Ok ir' -> qubits_coherent ir'.
  Proof.
    intros Hc H. destruct p as [d|target r| |l]; cbn [run_pass] in *.
    - destruct (decompose N d ir) as [[e|] out] eqn:E; inversion H; subst. eapply decompose_qubits_coherent; eauto.
    - destruct (replace N target r ir) as [[e|] out] eqn:E; inversion H; subst. eapply replace_qubits_coherent; eauto.
    - eapply merge_qubits_coherent; eauto.
    - eapply remap_qubits_coherent; eauto.
  Qed.

  Theorem pass_preserves_coherent nq p ir ir' :
    pass_ok p -> pass_numeric p -> coherent ir -> run_pass nq p ir = Ok ir' -> coherent ir'.
  Proof.
    intros Hok Hnum Hc H. destruct p as [d|target r| |l]; cbn [run_pass pass_ok pass_numeric] in *.
    - destruct (decompose N d ir) as [[e|] out] eqn:E; inversion H; subst. eapply decompose_coherent; eauto.
    - destruct (replace N target r ir) as [[e|] out] eqn:E; inversion H; subst. eapply replace_coherent; eauto.
    - eapply merge_coherent_partial; eauto.
    - eapply remap_coherent; eauto.
  Qed.

  (* C05, the structural part: NO hypothesis beyond "mappings are permutations" *)
  Theorem passes_preserve_wf nq nb ps : forall ir ir',
    Forall pass_ok ps ->
    wf_ir nq nb ir -> qubits_coherent ir -> run_passes nq ps ir = Ok ir' ->
    wf_ir nq nb ir' /\ qubits_coherent ir'.
  Proof.
    induction ps as [|p ps IH]; intros ir ir' Hok Hwf Hq H; cbn [run_passes] in H.
    - inversion H; subst. auto.
    - inversion Hok as [|? ? Hp Hps]; subst.
      destruct (run_pass nq p ir) as [ir1|e] eqn:E; [|discriminate].
      apply (IH ir1 ir' Hps); auto.
      + eapply pass_preserves_wf; eauto.
      + eapply pass_preserves_qubits_coherent; eauto.
  Qed.

  (* C05 with exact coherence; the numeric hypothesis is asked for only if the
     sequence contains a merging pass *)
  Theorem passes_preserve nq nb ps : forall ir ir',
    Forall pass_ok ps -> (In PMerge ps -> compose_identity_exact) ->
    wf_ir nq nb ir -> coherent ir -> run_passes nq ps ir = Ok ir' ->
    wf_ir nq nb ir' /\ coherent ir'.
  Proof.
    induction ps as [|p ps IH]; intros ir ir' Hok Hnum Hwf Hc H; cbn [run_passes] in H.
    - inversion H; subst. auto.
    - inversion Hok as [|? ? Hp Hps]; subst.
      destruct (run_pass nq p ir) as [ir1|e] eqn:E; [|discriminate].
      apply (IH ir1 ir' Hps); auto.
      + intros Hin. apply Hnum. now right.
      + eapply pass_preserves_wf; eauto.
      + eapply pass_preserves_coherent; eauto.
        destruct p; cbn [pass_numeric]; auto. apply Hnum. now left.
  Qed.

  (* the statement in the restricted form of the task: replacement rules among
     the two H/CZ/CNOT rules, mappings that are permutations of the whole
     register; both restrictions are stronger than what is used *)
  Definition pass_restricted (nq : Z) (p : pass) : Prop :=
    match p with
    | PReplace _ r => r = RuleCnotToHCzH \/ r = RuleCzToHCnotH
    | PMap l => mapping_ok l = true /\ Z.of_nat (List.length l) = nq
    | _ => True
    end.

  Corollary passes_preserve_restricted nq nb ps ir ir' :
    Forall (pass_restricted nq) ps -> compose_identity_exact ->
    wf_ir nq nb ir -> coherent ir -> run_passes nq ps ir = Ok ir' ->
    wf_ir nq nb ir' /\ coherent ir'.
  Proof.
    intros Hr Hex. apply passes_preserve; [|auto].
    eapply Forall_impl; [|exact Hr]. intros [d|t r| |l]; cbn; tauto.
  Qed.

  (* passes without a merging pass: nothing numeric at all *)
  Corollary passes_preserve_no_merge nq nb ps ir ir' :
    Forall pass_ok ps -> ~ In PMerge ps ->
    wf_ir nq nb ir -> coherent ir -> run_passes nq ps ir = Ok ir' ->
    wf_ir nq nb ir' /\ coherent ir'.
  Proof. intros Hok Hn. apply passes_preserve; [exact Hok|]. intros Hin. contradiction. Qed.

  (* ------------------------------------------------------------------ *)
  (** * 6. What holds of the merger without any numeric hypothesis        *)
  (* ------------------------------------------------------------------ *)

  (* Coherence UP TO THE ROTATION FIELDS: the name and arguments of a named
     gate statement denote (exactly, by re-evaluation of the generator) a gate
     [g0] on the same operands, in the same order, as the stored gate [g]; and
     [g0] IS the stored gate unless the stored gate is a single-qubit rotation
     (the only statements the merger rewrites).  Exact coherence is the case
     [g0 = g] throughout. *)
  Definition named_upto (s : stmtT) : Prop :=
    match s with
    | SGate _ g gi =>
        match gname gi, gargs gi with
        | Some name, Some args =>
            exists g0, default_gate N name args = Ok (g0, mkGinfo (Some name) (Some args)) /\
                       gate_qubits g0 = gate_qubits g /\ (is_bsr_gate g = false -> g0 = g)
        | _, _ => True
        end
    | _ => True
    end.
  Definition coherent_upto (ir : list stmtT) : Prop := Forall named_upto ir.
  Definition pair_upto (x : G) : Prop := named_upto (SGate 1%positive (fst x) (snd x)).

  Lemma named_from_table_upto s : named_from_table s -> named_upto s.
  Proof.
    destruct s as [o g gi| | |]; cbn [named_from_table named_upto]; auto.
    destruct (gname gi) as [name|], (gargs gi) as [args|]; auto. intros H. exists g. auto.
  Qed.

  Lemma coherent_coherent_upto ir : coherent ir -> coherent_upto ir.
  Proof. apply Forall_impl. exact named_from_table_upto. Qed.

  Lemma named_upto_qubits o g gi :
    gname gi <> None -> named_upto (SGate o g gi) -> coherent_qubits (SGate o g gi).
  Proof.
    destruct gi as [[name|] [args|]]; cbn [named_upto gname gargs]; intros Hn H;
      try (now elim Hn); try (intros gi' E Ha; inversion E; subst; discriminate Ha).
    destruct H as (g0 & Hd & Hq & _).
    pose proof (default_gate_args_agree _ _ _ _ _ o Hd) as Hag.
    intros gi' E Ha. inversion E; subst gi'. cbn [stmt_qubits]. rewrite <- Hq. exact (Hag _ eq_refl Ha).
  Qed.

  Lemma pair_upto_transfer g g' gi :
    pair_upto (g, gi) -> gate_qubits g = gate_qubits g' -> is_bsr_gate g' = true -> pair_upto (g', gi).
  Proof.
    unfold pair_upto. cbn [fst snd named_upto].
    destruct (gname gi) as [name|], (gargs gi) as [args|]; auto.
    intros (g0 & Hd & Hq & _) Hqq Hb. exists g0. repeat split; auto; [congruence|]. rewrite Hb. discriminate.
  Qed.

  Lemma compose_gates_upto a x y :
    pair_upto a -> pair_upto x -> compose_gates N a x = Ok y -> pair_upto y.
  Proof.
    unfold compose_gates. destruct a as [ga gia], x as [gb gib]. cbn [fst snd].
    destruct ga as [qa axa anga pha| |]; try discriminate.
    destruct gb as [qb axb angb phb| |]; try discriminate.
    destruct (Z.eqb_spec qa qb) as [<-|]; [|discriminate]. intros Ha Hb H; inversion H; clear H.
    destruct (compose_on N qa axa anga pha gia axb angb phb gib) as (ax & an & ph & E).
    pose proof (compose_info qa axa anga pha gia axb angb phb gib) as Hi. cbv zeta in Hi.
    destruct (compose N qa axa anga pha gia axb angb phb gib) as [g gi]. cbn [fst snd] in *. subst g.
    destruct Hi as [->|[[_ ->]|[_ [_ ->]]]].
    - exact I.
    - eapply pair_upto_transfer; [exact Hb|reflexivity|reflexivity].
    - eapply pair_upto_transfer; [exact Ha|reflexivity|reflexivity].
  Qed.

  Theorem merge_coherent_upto n ir ir' :
    coherent_upto ir -> merge N n ir = Ok ir' -> coherent_upto ir'.
  Proof.
    apply (merge_preserves named_upto (fun x => pair_upto x /\ is_rot_pair x)).
    - intros x o [H _]. exact H.
    - intros o q ax an ph gi H. split; [exact H|]. now exists q, ax, an, ph.
    - intros q. split; [apply named_from_table_upto, from_table_named, ident_from_table|apply ident_rot].
    - intros a x y [Ha _] [Hx _] H. split; [exact (compose_gates_upto a x y Ha Hx H)|exact (compose_gates_rot a x y H)].
    - intros x [Hx (q & ax & an & ph & E)]. split; [|apply fname_rot; now exists q, ax, an, ph].
      destruct (fname_cases x q ax an ph E) as [->|Hf]; [exact Hx|].
      now apply named_from_table_upto, from_table_named.
  Qed.

  Theorem decompose_loop_coherent_upto dec next ir r out :
    dec_from_table dec ->
    coherent_upto ir -> decompose_loop N dec next [] ir = (r, out) -> coherent_upto out.
  Proof.
    intros Hd Hc H. eapply decompose_loop_preserves; [|exact H|exact Hc].
    intros o g gi items nx Hs Hacc.
    assert (HP : forall x, from_table x -> pair_upto x)
      by (intros x Hx; now apply named_from_table_upto, from_table_named).
    pose proof (materialise_coherent dec pair_upto Hd HP o g gi items nx Hs Hacc) as HF.
    eapply Forall_impl; [|exact HF]. intros [o' g' gi'| | |]; auto.
  Qed.

  Lemma is_bsr_gate_map f (g : gate T) : is_bsr_gate (map_gate_qubits f g) = is_bsr_gate g.
  Proof. destruct g; reflexivity. Qed.

  Lemma remap_stmt_upto f (s : stmtT) :
    inj_on f (stmt_all_qubits s) -> named_upto s -> named_upto (remap_stmt f s).
  Proof.
    destruct s as [o g gi|o q b ax gi|o q gi|t]; cbn [remap_stmt named_upto]; auto.
    destruct gi as [[name|] [args|]]; cbn [map_ginfo gname gargs option_map]; auto.
    intros Hinj (g0 & Hd & Hq & Hb).
    apply (default_gate_map f) in Hd.
    - exists (map_gate_qubits f g0). split; [exact Hd|]. split.
      + rewrite !gate_qubits_map. now rewrite Hq.
      + rewrite is_bsr_gate_map. intros Hg. now rewrite (Hb Hg).
    - eapply inj_on_incl; [|exact Hinj]. cbn [stmt_all_qubits]. intros z Hz. apply in_or_app. right. exact Hz.
  Qed.

  Theorem remap_coherent_upto nq (l : list Z) ir ir' :
    mapping_ok l = true ->
    coherent_upto ir -> remap nq l ir = Ok ir' -> coherent_upto ir'.
  Proof.
    intros Hok Hc H. pose proof (remap_ok_covered _ _ _ _ H) as Hcov.
    rewrite (remap_relabels _ _ _ _ H). apply Forall_forall. intros s' Hs'.
    apply in_map_iff in Hs'. destruct Hs' as [s [<- Hs]].
    unfold coherent_upto in Hc. rewrite Forall_forall in Hc, Hcov.
    apply remap_stmt_upto; [|now apply Hc]. apply apply_mapping_inj_on; auto.
  Qed.

  Theorem pass_preserves_coherent_upto nq p ir ir' :
    pass_ok p -> coherent_upto ir -> run_pass nq p ir = Ok ir' -> coherent_upto ir'.
  Proof.
    intros Hok Hc H. destruct p as [d|target r| |l]; cbn [run_pass pass_ok] in *.
    - destruct (decompose N d ir) as [[e|] out] eqn:E; inversion H; subst.
      eapply decompose_loop_coherent_upto; [apply run_decomposer_from_table|exact Hc|exact E].
    - destruct (replace N target r ir) as [[e|] out] eqn:E; inversion H; subst.
      eapply decompose_loop_coherent_upto; [apply run_replacer_from_table|exact Hc|exact E].
    - eapply merge_coherent_upto; eauto.
    - eapply remap_coherent_upto; eauto.
  Qed.

  (* C05 without any numeric hypothesis: any sequence of passes (mappings being
     permutations) keeps the circuit well-formed and coherent up to the rotation
     fields of merged single-qubit rotations *)
  Theorem passes_preserve_upto nq nb ps : forall ir ir',
    Forall pass_ok ps ->
    wf_ir nq nb ir -> coherent_upto ir -> run_passes nq ps ir = Ok ir' ->
    wf_ir nq nb ir' /\ coherent_upto ir'.
  Proof.
    induction ps as [|p ps IH]; intros ir ir' Hok Hwf Hc H; cbn [run_passes] in H.
    - inversion H; subst. auto.
    - inversion Hok as [|? ? Hp Hps]; subst.
      destruct (run_pass nq p ir) as [ir1|e] eqn:E; [|discriminate].
      apply (IH ir1 ir' Hps); auto.
      + eapply pass_preserves_wf; eauto.
      + eapply pass_preserves_coherent_upto; eauto.
  Qed.

End PassesP.

Arguments compose_identity_exact {T} N.

(* ------------------------------------------------------------------ *)
(** * The hypothesis of [merge_coherent_partial] cannot be dropped      *)
(* ------------------------------------------------------------------ *)

(* In the toy dictionary of MergeP ([compose] adds angles and recomputes the
   axis) the circuit [X q0] is well-formed and coherent, the merger accepts
   it, and the result is a statement still called X(q0) whose rotation fields
   are not those of X(q0). *)
Definition toy_X : stmt Z :=
  SGate 1%positive (BSR 0 (1000, 0, 0) 100000 100000) (mkGinfo (Some "X"%string) (Some [AQ 0])).

Theorem merge_coherent_refuted :
  exists (T : Type) (N : Num T) (ir ir' : list (stmt T)),
    wf_ir 1 0 ir /\ coherent N ir /\ merge N 1 ir = Ok ir' /\ ~ coherent N ir'.
Proof.
  exists Z, toyNum, [toy_X]. eexists. split; [|split; [|split]].
  - constructor; [|constructor]. split; [|reflexivity].
    cbn [toy_X stmt_qubits gate_qubits]. constructor; [lia|constructor].
  - constructor; [|constructor]. unfold toy_X. cbn [named_from_table gname gargs]. vm_compute. reflexivity.
  - vm_compute. reflexivity.
  - intros H. inversion H as [|? ? Hs _]; subst. cbn [named_from_table gname gargs] in Hs.
    vm_compute in Hs. discriminate Hs.
Qed.

Lemma toyNum_compose_not_exact : ~ compose_identity_exact toyNum.
Proof.
  intros H.
  specialize (H 0 (1000, 0, 0) 100000 100000 (mkGinfo (Some "X"%string) (Some [AQ 0]))
                (1000, 0, 0) 0 0 (mkGinfo (Some "I"%string) (Some [AQ 0]))).
  cbv zeta in H. vm_compute in H. specialize (H eq_refl). discriminate H.
Qed.

(* the hypothesis is not contradictory: it holds (vacuously, every composition
   being anonymous) in the degenerate dictionary of MergeP *)
Lemma compose_identity_exact_consistent : compose_identity_exact (unitNum true).
Proof. intros q axa anga pha gia axb angb phb gib r H. vm_compute in H. discriminate H. Qed.

(* ------------------------------------------------------------------ *)
(** * Assumptions                                                       *)
(* ------------------------------------------------------------------ *)
Print Assumptions check_replacement_subset.
Print Assumptions default_gate_nodup.
Print Assumptions default_gate_map.
Print Assumptions run_decomposer_from_table.
Print Assumptions run_replacer_from_table.
Print Assumptions decompose_loop_wf.
Print Assumptions decompose_wf.
Print Assumptions decompose_coherent.
Print Assumptions decompose_qubits_coherent.
Print Assumptions replace_wf.
Print Assumptions replace_coherent.
Print Assumptions merge_wf.
Print Assumptions merge_qubits_coherent.
Print Assumptions merge_coherent_partial.
Print Assumptions merge_coherent_upto.
Print Assumptions merge_coherent_refuted.
Print Assumptions remap_wf.
Print Assumptions remap_coherent.
Print Assumptions passes_preserve_wf.
Print Assumptions passes_preserve.
Print Assumptions passes_preserve_restricted.
Print Assumptions passes_preserve_no_merge.
Print Assumptions passes_preserve_upto.
