(* SemDecP.v — the two remaining decomposers (McKay, CNOT) preserve the operation of a circuit, in the
   Kraus-operator semantics of Theory/Kraus.v (gates, measurements, resets, comments; every assignment of
   outcomes); sequences of passes.  In the style of [aba_decompose_circuit_same_operation_any] of SemP.v.

   A. [mckay_decompose_circuit_same_operation_any]: the McKay decomposer on ANY statement list and ANY register,
      finished or raised half-way, every rotation satisfying [mckay_exact_ok] (the hypotheses of
      [mckay_gates_exact_matrix]: all five branches).  [mckay_gates_relabel], [mckay_proposal_exact].
   B. [cnot_decompose_circuit_same_operation_any]: the same for the CNOT decomposer, any control c and target t
      of any register, every controlled rotation satisfying [cnot_exact_ok] = [cnot_regime] (the hypotheses of
      [cnot_gates_exact_partial] plus [rounding_harmless]; both branches) or [cnot_regime_two] (two CNOTs,
      with the rounding of the model at RNum as it is).  [cnot_gates_relabel] (output for (f c, f t) = output for
      (c, t) relabelled), [cnot_gates_qubits], [small_proportional_register] (proportional on the gate's own
      qubits => proportional, same factor, on the register), [cnot_gates_R_X] (RNum against the idealised RNumX
      of CNOTP), [two_list_exact], [cnot_gates_10_exact], [cnot_proposal_exact].
   C. the hypotheses are satisfiable: [aba_exact_ok_H], [aba_exact_ok_X], [mckay_exact_ok_H], [mckay_exact_ok_X],
      [cnot_exact_ok_CNOT] (one CNOT), [cnot_exact_ok_CY] (two CNOTs, real rounding), and a circuit
      [demo_ir] = H q1; measure q1 -> b0; reset q0; CNOT q2 q0 on three qubits with [demo_*_same_operation] and
      [demo_denotes] (it denotes an operator for every assignment of outcomes).
   D. [pass], [run_pass], [pass_ok], [pass_same_operation]; [run_ok], [passes_same_operation]; the functional
      form [run_passes], [passes_ok], [run_passes_same_operation].
   Everything is at RNum. *)
From Coq Require Import Reals ZArith NArith List Bool Lia Lra Arith.
Import ListNotations.
From OSQ Require Import Num IR Bits Construct DefaultTable Matrix Check ABA Merge McKay CNOTDec Decompose
     RTrig RNum SU2 Kraus.
From OSQ Require Import ConstructP MatrixP CheckP EmbedP DecomposeP DefaultP ABAP ComposeP CNOTP McKayP SemBaseP SemP.
From Coq Require String.
Close Scope string_scope.
Close Scope N_scope.
Close Scope R_scope.
Open Scope nat_scope.

(* ================================================================== *)
(* A. the McKay decomposer on any statement list                       *)

Local Open Scope R_scope.

(* the hypotheses of [mckay_gates_exact_matrix] (McKayP) for a rotation: unit axis, angle in (-PI, PI] and not
   within ATOL of -PI, and every tolerance test of the decomposer agreeing with its exact counterpart
   ([mckay_regime], all branches: [], [Rz], Z-X90-Z, [X90; X90], the 3..5 gate list); gates that are not
   rotations pass through *)
Definition mckay_exact_ok (g : gate R) : Prop :=
  match g with
  | BSR _ ax alpha _ =>
      unit_axis ax /\ - PI < alpha <= PI /\ - PI + ABAP.ATOL <= alpha /\ mckay_regime ax alpha
  | _ => True
  end.

Close Scope R_scope.

(* the gates proposed for a rotation on qubit q are those proposed for the same rotation on qubit 0, moved to q *)
Lemma mckay_gates_relabel q ax angle l0 :
  mckay_gates RNum 0 ax angle = Ok l0 ->
  exists lq, mckay_gates RNum q ax angle = Ok lq /\
             map fst lq = map (map_gate_qubits (fun _ => q)) (map fst l0).
Proof.
  rewrite !mckay_gates_R.
  destruct (Rltb (Rabs angle) ATOL).
  { intros H. apply Ok_inj in H. subst l0. eexists. split; reflexivity. }
  destruct (Reqb (ax_x ax) 0 && Reqb (ax_y ax) 0).
  { intros H. apply Ok_inj in H. subst l0. eexists. split; [reflexivity|].
    unfold rz. rewrite !rot_gate_full. reflexivity. }
  rewrite !aba_gates_zg.
  destruct (aba_angles RNum AxZ AxX angle ax) as [[[t1 t2] t3]|e]; [|discriminate].
  rewrite !zxz_mid_filter, !zxz_filter.
  destruct (Rltb _ ATOL).
  - destruct (keepb t1), (keepb t2), (keepb t3); cbn [app]; intros H; apply Ok_inj in H; subst l0;
      (eexists; split; [reflexivity|]); rewrite ?x90_full; reflexivity.
  - intros H. apply Ok_inj in H. subst l0. eexists. split; [reflexivity|].
    unfold mckay_tail, opt_rz, rz. rewrite !x90_full, !rot_gate_full.
    repeat match goal with |- context [if ?b then _ else _] => destruct b end; reflexivity.
Qed.

(* what the McKay decomposer proposes has, on any register, the matrix of the gate up to a global phase *)
Theorem mckay_proposal_exact n (g : gate R) gi items A :
  mckay_exact_ok g ->
  mckay_decompose RNum g gi = Ok items ->
  get_matrix RNum n g = Ok A ->
  exists B, gates_matrix RNum n (map (item_gate g) items) = Ok B /\ mequiv B A.
Proof.
  intros Hok Hd HA. destruct g as [q ax alpha phase|c g'|m ops].
  - cbn [mckay_decompose] in Hd.
    match type of Hd with context [if ?b then _ else _] => destruct b end.
    { apply Ok_inj in Hd. subst items. now apply Hdec_same. }
    cbn [mckay_exact_ok] in Hok. destruct Hok as (Hu & Hr & Hlow & Hreg).
    destruct (mckay_gates_exact_matrix ax alpha phase Hu Hr Hlow Hreg) as (l0 & Hl0 & phi & Hprod).
    destruct (mckay_gates_relabel q ax alpha l0 Hl0) as (lq & Hlq & Hmap).
    rewrite Hlq in Hd. apply Ok_inj in Hd. subst items.
    rewrite news_gates, Hmap.
    assert (Hbsr : forall g, In g (map fst l0) -> exists ax' a p, g = BSR 0 ax' a p).
    { pose proof (mckay_gates_rot0 ax alpha l0 Hl0) as Hrot. rewrite Forall_forall in Hrot.
      intros g Hg. destruct (Hrot g Hg) as (ax' & t & ->). eexists; eexists; eexists; reflexivity. }
    pose proof (get_matrix_ok_range RNum n _ A HA q (or_introl eq_refl)) as Hq.
    rewrite (get_matrix_bsr_lift1 n q ax alpha phase Hq) in HA. apply Ok_inj in HA. subst A.
    rewrite (bsr_product_lifts n q (map fst l0) _ Hbsr Hprod Hq).
    rewrite (embed1_lift1 _ _ _ Hq), (lift1_mscale n q _ _ (shape_can1 RNum ax alpha phase)).
    eexists. split; [reflexivity|]. apply mequiv_mscale, unit_c_cis.
  - cbn [mckay_decompose] in Hd. apply Ok_inj in Hd. subst items. now apply Hdec_same.
  - cbn [mckay_decompose] in Hd. apply Ok_inj in Hd. subst items. now apply Hdec_same.
Qed.

Lemma mckay_Hdec n ir :
  (forall o g gi, In (SGate o g gi) ir -> mckay_exact_ok g) ->
  Hdec_on n (run_decomposer RNum DecMcKay) ir.
Proof.
  intros Hir oid g gi items A Hin Hd _ HA. cbn [run_decomposer] in Hd.
  exact (mckay_proposal_exact n g gi items A (Hir oid g gi Hin) Hd HA).
Qed.

(* ANY statement list (gates, measurements, resets, comments) on ANY register, finished or raised half-way *)
Theorem mckay_decompose_circuit_same_operation_any n ir r out :
  (forall o g gi, In (SGate o g gi) ir -> mckay_exact_ok g) ->
  decompose RNum DecMcKay ir = (r, out) ->
  same_operation n ir out.
Proof.
  intros Hir H. apply (decompose_same_operation_any n DecMcKay ir r out); [|exact H].
  now apply mckay_Hdec.
Qed.


(* ================================================================== *)
(* B. the CNOT decomposer on any statement list                        *)

Module DecNames.
Import String.
Local Open Scope string_scope.
Definition x_info_at (t : Z) : ginfo R := gi "X" [AQ t].
Definition cnot_info_at (c t : Z) : ginfo R := gi "CNOT" [AQ c; AQ t].
Lemma X_eval_at t : default_gate RNum "X" [AQ t] = Ok (BSR t (1, 0, 0)%R PI (PI / 2)%R, x_info_at t).
Proof. rewrite X_eval, X_bsr. reflexivity. Qed.
Lemma CNOT_eval_at c t : c <> t ->
  cnot RNum c t = Ok (Ctrl c (BSR t (1, 0, 0)%R PI (PI / 2)%R), cnot_info_at c t).
Proof. intros Hne. unfold cnot. rewrite CNOT_eval, X_bsr, mk_ctrl_bsr_ok by exact Hne. reflexivity. Qed.
Lemma CNOT_eval_same c : cnot RNum c c = Err EValue.
Proof. unfold cnot. rewrite CNOT_eval, X_bsr, mk_ctrl_bsr_same. reflexivity. Qed.
Lemma x_info_at_0 : x_info_at 0 = x_info.
Proof. reflexivity. Qed.
End DecNames.
Import DecNames.

Local Open Scope R_scope.

(* X.U as the decomposer composes it on the target qubit, at RNum: the three axis components and the phase are
   rounded to 7 decimals before the constructor re-normalises the axis *)
Definition xuR (t : Z) (ax : axis3 R) (angle phase : R) : gate R :=
  fst (compose RNum t (1, 0, 0) PI (PI / 2) (x_info_at t) ax angle phase anon).

Definition cn_ct (c t : Z) : gate R * ginfo R := (Ctrl c (BSR t (1, 0, 0) PI (PI / 2)), cnot_info_at c t).

Definition single_ct (c t : Z) (ax : axis3 R) (angle phase t1x t2x : R) : list (gate R * ginfo R) :=
  [rot_gate RNum AxZ t t2x; rot_gate RNum AxY t (t1x / 2); cn_ct c t;
   rot_gate RNum AxY t (- t1x / 2); rot_gate RNum AxZ t (- t2x);
   rot_gate RNum AxZ c (code_cphase ax angle phase t1x t2x)].

Definition two_ct (c t : Z) (phase t0 t1 t2 : R) : list (gate R * ginfo R) :=
  [rot_gate RNum AxZ t ((t0 - t2) / 2); cn_ct c t;
   rot_gate RNum AxZ t (- (t0 + t2) / 2); rot_gate RNum AxY t (- t1 / 2); cn_ct c t;
   rot_gate RNum AxY t (t1 / 2); rot_gate RNum AxZ t t2;
   rot_gate RNum AxZ c phase].

Lemma cnot_gates_R_unfold c t ax angle phase : c <> t ->
  cnot_gates RNum c t ax angle phase =
  match xuR t ax angle phase with
  | BSR _ axx angx _ =>
      match aba_angles RNum AxZ AxY angx axx with
      | Err e => Err e
      | Ok (t0x, t1x, t2x) =>
          if Rltb (Rabs (nmod RNum (t0x - t2x) (2 * PI))) ATOL then
            Ok (filter_identities RNum (single_ct c t ax angle phase t1x t2x))
          else
            match aba_angles RNum AxZ AxY angle ax with
            | Err e => Err e
            | Ok (t0, t1, t2) => Ok (filter_identities RNum (two_ct c t phase t0 t1 t2))
            end
      end
  | _ => Err EOther
  end.
Proof.
  intros Hne. unfold cnot_gates. rewrite X_eval_at, (CNOT_eval_at c t Hne).
  unfold compose_gates, xuR. cbn [fst snd]. rewrite Z.eqb_refl.
  destruct (compose RNum t (1, 0, 0) PI (PI / 2) (x_info_at t) ax angle phase anon) as [g gi0].
  cbn [fst]. destruct g as [q axx angx phx | c' g' | m ops]; [|reflexivity|reflexivity].
  destruct (aba_angles RNum AxZ AxY angx axx) as [[[t0x t1x] t2x]|e]; [|reflexivity].
  reflexivity.
Qed.

(* the composed rotation does not depend on the qubit index or on the generator names *)
Lemma compose_fst_qubit t axa anga pha gia gia' axb angb phb gib gib' :
  fst (compose RNum t axa anga pha gia axb angb phb gib) =
  map_gate_qubits (fun _ => t) (fst (compose RNum 0 axa anga pha gia' axb angb phb gib')).
Proof.
  unfold compose. cbv zeta.
  match goal with |- context [if ?b then (bsr_identity _ _, _) else _] => destruct b end; reflexivity.
Qed.

Lemma xuR_qubit t ax angle phase : xuR t ax angle phase = map_gate_qubits (fun _ => t) (xuR 0 ax angle phase).
Proof. apply compose_fst_qubit. Qed.

Lemma fst_rot_gate_relabel f a q x :
  map_gate_qubits f (fst (rot_gate RNum a q x)) = fst (rot_gate RNum a (f q) x).
Proof. rewrite !rot_gate_fst. reflexivity. Qed.

Lemma map_fst_filter_identities_relabel f (l l' : list (gate R * ginfo R)) :
  map fst l' = map (map_gate_qubits f) (map fst l) ->
  map fst (filter_identities RNum l') = map (map_gate_qubits f) (map fst (filter_identities RNum l)).
Proof.
  intros H. rewrite !gates_of_list, H.
  apply filter_map_commute. intros g. now rewrite is_identity_relabel.
Qed.

(* (i) the decomposer's output for control f c and target f t is its output for (c, t), relabelled *)
Lemma cnot_gates_relabel f c t ax angle phase l :
  c <> t -> f c <> f t ->
  cnot_gates RNum c t ax angle phase = Ok l ->
  exists l', cnot_gates RNum (f c) (f t) ax angle phase = Ok l' /\
             map fst l' = map (map_gate_qubits f) (map fst l).
Proof.
  intros Hne Hne'. rewrite (cnot_gates_R_unfold c t ax angle phase Hne).
  rewrite (cnot_gates_R_unfold (f c) (f t) ax angle phase Hne').
  rewrite (xuR_qubit t), (xuR_qubit (f t)).
  destruct (xuR 0 ax angle phase) as [q axx angx phx|c' g'|m ops]; cbn [map_gate_qubits]; try discriminate.
  destruct (aba_angles RNum AxZ AxY angx axx) as [[[t0x t1x] t2x]|e]; [|discriminate].
  destruct (Rltb (Rabs (nmod RNum (t0x - t2x) (2 * PI))) ATOL).
  - intros H. apply Ok_inj in H. subst l. eexists. split; [reflexivity|].
    apply map_fst_filter_identities_relabel. unfold single_ct. cbn [map].
    rewrite !fst_rot_gate_relabel. reflexivity.
  - destruct (aba_angles RNum AxZ AxY angle ax) as [[[t0 t1] t2]|e]; [|discriminate].
    intros H. apply Ok_inj in H. subst l. eexists. split; [reflexivity|].
    apply map_fst_filter_identities_relabel. unfold two_ct. cbn [map].
    rewrite !fst_rot_gate_relabel. reflexivity.
Qed.

(* the gates it emits act on the control and the target only *)
Lemma cnot_gates_qubits c t ax angle phase l :
  c <> t -> cnot_gates RNum c t ax angle phase = Ok l ->
  forall g, In g (map fst l) -> incl (gate_qubits g) [t; c] /\ mat_ops_nodup g.
Proof.
  intros Hne. rewrite (cnot_gates_R_unfold c t ax angle phase Hne).
  destruct (xuR t ax angle phase) as [q axx angx phx|c' g'|m ops]; try discriminate.
  destruct (aba_angles RNum AxZ AxY angx axx) as [[[t0x t1x] t2x]|e]; [|discriminate].
  assert (Hall : forall l0 : list (gate R * ginfo R),
            (forall g, In g (map fst l0) -> incl (gate_qubits g) [t; c] /\ mat_ops_nodup g) ->
            forall g, In g (map fst (filter_identities RNum l0)) -> incl (gate_qubits g) [t; c] /\ mat_ops_nodup g).
  { intros l0 H g Hg. rewrite gates_of_list in Hg. apply filter_In in Hg. apply H, Hg. }
  destruct (Rltb (Rabs (nmod RNum (t0x - t2x) (2 * PI))) ATOL).
  - intros H. apply Ok_inj in H. subst l. apply Hall. unfold single_ct. cbn [map]. rewrite !rot_gate_fst.
    cbn [fst cn_ct]. intros g Hg. cbn [In] in Hg.
    repeat (destruct Hg as [<-|Hg]; [split; [|exact I]; cbn [gate_qubits]; intros z Hz; cbn [In] in *; tauto|]).
    destruct Hg.
  - destruct (aba_angles RNum AxZ AxY angle ax) as [[[t0 t1] t2]|e]; [|discriminate].
    intros H. apply Ok_inj in H. subst l. apply Hall. unfold two_ct. cbn [map]. rewrite !rot_gate_fst.
    cbn [fst cn_ct]. intros g Hg. cbn [In] in Hg.
    repeat (destruct Hg as [<-|Hg]; [split; [|exact I]; cbn [gate_qubits]; intros z Hz; cbn [In] in *; tauto|]).
    destruct Hg.
Qed.

(* (ii) from the gate's own qubits to the register, up to a factor: a list of gates and a gate, all on the qubits
   idx, whose matrices on length idx qubits are proportional, have proportional matrices (same factor) on every
   register that holds the gate *)
Lemma small_proportional_register idx n (gs : list (gate R)) (g : gate R) M' z A :
  NoDup idx -> incl (gate_qubits g) idx -> mat_ops_nodup g ->
  (forall g0, In g0 gs -> incl (gate_qubits g0) idx /\ mat_ops_nodup g0) ->
  (forall q, In q idx -> (0 <= q < n)%Z) ->
  gates_matrix RNum (Z.of_nat (length idx)) (map (map_gate_qubits (zpos idx)) gs) = Ok (mscale z M') ->
  get_matrix RNum (Z.of_nat (length idx)) (map_gate_qubits (zpos idx) g) = Ok M' ->
  get_matrix RNum n g = Ok A ->
  gates_matrix RNum n gs = Ok (mscale z A).
Proof.
  intros Hnd Hg Hgn Hgs Hrange Hsmall Hgsmall HA.
  assert (HexB : exists B, gates_matrix RNum n gs = Ok B).
  { apply gates_matrix_ok_all. intros g0 Hg0.
    apply (get_matrix_embed_ok RNum idx n g0); [apply (Hgs g0 Hg0)|exact Hrange|].
    apply (gates_matrix_ok_inv _ _ _ Hsmall). now apply in_map. }
  destruct HexB as [B HB]. rewrite HB. f_equal.
  assert (EB : embeds idx n B (mscale z M')).
  { exact (gates_matrix_embed idx n gs B (mscale z M') Hnd Hrange Hgs HB Hsmall). }
  assert (EA : embeds idx n A M').
  { apply (gates_matrix_embed idx n [g] A M' Hnd Hrange).
    - intros g0 [<-|[]]. split; assumption.
    - now apply gates_matrix_single.
    - cbn [map]. now apply gates_matrix_single. }
  apply (mat_ext RNum (zpow2 n) (zpow2 n)).
  - exact (circuit_matrix_wf RNum n _ B HB).
  - apply mscale_wf. exact (get_matrix_wf RNum n g A HA).
  - intros r c Hr Hc. rewrite mget_mscale.
    apply (embedded_proportional idx n M' (mscale z M') A B z EA EB); auto.
    intros i j _ _. apply mget_mscale.
Qed.

(* ---- the link between the model at RNum and the idealised model of CNOTP ---- *)

Definition axis_angle (g : gate R) : option (axis3 R * R) :=
  match g with BSR _ a x _ => Some (a, x) | _ => None end.

(* the rounding to 7 decimals inside [compose] does not move the axis of X.U: the composed rotation has the same
   (re-normalised) axis and the same angle with and without the rounding.  The rounded phase is not used by
   the decomposer. *)
Definition rounding_harmless (ax : axis3 R) (angle phase : R) : Prop :=
  axis_angle (xuR 0 ax angle phase) = axis_angle (xu_gate ax angle phase).

Lemma cnot_gates_R_X ax angle phase :
  rounding_harmless ax angle phase ->
  cnot_gates RNum 1 0 ax angle phase = cnot_gates RNumX 1 0 ax angle phase.
Proof.
  unfold rounding_harmless.
  rewrite (cnot_gates_R_unfold 1 0 ax angle phase) by discriminate. rewrite cnot_gates_unfold.
  destruct (xuR 0 ax angle phase) as [q axx angx phx|c' g'|m ops];
    destruct (xu_gate ax angle phase) as [q2 axx2 angx2 phx2|c2 g2|m2 ops2];
    cbn [axis_angle]; intros H; try discriminate H; try reflexivity.
  injection H as -> ->. reflexivity.
Qed.

Lemma cnot_gates_same c ax angle phase : cnot_gates RNum c c ax angle phase = Err EValue.
Proof. unfold cnot_gates. rewrite X_eval_at, CNOT_eval_same. reflexivity. Qed.

(* ---- the exactness hypotheses ---- *)

(* the hypotheses of [cnot_gates_exact_partial] (CNOTP) for the controlled rotation of axis ax, plus
   [rounding_harmless]; the conditions on the identity filter are asked only in the branch that emits the
   angles.  Both branches (one CNOT, two CNOTs) are covered. *)
Definition cnot_regime (ax : axis3 R) (angle phase : R) : Prop :=
  unit_axis ax /\ - PI < angle <= PI /\ - PI + ATOL <= angle /\ exact_regime AxZ AxY angle ax /\
  compose_regime (1, 0, 0) ax PI angle /\
  rounding_harmless ax angle phase /\
  (forall q axx angx phx, xu_gate ax angle phase = BSR q axx angx phx ->
     - PI < angx <= PI /\ - PI + ATOL <= angx /\ exact_regime AxZ AxY angx axx) /\
  (forall q axx angx phx t0x t1x t2x,
     xu_gate ax angle phase = BSR q axx angx phx ->
     aba_angles RNum AxZ AxY angx axx = Ok (t0x, t1x, t2x) ->
     (nmod RNum (t0x - t2x) (2 * PI) = 0 /\
      filter_exact t2x /\ filter_exact (t1x / 2) /\ filter_exact (- t1x / 2) /\ filter_exact (- t2x) /\
      filter_exact (code_cphase ax angle phase t1x t2x)) \/
     (ATOL <= Rabs (nmod RNum (t0x - t2x) (2 * PI)) /\
      forall t0 t1 t2, aba_angles RNum AxZ AxY angle ax = Ok (t0, t1, t2) ->
        filter_exact ((t0 - t2) / 2) /\ filter_exact (- (t0 + t2) / 2) /\ filter_exact (- t1 / 2) /\
        filter_exact (t1 / 2) /\ filter_exact t2 /\ filter_exact phase)).

(* the two-CNOT branch whatever the rounding does: X.U as the model at RNum composes it (axis rounded to 7
   decimals, [xuR]) fails the one-CNOT test by the margin ATOL; then only the Z-Y-Z angles of U itself are emitted,
   and nothing about X.U is needed *)
Definition cnot_regime_two (ax : axis3 R) (angle phase : R) : Prop :=
  unit_axis ax /\ - PI < angle <= PI /\ - PI + ATOL <= angle /\ exact_regime AxZ AxY angle ax /\
  (forall q axx angx phx t0x t1x t2x,
     xuR 0 ax angle phase = BSR q axx angx phx ->
     aba_angles RNum AxZ AxY angx axx = Ok (t0x, t1x, t2x) ->
     ATOL <= Rabs (nmod RNum (t0x - t2x) (2 * PI))) /\
  (forall t0 t1 t2, aba_angles RNum AxZ AxY angle ax = Ok (t0, t1, t2) ->
     filter_exact ((t0 - t2) / 2) /\ filter_exact (- (t0 + t2) / 2) /\ filter_exact (- t1 / 2) /\
     filter_exact (t1 / 2) /\ filter_exact t2 /\ filter_exact phase).

(* What is left out: (a) gates for which some tolerance test of the decomposer (the Z-Y-Z thresholds of
   [aba_angles] for U and for X.U, the shortcut of [compose], the branch test |(theta0 - theta2) mod 2 PI| < ATOL,
   the identity filter) disagrees with its exact counterpart - there the output is only approximately the gate;
   (b) in the one-CNOT branch, rotations for which rounding the axis of X.U to 7 decimals moves it (CNOTP
   idealises that rounding, instance RNumX): the emitted angles then come from a slightly different rotation.
   Everything that is not a controlled rotation passes through ([DSame]). *)
Definition cnot_exact_ok (g : gate R) : Prop :=
  match g with
  | Ctrl _ (BSR _ ax angle phase) => cnot_regime ax angle phase \/ cnot_regime_two ax angle phase
  | _ => True
  end.

(* the hypotheses of [cnot_gates_exact_partial] as they stand there, with [rounding_harmless], give [cnot_exact_ok] *)
Lemma cnot_exact_ok_of_partial_hyps c t ax angle phase :
  unit_axis ax ->
  - PI < angle <= PI -> - PI + ATOL <= angle -> exact_regime AxZ AxY angle ax ->
  compose_regime (1, 0, 0) ax PI angle ->
  (forall q axx angx phx, xu_gate ax angle phase = BSR q axx angx phx ->
     - PI < angx <= PI /\ - PI + ATOL <= angx /\ exact_regime AxZ AxY angx axx) ->
  (forall q axx angx phx t0x t1x t2x,
     xu_gate ax angle phase = BSR q axx angx phx ->
     aba_angles RNum AxZ AxY angx axx = Ok (t0x, t1x, t2x) ->
     (nmod RNum (t0x - t2x) (2 * PI) = 0 /\
      filter_exact t2x /\ filter_exact (t1x / 2) /\ filter_exact (- t1x / 2) /\ filter_exact (- t2x) /\
      filter_exact (code_cphase ax angle phase t1x t2x)) \/
     ATOL <= Rabs (nmod RNum (t0x - t2x) (2 * PI))) ->
  (forall t0 t1 t2, aba_angles RNum AxZ AxY angle ax = Ok (t0, t1, t2) ->
     filter_exact ((t0 - t2) / 2) /\ filter_exact (- (t0 + t2) / 2) /\ filter_exact (- t1 / 2) /\
     filter_exact (t1 / 2) /\ filter_exact t2 /\ filter_exact phase) ->
  rounding_harmless ax angle phase ->
  cnot_exact_ok (Ctrl c (BSR t ax angle phase)).
Proof.
  intros Hu Hrange Hlow Hreg Hcr HregX Hbranch Hfilt2 Hrh. cbn [cnot_exact_ok]. left. unfold cnot_regime.
  repeat (split; [assumption|]).
  intros q axx angx phx t0x t1x t2x Hxu Hxang.
  destruct (Hbranch q axx angx phx t0x t1x t2x Hxu Hxang) as [H|H]; [left; exact H|right; split; assumption].
Qed.

(* the two-CNOT list of CNOTP by itself (the matrix part of [cnot_gates_two_exact], which is stated there
   together with the branch taken by the idealised model) *)
Lemma two_list_exact ax angle phase t0 t1 t2 :
  qmul (qrz t2) (qmul (qry t1) (qrz t0)) = qrot ax angle ->
  filter_exact ((t0 - t2) / 2) -> filter_exact (- (t0 + t2) / 2) -> filter_exact (- t1 / 2) ->
  filter_exact (t1 / 2) -> filter_exact t2 -> filter_exact phase ->
  exists phi, gates_matrix RNum 2 (map fst (filter_identities RNum (two_list phase t0 t1 t2))) =
              Ok (mscale (cis RNum phi) (ctrlU ax angle phase)).
Proof.
  intros Hprod F1 F2 F3 F4 F5 F6.
  rewrite gates_of_list. unfold two_list. cbn [map]. rewrite !rot_gate_fst. cbn [fst cn_gate].
  rewrite gates_matrix_bd4.
  2:{ apply Forall_forall. intros g Hg. apply filter_In in Hg. destruct Hg as [Hg _]. ok_gates Hg. }
  rewrite bprod_filter.
  2:{ intros g Hg Hk. cbn [In] in Hg.
      destruct Hg as [<- | [<- | [<- | [<- | [<- | [<- | [<- | [<- | []]]]]]]]];
        try (apply dropped_rot; assumption);
        try (rewrite cnot_kept in Hk; discriminate).
      apply dropped_ctl; assumption. }
  cbn [bprod]. rewrite !gb_cnot, b2mul_1_r.
  match goal with |- exists phi, Ok (bd4 ?P) = _ =>
    assert (Hpm : bpm P
      (b2mul (bc phase)
        (b2mul (bt (qA t1 t2)) (b2mul bcn (b2mul (bt (qB t0 t1 t2)) (b2mul bcn (bt (qC t0 t2))))))))
  end.
  { unfold qA, qB, qC. rewrite <- !bt_mul, <- !b2mul_assoc.
    repeat apply bpm_mul; try apply gb_rot_pm; try apply gb_ctl_pm; apply bpm_refl. }
  eapply finish_pm in Hpm.
  2:{ rewrite <- !bd4_mmul, bd4_bc, !bd4_bt, bd4_bcn. exact (abc_circuit t0 t1 t2 phase _ Hprod). }
  destruct Hpm as [phi Hphi]. exists phi. rewrite Hphi. reflexivity.
Qed.

(* on two qubits, control 1 and target 0: whatever the model at RNum returns is the gate up to a phase *)
Lemma cnot_gates_10_exact ax angle phase l :
  cnot_regime ax angle phase \/ cnot_regime_two ax angle phase ->
  cnot_gates RNum 1 0 ax angle phase = Ok l ->
  exists phi, gates_matrix RNum 2 (map fst l) = Ok (mscale (cis RNum phi) (ctrlU ax angle phase)).
Proof.
  intros [(Hu & Hrange & Hlow & Hreg & Hcr & Hrh & HregX & Hbranch) |
          (Hu & Hrange & Hlow & Hreg & Hfar & Hfilt2)] Hl.
  - rewrite (cnot_gates_R_X ax angle phase Hrh) in Hl.
    assert (Hx : unit_axis (1, 0, 0)) by (unfold unit_axis, ax_x, ax_y, ax_z; cbn [fst snd]; ring).
    destruct (compose_exact_partial 0 (1, 0, 0) PI (PI / 2) x_info ax angle phase anon Hx Hu Hcr)
      as (axx & angx & phx & Hxu & Huxx & Hq).
    fold (xu_gate ax angle phase) in Hxu. rewrite qrot_x_PI in Hq.
    destruct (HregX 0%Z axx angx phx Hxu) as (Hr1 & Hr2 & Hr3).
    destruct (aba_angles_exact_strong AxZ AxY angx axx ltac:(discriminate) Huxx Hr1 Hr2 Hr3)
      as (t0x & t1x & t2x & Hxang & Hzyz).
    assert (Hm : exists l' phi, cnot_gates RNumX 1 0 ax angle phase = Ok l' /\
                   gates_matrix RNum 2 (map fst l') = Ok (mscale (cis RNum phi) (ctrlU ax angle phase))).
    { destruct (Hbranch 0%Z axx angx phx t0x t1x t2x Hxu Hxang)
        as [(Hmod & F1 & F2 & F3 & F4 & F5) | [Hfar Hfilt2]].
      - eapply cnot_gates_single_exact; eassumption.
      - eapply cnot_gates_two_exact; eassumption. }
    destruct Hm as (l' & phi & Hl' & Hm). rewrite Hl in Hl'. apply Ok_inj in Hl'. subst l'.
    now exists phi.
  - rewrite (cnot_gates_R_unfold 1 0 ax angle phase) in Hl by discriminate.
    destruct (xuR 0 ax angle phase) as [q axx angx phx|c' g'|m ops] eqn:Exu; try discriminate.
    destruct (aba_angles RNum AxZ AxY angx axx) as [[[t0x t1x] t2x]|e] eqn:Exang; [|discriminate].
    assert (E : Rltb (Rabs (nmod RNum (t0x - t2x) (2 * PI))) ATOL = false).
    { apply Rltb_false. exact (Hfar q axx angx phx t0x t1x t2x eq_refl Exang). }
    rewrite E in Hl.
    destruct (aba_angles_exact_strong AxZ AxY angle ax ltac:(discriminate) Hu Hrange Hlow Hreg)
      as (t0 & t1 & t2 & Hang & Hprod).
    rewrite Hang in Hl. apply Ok_inj in Hl. subst l.
    destruct (Hfilt2 t0 t1 t2 Hang) as (F1 & F2 & F3 & F4 & F5 & F6).
    exact (two_list_exact ax angle phase t0 t1 t2 Hprod F1 F2 F3 F4 F5 F6).
Qed.

Close Scope R_scope.

(* what the CNOT decomposer proposes has, on any register, the matrix of the gate up to a global phase *)
Theorem cnot_proposal_exact n (g : gate R) gi items A :
  cnot_exact_ok g ->
  cnot_decompose RNum g gi = Ok items ->
  get_matrix RNum n g = Ok A ->
  exists B, gates_matrix RNum n (map (item_gate g) items) = Ok B /\ mequiv B A.
Proof.
  intros Hok Hd HA.
  destruct g as [q ax alpha phase|c [t ax angle phase|c2 g2|m2 ops2]|m ops];
    try (cbn [cnot_decompose] in Hd; apply Ok_inj in Hd; subst items; now apply Hdec_same).
  cbn [cnot_decompose] in Hd.
  destruct (cnot_gates RNum c t ax angle phase) as [l|e] eqn:El; [|discriminate].
  apply Ok_inj in Hd. subst items. rewrite news_gates.
  assert (Hne : c <> t).
  { intros ->. rewrite cnot_gates_same in El. discriminate. }
  destruct (cnot_gates_relabel (zpos [t; c]) c t ax angle phase l Hne) as (l' & Hl' & Hmap); [|exact El|].
  { rewrite zpos_tc_t, (zpos_tc_c c t Hne). discriminate. }
  rewrite zpos_tc_t, (zpos_tc_c c t Hne) in Hl'.
  cbn [cnot_exact_ok] in Hok.
  destruct (cnot_gates_10_exact ax angle phase l' Hok Hl') as (phi & Hprod).
  pose proof (get_matrix_ok_range RNum n _ A HA) as Hrange. cbn [gate_qubits] in Hrange.
  exists (mscale (cis RNum phi) A). split; [|apply mequiv_mscale, unit_c_cis].
  apply (small_proportional_register [t; c] n (map fst l) (Ctrl c (BSR t ax angle phase))
           (ctrlU ax angle phase) (cis RNum phi) A).
  - constructor; [intros [E|[]]; now apply Hne|]. constructor; [intros []|constructor].
  - intros z [<-|[<-|[]]]; [right; now left|now left].
  - exact I.
  - exact (cnot_gates_qubits c t ax angle phase l Hne El).
  - intros z [<-|[<-|[]]]; apply Hrange; cbn [In]; tauto.
  - cbn [length]. change (Z.of_nat 2) with 2%Z. rewrite <- Hmap. exact Hprod.
  - cbn [length map_gate_qubits]. rewrite zpos_tc_t, (zpos_tc_c c t Hne). apply ctrlU_model.
  - exact HA.
Qed.

Lemma cnot_Hdec n ir :
  (forall o g gi, In (SGate o g gi) ir -> cnot_exact_ok g) ->
  Hdec_on n (run_decomposer RNum DecCNOT) ir.
Proof.
  intros Hir oid g gi items A Hin Hd _ HA. cbn [run_decomposer] in Hd.
  exact (cnot_proposal_exact n g gi items A (Hir oid g gi Hin) Hd HA).
Qed.

(* ANY statement list on ANY register, ANY control and target, finished or raised half-way *)
Theorem cnot_decompose_circuit_same_operation_any n ir r out :
  (forall o g gi, In (SGate o g gi) ir -> cnot_exact_ok g) ->
  decompose RNum DecCNOT ir = (r, out) ->
  same_operation n ir out.
Proof.
  intros Hir H. apply (decompose_same_operation_any n DecCNOT ir r out); [|exact H].
  now apply cnot_Hdec.
Qed.

(* ================================================================== *)
(* C. the hypotheses are satisfiable: concrete gates and a concrete circuit *)

Local Open Scope R_scope.

Lemma unit_axis_x : unit_axis (1, 0, 0).
Proof. unfold unit_axis, ax_x, ax_y, ax_z; cbn [fst snd]; ring. Qed.

Lemma ATOL_le_half_pi : ATOL <= Rabs (PI / 2).
Proof. pose proof PI_bounds. rewrite Rabs_right by lra. unfold ATOL. lra. Qed.

Lemma filter_exact_0 : filter_exact 0.
Proof. left. apply normalize_angle_0. Qed.

Lemma filter_exact_half_pi : filter_exact (PI / 2).
Proof. right. rewrite normalize_half_pi. apply ATOL_le_half_pi. Qed.

Lemma filter_exact_pi : filter_exact PI.
Proof. right. rewrite norm_PI. pose proof PI_bounds. rewrite Rabs_right by lra. unfold ATOL. lra. Qed.

(* ---- C.1 the A-B-A predicate of SemP: Hadamard and X under the Z-X-Z decomposer ---- *)

Lemma exact_regime_zxz_H : exact_regime AxZ AxX PI h_axis.
Proof.
  pose proof ATOL_pos as Hat. destruct inv_sqrt2_facts as [Hr _].
  assert (Ha : ATOL <= Rabs (1 / sqrt 2)) by (rewrite Rabs_right by lra; unfold ATOL; lra).
  unfold exact_regime, h_axis. cbn [axis_comp unused_axis ax_x ax_y ax_z fst snd].
  split; [left; reflexivity|]. split.
  - intros _. split; [right; exact Ha | right; left; exact Ha].
  - intros H. contradiction H. reflexivity.
Qed.

Example aba_exact_ok_H q phase : aba_exact_ok AxZ AxX (BSR q h_axis PI phase).
Proof.
  pose proof PI_bounds as [HP3 HP4]. cbn [aba_exact_ok].
  split; [exact h_axis_unit|]. split; [lra|]. split; [unfold ATOL; lra|]. split; [exact exact_regime_zxz_H|].
  intros t1 t2 t3 Hang. rewrite aba_angles_H in Hang. apply Ok_inj in Hang. injection Hang as <- <- <-.
  repeat split; apply filter_exact_half_pi.
Qed.

Example aba_exact_ok_X q phase : aba_exact_ok AxZ AxX (BSR q (1, 0, 0) PI phase).
Proof.
  pose proof PI_bounds as [HP3 HP4]. pose proof ATOL_pos as Hat. cbn [aba_exact_ok].
  split; [exact unit_axis_x|]. split; [lra|]. split; [unfold ATOL; lra|]. split.
  - unfold exact_regime. cbn [axis_comp unused_axis ax_x ax_y ax_z fst snd].
    split; [left; reflexivity|]. split.
    + intros _. split; [left; reflexivity|]. right. left. rewrite Rabs_R1. unfold ATOL. lra.
    + intros H. contradiction H. reflexivity.
  - intros t1 t2 t3 Hang. rewrite aba_angles_X in Hang. apply Ok_inj in Hang. injection Hang as <- <- <-.
    repeat split; [apply filter_exact_0|apply filter_exact_pi|apply filter_exact_0].
Qed.

(* ---- C.2 the McKay predicate: Hadamard (Z-X90-Z branch) and X ([X90; X90] branch) ---- *)

Example mckay_exact_ok_H q phase : mckay_exact_ok (BSR q h_axis PI phase).
Proof.
  pose proof PI_bounds as [HP3 HP4]. cbn [mckay_exact_ok].
  split; [exact h_axis_unit|]. split; [lra|]. split; [unfold ATOL; lra|exact mckay_regime_H].
Qed.

Example mckay_exact_ok_X q phase : mckay_exact_ok (BSR q (1, 0, 0) PI phase).
Proof.
  pose proof PI_bounds as [HP3 HP4]. cbn [mckay_exact_ok].
  split; [exact unit_axis_x|]. split; [lra|]. split; [unfold ATOL; lra|exact mckay_regime_X].
Qed.

(* ---- C.3 the CNOT predicate: CNOT itself (the one-CNOT branch; X.X is the identity, so [compose] takes its
        shortcut and nothing is rounded) ---- *)

Lemma cW_xx : cW (1, 0, 0) (1, 0, 0) PI PI = -1.
Proof.
  unfold cW, dot3, ax_x, ax_y, ax_z. cbn [fst snd nadd nmul RNum]. rewrite cos_PI2, sin_PI2. ring.
Qed.

Lemma sin_half_gamma_xx : sin (cgamma (1, 0, 0) (1, 0, 0) PI PI / 2) = 0.
Proof.
  unfold cgamma. rewrite cW_xx. replace (-1) with (- (1)) by ring. rewrite acos_opp, acos_1.
  replace (2 * (PI - 0) / 2) with PI by field. apply sin_PI.
Qed.

Lemma xu_gate_xx phase : xu_gate (1, 0, 0) PI phase = BSR 0 (1, 0, 0) 0 0.
Proof.
  unfold xu_gate.
  destruct (compose_shortcut_identity 0 (1, 0, 0) PI (PI / 2) x_info (1, 0, 0) PI phase anon
              unit_axis_x unit_axis_x sin_half_gamma_xx) as [-> _].
  reflexivity.
Qed.

Lemma compose_shortcut_xx : compose_shortcut RNum (1, 0, 0) PI (1, 0, 0) PI = true.
Proof.
  change (compose_shortcut RNum (1, 0, 0) PI (1, 0, 0) PI)
    with (Rltb (Rabs (sin (2 * acos (Rclamp (cW (1, 0, 0) (1, 0, 0) PI PI)) / 2))) ATOL).
  rewrite Rclamp_id by (rewrite cW_xx; lra).
  fold (cgamma (1, 0, 0) (1, 0, 0) PI PI). rewrite sin_half_gamma_xx, Rabs_R0.
  apply Rltb_true, ATOL_pos.
Qed.

Lemma rounding_harmless_xx phase : rounding_harmless (1, 0, 0) PI phase.
Proof.
  unfold rounding_harmless, xuR. rewrite xu_gate_xx.
  rewrite (compose_shortcut_result RNum 0 _ _ (PI / 2) (x_info_at 0) _ _ phase anon compose_shortcut_xx).
  cbn [fst]. rewrite bsr_identity_R. reflexivity.
Qed.

Lemma exact_regime_zyz_x_pi : exact_regime AxZ AxY PI (1, 0, 0).
Proof.
  unfold exact_regime. cbn [axis_comp unused_axis ax_x ax_y ax_z fst snd].
  split; [left; reflexivity|]. split.
  - intros _. split; [left; reflexivity|]. right. right. rewrite Rabs_R1. unfold ATOL. lra.
  - intros H. contradiction H. reflexivity.
Qed.

Lemma exact_regime_zyz_x_0 : exact_regime AxZ AxY 0 (1, 0, 0).
Proof.
  pose proof PI_bounds as [HP3 HP4].
  unfold exact_regime. cbn [axis_comp unused_axis ax_x ax_y ax_z fst snd].
  split; [right; rewrite Rabs_left by lra; unfold ATOL; lra|]. split.
  - intros H. lra.
  - intros _. left. replace (0 / 2) with 0 by field. apply sin_0.
Qed.

Lemma aba_angles_zyz_x_0 : aba_angles RNum AxZ AxY 0 (1, 0, 0) = Ok (0, 0, 0).
Proof.
  pose proof ATOL_pos as Hat. pose proof PI_bounds as [HP3 HP4].
  rewrite aba_angles_R, aba_range_check by (unfold ATOL; lra).
  cbn [axis_comp unused_axis ax_x ax_y ax_z fst snd].
  unfold pick_R.
  assert (E0 : Rltb (Rabs (0 - PI)) ATOL = false).
  { apply Rltb_false. rewrite Rabs_left by lra. unfold ATOL. lra. }
  rewrite E0. cbv zeta.
  replace (0 / 2) with 0 by field. rewrite sin_0, cos_0, tan_0.
  replace (0 * 0) with 0 by ring. replace (1 + 0 * 0) with 1 by ring. rewrite sqrt_1.
  replace (1 * 1) with 1 by ring. rewrite (Rclamp_id 1) by lra. rewrite acos_1.
  replace (2 * 0) with 0 by ring.
  assert (Ec : Rcopysign 0 0 = 0).
  { unfold Rcopysign. destruct (Rle_dec 0 0); rewrite Rabs_R0; ring. }
  rewrite Ec. replace (0 / 2) with 0 by field. rewrite sin_0, Rabs_R0.
  assert (E1 : Rltb 0 ATOL = true) by (apply Rltb_true; exact Hat).
  rewrite E1, atan2_0_pos by lra.
  unfold finish_R. change (is_sin_m_negative AxZ AxY) with false. cbv iota.
  do 2 f_equal; [f_equal|]; field.
Qed.

Lemma code_sign_cnot : code_sign (1, 0, 0) PI 0 0 = -1.
Proof.
  unfold code_sign, ax_x, ax_y, ax_z. cbn [fst snd]. replace (0 / 2) with 0 by field.
  rewrite sin_PI2, cos_PI2, sin_0, cos_0. ring.
Qed.

Lemma code_cphase_cnot : code_cphase (1, 0, 0) PI (PI / 2) 0 0 = 0.
Proof.
  unfold code_cphase. rewrite code_sign_cnot.
  assert (E : Rltb (-1) 0 = true) by (apply Rltb_true; lra). rewrite E. field.
Qed.

Example cnot_exact_ok_CNOT c t : cnot_exact_ok (Ctrl c (BSR t (1, 0, 0) PI (PI / 2))).
Proof.
  pose proof PI_bounds as [HP3 HP4]. pose proof ATOL_pos as Hat. cbn [cnot_exact_ok]. left. unfold cnot_regime.
  split; [exact unit_axis_x|]. split; [lra|]. split; [unfold ATOL; lra|].
  split; [exact exact_regime_zyz_x_pi|]. split; [left; exact sin_half_gamma_xx|].
  split; [apply rounding_harmless_xx|]. split.
  - intros q axx angx phx H. rewrite xu_gate_xx in H. injection H as <- <- <- <-.
    split; [lra|]. split; [unfold ATOL; lra|exact exact_regime_zyz_x_0].
  - intros q axx angx phx t0x t1x t2x H Hang. rewrite xu_gate_xx in H. injection H as <- <- <- <-.
    rewrite aba_angles_zyz_x_0 in Hang. apply Ok_inj in Hang. injection Hang as <- <- <-.
    left. split.
    + cbn [nmod RNum]. replace ((0 - 0) / (2 * PI)) with 0 by (field; lra). rewrite Rfloor_0. ring.
    + rewrite code_cphase_cnot. replace (0 / 2) with 0 by field. replace (- 0 / 2) with 0 by field.
      replace (- 0) with 0 by ring. repeat split; apply filter_exact_0.
Qed.

(* ---- C.3' the two-CNOT regime with the rounding as the model does it: controlled-Y.  X.Y is a half turn about z;
        the raw axis components 0, 0, 1 are rounded to themselves, the phase PI is rounded to a 7-decimal number
        (and not used); theta0 - theta2 = PI, so two CNOTs are emitted ---- *)

Lemma compose_R_unfold q axa anga pha gia axb angb phb gib :
  compose RNum q axa anga pha gia axb angb phb gib =
  let w := Rclamp (cW axa axb anga angb) in
  let s := sin (2 * acos w / 2) in
  let v := cV axa axb anga angb in
  if Rltb (Rabs s) ATOL then (bsr_identity RNum q, anon)
  else (mk_bsr RNum q (Rround 7 (1 / s * ax_x v), Rround 7 (1 / s * ax_y v), Rround 7 (1 / s * ax_z v))
               (2 * acos w) (Rround 7 (pha + phb)),
        if is_identity RNum (BSR q axa anga pha) then gib
        else if is_identity RNum (BSR q axb angb phb) then gia else anon).
Proof. reflexivity. Qed.

Lemma Rfloor_IZR_half (z : Z) : Rfloor (IZR z + / 2) = IZR z.
Proof.
  pose proof (Rfloor_spec (IZR z + / 2)) as [H1 H2]. unfold Rfloor in *.
  set (k := Int_part (IZR z + / 2)) in *.
  assert (Hk1 : (k < z + 1)%Z) by (apply lt_IZR; rewrite plus_IZR; lra).
  assert (Hk2 : (z < k + 1)%Z) by (apply lt_IZR; rewrite plus_IZR; lra).
  f_equal. lia.
Qed.

Lemma Rround7_IZR (z : Z) : Rround 7 (IZR z) = IZR z.
Proof.
  unfold Rround. cbv zeta. rewrite Rpower_10_7.
  replace (IZR z * 10000000) with (IZR (z * 10000000)) by (rewrite mult_IZR; reflexivity).
  rewrite Rfloor_IZR_half, mult_IZR. field.
Qed.

Lemma unit_axis_y : unit_axis (0, 1, 0).
Proof. unfold unit_axis, ax_x, ax_y, ax_z; cbn [fst snd]; ring. Qed.

Lemma cW_xy : cW (1, 0, 0) (0, 1, 0) PI PI = 0.
Proof.
  unfold cW, dot3, ax_x, ax_y, ax_z. cbn [fst snd nadd nmul RNum]. rewrite cos_PI2, sin_PI2. ring.
Qed.

Lemma cV_xy : cV (1, 0, 0) (0, 1, 0) PI PI = (0, 0, 1).
Proof.
  unfold cV, cVc, cross3, ax_x, ax_y, ax_z. cbn [fst snd nadd nsub nmul RNum]. rewrite cos_PI2, sin_PI2.
  apply f_equal2; [apply f_equal2|]; ring.
Qed.

Lemma xuR_cy phase : exists phx, xuR 0 (0, 1, 0) PI phase = BSR 0 (0, 0, 1) PI phx.
Proof.
  pose proof ATOL_pos as Hat.
  unfold xuR. rewrite compose_R_unfold. cbv zeta. rewrite cW_xy, cV_xy.
  rewrite (Rclamp_id 0) by lra. rewrite acos_0.
  replace (2 * (PI / 2) / 2) with (PI / 2) by field. rewrite sin_PI2, Rabs_R1.
  assert (E : Rltb 1 ATOL = false) by (apply Rltb_false; unfold ATOL; lra). rewrite E.
  cbn [fst ax_x ax_y ax_z snd].
  replace (1 / 1 * 0) with (IZR 0) by field. replace (1 / 1 * 1) with (IZR 1) by field.
  rewrite !Rround7_IZR. unfold mk_bsr. rewrite mk_axis_z.
  replace (2 * (PI / 2)) with PI by field. rewrite norm_PI. eexists. reflexivity.
Qed.

Lemma aba_angles_zyz_z_pi : aba_angles RNum AxZ AxY PI (0, 0, 1) = Ok ((PI + PI) / 2, 2 * acos 1, PI - (PI + PI) / 2).
Proof.
  pose proof ATOL_pos as Hat. pose proof PI_bounds as [HP3 HP4].
  rewrite aba_angles_R, aba_range_check by (unfold ATOL; lra).
  cbn [axis_comp unused_axis ax_x ax_y ax_z fst snd].
  unfold pick_R. rewrite pick_R_pi_test.
  assert (E1 : Rltb (Rabs 1) ATOL = false) by (apply Rltb_false; rewrite Rabs_R1; unfold ATOL; lra).
  assert (E2 : Rltb (Rabs 0) ATOL = true) by (apply Rltb_true; rewrite Rabs_R0; exact Hat).
  rewrite E1. cbv zeta. rewrite E2. cbn [andb].
  unfold finish_R. change (is_sin_m_negative AxZ AxY) with false. cbv iota. reflexivity.
Qed.

Lemma aba_angles_zyz_y_pi : aba_angles RNum AxZ AxY PI (0, 1, 0) = Ok (0, PI, 0).
Proof.
  pose proof ATOL_pos as Hat. pose proof PI_bounds as [HP3 HP4].
  rewrite aba_angles_R, aba_range_check by (unfold ATOL; lra).
  cbn [axis_comp unused_axis ax_x ax_y ax_z fst snd].
  unfold pick_R. rewrite pick_R_pi_test.
  assert (E2 : Rltb (Rabs 0) ATOL = true) by (apply Rltb_true; rewrite Rabs_R0; exact Hat).
  rewrite E2, atan2_0_pos by lra.
  unfold finish_R. change (is_sin_m_negative AxZ AxY) with false. cbv iota.
  do 2 f_equal; [f_equal|]; field.
Qed.

Lemma Rfloor_half : Rfloor (/ 2) = 0.
Proof. replace (/ 2) with (IZR 0 + / 2) by (simpl; ring). apply Rfloor_IZR_half. Qed.

Example cnot_regime_two_CY phase : filter_exact phase -> cnot_regime_two (0, 1, 0) PI phase.
Proof.
  intros Hph. pose proof PI_bounds as [HP3 HP4]. pose proof ATOL_pos as Hat. unfold cnot_regime_two.
  split; [exact unit_axis_y|]. split; [lra|]. split; [unfold ATOL; lra|]. split; [|split].
  - unfold exact_regime. cbn [axis_comp unused_axis ax_x ax_y ax_z fst snd].
    split; [left; reflexivity|]. split.
    + intros _. split; [left; reflexivity|]. right. left. rewrite Rabs_R1. unfold ATOL. lra.
    + intros H. contradiction H. reflexivity.
  - intros q axx angx phx t0x t1x t2x Hxu Hang.
    destruct (xuR_cy phase) as [phx' E]. rewrite E in Hxu. injection Hxu as <- <- <- <-.
    rewrite aba_angles_zyz_z_pi in Hang. apply Ok_inj in Hang. injection Hang as <- <- <-.
    cbn [nmod RNum]. replace ((PI + PI) / 2 - (PI - (PI + PI) / 2)) with PI by field.
    replace (PI / (2 * PI)) with (/ 2) by (field; lra). rewrite Rfloor_half.
    rewrite Rabs_right by lra. unfold ATOL. lra.
  - intros t0 t1 t2 Hang. rewrite aba_angles_zyz_y_pi in Hang. apply Ok_inj in Hang. injection Hang as <- <- <-.
    replace ((0 - 0) / 2) with 0 by field. replace (- (0 + 0) / 2) with 0 by field.
    repeat split; try apply filter_exact_0; try apply filter_exact_half_pi; try exact Hph.
    right. rewrite norm_mPI2. rewrite Rabs_left by lra. unfold ATOL. lra.
Qed.

Example cnot_exact_ok_CY c t : cnot_exact_ok (Ctrl c (BSR t (0, 1, 0) PI (PI / 2))).
Proof. cbn [cnot_exact_ok]. right. apply cnot_regime_two_CY, filter_exact_half_pi. Qed.

(* ---- C.4 a circuit on three qubits: H on q1; measure q1 -> b0; reset q0; CNOT q2 -> q0.  Every gate satisfies
        the three predicates, so each of the three decomposition passes preserves its operation, for every
        assignment of the two outcomes; and the circuit does denote an operator for every assignment. ---- *)

Module Demo.
Import String.
Local Open Scope string_scope.
Definition demo_ir : list (stmt R) :=
  [SGate 1 (BSR 1 h_axis PI (PI / 2)) (gi "H" [AQ 1%Z]);
   SMeasure 2 1 0 (0, 0, 1) (gi "measure" [AQ 1%Z; AB 0%Z]);
   SReset 3 0 (gi "reset" [AQ 0%Z]);
   SGate 4 (Ctrl 2 (BSR 0 (1, 0, 0) PI (PI / 2))) (gi "CNOT" [AQ 2%Z; AQ 0%Z])].
End Demo.
Import Demo.

Lemma demo_gates (P : gate R -> Prop) :
  P (BSR 1 h_axis PI (PI / 2)) -> P (Ctrl 2 (BSR 0 (1, 0, 0) PI (PI / 2))) ->
  forall o g gi0, In (SGate o g gi0) demo_ir -> P g.
Proof.
  intros H1 H2 o g gi0 Hin. unfold demo_ir in Hin. cbn [In] in Hin.
  destruct Hin as [E|[E|[E|[E|[]]]]]; try discriminate E; injection E as _ <- _; assumption.
Qed.

Example demo_aba_ok : forall o g gi0, In (SGate o g gi0) demo_ir -> aba_exact_ok AxZ AxX g.
Proof. apply demo_gates; [apply aba_exact_ok_H|exact I]. Qed.

Example demo_mckay_ok : forall o g gi0, In (SGate o g gi0) demo_ir -> mckay_exact_ok g.
Proof. apply demo_gates; [apply mckay_exact_ok_H|exact I]. Qed.

Example demo_cnot_ok : forall o g gi0, In (SGate o g gi0) demo_ir -> cnot_exact_ok g.
Proof. apply demo_gates; [exact I|apply cnot_exact_ok_CNOT]. Qed.

Example demo_aba_same_operation r out :
  decompose RNum (DecABA AxZ AxX) demo_ir = (r, out) -> same_operation 3 demo_ir out.
Proof.
  apply aba_decompose_circuit_same_operation_any; [discriminate|exact demo_aba_ok].
Qed.

Example demo_mckay_same_operation r out :
  decompose RNum DecMcKay demo_ir = (r, out) -> same_operation 3 demo_ir out.
Proof. apply mckay_decompose_circuit_same_operation_any. exact demo_mckay_ok. Qed.

Example demo_cnot_same_operation r out :
  decompose RNum DecCNOT demo_ir = (r, out) -> same_operation 3 demo_ir out.
Proof. apply cnot_decompose_circuit_same_operation_any. exact demo_cnot_ok. Qed.

(* the conclusion of [same_operation] is not vacuous for this circuit: it denotes an operator whatever the outcomes *)
Example demo_denotes o : exists A, kraus 3 o demo_ir = Ok A.
Proof.
  assert (H1 : exists M, get_matrix RNum 3 (BSR 1 h_axis PI (PI / 2)) = Ok M).
  { rewrite (get_matrix_bsr_lift1 3 1 _ _ _ ltac:(lia)). now eexists. }
  assert (H2 : exists M, get_matrix RNum 3 (Ctrl 2 (BSR 0 (1, 0, 0) PI (PI / 2))) = Ok M).
  { apply (get_matrix_ok_iff RNum). split; [|exact I].
    intros q Hq. cbn [gate_qubits In] in Hq. lia. }
  destruct H1 as [M1 HM1]. destruct H2 as [M2 HM2].
  unfold kraus, demo_ir. cbn [kraus_from stmt_op]. rewrite HM1.
  rewrite (embed1_lift1 3 1 _ ltac:(lia)), (embed1_lift1 3 0 _ ltac:(lia)), HM2.
  now eexists.
Qed.

Close Scope R_scope.

(* ================================================================== *)
(* D. sequences of passes                                              *)

(* the passes for which [same_operation] is proved *)
Inductive pass :=
| PDecompose (d : decomposer_id)
| PReplaceCnotHCzH (target : String.string)
| PReplaceCzHCnotH (target : String.string).

(* running one pass: the outcome (None, or the exception raised) and the statement list it leaves *)
Definition run_pass (p : pass) (ir : list (stmt R)) : option err * list (stmt R) :=
  match p with
  | PDecompose d => decompose RNum d ir
  | PReplaceCnotHCzH target => replace RNum target RuleCnotToHCzH ir
  | PReplaceCzHCnotH target => replace RNum target RuleCzToHCnotH ir
  end.

(* the exactness hypothesis of a pass on the circuit it receives *)
Definition pass_ok (p : pass) (ir : list (stmt R)) : Prop :=
  match p with
  | PDecompose (DecABA ia ib) => ia <> ib /\ forall o g gi, In (SGate o g gi) ir -> aba_exact_ok ia ib g
  | PDecompose DecMcKay => forall o g gi, In (SGate o g gi) ir -> mckay_exact_ok g
  | PDecompose DecCNOT => forall o g gi, In (SGate o g gi) ir -> cnot_exact_ok g
  | PReplaceCnotHCzH target => named_is target (fun c t => Ctrl c (Xg t)) ir
  | PReplaceCzHCnotH target => named_is target (fun c t => Ctrl c (Zg t)) ir
  end.

Theorem pass_same_operation n p ir r out :
  pass_ok p ir -> run_pass p ir = (r, out) -> same_operation n ir out.
Proof.
  destruct p as [[ia ib| |]|target|target]; cbn [pass_ok run_pass].
  - intros [Hab Hir]. now apply aba_decompose_circuit_same_operation_any.
  - apply mckay_decompose_circuit_same_operation_any.
  - apply cnot_decompose_circuit_same_operation_any.
  - apply replace_cnot_to_hczh_same_operation.
  - apply replace_cz_to_hcnoth_same_operation.
Qed.

(* a run of a list of passes, as a pipeline runs it: each pass receives what the previous one left, under its
   own hypothesis on that circuit; a pass that raises ends the run, leaving its half rewritten list *)
Inductive run_ok : list pass -> list (stmt R) -> list (stmt R) -> Prop :=
| run_ok_nil ir : run_ok [] ir ir
| run_ok_step p ps ir mid out :
    pass_ok p ir -> run_pass p ir = (None, mid) -> run_ok ps mid out -> run_ok (p :: ps) ir out
| run_ok_raise p ps ir e out :
    pass_ok p ir -> run_pass p ir = (Some e, out) -> run_ok (p :: ps) ir out.

Theorem passes_same_operation n ps ir out : run_ok ps ir out -> same_operation n ir out.
Proof.
  induction 1 as [ir|p ps ir mid out Hok Hrun _ IH|p ps ir e out Hok Hrun].
  - apply same_operation_refl.
  - apply (same_operation_trans n ir mid out); [|exact IH].
    exact (pass_same_operation n p ir None mid Hok Hrun).
  - exact (pass_same_operation n p ir (Some e) out Hok Hrun).
Qed.

(* the same as a function, with the hypotheses threaded along the run *)
Fixpoint run_passes (ps : list pass) (ir : list (stmt R)) : option err * list (stmt R) :=
  match ps with
  | [] => (None, ir)
  | p :: ps' =>
      match run_pass p ir with
      | (None, mid) => run_passes ps' mid
      | (Some e, out) => (Some e, out)
      end
  end.

Fixpoint passes_ok (ps : list pass) (ir : list (stmt R)) : Prop :=
  match ps with
  | [] => True
  | p :: ps' => pass_ok p ir /\ forall mid, run_pass p ir = (None, mid) -> passes_ok ps' mid
  end.

Lemma run_passes_run_ok ps : forall ir, passes_ok ps ir -> run_ok ps ir (snd (run_passes ps ir)).
Proof.
  induction ps as [|p ps IH]; intros ir Hok; cbn [run_passes].
  - apply run_ok_nil.
  - destruct Hok as [Hp Hrest]. destruct (run_pass p ir) as [[e|] mid] eqn:Er.
    + cbn [snd]. exact (run_ok_raise p ps ir e mid Hp Er).
    + apply (run_ok_step p ps ir mid _ Hp Er). apply IH. now apply Hrest.
Qed.

Theorem run_passes_same_operation n ps ir r out :
  passes_ok ps ir -> run_passes ps ir = (r, out) -> same_operation n ir out.
Proof.
  intros Hok H. apply (passes_same_operation n ps).
  pose proof (run_passes_run_ok ps ir Hok) as Hr. now rewrite H in Hr.
Qed.

(* the demonstration circuit through the three decomposition passes one after the other needs the hypotheses on
   the intermediate circuits; for a single pass they are the Examples of part C *)
Example demo_single_pass n p r out :
  In p [PDecompose (DecABA AxZ AxX); PDecompose DecMcKay; PDecompose DecCNOT] ->
  run_passes [p] demo_ir = (r, out) -> same_operation n demo_ir out.
Proof.
  intros Hp. apply run_passes_same_operation. cbn [passes_ok]. split; [|intros; exact I].
  cbn [In] in Hp. destruct Hp as [<-|[<-|[<-|[]]]]; cbn [pass_ok].
  - split; [discriminate|exact demo_aba_ok].
  - exact demo_mckay_ok.
  - exact demo_cnot_ok.
Qed.

Print Assumptions mckay_decompose_circuit_same_operation_any.
Print Assumptions cnot_decompose_circuit_same_operation_any.
Print Assumptions cnot_exact_ok_CNOT.
Print Assumptions cnot_exact_ok_CY.
Print Assumptions demo_denotes.
Print Assumptions demo_single_pass.
Print Assumptions passes_same_operation.
Print Assumptions run_passes_same_operation.
