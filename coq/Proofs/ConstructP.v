(* ConstructP.v — properties of the constructors of Model/Construct.v:
   angle normalisation (at RNum), axis normalisation (at RNum), and the exact
   success conditions of mk_ctrl / mk_mat (any T). *)
From Coq Require Import Reals ZArith List Bool Lra Lia.
Import ListNotations.
From OSQ Require Import Num IR Construct RTrig RNum.
Open Scope R_scope.

(* ------------------------------------------------------------------ *)
(** * normalize_angle over R *)

Lemma atol_RNum : atol RNum = / 10000000.
Proof. change (atol RNum) with (1 / 10000000). lra. Qed.

Lemma pi_RNum : pi RNum = PI.
Proof. reflexivity. Qed.

Lemma two_pi_RNum : two_pi RNum = 2 * PI.
Proof. reflexivity. Qed.

(* normalize_angle at RNum as an expression over R with Rlt_dec *)
Lemma normalize_unfold x :
  normalize_angle RNum x =
  let t := x - 2 * PI * (Rfloor (x / (2 * PI)) + 1) in
  if Rlt_dec t (- PI + / 10000000) then t + 2 * PI
  else if Rlt_dec PI t then t - 2 * PI else t.
Proof.
  unfold normalize_angle. rewrite atol_RNum.
  change (two_pi RNum) with (2 * PI). change (pi RNum) with PI.
  cbn [nsub nmul nadd nfloordiv nofZ nltb nneg npi RNum].
  cbv zeta. unfold Rltb.
  destruct (Rlt_dec (x - 2 * PI * (Rfloor (x / (2 * PI)) + 1)) (- PI + / 10000000)) as [H1|H1];
    [reflexivity|].
  destruct (Rlt_dec PI (x - 2 * PI * (Rfloor (x / (2 * PI)) + 1))) as [H2|H2]; reflexivity.
Qed.

(* the central fact: the result is x shifted by an integer number of turns and
   lies in [-PI + 1e-7, PI + 1e-7) *)
Lemma normalize_core x : exists k : Z,
  normalize_angle RNum x = x + 2 * PI * IZR k /\
  - PI + / 10000000 <= normalize_angle RNum x < PI + / 10000000.
Proof.
  rewrite normalize_unfold. cbv zeta.
  pose proof PI_bounds as [HP3 HP4].
  pose proof (Rfloor_spec (x / (2 * PI))) as [Hf1 Hf2].
  unfold Rfloor in *. set (f := Int_part (x / (2 * PI))) in *.
  assert (Hx : x = (x / (2 * PI)) * (2 * PI)) by (field; lra).
  set (y := x / (2 * PI)) in *. clearbody f y.
  assert (H1 : 2 * PI * IZR f <= x) by (rewrite Hx; nra).
  assert (H2 : x < 2 * PI * (IZR f + 1)) by (rewrite Hx at 1; nra).
  clear Hx Hf1 Hf2 y.
  set (F := IZR f) in *.
  destruct (Rlt_dec (x - 2 * PI * (F + 1)) (- PI + / 10000000)) as [Ha|Ha].
  - exists (- f)%Z. rewrite opp_IZR. fold F. split; [ring|]. nra.
  - destruct (Rlt_dec PI (x - 2 * PI * (F + 1))) as [Hb|Hb].
    + exfalso. nra.
    + exists (- f - 1)%Z. rewrite minus_IZR, opp_IZR. fold F. split; [ring|]. nra.
Qed.

(* 1. the sharpest range *)
Lemma normalize_range x :
  - PI + / 10000000 <= normalize_angle RNum x < PI + / 10000000.
Proof. destruct (normalize_core x) as [k [_ H]]. exact H. Qed.

Lemma normalize_range_weak x :
  - PI < normalize_angle RNum x <= PI + / 10000000.
Proof. pose proof (normalize_range x). lra. Qed.

(* 2. congruence modulo 2 PI *)
Lemma normalize_congr x : exists k : Z, normalize_angle RNum x = x + 2 * PI * IZR k.
Proof. destruct (normalize_core x) as [k [H _]]. exists k; exact H. Qed.

(* two reals in the same half-open window of width 2 PI that differ by a
   multiple of 2 PI are equal *)
Lemma two_pi_window_unique (lo r x : R) (k : Z) :
  r = x + 2 * PI * IZR k ->
  lo <= r < lo + 2 * PI -> lo <= x < lo + 2 * PI -> k = 0%Z.
Proof.
  intros Hr Hrr Hxr. pose proof PI_bounds as [HP3 HP4].
  assert (Hk1 : IZR k < 1) by nra.
  assert (Hk2 : -1 < IZR k) by nra.
  apply lt_IZR in Hk1. apply lt_IZR in Hk2. lia.
Qed.

(* 3. identity on the whole range (stronger than asked: up to PI + 1e-7 excluded) *)
Lemma normalize_id_strong x :
  - PI + / 10000000 <= x < PI + / 10000000 -> normalize_angle RNum x = x.
Proof.
  intros Hx. destruct (normalize_core x) as [k [Hk Hr]].
  assert (k = 0%Z) as ->.
  { apply (two_pi_window_unique (- PI + / 10000000) (normalize_angle RNum x) x k Hk); lra. }
  rewrite Hk. ring.
Qed.

Lemma normalize_id x :
  - PI + / 10000000 <= x <= PI -> normalize_angle RNum x = x.
Proof. intros Hx. apply normalize_id_strong. lra. Qed.

Lemma normalize_idem x :
  normalize_angle RNum (normalize_angle RNum x) = normalize_angle RNum x.
Proof. apply normalize_id_strong, normalize_range. Qed.

(* 4. the boundary: -PI is sent to +PI *)
Lemma normalize_minus_pi : normalize_angle RNum (- PI) = PI.
Proof.
  destruct (normalize_core (- PI)) as [k [Hk Hr]].
  pose proof PI_bounds as [HP3 HP4].
  rewrite Hk in Hr. destruct Hr as [Hr1 Hr2].
  assert (Hk1 : 0 < IZR k) by nra.
  assert (Hk2 : IZR k < 2) by nra.
  apply lt_IZR in Hk1. apply lt_IZR in Hk2.
  assert (k = 1%Z) as -> by lia.
  rewrite Hk. ring.
Qed.

(* the upper bound [<= PI] is false: values in (PI, PI + 1e-7) are fixed points *)
Lemma normalize_le_PI_refuted : exists x, PI < normalize_angle RNum x.
Proof.
  exists (PI + / 20000000). pose proof PI_bounds as [HP3 HP4].
  rewrite normalize_id_strong; lra.
Qed.

(* ------------------------------------------------------------------ *)
(** * periodicity helpers *)

Lemma cos_2PI_period x : cos (x + 2 * PI) = cos x.
Proof. replace (x + 2 * PI) with ((x + PI) + PI) by ring. rewrite !neg_cos. ring. Qed.
Lemma sin_2PI_period x : sin (x + 2 * PI) = sin x.
Proof. replace (x + 2 * PI) with ((x + PI) + PI) by ring. rewrite !neg_sin. ring. Qed.

Lemma cos_sin_2kPI (k : Z) : forall x,
  cos (x + 2 * PI * IZR k) = cos x /\ sin (x + 2 * PI * IZR k) = sin x.
Proof.
  pattern k. apply Z.peano_ind; clear k.
  - intros x. replace (x + 2 * PI * 0) with x by ring. split; reflexivity.
  - intros k IH x. rewrite succ_IZR.
    replace (x + 2 * PI * (IZR k + 1)) with ((x + 2 * PI * IZR k) + 2 * PI) by ring.
    rewrite cos_2PI_period, sin_2PI_period. apply IH.
  - intros k IH x. unfold Z.pred. rewrite plus_IZR.
    destruct (IH x) as [Hc0 Hs0].
    (* shift back by one period *)
    split.
    + rewrite <- (cos_2PI_period (x + 2 * PI * (IZR k + -1))).
      replace (x + 2 * PI * (IZR k + -1) + 2 * PI) with (x + 2 * PI * IZR k) by ring.
      exact Hc0.
    + rewrite <- (sin_2PI_period (x + 2 * PI * (IZR k + -1))).
      replace (x + 2 * PI * (IZR k + -1) + 2 * PI) with (x + 2 * PI * IZR k) by ring.
      exact Hs0.
Qed.

Lemma cos_2kPI x k : cos (x + 2 * PI * IZR k) = cos x.
Proof. apply cos_sin_2kPI. Qed.
Lemma sin_2kPI x k : sin (x + 2 * PI * IZR k) = sin x.
Proof. apply cos_sin_2kPI. Qed.

Lemma cos_sin_kPI (k : Z) : exists s : R, (s = 1 \/ s = -1) /\
  forall y, cos (y + PI * IZR k) = s * cos y /\ sin (y + PI * IZR k) = s * sin y.
Proof.
  pattern k. apply Z.peano_ind; clear k.
  - exists 1. split; [left; reflexivity|]. intros y.
    replace (y + PI * 0) with y by ring. split; ring.
  - intros k [s [Hs IH]]. exists (- s). split; [destruct Hs; [right|left]; lra|].
    intros y. rewrite succ_IZR.
    replace (y + PI * (IZR k + 1)) with ((y + PI * IZR k) + PI) by ring.
    rewrite neg_cos, neg_sin. destruct (IH y) as [-> ->]. split; ring.
  - intros k [s [Hs IH]]. exists (- s). split; [destruct Hs; [right|left]; lra|].
    intros y. unfold Z.pred. rewrite plus_IZR.
    pose proof (neg_cos (y + PI * (IZR k + -1))) as Nc.
    pose proof (neg_sin (y + PI * (IZR k + -1))) as Ns.
    destruct (IH y) as [Hc0 Hs0].
    replace (y + PI * (IZR k + -1) + PI) with (y + PI * IZR k) in Nc, Ns by ring.
    split; lra.
Qed.

(* 5. normalisation preserves cos and sin *)
Lemma normalize_cos_sin x :
  cos (normalize_angle RNum x) = cos x /\ sin (normalize_angle RNum x) = sin x.
Proof.
  destruct (normalize_congr x) as [k ->]. apply cos_sin_2kPI.
Qed.

(* 6. on half angles (the SU(2) element) normalisation is a global sign *)
Lemma normalize_half x : exists s : R, (s = 1 \/ s = -1) /\
  cos (normalize_angle RNum x / 2) = s * cos (x / 2) /\
  sin (normalize_angle RNum x / 2) = s * sin (x / 2).
Proof.
  destruct (normalize_congr x) as [k ->].
  destruct (cos_sin_kPI k) as [s [Hs H]]. exists s. split; [exact Hs|].
  replace ((x + 2 * PI * IZR k) / 2) with (x / 2 + PI * IZR k) by field.
  apply H.
Qed.

(* ------------------------------------------------------------------ *)
(** * mk_axis *)

Lemma norm3_RNum a b c : norm3 RNum (a, b, c) = sqrt (a * a + b * b + c * c).
Proof. reflexivity. Qed.

Lemma mk_axis_RNum a b c :
  mk_axis RNum (a, b, c) =
  (a / sqrt (a * a + b * b + c * c), b / sqrt (a * a + b * b + c * c),
   c / sqrt (a * a + b * b + c * c)).
Proof. reflexivity. Qed.

Lemma norm3_nonneg v : 0 <= norm3 RNum v.
Proof. destruct v as [[a b] c]. rewrite norm3_RNum. apply sqrt_pos. Qed.

(* 7. *)
Lemma mk_axis_unit v : norm3 RNum v <> 0 -> norm3 RNum (mk_axis RNum v) = 1.
Proof.
  destruct v as [[a b] c]. rewrite mk_axis_RNum, !norm3_RNum.
  set (S := a * a + b * b + c * c). intros Hn.
  assert (HS : 0 <= S) by (unfold S; nra).
  pose proof (sqrt_sqrt S HS) as Hnn.
  set (n := sqrt S) in *.
  replace (a / n * (a / n) + b / n * (b / n) + c / n * (c / n)) with (S / (n * n))
    by (unfold S; field; exact Hn).
  rewrite Hnn.
  assert (HS0 : S <> 0) by (intros E; rewrite E in Hnn; apply Hn; nra).
  replace (S / S) with 1 by (field; exact HS0).
  apply sqrt_1.
Qed.

Lemma mk_axis_parallel v : norm3 RNum v <> 0 ->
  exists k, 0 < k /\ mk_axis RNum v = (k * ax_x v, k * ax_y v, k * ax_z v).
Proof.
  intros Hn. pose proof (norm3_nonneg v) as Hp.
  exists (/ norm3 RNum v). split.
  - apply Rinv_0_lt_compat. lra.
  - destruct v as [[a b] c]. rewrite mk_axis_RNum.
    rewrite norm3_RNum in *. cbn [ax_x ax_y ax_z fst snd].
    unfold Rdiv. f_equal; [f_equal|]; ring.
Qed.

(* ------------------------------------------------------------------ *)
(** * mk_ctrl and mk_mat, any T *)

Lemma zmem_In x l : zmem x l = true <-> In x l.
Proof.
  induction l as [|y l IH]; cbn [zmem In].
  - split; [discriminate|tauto].
  - rewrite orb_true_iff, IH, Z.eqb_eq. split; intros [H|H]; auto.
Qed.

Lemma znodup_NoDup l : znodup l = true <-> NoDup l.
Proof.
  induction l as [|x l IH]; cbn [znodup].
  - split; [constructor|reflexivity].
  - rewrite andb_true_iff, negb_true_iff, IH. split.
    + intros [Hm Hn]. constructor; [|exact Hn].
      intros Hin. apply zmem_In in Hin. congruence.
    + intros Hnd. inversion Hnd as [|x' l' Hni Hnd']; subst. split; [|exact Hnd'].
      destruct (zmem x l) eqn:E; [|reflexivity]. apply zmem_In in E. contradiction.
Qed.

Section Ctors.
  Context {T : Type}.

  Lemma mk_ctrl_ok_iff c (g : gate T) :
    mk_ctrl c g = Ok (Ctrl c g) <-> znodup (c :: gate_qubits g) = true.
  Proof.
    unfold mk_ctrl. destruct (znodup (c :: gate_qubits g)); split; intros H;
      try reflexivity; discriminate.
  Qed.

  Lemma mk_ctrl_err_iff c (g : gate T) :
    mk_ctrl c g = Err EValue <-> znodup (c :: gate_qubits g) = false.
  Proof.
    unfold mk_ctrl. destruct (znodup (c :: gate_qubits g)); split; intros H;
      try reflexivity; discriminate.
  Qed.

  Lemma mk_ctrl_ok_inv c (g g' : gate T) :
    mk_ctrl c g = Ok g' -> g' = Ctrl c g /\ NoDup (c :: gate_qubits g).
  Proof.
    unfold mk_ctrl. destruct (znodup (c :: gate_qubits g)) eqn:E; intros H; [|discriminate].
    inversion H; subst. split; [reflexivity|]. apply znodup_NoDup; exact E.
  Qed.

  Lemma mk_ctrl_err_inv c (g : gate T) e : mk_ctrl c g = Err e -> e = EValue.
  Proof.
    unfold mk_ctrl. destruct (znodup (c :: gate_qubits g)); intros H; [discriminate|].
    inversion H; reflexivity.
  Qed.

  Definition mat_shape_ok (m : list (list (T * T))) (ops : list Z) : Prop :=
    List.length m = pow2 (List.length ops) /\
    Forall (fun r => List.length r = pow2 (List.length ops)) m.

  Lemma mat_shape_ok_b m ops :
    (Nat.eqb (List.length m) (pow2 (List.length ops)) &&
     forallb (fun r => Nat.eqb (List.length r) (pow2 (List.length ops))) m) = true
    <-> mat_shape_ok m ops.
  Proof.
    unfold mat_shape_ok. rewrite andb_true_iff, Nat.eqb_eq, forallb_forall, Forall_forall.
    split; intros [H1 H2]; (split; [exact H1|]); intros r Hr; apply Nat.eqb_eq; auto.
  Qed.

  Lemma mk_mat_ok_iff m ops :
    mk_mat m ops = Ok (Mat m ops) <->
    (2 <= List.length ops)%nat /\ znodup ops = true /\ mat_shape_ok m ops.
  Proof.
    rewrite <- mat_shape_ok_b. unfold mk_mat.
    destruct (Nat.ltb_spec (List.length ops) 2) as [Hl|Hl].
    - split; [discriminate|]. intros [H _]. lia.
    - destruct (znodup ops); cbn [negb].
      + destruct (Nat.eqb (List.length m) (pow2 (List.length ops)) &&
                  forallb (fun r => Nat.eqb (List.length r) (pow2 (List.length ops))) m);
          cbn [negb].
        * split; [intros _; repeat split; auto|reflexivity].
        * split; [discriminate|]. intros [_ [_ H]]. discriminate.
      + split; [discriminate|]. intros [_ [H _]]. discriminate.
  Qed.

  Lemma mk_mat_ok_inv m ops g : mk_mat m ops = Ok g -> g = @Mat T m ops.
  Proof.
    unfold mk_mat. repeat match goal with |- context [if ?b then _ else _] => destruct b end;
      intros H; try discriminate; inversion H; reflexivity.
  Qed.

  Lemma mk_mat_err_iff m ops :
    mk_mat m ops = Err EValue <->
    ~ ((2 <= List.length ops)%nat /\ znodup ops = true /\ mat_shape_ok m ops).
  Proof.
    rewrite <- mk_mat_ok_iff. unfold mk_mat.
    repeat match goal with |- context [if ?b then _ else _] => destruct b end;
      split; intros H; try reflexivity; try discriminate; try (intros H'; discriminate).
    exfalso; apply H; reflexivity.
  Qed.
End Ctors.

Print Assumptions normalize_range.
Print Assumptions normalize_congr.
Print Assumptions normalize_id.
Print Assumptions normalize_minus_pi.
Print Assumptions normalize_cos_sin.
Print Assumptions normalize_half.
Print Assumptions mk_axis_unit.
Print Assumptions mk_axis_parallel.
Print Assumptions mk_ctrl_ok_iff.
Print Assumptions mk_mat_ok_iff.
