(* ParserP.v — structural theorems about Model/ParserExpand.v (the model of
   opensquirrel/parser/libqasm/parser.py and opensquirrel/register_manager.py):
   register layout by prefix sums, zip of the columns, argument expansion of gates /
   measures / resets, statement order, library lookup, register sizes and oids.
   Everything here holds for any [T] and any [N : Num T]. *)
From Coq Require Import ZArith List Bool String Lia.
Import ListNotations.
From OSQ Require Import Num IR DefaultTable ParserExpand.
Open Scope string_scope.

(* ------------------------------------------------------------------ *)
(** * 0. Small list / association-list facts *)

Lemma vkind_eqb_eq a b : vkind_eqb a b = true <-> a = b.
Proof. destruct a, b; simpl; split; intro H; try reflexivity; discriminate H. Qed.

Lemma vkind_eqb_refl a : vkind_eqb a a = true.
Proof. destruct a; reflexivity. Qed.

Lemma assoc_str_In {A} n (l : list (string * A)) x :
  assoc_str n l = Some x -> In (n, x) l.
Proof.
  induction l as [|[k v] l IH]; simpl; intro H; [discriminate H|].
  destruct (String.eqb k n) eqn:E.
  - apply String.eqb_eq in E. injection H as ->. left. subst k. reflexivity.
  - right. apply IH, H.
Qed.

Lemma In_assoc_str {A} n (l : list (string * A)) x :
  NoDup (map fst l) -> In (n, x) l -> assoc_str n l = Some x.
Proof.
  induction l as [|[k v] l IH]; simpl; intros ND HI; [contradiction|].
  inversion ND as [|? ? Hnin ND']; subst.
  destruct HI as [HE|HI].
  - injection HE as -> ->. rewrite String.eqb_refl. reflexivity.
  - destruct (String.eqb k n) eqn:E.
    + apply String.eqb_eq in E. subst k. exfalso. apply Hnin.
      apply (in_map fst) in HI. exact HI.
    + apply IH; assumption.
Qed.

Lemma assoc_str_None {A} n (l : list (string * A)) :
  ~ In n (map fst l) -> assoc_str n l = None.
Proof.
  induction l as [|[k v] l IH]; simpl; intro H; [reflexivity|].
  destruct (String.eqb k n) eqn:E.
  - apply String.eqb_eq in E. exfalso. apply H. left. exact E.
  - apply IH. intro HI. apply H. right. exact HI.
Qed.

Lemma NoDup_map_filter {A B} (f : A -> B) (p : A -> bool) l :
  NoDup (map f l) -> NoDup (map f (filter p l)).
Proof.
  induction l as [|a l IH]; simpl; intro ND; [constructor|].
  inversion ND as [|? ? Hnin ND']; subst.
  destruct (p a); simpl.
  - constructor; [|apply IH, ND'].
    intro HI. apply Hnin. apply in_map_iff in HI. destruct HI as [y [Hy HI]].
    apply filter_In in HI. destruct HI as [HI _]. rewrite <- Hy. apply in_map, HI.
  - apply IH, ND'.
Qed.

(* ------------------------------------------------------------------ *)
(** * 1. Register layout: prefix sums per kind *)

Definition is_kind (k : vkind) (v : avar) : bool := vkind_eqb (v_kind v) k.

(* sum of the sizes of the variables of kind [k] (others are skipped) *)
Fixpoint sum_kind (k : vkind) (vars : list avar) : Z :=
  match vars with
  | [] => 0%Z
  | v :: vs => if is_kind k v then (v_size v + sum_kind k vs)%Z else sum_kind k vs
  end.

(* names of the variables of kind [k], in declaration order *)
Definition knames (k : vkind) (vars : list avar) : list string :=
  map v_name (filter (is_kind k) vars).

(* dictionary entries in declaration order, starting at index [cur] *)
Fixpoint entries (k : vkind) (vars : list avar) (cur : Z) : list (string * (Z * Z)) :=
  match vars with
  | [] => []
  | v :: vs => if is_kind k v
               then (v_name v, (cur, v_size v)) :: entries k vs (cur + v_size v)%Z
               else entries k vs cur
  end.

Lemma layout_entries k vars : forall cur acc,
  layout k vars cur acc = ((rev (entries k vars cur) ++ acc)%list, (cur + sum_kind k vars)%Z).
Proof.
  induction vars as [|v vs IH]; intros cur acc; simpl.
  - f_equal. lia.
  - unfold is_kind. destruct (vkind_eqb (v_kind v) k).
    + rewrite IH. simpl. rewrite <- app_assoc. simpl. f_equal. lia.
    + apply IH.
Qed.

Lemma ranges_entries k vars : ranges k vars = rev (entries k vars 0%Z).
Proof. unfold ranges. rewrite layout_entries. simpl. apply app_nil_r. Qed.

(** [reg_size] is the sum of the sizes of the variables of that kind. *)
Theorem reg_size_sum k vars : reg_size k vars = sum_kind k vars.
Proof. unfold reg_size. rewrite layout_entries. reflexivity. Qed.

Lemma sum_kind_app k pre post :
  sum_kind k (pre ++ post)%list = (sum_kind k pre + sum_kind k post)%Z.
Proof.
  induction pre as [|v vs IH]; simpl; [reflexivity|].
  destruct (is_kind k v); rewrite IH; lia.
Qed.

Lemma entries_app k pre post : forall cur,
  entries k (pre ++ post)%list cur
  = (entries k pre cur ++ entries k post (cur + sum_kind k pre)%Z)%list.
Proof.
  induction pre as [|v vs IH]; intro cur; simpl.
  - f_equal. lia.
  - destruct (is_kind k v).
    + simpl. f_equal. rewrite IH. f_equal. f_equal. lia.
    + apply IH.
Qed.

Lemma entries_names k vars : forall cur, map fst (entries k vars cur) = knames k vars.
Proof.
  unfold knames. induction vars as [|v vs IH]; intro cur; simpl; [reflexivity|].
  destruct (is_kind k v); simpl; [f_equal|]; apply IH.
Qed.

Lemma NoDup_knames k vars : NoDup (map v_name vars) -> NoDup (knames k vars).
Proof. apply NoDup_map_filter. Qed.

Lemma In_ranges_entries k vars e : In e (ranges k vars) <-> In e (entries k vars 0%Z).
Proof. rewrite ranges_entries. symmetry. apply in_rev. Qed.

Lemma NoDup_ranges_keys k vars :
  NoDup (knames k vars) -> NoDup (map fst (ranges k vars)).
Proof.
  intro ND. rewrite ranges_entries, map_rev. apply NoDup_rev.
  rewrite entries_names. exact ND.
Qed.

(** Main layout theorem: the variable [v] of kind [k] declared after [pre]
    (whatever the kinds of the variables in [pre] and [post]) is mapped to
    [(first, size)] with [first] the sum of the sizes of the earlier variables of
    kind [k] and [size] its own size.  Names of kind [k] must be distinct: [layout]
    conses entries, so a later duplicate would shadow an earlier one. *)
Theorem layout_prefix_sums k pre v post :
  v_kind v = k ->
  NoDup (knames k (pre ++ v :: post)) ->
  assoc_str (v_name v) (ranges k (pre ++ v :: post))
  = Some (sum_kind k pre, v_size v)
  /\ reg_size k (pre ++ v :: post) = sum_kind k (pre ++ v :: post).
Proof.
  intros Hk ND. split; [|apply reg_size_sum].
  apply In_assoc_str; [apply NoDup_ranges_keys, ND|].
  apply In_ranges_entries. rewrite entries_app. apply in_or_app. right.
  simpl. unfold is_kind. rewrite Hk, vkind_eqb_refl. left. reflexivity.
Qed.

(* the same under the simpler hypothesis that ALL names are distinct *)
Corollary layout_prefix_sums_nodup k pre v post :
  v_kind v = k ->
  NoDup (map v_name (pre ++ v :: post)) ->
  assoc_str (v_name v) (ranges k (pre ++ v :: post))
  = Some (sum_kind k pre, v_size v).
Proof.
  intros Hk ND. apply layout_prefix_sums; [exact Hk|apply NoDup_knames, ND].
Qed.

Lemma In_entries k vars : forall cur n f s,
  In (n, (f, s)) (entries k vars cur) ->
  exists pre v post, vars = (pre ++ v :: post)%list /\ v_kind v = k /\ v_name v = n
                     /\ f = (cur + sum_kind k pre)%Z /\ s = v_size v.
Proof.
  induction vars as [|v vs IH]; intros cur n f s HI; simpl in HI; [contradiction|].
  destruct (is_kind k v) eqn:Ek.
  - destruct HI as [HE|HI].
    + injection HE as Hn Hf Hs. exists [], v, vs. simpl.
      apply vkind_eqb_eq in Ek. repeat split; auto; lia.
    + apply IH in HI. destruct HI as [pre [w [post [Hv [Hk [Hn [Hf Hs]]]]]]].
      exists (v :: pre), w, post. simpl. rewrite Ek. subst vs.
      repeat split; auto; lia.
  - apply IH in HI. destruct HI as [pre [w [post [Hv [Hk [Hn [Hf Hs]]]]]]].
    exists (v :: pre), w, post. simpl. rewrite Ek. subst vs. repeat split; auto.
Qed.

(** Converse (no distinctness needed): every entry of the dictionary is the
    prefix-sum range of some variable of that kind with that name. *)
Theorem ranges_lookup_inv k vars n f s :
  assoc_str n (ranges k vars) = Some (f, s) ->
  exists pre v post, vars = (pre ++ v :: post)%list /\ v_kind v = k /\ v_name v = n
                     /\ f = sum_kind k pre /\ s = v_size v.
Proof.
  intro H. apply assoc_str_In, In_ranges_entries, In_entries in H.
  destruct H as [pre [v [post [Hv [Hk [Hn [Hf Hs]]]]]]].
  exists pre, v, post. repeat split; auto.
Qed.

(** A name that no variable of kind [k] carries is not in the dictionary (KeyError). *)
Theorem ranges_lookup_none k vars n :
  ~ In n (knames k vars) -> assoc_str n (ranges k vars) = None.
Proof.
  intro H. apply assoc_str_None. rewrite ranges_entries, map_rev, entries_names.
  intro HI. apply H. apply in_rev. exact HI.
Qed.

(** ** Consecutive, disjoint ranges *)

Definition sizes_nonneg (k : vkind) (vars : list avar) : Prop :=
  forall v, In v vars -> v_kind v = k -> (0 <= v_size v)%Z.

Lemma sizes_nonneg_tl k v vs : sizes_nonneg k (v :: vs) -> sizes_nonneg k vs.
Proof. intros H w Hw. apply H. right. exact Hw. Qed.

Lemma sum_kind_nonneg k vars : sizes_nonneg k vars -> (0 <= sum_kind k vars)%Z.
Proof.
  induction vars as [|v vs IH]; intro H; simpl; [lia|].
  pose proof (IH (sizes_nonneg_tl _ _ _ H)) as H1.
  destruct (is_kind k v) eqn:Ek; [|exact H1].
  apply vkind_eqb_eq in Ek. pose proof (H v (or_introl eq_refl) Ek). lia.
Qed.

Lemma entries_bounds k vars : sizes_nonneg k vars -> forall cur n f s,
  In (n, (f, s)) (entries k vars cur) ->
  (cur <= f /\ 0 <= s /\ f + s <= cur + sum_kind k vars)%Z.
Proof.
  induction vars as [|v vs IH]; intros Hnn cur n f s HI; simpl in *; [contradiction|].
  pose proof (sum_kind_nonneg _ _ (sizes_nonneg_tl _ _ _ Hnn)) as Hs.
  destruct (is_kind k v) eqn:Ek.
  - apply vkind_eqb_eq in Ek. pose proof (Hnn v (or_introl eq_refl) Ek) as Hv.
    destruct HI as [HE|HI].
    + injection HE as _ <- <-. lia.
    + apply (IH (sizes_nonneg_tl _ _ _ Hnn)) in HI. lia.
  - apply (IH (sizes_nonneg_tl _ _ _ Hnn)) in HI. lia.
Qed.

Lemma entries_cover k vars : sizes_nonneg k vars -> forall cur z,
  (cur <= z < cur + sum_kind k vars)%Z ->
  exists n f s, In (n, (f, s)) (entries k vars cur) /\ (f <= z < f + s)%Z.
Proof.
  induction vars as [|v vs IH]; intros Hnn cur z Hz; simpl in *; [lia|].
  destruct (is_kind k v) eqn:Ek.
  - destruct (Z_lt_dec z (cur + v_size v)) as [Hlt|Hge].
    + exists (v_name v), cur, (v_size v). split; [left; reflexivity|lia].
    + destruct (IH (sizes_nonneg_tl _ _ _ Hnn) (cur + v_size v)%Z z) as [n [f [s [HI Hr]]]];
        [lia|]. exists n, f, s. split; [right; exact HI|exact Hr].
  - apply IH; [apply (sizes_nonneg_tl _ _ _ Hnn)|exact Hz].
Qed.

Lemma entries_disjoint k vars : sizes_nonneg k vars -> forall cur e1 e2 z,
  In e1 (entries k vars cur) -> In e2 (entries k vars cur) ->
  (fst (snd e1) <= z < fst (snd e1) + snd (snd e1))%Z ->
  (fst (snd e2) <= z < fst (snd e2) + snd (snd e2))%Z ->
  e1 = e2.
Proof.
  induction vars as [|v vs IH]; intros Hnn cur e1 e2 z H1 H2 Hz1 Hz2; simpl in *;
    [contradiction|].
  pose proof (sizes_nonneg_tl _ _ _ Hnn) as Hnn'.
  destruct (is_kind k v) eqn:Ek; [|eapply IH; eassumption].
  destruct e1 as [n1 [f1 s1]], e2 as [n2 [f2 s2]]. simpl in *.
  destruct H1 as [H1|H1], H2 as [H2|H2].
  - rewrite <- H1, <- H2. reflexivity.
  - injection H1 as _ <- <-. apply (entries_bounds _ _ Hnn') in H2. lia.
  - injection H2 as _ <- <-. apply (entries_bounds _ _ Hnn') in H1. lia.
  - apply (IH Hnn' (cur + v_size v)%Z (n1, (f1, s1)) (n2, (f2, s2)) z); assumption.
Qed.

(** The ranges of kind [k] partition [0, reg_size k vars): every index of the
    register lies in the range of some variable, every range lies inside the
    register, and two ranges that share an index belong to the same variable. *)
Theorem ranges_disjoint_cover k vars :
  sizes_nonneg k vars ->
  NoDup (knames k vars) ->
  (forall z, (0 <= z < reg_size k vars)%Z ->
     exists n f s, assoc_str n (ranges k vars) = Some (f, s) /\ (f <= z < f + s)%Z)
  /\ (forall n f s, assoc_str n (ranges k vars) = Some (f, s) ->
        (0 <= f /\ 0 <= s /\ f + s <= reg_size k vars)%Z)
  /\ (forall n1 f1 s1 n2 f2 s2 z,
        assoc_str n1 (ranges k vars) = Some (f1, s1) ->
        assoc_str n2 (ranges k vars) = Some (f2, s2) ->
        (f1 <= z < f1 + s1)%Z -> (f2 <= z < f2 + s2)%Z ->
        n1 = n2 /\ f1 = f2 /\ s1 = s2).
Proof.
  intros Hnn ND. rewrite reg_size_sum. split; [|split].
  - intros z Hz. destruct (entries_cover _ _ Hnn 0%Z z) as [n [f [s [HI Hr]]]]; [lia|].
    exists n, f, s. split; [|exact Hr].
    apply In_assoc_str; [apply NoDup_ranges_keys, ND|apply In_ranges_entries, HI].
  - intros n f s HA.
    apply assoc_str_In, In_ranges_entries, (entries_bounds _ _ Hnn) in HA. lia.
  - intros n1 f1 s1 n2 f2 s2 z HA1 HA2 Hz1 Hz2.
    apply assoc_str_In, In_ranges_entries in HA1, HA2.
    pose proof (entries_disjoint _ _ Hnn 0%Z _ _ z HA1 HA2 Hz1 Hz2) as HE.
    injection HE as -> -> ->. repeat split.
Qed.

Lemma map_seq_shift {B} (n : nat) : forall (f : nat -> B) (s : nat),
  map f (seq s n) = map (fun i => f (s + i)%nat) (seq 0 n).
Proof.
  induction n as [|n IH]; intros f s; simpl; [reflexivity|].
  rewrite Nat.add_0_r. f_equal.
  rewrite (IH f (S s)), (IH (fun i => f (s + i)%nat) 1%nat).
  apply map_ext. intro i. f_equal. lia.
Qed.

Lemma zrange_app first a b : (0 <= a)%Z -> (0 <= b)%Z ->
  zrange first (a + b) = (zrange first a ++ zrange (first + a) b)%list.
Proof.
  intros Ha Hb. unfold zrange. rewrite Z2Nat.inj_add by assumption.
  rewrite seq_app, map_app. f_equal. simpl.
  rewrite map_seq_shift. apply map_ext. intro i. lia.
Qed.

Lemma zrange_length first size : List.length (zrange first size) = Z.to_nat size.
Proof. unfold zrange. rewrite map_length, seq_length. reflexivity. Qed.

Lemma zrange_nth first size i d : (i < Z.to_nat size)%nat ->
  nth i (zrange first size) d = (first + Z.of_nat i)%Z.
Proof.
  intro Hi. unfold zrange.
  rewrite (nth_indep _ d (first + Z.of_nat 0)%Z) by (rewrite map_length, seq_length; exact Hi).
  rewrite (map_nth (fun i => (first + Z.of_nat i)%Z)). rewrite seq_nth by exact Hi. reflexivity.
Qed.

Lemma entries_consecutive k vars : sizes_nonneg k vars -> forall cur,
  List.concat (map (fun e => zrange (fst (snd e)) (snd (snd e))) (entries k vars cur))
  = zrange cur (sum_kind k vars).
Proof.
  induction vars as [|v vs IH]; intros Hnn cur; simpl; [reflexivity|].
  pose proof (sizes_nonneg_tl _ _ _ Hnn) as Hnn'.
  destruct (is_kind k v) eqn:Ek; [|apply IH, Hnn'].
  simpl. rewrite (IH Hnn'). apply vkind_eqb_eq in Ek.
  symmetry. apply zrange_app; [apply Hnn; [left; reflexivity|exact Ek]|].
  apply sum_kind_nonneg, Hnn'.
Qed.

(** Consecutive form of the partition: the ranges, taken in declaration order
    (the dictionary [ranges] is in reverse declaration order), concatenate to
    exactly [0; 1; ...; reg_size - 1]. *)
Theorem ranges_consecutive k vars :
  sizes_nonneg k vars ->
  List.concat (map (fun e => zrange (fst (snd e)) (snd (snd e))) (rev (ranges k vars)))
  = zrange 0 (reg_size k vars).
Proof.
  intro Hnn. rewrite ranges_entries, rev_involutive, reg_size_sum.
  apply entries_consecutive, Hnn.
Qed.

(* ------------------------------------------------------------------ *)
(** * 2. zip of the columns *)

(* length of the shortest column (0 for no column) *)
Fixpoint min_len {A} (cols : list (list A)) : nat :=
  match cols with
  | [] => 0
  | c :: cs => match cs with
               | [] => List.length c
               | _ :: _ => Nat.min (List.length c) (min_len cs)
               end
  end.

Lemma min_len_spec {A} (cols : list (list A)) : cols <> [] ->
  Forall (fun c => min_len cols <= List.length c)%nat cols
  /\ Exists (fun c => List.length c = min_len cols) cols.
Proof.
  induction cols as [|c cs IH]; intro Hne; [contradiction Hne; reflexivity|].
  destruct cs as [|c' cs'].
  - simpl. split; [constructor; [lia|constructor]|left; reflexivity].
  - destruct IH as [IHa IHe]; [discriminate|].
    change (min_len (c :: c' :: cs')) with (Nat.min (List.length c) (min_len (c' :: cs'))).
    remember (min_len (c' :: cs')) as M eqn:EM. clear EM.
    split.
    + constructor; [lia|]. eapply Forall_impl; [|exact IHa]. cbv beta. intros a Ha. lia.
    + destruct (Nat.le_gt_cases (List.length c) M) as [Hle|Hgt].
      * left. lia.
      * right. eapply Exists_impl; [|exact IHe]. cbv beta. intros a Ha. lia.
Qed.

Lemma min_len_unique {A} (cols : list (list A)) m : cols <> [] ->
  Forall (fun c => m <= List.length c)%nat cols ->
  Exists (fun c => List.length c = m) cols ->
  min_len cols = m.
Proof.
  intros Hne Hall Hex. destruct (min_len_spec cols Hne) as [Sa Se].
  rewrite Forall_forall in Hall, Sa. rewrite Exists_exists in Hex, Se.
  destruct Hex as [c1 [Hin1 Hl1]]. destruct Se as [c2 [Hin2 Hl2]].
  pose proof (Hall c2 Hin2). pose proof (Sa c1 Hin1). lia.
Qed.

Lemma min_len_equal {A} (cols : list (list A)) m : cols <> [] ->
  Forall (fun c => List.length c = m) cols -> min_len cols = m.
Proof.
  intros Hne Hall. apply min_len_unique; [exact Hne| |].
  - eapply Forall_impl; [|exact Hall]. simpl. intros a Ha. lia.
  - destruct cols as [|c cs]; [contradiction Hne; reflexivity|].
    left. inversion Hall; assumption.
Qed.

Lemma heads_Some_map {A} (d : A) (cols : list (list A)) r :
  heads cols = Some r -> r = map (fun c => nth 0 c d) cols.
Proof.
  revert r. induction cols as [|c cs IH]; intros r H; simpl in H.
  - injection H as <-. reflexivity.
  - destruct c as [|x c]; [discriminate H|].
    destruct (heads cs) as [r'|]; simpl in H; [|discriminate H].
    injection H as <-. simpl. f_equal. apply IH. reflexivity.
Qed.

Lemma heads_None_iff {A} (cols : list (list A)) :
  heads cols = None <-> Exists (fun c => c = []) cols.
Proof.
  induction cols as [|c cs IH]; simpl.
  - split; [discriminate|]. intro H. inversion H.
  - destruct c as [|x c].
    + split; [intros _; left; reflexivity|reflexivity].
    + destruct (heads cs) as [r|]; simpl.
      * split; [discriminate|]. intro H. inversion H as [? ? H0|? ? H0]; [discriminate H0|].
        apply IH in H0. discriminate H0.
      * split; [|reflexivity]. intros _. right. apply IH. reflexivity.
Qed.

Lemma min_len_zero {A} (cols : list (list A)) :
  Exists (fun c => c = []) cols -> min_len cols = 0.
Proof.
  intro H. assert (Hne : cols <> []) by (intro E; subst; inversion H).
  apply min_len_unique; [exact Hne| |].
  - apply Forall_forall. intros. lia.
  - eapply Exists_impl; [|exact H]. simpl. intros a ->. reflexivity.
Qed.

Lemma min_len_tl {A} (cols : list (list A)) : cols <> [] ->
  Forall (fun c => c <> []) cols ->
  min_len cols = S (min_len (map (@tl A) cols)).
Proof.
  intros Hne Hall. assert (Hne' : map (@tl A) cols <> []).
  { destruct cols; [contradiction Hne; reflexivity|discriminate]. }
  destruct (min_len_spec _ Hne') as [Sa Se].
  apply min_len_unique; [exact Hne| |].
  - rewrite Forall_forall in *. intros c Hc.
    pose proof (Sa (tl c) (in_map _ _ _ Hc)) as H1. pose proof (Hall c Hc) as H2.
    destruct c; [contradiction H2; reflexivity|simpl in *; lia].
  - rewrite Exists_exists in *. destruct Se as [c' [Hin Hl]].
    apply in_map_iff in Hin. destruct Hin as [c [Hc Hin]]. exists c. split; [exact Hin|].
    rewrite Forall_forall in Hall. pose proof (Hall c Hin) as H2. subst c'.
    destruct c; [contradiction H2; reflexivity|simpl in *; lia].
Qed.

Lemma heads_Some_nonempty {A} (cols : list (list A)) r :
  heads cols = Some r -> Forall (fun c => c <> []) cols.
Proof.
  intro H. apply Forall_forall. intros c Hc E. subst c.
  assert (HN : heads cols = None) by (apply heads_None_iff, Exists_exists; eauto).
  congruence.
Qed.

Lemma zip_rows_length {A} fuel : forall (cols : list (list A)), cols <> [] ->
  List.length (zip_rows fuel cols) = Nat.min fuel (min_len cols).
Proof.
  induction fuel as [|f IH]; intros cols Hne; simpl; [reflexivity|].
  destruct (heads cols) as [r|] eqn:Eh.
  - simpl. rewrite IH by (destruct cols; [contradiction Hne; reflexivity|discriminate]).
    rewrite (min_len_tl cols Hne (heads_Some_nonempty _ _ Eh)). reflexivity.
  - apply heads_None_iff, min_len_zero in Eh. rewrite Eh. reflexivity.
Qed.

Lemma nth_tl {A} i (c : list A) d : nth i (tl c) d = nth (S i) c d.
Proof. destruct c; [destruct i; reflexivity|reflexivity]. Qed.

Lemma zip_rows_nth {A} (d : A) fuel : forall (cols : list (list A)) i,
  (i < List.length (zip_rows fuel cols))%nat ->
  nth i (zip_rows fuel cols) [] = map (fun c => nth i c d) cols.
Proof.
  induction fuel as [|f IH]; intros cols i Hi; simpl in *; [lia|].
  destruct (heads cols) as [r|] eqn:Eh; simpl in *; [|lia].
  destruct i as [|i].
  - apply heads_Some_map, Eh.
  - rewrite IH by lia. rewrite map_map. apply map_ext. intro c. apply nth_tl.
Qed.

(** zip of no column is empty; for at least one column there are exactly
    (length of the shortest column) rows and row [i] holds the [i]-th element of
    every column, in column order. *)
Theorem zip_cols_nil {A} : @zip_cols A [] = [].
Proof. reflexivity. Qed.

Theorem zip_cols_spec {A} (d : A) (cols : list (list A)) : cols <> [] ->
  List.length (zip_cols cols) = min_len cols
  /\ (forall i, (i < min_len cols)%nat ->
        nth i (zip_cols cols) [] = map (fun c => nth i c d) cols)
  /\ zip_cols cols = map (fun i => map (fun c => nth i c d) cols) (seq 0 (min_len cols)).
Proof.
  intro Hne. destruct cols as [|c cs]; [contradiction Hne; reflexivity|].
  assert (HL : List.length (zip_cols (c :: cs)) = min_len (c :: cs)).
  { unfold zip_cols. rewrite zip_rows_length by exact Hne.
    destruct (min_len_spec (c :: cs) Hne) as [Sa _]. inversion Sa; subst. lia. }
  assert (HN : forall i, (i < min_len (c :: cs))%nat ->
             nth i (zip_cols (c :: cs)) [] = map (fun c => nth i c d) (c :: cs)).
  { intros i Hi. unfold zip_cols in *. apply zip_rows_nth. rewrite HL. exact Hi. }
  split; [exact HL|]. split; [exact HN|].
  apply (nth_ext _ _ [] []).
  - rewrite HL, map_length, seq_length. reflexivity.
  - intros i Hi. rewrite HL in Hi. rewrite HN by exact Hi.
    rewrite (nth_indep _ [] ((fun i => map (fun c0 => nth i c0 d) (c :: cs)) 0%nat))
      by (rewrite map_length, seq_length; exact Hi).
    rewrite (map_nth (fun i => map (fun c0 => nth i c0 d) (c :: cs))).
    rewrite seq_nth by exact Hi. reflexivity.
Qed.

(** Columns of equal length [m]: exactly [m] rows. *)
Theorem zip_cols_equal {A} (d : A) (cols : list (list A)) m : cols <> [] ->
  Forall (fun c => List.length c = m) cols ->
  List.length (zip_cols cols) = m
  /\ zip_cols cols = map (fun i => map (fun c => nth i c d) cols) (seq 0 m).
Proof.
  intros Hne Hall. destruct (zip_cols_spec d cols Hne) as [HL [_ HE]].
  rewrite (min_len_equal cols m Hne Hall) in *. split; assumption.
Qed.

(* ------------------------------------------------------------------ *)
(** * 3. Gate arguments *)

Lemma collect_map_ok {A B} (F : A -> result (list B)) (G : A -> list B) l :
  (forall o, In o l -> F o = Ok (G o)) -> collect (map F l) = Ok (map G l).
Proof.
  induction l as [|a l IH]; intro H; simpl; [reflexivity|].
  rewrite (H a (or_introl eq_refl)). rewrite IH; [reflexivity|].
  intros o Ho. apply H. right. exact Ho.
Qed.

Lemma nth_repeat_lt {A} (a d : A) n i : (i < n)%nat -> nth i (repeat a n) d = a.
Proof.
  revert i. induction n as [|n IH]; intros i Hi; [lia|].
  destruct i as [|i]; simpl; [reflexivity|apply IH; lia].
Qed.

Lemma find_name_split vars n v :
  find (fun v => String.eqb (v_name v) n) vars = Some v ->
  v_name v = n /\ exists pre post, vars = (pre ++ v :: post)%list.
Proof.
  intro H. apply find_some in H. destruct H as [HI HE].
  apply String.eqb_eq in HE. split; [exact HE|].
  apply in_split in HI. exact HI.
Qed.

(** With distinct names, a name whose (first) declaration has kind [k]
    ([k] = qubit or bit) is in the dictionary of kind [k], with the size that
    [_size_of] reads from the declaration. *)
Lemma kind_lookup k vars n :
  NoDup (map v_name vars) -> k <> VOther -> var_kind vars n = k ->
  exists f, assoc_str n (ranges k vars) = Some (f, var_size vars n).
Proof.
  unfold var_kind, var_size. intros ND Hk Hv.
  destruct (find (fun v => String.eqb (v_name v) n) vars) as [v|] eqn:Ef;
    [|contradiction Hk; symmetry; exact Hv].
  apply find_name_split in Ef. destruct Ef as [Hn [pre [post Hvars]]].
  subst vars n. exists (sum_kind k pre).
  apply layout_prefix_sums_nodup; assumption.
Qed.

Section ParserT.
  Context {T : Type}.
  Notation operand := (operand T).
  Notation arg := (arg T).

  Lemma is_q_not_b vars (o : operand) : is_q vars o = true -> is_b vars o = false.
  Proof.
    unfold is_q, is_b. intro H. apply vkind_eqb_eq in H. rewrite H. reflexivity.
  Qed.

  Lemma is_b_not_q vars (o : operand) : is_b vars o = true -> is_q vars o = false.
  Proof.
    unfold is_q, is_b. intro H. apply vkind_eqb_eq in H. rewrite H. reflexivity.
  Qed.

  (** A variable / index reference of kind [k] (qubit or bit) always resolves, to
      exactly [_size_of] many indices (names distinct). *)
  Lemma get_indices_ok k vars (o : operand) :
    NoDup (map v_name vars) -> k <> VOther -> operand_kind vars o = k ->
    exists l, get_indices k vars o = Ok l
              /\ List.length l = Z.to_nat (operand_size vars o).
  Proof.
    intros ND Hk Ho. destruct o as [n|n idx|z|x]; simpl in *;
      try (contradiction Hk; symmetry; exact Ho).
    - destruct (kind_lookup k vars n ND Hk Ho) as [f Hf]. rewrite Hf.
      eexists. split; [reflexivity|]. apply zrange_length.
    - destruct (kind_lookup k vars n ND Hk Ho) as [f Hf]. rewrite Hf.
      eexists. split; [reflexivity|]. rewrite map_length, Nat2Z.id. reflexivity.
  Qed.

  Lemma get_indices_ok_q vars (o : operand) :
    NoDup (map v_name vars) -> is_q vars o = true ->
    exists qs, get_indices VQubit vars o = Ok qs
               /\ List.length qs = Z.to_nat (operand_size vars o).
  Proof.
    intros ND Hq. apply get_indices_ok; [exact ND|discriminate|].
    apply vkind_eqb_eq, Hq.
  Qed.

  (* number_of_operands *)
  Definition gate_nops (vars : list avar) (ops : list operand) : Z :=
    fold_left (fun acc o => if is_q vars o then (acc + operand_size vars o)%Z else acc) ops 0%Z.

  Fixpoint qsum (vars : list avar) (ops : list operand) : Z :=
    match ops with
    | [] => 0%Z
    | o :: r => ((if is_q vars o then operand_size vars o else 0) + qsum vars r)%Z
    end.

  Lemma fold_nops_qsum vars ops : forall acc,
    fold_left (fun acc o => if is_q vars o then (acc + operand_size vars o)%Z else acc) ops acc
    = (acc + qsum vars ops)%Z.
  Proof.
    induction ops as [|o r IH]; intro acc; simpl; [lia|].
    rewrite IH. destruct (is_q vars o); lia.
  Qed.

  Lemma gate_nops_qsum vars ops : gate_nops vars ops = qsum vars ops.
  Proof. unfold gate_nops. rewrite fold_nops_qsum. lia. Qed.

  Lemma qsum_lower vars ops M : (0 <= M)%Z ->
    (forall o, In o ops -> is_q vars o = true -> operand_size vars o = M) ->
    (0 <= qsum vars ops)%Z
    /\ ((exists o, In o ops /\ is_q vars o = true) -> (M <= qsum vars ops)%Z).
  Proof.
    intros HM. induction ops as [|o r IH]; intro Hall; simpl.
    - split; [lia|]. intros [o [[] _]].
    - destruct IH as [IH0 IH1]; [intros o' Ho'; apply Hall; right; exact Ho'|].
      destruct (is_q vars o) eqn:Eq.
      + rewrite (Hall o (or_introl eq_refl) Eq). split; [lia|]. intros _. lia.
      + split; [lia|]. intros [o' [[HE|HI] Hq]]; [subst o'; congruence|].
        assert (M <= qsum vars r)%Z by (apply IH1; eauto). lia.
  Qed.

  (** The literal parameters are never cut short by the zip: a literal is
      repeated [number_of_operands] = TOTAL number of qubits over all qubit
      operands times, and that is at least the common length [m] of the qubit
      operands. *)
  Theorem gate_params_not_truncated vars (ops : list operand) m :
    NoDup (map v_name vars) ->
    (forall o, In o ops -> is_q vars o = true ->
       exists qs, get_indices VQubit vars o = Ok qs /\ List.length qs = m) ->
    (exists o, In o ops /\ is_q vars o = true) ->
    (m <= Z.to_nat (gate_nops vars ops))%nat.
  Proof.
    intros ND Hall Hex. destruct m as [|m']; [lia|]. set (m := S m') in *.
    rewrite gate_nops_qsum.
    assert (Hsz : forall o, In o ops -> is_q vars o = true ->
                  operand_size vars o = Z.of_nat m).
    { intros o Ho Hq. destruct (Hall o Ho Hq) as [qs [Hg Hl]].
      destruct (get_indices_ok_q vars o ND Hq) as [qs' [Hg' Hl']].
      rewrite Hg in Hg'. injection Hg' as <-. unfold m in *. lia. }
    destruct (qsum_lower vars ops (Z.of_nat m) (Nat2Z.is_nonneg m) Hsz) as [_ Hge].
    specialize (Hge Hex). lia.
  Qed.

  Definition is_literal (o : operand) : bool :=
    match o with OInt _ | OFloat _ => true | _ => false end.

  (* the entry of row [i] that operand [o] contributes *)
  Definition gate_cell (vars : list avar) (o : operand) (i : nat) : arg :=
    if is_q vars o then
      match get_indices VQubit vars o with
      | Ok qs => AQ (nth i qs 0%Z)
      | Err _ => AQ 0%Z
      end
    else match o with
         | OInt k => AI k
         | OFloat x => AF x
         | _ => AQ 0%Z
         end.

  (* the column of operand [o] *)
  Definition gate_col (vars : list avar) (nops : nat) (o : operand) : list arg :=
    if is_q vars o then
      match get_indices VQubit vars o with
      | Ok qs => map (@AQ T) qs
      | Err _ => []
      end
    else match o with
         | OInt k => repeat (@AI T k) nops
         | OFloat x => repeat (AF x) nops
         | _ => []
         end.

  (** Gate arguments: if every qubit operand denotes [m] qubits, every other
      operand is a literal and there is at least one qubit operand, there are
      exactly [m] argument rows; row [i] lists, for each operand in order, the
      [i]-th qubit of a qubit operand or the literal itself. *)
  Theorem expand_gate_spec vars (ops : list operand) m :
    NoDup (map v_name vars) ->
    (forall o, In o ops -> is_q vars o = true ->
       exists qs, get_indices VQubit vars o = Ok qs /\ List.length qs = m) ->
    (forall o, In o ops -> is_q vars o = false -> is_literal o = true) ->
    (exists o, In o ops /\ is_q vars o = true) ->
    expand_gate_args vars ops
    = Ok (map (fun i => map (fun o => gate_cell vars o i) ops) (seq 0 m)).
  Proof.
    intros ND Hall Hlit Hex.
    pose proof (gate_params_not_truncated vars ops m ND Hall Hex) as Hnops.
    unfold expand_gate_args. fold (gate_nops vars ops). cbv zeta.
    set (nops := Z.to_nat (gate_nops vars ops)) in *.
    rewrite (collect_map_ok _ (gate_col vars nops)).
    2:{ intros o Ho. unfold gate_col. destruct (is_q vars o) eqn:Eq.
        - destruct (Hall o Ho Eq) as [qs [Hg _]]. rewrite Hg. reflexivity.
        - pose proof (Hlit o Ho Eq) as Hl. destruct o; try discriminate Hl; reflexivity. }
    f_equal.
    assert (Hne : map (gate_col vars nops) ops <> []).
    { destruct Hex as [o [Ho _]]. destruct ops; [contradiction Ho|discriminate]. }
    assert (Hmin : min_len (map (gate_col vars nops) ops) = m).
    { apply min_len_unique; [exact Hne| |].
      - apply Forall_forall. intros c Hc. apply in_map_iff in Hc.
        destruct Hc as [o [Hc Ho]]. subst c. unfold gate_col.
        destruct (is_q vars o) eqn:Eq.
        + destruct (Hall o Ho Eq) as [qs [Hg Hl]]. rewrite Hg, map_length. lia.
        + pose proof (Hlit o Ho Eq) as Hl.
          destruct o; try discriminate Hl; rewrite repeat_length; exact Hnops.
      - destruct Hex as [o [Ho Eq]]. apply Exists_exists.
        exists (gate_col vars nops o). split; [apply in_map, Ho|].
        unfold gate_col. rewrite Eq. destruct (Hall o Ho Eq) as [qs [Hg Hl]].
        rewrite Hg, map_length. exact Hl. }
    destruct (zip_cols_spec (@AQ T 0%Z) _ Hne) as [_ [_ HE]].
    rewrite HE, Hmin. apply map_ext_in. intros i Hi. apply in_seq in Hi.
    rewrite map_map. apply map_ext_in. intros o Ho.
    unfold gate_col, gate_cell. destruct (is_q vars o) eqn:Eq.
    - destruct (Hall o Ho Eq) as [qs [Hg Hl]]. rewrite Hg.
      apply (map_nth (@AQ T)).
    - pose proof (Hlit o Ho Eq) as Hl.
      destruct o; try discriminate Hl; apply nth_repeat_lt; lia.
  Qed.

  Corollary expand_gate_rows vars (ops : list operand) m :
    NoDup (map v_name vars) ->
    (forall o, In o ops -> is_q vars o = true ->
       exists qs, get_indices VQubit vars o = Ok qs /\ List.length qs = m) ->
    (forall o, In o ops -> is_q vars o = false -> is_literal o = true) ->
    (exists o, In o ops /\ is_q vars o = true) ->
    exists rows, expand_gate_args vars ops = Ok rows
      /\ List.length rows = m
      /\ forall i, (i < m)%nat -> nth i rows [] = map (fun o => gate_cell vars o i) ops.
  Proof.
    intros ND Hall Hlit Hex. eexists. split; [apply expand_gate_spec; eassumption|].
    split; [rewrite map_length, seq_length; reflexivity|].
    intros i Hi.
    rewrite (nth_indep _ [] ((fun i => map (fun o => gate_cell vars o i) ops) 0%nat))
      by (rewrite map_length, seq_length; exact Hi).
    rewrite (map_nth (fun i => map (fun o => gate_cell vars o i) ops)).
    rewrite seq_nth by exact Hi. reflexivity.
  Qed.

  (** Without a qubit operand (only literals) [number_of_operands] is 0, every
      column is empty and there is no row at all. *)
  Theorem expand_gate_no_qubit vars (ops : list operand) :
    (forall o, In o ops -> is_q vars o = false /\ is_literal o = true) ->
    expand_gate_args vars ops = Ok [].
  Proof.
    intro Hall. unfold expand_gate_args. fold (gate_nops vars ops). cbv zeta.
    assert (Hn : gate_nops vars ops = 0%Z).
    { rewrite gate_nops_qsum. induction ops as [|o r IH]; simpl; [reflexivity|].
      destruct (Hall o (or_introl eq_refl)) as [-> _]. rewrite IH; [reflexivity|].
      intros o' Ho'. apply Hall. right. exact Ho'. }
    rewrite Hn. simpl Z.to_nat.
    rewrite (collect_map_ok _ (fun _ => [])).
    2:{ intros o Ho. destruct (Hall o Ho) as [-> Hl].
        destruct o; try discriminate Hl; reflexivity. }
    f_equal. destruct ops as [|o r]; reflexivity.
  Qed.

  (** The distinct-names hypothesis is needed in the MODEL: with a redeclared
      name, [_size_of] (first declaration) and the register dictionary (last
      declaration) disagree and a literal column can be shorter than the qubit
      column. *)
  Lemma expand_gate_spec_needs_nodup :
    exists vars (ops : list operand) qs,
      (forall o, In o ops -> is_q vars o = true -> get_indices VQubit vars o = Ok qs)
      /\ List.length qs = 2%nat
      /\ expand_gate_args vars ops = Ok [[AQ 1%Z; AI 7%Z]].
  Proof.
    exists [mkVar "q" VQubit 1; mkVar "q" VQubit 2], [OVar "q"; OInt 7], [1%Z; 2%Z].
    split; [|split; reflexivity].
    intros o [<-|[<-|[]]] Hq; [reflexivity|discriminate Hq].
  Qed.

  (* ---------------------------------------------------------------- *)
  (** * 4. Measure arguments *)

  Lemma zip_rows_two {A} : forall (c1 c2 : list A) fuel, (List.length c1 <= fuel)%nat ->
    zip_rows fuel [c1; c2] = map (fun p => [fst p; snd p]) (combine c1 c2).
  Proof.
    induction c1 as [|x c1 IH]; intros c2 fuel Hf.
    - destruct fuel; reflexivity.
    - destruct fuel as [|f]; [simpl in Hf; lia|].
      destruct c2 as [|y c2]; [reflexivity|].
      simpl. f_equal. apply IH. simpl in Hf. lia.
  Qed.

  Lemma zip_cols_two {A} (c1 c2 : list A) :
    zip_cols [c1; c2] = map (fun p => [fst p; snd p]) (combine c1 c2).
  Proof. unfold zip_cols. apply zip_rows_two. lia. Qed.

  Lemma combine_map2 {A B C D} (f : A -> C) (g : B -> D) : forall l1 l2,
    combine (map f l1) (map g l2) = map (fun p => (f (fst p), g (snd p))) (combine l1 l2).
  Proof.
    induction l1 as [|a l1 IH]; intros [|b l2]; simpl; try reflexivity.
    f_equal. apply IH.
  Qed.

  Lemma combine_seq {A B} (da : A) (db : B) : forall l1 l2 m,
    List.length l1 = m -> List.length l2 = m ->
    combine l1 l2 = map (fun i => (nth i l1 da, nth i l2 db)) (seq 0 m).
  Proof.
    induction l1 as [|a l1 IH]; intros l2 m H1 H2; simpl in H1; subst m.
    - reflexivity.
    - destruct l2 as [|b l2]; [discriminate H2|]. simpl in H2.
      simpl. f_equal. rewrite <- seq_shift, map_map. apply IH; [reflexivity|lia].
  Qed.

  (** Measure arguments (AST operands: bit operand first, qubit operand second):
      the result rows pair the [i]-th qubit with the [i]-th bit, qubit first.
      (Python's zip stops at the shorter of the two, as [combine] does.) *)
  Theorem expand_measure_combine vars (ob oq : operand) qs bs :
    is_b vars ob = true -> is_q vars oq = true ->
    get_indices VBit vars ob = Ok bs -> get_indices VQubit vars oq = Ok qs ->
    expand_measure_args vars [ob; oq]
    = Ok (map (fun p => [AQ (fst p); AB (snd p)]) (combine qs bs)).
  Proof.
    intros Hb Hq Hgb Hgq. unfold expand_measure_args. simpl.
    rewrite Hq, Hgq, (is_b_not_q _ _ Hb), Hb, Hgb.
    f_equal. rewrite zip_cols_two, combine_map2, map_map. reflexivity.
  Qed.

  Theorem expand_measure_spec vars (ob oq : operand) qs bs m :
    is_b vars ob = true -> is_q vars oq = true ->
    get_indices VBit vars ob = Ok bs -> get_indices VQubit vars oq = Ok qs ->
    List.length qs = m -> List.length bs = m ->
    expand_measure_args vars [ob; oq]
    = Ok (map (fun i => [AQ (nth i qs 0%Z); AB (nth i bs 0%Z)]) (seq 0 m)).
  Proof.
    intros Hb Hq Hgb Hgq Hlq Hlb.
    rewrite (expand_measure_combine vars ob oq qs bs Hb Hq Hgb Hgq).
    rewrite (combine_seq 0%Z 0%Z qs bs m Hlq Hlb), map_map. reflexivity.
  Qed.

  (** The same with distinct names: the lookups cannot fail. *)
  Corollary expand_measure_spec_nodup vars (ob oq : operand) :
    NoDup (map v_name vars) ->
    is_b vars ob = true -> is_q vars oq = true ->
    exists qs bs, get_indices VBit vars ob = Ok bs /\ get_indices VQubit vars oq = Ok qs
      /\ expand_measure_args vars [ob; oq]
         = Ok (map (fun p => [AQ (fst p); AB (snd p)]) (combine qs bs)).
  Proof.
    intros ND Hb Hq.
    destruct (get_indices_ok VBit vars ob ND) as [bs [Hgb _]];
      [discriminate|apply vkind_eqb_eq, Hb|].
    destruct (get_indices_ok_q vars oq ND Hq) as [qs [Hgq _]].
    exists qs, bs. split; [exact Hgb|]. split; [exact Hgq|].
    apply expand_measure_combine; assumption.
  Qed.

  (* ---------------------------------------------------------------- *)
  (** * 5. Reset arguments *)

  Theorem expand_reset_all vars :
    expand_reset_args (T:=T) vars []
    = Ok (map (fun i => [AQ (Z.of_nat i)]) (seq 0 (Z.to_nat (reg_size VQubit vars)))).
  Proof.
    unfold expand_reset_args, zrange. rewrite map_map. reflexivity.
  Qed.

  Corollary expand_reset_all_length vars rows :
    expand_reset_args (T:=T) vars [] = Ok rows ->
    List.length rows = Z.to_nat (reg_size VQubit vars).
  Proof.
    rewrite expand_reset_all. intro H. injection H as <-.
    rewrite map_length, seq_length. reflexivity.
  Qed.

  Lemma collect_Forall2 {A B} (F : A -> result (list B)) : forall l r,
    Forall2 (fun o x => F o = Ok x) l r -> collect (map F l) = Ok r.
  Proof.
    induction 1 as [|o x l r Ho _ IH]; simpl; [reflexivity|].
    rewrite Ho, IH. reflexivity.
  Qed.

  Lemma collect_Forall2_inv {A B} (F : A -> result (list B)) : forall l r,
    collect (map F l) = Ok r -> Forall2 (fun o x => F o = Ok x) l r.
  Proof.
    induction l as [|o l IH]; intros r H; simpl in H.
    - injection H as <-. constructor.
    - destruct (F o) as [x|e] eqn:Eo; [|discriminate H].
      destruct (collect (map F l)) as [r'|e]; [|discriminate H].
      injection H as <-. constructor; [exact Eo|apply IH; reflexivity].
  Qed.

  (** With operands: one row per qubit, the qubits of the operands concatenated
      in operand order. *)
  Theorem expand_reset_operands vars (ops : list operand) qss :
    ops <> [] ->
    Forall2 (fun o qs => is_q vars o = true /\ get_indices VQubit vars o = Ok qs) ops qss ->
    expand_reset_args vars ops = Ok (map (fun q => [@AQ T q]) (List.concat qss)).
  Proof.
    intros Hne HF. unfold expand_reset_args.
    assert (HF' : Forall2 (fun o x => (if is_q vars o then get_indices VQubit vars o
                                       else Err EType) = Ok x) ops qss).
    { clear Hne. induction HF as [|a b l l' [Ha Hb] _ IH]; constructor; [|exact IH].
      rewrite Ha. exact Hb. }
    destruct ops as [|o r]; [contradiction Hne; reflexivity|].
    rewrite (collect_Forall2 _ (o :: r) qss HF'). reflexivity.
  Qed.

  (** and a non-qubit operand is a TypeError *)
  Theorem expand_reset_type_error vars (pre : list operand) o post qss :
    Forall2 (fun o qs => is_q vars o = true /\ get_indices VQubit vars o = Ok qs) pre qss ->
    is_q vars o = false ->
    expand_reset_args vars (pre ++ o :: post) = Err EType.
  Proof.
    intros HF Hq. unfold expand_reset_args.
    assert (HC : collect (map (fun o => if is_q vars o then get_indices VQubit vars o
                                        else Err EType) (pre ++ o :: post)) = Err EType).
    { induction HF as [|a b l r [Ha Hb] _ IH]; simpl.
      - rewrite Hq. reflexivity.
      - rewrite Ha, Hb, IH. reflexivity. }
    rewrite HC. destruct (pre ++ o :: post)%list eqn:E; [|reflexivity].
    destruct pre; discriminate E.
  Qed.

  (* ---------------------------------------------------------------- *)
  (** * 6. Statement order *)

  Notation astmt := (astmt T).
  Notation call := (call T).

  Theorem expand_program_app vars (s1 s2 : list astmt) :
    expand_program vars (s1 ++ s2)
    = match expand_program vars s1 with
      | Err e => Err e
      | Ok c1 => match expand_program vars s2 with
                 | Err e => Err e
                 | Ok c2 => Ok (c1 ++ c2)%list
                 end
      end.
  Proof.
    induction s1 as [|st s1 IH]; simpl.
    - destruct (expand_program vars s2); reflexivity.
    - destruct (expand_stmt vars st) as [cs|e]; [|reflexivity].
      rewrite IH. destruct (expand_program vars s1) as [c1|e]; [|reflexivity].
      destruct (expand_program vars s2) as [c2|e]; [|reflexivity].
      rewrite app_assoc. reflexivity.
  Qed.

  Corollary expand_program_app_ok vars (s1 s2 : list astmt) c1 c2 :
    expand_program vars s1 = Ok c1 -> expand_program vars s2 = Ok c2 ->
    expand_program vars (s1 ++ s2) = Ok (c1 ++ c2)%list.
  Proof. intros H1 H2. rewrite expand_program_app, H1, H2. reflexivity. Qed.

  (** The calls of a program are the calls of its statements, concatenated in
      source order. *)
  Theorem expand_program_order vars (sts : list astmt) cs :
    expand_program vars sts = Ok cs <->
    exists css, Forall2 (fun st c => expand_stmt vars st = Ok c) sts css
                /\ cs = List.concat css.
  Proof.
    revert cs. induction sts as [|st sts IH]; intro cs; simpl.
    - split.
      + intro H. injection H as <-. exists []. split; [constructor|reflexivity].
      + intros [css [HF ->]]. inversion HF. reflexivity.
    - split.
      + intro H. destruct (expand_stmt vars st) as [c|e] eqn:Es; [|discriminate H].
        destruct (expand_program vars sts) as [r|e] eqn:Er; [|discriminate H].
        injection H as <-. destruct (proj1 (IH r) eq_refl) as [css [HF ->]].
        exists (c :: css). split; [constructor; assumption|reflexivity].
      + intros [css [HF ->]]. inversion HF as [|? c ? css' Hc HF']; subst.
        rewrite Hc. rewrite (proj2 (IH (List.concat css'))); [reflexivity|].
        exists css'. split; [exact HF'|reflexivity].
  Qed.

  (** An error in any statement makes the whole result an error, and it is the
      error of the FIRST failing statement. *)
  Theorem expand_program_first_error vars (pre : list astmt) st post e :
    Forall (fun s => exists c, expand_stmt vars s = Ok c) pre ->
    expand_stmt vars st = Err e ->
    expand_program vars (pre ++ st :: post) = Err e.
  Proof.
    intros HF He. induction HF as [|s pre [c Hc] _ IH]; simpl.
    - rewrite He. reflexivity.
    - rewrite Hc, IH. reflexivity.
  Qed.

  Corollary expand_program_error_in vars (sts : list astmt) st e :
    In st sts -> expand_stmt vars st = Err e ->
    exists e', expand_program vars sts = Err e'.
  Proof.
    intros HI He. induction sts as [|s sts IH]; [contradiction|]. simpl.
    destruct HI as [->|HI].
    - rewrite He. eexists; reflexivity.
    - destruct (expand_stmt vars s); [|eexists; reflexivity].
      destruct (IH HI) as [e' ->]. eexists; reflexivity.
  Qed.

  Theorem expand_program_error_inv vars (sts : list astmt) e :
    expand_program vars sts = Err e ->
    exists pre st post, sts = (pre ++ st :: post)%list
      /\ Forall (fun s => exists c, expand_stmt vars s = Ok c) pre
      /\ expand_stmt vars st = Err e.
  Proof.
    induction sts as [|s sts IH]; simpl; intro H; [discriminate H|].
    destruct (expand_stmt vars s) as [c|e0] eqn:Es.
    - destruct (expand_program vars sts) as [r|e1]; [discriminate H|].
      injection H as ->. destruct (IH eq_refl) as [pre [st [post [-> [HF He]]]]].
      exists (s :: pre), st, post. split; [reflexivity|]. split; [|exact He].
      constructor; [eexists; exact Es|exact HF].
    - injection H as ->. exists [], s, sts. repeat split; [constructor|exact Es].
  Qed.

  (* ---------------------------------------------------------------- *)
  (** * 7. Library lookup *)

  (** A name that is in none of the libraries is refused (whatever branch of
      the substring dispatch it takes). *)
  Theorem unknown_name_refused vars name (ops : list operand) :
    mem_str name hand_gate_set = false ->
    assoc_str name hand_aliases = None ->
    mem_str name hand_measure_set = false ->
    mem_str name hand_reset_set = false ->
    expand_stmt vars (mkAstmt name ops) = Err EValue.
  Proof.
    intros Hg Ha Hm Hr. unfold expand_stmt. cbn [a_name a_ops].
    rewrite Hg, Ha, Hm, Hr.
    destruct (contains "measure" name); [reflexivity|].
    destruct (contains "reset" name); reflexivity.
  Qed.

  (** The dispatch is by substring first: a name containing "measure" that is
      not a measure instruction is refused without looking at the gate library. *)
  Theorem measure_substring_refused vars name (ops : list operand) :
    contains "measure" name = true ->
    mem_str name hand_measure_set = false ->
    expand_stmt vars (mkAstmt name ops) = Err EValue.
  Proof.
    intros Hc Hm. unfold expand_stmt. cbn [a_name a_ops]. rewrite Hc, Hm. reflexivity.
  Qed.

  Theorem gate_stmt vars name (ops : list operand) :
    mem_str name hand_gate_set = true ->
    expand_stmt vars (mkAstmt name ops)
    = match expand_gate_args vars ops with
      | Err e => Err e
      | Ok rows => Ok (map (mkCall KGate name) rows)
      end.
  Proof.
    intro Hg. unfold expand_stmt. cbn [a_name a_ops]. rewrite Hg.
    assert (Hin : In name hand_gate_set).
    { unfold mem_str in Hg. apply existsb_exists in Hg. destruct Hg as [x [Hx He]].
      apply String.eqb_eq in He. subst x. exact Hx. }
    cbv in Hin.
    repeat (destruct Hin as [<-|Hin]; [reflexivity|]). contradiction.
  Qed.

  Theorem alias_resolves vars (ops : list operand) :
    expand_stmt vars (mkAstmt "Hadamard" ops)
    = match expand_gate_args vars ops with
      | Err e => Err e
      | Ok rows => Ok (map (mkCall KGate "H") rows)
      end
    /\ expand_stmt vars (mkAstmt "Identity" ops)
       = match expand_gate_args vars ops with
         | Err e => Err e
         | Ok rows => Ok (map (mkCall KGate "I") rows)
         end.
  Proof. split; reflexivity. Qed.

  Corollary alias_calls vars (ops : list operand) cs :
    (expand_stmt vars (mkAstmt "Hadamard" ops) = Ok cs ->
       Forall (fun c => c_kind c = KGate /\ c_name c = "H") cs)
    /\ (expand_stmt vars (mkAstmt "Identity" ops) = Ok cs ->
          Forall (fun c => c_kind c = KGate /\ c_name c = "I") cs).
  Proof.
    destruct (alias_resolves vars ops) as [-> ->].
    split; intro H; (destruct (expand_gate_args vars ops) as [rows|e]; [|discriminate H]);
      injection H as <-; apply Forall_forall; intros c Hc; apply in_map_iff in Hc;
      destruct Hc as [r [<- _]]; split; reflexivity.
  Qed.

  Theorem measure_stmt vars name (ops : list operand) :
    mem_str name hand_measure_set = true ->
    expand_stmt vars (mkAstmt name ops)
    = match expand_measure_args vars ops with
      | Err e => Err e
      | Ok rows => Ok (map (mkCall KMeasure name) rows)
      end.
  Proof.
    intro Hm. unfold expand_stmt. cbn [a_name a_ops]. rewrite Hm.
    assert (Hin : In name hand_measure_set).
    { unfold mem_str in Hm. apply existsb_exists in Hm. destruct Hm as [x [Hx He]].
      apply String.eqb_eq in He. subst x. exact Hx. }
    cbv in Hin.
    repeat (destruct Hin as [<-|Hin]; [reflexivity|]). contradiction.
  Qed.

  (** A whole measure statement [measure b = q] (operands of equal length [m]):
      [m] calls of that measure instruction, the [i]-th on ([i]-th qubit, [i]-th bit). *)
  Corollary measure_stmt_spec vars name (ob oq : operand) qs bs m :
    mem_str name hand_measure_set = true ->
    is_b vars ob = true -> is_q vars oq = true ->
    get_indices VBit vars ob = Ok bs -> get_indices VQubit vars oq = Ok qs ->
    List.length qs = m -> List.length bs = m ->
    expand_stmt vars (mkAstmt name [ob; oq])
    = Ok (map (fun i => mkCall KMeasure name [AQ (nth i qs 0%Z); AB (nth i bs 0%Z)])
              (seq 0 m)).
  Proof.
    intros Hm Hb Hq Hgb Hgq Hlq Hlb. rewrite (measure_stmt vars name _ Hm).
    rewrite (expand_measure_spec vars ob oq qs bs m Hb Hq Hgb Hgq Hlq Hlb), map_map.
    reflexivity.
  Qed.

  Theorem reset_stmt vars (ops : list operand) :
    expand_stmt vars (mkAstmt "reset" ops)
    = match expand_reset_args vars ops with
      | Err e => Err e
      | Ok rows => Ok (map (mkCall KReset "reset") rows)
      end.
  Proof. reflexivity. Qed.
End ParserT.

(* ------------------------------------------------------------------ *)
(** * 8. Register sizes, statement count and object identities *)

(* [p; p+1; ...] ([n] of them) *)
Fixpoint pos_from (p : positive) (n : nat) : list positive :=
  match n with O => [] | S n' => p :: pos_from (Pos.succ p) n' end.

Lemma pos_from_length p n : List.length (pos_from p n) = n.
Proof. revert p. induction n as [|n IH]; intro p; simpl; [reflexivity|]. rewrite IH. reflexivity. Qed.

Lemma pos_from_ge n : forall p q, In q (pos_from p n) -> (p <= q)%positive.
Proof.
  induction n as [|n IH]; intros p q HI; simpl in HI; [contradiction|].
  destruct HI as [<-|HI]; [lia|]. apply IH in HI. lia.
Qed.

Lemma pos_from_NoDup n : forall p, NoDup (pos_from p n).
Proof.
  induction n as [|n IH]; intro p; simpl; constructor; [|apply IH].
  intro HI. apply pos_from_ge in HI. lia.
Qed.

Lemma pos_from_nth n : forall p i, (i < n)%nat ->
  nth_error (pos_from p n) i = Some (Pos.of_nat (Pos.to_nat p + i)).
Proof.
  induction n as [|n IH]; intros p i Hi; [lia|].
  destruct i as [|i]; simpl.
  - rewrite Nat.add_0_r, Pos2Nat.id. reflexivity.
  - rewrite IH by lia. f_equal. f_equal. lia.
Qed.

Lemma NoDup_map_Some {A} (l : list A) : NoDup l -> NoDup (map Some l).
Proof.
  induction 1 as [|a l Hnin _ IH]; simpl; constructor; [|exact IH].
  intro HI. apply in_map_iff in HI. destruct HI as [b [Hb HI]].
  injection Hb as ->. apply Hnin, HI.
Qed.

Section ParserEvalP.
  Context {T : Type} (N : Num T).

  Definition stmt_oid (s : stmt T) : option positive :=
    match s with
    | SGate oid _ _ | SMeasure oid _ _ _ _ | SReset oid _ _ => Some oid
    | SComment _ => None
    end.

  Lemma eval_call_oid oid (c : call T) s :
    eval_call N oid c = Ok s -> stmt_oid s = Some oid.
  Proof.
    unfold eval_call. intro H.
    repeat match type of H with
           | context [match ?x with _ => _ end] => destruct x; try discriminate H
           end;
      injection H as <-; reflexivity.
  Qed.

  Lemma eval_calls_spec (cs : list (call T)) : forall oid ir,
    eval_calls N oid cs = Ok ir ->
    List.length ir = List.length cs
    /\ map stmt_oid ir = map Some (pos_from oid (List.length cs))
    /\ Forall2 (fun c s => exists o, eval_call N o c = Ok s) cs ir.
  Proof.
    induction cs as [|c cs IH]; intros oid ir H; simpl in H.
    - injection H as <-. repeat split. constructor.
    - destruct (eval_call N oid c) as [s|e] eqn:Ec; [|discriminate H].
      destruct (eval_calls N (Pos.succ oid) cs) as [r|e] eqn:Er; [|discriminate H].
      injection H as <-. destruct (IH _ _ Er) as [HL [HO HF]]. simpl.
      split; [rewrite HL; reflexivity|]. split.
      + rewrite (eval_call_oid _ _ _ Ec), HO. reflexivity.
      + constructor; [exists oid; exact Ec|exact HF].
  Qed.

  (** The circuit's register sizes are the sums of the declared sizes per kind,
      there is exactly one IR statement per expanded call, in the same order, and
      the statements carry the object identities 1, 2, 3, ... (fresh, distinct). *)
  Theorem parse_register_sizes vars (sts : list (astmt T)) nq nb ir :
    parse_program N vars sts = Ok (nq, nb, ir) ->
    nq = reg_size VQubit vars /\ nb = reg_size VBit vars
    /\ nq = sum_kind VQubit vars /\ nb = sum_kind VBit vars
    /\ exists calls, expand_program vars sts = Ok calls
         /\ List.length ir = List.length calls
         /\ map stmt_oid ir = map Some (pos_from 1%positive (List.length ir))
         /\ Forall2 (fun c s => exists o, eval_call N o c = Ok s) calls ir.
  Proof.
    unfold parse_program. intro H.
    destruct (expand_program vars sts) as [cs|e]; [|discriminate H].
    destruct (eval_calls N 1 cs) as [r|e] eqn:Er; [|discriminate H].
    injection H as <- <- <-. rewrite <- !reg_size_sum. repeat split.
    exists cs. destruct (eval_calls_spec _ _ _ Er) as [HL [HO HF]].
    split; [reflexivity|]. split; [exact HL|]. split; [rewrite HL; exact HO|exact HF].
  Qed.

  (** Readable consequences about the oids: the [i]-th statement (from 0) has
      oid [i+1]; all oids are distinct; no statement is a comment. *)
  Corollary parse_oids vars (sts : list (astmt T)) nq nb ir :
    parse_program N vars sts = Ok (nq, nb, ir) ->
    (forall i s, nth_error ir i = Some s -> stmt_oid s = Some (Pos.of_nat (S i)))
    /\ NoDup (map stmt_oid ir).
  Proof.
    intro H. apply parse_register_sizes in H.
    destruct H as [_ [_ [_ [_ [calls [_ [_ [HO _]]]]]]]]. split.
    - intros i s Hs. pose proof (map_nth_error stmt_oid _ _ Hs) as H1.
      rewrite HO in H1.
      assert (Hi : (i < List.length ir)%nat) by (apply nth_error_Some; congruence).
      rewrite (map_nth_error Some i (pos_from 1 (List.length ir)) (pos_from_nth _ 1 i Hi)) in H1.
      injection H1 as <-. reflexivity.
    - rewrite HO. apply NoDup_map_Some, pos_from_NoDup.
  Qed.

  (** Errors propagate: a failing expansion or a failing instruction call makes
      the whole parse fail with that error. *)
  Theorem parse_program_expand_error vars (sts : list (astmt T)) e :
    expand_program vars sts = Err e -> parse_program N vars sts = Err e.
  Proof. unfold parse_program. intros ->. reflexivity. Qed.
End ParserEvalP.

Print Assumptions layout_prefix_sums.
Print Assumptions reg_size_sum.
Print Assumptions ranges_lookup_inv.
Print Assumptions ranges_disjoint_cover.
Print Assumptions ranges_consecutive.
Print Assumptions zip_cols_spec.
Print Assumptions zip_cols_equal.
Print Assumptions gate_params_not_truncated.
Print Assumptions expand_gate_spec.
Print Assumptions expand_gate_rows.
Print Assumptions expand_gate_no_qubit.
Print Assumptions expand_gate_spec_needs_nodup.
Print Assumptions expand_measure_combine.
Print Assumptions expand_measure_spec.
Print Assumptions expand_reset_all.
Print Assumptions expand_reset_operands.
Print Assumptions expand_program_app.
Print Assumptions expand_program_order.
Print Assumptions expand_program_first_error.
Print Assumptions expand_program_error_inv.
Print Assumptions unknown_name_refused.
Print Assumptions alias_resolves.
Print Assumptions gate_stmt.
Print Assumptions measure_stmt.
Print Assumptions measure_stmt_spec.
Print Assumptions parse_register_sizes.
Print Assumptions parse_oids.
