(* ComposeP.v — compose_bloch_sphere_rotations (Model/Merge.v [compose]):
   the composed rotation is the quaternion product op(a) . op(b) (b acts first),
   up to the sign of the SU(2) double cover, when the two roundings to 7
   decimals are idealised (instance [RNumX]); generator inheritance (any T);
   the error of the idealised rounding. *)
From Coq Require Import Reals ZArith List Bool Lra Lia.
Import ListNotations.
From OSQ Require Import Num IR Construct Matrix ABA Merge RTrig RNum SU2 ConstructP ABAP.
Open Scope R_scope.

(* ------------------------------------------------------------------ *)
(** * 1. the instance with idealised rounding *)

Definition RNumX : Num R :=
  mkNum R IZR Rplus Rminus Rmult Rdiv Ropp Rabs sqrt sin cos tan acos atan2 PI
        (fun x y => Rfloor (x / y)) (fun x y => x - y * Rfloor (x / y))
        Rltb Rleb Reqb Rcopysign
        (fun _ x => x) (fun _ x => x)
        (fun _ => true) (fun x => x * (180 / PI)).

(* every field except the two roundings is RNum's *)
Lemma RNumX_fields :
  nofZ RNumX = nofZ RNum /\ nadd RNumX = nadd RNum /\ nsub RNumX = nsub RNum /\
  nmul RNumX = nmul RNum /\ ndiv RNumX = ndiv RNum /\ nneg RNumX = nneg RNum /\
  nabs RNumX = nabs RNum /\ nsqrt RNumX = nsqrt RNum /\ nsin RNumX = nsin RNum /\
  ncos RNumX = ncos RNum /\ ntan RNumX = ntan RNum /\ nacos RNumX = nacos RNum /\
  natan2 RNumX = natan2 RNum /\ npi RNumX = npi RNum /\ nfloordiv RNumX = nfloordiv RNum /\
  nmod RNumX = nmod RNum /\ nltb RNumX = nltb RNum /\ nleb RNumX = nleb RNum /\
  neqb RNumX = neqb RNum /\ ncopysign RNumX = ncopysign RNum /\
  nisfinite RNumX = nisfinite RNum /\ ndegrees RNumX = ndegrees RNum.
Proof. repeat split. Qed.

Lemma RNumX_round d x : nround RNumX d x = x.
Proof. reflexivity. Qed.
Lemma RNumX_roundpy d x : nroundpy RNumX d x = x.
Proof. reflexivity. Qed.

(* bridging equalities: definitions that do not round are the same at both instances *)
Lemma normalize_angle_X : normalize_angle RNumX = normalize_angle RNum.
Proof. reflexivity. Qed.
Lemma mk_axis_X : mk_axis RNumX = mk_axis RNum.
Proof. reflexivity. Qed.
Lemma norm3_X : norm3 RNumX = norm3 RNum.
Proof. reflexivity. Qed.
Lemma mk_bsr_X : mk_bsr RNumX = mk_bsr RNum.
Proof. reflexivity. Qed.
Lemma bsr_identity_X : bsr_identity RNumX = bsr_identity RNum.
Proof. reflexivity. Qed.
Lemma is_identity_bsr_X q ax ang ph :
  is_identity RNumX (BSR q ax ang ph) = is_identity RNum (BSR q ax ang ph).
Proof. reflexivity. Qed.
Lemma atol_X : atol RNumX = ATOL.
Proof. reflexivity. Qed.
Lemma clamp1_X : clamp1 RNumX = Rclamp.
Proof. reflexivity. Qed.
Lemma can1_X : can1 RNumX = can1 RNum.
Proof. reflexivity. Qed.
Lemma dot3_X : dot3 RNumX = dot3 RNum.
Proof. reflexivity. Qed.
Lemma cross3_X : cross3 RNumX = cross3 RNum.
Proof. reflexivity. Qed.

(* ------------------------------------------------------------------ *)
(** * 2. the core algebra: product of two rotation quaternions *)

(* scalar part  w = ca cb - sa sb (a.b) *)
Definition cW (a b : axis3 R) (alpha beta : R) : R :=
  cos (alpha / 2) * cos (beta / 2) - sin (alpha / 2) * sin (beta / 2) * dot3 RNum a b.

(* vector part  v = sa cb a + ca sb b + sa sb (a x b) *)
Definition cVc (alpha beta x y z : R) : R :=
  sin (alpha / 2) * cos (beta / 2) * x + cos (alpha / 2) * sin (beta / 2) * y +
  sin (alpha / 2) * sin (beta / 2) * z.

Definition cV (a b : axis3 R) (alpha beta : R) : axis3 R :=
  (cVc alpha beta (ax_x a) (ax_x b) (ax_x (cross3 RNum a b)),
   cVc alpha beta (ax_y a) (ax_y b) (ax_y (cross3 RNum a b)),
   cVc alpha beta (ax_z a) (ax_z b) (ax_z (cross3 RNum a b))).

Definition nsq3 (v : axis3 R) : R := ax_x v * ax_x v + ax_y v * ax_y v + ax_z v * ax_z v.

Ltac unf_geom :=
  unfold cW, cV, cVc, nsq3, dot3, cross3, unit_axis, ax_x, ax_y, ax_z in *;
  cbn [fst snd nadd nsub nmul RNum] in *.

(* holds for any two triples; unit length is only needed for the norm *)
Lemma compose_quaternion_prod a b alpha beta :
  qmul (qrot a alpha) (qrot b beta) =
  (cW a b alpha beta, ax_x (cV a b alpha beta), ax_y (cV a b alpha beta), ax_z (cV a b alpha beta)).
Proof.
  destruct a as [[a1 a2] a3], b as [[b1 b2] b3].
  unfold qrot. unf_geom.
  apply quat_eq; unfold qmul, qw, qx, qy, qz; cbn [fst snd]; ring.
Qed.

Lemma compose_quaternion_norm a b alpha beta :
  unit_axis a -> unit_axis b ->
  cW a b alpha beta * cW a b alpha beta + nsq3 (cV a b alpha beta) = 1.
Proof.
  intros Ha Hb.
  pose proof (qnorm2_mul (qrot a alpha) (qrot b beta)) as H.
  rewrite (qrot_unit a alpha Ha), (qrot_unit b beta Hb), compose_quaternion_prod in H.
  unfold qnorm2, qw, qx, qy, qz in H. cbn [fst snd] in H. unfold nsq3. lra.
Qed.

Theorem compose_quaternion a b alpha beta :
  unit_axis a -> unit_axis b ->
  let w := cW a b alpha beta in
  let v := cV a b alpha beta in
  qmul (qrot a alpha) (qrot b beta) = (w, ax_x v, ax_y v, ax_z v) /\
  w * w + (ax_x v * ax_x v + ax_y v * ax_y v + ax_z v * ax_z v) = 1.
Proof.
  intros Ha Hb. cbv zeta. split.
  - apply compose_quaternion_prod.
  - apply (compose_quaternion_norm a b alpha beta Ha Hb).
Qed.

Lemma cW_range a b alpha beta :
  unit_axis a -> unit_axis b -> -1 <= cW a b alpha beta <= 1.
Proof.
  intros Ha Hb. pose proof (compose_quaternion_norm a b alpha beta Ha Hb) as H.
  unfold nsq3 in H.
  set (w := cW a b alpha beta) in *. set (v := cV a b alpha beta) in *.
  assert (0 <= ax_x v * ax_x v) by nra. assert (0 <= ax_y v * ax_y v) by nra.
  assert (0 <= ax_z v * ax_z v) by nra. nra.
Qed.

(* ------------------------------------------------------------------ *)
(** * 3. the model with idealised rounding, written over R *)

Definition cgamma (a b : axis3 R) (alpha beta : R) : R := 2 * acos (cW a b alpha beta).

Lemma compose_X_unfold q axa anga pha gia axb angb phb gib :
  compose RNumX q axa anga pha gia axb angb phb gib =
  let w := Rclamp (cW axa axb anga angb) in
  let s := sin (2 * acos w / 2) in
  let v := cV axa axb anga angb in
  if Rltb (Rabs s) ATOL then (bsr_identity RNum q, anon)
  else (mk_bsr RNum q (1 / s * ax_x v, 1 / s * ax_y v, 1 / s * ax_z v) (2 * acos w) (pha + phb),
        if is_identity RNum (BSR q axa anga pha) then gib
        else if is_identity RNum (BSR q axb angb phb) then gia else anon).
Proof. reflexivity. Qed.

(* sin(gamma/2) = |v| *)
Lemma sin_half_gamma a b alpha beta :
  unit_axis a -> unit_axis b ->
  sin (cgamma a b alpha beta / 2) = sqrt (nsq3 (cV a b alpha beta)).
Proof.
  intros Ha Hb. unfold cgamma.
  replace (2 * acos (cW a b alpha beta) / 2) with (acos (cW a b alpha beta)) by field.
  rewrite sin_acos by (apply cW_range; assumption).
  f_equal. pose proof (compose_quaternion_norm a b alpha beta Ha Hb) as H.
  unfold Rsqr. lra.
Qed.

Lemma cos_half_gamma a b alpha beta :
  unit_axis a -> unit_axis b ->
  cos (cgamma a b alpha beta / 2) = cW a b alpha beta.
Proof.
  intros Ha Hb. unfold cgamma.
  replace (2 * acos (cW a b alpha beta) / 2) with (acos (cW a b alpha beta)) by field.
  apply cos_acos, cW_range; assumption.
Qed.

Lemma nsq3_nonneg v : 0 <= nsq3 v.
Proof. unfold nsq3. nra. Qed.

Lemma sin_half_gamma_nonneg a b alpha beta :
  unit_axis a -> unit_axis b -> 0 <= sin (cgamma a b alpha beta / 2).
Proof. intros Ha Hb. rewrite sin_half_gamma by assumption. apply sqrt_pos. Qed.

Lemma gamma_range a b alpha beta : 0 <= cgamma a b alpha beta <= 2 * PI.
Proof. unfold cgamma. pose proof (acos_bound (cW a b alpha beta)). lra. Qed.

(* mk_axis leaves a unit vector unchanged *)
Lemma mk_axis_of_unit v : unit_axis v -> mk_axis RNum v = v.
Proof.
  destruct v as [[a b] c]. unfold unit_axis, ax_x, ax_y, ax_z. cbn [fst snd]. intros H.
  rewrite mk_axis_RNum, H, sqrt_1.
  apply f_equal2; [apply f_equal2|]; field.
Qed.

Lemma mk_axis_100 : mk_axis RNum (1, 0, 0) = (1, 0, 0).
Proof. apply mk_axis_of_unit. unfold unit_axis, ax_x, ax_y, ax_z. cbn [fst snd]. ring. Qed.

Lemma bsr_identity_R q : bsr_identity RNum q = BSR q (1, 0, 0) 0 0.
Proof.
  unfold bsr_identity, mk_bsr.
  change (nofZ RNum 1, nofZ RNum 0, nofZ RNum 0) with (1, 0, 0).
  change (nofZ RNum 0) with 0.
  rewrite mk_axis_100, normalize_angle_0. reflexivity.
Qed.

(* the exact regime: the shortcut test [|sin(gamma/2)| < ATOL] only fires when sin(gamma/2) = 0 *)
Definition compose_regime (a b : axis3 R) (alpha beta : R) : Prop :=
  sin (cgamma a b alpha beta / 2) = 0 \/ ATOL <= Rabs (sin (cgamma a b alpha beta / 2)).

(* the un-normalised axis v / |v| *)
Definition caxis (a b : axis3 R) (alpha beta : R) : axis3 R :=
  let s := sin (cgamma a b alpha beta / 2) in
  let v := cV a b alpha beta in
  (1 / s * ax_x v, 1 / s * ax_y v, 1 / s * ax_z v).

Lemma caxis_unit a b alpha beta :
  unit_axis a -> unit_axis b -> 0 < sin (cgamma a b alpha beta / 2) ->
  unit_axis (caxis a b alpha beta).
Proof.
  intros Ha Hb Hs. unfold caxis. cbv zeta.
  pose proof (sin_half_gamma a b alpha beta Ha Hb) as E.
  set (s := sin (cgamma a b alpha beta / 2)) in *.
  set (v := cV a b alpha beta) in *.
  assert (Hss : s * s = nsq3 v).
  { rewrite E. apply sqrt_sqrt, nsq3_nonneg. }
  unfold nsq3 in Hss. unfold unit_axis, ax_x, ax_y, ax_z in *. cbn [fst snd].
  replace (1 / s * fst (fst v) * (1 / s * fst (fst v)) + 1 / s * snd (fst v) * (1 / s * snd (fst v)) +
           1 / s * snd v * (1 / s * snd v))
    with ((fst (fst v) * fst (fst v) + snd (fst v) * snd (fst v) + snd v * snd v) / (s * s))
    by (field; lra).
  rewrite <- Hss. field. lra.
Qed.

Lemma caxis_qrot a b alpha beta :
  unit_axis a -> unit_axis b -> 0 < sin (cgamma a b alpha beta / 2) ->
  qrot (caxis a b alpha beta) (cgamma a b alpha beta) = qmul (qrot a alpha) (qrot b beta).
Proof.
  intros Ha Hb Hs. rewrite compose_quaternion_prod.
  unfold qrot. rewrite (cos_half_gamma a b alpha beta Ha Hb).
  unfold caxis. cbv zeta.
  set (s := sin (cgamma a b alpha beta / 2)) in *.
  set (v := cV a b alpha beta).
  unfold ax_x, ax_y, ax_z. cbn [fst snd].
  apply quat_eq; unfold qw, qx, qy, qz; cbn [fst snd]; try reflexivity; field; lra.
Qed.

(* when sin(gamma/2) = 0 the product is +1 or -1 *)
Lemma shortcut_product a b alpha beta :
  unit_axis a -> unit_axis b -> sin (cgamma a b alpha beta / 2) = 0 ->
  qpm qone (qmul (qrot a alpha) (qrot b beta)).
Proof.
  intros Ha Hb Hs. rewrite compose_quaternion_prod.
  rewrite (sin_half_gamma a b alpha beta Ha Hb) in Hs.
  apply sqrt_eq_0 in Hs; [|apply nsq3_nonneg].
  pose proof (compose_quaternion_norm a b alpha beta Ha Hb) as Hn. rewrite Hs in Hn.
  unfold nsq3 in Hs.
  set (w := cW a b alpha beta) in *. set (v := cV a b alpha beta) in *.
  assert (Hx : ax_x v = 0) by nra. assert (Hy : ax_y v = 0) by nra. assert (Hz : ax_z v = 0) by nra.
  rewrite Hx, Hy, Hz.
  assert (Hw : w = 1 \/ w = -1) by (assert ((w - 1) * (w + 1) = 0) as E by lra;
    apply Rmult_integral in E; destruct E; [left|right]; lra).
  destruct Hw as [-> | ->]; [left | right]; unfold qone, qneg, qw, qx, qy, qz; cbn [fst snd].
  - reflexivity.
  - apply quat_eq; unfold qw, qx, qy, qz; cbn [fst snd]; ring.
Qed.

(* the two branches of [compose RNumX], precisely *)
Theorem compose_exact_cases q axa anga pha gia axb angb phb gib :
  unit_axis axa -> unit_axis axb -> compose_regime axa axb anga angb ->
  (sin (cgamma axa axb anga angb / 2) = 0 /\
   compose RNumX q axa anga pha gia axb angb phb gib = (BSR q (1, 0, 0) 0 0, anon) /\
   qpm qone (qmul (qrot axa anga) (qrot axb angb)))
  \/
  (ATOL <= sin (cgamma axa axb anga angb / 2) /\
   compose RNumX q axa anga pha gia axb angb phb gib =
     (BSR q (caxis axa axb anga angb) (normalize_angle RNum (cgamma axa axb anga angb))
          (normalize_angle RNum (pha + phb)),
      if is_identity RNum (BSR q axa anga pha) then gib
      else if is_identity RNum (BSR q axb angb phb) then gia else anon) /\
   unit_axis (caxis axa axb anga angb) /\
   qrot (caxis axa axb anga angb) (cgamma axa axb anga angb) = qmul (qrot axa anga) (qrot axb angb)).
Proof.
  intros Ha Hb Hreg. unfold compose_regime in Hreg.
  pose proof (sin_half_gamma_nonneg axa axb anga angb Ha Hb) as Hs0.
  pose proof ATOL_pos as Hat.
  rewrite compose_X_unfold. cbv zeta.
  rewrite (Rclamp_id _ (cW_range axa axb anga angb Ha Hb)).
  fold (cgamma axa axb anga angb).
  set (s := sin (cgamma axa axb anga angb / 2)) in *.
  rewrite (Rabs_pos_eq s Hs0) in *.
  destruct (Rltb s ATOL) eqn:E.
  - apply Rltb_true in E. left.
    assert (Hs : s = 0) by (destruct Hreg as [H|H]; [exact H | lra]).
    split; [exact Hs|]. split; [rewrite bsr_identity_R; reflexivity|].
    apply shortcut_product; assumption.
  - apply Rltb_false in E. right. split; [exact E|].
    assert (Hsp : 0 < s) by lra.
    pose proof (caxis_unit axa axb anga angb Ha Hb Hsp) as Hu.
    split; [|split; [exact Hu | apply caxis_qrot; assumption]].
    unfold mk_bsr.
    change (1 / s * ax_x (cV axa axb anga angb), 1 / s * ax_y (cV axa axb anga angb),
            1 / s * ax_z (cV axa axb anga angb)) with (caxis axa axb anga angb).
    rewrite (mk_axis_of_unit _ Hu). reflexivity.
Qed.

(* The statement asked for.  "partial": the two roundings [nround N 7] of the
   axis components and of the phase are idealised (RNumX), and the shortcut test
   is assumed exact ([compose_regime]).  The composed rotation is op(a) . op(b):
   b (the accumulator in the merger) is applied first. *)
Theorem compose_exact_partial q axa anga pha gia axb angb phb gib :
  unit_axis axa -> unit_axis axb -> compose_regime axa axb anga angb ->
  exists ax ang ph,
    fst (compose RNumX q axa anga pha gia axb angb phb gib) = BSR q ax ang ph /\
    unit_axis ax /\
    (qrot ax ang = qmul (qrot axa anga) (qrot axb angb) \/
     qrot ax ang = qneg (qmul (qrot axa anga) (qrot axb angb))).
Proof.
  intros Ha Hb Hreg.
  destruct (compose_exact_cases q axa anga pha gia axb angb phb gib Ha Hb Hreg)
    as [(Hs & Hc & Hp) | (Hs & Hc & Hu & Hq)]; rewrite Hc; cbn [fst].
  - exists (1, 0, 0), 0, 0. split; [reflexivity|]. split.
    + unfold unit_axis, ax_x, ax_y, ax_z. cbn [fst snd]. ring.
    + rewrite qrot_0. exact Hp.
  - exists (caxis axa axb anga angb), (normalize_angle RNum (cgamma axa axb anga angb)),
           (normalize_angle RNum (pha + phb)).
    split; [reflexivity|]. split; [exact Hu|].
    rewrite <- Hq. apply qrot_normalize.
Qed.

(* the shortcut returns the identity rotation *)
Theorem compose_shortcut_identity q axa anga pha gia axb angb phb gib :
  unit_axis axa -> unit_axis axb ->
  sin (cgamma axa axb anga angb / 2) = 0 ->
  compose RNumX q axa anga pha gia axb angb phb gib = (BSR q (1, 0, 0) 0 0, anon) /\
  qpm qone (qmul (qrot axa anga) (qrot axb angb)).
Proof.
  intros Ha Hb Hs. pose proof ATOL_pos as Hat.
  destruct (compose_exact_cases q axa anga pha gia axb angb phb gib Ha Hb (or_introl Hs))
    as [(_ & Hc & Hp) | (Hs' & _)]; [split; assumption | lra].
Qed.

(* ------------------------------------------------------------------ *)
(** * 4. phase and matrices *)

(* outside the shortcut the phase is pha + phb modulo 2 PI *)
Theorem compose_phase q axa anga pha gia axb angb phb gib :
  unit_axis axa -> unit_axis axb ->
  ATOL <= sin (cgamma axa axb anga angb / 2) ->
  exists ax ang ph,
    fst (compose RNumX q axa anga pha gia axb angb phb gib) = BSR q ax ang ph /\
    ph = normalize_angle RNum (pha + phb) /\
    (exists k : Z, ph = pha + phb + 2 * PI * IZR k) /\
    - PI + / 10000000 <= ph < PI + / 10000000 /\
    cis RNum ph = cmul RNum (cis RNum pha) (cis RNum phb).
Proof.
  intros Ha Hb Hs. pose proof ATOL_pos as Hat.
  assert (Hreg : compose_regime axa axb anga angb).
  { right. rewrite Rabs_pos_eq; lra. }
  destruct (compose_exact_cases q axa anga pha gia axb angb phb gib Ha Hb Hreg)
    as [(Hs' & _) | (_ & Hc & _)]; [lra|].
  rewrite Hc. cbn [fst]. do 3 eexists. split; [reflexivity|]. split; [reflexivity|].
  split; [apply normalize_congr|]. split; [apply normalize_range|].
  rewrite cis_mul. destruct (normalize_congr (pha + phb)) as [k ->].
  unfold cis. cbn [ncos nsin RNum]. rewrite cos_2kPI, sin_2kPI. reflexivity.
Qed.

Lemma mscale_m1_qmat z q : mscale z (qmat (qneg q)) = mscale (cmul RNum (-1, 0) z) (qmat q).
Proof.
  rewrite qmat_neg, mscale_mscale. f_equal.
  destruct z as [u v]. unfold cmul. cbn [fst snd nadd nsub nmul RNum]. apply pair_eq; ring.
Qed.

(* the matrix of the composed gate is the product of the two matrices, up to the sign -1
   of the double cover (outside the shortcut) *)
Theorem compose_matrix q axa anga pha gia axb angb phb gib :
  unit_axis axa -> unit_axis axb ->
  ATOL <= sin (cgamma axa axb anga angb / 2) ->
  exists ax ang ph (sg : R),
    fst (compose RNumX q axa anga pha gia axb angb phb gib) = BSR q ax ang ph /\
    (sg = 1 \/ sg = -1) /\
    can1 RNumX ax ang ph =
    mscale (sg, 0) (mmul RNum (can1 RNum axa anga pha) (can1 RNum axb angb phb)).
Proof.
  intros Ha Hb Hs. pose proof ATOL_pos as Hat.
  assert (Hreg : compose_regime axa axb anga angb).
  { right. rewrite Rabs_pos_eq; lra. }
  destruct (compose_exact_cases q axa anga pha gia axb angb phb gib Ha Hb Hreg)
    as [(Hs' & _) | (_ & Hc & Hu & Hq)]; [lra|].
  rewrite Hc. cbn [fst]. rewrite can1_X.
  set (ax := caxis axa axb anga angb) in *. set (g := cgamma axa axb anga angb) in *.
  assert (Hph : cis RNum (normalize_angle RNum (pha + phb)) = cmul RNum (cis RNum pha) (cis RNum phb)).
  { rewrite cis_mul. destruct (normalize_congr (pha + phb)) as [k ->].
    unfold cis. cbn [ncos nsin RNum]. rewrite cos_2kPI, sin_2kPI. reflexivity. }
  assert (Hprod : mmul RNum (can1 RNum axa anga pha) (can1 RNum axb angb phb) =
                  mscale (cis RNum (normalize_angle RNum (pha + phb))) (qmat (qrot ax g))).
  { rewrite !can1_phase. fold (mscale (cis RNum pha) (qmat (qrot axa anga))).
    fold (mscale (cis RNum phb) (qmat (qrot axb angb))).
    rewrite mscale_qmat_mul, Hph, Hq. reflexivity. }
  assert (Hres : can1 RNum ax (normalize_angle RNum g) (normalize_angle RNum (pha + phb)) =
                 mscale (cis RNum (normalize_angle RNum (pha + phb))) (qmat (qrot ax (normalize_angle RNum g)))).
  { rewrite can1_phase. reflexivity. }
  destruct (qrot_normalize ax g) as [E | E]; rewrite E in Hres.
  - exists ax, (normalize_angle RNum g), (normalize_angle RNum (pha + phb)), 1.
    split; [reflexivity|]. split; [left; reflexivity|].
    rewrite Hres, Hprod, mscale_mscale.
    f_equal. destruct (cis RNum (normalize_angle RNum (pha + phb))) as [u v].
    unfold cmul. cbn [fst snd nadd nsub nmul RNum]. apply pair_eq; ring.
  - exists ax, (normalize_angle RNum g), (normalize_angle RNum (pha + phb)), (-1).
    split; [reflexivity|]. split; [right; reflexivity|].
    rewrite Hres, Hprod, mscale_mscale.
    apply mscale_m1_qmat.
Qed.

(* In the shortcut branch the returned gate is the identity with phase 0: the
   global phase pha + phb is dropped, so the matrix is the product only up to a
   global phase. *)
Theorem compose_matrix_shortcut_partial q axa anga pha gia axb angb phb gib :
  unit_axis axa -> unit_axis axb ->
  sin (cgamma axa axb anga angb / 2) = 0 ->
  exists ax ang ph (phi : R),
    fst (compose RNumX q axa anga pha gia axb angb phb gib) = BSR q ax ang ph /\
    (phi = pha + phb \/ phi = pha + phb + PI) /\
    mscale (cis RNum phi) (can1 RNumX ax ang ph) =
    mmul RNum (can1 RNum axa anga pha) (can1 RNum axb angb phb).
Proof.
  intros Ha Hb Hs.
  destruct (compose_shortcut_identity q axa anga pha gia axb angb phb gib Ha Hb Hs) as [Hc Hp].
  rewrite Hc. cbn [fst]. rewrite can1_X.
  assert (Hprod : mmul RNum (can1 RNum axa anga pha) (can1 RNum axb angb phb) =
                  mscale (cis RNum (pha + phb)) (qmat (qmul (qrot axa anga) (qrot axb angb)))).
  { rewrite !can1_phase. fold (mscale (cis RNum pha) (qmat (qrot axa anga))).
    fold (mscale (cis RNum phb) (qmat (qrot axb angb))).
    rewrite mscale_qmat_mul, cis_mul. reflexivity. }
  assert (Hid : can1 RNum (1, 0, 0) 0 0 = qmat qone).
  { rewrite can1_phase, qrot_0, cis_0. fold (mscale (1, 0) (qmat qone)). apply mscale_1. }
  set (P := qmul (qrot axa anga) (qrot axb angb)) in *.
  destruct Hp as [E | E].
  - exists (1, 0, 0), 0, 0, (pha + phb). split; [reflexivity|]. split; [left; reflexivity|].
    rewrite Hprod, Hid, E. reflexivity.
  - exists (1, 0, 0), 0, 0, (pha + phb + PI). split; [reflexivity|]. split; [right; reflexivity|].
    rewrite Hprod, Hid, E, qmat_neg, mscale_mscale. f_equal.
    rewrite <- cis_mul, cis_PI.
    destruct (cis RNum (pha + phb)) as [u v].
    unfold cmul. cbn [fst snd nadd nsub nmul RNum]. apply pair_eq; ring.
Qed.

(* ... and the sign-only statement is false there: two identity rotations, one
   carrying the phase 1, compose to the identity with phase 0 *)
Theorem compose_shortcut_phase_refuted :
  exists q axa anga pha gia axb angb phb gib,
    unit_axis axa /\ unit_axis axb /\ compose_regime axa axb anga angb /\
    exists ax ang ph,
      fst (compose RNumX q axa anga pha gia axb angb phb gib) = BSR q ax ang ph /\
      (forall k : Z, ph <> pha + phb + 2 * PI * IZR k) /\
      (forall sg : R, can1 RNumX ax ang ph <>
                      mscale (sg, 0) (mmul RNum (can1 RNum axa anga pha) (can1 RNum axb angb phb))).
Proof.
  exists 0%Z, (1, 0, 0), 0, 1, (@anon R), (1, 0, 0), 0, 0, (@anon R).
  assert (Hu : unit_axis (1, 0, 0)) by (unfold unit_axis, ax_x, ax_y, ax_z; cbn [fst snd]; ring).
  assert (Hw : cW (1, 0, 0) (1, 0, 0) 0 0 = 1).
  { unf_geom. replace (0 / 2) with 0 by field. rewrite cos_0, sin_0. ring. }
  assert (Hs : sin (cgamma (1, 0, 0) (1, 0, 0) 0 0 / 2) = 0).
  { unfold cgamma. rewrite Hw, acos_1. replace (2 * 0 / 2) with 0 by field. apply sin_0. }
  split; [exact Hu|]. split; [exact Hu|]. split; [left; exact Hs|].
  destruct (compose_shortcut_identity 0%Z (1, 0, 0) 0 1 anon (1, 0, 0) 0 0 anon Hu Hu Hs) as [Hc _].
  rewrite Hc. cbn [fst]. exists (1, 0, 0), 0, 0. split; [reflexivity|]. split.
  - intros k E. pose proof PI_bounds as [HP3 HP4].
    assert (Hk : 2 * PI * IZR k = -1) by lra.
    destruct (Z.eq_dec k 0) as [-> | Hk0]; [lra|].
    assert (Hk1 : (k <= -1 \/ 1 <= k)%Z) by lia.
    destruct Hk1 as [Hk1 | Hk1]; apply IZR_le in Hk1; nra.
  - intros sg E. rewrite can1_X, !can1_phase in E.
    fold (mscale (cis RNum 1) (qmat (qrot (1, 0, 0) 0))) in E.
    fold (mscale (cis RNum 0) (qmat (qrot (1, 0, 0) 0))) in E.
    rewrite mscale_qmat_mul, mscale_mscale, qrot_0, qmul_1_l, cis_0 in E.
    unfold mscale, qmat, qone, cmul, cis, qw, qx, qy, qz in E.
    cbn [map fst snd nadd nsub nmul nsin ncos RNum] in E.
    injection E as E1 E2 _.
    assert (Hs1 : 0 < sin 1) by (apply sin_gt_0; pose proof PI_bounds; lra).
    assert (Hc1 : sg * sin 1 = 0) by lra.
    assert (Hc2 : sg * cos 1 = 1) by lra.
    apply Rmult_integral in Hc1. destruct Hc1 as [Z0 | Z0]; [rewrite Z0 in Hc2; lra | lra].
Qed.

(* ------------------------------------------------------------------ *)
(** * 5. generator inheritance (any T) *)

Section Inherit.
  Context {T : Type} (N : Num T).

  (* the test of the identity shortcut *)
  Definition compose_shortcut (axa : axis3 T) (anga : T) (axb : axis3 T) (angb : T) : bool :=
    let two := nofZ N 2 in
    let ca := ncos N (ndiv N anga two) in let sa := nsin N (ndiv N anga two) in
    let cb := ncos N (ndiv N angb two) in let sb := nsin N (ndiv N angb two) in
    let arg := clamp1 N (nsub N (nmul N ca cb) (nmul N (nmul N sa sb) (dot3 N axa axb))) in
    let combined := nmul N two (nacos N arg) in
    nltb N (nabs N (nsin N (ndiv N combined two))) (atol N).

  Theorem compose_inherits q axa anga pha gia axb angb phb gib :
    snd (compose N q axa anga pha gia axb angb phb gib) =
    if compose_shortcut axa anga axb angb then anon
    else if is_identity N (BSR q axa anga pha) then gib
    else if is_identity N (BSR q axb angb phb) then gia
    else anon.
  Proof.
    unfold compose, compose_shortcut. cbv zeta.
    match goal with |- context [if ?b then (bsr_identity N q, anon) else _] => destruct b end;
      reflexivity.
  Qed.

  Theorem compose_shortcut_result q axa anga pha gia axb angb phb gib :
    compose_shortcut axa anga axb angb = true ->
    compose N q axa anga pha gia axb angb phb gib = (bsr_identity N q, anon).
  Proof.
    unfold compose, compose_shortcut. cbv zeta. intros ->. reflexivity.
  Qed.

  (* the gate a composed onto an identity accumulator b keeps its name and arguments *)
  Theorem lone_gate_keeps_name q axa anga pha gia axb angb phb gib :
    compose_shortcut axa anga axb angb = false ->
    is_identity N (BSR q axa anga pha) = false ->
    is_identity N (BSR q axb angb phb) = true ->
    snd (compose N q axa anga pha gia axb angb phb gib) = gia.
  Proof. intros H1 H2 H3. rewrite compose_inherits, H1, H2, H3. reflexivity. Qed.

  (* an identity a leaves the accumulator's name and arguments *)
  Theorem identity_gate_keeps_acc_name q axa anga pha gia axb angb phb gib :
    compose_shortcut axa anga axb angb = false ->
    is_identity N (BSR q axa anga pha) = true ->
    snd (compose N q axa anga pha gia axb angb phb gib) = gib.
  Proof. intros H1 H2. rewrite compose_inherits, H1, H2. reflexivity. Qed.

  Theorem compose_two_nonidentities_anon q axa anga pha gia axb angb phb gib :
    is_identity N (BSR q axa anga pha) = false ->
    is_identity N (BSR q axb angb phb) = false ->
    snd (compose N q axa anga pha gia axb angb phb gib) = anon.
  Proof.
    intros H2 H3. rewrite compose_inherits, H2, H3.
    destruct (compose_shortcut axa anga axb angb); reflexivity.
  Qed.
End Inherit.

(* over R: with an exactly-identity accumulator (angle 0) the shortcut fires iff
   |sin(anga/2)| < ATOL *)
Lemma lone_gate_shortcut axa anga axb :
  unit_axis axa -> unit_axis axb ->
  compose_shortcut RNumX axa anga axb 0 = Rltb (Rabs (sin (anga / 2))) ATOL.
Proof.
  intros Ha Hb.
  change (compose_shortcut RNumX axa anga axb 0)
    with (Rltb (Rabs (sin (2 * acos (Rclamp (cW axa axb anga 0)) / 2))) ATOL).
  rewrite (Rclamp_id _ (cW_range axa axb anga 0 Ha Hb)).
  fold (cgamma axa axb anga 0). rewrite (sin_half_gamma axa axb anga 0 Ha Hb).
  f_equal. rewrite Rabs_pos_eq by apply sqrt_pos.
  rewrite <- sqrt_Rsqr_abs. f_equal.
  destruct axa as [[a1 a2] a3], axb as [[b1 b2] b3]. unf_geom.
  replace (0 / 2) with 0 by field. rewrite cos_0, sin_0. unfold Rsqr.
  replace ((sin (anga / 2) * 1 * a1 + cos (anga / 2) * 0 * b1 + sin (anga / 2) * 0 * (a2 * b3 - a3 * b2)) *
           (sin (anga / 2) * 1 * a1 + cos (anga / 2) * 0 * b1 + sin (anga / 2) * 0 * (a2 * b3 - a3 * b2)) +
           (sin (anga / 2) * 1 * a2 + cos (anga / 2) * 0 * b2 + sin (anga / 2) * 0 * (a3 * b1 - a1 * b3)) *
           (sin (anga / 2) * 1 * a2 + cos (anga / 2) * 0 * b2 + sin (anga / 2) * 0 * (a3 * b1 - a1 * b3)) +
           (sin (anga / 2) * 1 * a3 + cos (anga / 2) * 0 * b3 + sin (anga / 2) * 0 * (a1 * b2 - a2 * b1)) *
           (sin (anga / 2) * 1 * a3 + cos (anga / 2) * 0 * b3 + sin (anga / 2) * 0 * (a1 * b2 - a2 * b1)))
    with (sin (anga / 2) * sin (anga / 2) * (a1 * a1 + a2 * a2 + a3 * a3)) by ring.
  rewrite Ha. ring.
Qed.

(* ------------------------------------------------------------------ *)
(** * 6. the error of the rounding that was idealised *)

Lemma Rpower10_pos y : 0 < Rpower 10 y.
Proof. unfold Rpower. apply exp_pos. Qed.

(* no sign condition on d is needed *)
Lemma Rround_error_gen d x : Rabs (Rround d x - x) <= / 2 * Rpower 10 (- IZR d).
Proof.
  unfold Rround. cbv zeta. rewrite Rpower_Ropp.
  pose proof (Rpower10_pos (IZR d)) as Hp. set (p := Rpower 10 (IZR d)) in *.
  pose proof (Rfloor_spec (x * p + / 2)) as [H1 H2].
  set (f := Rfloor (x * p + / 2)) in *.
  assert (Hip : 0 < / p) by (apply Rinv_0_lt_compat; exact Hp).
  replace (f / p - x) with ((f - x * p) * / p) by (field; lra).
  rewrite Rabs_mult, (Rabs_pos_eq (/ p)) by lra.
  apply Rmult_le_compat_r; [lra|].
  apply Rabs_le. lra.
Qed.

Theorem Rround_error : forall d x, (0 <= d)%Z ->
  Rabs (Rround d x - x) <= / 2 * Rpower 10 (- IZR d).
Proof. intros d x _. apply Rround_error_gen. Qed.

Lemma Rpower_10_7 : Rpower 10 7 = 10000000.
Proof.
  replace 7 with (INR 7) by (simpl; lra). rewrite Rpower_pow by lra. simpl. ring.
Qed.

(* d = 7: at most 5e-8 *)
Corollary Rround7_error x : Rabs (Rround 7 x - x) <= 5 / 100000000.
Proof.
  pose proof (Rround_error_gen 7 x) as H. rewrite Rpower_Ropp, Rpower_10_7 in H. lra.
Qed.

(* what was idealised, made explicit: the model at RNum differs from the model at RNumX
   only by the rounding of the three raw axis components and of the phase sum, each moved
   by at most 5e-8, before the constructor [mk_bsr] *)
Theorem compose_RNum_vs_RNumX q axa anga pha gia axb angb phb gib :
  Rltb (Rabs (sin (2 * acos (Rclamp (cW axa axb anga angb)) / 2))) ATOL = false ->
  exists vx vy vz,
    compose RNumX q axa anga pha gia axb angb phb gib =
      (mk_bsr RNum q (vx, vy, vz) (2 * acos (Rclamp (cW axa axb anga angb))) (pha + phb),
       snd (compose RNumX q axa anga pha gia axb angb phb gib)) /\
    compose RNum q axa anga pha gia axb angb phb gib =
      (mk_bsr RNum q (Rround 7 vx, Rround 7 vy, Rround 7 vz)
              (2 * acos (Rclamp (cW axa axb anga angb))) (Rround 7 (pha + phb)),
       snd (compose RNumX q axa anga pha gia axb angb phb gib)) /\
    Rabs (Rround 7 vx - vx) <= 5 / 100000000 /\
    Rabs (Rround 7 vy - vy) <= 5 / 100000000 /\
    Rabs (Rround 7 vz - vz) <= 5 / 100000000 /\
    Rabs (Rround 7 (pha + phb) - (pha + phb)) <= 5 / 100000000.
Proof.
  intros E.
  set (w := Rclamp (cW axa axb anga angb)) in *.
  set (s := sin (2 * acos w / 2)) in *.
  set (v := cV axa axb anga angb).
  exists (1 / s * ax_x v), (1 / s * ax_y v), (1 / s * ax_z v).
  assert (EX : compose RNumX q axa anga pha gia axb angb phb gib =
    (mk_bsr RNum q (1 / s * ax_x v, 1 / s * ax_y v, 1 / s * ax_z v) (2 * acos w) (pha + phb),
     if is_identity RNum (BSR q axa anga pha) then gib
     else if is_identity RNum (BSR q axb angb phb) then gia else anon)).
  { rewrite compose_X_unfold. cbv zeta. fold w. fold s. rewrite E. reflexivity. }
  assert (ER : compose RNum q axa anga pha gia axb angb phb gib =
    (mk_bsr RNum q (Rround 7 (1 / s * ax_x v), Rround 7 (1 / s * ax_y v), Rround 7 (1 / s * ax_z v))
            (2 * acos w) (Rround 7 (pha + phb)),
     if is_identity RNum (BSR q axa anga pha) then gib
     else if is_identity RNum (BSR q axb angb phb) then gia else anon)).
  { change (compose RNum q axa anga pha gia axb angb phb gib) with
      (if Rltb (Rabs s) ATOL then (bsr_identity RNum q, @anon R)
       else (mk_bsr RNum q (Rround 7 (1 / s * ax_x v), Rround 7 (1 / s * ax_y v), Rround 7 (1 / s * ax_z v))
                    (2 * acos w) (Rround 7 (pha + phb)),
             if is_identity RNum (BSR q axa anga pha) then gib
             else if is_identity RNum (BSR q axb angb phb) then gia else anon)).
    rewrite E. reflexivity. }
  rewrite EX, ER. cbn [snd].
  repeat split; apply Rround7_error.
Qed.

Print Assumptions compose_quaternion.
Print Assumptions compose_exact_cases.
Print Assumptions compose_exact_partial.
Print Assumptions compose_phase.
Print Assumptions compose_matrix.
Print Assumptions compose_matrix_shortcut_partial.
Print Assumptions compose_shortcut_phase_refuted.
Print Assumptions compose_inherits.
Print Assumptions lone_gate_keeps_name.
Print Assumptions lone_gate_shortcut.
Print Assumptions Rround_error.
Print Assumptions compose_RNum_vs_RNumX.

(* ------------------------------------------------------------------ *)
(** * the regime hypothesis is needed *)

(* a = R_x(ATOL) composed onto the identity accumulator: 0 < sin(gamma/2) < ATOL, the
   shortcut returns the identity although the product is R_x(ATOL), not +-1
   (the intended tolerance of the shortcut) *)
Theorem compose_regime_needed :
  exists q axa anga pha gia axb angb phb gib,
    unit_axis axa /\ unit_axis axb /\
    forall ax ang ph,
      fst (compose RNumX q axa anga pha gia axb angb phb gib) = BSR q ax ang ph ->
      ~ qpm (qrot ax ang) (qmul (qrot axa anga) (qrot axb angb)).
Proof.
  exists 0%Z, (1, 0, 0), ATOL, 0, (@anon R), (1, 0, 0), 0, 0, (@anon R).
  assert (Hu : unit_axis (1, 0, 0)) by (unfold unit_axis, ax_x, ax_y, ax_z; cbn [fst snd]; ring).
  split; [exact Hu|]. split; [exact Hu|].
  pose proof ATOL_pos as Hat. pose proof PI_bounds as [HP3 _].
  assert (Hat1 : ATOL < 1) by (unfold ATOL; lra).
  assert (Hs1 : 0 < sin (ATOL / 2)) by (apply sin_gt_0; lra).
  assert (Hs2 : sin (ATOL / 2) < ATOL / 2) by (apply sin_lt_x; lra).
  assert (Hsc : compose_shortcut RNumX (1, 0, 0) ATOL (1, 0, 0) 0 = true).
  { rewrite (lone_gate_shortcut _ _ _ Hu Hu). apply Rltb_true. rewrite Rabs_pos_eq; lra. }
  intros ax ang ph.
  rewrite (compose_shortcut_result RNumX 0%Z _ _ 0 anon _ _ 0 anon Hsc). cbn [fst].
  rewrite bsr_identity_X, bsr_identity_R. intros E. injection E as <- <- <-.
  rewrite !qrot_0, qmul_1_r.
  unfold qpm, qrot, qone, qneg, qw, qx, qy, qz, ax_x, ax_y, ax_z. cbn [fst snd].
  intros [E | E]; injection E as _ E _ _; lra.
Qed.

Print Assumptions compose_regime_needed.
