(* BitsP.v — bit-level characterisation of get_reduced_ket / expand_ket (C08). *)
From Coq Require Import NArith List Lia Bool.
Import ListNotations.
From OSQ Require Import Bits.
Open Scope N_scope.

Lemma testbit_one_shiftl q b : N.testbit (N.shiftl 1 q) b = (b =? q).
Proof.
  destruct (N.eqb_spec b q) as [->|Hne].
  - rewrite N.shiftl_spec_high' by lia. rewrite N.sub_diag. reflexivity.
  - destruct (N.lt_ge_cases b q).
    + apply N.shiftl_spec_low; lia.
    + rewrite N.shiftl_spec_high' by lia.
      assert (b - q <> 0) by lia. destruct (b - q) eqn:E; [lia|]. 
      simpl. destruct p; reflexivity.
Qed.

Lemma bit_at_spec ket q b : N.testbit (bit_at ket q) b = (b =? 0) && N.testbit ket q.
Proof.
  unfold bit_at. rewrite N.shiftr_spec'. rewrite N.land_spec, testbit_one_shiftl.
  destruct (N.eqb_spec b 0) as [->|Hne].
  - rewrite N.add_0_l, N.eqb_refl. simpl. now rewrite andb_true_r.
  - assert ((b + q =? q) = false) by (apply N.eqb_neq; lia). rewrite H. now rewrite andb_false_r.
Qed.

Lemma reduce_aux_spec ket qs : forall i acc b,
  N.testbit (reduce_aux ket qs i acc) b =
  N.testbit acc b || (if (i <=? b) then
     match nth_error qs (N.to_nat (b - i)) with Some q => N.testbit ket q | None => false end else false).
Proof.
  induction qs as [|q qs IH]; intros i acc b; cbn [reduce_aux].
  - destruct (i <=? b); [|now rewrite orb_false_r].
    destruct (N.to_nat (b - i)); simpl; now rewrite orb_false_r.
  - rewrite IH. rewrite N.lor_spec.
    destruct (N.leb_spec i b) as [Hle|Hlt].
    + destruct (N.eqb_spec b i) as [->|Hne].
      * rewrite N.shiftl_spec_high' by lia. rewrite bit_at_spec. rewrite N.sub_diag. simpl.
        assert ((i + 1 <=? i) = false) by (apply N.leb_gt; lia). rewrite H. now rewrite orb_false_r.
      * assert ((i + 1 <=? b) = true) by (apply N.leb_le; lia). rewrite H.
        rewrite N.shiftl_spec_high' by lia. rewrite bit_at_spec.
        assert ((b - i =? 0) = false) by (apply N.eqb_neq; lia). rewrite H0. simpl. rewrite orb_false_r.
        replace (N.to_nat (b - i)) with (S (N.to_nat (b - (i+1)))) by lia. reflexivity.
    + assert ((i + 1 <=? b) = false) by (apply N.leb_gt; lia). rewrite H.
      rewrite N.shiftl_spec_low by lia. now rewrite !orb_false_r.
Qed.

Theorem reduced_ket_spec ket qs b :
  N.testbit (reduced_ket ket qs) b =
  match nth_error qs (N.to_nat b) with Some q => N.testbit ket q | None => false end.
Proof.
  unfold reduced_ket. rewrite reduce_aux_spec, N.bits_0, N.sub_0_r.
  assert (H: (0 <=? b) = true) by (apply N.leb_le; lia). rewrite H. reflexivity.
Qed.

(* ------------------------------------------------------------------ *)
(* expand_ket: bit-level characterisation for arbitrary index lists.   *)

(* The largest position i with nth_error qs i = Some b (last write wins). *)
Fixpoint last_index (qs : list N) (b : N) : option nat :=
  match qs with
  | [] => None
  | q :: qs' =>
      match last_index qs' b with
      | Some i => Some (S i)
      | None => if q =? b then Some 0%nat else None
      end
  end.

Lemma last_index_None qs b : last_index qs b = None <-> ~ In b qs.
Proof.
  induction qs as [|q qs IH]; cbn [last_index In].
  - split; [intros _ []|reflexivity].
  - destruct (last_index qs b) as [k|] eqn:E.
    + split; [discriminate|]. intros Hn. exfalso.
      assert (Hnone : (None : option nat) = None) by reflexivity.
      destruct IH as [_ IH2]. assert (HH : ~ In b qs) by (intros HI; apply Hn; now right).
      specialize (IH2 HH). discriminate.
    + destruct IH as [IH1 _]. specialize (IH1 eq_refl).
      destruct (N.eqb_spec q b) as [->|Hne].
      * split; [discriminate|]. intros Hn. exfalso. apply Hn. now left.
      * split; [|reflexivity]. intros _ [Hq|HI]; [now apply Hne|now apply IH1].
Qed.

Lemma last_index_Some qs b : forall i, last_index qs b = Some i -> nth_error qs i = Some b.
Proof.
  induction qs as [|q qs IH]; intros i; cbn [last_index].
  - discriminate.
  - destruct (last_index qs b) as [k|] eqn:E.
    + intros Hi. injection Hi as <-. cbn [nth_error]. now apply IH.
    + destruct (N.eqb_spec q b) as [->|Hne]; [|discriminate].
      intros Hi. injection Hi as <-. reflexivity.
Qed.

(* It is the largest such position. *)
Lemma last_index_max qs b : forall i j,
  last_index qs b = Some i -> nth_error qs j = Some b -> (j <= i)%nat.
Proof.
  induction qs as [|q qs IH]; intros i j; cbn [last_index].
  - discriminate.
  - destruct (last_index qs b) as [k|] eqn:E.
    + intros Hi Hj. injection Hi as <-. destruct j as [|j]; [lia|].
      cbn [nth_error] in Hj. specialize (IH k j eq_refl Hj). lia.
    + destruct (N.eqb_spec q b) as [->|Hne]; [|discriminate].
      intros Hi Hj. injection Hi as <-. destruct j as [|j]; [lia|].
      cbn [nth_error] in Hj. exfalso.
      apply (proj1 (last_index_None qs b) E). eapply nth_error_In; eassumption.
Qed.

Lemma last_index_NoDup qs : NoDup qs -> forall i q,
  nth_error qs i = Some q -> last_index qs q = Some i.
Proof.
  induction 1 as [|a qs Hnin Hnd IH]; intros i q Hi.
  - destruct i; discriminate.
  - cbn [last_index]. destruct i as [|i]; cbn [nth_error] in Hi.
    + injection Hi as <-.
      rewrite (proj2 (last_index_None qs a) Hnin). now rewrite N.eqb_refl.
    + now rewrite (IH i q Hi).
Qed.

Lemma expand_aux_spec red qs : forall acc i b,
  N.testbit (expand_aux acc red qs i) b =
  match last_index qs b with
  | Some k => N.testbit red (i + N.of_nat k)
  | None => N.testbit acc b
  end.
Proof.
  induction qs as [|q qs IH]; intros acc i b; cbn [expand_aux last_index].
  - reflexivity.
  - rewrite IH. destruct (last_index qs b) as [k|] eqn:E.
    + f_equal. lia.
    + rewrite N.lor_spec, N.ldiff_spec, testbit_one_shiftl.
      destruct (N.eqb_spec q b) as [->|Hne].
      * rewrite N.eqb_refl. rewrite N.shiftl_spec_high' by lia.
        rewrite bit_at_spec, N.sub_diag. cbn [N.of_nat].
        rewrite N.add_0_r, andb_false_r. reflexivity.
      * assert (Hbq : (b =? q) = false) by (apply N.eqb_neq; lia). rewrite Hbq.
        cbn [negb]. rewrite andb_true_r.
        destruct (N.lt_ge_cases b q) as [Hlt|Hge].
        -- rewrite N.shiftl_spec_low by lia. now rewrite orb_false_r.
        -- rewrite N.shiftl_spec_high' by lia. rewrite bit_at_spec.
           assert (Hz : (b - q =? 0) = false) by (apply N.eqb_neq; lia). rewrite Hz.
           now rewrite orb_false_r.
Qed.

Theorem expand_ket_spec base red qs b :
  N.testbit (expand_ket base red qs) b =
  match last_index qs b with
  | Some i => N.testbit red (N.of_nat i)
  | None => N.testbit base b
  end.
Proof.
  unfold expand_ket. rewrite expand_aux_spec.
  destruct (last_index qs b); [now rewrite N.add_0_l|reflexivity].
Qed.

(* Corollaries. *)
Theorem expand_ket_other base red qs b :
  ~ In b qs -> N.testbit (expand_ket base red qs) b = N.testbit base b.
Proof.
  intros Hn. rewrite expand_ket_spec.
  now rewrite (proj2 (last_index_None qs b) Hn).
Qed.

Theorem expand_ket_at base red qs i q :
  NoDup qs -> nth_error qs i = Some q ->
  N.testbit (expand_ket base red qs) q = N.testbit red (N.of_nat i).
Proof.
  intros Hnd Hi. rewrite expand_ket_spec.
  now rewrite (last_index_NoDup qs Hnd i q Hi).
Qed.

Theorem reduce_expand base red qs :
  NoDup qs ->
  reduced_ket (expand_ket base red qs) qs = N.land red (N.ones (N.of_nat (length qs))).
Proof.
  intros Hnd. apply N.bits_inj. intros b.
  rewrite reduced_ket_spec, N.land_spec.
  destruct (nth_error qs (N.to_nat b)) as [q|] eqn:E.
  - rewrite (expand_ket_at base red qs _ q Hnd E).
    rewrite Nnat.N2Nat.id.
    assert (Hlt : (N.to_nat b < length qs)%nat) by (apply nth_error_Some; congruence).
    rewrite N.ones_spec_low by lia. now rewrite andb_true_r.
  - apply nth_error_None in E.
    rewrite N.ones_spec_high by lia. now rewrite andb_false_r.
Qed.

Corollary reduce_expand_mod base red qs :
  NoDup qs ->
  reduced_ket (expand_ket base red qs) qs = red mod 2 ^ (N.of_nat (length qs)).
Proof.
  intros Hnd. rewrite reduce_expand by assumption. apply N.land_ones.
Qed.

(* Holds for ANY list qs, no NoDup needed. *)
Theorem expand_reduce ket qs : expand_ket ket (reduced_ket ket qs) qs = ket.
Proof.
  apply N.bits_inj. intros b. rewrite expand_ket_spec.
  destruct (last_index qs b) as [i|] eqn:E; [|reflexivity].
  rewrite reduced_ket_spec, Nnat.Nat2N.id.
  now rewrite (last_index_Some qs b i E).
Qed.

(* Injectivity; NoDup is in fact not needed. *)
Theorem expand_ket_same_outside_gen k1 k2 qs :
  (forall b, ~ In b qs -> N.testbit k1 b = N.testbit k2 b) ->
  reduced_ket k1 qs = reduced_ket k2 qs -> k1 = k2.
Proof.
  intros Hout Hred. apply N.bits_inj. intros b.
  destruct (in_dec N.eq_dec b qs) as [Hin|Hnin]; [|now apply Hout].
  destruct (In_nth_error qs b Hin) as [i Hi].
  assert (H1 := reduced_ket_spec k1 qs (N.of_nat i)).
  assert (H2 := reduced_ket_spec k2 qs (N.of_nat i)).
  rewrite Nnat.Nat2N.id, Hi in H1, H2. rewrite <- H1, <- H2. now rewrite Hred.
Qed.

Theorem expand_ket_same_outside k1 k2 qs :
  (forall b, ~ In b qs -> N.testbit k1 b = N.testbit k2 b) ->
  reduced_ket k1 qs = reduced_ket k2 qs -> NoDup qs -> k1 = k2.
Proof.
  intros Hout Hred _. now apply (expand_ket_same_outside_gen k1 k2 qs).
Qed.

(* Bounds. *)
Lemma lt_pow2_bits a n : a < 2 ^ n <-> (forall b, n <= b -> N.testbit a b = false).
Proof.
  destruct (N.eq_dec a 0) as [->|Hnz].
  - split.
    + intros _ b _. apply N.bits_0.
    + intros _. assert (H := N.pow_nonzero 2 n). lia.
  - assert (Hpos : 0 < a) by lia. split.
    + intros Hlt b Hb. apply N.bits_above_log2.
      apply (N.log2_lt_pow2 a n Hpos) in Hlt. lia.
    + intros Hbits. apply (N.log2_lt_pow2 a n Hpos).
      destruct (N.lt_ge_cases (N.log2 a) n) as [Hl|Hg]; [assumption|].
      specialize (Hbits (N.log2 a) Hg). rewrite (N.bit_log2 a Hnz) in Hbits. discriminate.
Qed.

Theorem expand_ket_lt base red qs n :
  (forall q, In q qs -> q < n) -> base < 2 ^ n -> expand_ket base red qs < 2 ^ n.
Proof.
  intros Hqs Hbase. apply lt_pow2_bits. intros b Hb.
  rewrite expand_ket_other.
  - now apply (proj1 (lt_pow2_bits base n) Hbase).
  - intros Hin. specialize (Hqs b Hin). lia.
Qed.

Print Assumptions expand_aux_spec.
Print Assumptions expand_ket_spec.
Print Assumptions expand_ket_at.
Print Assumptions expand_ket_other.
Print Assumptions reduce_expand.
Print Assumptions reduce_expand_mod.
Print Assumptions expand_reduce.
Print Assumptions expand_ket_same_outside_gen.
Print Assumptions expand_ket_same_outside.
Print Assumptions expand_ket_lt.
Print Assumptions last_index_Some.
Print Assumptions last_index_max.
Print Assumptions last_index_None.
Print Assumptions last_index_NoDup.
