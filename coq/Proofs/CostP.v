(* CostP.v — properties C19 ("compilation cost follows the circuit, never the
   2^n size of the register") and C17 ("no hidden dependence"):
   every pass of the model COMMUTES WITH RELABELLING OF QUBIT INDICES, so that
   compiling a circuit on a register of 100 000 qubits gives the same result as
   compiling the same circuit compressed onto a small register, and the result
   depends only on the statements (not on object identities, not on tables).
   Everything here is for any [T] and any [N : Num T]. *)
From Coq Require Import ZArith List Bool String Lia PeanoNat.
Import ListNotations.
From OSQ Require Import Num IR Construct DefaultTable Matrix Check ABA Merge McKay CNOTDec Decompose Remap.
From OSQ Require Import DecomposeP MergeP RemapP.
Open Scope string_scope.

(* ------------------------------------------------------------------ *)
(** * 0. Toolkit: injectivity on a list, and the list tests of IR.v      *)
(* ------------------------------------------------------------------ *)

Definition inj_on (f : Z -> Z) (l : list Z) : Prop :=
  forall x y, In x l -> In y l -> f x = f y -> x = y.

Lemma inj_on_incl f (l l' : list Z) : incl l' l -> inj_on f l -> inj_on f l'.
Proof. intros Hi H x y Hx Hy. apply H; now apply Hi. Qed.

Lemma inj_on_app_l f (a b : list Z) : inj_on f (a ++ b)%list -> inj_on f a.
Proof. apply inj_on_incl. now apply incl_appl. Qed.

Lemma inj_on_app_r f (a b : list Z) : inj_on f (a ++ b)%list -> inj_on f b.
Proof. apply inj_on_incl. now apply incl_appr. Qed.

Lemma inj_on_cons f x (l : list Z) : inj_on f (x :: l) -> inj_on f l.
Proof. apply inj_on_incl. now apply incl_tl. Qed.

Lemma inj_on_single f x : inj_on f [x].
Proof. intros a b [<-|[]] [<-|[]] _. reflexivity. Qed.

Lemma inj_on_nil f : inj_on f [].
Proof. intros a b []. Qed.

Lemma inj_on_global f l : (forall x y, f x = f y -> x = y) -> inj_on f l.
Proof. intros H x y _ _. apply H. Qed.

Lemma zmem_map_inj f x (l : list Z) : inj_on f (x :: l) -> zmem (f x) (map f l) = zmem x l.
Proof.
  induction l as [|y l IH]; intros H; cbn [map zmem]; [reflexivity|].
  rewrite IH.
  - f_equal. destruct (Z.eqb_spec x y) as [->|Hne].
    + apply Z.eqb_refl.
    + apply Z.eqb_neq. intros E. apply Hne. apply H; [now left|right; now left|exact E].
  - eapply inj_on_incl; [|exact H]. intros z [<-|Hz]; [now left|right; now right].
Qed.

Lemma zsubset_map_inj f (a b : list Z) :
  inj_on f (a ++ b)%list -> zsubset (map f a) (map f b) = zsubset a b.
Proof.
  unfold zsubset. induction a as [|x a IH]; intros H; cbn [map forallb]; [reflexivity|].
  rewrite IH.
  - f_equal. apply zmem_map_inj. eapply inj_on_incl; [|exact H].
    intros z [<-|Hz]; [now left|]. right. apply in_or_app. now right.
  - eapply inj_on_incl; [|exact H]. intros z Hz. now right.
Qed.

Lemma znodup_map_inj f (l : list Z) : inj_on f l -> znodup (map f l) = znodup l.
Proof.
  induction l as [|x l IH]; intros H; cbn [map znodup]; [reflexivity|].
  rewrite (zmem_map_inj f x l H), IH; [reflexivity|]. eapply inj_on_cons; exact H.
Qed.

Lemma zindex_map_inj f x (l : list Z) : inj_on f (x :: l) -> zindex (f x) (map f l) = zindex x l.
Proof.
  induction l as [|y l IH]; intros H; cbn [map zindex]; [reflexivity|].
  rewrite IH.
  - destruct (Z.eqb_spec x y) as [->|Hne].
    + now rewrite Z.eqb_refl.
    + destruct (Z.eqb_spec (f x) (f y)) as [E|_]; [|reflexivity].
      exfalso. apply Hne. apply H; [now left|right; now left|exact E].
  - eapply inj_on_incl; [|exact H]. intros z [<-|Hz]; [now left|right; now right].
Qed.

(* results *)
Definition map_result {A B} (h : A -> B) (r : result A) : result B :=
  match r with Ok a => Ok (h a) | Err e => Err e end.

Lemma map_result_id {A} (r : result A) : map_result (fun a => a) r = r.
Proof. now destruct r. Qed.

(* ------------------------------------------------------------------ *)
(** * 1. The replacement check commutes with relabelling                 *)
(* ------------------------------------------------------------------ *)
Section CheckRelabel.
  Context {T : Type} (N : Num T).
  Implicit Types (g : gate T) (f : Z -> Z).

  Lemma reindex_mat_go_relabel f (indices : list Z) (m : list (list (T * T))) :
    forall (ops acc : list Z),
      inj_on f (ops ++ indices)%list ->
      (fix go (l : list Z) (acc : list Z) : result (gate T) :=
         match l with
         | [] => mk_mat m (List.rev acc)
         | q :: l' => match zindex q (map f indices) with
                      | None => Err EValue
                      | Some i => go l' (i :: acc)
                      end
         end) (map f ops) acc =
      (fix go (l : list Z) (acc : list Z) : result (gate T) :=
         match l with
         | [] => mk_mat m (List.rev acc)
         | q :: l' => match zindex q indices with
                      | None => Err EValue
                      | Some i => go l' (i :: acc)
                      end
         end) ops acc.
  Proof.
    induction ops as [|q ops IH]; intros acc H; cbn [map]; [reflexivity|].
    rewrite zindex_map_inj.
    - destruct (zindex q indices) as [i|]; [|reflexivity]. apply IH.
      eapply inj_on_incl; [|exact H]. intros z Hz. now right.
    - eapply inj_on_incl; [|exact H]. intros z [<-|Hz]; [now left|].
      right. apply in_or_app. now right.
  Qed.

  (* f injective on the gate's qubits together with the index list *)
  Theorem reindex_gate_relabel_gen f (indices : list Z) g :
    inj_on f (gate_qubits g ++ indices)%list ->
    reindex_gate N (map f indices) (map_gate_qubits f g) = reindex_gate N indices g.
  Proof.
    induction g as [q ax a p|c g IH|m ops]; intros H; cbn [map_gate_qubits reindex_gate gate_qubits] in *.
    - rewrite zindex_map_inj; [reflexivity|exact H].
    - rewrite zindex_map_inj.
      + destruct (zindex c indices) as [i|]; [|reflexivity]. rewrite IH; [reflexivity|].
        eapply inj_on_cons; exact H.
      + eapply inj_on_incl; [|exact H]. intros z [<-|Hz]; [now left|].
        right. apply in_or_app. now right.
    - apply reindex_mat_go_relabel. exact H.
  Qed.

  (* the statement as asked: the gate's qubits are among the indices *)
  Corollary reindex_gate_relabel f (indices : list Z) g :
    inj_on f indices -> incl (gate_qubits g) indices ->
    reindex_gate N (map f indices) (map_gate_qubits f g) = reindex_gate N indices g.
  Proof.
    intros H Hi. apply reindex_gate_relabel_gen. eapply inj_on_incl; [|exact H].
    intros z Hz. apply in_app_or in Hz. destruct Hz as [Hz|Hz]; [now apply Hi|exact Hz].
  Qed.

  Lemma gates_qubits_cons g (gs : list (gate T)) :
    gates_qubits (g :: gs) = (gate_qubits g ++ gates_qubits gs)%list.
  Proof. reflexivity. Qed.

  Lemma gates_qubits_map f (gs : list (gate T)) :
    gates_qubits (map (map_gate_qubits f) gs) = map f (gates_qubits gs).
  Proof.
    induction gs as [|g gs IH]; [reflexivity|].
    cbn [map]. rewrite !gates_qubits_cons, map_app, IH. f_equal. apply gate_qubits_map.
  Qed.

  Lemma reindex_gates_relabel f (indices : list Z) (gs : list (gate T)) :
    inj_on f (gates_qubits gs ++ indices)%list ->
    reindex_gates N (map f indices) (map (map_gate_qubits f) gs) = reindex_gates N indices gs.
  Proof.
    induction gs as [|g gs IH]; intros H; cbn [map reindex_gates]; [reflexivity|].
    rewrite gates_qubits_cons in H.
    rewrite reindex_gate_relabel_gen, IH; [reflexivity| |].
    - eapply inj_on_incl; [|exact H]. intros z Hz. apply in_app_or in Hz.
      apply in_or_app. destruct Hz as [Hz|Hz]; [left; apply in_or_app; now right|now right].
    - eapply inj_on_incl; [|exact H]. intros z Hz. apply in_app_or in Hz.
      apply in_or_app. destruct Hz as [Hz|Hz]; [left; apply in_or_app; now left|now right].
  Qed.

  Corollary reindexed_matrix_relabel f (indices : list Z) (gs : list (gate T)) :
    inj_on f (gates_qubits gs ++ indices)%list ->
    reindexed_matrix N (map f indices) (map (map_gate_qubits f) gs) = reindexed_matrix N indices gs.
  Proof.
    intros H. unfold reindexed_matrix. rewrite reindex_gates_relabel by exact H.
    now rewrite map_length.
  Qed.

  Theorem check_replacement_relabel f g (repl : list (gate T)) :
    inj_on f (gate_qubits g ++ gates_qubits repl)%list ->
    check_replacement N (map_gate_qubits f g) (map (map_gate_qubits f) repl) = check_replacement N g repl.
  Proof.
    intros H. unfold check_replacement.
    rewrite gates_qubits_map, gate_qubits_map.
    rewrite zsubset_map_inj.
    2:{ eapply inj_on_incl; [|exact H]. intros z Hz. apply in_app_or in Hz. apply in_or_app. tauto. }
    change [map_gate_qubits f g] with (map (map_gate_qubits f) [g]).
    rewrite !reindexed_matrix_relabel; [reflexivity| |].
    - eapply inj_on_incl; [|exact H]. intros z Hz. apply in_app_or in Hz. apply in_or_app. tauto.
    - eapply inj_on_incl; [|exact H]. intros z Hz. apply in_app_or in Hz. apply in_or_app.
      destruct Hz as [Hz|Hz]; [|now left]. left.
      cbn [gates_qubits flat_map] in Hz. now rewrite app_nil_r in Hz.
  Qed.

  (* when the replacement stays on the gate's own qubits, injectivity on those suffices *)
  Corollary check_replacement_relabel_sub f g (repl : list (gate T)) :
    inj_on f (gate_qubits g) -> incl (gates_qubits repl) (gate_qubits g) ->
    check_replacement N (map_gate_qubits f g) (map (map_gate_qubits f) repl) = check_replacement N g repl.
  Proof.
    intros H Hi. apply check_replacement_relabel. eapply inj_on_incl; [|exact H].
    intros z Hz. apply in_app_or in Hz. destruct Hz as [Hz|Hz]; [exact Hz|now apply Hi].
  Qed.
End CheckRelabel.

Print Assumptions reindex_gate_relabel.
Print Assumptions check_replacement_relabel.

(* ------------------------------------------------------------------ *)
(** * 2. The default table and the built-in decomposers commute with
        relabelling                                                     *)
(* ------------------------------------------------------------------ *)
Section DecRelabel.
  Context {T : Type} (N : Num T).
  Notation pairT := (gate T * ginfo T)%type.
  Implicit Types (g : gate T) (gi : ginfo T) (f : Z -> Z).

  Definition relabel_pair f (x : pairT) : pairT := (map_gate_qubits f (fst x), map_ginfo f (snd x)).

  Definition relabel_item f (it : ditem T) : ditem T :=
    match it with
    | DSame => DSame
    | DNew k g' gi' => DNew k (map_gate_qubits f g') (map_ginfo f gi')
    end.

  (** ** 2.0 the default table *)

  Lemma args_match_map f ps : forall (args : list (arg T)),
    args_match ps (map (map_arg f) args) = args_match ps args.
  Proof.
    induction ps as [|[nm k] ps IH]; intros [|a args]; cbn [map args_match]; try reflexivity.
    - destruct k, a; cbn [map_arg]; try reflexivity; apply IH.
  Qed.

  Lemma first_float_map f (args : list (arg T)) : first_float N (map (map_arg f) args) = first_float N args.
  Proof.
    unfold first_float. induction args as [|a args IH]; [reflexivity|].
    cbn [map find]. destruct a; cbn [map_arg]; try exact IH; reflexivity.
  Qed.

  Lemma first_int_map f (args : list (arg T)) : first_int (map (map_arg f) args) = first_int args.
  Proof.
    unfold first_int. induction args as [|a args IH]; [reflexivity|].
    cbn [map find]. destruct a; cbn [map_arg]; try exact IH; reflexivity.
  Qed.

  Lemma arg_qubits_map f (args : list (arg T)) : arg_qubits (map (map_arg f) args) = map f (arg_qubits args).
  Proof. apply (qargs_of_map f args). Qed.

  Lemma mk_bsr_map f q v a p : mk_bsr N (f q) v a p = map_gate_qubits f (mk_bsr N q v a p).
  Proof. reflexivity. Qed.

  Lemma bsr_identity_map f q : bsr_identity N (f q) = map_gate_qubits f (bsr_identity N q).
  Proof. reflexivity. Qed.

  Lemma eval_bsrdef_map f q theta k loc d :
    eval_bsrdef N (f q) theta k loc d = map_gate_qubits f (eval_bsrdef N q theta k loc d).
  Proof. reflexivity. Qed.

  Lemma mk_ctrl_map f c g :
    inj_on f (c :: gate_qubits g) ->
    mk_ctrl (f c) (map_gate_qubits f g) = map_result (map_gate_qubits f) (mk_ctrl c g).
  Proof.
    intros H. unfold mk_ctrl. rewrite gate_qubits_map.
    change (f c :: map f (gate_qubits g)) with (map f (c :: gate_qubits g)).
    rewrite znodup_map_inj by exact H.
    destruct (znodup (c :: gate_qubits g)); reflexivity.
  Qed.

  (* the gate built by a table entry acts on (some of) the qubit arguments *)
  Lemma eval_entry_qubits tbl : forall fuel e (args : list (arg T)) g,
    eval_entry N fuel tbl e args = Ok g -> incl (gate_qubits g) (arg_qubits args).
  Proof.
    induction fuel as [|fuel IH]; intros e args g; cbn [eval_entry];
      (destruct (negb (args_match (e_params e) args)); [discriminate|]).
    - destruct (e_def e) as [|d|callee|loc d]; destruct (arg_qubits args) as [|q [|t qs]]; try discriminate;
        intros H; try (apply Ok_inj in H; subst g; cbn [gate_qubits bsr_identity eval_bsrdef mk_bsr];
                        intros z [<-|[]]; now left).
      + unfold mk_ctrl in H. destruct (znodup _); [|discriminate]. apply Ok_inj in H. subst g.
        cbn [gate_qubits eval_bsrdef mk_bsr]. intros z [<-|[<-|[]]]; [now left|right; now left].
    - destruct (e_def e) as [|d|callee|loc d]; destruct (arg_qubits args) as [|q [|t qs]]; try discriminate;
        intros H; try (apply Ok_inj in H; subst g; cbn [gate_qubits bsr_identity eval_bsrdef mk_bsr];
                        intros z [<-|[]]; now left).
      + destruct (find_entry callee tbl) as [e'|]; [|discriminate].
        destruct (eval_entry N fuel tbl e' [AQ t]) as [g'|er] eqn:E; [|discriminate].
        apply IH in E. cbn [arg_qubits flat_map app] in E.
        unfold mk_ctrl in H. destruct (znodup _); [|discriminate]. apply Ok_inj in H. subst g.
        cbn [gate_qubits]. intros z [<-|Hz]; [now left|]. apply E in Hz. destruct Hz as [<-|[]]. right; now left.
      + unfold mk_ctrl in H. destruct (znodup _); [|discriminate]. apply Ok_inj in H. subst g.
        cbn [gate_qubits eval_bsrdef mk_bsr]. intros z [<-|[<-|[]]]; [now left|right; now left].
  Qed.

  Lemma eval_entry_relabel f tbl : forall fuel e (args : list (arg T)),
    inj_on f (arg_qubits args) ->
    eval_entry N fuel tbl e (map (map_arg f) args) =
    map_result (map_gate_qubits f) (eval_entry N fuel tbl e args).
  Proof.
    induction fuel as [|fuel IH]; intros e args Hinj; cbn [eval_entry];
      rewrite args_match_map, first_float_map, first_int_map, arg_qubits_map;
      (destruct (negb (args_match (e_params e) args)); [reflexivity|]).
    - destruct (e_def e) as [|d|callee|loc d]; destruct (arg_qubits args) as [|q [|t qs]] eqn:Eq;
        cbn [map map_result]; try reflexivity.
      + rewrite eval_bsrdef_map. apply mk_ctrl_map. cbn [gate_qubits eval_bsrdef mk_bsr].
        eapply inj_on_incl; [|exact Hinj]. intros z [<-|[<-|[]]]; [now left|right; now left].
    - destruct (e_def e) as [|d|callee|loc d]; destruct (arg_qubits args) as [|q [|t qs]] eqn:Eq;
        cbn [map map_result]; try reflexivity.
      + destruct (find_entry callee tbl) as [e'|]; [|reflexivity].
        change [AQ (f t)] with (map (map_arg f) [@AQ T t]).
        rewrite IH by (cbn [arg_qubits flat_map app]; apply inj_on_single).
        destruct (eval_entry N fuel tbl e' [AQ t]) as [g'|er] eqn:E; cbn [map_result]; [|reflexivity].
        apply mk_ctrl_map. apply eval_entry_qubits in E. cbn [arg_qubits flat_map app] in E.
        eapply inj_on_incl; [|exact Hinj]. intros z [<-|Hz]; [now left|].
        apply E in Hz. destruct Hz as [<-|[]]. right; now left.
      + rewrite eval_bsrdef_map. apply mk_ctrl_map. cbn [gate_qubits eval_bsrdef mk_bsr].
        eapply inj_on_incl; [|exact Hinj]. intros z [<-|[<-|[]]]; [now left|right; now left].
  Qed.

  (* a default gate function called on relabelled arguments returns the relabelled gate
     (with the relabelled arguments captured), for EVERY entry of the table *)
  Theorem default_gate_relabel f name (args : list (arg T)) :
    inj_on f (arg_qubits args) ->
    default_gate N name (map (map_arg f) args) = map_result (relabel_pair f) (default_gate N name args).
  Proof.
    intros H. unfold default_gate. destruct (find_entry name hand_table) as [e|]; [|reflexivity].
    rewrite eval_entry_relabel by exact H.
    destruct (eval_entry N 2 hand_table e args) as [g|er]; reflexivity.
  Qed.

  Theorem default_gate_qubits name (args : list (arg T)) g gi :
    default_gate N name args = Ok (g, gi) ->
    incl (gate_qubits g) (arg_qubits args) /\ ginfo_qubits gi = arg_qubits args.
  Proof.
    unfold default_gate. destruct (find_entry name hand_table) as [e|]; [|discriminate].
    destruct (eval_entry N 2 hand_table e args) as [g'|er] eqn:E; [|discriminate].
    intros H. apply Ok_inj in H. inversion H; subst. split; [|reflexivity].
    eapply eval_entry_qubits; exact E.
  Qed.

  (** ** 2.1 the pieces the decomposers are made of *)

  Lemma is_identity_map f g : is_identity N (map_gate_qubits f g) = is_identity N g.
  Proof.
    induction g as [q ax a p|c g IH|m ops]; cbn [map_gate_qubits is_identity];
      [reflexivity|exact IH|now rewrite map_length].
  Qed.

  Lemma name_is_map f gi s : name_is (map_ginfo f gi) s = name_is gi s.
  Proof. reflexivity. Qed.

  Lemma is_anonymous_map f gi : is_anonymous (map_ginfo f gi) = is_anonymous gi.
  Proof. unfold is_anonymous, map_ginfo. cbn [gargs]. now destruct (gargs gi). Qed.

  Lemma rot_gate_map f a q t : rot_gate N a (f q) t = relabel_pair f (rot_gate N a q t).
  Proof.
    unfold rot_gate. change [AQ (f q); AF t] with (map (map_arg f) [@AQ T q; AF t]).
    rewrite default_gate_relabel by (apply inj_on_single).
    destruct (default_gate N (axis_gate a) [AQ q; AF t]) as [r|e]; reflexivity.
  Qed.

  Lemma x90_map f q : x90 N (f q) = relabel_pair f (x90 N q).
  Proof.
    unfold x90. change [AQ (f q)] with (map (map_arg f) [@AQ T q]).
    rewrite default_gate_relabel by (apply inj_on_single).
    destruct (default_gate N "X90" [AQ q]) as [r|e]; reflexivity.
  Qed.

  Lemma ident_map f q : ident N (f q) = relabel_pair f (ident N q).
  Proof.
    unfold ident. change [AQ (f q)] with (map (map_arg f) [@AQ T q]).
    rewrite default_gate_relabel by (apply inj_on_single).
    destruct (default_gate N "I" [AQ q]) as [r|e]; reflexivity.
  Qed.

  Lemma filter_identities_map f (l : list pairT) :
    filter_identities N (map (relabel_pair f) l) = map (relabel_pair f) (filter_identities N l).
  Proof.
    unfold filter_identities. induction l as [|x l IH]; [reflexivity|].
    cbn [map filter]. cbn [relabel_pair fst]. rewrite is_identity_map, IH.
    destruct (negb (is_identity N (fst x))); reflexivity.
  Qed.

  (* cons form, to fold a literal list *)
  Lemma fi_cons f x (l l' : list pairT) :
    filter_identities N l' = map (relabel_pair f) (filter_identities N l) ->
    filter_identities N (relabel_pair f x :: l') = map (relabel_pair f) (filter_identities N (x :: l)).
  Proof.
    intros H. unfold filter_identities in *. cbn [filter]. cbn [relabel_pair fst]. rewrite is_identity_map, H.
    destruct (negb (is_identity N (fst x))); reflexivity.
  Qed.

  Lemma news_from_map f (l : list pairT) : forall s,
    news_from s (map (relabel_pair f) l) = map (relabel_item f) (news_from s l).
  Proof. induction l as [|x l IH]; intros s; [reflexivity|]. cbn [map news_from]. now rewrite IH. Qed.

  Lemma news_map f (l : list pairT) : news (map (relabel_pair f) l) = map (relabel_item f) (news l).
  Proof. rewrite !news_eq. apply news_from_map. Qed.

  (** ** 2.2 A-B-A *)

  Lemma aba_gates_map f ia ib g :
    aba_gates N ia ib (map_gate_qubits f g) = map_result (map (relabel_pair f)) (aba_gates N ia ib g).
  Proof.
    destruct g as [q ax a p|c g|m ops]; cbn [map_gate_qubits aba_gates]; try reflexivity.
    destruct (aba_angles N ia ib a ax) as [[[t1 t2] t3]|e]; [|reflexivity].
    cbn [map_result]. f_equal. rewrite !rot_gate_map. repeat apply fi_cons. reflexivity.
  Qed.

  Theorem aba_decompose_relabel f ia ib g gi :
    aba_decompose N ia ib (map_gate_qubits f g) (map_ginfo f gi) =
    map_result (map (relabel_item f)) (aba_decompose N ia ib g gi).
  Proof.
    destruct g as [q ax a p|c g|m ops]; try reflexivity.
    unfold aba_decompose. cbn [map_gate_qubits].
    change (BSR (f q) ax a p) with (map_gate_qubits f (BSR q ax a p)).
    rewrite aba_gates_map. destruct (aba_gates N ia ib (BSR q ax a p)) as [l|e]; [|reflexivity].
    cbn [map_result]. now rewrite news_map.
  Qed.

  (** ** 2.3 McKay *)

  Lemma zxz_angle_of_map f (zxz : list pairT) :
    zxz_angle_of N (map (relabel_pair f) zxz) = zxz_angle_of N zxz.
  Proof.
    destruct zxz as [|x0 [|[[q ax a p|c g|m ops] gi1] rest]]; reflexivity.
  Qed.

  Lemma mckay_shortcut_map f q (zxz : list pairT) :
    mckay_shortcut N (f q) (map (relabel_pair f) zxz) =
    map_result (map (relabel_pair f)) (mckay_shortcut N q zxz).
  Proof.
    destruct zxz as [|x0 [|x1 rest]]; [reflexivity|reflexivity|].
    cbn [map mckay_shortcut map_result]. now rewrite x90_map.
  Qed.

  Lemma mckay_full_map f q ax angle :
    mckay_full N (f q) ax angle = map_result (map (relabel_pair f)) (mckay_full N q ax angle).
  Proof.
    unfold mckay_full, rz. cbv zeta. rewrite !x90_map, !rot_gate_map.
    repeat match goal with |- context [if ?c then _ else _] => destruct c end; reflexivity.
  Qed.

  Lemma mckay_gates_map f q ax angle :
    mckay_gates N (f q) ax angle = map_result (map (relabel_pair f)) (mckay_gates N q ax angle).
  Proof.
    rewrite !mckay_gates_unfold.
    destruct (nltb N (nabs N angle) (atol N)); [reflexivity|].
    destruct (neqb N (ax_x ax) (nofZ N 0) && neqb N (ax_y ax) (nofZ N 0)).
    - unfold rz. now rewrite rot_gate_map.
    - change (BSR (f q) ax angle (nofZ N 0)) with (map_gate_qubits f (BSR q ax angle (nofZ N 0))).
      rewrite aba_gates_map.
      destruct (aba_gates N AxZ AxX (BSR q ax angle (nofZ N 0))) as [zxz|e]; [|reflexivity].
      cbn [map_result]. rewrite zxz_angle_of_map.
      destruct (nltb N (nabs N (nsub N (zxz_angle_of N zxz) (ndiv N (pi N) (nofZ N 2)))) (atol N)).
      + apply mckay_shortcut_map.
      + apply mckay_full_map.
  Qed.

  Theorem mckay_decompose_relabel f g gi :
    mckay_decompose N (map_gate_qubits f g) (map_ginfo f gi) =
    map_result (map (relabel_item f)) (mckay_decompose N g gi).
  Proof.
    destruct g as [q ax a p|c g|m ops]; try reflexivity.
    cbn [map_gate_qubits mckay_decompose]. rewrite !name_is_map.
    destruct (name_is gi "Rz" || name_is gi "X90"); [reflexivity|].
    rewrite mckay_gates_map. destruct (mckay_gates N q ax a) as [l|e]; [|reflexivity].
    cbn [map_result]. now rewrite news_map.
  Qed.

  (** ** 2.4 CNOT *)

  Lemma compose_map f q axa anga pha gia axb angb phb gib :
    compose N (f q) axa anga pha (map_ginfo f gia) axb angb phb (map_ginfo f gib) =
    relabel_pair f (compose N q axa anga pha gia axb angb phb gib).
  Proof.
    unfold compose. cbn [is_identity].
    repeat match goal with |- context [if ?c then _ else _] => destruct c end; reflexivity.
  Qed.

  (* composition of two rotations: any f when it succeeds *)
  Lemma compose_gates_map_ok f (a b y : pairT) :
    compose_gates N a b = Ok y ->
    compose_gates N (relabel_pair f a) (relabel_pair f b) = Ok (relabel_pair f y).
  Proof.
    destruct a as [[qa axa anga pha|c g|m ops] gia]; destruct b as [[qb axb angb phb|c' g'|m' ops'] gib];
      cbn [compose_gates fst snd relabel_pair map_gate_qubits]; try discriminate.
    destruct (Z.eqb_spec qa qb) as [->|Hne]; [|discriminate].
    intros H. apply Ok_inj in H. subst y. rewrite Z.eqb_refl. f_equal. apply compose_map.
  Qed.

  Lemma cnot_gates_map f c tq ax angle phase :
    inj_on f [c; tq] ->
    cnot_gates N (f c) (f tq) ax angle phase =
    map_result (map (relabel_pair f)) (cnot_gates N c tq ax angle phase).
  Proof.
    intros Hinj. unfold cnot_gates, cnot.
    change [AQ (f c); AQ (f tq)] with (map (map_arg f) [@AQ T c; AQ tq]).
    change [AQ (f tq)] with (map (map_arg f) [@AQ T tq]).
    rewrite (default_gate_relabel f "X" [AQ tq]) by (apply inj_on_single).
    rewrite (default_gate_relabel f "CNOT" [AQ c; AQ tq]) by exact Hinj.
    rewrite default_gate_X.
    destruct (default_gate N "CNOT" [AQ c; AQ tq]) as [cn|e]; cbn [map_result]; [|reflexivity].
    cbn [compose_gates fst snd relabel_pair map_gate_qubits mk_bsr]. rewrite !Z.eqb_refl.
    change (@mkGinfo T None None) with (@anon T).
    change (@anon T) with (map_ginfo f (@anon T)) at 1.
    rewrite compose_map.
    match goal with |- context [compose N tq ?a ?b ?c ?d ?e ?f0 ?g ?h] =>
      destruct (compose N tq a b c d e f0 g h) as [[q' axx angx phx|c' g'|m' ops'] gix] end;
      cbn [relabel_pair fst snd map_gate_qubits]; try reflexivity.
    destruct (aba_angles N AxZ AxY angx axx) as [[[t0x t1x] t2x]|e]; [|reflexivity].
    match goal with |- context [if ?b then _ else _] => destruct b end.
    - cbn [map_result]. f_equal. unfold rz', ry. rewrite !rot_gate_map.
      change (map_gate_qubits f (fst cn), map_ginfo f (snd cn)) with (relabel_pair f cn).
      repeat apply fi_cons. reflexivity.
    - destruct (aba_angles N AxZ AxY angle ax) as [[[t0 t1] t2]|e]; [|reflexivity].
      cbn [map_result]. f_equal. unfold rz', ry. rewrite !rot_gate_map.
      change (map_gate_qubits f (fst cn), map_ginfo f (snd cn)) with (relabel_pair f cn).
      repeat apply fi_cons. reflexivity.
  Qed.

  Theorem cnot_decompose_relabel f g gi :
    inj_on f (gate_qubits g) ->
    cnot_decompose N (map_gate_qubits f g) (map_ginfo f gi) =
    map_result (map (relabel_item f)) (cnot_decompose N g gi).
  Proof.
    intros Hinj. destruct g as [q ax a p|c [tq ax a p|c' g'|m ops]|m ops]; try reflexivity.
    cbn [map_gate_qubits cnot_decompose]. cbn [gate_qubits] in Hinj.
    rewrite cnot_gates_map by exact Hinj.
    destruct (cnot_gates N c tq ax a p) as [l|e]; [|reflexivity].
    cbn [map_result]. now rewrite news_map.
  Qed.

  (** ** 2.5 all built-in decomposers *)

  Theorem run_decomposer_relabel f d g gi :
    inj_on f (gate_qubits g) ->
    run_decomposer N d (map_gate_qubits f g) (map_ginfo f gi) =
    map_result (map (relabel_item f)) (run_decomposer N d g gi).
  Proof.
    intros Hinj. destruct d as [a b| |]; cbn [run_decomposer].
    - apply aba_decompose_relabel.
    - apply mckay_decompose_relabel.
    - now apply cnot_decompose_relabel.
  Qed.

  (* A-B-A and McKay: no condition on f at all *)
  Corollary run_decomposer_relabel_1q f d g gi :
    d <> DecCNOT ->
    run_decomposer N d (map_gate_qubits f g) (map_ginfo f gi) =
    map_result (map (relabel_item f)) (run_decomposer N d g gi).
  Proof.
    intros Hd. destruct d as [a b| |]; cbn [run_decomposer].
    - apply aba_decompose_relabel.
    - apply mckay_decompose_relabel.
    - now destruct Hd.
  Qed.
End DecRelabel.

Print Assumptions default_gate_relabel.
Print Assumptions run_decomposer_relabel.

(* ------------------------------------------------------------------ *)
(** * 2bis. What a decomposer proposes acts on the qubits it was given   *)
(* ------------------------------------------------------------------ *)
Section DecQubits.
  Context {T : Type} (N : Num T).
  Notation pairT := (gate T * ginfo T)%type.
  Implicit Types (g : gate T) (gi : ginfo T).

  Definition on_qs (S : list Z) (x : pairT) : Prop := incl (gate_qubits (fst x)) S.

  Lemma same_qubits g : incl (gates_qubits (map (item_gate g) [DSame])) (gate_qubits g).
  Proof. cbn [map item_gate gates_qubits flat_map]. rewrite app_nil_r. apply incl_refl. Qed.

  Lemma news_on S g (l : list pairT) :
    Forall (on_qs S) l -> incl (gates_qubits (map (item_gate g) (news l))) S.
  Proof.
    rewrite news_gates. induction 1 as [|x l Hx _ IH]; [intros z []|].
    cbn [map]. rewrite gates_qubits_cons. apply incl_app; assumption.
  Qed.

  Lemma rot_gate_on a q t : on_qs [q] (rot_gate N a q t).
  Proof. unfold on_qs. rewrite rot_gate_spec. cbn [fst mk_bsr gate_qubits]. apply incl_refl. Qed.

  Lemma x90_on q : on_qs [q] (x90 N q).
  Proof. unfold on_qs. rewrite x90_spec. cbn [fst mk_bsr gate_qubits]. apply incl_refl. Qed.

  Lemma aba_decompose_qubits ia ib g gi items :
    aba_decompose N ia ib g gi = Ok items ->
    incl (gates_qubits (map (item_gate g) items)) (gate_qubits g).
  Proof.
    destruct g as [q ax a p|c g|m ops];
      try (intros H; apply Ok_inj in H; subst items; apply same_qubits).
    unfold aba_decompose. destruct (aba_gates N ia ib (BSR q ax a p)) as [l|e] eqn:E; [|discriminate].
    intros H; apply Ok_inj in H; subst items.
    apply aba_gates_spec in E. destruct E as (t1 & t2 & t3 & _ & ->).
    cbn [gate_qubits]. apply news_on.
    eapply subseq_Forall; [apply filter_identities_spec|].
    repeat (apply Forall_cons; [apply rot_gate_on|]). apply Forall_nil.
  Qed.

  Lemma mckay_decompose_qubits g gi items :
    mckay_decompose N g gi = Ok items ->
    incl (gates_qubits (map (item_gate g) items)) (gate_qubits g).
  Proof.
    intros H. apply mckay_decompose_cases in H.
    destruct H as [ [ -> _ ] | (q & ax & a & p & l & -> & Hl & ->) ]; [apply same_qubits|].
    cbn [gate_qubits]. apply news_on.
    apply mckay_gates_shape_partial in Hl. apply mckay_shape_weak_facts in Hl.
    destruct Hl as [HF _]. eapply Forall_impl; [|exact HF].
    intros x [ [ (t & ->) | -> ] | (t & ->) ]; [apply rot_gate_on|apply x90_on|apply rot_gate_on].
  Qed.

  Lemma cnot_decompose_qubits g gi items :
    cnot_decompose N g gi = Ok items ->
    incl (gates_qubits (map (item_gate g) items)) (gate_qubits g).
  Proof.
    destruct g as [q ax a p|c [tq ax a p|c' g'|m ops]|m ops];
      try (intros H; apply Ok_inj in H; subst items; apply same_qubits).
    cbn [cnot_decompose]. destruct (cnot_gates N c tq ax a p) as [l|e] eqn:E; [|discriminate].
    intros H; apply Ok_inj in H; subst items.
    cbn [gate_qubits]. apply news_on.
    apply cnot_gates_target in E. destruct E as (_ & _ & HF & _). exact HF.
  Qed.

  Theorem run_decomposer_qubits d g gi items :
    run_decomposer N d g gi = Ok items ->
    incl (gates_qubits (map (item_gate g) items)) (gate_qubits g).
  Proof.
    destruct d as [a b| |]; cbn [run_decomposer];
      [apply aba_decompose_qubits|apply mckay_decompose_qubits|apply cnot_decompose_qubits].
  Qed.
End DecQubits.

(* ------------------------------------------------------------------ *)
(** * 3. The decomposition loop commutes with relabelling                *)
(* ------------------------------------------------------------------ *)
Section LoopRelabel.
  Context {T : Type} (N : Num T).
  Notation pairT := (gate T * ginfo T)%type.
  Notation decomposer := (gate T -> ginfo T -> result (list (ditem T))).
  Implicit Types (g : gate T) (gi : ginfo T) (f : Z -> Z) (ir : list (stmt T)).

  (* all qubits occurring in a statement list: operands AND captured arguments *)
  Definition ir_qubits ir : list Z := flat_map (@stmt_all_qubits T) ir.

  Lemma ir_qubits_cons s ir : ir_qubits (s :: ir) = (stmt_all_qubits s ++ ir_qubits ir)%list.
  Proof. reflexivity. Qed.

  Lemma max_oid_remap f ir : max_oid (map (remap_stmt f) ir) = max_oid ir.
  Proof.
    induction ir as [|s ir IH]; [reflexivity|].
    destruct s; cbn [map remap_stmt max_oid]; now rewrite IH.
  Qed.

  Lemma max_key_map f (items : list (ditem T)) : max_key (map (relabel_item f) items) = max_key items.
  Proof.
    induction items as [|[|k g' gi'] items IH]; cbn [map relabel_item max_key]; [reflexivity|exact IH|now rewrite IH].
  Qed.

  Lemma item_gate_map f g (items : list (ditem T)) :
    map (item_gate (map_gate_qubits f g)) (map (relabel_item f) items) =
    map (map_gate_qubits f) (map (item_gate g) items).
  Proof. rewrite !map_map. apply map_ext. intros [|k g' gi']; reflexivity. Qed.

  Lemma materialise_map f o g gi next (items : list (ditem T)) :
    materialise o (map_gate_qubits f g) (map_ginfo f gi) next (map (relabel_item f) items) =
    map (remap_stmt f) (materialise o g gi next items).
  Proof. unfold materialise. rewrite !map_map. apply map_ext. intros [|k g' gi']; reflexivity. Qed.

  (* what is needed of a decomposer on one gate statement: it commutes with the
     relabelling, and what it proposes stays on the qubits of the statement *)
  Definition dec_commutes f (dec : decomposer) g gi : Prop :=
    dec (map_gate_qubits f g) (map_ginfo f gi) = map_result (map (relabel_item f)) (dec g gi) /\
    forall items, dec g gi = Ok items ->
      incl (gates_qubits (map (item_gate g) items)) (gate_qubits g ++ ginfo_qubits gi)%list.

  Theorem decompose_loop_relabel f (dec : decomposer) : forall todo next done,
    inj_on f (ir_qubits todo) ->
    (forall o g gi, In (SGate o g gi) todo ->
       inj_on f (gate_qubits g ++ ginfo_qubits gi)%list -> dec_commutes f dec g gi) ->
    decompose_loop N dec next (map (remap_stmt f) done) (map (remap_stmt f) todo) =
    (fst (decompose_loop N dec next done todo),
     map (remap_stmt f) (snd (decompose_loop N dec next done todo))).
  Proof.
    induction todo as [|s rest IH]; intros next done Hinj Hdec.
    - cbn [map decompose_loop fst snd]. now rewrite map_rev.
    - assert (Hinj' : inj_on f (ir_qubits rest)).
      { rewrite ir_qubits_cons in Hinj. eapply inj_on_app_r; exact Hinj. }
      assert (Hdec' : forall o g gi, In (SGate o g gi) rest ->
                inj_on f (gate_qubits g ++ ginfo_qubits gi)%list -> dec_commutes f dec g gi).
      { intros o g gi Hin. apply (Hdec o). now right. }
      destruct s as [o g gi|o q b ax gi|o q gi|t].
      + assert (Hs : inj_on f (gate_qubits g ++ ginfo_qubits gi)%list).
        { rewrite ir_qubits_cons in Hinj. eapply inj_on_app_l; exact Hinj. }
        destruct (Hdec o g gi (or_introl eq_refl) Hs) as [Hc Hq].
        cbn [map remap_stmt decompose_loop]. rewrite Hc.
        destruct (dec g gi) as [items|e] eqn:E; cbn [map_result].
        * rewrite item_gate_map, check_replacement_relabel.
          2:{ eapply inj_on_incl; [|exact Hs]. apply incl_app; [now apply incl_appl|now apply Hq]. }
          destruct (check_replacement N g (map (item_gate g) items)) as [u|e] eqn:C.
          -- rewrite materialise_map, max_key_map, <- map_rev, <- map_app.
             apply IH; assumption.
          -- cbn [fst snd]. f_equal. rewrite map_app, map_rev. reflexivity.
        * cbn [fst snd]. f_equal. rewrite map_app, map_rev. reflexivity.
      + cbn [map remap_stmt decompose_loop].
        change (SMeasure o (f q) b ax (map_ginfo f gi) :: map (remap_stmt f) done)
          with (map (remap_stmt f) (SMeasure o q b ax gi :: done)).
        apply IH; assumption.
      + cbn [map remap_stmt decompose_loop].
        change (SReset o (f q) (map_ginfo f gi) :: map (remap_stmt f) done)
          with (map (remap_stmt f) (SReset o q gi :: done)).
        apply IH; assumption.
      + cbn [map remap_stmt decompose_loop].
        change (SComment t :: map (remap_stmt f) done)
          with (map (remap_stmt f) (@SComment T t :: done)).
        apply IH; assumption.
  Qed.

  (** ** 3.1 [decompose] with the built-in decomposers *)

  Lemma run_decomposer_commutes f d g gi :
    inj_on f (gate_qubits g ++ ginfo_qubits gi)%list -> dec_commutes f (run_decomposer N d) g gi.
  Proof.
    intros H. split.
    - apply run_decomposer_relabel. eapply inj_on_app_l; exact H.
    - intros items E. apply incl_appl. eapply run_decomposer_qubits; exact E.
  Qed.

  (* same outcome (same error or success), relabelled statement list, same object identities *)
  Theorem decompose_commutes_with_relabel f d ir e ir' :
    inj_on f (ir_qubits ir) ->
    decompose N d ir = (e, ir') ->
    decompose N d (map (remap_stmt f) ir) = (e, map (remap_stmt f) ir').
  Proof.
    intros Hinj H. unfold decompose in *. rewrite max_oid_remap.
    change (@nil (stmt T)) with (map (remap_stmt f) (@nil (stmt T))) at 1.
    rewrite decompose_loop_relabel; [now rewrite H|exact Hinj|].
    intros o g gi _. apply run_decomposer_commutes.
  Qed.

  (* in particular for any globally injective relabelling (the decomposers themselves need
     nothing of f for single-qubit gates, see [run_decomposer_relabel_1q]; it is the
     replacement check, which reindexes on the gate's own qubits, that needs injectivity) *)
  Corollary decompose_commutes_with_bijection f d ir e ir' :
    (forall x y, f x = f y -> x = y) ->
    decompose N d ir = (e, ir') ->
    decompose N d (map (remap_stmt f) ir) = (e, map (remap_stmt f) ir').
  Proof. intros Hf. apply decompose_commutes_with_relabel. now apply inj_on_global. Qed.

  (** ** 3.2 [replace] with the rules of [run_rule] *)

  Lemma run_rule_relabel f r (args : list (arg T)) :
    inj_on f (arg_qubits args) ->
    run_rule N r (map (map_arg f) args) = map_result (map (relabel_item f)) (run_rule N r args).
  Proof.
    intros Hinj.
    assert (Hcase : forall c t nm, args = [AQ c; AQ t] ->
              dg N "H" [AQ (f t)] = map_result (relabel_pair f) (dg N "H" [AQ t]) /\
              dg N nm [AQ (f c); AQ (f t)] = map_result (relabel_pair f) (dg N nm [AQ c; AQ t])).
    { intros c t nm ->. unfold dg. split.
      - change [AQ (f t)] with (map (map_arg f) [@AQ T t]).
        apply default_gate_relabel, inj_on_single.
      - change [AQ (f c); AQ (f t)] with (map (map_arg f) [@AQ T c; AQ t]).
        apply default_gate_relabel. exact Hinj. }
    destruct r; destruct args as [|a [|b [|c' rest]]]; try reflexivity;
      destruct a as [c| | |]; try reflexivity; destruct b as [t| | |]; try reflexivity;
      cbn [map map_arg run_rule];
      destruct (Hcase c t "CZ" eq_refl) as [-> Hcz]; destruct (Hcase c t "CNOT" eq_refl) as [_ Hcn];
      rewrite ?Hcz, ?Hcn;
      destruct (dg N "H" [AQ t]) as [h|e1]; cbn [map_result];
      try (destruct (dg N "CZ" [AQ c; AQ t]) as [cz|e2]; cbn [map_result]; reflexivity);
      try (destruct (dg N "CNOT" [AQ c; AQ t]) as [cn|e2]; cbn [map_result]; reflexivity).
  Qed.

  Lemma run_replacer_relabel f target r g gi :
    inj_on f (ginfo_qubits gi) ->
    run_replacer N target r (map_gate_qubits f g) (map_ginfo f gi) =
    map_result (map (relabel_item f)) (run_replacer N target r g gi).
  Proof.
    intros Hinj. unfold run_replacer, ginfo_qubits in *. cbn [map_ginfo gargs gname].
    destruct (gargs gi) as [args|]; cbn [option_map]; [|reflexivity].
    destruct (gname gi) as [nm|]; [|reflexivity].
    destruct (String.eqb nm target); [|reflexivity].
    apply run_rule_relabel. exact Hinj.
  Qed.

  Lemma dg_qubits name (args : list (arg T)) (x : pairT) :
    dg N name args = Ok x -> incl (gate_qubits (fst x)) (arg_qubits args).
  Proof. destruct x as [g gi]. intros H. apply default_gate_qubits in H. apply H. Qed.

  Lemma run_rule_qubits r (args : list (arg T)) g items :
    run_rule N r args = Ok items ->
    incl (gates_qubits (map (item_gate g) items)) (arg_qubits args).
  Proof.
    destruct r; destruct args as [|a [|b [|c' rest]]]; try discriminate;
      try (intros H; apply Ok_inj in H; subst items; intros z []);
      destruct a as [c| | |]; try discriminate; destruct b as [t| | |]; try discriminate;
      cbn [run_rule];
      repeat match goal with |- context [dg N ?nm ?a] =>
        let E := fresh "E" in destruct (dg N nm a) eqn:E end; try discriminate;
      intros H; apply Ok_inj in H; subst items;
      cbn [map item_gate gates_qubits flat_map]; rewrite ?app_nil_r;
      repeat match goal with E : dg N _ _ = Ok _ |- _ =>
        apply dg_qubits in E; cbn [arg_qubits flat_map app] in E end;
      cbn [arg_qubits flat_map app];
      repeat apply incl_app; try assumption;
      intros z Hz; match goal with E : incl _ [t] |- _ => apply E in Hz end;
      destruct Hz as [<-|[]]; right; now left.
  Qed.

  Lemma run_replacer_commutes f target r g gi :
    inj_on f (gate_qubits g ++ ginfo_qubits gi)%list -> dec_commutes f (run_replacer N target r) g gi.
  Proof.
    intros H. split.
    - apply run_replacer_relabel. eapply inj_on_app_r; exact H.
    - intros items. unfold run_replacer, ginfo_qubits.
      destruct (gargs gi) as [args|];
        [|intros E; apply Ok_inj in E; subst items; apply incl_appl, same_qubits].
      destruct (gname gi) as [nm|];
        [|intros E; apply Ok_inj in E; subst items; apply incl_appl, same_qubits].
      destruct (String.eqb nm target);
        [|intros E; apply Ok_inj in E; subst items; apply incl_appl, same_qubits].
      intros E. apply incl_appr. eapply run_rule_qubits; exact E.
  Qed.

  Theorem replace_commutes_with_relabel f target r ir e ir' :
    inj_on f (ir_qubits ir) ->
    replace N target r ir = (e, ir') ->
    replace N target r (map (remap_stmt f) ir) = (e, map (remap_stmt f) ir').
  Proof.
    intros Hinj H. unfold replace in *. rewrite max_oid_remap.
    change (@nil (stmt T)) with (map (remap_stmt f) (@nil (stmt T))) at 1.
    rewrite decompose_loop_relabel; [now rewrite H|exact Hinj|].
    intros o g gi _. apply run_replacer_commutes.
  Qed.
End LoopRelabel.

Print Assumptions decompose_commutes_with_relabel.
Print Assumptions replace_commutes_with_relabel.

(* ------------------------------------------------------------------ *)
(** * 4. The single-qubit merger commutes with compression of the register *)
(* ------------------------------------------------------------------ *)
(* [merge N n ir] depends on the register size [n] only through which
   accumulators exist and through the ORDER of the final flush.  Hence for an
   order-preserving injection f of [0,n) into [0,n') the run on n' qubits of
   the relabelled circuit is the relabelled run on n qubits: the accumulators
   of the qubits outside the image of f stay the identity and are never emitted. *)
Section MergeRelabel.
  Context {T : Type} (N : Num T).
  Notation pairT := (gate T * ginfo T)%type.
  Notation accsT := (list (gate T * ginfo T)).
  Variable f : Z -> Z.
  Notation rl := (relabel_pair f).
  Notation rs := (remap_stmt f).

  Definition fn (i : nat) : nat := Z.to_nat (f (Z.of_nat i)).
  Definition mono_upto (m : nat) : Prop := forall p q, (p < q < m)%nat -> (fn p < fn q)%nat.

  (* [emb k j a a']: the accumulator list a' (for qubits j, j+1, ...) is the list a
     (for qubits k, k+1, ...) relabelled and spread out along f, the holes being identities *)
  Inductive emb : nat -> nat -> accsT -> accsT -> Prop :=
  | emb_nil k j : emb k j [] []
  | emb_skip k j y a a' :
      is_identity N (fst y) = true -> (a <> [] -> (j < fn k)%nat) ->
      emb k (S j) a a' -> emb k j a (y :: a')
  | emb_take k j x a a' :
      fn k = j -> emb (S k) (S j) a a' -> emb k j (x :: a) (rl x :: a').

  Lemma emb_get k j a a' :
    emb k j a a' -> mono_upto (k + List.length a) ->
    forall i, (i < List.length a)%nat ->
      (j <= fn (k + i))%nat /\ nth_error a' (fn (k + i) - j) = option_map rl (nth_error a i).
  Proof.
    induction 1 as [k j|k j y a a' Hid Hlt He IH|k j x a a' Hk He IH]; intros Hm i Hi.
    - cbn in Hi; lia.
    - destruct (IH Hm i Hi) as [Hle Hn]. split; [lia|].
      replace (fn (k + i) - j)%nat with (S (fn (k + i) - S j)) by lia. exact Hn.
    - cbn [List.length] in *. destruct i as [|i].
      + rewrite Nat.add_0_r, Hk, Nat.sub_diag. split; [lia|reflexivity].
      + assert (Hm' : mono_upto (S k + List.length a)) by (intros p q Hpq; apply Hm; lia).
        destruct (IH Hm' i ltac:(lia)) as [Hle Hn].
        replace (k + S i)%nat with (S k + i)%nat by lia. split; [lia|].
        replace (fn (S k + i) - j)%nat with (S (fn (S k + i) - S j)) by lia. exact Hn.
  Qed.

  Lemma emb_set k j a a' :
    emb k j a a' -> mono_upto (k + List.length a) ->
    forall i y, (i < List.length a)%nat ->
      emb k j (acc_set a i y) (acc_set a' (fn (k + i) - j) (rl y)).
  Proof.
    induction 1 as [k j|k j y a a' Hid Hlt He IH|k j x a a' Hk He IH]; intros Hm i y0 Hi.
    - cbn in Hi; lia.
    - destruct (emb_get _ _ _ _ He Hm i Hi) as [Hle _].
      replace (fn (k + i) - j)%nat with (S (fn (k + i) - S j)) by lia.
      cbn [acc_set]. apply emb_skip; [exact Hid| |apply IH; assumption].
      intros _. apply Hlt. destruct a; [cbn in Hi; lia|discriminate].
    - cbn [List.length] in *. destruct i as [|i].
      + rewrite Nat.add_0_r, Hk, Nat.sub_diag. cbn [acc_set]. apply emb_take; assumption.
      + assert (Hm' : mono_upto (S k + List.length a)) by (intros p q Hpq; apply Hm; lia).
        destruct (emb_get _ _ _ _ He Hm' i ltac:(lia)) as [Hle _].
        replace (k + S i)%nat with (S k + i)%nat by lia.
        replace (fn (S k + i) - j)%nat with (S (fn (S k + i) - S j)) by lia.
        cbn [acc_set]. apply emb_take; [exact Hk|]. apply IH; [exact Hm'|lia].
  Qed.

  (* final flush: holes contribute nothing, the order is that of f *)
  Lemma try_name_in_map names q ax an ph :
    try_name_in N names (f q) ax an ph = option_map rl (try_name_in N names q ax an ph).
  Proof.
    induction names as [|nm names IH]; [reflexivity|]. cbn [try_name_in].
    change [AQ (f q)] with (map (map_arg f) [@AQ T q]).
    rewrite default_gate_relabel by (apply inj_on_single).
    destruct (default_gate N nm [AQ q]) as [[g gi]|e]; cbn [map_result relabel_pair fst snd]; [|exact IH].
    destruct g as [q' gax gang gph|c g|m ops]; cbn [map_gate_qubits]; try exact IH.
    destruct (close_axis N gax ax && close_r N gang an && close_r N gph ph); [reflexivity|exact IH].
  Qed.

  Lemma try_name_map (x : pairT) : try_name N (rl x) = rl (try_name N x).
  Proof.
    destruct x as [[q ax an ph|c g|m ops] gi]; try reflexivity.
    unfold try_name. cbn [relabel_pair fst snd map_gate_qubits]. rewrite try_name_in_map.
    destruct (try_name_in N hand_noparam q ax an ph); reflexivity.
  Qed.

  Lemma fname_map (x : pairT) : fname N (rl x) = rl (fname N x).
  Proof.
    unfold fname. cbn [relabel_pair snd]. rewrite is_anonymous_map.
    destruct (is_anonymous (snd x)); [apply try_name_map|reflexivity].
  Qed.

  Lemma final_list_relabel k j a a' :
    emb k j a a' -> forall next, final_list N a' next = map rs (final_list N a next).
  Proof.
    induction 1 as [k j|k j y a a' Hid Hlt He IH|k j x a a' Hk He IH]; intros next; cbn [final_list].
    - reflexivity.
    - rewrite Hid. apply IH.
    - change (fst (rl x)) with (map_gate_qubits f (fst x)). rewrite is_identity_map.
      destruct (is_identity N (fst x)); [apply IH|].
      rewrite fname_map. cbn [map remap_stmt relabel_pair fst snd]. f_equal. apply IH.
  Qed.

  (** ** the run, for [m] accumulators on which f is increasing and non-negative *)
  Variable m : nat.
  Hypothesis Hf0 : forall i, (i < m)%nat -> (0 <= f (Z.of_nat i))%Z.
  Hypothesis Hmono : mono_upto m.

  Lemma fn_spec q : (0 <= q < Z.of_nat m)%Z -> (0 <= f q)%Z /\ Z.to_nat (f q) = fn (Z.to_nat q).
  Proof.
    intros Hq. unfold fn. rewrite Z2Nat.id by lia. split; [|reflexivity].
    specialize (Hf0 (Z.to_nat q)). rewrite Z2Nat.id in Hf0 by lia. apply Hf0. lia.
  Qed.

  Lemma emb_acc_get a a' q x :
    emb 0 0 a a' -> List.length a = m -> acc_get a q = Some x -> acc_get a' (f q) = Some (rl x).
  Proof.
    intros He Hl A. pose proof (acc_get_some _ _ _ A) as Hr. rewrite Hl in Hr.
    destruct (fn_spec q Hr) as [H0 Hfn].
    unfold acc_get in *. destruct (Z.ltb_spec q 0) as [|_]; [lia|].
    destruct (Z.ltb_spec (f q) 0) as [|_]; [lia|].
    assert (Hm : mono_upto (0 + List.length a)) by (rewrite Hl; exact Hmono).
    destruct (emb_get _ _ _ _ He Hm (Z.to_nat q) ltac:(lia)) as [_ Hn].
    cbn [Nat.add] in Hn. rewrite Nat.sub_0_r in Hn. rewrite Hfn, Hn, A. reflexivity.
  Qed.

  Lemma emb_acc_set a a' q y :
    emb 0 0 a a' -> List.length a = m -> (0 <= q < Z.of_nat m)%Z ->
    emb 0 0 (acc_set a (Z.to_nat q) y) (acc_set a' (Z.to_nat (f q)) (rl y)).
  Proof.
    intros He Hl Hr. destruct (fn_spec q Hr) as [H0 Hfn].
    assert (Hm : mono_upto (0 + List.length a)) by (rewrite Hl; exact Hmono).
    pose proof (emb_set _ _ _ _ He Hm (Z.to_nat q) y ltac:(lia)) as H.
    cbn [Nat.add] in H. rewrite Nat.sub_0_r in H. now rewrite Hfn.
  Qed.

  Lemma is_barrier_remap (s : stmt T) : is_barrier (rs s) = is_barrier s.
  Proof. destruct s as [o [q ax a p|c g|mm ops] gi|o q b ax gi|o q gi|t]; reflexivity. Qed.

  Lemma flush_relabel qs : forall a a' next out a1 next1 out1,
    emb 0 0 a a' -> List.length a = m ->
    flush N a next qs out = Ok (a1, next1, out1) ->
    exists a1', flush N a' next (map f qs) (map rs out) = Ok (a1', next1, map rs out1) /\
                emb 0 0 a1 a1' /\ List.length a1 = m.
  Proof.
    induction qs as [|q qs IH]; intros a a' next out a1 next1 out1 He Hl H; cbn [flush map] in *.
    - apply Ok_inj in H. inversion H; subst. exists a'. repeat split; assumption.
    - destruct (acc_get a q) as [x|] eqn:A; [|discriminate].
      pose proof (acc_get_some _ _ _ A) as Hr. rewrite Hl in Hr.
      rewrite (emb_acc_get _ _ _ _ He Hl A).
      change (fst (rl x)) with (map_gate_qubits f (fst x)). rewrite is_identity_map.
      destruct (is_identity N (fst x)).
      + eapply IH; eassumption.
      + rewrite ident_map.
        change (SGate next (map_gate_qubits f (fst x)) (snd (rl x)) :: map rs out)
          with (map rs (SGate next (fst x) (snd x) :: out)).
        eapply IH; [apply emb_acc_set; eassumption|now rewrite acc_set_length|exact H].
  Qed.

  Lemma merge_loop_relabel ir : forall a a' next out a1 next1 out1,
    emb 0 0 a a' -> List.length a = m ->
    merge_loop N a next ir out = Ok (a1, next1, out1) ->
    exists a1', merge_loop N a' next (map rs ir) (map rs out) = Ok (a1', next1, map rs out1) /\
                emb 0 0 a1 a1' /\ List.length a1 = m.
  Proof.
    induction ir as [|s rest IH]; intros a a' next out a1 next1 out1 He Hl H.
    - cbn [merge_loop map] in *. apply Ok_inj in H. inversion H; subst. exists a'. repeat split; assumption.
    - destruct (stmt_cases s) as [(t & ->)|[(o & q & ax & an & ph & gi & ->)|Hb]].
      + cbn [map remap_stmt]. rewrite merge_loop_comment in *.
        change (SComment t :: map rs out) with (map rs (@SComment T t :: out)).
        eapply IH; eassumption.
      + cbn [map remap_stmt map_gate_qubits]. rewrite merge_loop_rot in *.
        destruct (acc_get a q) as [x|] eqn:A; [|discriminate].
        pose proof (acc_get_some _ _ _ A) as Hr. rewrite Hl in Hr.
        rewrite (emb_acc_get _ _ _ _ He Hl A).
        destruct (compose_gates N (BSR q ax an ph, gi) x) as [y|e] eqn:C; [|discriminate].
        apply (compose_gates_map_ok N f) in C.
        change (rl (BSR q ax an ph, gi)) with (BSR (f q) ax an ph, map_ginfo f gi) in C. rewrite C.
        eapply IH; [apply emb_acc_set; eassumption|now rewrite acc_set_length|exact H].
      + cbn [map]. rewrite merge_loop_barrier in H by exact Hb.
        rewrite merge_loop_barrier by (now rewrite is_barrier_remap).
        rewrite stmt_qubits_remap.
        destruct (flush N a next (stmt_qubits s) out) as [[[a2 nx2] out2]|e] eqn:F; [|discriminate].
        destruct (flush_relabel _ _ _ _ _ _ _ _ He Hl F) as (a2' & F' & He2 & Hl2). rewrite F'.
        change (rs s :: map rs out2) with (map rs (s :: out2)).
        eapply IH; eassumption.
  Qed.

  (* the initial accumulators *)
  Hypothesis Hid0 : forall q, is_identity N (fst (ident N q)) = true.

  Lemma emb_init : forall m' k j mm,
    (k + mm <= m)%nat ->
    (mm > 0 -> j <= fn k /\ fn (k + mm - 1) < j + m')%nat ->
    emb k j (map (fun i => ident N (Z.of_nat i)) (seq k mm))
            (map (fun i => ident N (Z.of_nat i)) (seq j m')).
  Proof.
    induction m' as [|m' IH]; intros k j mm Hk Hc.
    - destruct mm as [|mm]; [apply emb_nil|]. exfalso.
      destruct (Hc ltac:(lia)) as [H1 H2].
      destruct mm as [|mm]; [replace (k + 1 - 1)%nat with k in H2 by lia; lia|].
      pose proof (Hmono k (k + S (S mm) - 1)%nat ltac:(lia)). lia.
    - cbn [seq map]. destruct mm as [|mm].
      + cbn [seq map]. apply emb_skip; [apply Hid0|intros H; now destruct H|].
        apply (IH k (S j) 0%nat); [lia|intros; lia].
      + destruct (Hc ltac:(lia)) as [H1 H2]. cbn [seq map].
        destruct (Nat.eq_dec (fn k) j) as [E|E].
        * assert (Ej : ident N (Z.of_nat j) = rl (ident N (Z.of_nat k))).
          { rewrite <- ident_map. f_equal. rewrite <- E. unfold fn. rewrite Z2Nat.id; [reflexivity|].
            apply Hf0. lia. }
          rewrite Ej. apply emb_take; [exact E|].
          apply IH; [lia|]. intros Hmm. split.
          -- pose proof (Hmono k (S k) ltac:(lia)). lia.
          -- replace (S k + mm - 1)%nat with (k + S mm - 1)%nat by lia. lia.
        * apply emb_skip; [apply Hid0|intros _; lia|].
          apply (IH k (S j) (S mm)); [lia|]. intros _. split; lia.
  Qed.
End MergeRelabel.

Section MergeCompression.
  Context {T : Type} (N : Num T).

  Theorem merge_commutes_with_compression (f : Z -> Z) (n n' : Z) (ir ir' : list (stmt T)) :
    (forall q, is_identity N (fst (ident N q)) = true) ->
    (forall q, 0 <= q < n -> 0 <= f q < n')%Z ->
    (forall p q, 0 <= p < q -> q < n -> f p < f q)%Z ->
    merge N n ir = Ok ir' ->
    merge N n' (map (remap_stmt f) ir) = Ok (map (remap_stmt f) ir').
  Proof.
    intros Hid Hrange Hinc H.
    apply merge_unfold in H. destruct H as (a & next & out & Hloop & ->).
    set (m := Z.to_nat n).
    assert (Hf0 : forall i, (i < m)%nat -> (0 <= f (Z.of_nat i))%Z).
    { intros i Hi. apply Hrange. lia. }
    assert (Hmono : mono_upto f m).
    { intros p q Hpq. unfold fn.
      pose proof (Hinc (Z.of_nat p) (Z.of_nat q) ltac:(lia) ltac:(lia)).
      pose proof (Hf0 p ltac:(lia)). lia. }
    assert (He : emb N f 0 0 (acc0 N n) (acc0 N n')).
    { unfold acc0. apply (emb_init N f m Hf0 Hmono Hid); [fold m; lia|].
      fold m. intros Hm. split; [lia|]. unfold fn.
      pose proof (Hrange (Z.of_nat (0 + m - 1)) ltac:(lia)). lia. }
    destruct (merge_loop_relabel N f m Hf0 Hmono ir _ _ _ [] _ _ _ He (acc0_length N n) Hloop)
      as (a1' & Hloop' & He1 & _).
    unfold merge. rewrite max_oid_remap.
    change (map (fun i => ident N (Z.of_nat i)) (seq 0 (Z.to_nat n'))) with (acc0 N n').
    cbn [map] in Hloop'. rewrite Hloop'.
    rewrite final_flush_list, (final_list_relabel N f _ _ _ _ He1).
    f_equal. rewrite rev_app_distr, rev_involutive, map_app, map_rev. reflexivity.
  Qed.
End MergeCompression.

Print Assumptions merge_commutes_with_compression.

(* ------------------------------------------------------------------ *)
(** * 4bis. Reading of 1-4 as "cost follows the circuit" (C19)           *)
(* ------------------------------------------------------------------ *)
Section Compression.
  Context {T : Type} (N : Num T).
  Implicit Types (ir : list (stmt T)) (f g : Z -> Z).

  Lemma remap_roundtrip f g ir :
    (forall q, In q (ir_qubits ir) -> f (g q) = q) ->
    map (remap_stmt f) (map (remap_stmt g) ir) = ir.
  Proof.
    intros H. rewrite map_map. rewrite <- (map_id ir) at 2. apply map_ext_in.
    intros s Hs. rewrite remap_stmt_comp. apply remap_stmt_fix.
    intros q Hq. apply H. unfold ir_qubits. apply in_flat_map. exists s. now split.
  Qed.

  Lemma ir_qubits_remap g ir : ir_qubits (map (remap_stmt g) ir) = map g (ir_qubits ir).
  Proof.
    unfold ir_qubits. induction ir as [|s ir' IH]; [reflexivity|].
    cbn [map flat_map]. rewrite map_app, stmt_all_qubits_remap. f_equal. apply IH.
  Qed.

  Lemma inj_on_left_inverse f g ir :
    (forall q, In q (ir_qubits ir) -> f (g q) = q) -> inj_on f (ir_qubits (map (remap_stmt g) ir)).
  Proof.
    intros Hfg. rewrite ir_qubits_remap. intros x y Hx Hy Hxy.
    apply in_map_iff in Hx. apply in_map_iff in Hy.
    destruct Hx as (x0 & <- & Hx0). destruct Hy as (y0 & <- & Hy0).
    rewrite !Hfg in Hxy by assumption. now subst.
  Qed.

  (* The size of the register is irrelevant to the merger: on a larger register the
     very same statements come out (same objects, same order). *)
  Corollary merge_register_size_irrelevant (n n' : Z) ir ir' :
    (forall q, is_identity N (fst (ident N q)) = true) ->
    (n <= n')%Z -> merge N n ir = Ok ir' -> merge N n' ir = Ok ir'.
  Proof.
    intros Hid Hle H.
    assert (H1 : forall q, (0 <= q < n -> 0 <= (fun q => q) q < n')%Z) by (cbv beta; intros; lia).
    assert (H2 : forall p q, (0 <= p < q -> q < n -> (fun q => q) p < (fun q => q) q)%Z) by (cbv beta; intros; lia).
    pose proof (merge_commutes_with_compression N (fun q => q) n n' ir ir' Hid H1 H2 H) as H'.
    rewrite !(map_ext _ (fun s => s) (@remap_stmt_id T)), !map_id in H'. exact H'.
  Qed.

  (* compile on the big register = decompress (compile the compressed circuit on the small one):
     [g] compresses the used indices, [f] is its increasing inverse *)
  Corollary merge_via_compressed f g (n n' : Z) ir small' :
    (forall q, is_identity N (fst (ident N q)) = true) ->
    (forall q, 0 <= q < n -> 0 <= f q < n')%Z ->
    (forall p q, 0 <= p < q -> q < n -> f p < f q)%Z ->
    (forall q, In q (ir_qubits ir) -> f (g q) = q) ->
    merge N n (map (remap_stmt g) ir) = Ok small' ->
    merge N n' ir = Ok (map (remap_stmt f) small').
  Proof.
    intros Hid Hr Hinc Hfg H.
    pose proof (merge_commutes_with_compression N f n n' _ _ Hid Hr Hinc H) as H'.
    now rewrite remap_roundtrip in H'.
  Qed.

  Corollary decompose_via_compressed f g d ir e small' :
    (forall q, In q (ir_qubits ir) -> f (g q) = q) ->
    decompose N d (map (remap_stmt g) ir) = (e, small') ->
    decompose N d ir = (e, map (remap_stmt f) small').
  Proof.
    intros Hfg H.
    pose proof (inj_on_left_inverse f g ir Hfg) as Hinj.
    pose proof (decompose_commutes_with_relabel N f d _ _ _ Hinj H) as H'.
    now rewrite remap_roundtrip in H'.
  Qed.

  Corollary replace_via_compressed f g target r ir e small' :
    (forall q, In q (ir_qubits ir) -> f (g q) = q) ->
    replace N target r (map (remap_stmt g) ir) = (e, small') ->
    replace N target r ir = (e, map (remap_stmt f) small').
  Proof.
    intros Hfg H.
    pose proof (inj_on_left_inverse f g ir Hfg) as Hinj.
    pose proof (replace_commutes_with_relabel N f target r _ _ _ Hinj H) as H'.
    now rewrite remap_roundtrip in H'.
  Qed.
End Compression.

Print Assumptions merge_register_size_irrelevant.
Print Assumptions merge_via_compressed.
Print Assumptions decompose_via_compressed.

(* ------------------------------------------------------------------ *)
(** * 5. No hidden dependence (C17)                                      *)
(* ------------------------------------------------------------------ *)
Section NoHiddenState.
  Context {T : Type} (N : Num T).
  Notation decomposer := (gate T -> ginfo T -> result (list (ditem T))).
  Implicit Types (ir : list (stmt T)).

  (** ** (a) the passes are functions of their arguments; object identities do not matter *)

  (* a statement with its object identity erased *)
  Definition stmt_payload (s : stmt T) : stmt T :=
    match s with
    | SGate _ g gi => SGate 1%positive g gi
    | SMeasure _ q b ax gi => SMeasure 1%positive q b ax gi
    | SReset _ q gi => SReset 1%positive q gi
    | SComment t => SComment t
    end.

  Definition rename_oid (h : positive -> positive) (s : stmt T) : stmt T :=
    match s with
    | SGate o g gi => SGate (h o) g gi
    | SMeasure o q b ax gi => SMeasure (h o) q b ax gi
    | SReset o q gi => SReset (h o) q gi
    | SComment t => SComment t
    end.

  Lemma payload_rename h ir : map stmt_payload (map (rename_oid h) ir) = map stmt_payload ir.
  Proof. rewrite map_map. apply map_ext. intros [o g gi|o q b ax gi|o q gi|t]; reflexivity. Qed.

  Lemma materialise_payload o1 o2 (g : gate T) gi next1 next2 items :
    map stmt_payload (materialise o1 g gi next1 items) = map stmt_payload (materialise o2 g gi next2 items).
  Proof. unfold materialise. rewrite !map_map. apply map_ext. intros [|k g' gi']; reflexivity. Qed.

  Lemma decompose_loop_payload (dec : decomposer) : forall todo1 todo2 next1 next2 done1 done2,
    map stmt_payload todo1 = map stmt_payload todo2 ->
    map stmt_payload done1 = map stmt_payload done2 ->
    fst (decompose_loop N dec next1 done1 todo1) = fst (decompose_loop N dec next2 done2 todo2) /\
    map stmt_payload (snd (decompose_loop N dec next1 done1 todo1)) =
    map stmt_payload (snd (decompose_loop N dec next2 done2 todo2)).
  Proof.
    induction todo1 as [|s1 rest1 IH]; intros [|s2 rest2] next1 next2 done1 done2 Ht Hd;
      cbn [map] in Ht; try discriminate.
    - cbn [decompose_loop fst snd]. split; [reflexivity|]. now rewrite !map_rev, Hd.
    - inversion Ht as [[Hs Hr]].
      assert (Hfail : forall e : err,
        fst (Some e, (List.rev done1 ++ s1 :: rest1)%list) = fst (Some e, (List.rev done2 ++ s2 :: rest2)%list) /\
        map stmt_payload (snd (Some e, (List.rev done1 ++ s1 :: rest1)%list)) =
        map stmt_payload (snd (Some e, (List.rev done2 ++ s2 :: rest2)%list))).
      { intros e. cbn [fst snd]. split; [reflexivity|].
        rewrite !map_app, !map_rev, Hd. cbn [map]. now rewrite Hs, Hr. }
      destruct s1 as [o1 g1 gi1|o1 q1 b1 ax1 gi1|o1 q1 gi1|t1];
        destruct s2 as [o2 g2 gi2|o2 q2 b2 ax2 gi2|o2 q2 gi2|t2]; cbn [stmt_payload] in Hs; try discriminate.
      + inversion Hs; subst g2 gi2. cbn [decompose_loop].
        destruct (dec g1 gi1) as [items|e]; [|apply Hfail].
        destruct (check_replacement N g1 (map (item_gate g1) items)) as [u|e]; [|apply Hfail].
        apply IH; [exact Hr|].
        rewrite !map_app, !map_rev, Hd. f_equal. f_equal. apply materialise_payload.
      + cbn [decompose_loop]. apply IH; [exact Hr|]. cbn [map stmt_payload]. now rewrite Hs, Hd.
      + cbn [decompose_loop]. apply IH; [exact Hr|]. cbn [map stmt_payload]. now rewrite Hs, Hd.
      + cbn [decompose_loop]. apply IH; [exact Hr|]. cbn [map stmt_payload]. now rewrite Hs, Hd.
  Qed.

  (* two circuits that differ only in the object identities of their statements are
     decomposed with the same outcome into circuits that differ only in object identities *)
  Theorem decompose_oid_irrelevant d ir1 ir2 :
    map stmt_payload ir1 = map stmt_payload ir2 ->
    fst (decompose N d ir1) = fst (decompose N d ir2) /\
    map stmt_payload (snd (decompose N d ir1)) = map stmt_payload (snd (decompose N d ir2)).
  Proof. intros H. unfold decompose. now apply decompose_loop_payload. Qed.

  Corollary decompose_oid_renaming d (h : positive -> positive) ir :
    fst (decompose N d (map (rename_oid h) ir)) = fst (decompose N d ir) /\
    map stmt_payload (snd (decompose N d (map (rename_oid h) ir))) =
    map stmt_payload (snd (decompose N d ir)).
  Proof. apply decompose_oid_irrelevant, payload_rename. Qed.

  Theorem replace_oid_irrelevant target r ir1 ir2 :
    map stmt_payload ir1 = map stmt_payload ir2 ->
    fst (replace N target r ir1) = fst (replace N target r ir2) /\
    map stmt_payload (snd (replace N target r ir1)) = map stmt_payload (snd (replace N target r ir2)).
  Proof. intros H. unfold replace. now apply decompose_loop_payload. Qed.

  (* the old statements keep their (renamed) identity: the statements of the output
     that are not new are exactly input statements *)
  Theorem decompose_old_objects_kept d ir r out :
    decompose N d ir = (r, out) ->
    Forall (fun s => In s ir \/ exists o g gi, s = SGate o g gi /\ (max_oid ir < o)%positive) out.
  Proof.
    intros H. apply decompose_fresh_oids in H. eapply Forall_impl; [|exact H].
    intros s [Hs|(o & g & gi & -> & Hlt & _)]; [now left|right; eauto].
  Qed.

  (* remap does not look at object identities at all *)
  Theorem remap_oid_irrelevant (h : positive -> positive) nq (l : list Z) ir :
    remap nq l (map (rename_oid h) ir) = map_result (map (rename_oid h)) (remap nq l ir).
  Proof.
    unfold remap. destruct (Z.ltb nq (Z.of_nat (List.length l))); [reflexivity|].
    assert (E : forallb (fun s => forallb (covered l) (stmt_all_qubits s)) (map (rename_oid h) ir) =
                forallb (fun s => forallb (covered l) (stmt_all_qubits s)) ir).
    { induction ir as [|s ir' IH]; [reflexivity|]. cbn [map forallb]. rewrite IH. f_equal.
      destruct s; reflexivity. }
    rewrite E. destruct (negb _); [reflexivity|]. cbn [map_result]. f_equal.
    rewrite !map_map. apply map_ext. intros [o g gi|o q b ax gi|o q gi|t]; reflexivity.
  Qed.

  (* the passes are functions: equal arguments, equal results (there is no other input) *)
  Lemma passes_are_functions d target r n nq (l : list Z) ir1 ir2 :
    ir1 = ir2 ->
    decompose N d ir1 = decompose N d ir2 /\ replace N target r ir1 = replace N target r ir2 /\
    merge N n ir1 = merge N n ir2 /\ remap nq l ir1 = remap nq l ir2.
  Proof. intros ->. repeat split. Qed.

  (** ** (c) no pass takes the default table as mutable state *)
  (* Every function of the model that consults the instruction table does so through
     [default_gate N], a closed Gallina function of (N, name, arguments): its value
     cannot be changed by running a pass in between. *)
  Lemma passes_do_not_touch_tables {X} (pass : list (stmt T) -> X) ir name (args : list (arg T)) :
    let before := default_gate N name args in
    let result := pass ir in
    let after := default_gate N name args in
    before = after.
  Proof. reflexivity. Qed.
End NoHiddenState.

Print Assumptions decompose_oid_irrelevant.
Print Assumptions replace_oid_irrelevant.
Print Assumptions remap_oid_irrelevant.

Section MergeOid.
  Context {T : Type} (N : Num T).
  Notation accsT := (list (gate T * ginfo T)).
  Notation pl := (@stmt_payload T).

  Definition res_payload_eq (r1 r2 : result (accsT * positive * list (stmt T))) : Prop :=
    match r1, r2 with
    | Ok (a1, _, o1), Ok (a2, _, o2) => a1 = a2 /\ map pl o1 = map pl o2
    | Err e1, Err e2 => e1 = e2
    | _, _ => False
    end.

  Lemma flush_payload qs : forall (a : accsT) next1 next2 out1 out2,
    map pl out1 = map pl out2 ->
    res_payload_eq (flush N a next1 qs out1) (flush N a next2 qs out2).
  Proof.
    induction qs as [|q qs IH]; intros a next1 next2 out1 out2 H; cbn [flush].
    - cbn. now split.
    - destruct (acc_get a q) as [x|]; [|reflexivity].
      destruct (is_identity N (fst x)); apply IH; [exact H|].
      cbn [map stmt_payload]. now rewrite H.
  Qed.

  Lemma merge_loop_payload : forall ir1 ir2 (a : accsT) next1 next2 out1 out2,
    map pl ir1 = map pl ir2 -> map pl out1 = map pl out2 ->
    res_payload_eq (merge_loop N a next1 ir1 out1) (merge_loop N a next2 ir2 out2).
  Proof.
    induction ir1 as [|s1 rest1 IH]; intros [|s2 rest2] a next1 next2 out1 out2 Hi Ho;
      cbn [map] in Hi; try discriminate.
    - cbn. now split.
    - inversion Hi as [[Hs Hr]].
      assert (Hbar : forall qs s1' s2', pl s1' = pl s2' ->
                res_payload_eq
                  (match flush N a next1 qs out1 with
                   | Err e => Err e
                   | Ok (a', next', out') => merge_loop N a' next' rest1 (s1' :: out')
                   end)
                  (match flush N a next2 qs out2 with
                   | Err e => Err e
                   | Ok (a', next', out') => merge_loop N a' next' rest2 (s2' :: out')
                   end)).
      { intros qs s1' s2' Hs'. pose proof (flush_payload qs a next1 next2 out1 out2 Ho) as F.
        destruct (flush N a next1 qs out1) as [[[a1 n1] o1]|e1];
          destruct (flush N a next2 qs out2) as [[[a2 n2] o2]|e2]; cbn in F; try contradiction.
        - destruct F as [-> F]. apply IH; [exact Hr|]. cbn [map]. now rewrite Hs', F.
        - subst e2. reflexivity. }
      destruct s1 as [o1 g1 gi1|o1 q1 b1 ax1 gi1|o1 q1 gi1|t1];
        destruct s2 as [o2 g2 gi2|o2 q2 b2 ax2 gi2|o2 q2 gi2|t2]; cbn [stmt_payload] in Hs; try discriminate.
      + inversion Hs; subst g2 gi2.
        destruct g1 as [q ax an ph|c g|m ops]; cbn [merge_loop stmt_qubits].
        * destruct (acc_get a q) as [x|]; [|reflexivity].
          destruct (compose_gates N (BSR q ax an ph, gi1) x) as [y|e]; [|reflexivity].
          apply IH; assumption.
        * apply Hbar. reflexivity.
        * apply Hbar. reflexivity.
      + inversion Hs; subst. cbn [merge_loop stmt_qubits]. apply Hbar. reflexivity.
      + inversion Hs; subst. cbn [merge_loop stmt_qubits]. apply Hbar. reflexivity.
      + inversion Hs; subst. cbn [merge_loop]. apply IH; [exact Hr|]. cbn [map]. now rewrite Ho.
  Qed.

  Lemma final_flush_payload (a : accsT) : forall next1 next2 out1 out2,
    map pl out1 = map pl out2 ->
    map pl (final_flush N a next1 out1) = map pl (final_flush N a next2 out2).
  Proof.
    induction a as [|x a IH]; intros next1 next2 out1 out2 H; cbn [final_flush]; [exact H|].
    destruct (is_identity N (fst x)); apply IH; [exact H|].
    cbn [map stmt_payload]. now rewrite H.
  Qed.

  (* the merger's result does not depend on the object identities of the input either *)
  Theorem merge_oid_irrelevant n (ir1 ir2 : list (stmt T)) :
    map pl ir1 = map pl ir2 ->
    map_result (map pl) (merge N n ir1) = map_result (map pl) (merge N n ir2).
  Proof.
    intros H. unfold merge.
    pose proof (merge_loop_payload ir1 ir2
                  (map (fun i => ident N (Z.of_nat i)) (seq 0 (Z.to_nat n)))
                  (Pos.succ (max_oid ir1)) (Pos.succ (max_oid ir2)) [] [] H eq_refl) as F.
    destruct (merge_loop N _ (Pos.succ (max_oid ir1)) ir1 []) as [[[a1 n1] o1]|e1];
      destruct (merge_loop N _ (Pos.succ (max_oid ir2)) ir2 []) as [[[a2 n2] o2]|e2];
      cbn in F; try contradiction.
    - destruct F as [-> F]. cbn [map_result]. f_equal. rewrite !map_rev. f_equal.
      now apply final_flush_payload.
    - now subst e2.
  Qed.
End MergeOid.

Print Assumptions merge_oid_irrelevant.

(* ------------------------------------------------------------------ *)
(** * 6. The hypotheses above are needed                                 *)
(* ------------------------------------------------------------------ *)

(* Without [is_identity (ident q) = true] the merger DOES depend on the register size:
   for a dictionary in which nothing is ever "close to zero", every accumulator of an
   untouched qubit is flushed at the end. (At RNum and in floats the hypothesis holds.) *)
Theorem merge_register_size_irrelevant_refuted_without_hypothesis :
  exists (T : Type) (N : Num T) (n n' : Z) (ir ir' : list (stmt T)),
    (n <= n')%Z /\ merge N n ir = Ok ir' /\ merge N n' ir <> Ok ir'.
Proof.
  exists unit, (unitNum false), 0%Z, 1%Z, [], []. split; [lia|]. split; [reflexivity|].
  vm_compute. discriminate.
Qed.

(* Without injectivity the decomposition does not commute with relabelling: sending the
   control and the target of a controlled gate to the same index makes the CNOT
   decomposer raise ValueError (ControlledGate's operand check) where the original run
   fails differently (here: in the replacement check). *)
Theorem decompose_relabel_refuted_without_injectivity :
  exists (T : Type) (N : Num T) (f : Z -> Z) d (ir : list (stmt T)),
    fst (decompose N d (map (remap_stmt f) ir)) <> fst (decompose N d ir).
Proof.
  exists unit, (unitNum false), (fun _ => 0%Z), DecCNOT,
    [SGate 1%positive (Ctrl 0%Z (BSR 1%Z (tt, tt, tt) tt tt)) anon].
  vm_compute. discriminate.
Qed.

Print Assumptions merge_register_size_irrelevant_refuted_without_hypothesis.
Print Assumptions decompose_relabel_refuted_without_injectivity.
