(* SemP.v — the decomposition passes preserve the operation of a circuit, in the Kraus-operator semantics of
   Theory/Kraus.v (gates, measurements, resets, comments; every assignment of outcomes).

   A. [decompose_loop_same_operation_any]: for ANY decomposer function, if every accepted proposal for a gate of
      the circuit has, on the register, the matrix of the gate up to a global phase (hypothesis [Hdec]), then the
      statement list the loop leaves behind - finished or raised half-way - does the same operation as the
      input. Corollaries for a finished loop, [decompose] and [replace].
   B. what acceptance by the checker gives on the register:
      [check_exact_lifts]  an exact proportionality of the two matrices the checker compared (the gate's own
                           qubits) is the same proportionality on every register containing those qubits;
      [check_sound_lifts]  what acceptance means in general: entrywise closeness within np.allclose's
                           tolerance for ONE factor, on the whole register;
      [check_exact_Hdec]   [Hdec] from exactness on the gate's own qubits, for gates with normalised angles;
      [bsr_product_lifts]  a product of rotations on one qubit is the embedded product.
   C. [aba_decompose_circuit_same_operation]: the A-B-A decomposers on any statement list.
   D. [replace_cnot_to_hczh_same_operation], [replace_cz_to_hcnoth_same_operation]: the generic replacer with
      the rules CNOT -> H CZ H and CZ -> H CNOT H, on any statement list and any register.
   E. [check_exact_Hdec_needs_normalised]: the checker looks at the gate with re-normalised angles; without
      [normalised g] B.3 is false (a controlled full turn against the empty replacement).
   Everything is at RNum. *)
From Coq Require Import Reals ZArith NArith List Bool Lia Lra Arith.
Import ListNotations.
From OSQ Require Import Num IR Bits Construct DefaultTable Matrix Check ABA Decompose RTrig RNum SU2 Kraus.
From OSQ Require Import ConstructP MatrixP CheckP EmbedP DecomposeP DefaultP ABAP CNOTP SemBaseP.
From Coq Require String.
Close Scope string_scope.
Close Scope N_scope.
Close Scope R_scope.
Open Scope nat_scope.

(* ================================================================== *)
(* A. the loop                                                         *)

(* object identities and generator names do not enter the circuit matrix *)
Lemma circuit_matrix_from_materialise n o (g : gate R) gi next items : forall acc,
  circuit_matrix_from RNum n acc (materialise o g gi next items) =
  circuit_matrix_from RNum n acc (map (fun g' => SGate 1%positive g' anon) (map (item_gate g) items)).
Proof.
  unfold materialise. induction items as [|it items IH]; intros acc; [reflexivity|].
  destruct it as [|k g' gi']; cbn [map circuit_matrix_from item_gate].
  - destruct (get_matrix RNum n g); [apply IH|reflexivity].
  - destruct (get_matrix RNum n g'); [apply IH|reflexivity].
Qed.

Lemma circuit_matrix_materialise n o (g : gate R) gi next items :
  circuit_matrix RNum n (materialise o g gi next items) = gates_matrix RNum n (map (item_gate g) items).
Proof. apply circuit_matrix_from_materialise. Qed.

Lemma materialise_gate_stmts o (g : gate R) gi next items :
  forall s, In s (materialise o g gi next items) -> exists o' g' gi', s = SGate o' g' gi'.
Proof.
  unfold materialise. intros s Hs. apply in_map_iff in Hs. destruct Hs as [it [<- _]].
  destruct it as [|k g' gi']; eexists; eexists; eexists; reflexivity.
Qed.

(* a statement list with a gate that has no matrix on the register denotes nothing, whatever the outcomes *)
Lemma kraus_bad_gate n o pre oid g gi post e :
  get_matrix RNum n g = Err e -> forall A, kraus n o (pre ++ SGate oid g gi :: post) <> Ok A.
Proof.
  intros Hg A H. unfold kraus in H. rewrite kraus_from_app in H.
  destruct (kraus_from n o 0 (eye RNum (zpow2 n)) pre) as [P|e']; [|discriminate].
  cbn [kraus_from stmt_op] in H. rewrite Hg in H. discriminate.
Qed.

(* one step: an accepted proposal put in place of the gate *)
Lemma same_operation_step n pre post oid (g : gate R) gi next items :
  (forall A, get_matrix RNum n g = Ok A ->
             exists B, gates_matrix RNum n (map (item_gate g) items) = Ok B /\ mequiv B A) ->
  same_operation n (pre ++ SGate oid g gi :: post) (pre ++ materialise oid g gi next items ++ post).
Proof.
  intros H. destruct (get_matrix RNum n g) as [A|e] eqn:EA.
  - destruct (H A eq_refl) as [B [HB HBA]].
    apply (same_operation_replace n pre post oid g gi _ A B); auto.
    + apply materialise_gate_stmts.
    + now rewrite circuit_matrix_materialise.
  - split.
    + rewrite !effects_app. cbn [effects].
      rewrite (effects_gates _ (materialise_gate_stmts oid g gi next items)). reflexivity.
    + intros o A HA. exfalso. exact (kraus_bad_gate n o pre oid g gi post e EA A HA).
Qed.

Section Loop.
  Variable dec : gate R -> ginfo R -> result (list (ditem R)).
  Variable n : Z.

  (* whatever the outcome of the loop (finished, or raised at some gate leaving the list half rewritten), the
     statement list it leaves does the same operation as the one it started from. [Hdec] is only asked of the
     gates that are still to be visited. *)
  Theorem decompose_loop_same_operation_any : forall todo next done r out,
    (forall oid g gi items A,
        In (SGate oid g gi) todo ->
        dec g gi = Ok items -> check_replacement RNum g (map (item_gate g) items) = Ok tt ->
        get_matrix RNum n g = Ok A ->
        exists B, gates_matrix RNum n (map (item_gate g) items) = Ok B /\ mequiv B A) ->
    decompose_loop RNum dec next done todo = (r, out) ->
    same_operation n (rev done ++ todo) out.
  Proof.
    induction todo as [|s rest IH]; intros next done r out Hdec H.
    - cbn [decompose_loop] in H. injection H as _ <-. rewrite app_nil_r. apply same_operation_refl.
    - destruct s as [oid g gi|oid q b ax gi|oid q gi|t].
      + cbn [decompose_loop] in H.
        destruct (dec g gi) as [items|e] eqn:Ed.
        2:{ injection H as _ <-. apply same_operation_refl. }
        destruct (check_replacement RNum g (map (item_gate g) items)) as [u|e] eqn:Ec.
        2:{ injection H as _ <-. apply same_operation_refl. }
        destruct u.
        apply IH in H.
        2:{ intros oid' g' gi' items' A' Hin. apply (Hdec oid'). now right. }
        rewrite rev_app_distr, rev_involutive, <- app_assoc in H.
        apply (same_operation_trans n _ (rev done ++ materialise oid g gi next items ++ rest)); [|exact H].
        apply same_operation_step. intros A HA.
        apply (Hdec oid g gi items A (or_introl eq_refl) Ed Ec HA).
      + cbn [decompose_loop] in H. apply IH in H.
        * cbn [rev] in H. now rewrite <- app_assoc in H.
        * intros oid' g' gi' items' A' Hin. apply (Hdec oid'). now right.
      + cbn [decompose_loop] in H. apply IH in H.
        * cbn [rev] in H. now rewrite <- app_assoc in H.
        * intros oid' g' gi' items' A' Hin. apply (Hdec oid'). now right.
      + cbn [decompose_loop] in H. apply IH in H.
        * cbn [rev] in H. now rewrite <- app_assoc in H.
        * intros oid' g' gi' items' A' Hin. apply (Hdec oid'). now right.
  Qed.

  (* the statement as asked: [Hdec] for every gate, a finished loop *)
  Theorem decompose_loop_same_operation next done todo out :
    (forall g gi items A,
        dec g gi = Ok items -> check_replacement RNum g (map (item_gate g) items) = Ok tt ->
        get_matrix RNum n g = Ok A ->
        exists B, gates_matrix RNum n (map (item_gate g) items) = Ok B /\ mequiv B A) ->
    decompose_loop RNum dec next done todo = (None, out) ->
    same_operation n (rev done ++ todo) out.
  Proof.
    intros Hdec H. apply (decompose_loop_same_operation_any todo next done None out); [|exact H].
    intros oid g gi items A _. apply Hdec.
  Qed.
End Loop.

Definition Hdec_on (n : Z) (dec : gate R -> ginfo R -> result (list (ditem R))) (ir : list (stmt R)) : Prop :=
  forall oid g gi items A,
    In (SGate oid g gi) ir ->
    dec g gi = Ok items -> check_replacement RNum g (map (item_gate g) items) = Ok tt ->
    get_matrix RNum n g = Ok A ->
    exists B, gates_matrix RNum n (map (item_gate g) items) = Ok B /\ mequiv B A.

Corollary decompose_same_operation_any n d ir r out :
  Hdec_on n (run_decomposer RNum d) ir ->
  decompose RNum d ir = (r, out) -> same_operation n ir out.
Proof.
  intros Hdec H. unfold decompose in H.
  exact (decompose_loop_same_operation_any _ n ir _ [] r out Hdec H).
Qed.

Corollary decompose_same_operation n d ir out :
  Hdec_on n (run_decomposer RNum d) ir ->
  decompose RNum d ir = (None, out) -> same_operation n ir out.
Proof. apply decompose_same_operation_any. Qed.

Corollary replace_same_operation_any n target rl ir r out :
  Hdec_on n (run_replacer RNum target rl) ir ->
  replace RNum target rl ir = (r, out) -> same_operation n ir out.
Proof.
  intros Hdec H. unfold replace in H.
  exact (decompose_loop_same_operation_any _ n ir _ [] r out Hdec H).
Qed.

Corollary replace_same_operation n target rl ir out :
  Hdec_on n (run_replacer RNum target rl) ir ->
  replace RNum target rl ir = (None, out) -> same_operation n ir out.
Proof. apply replace_same_operation_any. Qed.

(* a proposal that keeps the gate object always satisfies Hdec *)
Lemma Hdec_same n (g : gate R) A :
  get_matrix RNum n g = Ok A ->
  exists B, gates_matrix RNum n (map (item_gate g) [DSame]) = Ok B /\ mequiv B A.
Proof.
  intros HA. cbn [map item_gate]. unfold gates_matrix, circuit_matrix. cbn [map circuit_matrix_from].
  rewrite HA. eexists. split; [reflexivity|].
  rewrite (mmul_eye_r (zpow2 n) (zpow2 n) A (zpow2_pos n) (get_matrix_wf RNum n g A HA)).
  apply mequiv_refl.
Qed.

(* ================================================================== *)
(* B. from the gate's own qubits to the register                       *)

Lemma gates_matrix_from_ok n (gs : list (gate R)) : forall acc,
  (forall g, In g gs -> exists G, get_matrix RNum n g = Ok G) ->
  exists M, circuit_matrix_from RNum n acc (map (fun g => SGate 1%positive g anon) gs) = Ok M.
Proof.
  induction gs as [|g gs IH]; intros acc H; cbn [map circuit_matrix_from]; [now exists acc|].
  destruct (H g (or_introl eq_refl)) as [G ->]. apply IH. intros g' Hg'. apply H. now right.
Qed.

Lemma gates_matrix_ok_all n (gs : list (gate R)) :
  (forall g, In g gs -> exists G, get_matrix RNum n g = Ok G) -> exists M, gates_matrix RNum n gs = Ok M.
Proof. apply gates_matrix_from_ok. Qed.

Lemma gates_matrix_from_ok_inv n (gs : list (gate R)) : forall acc M,
  circuit_matrix_from RNum n acc (map (fun g => SGate 1%positive g anon) gs) = Ok M ->
  forall g, In g gs -> exists G, get_matrix RNum n g = Ok G.
Proof.
  induction gs as [|g0 gs IH]; intros acc M H g Hin; [destruct Hin|].
  cbn [map circuit_matrix_from] in H.
  destruct (get_matrix RNum n g0) as [G|e] eqn:E; [|discriminate].
  destruct Hin as [<-|Hin]; [now exists G|]. apply (IH _ _ H _ Hin).
Qed.

Lemma gates_matrix_ok_inv n (gs : list (gate R)) M :
  gates_matrix RNum n gs = Ok M -> forall g, In g gs -> exists G, get_matrix RNum n g = Ok G.
Proof. apply gates_matrix_from_ok_inv. Qed.

Lemma gates_matrix_single n (g : gate R) A : get_matrix RNum n g = Ok A -> gates_matrix RNum n [g] = Ok A.
Proof.
  intros HA. unfold gates_matrix, circuit_matrix. cbn [map circuit_matrix_from]. rewrite HA. f_equal.
  exact (mmul_eye_r (zpow2 n) (zpow2 n) A (zpow2_pos n) (get_matrix_wf RNum n g A HA)).
Qed.

(* the two matrices the checker compares, seen on a register that holds the gate (with the rotation angles as the
   reindexer re-normalises them, [renorm_gate]): the replacement has a matrix there too, and both register
   matrices are the compared ones acting on the gate's qubits *)
Lemma reindexed_pair_embeds n (g : gate R) repl A0 B0 MA :
  reindexed_matrix RNum (gate_qubits g) [g] = Ok A0 ->
  reindexed_matrix RNum (gate_qubits g) repl = Ok B0 ->
  get_matrix RNum n (renorm_gate RNum g) = Ok MA ->
  exists MB, gates_matrix RNum n (map (renorm_gate RNum) repl) = Ok MB /\
             embeds (gate_qubits g) n MA A0 /\ embeds (gate_qubits g) n MB B0.
Proof.
  intros HA0 HB0 HMA. set (idx := gate_qubits g) in *.
  assert (Hnd : NoDup idx).
  { unfold reindexed_matrix in HA0. cbn [reindex_gates] in HA0.
    destruct (reindex_gate RNum idx g) as [g'|e] eqn:Eg; [|discriminate].
    now destruct (reindex_gate_spec RNum _ g g' Eg) as [_ [_ H]]. }
  assert (Hrange : forall q, In q idx -> (0 <= q < n)%Z).
  { intros q Hq. apply (get_matrix_ok_range RNum n _ MA HMA). now rewrite gate_qubits_renorm. }
  assert (HexB : exists MB, gates_matrix RNum n (map (renorm_gate RNum) repl) = Ok MB).
  { pose proof HB0 as HB1. unfold reindexed_matrix in HB1.
    destruct (reindex_gates RNum idx repl) as [gs'|e] eqn:Egs; [|discriminate].
    destruct (reindex_gates_spec idx repl gs' Egs) as [-> Hall].
    apply gates_matrix_ok_all. intros g1 Hg1.
    apply in_map_iff in Hg1. destruct Hg1 as [g0 [<- Hg0]].
    apply (get_matrix_embed_ok RNum idx n (renorm_gate RNum g0)).
    - rewrite gate_qubits_renorm. apply (Hall g0 Hg0).
    - exact Hrange.
    - apply (gates_matrix_ok_inv _ _ _ HB1). apply in_map. apply in_map. exact Hg0. }
  destruct HexB as [MB HMB]. exists MB. split; [exact HMB|]. split.
  - apply (reindexed_matrix_embed idx n [g] A0 MA Hnd Hrange HA0).
    cbn [map]. now apply gates_matrix_single.
  - exact (reindexed_matrix_embed idx n repl B0 MB Hnd Hrange HB0 HMB).
Qed.

(* B.1 an exact proportionality on the gate's own qubits is the same proportionality on the register *)
Theorem check_exact_lifts n (g : gate R) repl A0 B0 z MA :
  reindexed_matrix RNum (gate_qubits g) [g] = Ok A0 ->
  reindexed_matrix RNum (gate_qubits g) repl = Ok B0 ->
  B0 = mscale z A0 ->
  get_matrix RNum n (renorm_gate RNum g) = Ok MA ->
  exists MB, gates_matrix RNum n (map (renorm_gate RNum) repl) = Ok MB /\ MB = mscale z MA.
Proof.
  intros HA0 HB0 Hz HMA.
  destruct (reindexed_pair_embeds n g repl A0 B0 MA HA0 HB0 HMA) as [MB [HMB [EA EB]]].
  exists MB. split; [exact HMB|].
  apply (mat_ext RNum (zpow2 n) (zpow2 n)).
  - exact (circuit_matrix_wf RNum n _ MB HMB).
  - apply mscale_wf. exact (get_matrix_wf RNum n _ MA HMA).
  - intros r c Hr Hc. rewrite mget_mscale.
    apply (embedded_proportional (gate_qubits g) n A0 B0 MA MB z EA EB); auto.
    intros i j _ _. rewrite Hz. apply mget_mscale.
Qed.

(* B.2 what acceptance means in general: ONE factor p (read off on the gate's own qubits) for which the register
   matrices agree entrywise within the tolerance of np.allclose(..., atol=ATOL): ATOL + 1e-5 |p B_rc|, ATOL = 1e-7 *)
Theorem check_sound_lifts n (g : gate R) repl MA :
  check_replacement RNum g repl = Ok tt ->
  get_matrix RNum n (renorm_gate RNum g) = Ok MA ->
  exists MB p,
    gates_matrix RNum n (map (renorm_gate RNum) repl) = Ok MB /\
    forall r c, r < zpow2 n -> c < zpow2 n ->
      (Cabs (csub RNum (mget RNum MA r c) (cmul RNum p (mget RNum MB r c)))
       <= CheckP.ATOL + 1 / 100000 * Cabs (cmul RNum p (mget RNum MB r c)))%R.
Proof.
  intros Hck HMA. destruct (check_sound g repl Hck) as [_ [A0 [B0 [p [i [j H]]]]]]. cbv zeta in H.
  destruct H as [HA0 [HB0 [_ [_ [_ [_ [_ [_ [_ [_ [_ Hent]]]]]]]]]]].
  destruct (reindexed_pair_embeds n g repl A0 B0 MA HA0 HB0 HMA) as [MB [HMB [EA EB]]].
  exists MB, p. split; [exact HMB|]. intros r c Hr Hc.
  rewrite (EA r c Hr Hc), (EB r c Hr Hc).
  destruct (agreeb (map Z.to_N (gate_qubits g)) (N.of_nat r) (N.of_nat c)).
  - apply Hent; apply pack_lt.
  - rewrite cmulR_0_r, Cabs_sub_self.
    pose proof (Cabs_nonneg (czero RNum)). pose proof CheckP.ATOL_pos. lra.
Qed.

(* gates whose rotation angles are already normalised, as every gate built by the constructors is *)
Definition normalised (g : gate R) : Prop := renorm_gate RNum g = g.

Lemma map_renorm_normalised gs : Forall normalised gs -> map (renorm_gate RNum) gs = gs.
Proof.
  induction 1 as [|g gs Hg _ IH]; [reflexivity|]. cbn [map]. now rewrite Hg, IH.
Qed.

Lemma normalised_bsr q ax a p : normalised (BSR q ax (normalize_angle RNum a) (normalize_angle RNum p)).
Proof. unfold normalised. cbn [renorm_gate]. now rewrite !normalize_idem. Qed.

Lemma normalised_ctrl c g : normalised g -> normalised (Ctrl c g).
Proof. unfold normalised. cbn [renorm_gate]. now intros ->. Qed.

Lemma normalised_mat m ops : normalised (Mat m ops).
Proof. reflexivity. Qed.

(* B.3 Hdec from exactness on the gate's own qubits *)
Theorem check_exact_Hdec n (g : gate R) repl A :
  normalised g -> Forall normalised repl ->
  (forall A0 B0, reindexed_matrix RNum (gate_qubits g) [g] = Ok A0 ->
                 reindexed_matrix RNum (gate_qubits g) repl = Ok B0 -> mequiv B0 A0) ->
  check_replacement RNum g repl = Ok tt ->
  get_matrix RNum n g = Ok A ->
  exists B, gates_matrix RNum n repl = Ok B /\ mequiv B A.
Proof.
  intros Hg Hrepl Hex Hck HA.
  apply check_replacement_spec in Hck. destruct Hck as [_ [A0 [B0 [HA0 [HB0 _]]]]].
  destruct (Hex A0 B0 HA0 HB0) as [z [Hz HB]].
  rewrite <- Hg in HA.
  destruct (check_exact_lifts n g repl A0 B0 z A HA0 HB0 HB HA) as [MB [HMB ->]].
  rewrite (map_renorm_normalised repl Hrepl) in HMB.
  exists (mscale z A). split; [exact HMB|]. now apply mequiv_mscale.
Qed.

(* B.4 rotations on one qubit: the product on the register is the lifted 2x2 product *)
Lemma get_matrix_bsr0_can1 ax a p : get_matrix RNum 1 (BSR 0 ax a p) = Ok (can1 RNum ax a p).
Proof. rewrite get_matrix_bsr0, can1_phase. reflexivity. Qed.

Lemma bsr_product_from n q (l : list (gate R)) : (0 <= q < n)%Z ->
  (forall g, In g l -> exists ax a p, g = BSR 0 ax a p) ->
  forall V, wf_mat 2 V ->
  circuit_matrix_from RNum n (lift1 n q V)
    (map (fun g => SGate 1%positive g anon) (map (map_gate_qubits (fun _ => q)) l)) =
  match circuit_matrix_from RNum 1 V (map (fun g => SGate 1%positive g anon) l) with
  | Ok U => Ok (lift1 n q U)
  | Err e => Err e
  end.
Proof.
  intros Hq. induction l as [|g l IH]; intros Hl V HV; [reflexivity|].
  destruct (Hl g (or_introl eq_refl)) as (ax & a & p & ->).
  cbn [map map_gate_qubits circuit_matrix_from].
  rewrite get_matrix_bsr0_can1, (get_matrix_bsr_lift1 n q ax a p Hq).
  rewrite (lift1_mmul n q _ _ Hq (shape_can1 RNum ax a p) HV).
  apply IH.
  - intros g Hg. apply Hl. now right.
  - apply wf_mmul; [apply shape_can1|exact HV].
Qed.

Theorem bsr_product_lifts n q (l : list (gate R)) U :
  (forall g, In g l -> exists ax a p, g = BSR 0 ax a p) ->
  gates_matrix RNum 1 l = Ok U -> (0 <= q < n)%Z ->
  gates_matrix RNum n (map (map_gate_qubits (fun _ => q)) l) = embed1 n q U.
Proof.
  intros Hl HU Hq. unfold gates_matrix, circuit_matrix in *.
  rewrite <- (lift1_eye n q Hq).
  rewrite (bsr_product_from n q l Hq Hl (eye RNum 2) (shape_eye RNum 2)).
  change (zpow2 1) with 2 in HU. rewrite HU. symmetry. now apply embed1_lift1.
Qed.

(* ================================================================== *)
(* C. the A-B-A decomposers on any statement list                      *)

(* the identity filter does not look at qubit indices *)
Lemma is_identity_relabel f (g : gate R) : is_identity RNum (map_gate_qubits f g) = is_identity RNum g.
Proof.
  induction g as [q ax a p|c g IH|m ops]; cbn [map_gate_qubits is_identity]; [reflexivity|exact IH|].
  now rewrite map_length.
Qed.

Lemma filter_map_commute {X} (p : X -> bool) (f : X -> X) (l : list X) :
  (forall x, p (f x) = p x) -> filter p (map f l) = map f (filter p l).
Proof.
  intros H. induction l as [|x l IH]; [reflexivity|]. cbn [map filter]. rewrite H.
  destruct (p x); cbn [map]; now rewrite IH.
Qed.

(* the gates proposed for a rotation on qubit q are those proposed for the same rotation on qubit 0, moved to q *)
Lemma aba_gates_relabel ia ib q ax alpha phase l0 :
  aba_gates RNum ia ib (BSR 0 ax alpha phase) = Ok l0 ->
  (forall g, In g (map fst l0) -> exists ax' a p, g = BSR 0 ax' a p) /\
  exists lq, aba_gates RNum ia ib (BSR q ax alpha phase) = Ok lq /\
             map fst lq = map (map_gate_qubits (fun _ => q)) (map fst l0).
Proof.
  unfold aba_gates. destruct (aba_angles RNum ia ib alpha ax) as [[[t1 t2] t3]|e]; [|discriminate].
  intros H. apply Ok_inj in H. subst l0. unfold filter_identities.
  rewrite (map_fst_filter (fun g => negb (is_identity RNum g))). cbn [map]. rewrite !rot_gate_R. split.
  - intros g Hg. apply filter_In in Hg. destruct Hg as [Hg _]. cbn [In] in Hg.
    destruct Hg as [<-|[<-|[<-|[]]]]; eexists; eexists; eexists; reflexivity.
  - eexists. split; [reflexivity|].
    rewrite (map_fst_filter (fun g => negb (is_identity RNum g))). cbn [map]. rewrite !rot_gate_R.
    rewrite <- filter_map_commute by (intros x; now rewrite is_identity_relabel).
    reflexivity.
Qed.

(* the hypotheses of [aba_decompose_exact] for a gate; gates that are not rotations pass through *)
Definition aba_exact_ok (ia ib : axis_id) (g : gate R) : Prop :=
  match g with
  | BSR _ ax alpha _ =>
      unit_axis ax /\ (- PI < alpha <= PI)%R /\ (- PI + ABAP.ATOL <= alpha)%R /\
      exact_regime ia ib alpha ax /\
      (forall t1 t2 t3, aba_angles RNum ia ib alpha ax = Ok (t1, t2, t3) ->
                        filter_exact t1 /\ filter_exact t2 /\ filter_exact t3)
  | _ => True
  end.

(* what the A-B-A decomposer proposes has, on any register, the matrix of the gate up to a global phase;
   the verdict of the checker is not even needed *)
Theorem aba_proposal_exact n ia ib (g : gate R) gi items A :
  ia <> ib -> aba_exact_ok ia ib g ->
  aba_decompose RNum ia ib g gi = Ok items ->
  get_matrix RNum n g = Ok A ->
  exists B, gates_matrix RNum n (map (item_gate g) items) = Ok B /\ mequiv B A.
Proof.
  intros Hab Hok Hd HA. destruct g as [q ax alpha phase|c g'|m ops].
  - cbn [aba_exact_ok] in Hok. destruct Hok as (Hu & Hr & Hlow & Hreg & Hfilt).
    destruct (aba_decompose_exact ia ib ax alpha phase Hab Hu Hr Hlow Hreg Hfilt) as (l0 & Hl0 & phi & Hprod).
    destruct (aba_gates_relabel ia ib q ax alpha phase l0 Hl0) as (Hbsr & lq & Hlq & Hmap).
    unfold aba_decompose in Hd. rewrite Hlq in Hd. injection Hd as <-.
    rewrite news_gates, Hmap.
    pose proof (get_matrix_ok_range RNum n _ A HA q (or_introl eq_refl)) as Hq.
    rewrite (get_matrix_bsr_lift1 n q ax alpha phase Hq) in HA. injection HA as <-.
    rewrite (bsr_product_lifts n q (map fst l0) _ Hbsr Hprod Hq).
    rewrite (embed1_lift1 _ _ _ Hq), (lift1_mscale n q _ _ (shape_can1 RNum ax alpha phase)).
    eexists. split; [reflexivity|]. apply mequiv_mscale, unit_c_cis.
  - cbn [aba_decompose] in Hd. injection Hd as <-. now apply Hdec_same.
  - cbn [aba_decompose] in Hd. injection Hd as <-. now apply Hdec_same.
Qed.

Lemma aba_Hdec n ia ib ir :
  ia <> ib -> (forall o g gi, In (SGate o g gi) ir -> aba_exact_ok ia ib g) ->
  Hdec_on n (run_decomposer RNum (DecABA ia ib)) ir.
Proof.
  intros Hab Hir oid g gi items A Hin Hd _ HA. cbn [run_decomposer] in Hd.
  exact (aba_proposal_exact n ia ib g gi items A Hab (Hir oid g gi Hin) Hd HA).
Qed.

(* the flagship: ANY statement list (gates, measurements, resets, comments) on ANY register; rotations satisfy
   the hypotheses of [aba_decompose_exact], other gates are kept as they are. No range hypothesis on the qubits
   is needed: a circuit with a gate outside the register denotes nothing. *)
Theorem aba_decompose_circuit_same_operation n ia ib ir out :
  ia <> ib ->
  (forall o g gi, In (SGate o g gi) ir -> aba_exact_ok ia ib g) ->
  decompose RNum (DecABA ia ib) ir = (None, out) ->
  same_operation n ir out.
Proof.
  intros Hab Hir H. apply (decompose_same_operation n (DecABA ia ib) ir out); [|exact H].
  now apply aba_Hdec.
Qed.

(* also when the pass raises half-way (the checker refusing a proposal, or the angle computation raising): the
   half rewritten list that is left behind still does the same operation *)
Theorem aba_decompose_circuit_same_operation_any n ia ib ir r out :
  ia <> ib ->
  (forall o g gi, In (SGate o g gi) ir -> aba_exact_ok ia ib g) ->
  decompose RNum (DecABA ia ib) ir = (r, out) ->
  same_operation n ir out.
Proof.
  intros Hab Hir H. apply (decompose_same_operation_any n (DecABA ia ib) ir r out); [|exact H].
  now apply aba_Hdec.
Qed.

(* ================================================================== *)
(* D. the replacement rules CNOT -> H CZ H and CZ -> H CNOT H           *)

Local Open Scope R_scope.

(* the gates of the default table involved *)
Definition Hg (q : Z) : gate R := BSR q (/ sqrt 2, 0, / sqrt 2) PI (PI / 2).
Definition Xg (q : Z) : gate R := BSR q (1, 0, 0) PI (PI / 2).
Definition Zg (q : Z) : gate R := BSR q (0, 0, 1) PI (PI / 2).

(* ---- D.1 on two qubits, control 1 and target 0, in the block form of CNOTP ---- *)

Lemma m2l_inj (A B : M2) : m2l A = m2l B -> A = B.
Proof.
  destr_all. unfold m2l, m00, m01, m10, m11. cbn [fst snd]. intros H.
  injection H as H1 H2 H3 H4 H5 H6 H7 H8. subst. reflexivity.
Qed.

Definition H2 : M2 := ((/ sqrt 2, 0), (/ sqrt 2, 0), (/ sqrt 2, 0), (- / sqrt 2, 0)).
Definition Z2 : M2 := ((1, 0), (0, 0), (0, 0), (-1, 0)).

Lemma Hm_val : m2q (cis RNum (PI / 2)) (qrot (/ sqrt 2, 0, / sqrt 2) PI) = H2.
Proof. apply m2l_inj. rewrite <- can1_m2q, can1_h. reflexivity. Qed.

Lemma Zm_val : m2q (cis RNum (PI / 2)) (qrot (0, 0, 1) PI) = Z2.
Proof. apply m2l_inj. rewrite <- can1_m2q, Z_can1. reflexivity. Qed.

Lemma Xm_val : m2q (cis RNum (PI / 2)) (qrot (1, 0, 0) PI) = m2X.
Proof. apply m2l_inj. rewrite <- can1_m2q, X_can1. reflexivity. Qed.

Lemma inv_sqrt2_sq : / sqrt 2 * / sqrt 2 = / 2.
Proof. rewrite <- Rinv_mult, sqrt_sqrt by lra. reflexivity. Qed.

Lemma H2_H2 : m2mul H2 H2 = m2one.
Proof.
  pose proof inv_sqrt2_sq as Ha. unfold H2. set (a := / sqrt 2) in *. clearbody a.
  m2unf. tup_eq; nra.
Qed.

Lemma H2_Z2_H2 : m2mul H2 (m2mul Z2 H2) = m2X.
Proof.
  pose proof inv_sqrt2_sq as Ha. unfold H2, Z2. set (a := / sqrt 2) in *. clearbody a.
  m2unf. tup_eq; nra.
Qed.

Lemma H2_X2_H2 : m2mul H2 (m2mul m2X H2) = Z2.
Proof.
  pose proof inv_sqrt2_sq as Ha. unfold H2, Z2. set (a := / sqrt 2) in *. clearbody a.
  m2unf. tup_eq; nra.
Qed.

Lemma okgate_H0 : okgate (Hg 0).
Proof. left. eexists; eexists; eexists; reflexivity. Qed.
Lemma okgate_ctrl10 g0 : (exists ax t ph, g0 = BSR 0 ax t ph) -> okgate (Ctrl 1 g0).
Proof. intros (ax & t & ph & ->). right. right. eexists; eexists; eexists; reflexivity. Qed.

Lemma okgate_hch g0 : (exists ax t ph, g0 = BSR 0 ax t ph) -> Forall okgate [Hg 0; Ctrl 1 g0; Hg 0].
Proof.
  intros H0. apply Forall_cons; [apply okgate_H0|]. apply Forall_cons; [now apply okgate_ctrl10|].
  apply Forall_cons; [apply okgate_H0|apply Forall_nil].
Qed.

Lemma hczh_2 :
  gates_matrix RNum 2 [Hg 0; Ctrl 1 (Zg 0); Hg 0] = get_matrix RNum 2 (Ctrl 1 (Xg 0)).
Proof.
  rewrite gates_matrix_bd4.
  2:{ apply okgate_hch. eexists; eexists; eexists; reflexivity. }
  rewrite (get_matrix_gb (Ctrl 1 (Xg 0))) by (apply okgate_ctrl10; eexists; eexists; eexists; reflexivity).
  do 2 f_equal. unfold Hg, Zg, Xg. cbn [bprod gb Z.eqb]. rewrite Hm_val, Zm_val, Xm_val.
  unfold b2mul, b2one. cbn [fst snd]. rewrite !m2mul_1_r, !m2mul_1_l, H2_H2, H2_Z2_H2. reflexivity.
Qed.

Lemma hcnoth_2 :
  gates_matrix RNum 2 [Hg 0; Ctrl 1 (Xg 0); Hg 0] = get_matrix RNum 2 (Ctrl 1 (Zg 0)).
Proof.
  rewrite gates_matrix_bd4.
  2:{ apply okgate_hch. eexists; eexists; eexists; reflexivity. }
  rewrite (get_matrix_gb (Ctrl 1 (Zg 0))) by (apply okgate_ctrl10; eexists; eexists; eexists; reflexivity).
  do 2 f_equal. unfold Hg, Zg, Xg. cbn [bprod gb Z.eqb]. rewrite Hm_val, Zm_val, Xm_val.
  unfold b2mul, b2one. cbn [fst snd]. rewrite !m2mul_1_r, !m2mul_1_l, H2_H2, H2_X2_H2. reflexivity.
Qed.

Close Scope R_scope.

(* ---- D.2 from the two qubits to the register ---- *)

(* a register matrix is determined by the small matrix it embeds *)
Lemma embeds_unique idx n (M1 M2 M' : matR) :
  wf_mat (zpow2 n) M1 -> wf_mat (zpow2 n) M2 ->
  embeds idx n M1 M' -> embeds idx n M2 M' -> M1 = M2.
Proof.
  intros H1 H2 E1 E2. apply (mat_ext RNum (zpow2 n) (zpow2 n)); [exact H1|exact H2|].
  intros r c Hr Hc. now rewrite (E1 r c Hr Hc), (E2 r c Hr Hc).
Qed.

(* a list of gates and a gate, all on the qubits idx, with the same matrix on length idx qubits, have the same
   matrix on every register that holds the gate *)
Lemma same_small_same_register idx n (gs : list (gate R)) (g : gate R) M' A :
  NoDup idx -> incl (gate_qubits g) idx -> mat_ops_nodup g ->
  (forall g0, In g0 gs -> incl (gate_qubits g0) idx /\ mat_ops_nodup g0) ->
  (forall q, In q idx -> (0 <= q < n)%Z) ->
  gates_matrix RNum (Z.of_nat (length idx)) (map (map_gate_qubits (zpos idx)) gs) = Ok M' ->
  get_matrix RNum (Z.of_nat (length idx)) (map_gate_qubits (zpos idx) g) = Ok M' ->
  get_matrix RNum n g = Ok A ->
  gates_matrix RNum n gs = Ok A.
Proof.
  intros Hnd Hg Hgn Hgs Hrange Hsmall Hgsmall HA.
  assert (HexB : exists B, gates_matrix RNum n gs = Ok B).
  { apply gates_matrix_ok_all. intros g0 Hg0.
    apply (get_matrix_embed_ok RNum idx n g0); [apply (Hgs g0 Hg0)|exact Hrange|].
    apply (gates_matrix_ok_inv _ _ _ Hsmall). now apply in_map. }
  destruct HexB as [B HB]. rewrite HB. f_equal.
  apply (embeds_unique idx n B A M').
  - exact (circuit_matrix_wf RNum n _ B HB).
  - exact (get_matrix_wf RNum n g A HA).
  - exact (gates_matrix_embed idx n gs B M' Hnd Hrange Hgs HB Hsmall).
  - apply (gates_matrix_embed idx n [g] A M' Hnd Hrange).
    + intros g0 [<-|[]]. split; assumption.
    + now apply gates_matrix_single.
    + cbn [map]. now apply gates_matrix_single.
Qed.

Lemma zpos_tc_t c t : zpos [t; c] t = 0%Z.
Proof. unfold zpos. cbn [zindex]. now rewrite Z.eqb_refl. Qed.

Lemma zpos_tc_c c t : c <> t -> zpos [t; c] c = 1%Z.
Proof.
  intros Hne. unfold zpos. cbn [zindex]. apply Z.eqb_neq in Hne. rewrite Hne, Z.eqb_refl. reflexivity.
Qed.

(* the two rules, on any register *)
Lemma hczh_register n c t A : c <> t ->
  get_matrix RNum n (Ctrl c (Xg t)) = Ok A ->
  gates_matrix RNum n [Hg t; Ctrl c (Zg t); Hg t] = Ok A.
Proof.
  intros Hne HA.
  pose proof (get_matrix_ok_range RNum n _ A HA) as Hrange. cbn [gate_qubits Xg] in Hrange.
  assert (Hsm : exists M', get_matrix RNum 2 (Ctrl 1 (Xg 0)) = Ok M').
  { rewrite (get_matrix_gb (Ctrl 1 (Xg 0))) by (apply okgate_ctrl10; eexists; eexists; eexists; reflexivity).
    now eexists. }
  destruct Hsm as [M' HM'].
  apply (same_small_same_register [t; c] n _ (Ctrl c (Xg t)) M' A).
  - constructor; [intros [E|[]]; now apply Hne|]. constructor; [intros []|constructor].
  - intros q [<-|[<-|[]]]; [right; now left|now left].
  - exact I.
  - intros g0 [<-|[<-|[<-|[]]]]; (split; [|exact I]); cbn [gate_qubits Hg Zg];
      intros q Hq; cbn [In] in *; tauto.
  - intros q [<-|[<-|[]]]; apply Hrange; cbn [In]; tauto.
  - cbn [length map map_gate_qubits Hg Zg Xg]. rewrite zpos_tc_t, (zpos_tc_c c t Hne).
    change (Z.of_nat 2) with 2%Z. fold (Hg 0) (Zg 0). rewrite hczh_2. exact HM'.
  - cbn [length map_gate_qubits Xg]. rewrite zpos_tc_t, (zpos_tc_c c t Hne). exact HM'.
  - exact HA.
Qed.

Lemma hcnoth_register n c t A : c <> t ->
  get_matrix RNum n (Ctrl c (Zg t)) = Ok A ->
  gates_matrix RNum n [Hg t; Ctrl c (Xg t); Hg t] = Ok A.
Proof.
  intros Hne HA.
  pose proof (get_matrix_ok_range RNum n _ A HA) as Hrange. cbn [gate_qubits Zg] in Hrange.
  assert (Hsm : exists M', get_matrix RNum 2 (Ctrl 1 (Zg 0)) = Ok M').
  { rewrite (get_matrix_gb (Ctrl 1 (Zg 0))) by (apply okgate_ctrl10; eexists; eexists; eexists; reflexivity).
    now eexists. }
  destruct Hsm as [M' HM'].
  apply (same_small_same_register [t; c] n _ (Ctrl c (Zg t)) M' A).
  - constructor; [intros [E|[]]; now apply Hne|]. constructor; [intros []|constructor].
  - intros q [<-|[<-|[]]]; [right; now left|now left].
  - exact I.
  - intros g0 [<-|[<-|[<-|[]]]]; (split; [|exact I]); cbn [gate_qubits Hg Xg];
      intros q Hq; cbn [In] in *; tauto.
  - intros q [<-|[<-|[]]]; apply Hrange; cbn [In]; tauto.
  - cbn [length map map_gate_qubits Hg Zg Xg]. rewrite zpos_tc_t, (zpos_tc_c c t Hne).
    change (Z.of_nat 2) with 2%Z. fold (Hg 0) (Xg 0). rewrite hcnoth_2. exact HM'.
  - cbn [length map_gate_qubits Zg]. rewrite zpos_tc_t, (zpos_tc_c c t Hne). exact HM'.
  - exact HA.
Qed.

(* ---- D.3 the generic replacer with the two rules ---- *)

(* what the rules propose (the callbacks only see the captured arguments of the statement) *)
Lemma run_rule_cnot_to_hczh args items (g : gate R) :
  run_rule RNum RuleCnotToHCzH args = Ok items ->
  exists c t, args = [AQ c; AQ t] /\ c <> t /\ map (item_gate g) items = [Hg t; Ctrl c (Zg t); Hg t].
Proof.
  intros H. unfold run_rule in H.
  destruct args as [|[c| | |] [|[t| | |] [|a2 args]]]; cbv beta iota in H; try discriminate.
  unfold dg in H. rewrite H_eval, CZ_eval, Z_bsr in H.
  destruct (Z.eq_dec c t) as [->|Hne].
  - rewrite mk_ctrl_bsr_same in H. cbn [with_info] in H. discriminate.
  - rewrite (mk_ctrl_bsr_ok c t _ _ _ Hne) in H. cbn [with_info] in H. cbv beta iota in H.
    apply Ok_inj in H. subst items. exists c, t. split; [reflexivity|]. split; [exact Hne|].
    cbn [map item_gate fst]. rewrite mk_bsr_RNum, mk_axis_h, norm_PI, norm_PI2. reflexivity.
Qed.

Lemma run_rule_cz_to_hcnoth args items (g : gate R) :
  run_rule RNum RuleCzToHCnotH args = Ok items ->
  exists c t, args = [AQ c; AQ t] /\ c <> t /\ map (item_gate g) items = [Hg t; Ctrl c (Xg t); Hg t].
Proof.
  intros H. unfold run_rule in H.
  destruct args as [|[c| | |] [|[t| | |] [|a2 args]]]; cbv beta iota in H; try discriminate.
  unfold dg in H. rewrite H_eval, CNOT_eval, X_bsr in H.
  destruct (Z.eq_dec c t) as [->|Hne].
  - rewrite mk_ctrl_bsr_same in H. cbn [with_info] in H. discriminate.
  - rewrite (mk_ctrl_bsr_ok c t _ _ _ Hne) in H. cbn [with_info] in H. cbv beta iota in H.
    apply Ok_inj in H. subst items. exists c, t. split; [reflexivity|]. split; [exact Hne|].
    cbn [map item_gate fst]. rewrite mk_bsr_RNum, mk_axis_h, norm_PI, norm_PI2. reflexivity.
Qed.

(* Hdec for the generic replacer, from a fact about its rule on the statements that carry the target name *)
Lemma replacer_Hdec n target rl ir :
  (forall o g gi args items A,
      In (SGate o g gi) ir -> gname gi = Some target -> gargs gi = Some args ->
      run_rule RNum rl args = Ok items -> get_matrix RNum n g = Ok A ->
      exists B, gates_matrix RNum n (map (item_gate g) items) = Ok B /\ mequiv B A) ->
  Hdec_on n (run_replacer RNum target rl) ir.
Proof.
  intros Hrule oid g gi items A Hin Hd _ HA. unfold run_replacer in Hd.
  destruct (gargs gi) as [args|] eqn:Ea; [|apply Ok_inj in Hd; subst items; now apply Hdec_same].
  destruct (gname gi) as [nm|] eqn:En; [|apply Ok_inj in Hd; subst items; now apply Hdec_same].
  destruct (String.eqb nm target) eqn:Et; [|apply Ok_inj in Hd; subst items; now apply Hdec_same].
  apply String.eqb_eq in Et. subst nm.
  exact (Hrule oid g gi args items A Hin En Ea Hd HA).
Qed.

(* the statements that carry the target name with two qubit arguments are the gate [mk control target];
   the callbacks of [replace] only see the name and the arguments, so this ties them to the gate itself *)
Definition named_is (target : String.string) (mk : Z -> Z -> gate R) (ir : list (stmt R)) : Prop :=
  forall o g gi c t,
    In (SGate o g gi) ir -> gname gi = Some target -> gargs gi = Some [AQ c; AQ t] -> g = mk c t.

(* the statements the default table builds under the names CNOT and CZ are of that kind *)
Module NamedDefaults.
Import String.
Local Open Scope string_scope.
Lemma default_CNOT_is c t g gi0 :
  default_gate RNum "CNOT" [AQ c; AQ t] = Ok (g, gi0) -> g = Ctrl c (Xg t).
Proof.
  rewrite CNOT_eval, X_bsr. destruct (Z.eq_dec c t) as [->|Hne].
  - rewrite mk_ctrl_bsr_same. discriminate.
  - rewrite (mk_ctrl_bsr_ok c t _ _ _ Hne). cbn [with_info]. intros H. apply Ok_inj in H.
    now injection H as <- _.
Qed.

Lemma default_CZ_is c t g gi0 :
  default_gate RNum "CZ" [AQ c; AQ t] = Ok (g, gi0) -> g = Ctrl c (Zg t).
Proof.
  rewrite CZ_eval, Z_bsr. destruct (Z.eq_dec c t) as [->|Hne].
  - rewrite mk_ctrl_bsr_same. discriminate.
  - rewrite (mk_ctrl_bsr_ok c t _ _ _ Hne). cbn [with_info]. intros H. apply Ok_inj in H.
    now injection H as <- _.
Qed.

End NamedDefaults.
Import NamedDefaults.

(* the replacement passes of the checks, on ANY statement list and ANY register, finished or raised half-way *)
Theorem replace_cnot_to_hczh_same_operation n target ir r out :
  named_is target (fun c t => Ctrl c (Xg t)) ir ->
  replace RNum target RuleCnotToHCzH ir = (r, out) ->
  same_operation n ir out.
Proof.
  intros Hnamed H. apply (replace_same_operation_any n target RuleCnotToHCzH ir r out); [|exact H].
  apply replacer_Hdec. intros o g gi args items A Hin En Ea Hr HA.
  destruct (run_rule_cnot_to_hczh args items g Hr) as (c & t & -> & Hne & ->).
  rewrite (Hnamed o g gi c t Hin En Ea) in HA.
  exists A. split; [now apply hczh_register|apply mequiv_refl].
Qed.

Theorem replace_cz_to_hcnoth_same_operation n target ir r out :
  named_is target (fun c t => Ctrl c (Zg t)) ir ->
  replace RNum target RuleCzToHCnotH ir = (r, out) ->
  same_operation n ir out.
Proof.
  intros Hnamed H. apply (replace_same_operation_any n target RuleCzToHCnotH ir r out); [|exact H].
  apply replacer_Hdec. intros o g gi args items A Hin En Ea Hr HA.
  destruct (run_rule_cz_to_hcnoth args items g Hr) as (c & t & -> & Hne & ->).
  rewrite (Hnamed o g gi c t Hin En Ea) in HA.
  exists A. split; [now apply hcnoth_register|apply mequiv_refl].
Qed.

(* ================================================================== *)
(* E. the hypothesis [normalised g] of [check_exact_Hdec] cannot be dropped: the checker compares the gate with
   its rotation angles re-normalised (the reindexer re-runs the constructors), and under a control a full turn
   is not a global phase. Gates built by the constructors are always normalised. *)

Local Open Scope R_scope.

Lemma normalize_2PI : normalize_angle RNum (2 * PI) = 0.
Proof.
  destruct (normalize_core (2 * PI)) as [k [Hk Hr]].
  pose proof PI_bounds as [HP3 HP4].
  assert (Ek : k = (-1)%Z).
  { rewrite Hk in Hr. destruct Hr as [H1 H2].
    assert (Hk1 : IZR k < 0) by nra. assert (Hk2 : -2 < IZR k) by nra.
    apply lt_IZR in Hk1. apply lt_IZR in Hk2. lia. }
  rewrite Hk, Ek. change (IZR (-1)) with (-1). ring.
Qed.

Close Scope R_scope.

Lemma ctrl_matrix_eye c d : ctrl_matrix RNum c (eye RNum d) = eye RNum d.
Proof.
  destruct (shape_eye RNum d) as [Hl Hf].
  apply (mat_ext RNum d d).
  - pose proof (shape_ctrl_matrix RNum c (eye RNum d)) as H. now rewrite Hl in H.
  - apply shape_eye.
  - intros r col Hr Hc. rewrite mget_ctrl_matrix by (rewrite Hl; assumption).
    rewrite mget_eye by assumption. destruct (N.testbit _ _); reflexivity.
Qed.

Local Open Scope R_scope.

Definition full_turn_cz : gate R := Ctrl 1 (BSR 0 (0, 0, 1) (2 * PI) 0).

Lemma full_turn_cz_reindexed :
  reindexed_matrix RNum (gate_qubits full_turn_cz) [full_turn_cz] = Ok (eye RNum 4).
Proof.
  unfold reindexed_matrix, full_turn_cz. cbn [gate_qubits reindex_gates reindex_gate].
  change (zindex 1 [1; 0]%Z) with (Some 0%Z). change (zindex 0 [1; 0]%Z) with (Some 1%Z). cbv beta iota.
  unfold mk_bsr_ax. rewrite normalize_2PI, normalize_zero.
  unfold mk_ctrl. cbn [gate_qubits]. change (znodup [0; 1]%Z) with true. cbv beta iota.
  change (Z.of_nat (length [1; 0]%Z)) with 2%Z.
  apply gates_matrix_single.
  assert (H1 : get_matrix RNum 2 (BSR 1 (0, 0, 1) 0 0) = Ok (eye RNum 4)).
  { rewrite get_matrix_ctl_phase. unfold ctl_phase.
    replace (- 0 / 2) with 0 by field. replace (0 / 2) with 0 by field.
    rewrite cis_0, m2scale_1. reflexivity. }
  rewrite (get_matrix_ctrl_eq RNum 2 0 _ _ ltac:(lia) H1). now rewrite ctrl_matrix_eye.
Qed.

Theorem check_exact_Hdec_needs_normalised :
  exists n g repl A,
    Forall normalised repl /\
    (forall A0 B0, reindexed_matrix RNum (gate_qubits g) [g] = Ok A0 ->
                   reindexed_matrix RNum (gate_qubits g) repl = Ok B0 -> mequiv B0 A0) /\
    check_replacement RNum g repl = Ok tt /\
    get_matrix RNum n g = Ok A /\
    ~ exists B, gates_matrix RNum n repl = Ok B /\ mequiv B A.
Proof.
  exists 2%Z, full_turn_cz, [], (ctrl2 (m2q (cis RNum 0) (qrot (0, 0, 1) (2 * PI)))).
  split; [constructor|]. split; [|split; [|split]].
  - intros A0 B0 HA0 HB0. rewrite full_turn_cz_reindexed in HA0. rewrite reindexed_matrix_nil in HB0.
    apply Ok_inj in HA0. apply Ok_inj in HB0. subst. apply mequiv_refl.
  - apply (check_accepts_empty_for_identity full_turn_cz (eye RNum 4) (1, 0)).
    + apply full_turn_cz_reindexed.
    + symmetry. apply mat_scale_one.
    + apply Cabs_one.
  - apply get_matrix_ctrl2.
  - intros [B [HB [[u v] [_ E]]]].
    unfold gates_matrix, circuit_matrix in HB. cbn [map circuit_matrix_from] in HB.
    apply Ok_inj in HB. subst B. rewrite eye4_bd4 in E.
    unfold ctrl2, bd4, b2one, mscale, m2q, m2scale, m2one, qrot, m00, m01, m10, m11,
           qw, qx, qy, qz, ax_x, ax_y, ax_z, cis, cmul in E.
    cbn [map fst snd] in E. cbn [nofZ nadd nsub nmul ndiv nneg nsin ncos RNum fst snd] in E.
    replace (2 * PI / 2) with PI in E by field.
    rewrite cos_PI, sin_PI, cos_0, sin_0 in E.
    injection E. intros. lra.
Qed.

Close Scope R_scope.

Print Assumptions decompose_loop_same_operation_any.
Print Assumptions check_exact_Hdec_needs_normalised.
Print Assumptions decompose_loop_same_operation.
Print Assumptions check_exact_lifts.
Print Assumptions check_sound_lifts.
Print Assumptions check_exact_Hdec.
Print Assumptions bsr_product_lifts.
Print Assumptions aba_decompose_circuit_same_operation.
Print Assumptions aba_decompose_circuit_same_operation_any.
Print Assumptions replace_cnot_to_hczh_same_operation.
Print Assumptions replace_cz_to_hcnoth_same_operation.
