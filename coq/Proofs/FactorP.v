(* FactorP.v — the single complex factor p accepted by the replacement checker
   has modulus close to 1 when both matrices are unitary. *)
From Coq Require Import Reals ZArith NArith List Bool Lia Lra Arith Psatz.
Import ListNotations.
From OSQ Require Import Num IR Bits Construct Matrix Check BitsP RTrig RNum SU2 ConstructP MatrixP CheckP.
Close Scope N_scope.
Close Scope R_scope.
Open Scope nat_scope.

Local Open Scope R_scope.

(* ---- triangle inequality for the complex modulus ---------------------- *)

Lemma norm2_triangle x1 x2 y1 y2 :
  sqrt ((x1 + y1) * (x1 + y1) + (x2 + y2) * (x2 + y2))
  <= sqrt (x1 * x1 + x2 * x2) + sqrt (y1 * y1 + y2 * y2).
Proof.
  set (p := sqrt (x1 * x1 + x2 * x2)). set (q := sqrt (y1 * y1 + y2 * y2)).
  assert (Hp : 0 <= p) by apply sqrt_pos.
  assert (Hq : 0 <= q) by apply sqrt_pos.
  assert (Hpp : p * p = x1 * x1 + x2 * x2) by (apply sqrt_sqrt; nra).
  assert (Hqq : q * q = y1 * y1 + y2 * y2) by (apply sqrt_sqrt; nra).
  rewrite <- (sqrt_square (p + q)) by lra.
  apply sqrt_le_1_alt. clearbody p q.
  assert (Hcs : x1 * y1 + x2 * y2 <= p * q).
  { destruct (Rle_lt_dec (x1 * y1 + x2 * y2) (p * q)) as [H|H]; [exact H|exfalso].
    assert (H0 : 0 <= p * q) by (apply Rmult_le_pos; assumption).
    assert (H1 : (p * q) * (p * q) < (x1 * y1 + x2 * y2) * (x1 * y1 + x2 * y2)) by nra.
    assert (H2 : (p * q) * (p * q) = (x1 * x1 + x2 * x2) * (y1 * y1 + y2 * y2)).
    { rewrite <- Hpp, <- Hqq. ring. }
    pose proof (Rle_0_sqr (x1 * y2 - x2 * y1)) as H3. unfold Rsqr in H3.
    nra. }
  nra.
Qed.

Lemma Cabs_triangle a b : Cabs (cadd RNum a b) <= Cabs a + Cabs b.
Proof.
  destruct a as [a1 a2], b as [b1 b2]. unfold Cabs, cadd. rnum_cbn.
  apply norm2_triangle.
Qed.

(* |a| <= |a - b| + |b|   and   |b| <= |a - b| + |a| *)
Lemma Cabs_triangle_sub_l a b : Cabs a <= Cabs (csub RNum a b) + Cabs b.
Proof.
  destruct a as [a1 a2], b as [b1 b2]. unfold Cabs, csub. rnum_cbn.
  pose proof (norm2_triangle (a1 - b1) (a2 - b2) b1 b2) as H.
  replace (a1 - b1 + b1) with a1 in H by ring.
  replace (a2 - b2 + b2) with a2 in H by ring. exact H.
Qed.

Lemma Cabs_triangle_sub_r a b : Cabs b <= Cabs (csub RNum a b) + Cabs a.
Proof.
  destruct a as [a1 a2], b as [b1 b2]. unfold Cabs, csub. rnum_cbn.
  pose proof (norm2_triangle (b1 - a1) (b2 - a2) a1 a2) as H.
  replace (b1 - a1 + a1) with b1 in H by ring.
  replace (b2 - a2 + a2) with b2 in H by ring.
  replace ((a1 - b1) * (a1 - b1) + (a2 - b2) * (a2 - b2))
    with ((b1 - a1) * (b1 - a1) + (b2 - a2) * (b2 - a2)) by ring.
  exact H.
Qed.

(* ---- real sums --------------------------------------------------------- *)

Fixpoint rsum (n : nat) (f : nat -> R) : R :=
  match n with O => 0 | S n' => rsum n' f + f n' end.

Lemma rsum_nonneg n f : (forall k, (k < n)%nat -> 0 <= f k) -> 0 <= rsum n f.
Proof.
  induction n as [|n IH]; intros H; cbn [rsum]; [lra|].
  assert (0 <= rsum n f) by (apply IH; intros k Hk; apply H; lia).
  specialize (H n ltac:(lia)). lra.
Qed.

Lemma rsum_term_le n f r : (forall k, (k < n)%nat -> 0 <= f k) -> (r < n)%nat -> f r <= rsum n f.
Proof.
  induction n as [|n IH]; intros H Hr; [lia|]. cbn [rsum].
  assert (H0 : 0 <= rsum n f) by (apply rsum_nonneg; intros k Hk; apply H; lia).
  destruct (Nat.eq_dec r n) as [->|Hne]; [lra|].
  assert (f r <= rsum n f) by (apply IH; [intros k Hk; apply H; lia|lia]).
  specialize (H n ltac:(lia)). lra.
Qed.

(* lower: a_r <= u b_r + t *)
Lemma rsum_lower (a b : nat -> R) u t : 0 <= u -> 0 <= t -> forall n,
  (forall r, (r < n)%nat -> 0 <= a r <= u * b r + t) ->
  (forall r, (r < n)%nat -> 0 <= b r <= 1) ->
  rsum n (fun r => a r * a r)
  <= u * u * rsum n (fun r => b r * b r) + 2 * t * u * INR n + INR n * (t * t).
Proof.
  intros Hu Ht. induction n as [|n IH]; intros Ha Hb.
  - cbn [rsum INR]. lra.
  - cbn [rsum]. rewrite S_INR.
    assert (IH' := IH ltac:(intros r Hr; apply Ha; lia) ltac:(intros r Hr; apply Hb; lia)).
    specialize (Ha n ltac:(lia)). specialize (Hb n ltac:(lia)).
    set (an := a n) in *. set (bn := b n) in *.
    assert (H1 : an * an <= (u * bn + t) * (u * bn + t)) by nra.
    assert (H2 : u * bn <= u) by nra.
    assert (H3 : (u * bn + t) * (u * bn + t) <= u * u * (bn * bn) + 2 * t * u + t * t) by nra.
    nra.
Qed.

(* upper: v b_r <= a_r + t *)
Lemma rsum_upper (a b : nat -> R) v t : 0 <= v -> 0 <= t -> forall n,
  (forall r, (r < n)%nat -> 0 <= a r <= 1) ->
  (forall r, (r < n)%nat -> 0 <= b r /\ v * b r <= a r + t) ->
  v * v * rsum n (fun r => b r * b r)
  <= rsum n (fun r => a r * a r) + 2 * t * INR n + INR n * (t * t).
Proof.
  intros Hv Ht. induction n as [|n IH]; intros Ha Hb.
  - cbn [rsum INR]. lra.
  - cbn [rsum]. rewrite S_INR.
    assert (IH' := IH ltac:(intros r Hr; apply Ha; lia) ltac:(intros r Hr; apply Hb; lia)).
    specialize (Ha n ltac:(lia)). specialize (Hb n ltac:(lia)).
    set (an := a n) in *. set (bn := b n) in *.
    assert (H0 : 0 <= v * bn) by (apply Rmult_le_pos; lra).
    assert (H1 : (v * bn) * (v * bn) <= (an + t) * (an + t)) by nra.
    assert (H2 : (an + t) * (an + t) <= an * an + 2 * t + t * t) by nra.
    replace (v * v * (rsum n (fun r => b r * b r) + bn * bn))
      with (v * v * rsum n (fun r => b r * b r) + (v * bn) * (v * bn)) by ring.
    lra.
Qed.

Lemma sq_le_le x y : 0 <= y -> x * x <= y * y -> x <= y.
Proof. intros Hy H. destruct (Rle_lt_dec x y) as [Hle|Hlt]; [exact Hle|nra]. Qed.

(* the purely real statement *)
Lemma real_factor_bounds (a b : nat -> R) x t e d :
  (0 < d)%nat -> 0 <= x -> 0 <= t -> 0 <= e < 1 ->
  (forall r, (r < d)%nat -> 0 <= a r) -> (forall r, (r < d)%nat -> 0 <= b r) ->
  rsum d (fun r => a r * a r) = 1 -> rsum d (fun r => b r * b r) = 1 ->
  (forall r, (r < d)%nat -> a r <= (1 + e) * x * b r + t) ->
  (forall r, (r < d)%nat -> (1 - e) * x * b r <= a r + t) ->
  (1 - INR d * t) / (1 + e) <= x /\ x <= (1 + INR d * t) / (1 - e).
Proof.
  intros Hd Hx Ht He Ha0 Hb0 Sa Sb Hlo Hup.
  assert (HdR : 1 <= INR d) by (change 1 with (INR 1); apply le_INR; lia).
  assert (Ha1 : forall r, (r < d)%nat -> a r <= 1).
  { intros r Hr. pose proof (rsum_term_le d (fun k => a k * a k) r) as H. cbv beta in H.
    rewrite Sa in H. specialize (H ltac:(intros k Hk; nra) Hr).
    specialize (Ha0 r Hr). nra. }
  assert (Hb1 : forall r, (r < d)%nat -> b r <= 1).
  { intros r Hr. pose proof (rsum_term_le d (fun k => b k * b k) r) as H. cbv beta in H.
    rewrite Sb in H. specialize (H ltac:(intros k Hk; nra) Hr).
    specialize (Hb0 r Hr). nra. }
  split.
  - set (u := (1 + e) * x).
    assert (Hu : 0 <= u) by (unfold u; apply Rmult_le_pos; lra).
    pose proof (rsum_lower a b u t Hu Ht d) as H.
    rewrite Sa, Sb in H.
    assert (H' : 1 <= u * u * 1 + 2 * t * u * INR d + INR d * (t * t)).
    { apply H; intros r Hr; split; auto. }
    assert (Hdt : 0 <= INR d * t) by (apply Rmult_le_pos; lra).
    assert (H1 : 1 <= u + INR d * t).
    { apply sq_le_le; [lra|].
      assert (INR d * (t * t) <= INR d * INR d * (t * t)).
      { assert (0 <= t * t) by nra. nra. }
      nra. }
    apply (Rmult_le_reg_r (1 + e)); [lra|].
    replace ((1 - INR d * t) / (1 + e) * (1 + e)) with (1 - INR d * t) by (field; lra).
    unfold u in H1. lra.
  - set (v := (1 - e) * x).
    assert (Hv : 0 <= v) by (unfold v; apply Rmult_le_pos; lra).
    pose proof (rsum_upper a b v t Hv Ht d) as H.
    rewrite Sa, Sb in H.
    assert (H' : v * v * 1 <= 1 + 2 * t * INR d + INR d * (t * t)).
    { apply H; intros r Hr; split; auto. }
    assert (Hdt : 0 <= INR d * t) by (apply Rmult_le_pos; lra).
    assert (H1 : v <= 1 + INR d * t).
    { apply sq_le_le; [lra|].
      assert (INR d * (t * t) <= INR d * INR d * (t * t)).
      { assert (0 <= t * t) by nra. nra. }
      nra. }
    apply (Rmult_le_reg_r (1 - e)); [lra|].
    replace ((1 + INR d * t) / (1 - e) * (1 - e)) with (1 + INR d * t) by (field; lra).
    unfold v in H1. lra.
Qed.

(* ---- columns of a unitary matrix --------------------------------------- *)

Lemma fst_gram_diag_rsum (U : list (list (R * R))) c : forall n,
  fst (csum RNum n (fun k => cmul RNum (cconj RNum (mget RNum U k c)) (mget RNum U k c)))
  = rsum n (fun k => Cabs (mget RNum U k c) * Cabs (mget RNum U k c)).
Proof.
  induction n as [|n IH].
  - reflexivity.
  - cbn [csum rsum]. rewrite fst_cadd_conj_mul, IH, Cabs_sq. reflexivity.
Qed.

Lemma unitary_column_norm d (U : list (list (R * R))) j :
  (0 < d)%nat -> unitary d U -> (j < d)%nat ->
  rsum d (fun k => Cabs (mget RNum U k j) * Cabs (mget RNum U k j)) = 1.
Proof.
  intros Hd HU Hj. rewrite <- fst_gram_diag_rsum.
  rewrite (unitary_entry d U j j Hd HU Hj Hj), Nat.eqb_refl. reflexivity.
Qed.

(* ---- (1) the factor has modulus close to 1 ----------------------------- *)

Theorem factor_modulus_bounds d (A B : list (list (R*R))) (p : R*R) j :
  (0 < d)%nat -> unitary d A -> unitary d B -> (j < d)%nat ->
  (forall r, (r < d)%nat ->
     Cabs (csub RNum (mget RNum A r j) (cmul RNum p (mget RNum B r j)))
       <= ATOL + 1 / 100000 * Cabs (cmul RNum p (mget RNum B r j)))%R ->
  ((1 - INR d * ATOL) / (1 + 1 / 100000) <= Cabs p  /\  Cabs p <= (1 + INR d * ATOL) / (1 - 1 / 100000))%R.
Proof.
  intros Hd HA HB Hj Hc.
  apply (real_factor_bounds (fun r => Cabs (mget RNum A r j)) (fun r => Cabs (mget RNum B r j))
           (Cabs p) ATOL (1 / 100000) d Hd).
  - apply Cabs_nonneg.
  - pose proof ATOL_pos. lra.
  - lra.
  - intros r _. apply Cabs_nonneg.
  - intros r _. apply Cabs_nonneg.
  - now apply unitary_column_norm.
  - now apply unitary_column_norm.
  - intros r Hr. specialize (Hc r Hr).
    pose proof (Cabs_triangle_sub_l (mget RNum A r j) (cmul RNum p (mget RNum B r j))) as Ht.
    rewrite Cabs_mul in *. lra.
  - intros r Hr. specialize (Hc r Hr).
    pose proof (Cabs_triangle_sub_r (mget RNum A r j) (cmul RNum p (mget RNum B r j))) as Ht.
    rewrite Cabs_mul in *. lra.
Qed.


(* ---- (2) corollary on the checker --------------------------------------- *)

Theorem check_factor_near_unit (g : gate R) (repl : list (gate R)) (A B : list (list (R * R))) :
  check_replacement RNum g repl = Ok tt ->
  reindexed_matrix RNum (gate_qubits g) [g] = Ok A ->
  reindexed_matrix RNum (gate_qubits g) repl = Ok B ->
  unitary (2 ^ length (gate_qubits g)) A -> unitary (2 ^ length (gate_qubits g)) B ->
  exists p i j,
    let d := (2 ^ length (gate_qubits g))%nat in
    (i < d)%nat /\ (j < d)%nat /\
    argmax_entry RNum A = Some (i, j) /\
    p = cdiv RNum (mget RNum A i j) (mget RNum B i j) /\
    (forall r c, (r < d)%nat -> (c < d)%nat ->
       Cabs (csub RNum (mget RNum A r c) (cmul RNum p (mget RNum B r c)))
       <= ATOL + 1 / 100000 * Cabs (cmul RNum p (mget RNum B r c))) /\
    (1 - INR d * ATOL) / (1 + 1 / 100000) <= Cabs p /\
    Cabs p <= (1 + INR d * ATOL) / (1 - 1 / 100000).
Proof.
  intros Hchk HA HB HuA HuB.
  destruct (check_sound g repl Hchk) as [_ [A' [B' [p [i [j H]]]]]]. cbv zeta in H.
  destruct H as [HA' [HB' [_ [_ [Hi [Hj [Harg [_ [_ [_ [Hp Hent]]]]]]]]]]].
  rewrite HA in HA'. rewrite HB in HB'.
  injection HA' as <-. injection HB' as <-.
  exists p, i, j. cbv zeta.
  split; [exact Hi|]. split; [exact Hj|]. split; [exact Harg|]. split; [exact Hp|].
  split; [exact Hent|].
  assert (Hd : (0 < 2 ^ length (gate_qubits g))%nat) by lia.
  apply (factor_modulus_bounds _ A B p j Hd HuA HuB Hj).
  intros r Hr. apply Hent; assumption.
Qed.

(* ---- (3) non-vacuity ------------------------------------------------------ *)

Example factor_modulus_bounds_nonvacuous :
  (0 < 2)%nat /\ unitary 2 (eye RNum 2) /\ unitary 2 (eye RNum 2) /\ (0 < 2)%nat /\
  (forall r, (r < 2)%nat ->
     Cabs (csub RNum (mget RNum (eye RNum 2) r 0) (cmul RNum (1, 0) (mget RNum (eye RNum 2) r 0)))
       <= ATOL + 1 / 100000 * Cabs (cmul RNum (1, 0) (mget RNum (eye RNum 2) r 0))) /\
  (1 - INR 2 * ATOL) / (1 + 1 / 100000) <= Cabs (1, 0) /\
  Cabs (1, 0) <= (1 + INR 2 * ATOL) / (1 - 1 / 100000).
Proof.
  assert (H2 : (0 < 2)%nat) by lia.
  assert (HU : unitary 2 (eye RNum 2)) by (apply unitary_eye; lia).
  assert (Hc : forall r, (r < 2)%nat ->
     Cabs (csub RNum (mget RNum (eye RNum 2) r 0) (cmul RNum (1, 0) (mget RNum (eye RNum 2) r 0)))
       <= ATOL + 1 / 100000 * Cabs (cmul RNum (1, 0) (mget RNum (eye RNum 2) r 0))).
  { intros r Hr.
    change (1, 0) with (cone RNum). rewrite cmulR_1_l, Cabs_sub_self.
    pose proof ATOL_pos. pose proof (Cabs_nonneg (mget RNum (eye RNum 2) r 0)). nra. }
  split; [exact H2|]. split; [exact HU|]. split; [exact HU|]. split; [exact H2|].
  split; [exact Hc|].
  exact (factor_modulus_bounds 2 (eye RNum 2) (eye RNum 2) (1, 0) 0 H2 HU HU H2 Hc).
Qed.


(* ---- sharper constant: sqrt d * ATOL -------------------------------------- *)

Lemma rsum_cauchy_schwarz f : forall n,
  rsum n f * rsum n f <= INR n * rsum n (fun k => f k * f k).
Proof.
  induction n as [|n IH].
  - cbn [rsum INR]. lra.
  - cbn [rsum]. rewrite S_INR.
    set (S := rsum n f) in *. set (Q := rsum n (fun k => f k * f k)) in *. set (b := f n).
    destruct n as [|n].
    + cbn [rsum INR] in *. subst S Q. cbn [rsum]. nra.
    + assert (Hn : 0 < INR (Datatypes.S n)) by (apply lt_0_INR; lia).
      set (m := INR (Datatypes.S n)) in *.
      pose proof (Rle_0_sqr (S - m * b)) as Hsq. unfold Rsqr in Hsq.
      assert (H1 : m * (2 * S * b) <= m * (Q + m * (b * b))) by nra.
      assert (H2 : 2 * S * b <= Q + m * (b * b)) by (apply (Rmult_le_reg_l m); assumption).
      nra.
Qed.

Lemma rsum_lower2 (a b : nat -> R) u t : 0 <= u -> 0 <= t -> forall n,
  (forall r, (r < n)%nat -> 0 <= a r <= u * b r + t) ->
  rsum n (fun r => a r * a r)
  <= u * u * rsum n (fun r => b r * b r) + 2 * t * u * rsum n b + INR n * (t * t).
Proof.
  intros Hu Ht. induction n as [|n IH]; intros Ha.
  - cbn [rsum INR]. lra.
  - cbn [rsum]. rewrite S_INR.
    assert (IH' := IH ltac:(intros r Hr; apply Ha; lia)).
    specialize (Ha n ltac:(lia)).
    set (an := a n) in *. set (bn := b n) in *.
    assert (H1 : an * an <= (u * bn + t) * (u * bn + t)) by nra.
    nra.
Qed.

Lemma rsum_upper2 (a b : nat -> R) v t : 0 <= v -> 0 <= t -> forall n,
  (forall r, (r < n)%nat -> 0 <= b r /\ v * b r <= a r + t) ->
  v * v * rsum n (fun r => b r * b r)
  <= rsum n (fun r => a r * a r) + 2 * t * rsum n a + INR n * (t * t).
Proof.
  intros Hv Ht. induction n as [|n IH]; intros Hb.
  - cbn [rsum INR]. lra.
  - cbn [rsum]. rewrite S_INR.
    assert (IH' := IH ltac:(intros r Hr; apply Hb; lia)).
    specialize (Hb n ltac:(lia)).
    set (an := a n) in *. set (bn := b n) in *.
    assert (H0 : 0 <= v * bn) by (apply Rmult_le_pos; lra).
    assert (H1 : (v * bn) * (v * bn) <= (an + t) * (an + t)) by nra.
    replace (v * v * (rsum n (fun r => b r * b r) + bn * bn))
      with (v * v * rsum n (fun r => b r * b r) + (v * bn) * (v * bn)) by ring.
    nra.
Qed.

Lemma real_factor_bounds_sqrt (a b : nat -> R) x t e d :
  (0 < d)%nat -> 0 <= x -> 0 <= t -> 0 <= e < 1 ->
  (forall r, (r < d)%nat -> 0 <= a r) -> (forall r, (r < d)%nat -> 0 <= b r) ->
  rsum d (fun r => a r * a r) = 1 -> rsum d (fun r => b r * b r) = 1 ->
  (forall r, (r < d)%nat -> a r <= (1 + e) * x * b r + t) ->
  (forall r, (r < d)%nat -> (1 - e) * x * b r <= a r + t) ->
  (1 - sqrt (INR d) * t) / (1 + e) <= x /\ x <= (1 + sqrt (INR d) * t) / (1 - e).
Proof.
  intros Hd Hx Ht He Ha0 Hb0 Sa Sb Hlo Hup.
  assert (HdR : 0 < INR d) by (apply lt_0_INR; exact Hd).
  set (s := sqrt (INR d)).
  assert (Hs : 0 <= s) by apply sqrt_pos.
  assert (Hss : s * s = INR d) by (apply sqrt_sqrt; lra).
  assert (HSa : rsum d a <= s).
  { apply sq_le_le; [exact Hs|]. pose proof (rsum_cauchy_schwarz a d) as H.
    rewrite Sa in H. lra. }
  assert (HSb : rsum d b <= s).
  { apply sq_le_le; [exact Hs|]. pose proof (rsum_cauchy_schwarz b d) as H.
    rewrite Sb in H. lra. }
  clearbody s.
  assert (Hst : 0 <= s * t) by (apply Rmult_le_pos; lra).
  split.
  - set (u := (1 + e) * x).
    assert (Hu : 0 <= u) by (unfold u; apply Rmult_le_pos; lra).
    pose proof (rsum_lower2 a b u t Hu Ht d) as H.
    rewrite Sa, Sb in H.
    assert (H' : 1 <= u * u * 1 + 2 * t * u * rsum d b + INR d * (t * t)).
    { apply H; intros r Hr; split; auto. }
    assert (H1 : 1 <= u + s * t).
    { apply sq_le_le; [lra|].
      assert (2 * t * u * rsum d b <= 2 * t * u * s).
      { assert (0 <= 2 * t * u) by nra. nra. }
      rewrite <- Hss in H'. nra. }
    apply (Rmult_le_reg_r (1 + e)); [lra|].
    replace ((1 - s * t) / (1 + e) * (1 + e)) with (1 - s * t) by (field; lra).
    unfold u in H1. lra.
  - set (v := (1 - e) * x).
    assert (Hv : 0 <= v) by (unfold v; apply Rmult_le_pos; lra).
    pose proof (rsum_upper2 a b v t Hv Ht d) as H.
    rewrite Sa, Sb in H.
    assert (H' : v * v * 1 <= 1 + 2 * t * rsum d a + INR d * (t * t)).
    { apply H; intros r Hr; split; auto. }
    assert (H1 : v <= 1 + s * t).
    { apply sq_le_le; [lra|].
      assert (2 * t * rsum d a <= 2 * t * s) by nra.
      rewrite <- Hss in H'. nra. }
    apply (Rmult_le_reg_r (1 - e)); [lra|].
    replace ((1 + s * t) / (1 - e) * (1 - e)) with (1 + s * t) by (field; lra).
    unfold v in H1. lra.
Qed.

Theorem factor_modulus_bounds_sqrt d (A B : list (list (R*R))) (p : R*R) j :
  (0 < d)%nat -> unitary d A -> unitary d B -> (j < d)%nat ->
  (forall r, (r < d)%nat ->
     Cabs (csub RNum (mget RNum A r j) (cmul RNum p (mget RNum B r j)))
       <= ATOL + 1 / 100000 * Cabs (cmul RNum p (mget RNum B r j)))%R ->
  ((1 - sqrt (INR d) * ATOL) / (1 + 1 / 100000) <= Cabs p  /\
   Cabs p <= (1 + sqrt (INR d) * ATOL) / (1 - 1 / 100000))%R.
Proof.
  intros Hd HA HB Hj Hc.
  apply (real_factor_bounds_sqrt (fun r => Cabs (mget RNum A r j)) (fun r => Cabs (mget RNum B r j))
           (Cabs p) ATOL (1 / 100000) d Hd).
  - apply Cabs_nonneg.
  - pose proof ATOL_pos. lra.
  - lra.
  - intros r _. apply Cabs_nonneg.
  - intros r _. apply Cabs_nonneg.
  - now apply unitary_column_norm.
  - now apply unitary_column_norm.
  - intros r Hr. specialize (Hc r Hr).
    pose proof (Cabs_triangle_sub_l (mget RNum A r j) (cmul RNum p (mget RNum B r j))) as Ht.
    rewrite Cabs_mul in *. lra.
  - intros r Hr. specialize (Hc r Hr).
    pose proof (Cabs_triangle_sub_r (mget RNum A r j) (cmul RNum p (mget RNum B r j))) as Ht.
    rewrite Cabs_mul in *. lra.
Qed.

(* the checker corollary with the sharper constant *)
Theorem check_factor_near_unit_sqrt (g : gate R) (repl : list (gate R)) (A B : list (list (R * R))) :
  check_replacement RNum g repl = Ok tt ->
  reindexed_matrix RNum (gate_qubits g) [g] = Ok A ->
  reindexed_matrix RNum (gate_qubits g) repl = Ok B ->
  unitary (2 ^ length (gate_qubits g)) A -> unitary (2 ^ length (gate_qubits g)) B ->
  exists p i j,
    let d := (2 ^ length (gate_qubits g))%nat in
    (i < d)%nat /\ (j < d)%nat /\
    argmax_entry RNum A = Some (i, j) /\
    p = cdiv RNum (mget RNum A i j) (mget RNum B i j) /\
    (1 - sqrt (INR d) * ATOL) / (1 + 1 / 100000) <= Cabs p /\
    Cabs p <= (1 + sqrt (INR d) * ATOL) / (1 - 1 / 100000).
Proof.
  intros Hchk HA HB HuA HuB.
  destruct (check_factor_near_unit g repl A B Hchk HA HB HuA HuB) as [p [i [j H]]].
  cbv zeta in H. destruct H as [Hi [Hj [Harg [Hp [Hent _]]]]].
  exists p, i, j. cbv zeta.
  split; [exact Hi|]. split; [exact Hj|]. split; [exact Harg|]. split; [exact Hp|].
  assert (Hd : (0 < 2 ^ length (gate_qubits g))%nat) by lia.
  apply (factor_modulus_bounds_sqrt _ A B p j Hd HuA HuB Hj).
  intros r Hr. apply Hent; assumption.
Qed.

Print Assumptions factor_modulus_bounds.
Print Assumptions check_factor_near_unit.
Print Assumptions factor_modulus_bounds_nonvacuous.
Print Assumptions factor_modulus_bounds_sqrt.
Print Assumptions check_factor_near_unit_sqrt.
