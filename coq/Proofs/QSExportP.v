(* QSExportP.v — the quantify-scheduler exporter (Model/QSExport.v,
   exporter/quantify_scheduler_exporter.py as repaired).

   Structural part (any T, any N : Num T; closed under the global context):
     one schedule operation per non-comment statement, in order; acquisition
     index = number of earlier measurements on the same acq_index_record slot;
     bit map = last write; the first unsupported gate / bad index decides the
     error; comments contribute nothing.
   Numeric part (RNum, exact regime): Rxy / Rz denote the rotation they are
   exported from; CNOT / CZ are emitted only for targets that are == X / Z. *)
From Coq Require Import String ZArith List Bool Lia.
Import ListNotations.
From OSQ Require Import Num IR Construct DefaultTable Check QSExport.
(* the model files leave string_scope open; lists first here *)
Open Scope list_scope.

(* ------------------------------------------------------------------ *)
(** * Python list indexing and in-place update *)

Lemma py_index_some len i k :
  py_index len i = Some k <->
  ((0 <= i < Z.of_nat len)%Z /\ k = Z.to_nat i) \/
  ((- Z.of_nat len <= i < 0)%Z /\ k = Z.to_nat (Z.of_nat len + i)).
Proof.
  unfold py_index.
  destruct (Z.leb_spec 0 i) as [H0|H0].
  - destruct (Z.ltb_spec i (Z.of_nat len)) as [H1|H1].
    + split.
      * intros E; inversion E; subst; left; lia.
      * intros [[_ E]|[H2 _]]; [subst; reflexivity | lia].
    + split; [discriminate | intros [[H2 _]|[H2 _]]; lia].
  - destruct (Z.leb_spec (- Z.of_nat len) i) as [H1|H1].
    + split.
      * intros E; inversion E; subst; right; lia.
      * intros [[H2 _]|[_ E]]; [lia | subst; reflexivity].
    + split; [discriminate | intros [[H2 _]|[H2 _]]; lia].
Qed.

(* exactly what the model (and a Python list) accepts: -len <= i < len *)
Lemma py_index_none len i :
  py_index len i = None <-> (i < - Z.of_nat len \/ Z.of_nat len <= i)%Z.
Proof.
  destruct (py_index len i) as [k|] eqn:E.
  - apply py_index_some in E. split; [discriminate | lia].
  - split; [intros _ | reflexivity].
    destruct (Z_lt_le_dec i (- Z.of_nat len)) as [Hl|Hl]; [left; exact Hl|].
    destruct (Z_lt_le_dec i (Z.of_nat len)) as [Hr|Hr]; [|right; exact Hr].
    exfalso.
    assert (Hs : exists k, py_index len i = Some k).
    { destruct (Z_lt_le_dec i 0).
      - exists (Z.to_nat (Z.of_nat len + i)). apply py_index_some. right. lia.
      - exists (Z.to_nat i). apply py_index_some. left. lia. }
    destruct Hs as [k Hk]. rewrite Hk in E. discriminate.
Qed.

Lemma py_index_in_range len i :
  (exists k, py_index len i = Some k) <-> (- Z.of_nat len <= i < Z.of_nat len)%Z.
Proof.
  split.
  - intros [k Hk]. apply py_index_some in Hk. lia.
  - intros H. destruct (py_index len i) as [k|] eqn:E; [eauto|].
    apply py_index_none in E. lia.
Qed.

Lemma py_index_lt len i k : py_index len i = Some k -> k < len.
Proof. intros H. apply py_index_some in H. lia. Qed.

(* the slot is i mod len, as for a Python list *)
Lemma py_index_mod len i k : py_index len i = Some k -> Z.of_nat k = (i mod Z.of_nat len)%Z.
Proof.
  intros H. apply py_index_some in H. destruct H as [[H ->]|[H ->]].
  - rewrite Z.mod_small by lia. lia.
  - apply Z.mod_unique_pos with (q := (-1)%Z); lia.
Qed.

Lemma py_index_nonneg len i : (0 <= i < Z.of_nat len)%Z -> py_index len i = Some (Z.to_nat i).
Proof. intros H. apply py_index_some. left. lia. Qed.

Lemma list_upd_length {A} (l : list A) i x : length (list_upd l i x) = length l.
Proof. revert i; induction l as [|a l IH]; intros [|i]; simpl; auto. Qed.

Lemma nth_list_upd_eq {A} (l : list A) i x d : i < length l -> nth i (list_upd l i x) d = x.
Proof.
  revert i; induction l as [|a l IH]; intros [|i] H; simpl in *; try lia; auto.
  apply IH; lia.
Qed.

Lemma nth_list_upd_neq {A} (l : list A) i j x d : i <> j -> nth j (list_upd l i x) d = nth j l d.
Proof.
  revert i j; induction l as [|a l IH]; intros [|i] [|j] H; simpl; auto; try lia.
Qed.

Lemma Forall2_len {A B} (R : A -> B -> Prop) l l' : Forall2 R l l' -> length l = length l'.
Proof. induction 1; simpl; auto. Qed.

(* ------------------------------------------------------------------ *)
(** * Structural theorems, for any number type *)

Section Structural.
  Context {T : Type} (N : Num T).
  Notation qsop := (qsop T).
  Notation bitmap := (list (option (Z * Z))).

  Definition is_comment (s : stmt T) : bool :=
    match s with SComment _ => true | _ => false end.
  Definition non_comment (s : stmt T) : bool := negb (is_comment s).
  (* the statements that produce a schedule operation *)
  Definition code (ir : list (stmt T)) : list (stmt T) := filter non_comment ir.

  (* what one statement is exported as *)
  Inductive exported : stmt T -> qsop -> Prop :=
  | ex_gate o g gi op : export_gate N g = Ok op -> exported (SGate o g gi) op
  | ex_measure o q b ax gi idx : exported (SMeasure o q b ax gi) (QMeasure q q idx)
  | ex_reset o q gi : exported (SReset o q gi) (QReset q).

  (** ** the loop as a state machine *)

  Definition state : Type := (list Z * bitmap * list qsop)%type.
  Definition st_acq (x : state) : list Z := fst (fst x).
  Definition st_bm (x : state) : bitmap := snd (fst x).
  Definition st_out (x : state) : list qsop := snd x.

  Definition step (s : stmt T) (x : state) : result state :=
    match s with
    | SComment _ => Ok x
    | SGate _ g _ =>
        match export_gate N g with
        | Err e => Err e
        | Ok op => Ok (st_acq x, st_bm x, op :: st_out x)
        end
    | SMeasure _ q b _ _ =>
        match py_index (length (st_acq x)) q with
        | None => Err EIndex
        | Some qi =>
            match py_index (length (st_bm x)) b with
            | None => Err EIndex
            | Some bi =>
                Ok (list_upd (st_acq x) qi (nth qi (st_acq x) 0 + 1)%Z,
                    list_upd (st_bm x) bi (Some (nth qi (st_acq x) 0%Z, q)),
                    QMeasure q q (nth qi (st_acq x) 0%Z) :: st_out x)
            end
        end
    | SReset _ q _ => Ok (st_acq x, st_bm x, QReset q :: st_out x)
    end.

  Fixpoint run (ir : list (stmt T)) (x : state) : result state :=
    match ir with
    | [] => Ok x
    | s :: rest => match step s x with Err e => Err e | Ok y => run rest y end
    end.

  Definition finish (r : result state) : result (list qsop * bitmap) :=
    match r with Ok y => Ok (rev (st_out y), st_bm y) | Err e => Err e end.

  Definition init (nq nb : Z) : state :=
    (repeat 0%Z (Z.to_nat nq), repeat None (Z.to_nat nb), []).

  Lemma export_loop_run ir : forall acq bm out,
    export_loop N ir acq bm out = finish (run ir (acq, bm, out)).
  Proof.
    induction ir as [|s ir IH]; intros acq bm out; [reflexivity|].
    destruct s as [o g gi|o q b ax gi|o q gi|t];
      cbn [export_loop run step st_acq st_bm st_out fst snd].
    - destruct (export_gate N g); [apply IH | reflexivity].
    - destruct (py_index (length acq) q); [|reflexivity].
      destruct (py_index (length bm) b); [apply IH | reflexivity].
    - apply IH.
    - apply IH.
  Qed.

  Lemma export_qs_run nq nb ir : export_qs N nq nb ir = finish (run ir (init nq nb)).
  Proof. apply export_loop_run. Qed.

  Lemma finish_ok_inv r ops bm :
    finish r = Ok (ops, bm) -> exists y, r = Ok y /\ ops = rev (st_out y) /\ bm = st_bm y.
  Proof.
    destruct r as [y|e]; cbn [finish]; intros H; inversion H; subst. eauto.
  Qed.

  Lemma export_qs_ok_inv nq nb ir ops bm :
    export_qs N nq nb ir = Ok (ops, bm) ->
    exists y, run ir (init nq nb) = Ok y /\ ops = rev (st_out y) /\ bm = st_bm y.
  Proof. rewrite export_qs_run. apply finish_ok_inv. Qed.

  Lemma export_qs_ok_run nq nb ir r :
    export_qs N nq nb ir = Ok r -> exists y, run ir (init nq nb) = Ok y.
  Proof.
    destruct r as [ops bm]. intros H. apply export_qs_ok_inv in H.
    destruct H as [y [H _]]. eauto.
  Qed.

  Lemma run_app a b x :
    run (a ++ b) x = match run a x with Err e => Err e | Ok y => run b y end.
  Proof.
    revert x; induction a as [|s a IH]; intros x; cbn [app run]; [reflexivity|].
    destruct (step s x); auto.
  Qed.

  Lemma run_app_ok_inv a b x z :
    run (a ++ b) x = Ok z -> exists y, run a x = Ok y /\ run b y = Ok z.
  Proof. rewrite run_app. destruct (run a x) as [y|e]; [eauto | discriminate]. Qed.

  Lemma run_cons_ok_inv s b x z :
    run (s :: b) x = Ok z -> exists y, step s x = Ok y /\ run b y = Ok z.
  Proof. cbn [run]. destruct (step s x) as [y|e]; [eauto | discriminate]. Qed.

  (** ** one operation per statement, in order *)

  Lemma step_out s x y : step s x = Ok y ->
    (is_comment s = true /\ y = x) \/
    (is_comment s = false /\ exists op, exported s op /\ st_out y = op :: st_out x).
  Proof.
    destruct s as [o g gi|o q b ax gi|o q gi|t]; cbn [step is_comment]; intros H.
    - right. split; [reflexivity|].
      destruct (export_gate N g) as [op|e] eqn:E; [|discriminate].
      inversion H; subst. exists op. split; [constructor; exact E | reflexivity].
    - right. split; [reflexivity|].
      destruct (py_index (length (st_acq x)) q) as [qi|]; [|discriminate].
      destruct (py_index (length (st_bm x)) b) as [bi|]; [|discriminate].
      inversion H; subst. eexists. split; [constructor | reflexivity].
    - right. split; [reflexivity|]. inversion H; subst.
      eexists. split; [constructor | reflexivity].
    - left. split; [reflexivity|]. inversion H; reflexivity.
  Qed.

  Lemma run_out ir : forall x y, run ir x = Ok y ->
    exists ops, st_out y = rev ops ++ st_out x /\ Forall2 exported (code ir) ops.
  Proof.
    induction ir as [|s ir IH]; intros x y H.
    - inversion H; subst. exists []. split; [reflexivity | constructor].
    - apply run_cons_ok_inv in H. destruct H as [x1 [Hs Hr]].
      destruct (IH _ _ Hr) as [ops [Ho Hf]].
      unfold code in *. cbn [filter]. unfold non_comment at 1.
      destruct (step_out _ _ _ Hs) as [[Hc ->]|[Hc [op [He Hx]]]]; rewrite Hc; cbn [negb].
      + exists ops. split; assumption.
      + exists (op :: ops). split.
        * rewrite Ho, Hx. cbn [rev]. rewrite <- app_assoc. reflexivity.
        * constructor; assumption.
  Qed.

  (* 1. every non-comment statement yields exactly one operation, in order *)
  Theorem export_one_per_stmt nq nb ir ops bm :
    export_qs N nq nb ir = Ok (ops, bm) ->
    Forall2 exported (code ir) ops /\ length ops = length (code ir).
  Proof.
    intros H. apply export_qs_ok_inv in H. destruct H as [y [Hr [-> _]]].
    destruct (run_out _ _ _ Hr) as [ops [Ho Hf]].
    cbn [init st_out snd] in Ho. rewrite app_nil_r in Ho.
    rewrite Ho, rev_involutive. split; [exact Hf|].
    symmetry. eapply Forall2_len; eauto.
  Qed.

  (** ** acquisition indices *)

  (* statement s is a measurement landing on slot sl of acq_index_record *)
  Definition meas_slot (lenq sl : nat) (s : stmt T) : bool :=
    match s with
    | SMeasure _ q _ _ _ =>
        match py_index lenq q with Some k => Nat.eqb k sl | None => false end
    | _ => false
    end.
  Definition meas_count (lenq sl : nat) (ir : list (stmt T)) : Z :=
    Z.of_nat (length (filter (meas_slot lenq sl) ir)).

  Lemma meas_count_cons lenq sl s ir :
    meas_count lenq sl (s :: ir) =
    ((if meas_slot lenq sl s then 1 else 0) + meas_count lenq sl ir)%Z.
  Proof.
    unfold meas_count. cbn [filter]. destruct (meas_slot lenq sl s); cbn [length]; lia.
  Qed.

  Lemma step_measure_inv o q b ax gi x y :
    step (SMeasure o q b ax gi) x = Ok y ->
    exists sl bi,
      py_index (length (st_acq x)) q = Some sl /\
      py_index (length (st_bm x)) b = Some bi /\
      y = (list_upd (st_acq x) sl (nth sl (st_acq x) 0 + 1)%Z,
           list_upd (st_bm x) bi (Some (nth sl (st_acq x) 0%Z, q)),
           QMeasure q q (nth sl (st_acq x) 0%Z) :: st_out x).
  Proof.
    cbn [step]. intros H.
    destruct (py_index (length (st_acq x)) q) as [qi|]; [|discriminate].
    destruct (py_index (length (st_bm x)) b) as [bi|]; [|discriminate].
    inversion H; subst. exists qi, bi. auto.
  Qed.

  Lemma step_acq s x y : step s x = Ok y ->
    length (st_acq y) = length (st_acq x) /\
    forall sl, nth sl (st_acq y) 0%Z =
               (nth sl (st_acq x) 0 + (if meas_slot (length (st_acq x)) sl s then 1 else 0))%Z.
  Proof.
    destruct s as [o g gi|o q b ax gi|o q gi|t]; intros H.
    - cbn [step] in H. destruct (export_gate N g); [|discriminate].
      inversion H; subst. cbn [st_acq fst meas_slot]. split; [reflexivity | intros; lia].
    - apply step_measure_inv in H. destruct H as [qi [bi [Hq [Hb ->]]]].
      cbn [st_acq fst meas_slot]. split; [apply list_upd_length|].
      intros sl. change (fst (fst x)) with (st_acq x). rewrite Hq.
      destruct (Nat.eqb_spec qi sl) as [->|Hne].
      + rewrite nth_list_upd_eq by (eapply py_index_lt; eauto). reflexivity.
      + rewrite nth_list_upd_neq by assumption. lia.
    - cbn [step] in H. inversion H; subst. cbn [st_acq fst meas_slot].
      split; [reflexivity | intros; lia].
    - cbn [step] in H. inversion H; subst. cbn [meas_slot].
      split; [reflexivity | intros; lia].
  Qed.

  (* the generalised loop invariant: slot sl of the record has been advanced
     once per measurement processed on that slot *)
  Lemma run_acq ir : forall x y, run ir x = Ok y ->
    length (st_acq y) = length (st_acq x) /\
    forall sl, nth sl (st_acq y) 0%Z =
               (nth sl (st_acq x) 0 + meas_count (length (st_acq x)) sl ir)%Z.
  Proof.
    induction ir as [|s ir IH]; intros x y H.
    - inversion H; subst. split; [reflexivity|]. intros sl. unfold meas_count. cbn. lia.
    - apply run_cons_ok_inv in H. destruct H as [x1 [Hs Hr]].
      destruct (step_acq _ _ _ Hs) as [L1 C1]. destruct (IH _ _ Hr) as [L2 C2].
      split; [congruence|]. intros sl.
      rewrite C2, C1, L1, meas_count_cons. lia.
  Qed.

  Lemma step_bm_length s x y : step s x = Ok y -> length (st_bm y) = length (st_bm x).
  Proof.
    destruct s as [o g gi|o q b ax gi|o q gi|t]; intros H.
    - cbn [step] in H. destruct (export_gate N g); [|discriminate]. inversion H; reflexivity.
    - apply step_measure_inv in H. destruct H as [qi [bi [Hq [Hb ->]]]].
      cbn [st_bm fst snd]. apply list_upd_length.
    - cbn [step] in H. inversion H; reflexivity.
    - cbn [step] in H. inversion H; reflexivity.
  Qed.

  Lemma run_bm_length ir : forall x y, run ir x = Ok y -> length (st_bm y) = length (st_bm x).
  Proof.
    induction ir as [|s ir IH]; intros x y H.
    - inversion H; reflexivity.
    - apply run_cons_ok_inv in H. destruct H as [x1 [Hs Hr]].
      rewrite (IH _ _ Hr). eapply step_bm_length; eauto.
  Qed.

  Lemma init_acq_length nq nb : length (st_acq (init nq nb)) = Z.to_nat nq.
  Proof. cbn [init st_acq fst]. apply repeat_length. Qed.
  Lemma init_bm_length nq nb : length (st_bm (init nq nb)) = Z.to_nat nb.
  Proof. cbn [init st_bm fst snd]. apply repeat_length. Qed.
  Lemma init_acq_nth nq nb sl : nth sl (st_acq (init nq nb)) 0%Z = 0%Z.
  Proof. cbn [init st_acq fst]. apply nth_repeat. Qed.
  Lemma init_bm_nth nq nb bi : nth bi (st_bm (init nq nb)) None = None.
  Proof. cbn [init st_bm fst snd]. apply nth_repeat. Qed.

  (* a run through [pre ++ measure :: post], split at the measurement *)
  Lemma run_measure_split pre o q b ax gi post nq nb z :
    run (pre ++ SMeasure o q b ax gi :: post) (init nq nb) = Ok z ->
    exists y sl bi,
      run pre (init nq nb) = Ok y /\
      py_index (Z.to_nat nq) q = Some sl /\
      py_index (Z.to_nat nb) b = Some bi /\
      nth sl (st_acq y) 0%Z = meas_count (Z.to_nat nq) sl pre /\
      length (st_bm y) = Z.to_nat nb /\
      run post (list_upd (st_acq y) sl (nth sl (st_acq y) 0 + 1)%Z,
                list_upd (st_bm y) bi (Some (nth sl (st_acq y) 0%Z, q)),
                QMeasure q q (nth sl (st_acq y) 0%Z) :: st_out y) = Ok z.
  Proof.
    intros H. apply run_app_ok_inv in H. destruct H as [y [Hpre H]].
    apply run_cons_ok_inv in H. destruct H as [y2 [Hs Hpost]].
    apply step_measure_inv in Hs. destruct Hs as [sl [bi [Hq [Hb ->]]]].
    destruct (run_acq _ _ _ Hpre) as [La Ca].
    pose proof (run_bm_length _ _ _ Hpre) as Lb.
    rewrite init_acq_length in La. rewrite init_bm_length in Lb.
    rewrite La in Hq. rewrite Lb in Hb.
    exists y, sl, bi. repeat split; try assumption.
    rewrite Ca, init_acq_nth, init_acq_length. lia.
  Qed.

  (* 2. (general form) the measurement statement standing after [pre] is
     exported as Measure(q, acq_channel = q, acq_index = number of earlier
     measurements on the same slot of acq_index_record) *)
  Theorem export_measure_at nq nb pre o q b ax gi post ops bm :
    export_qs N nq nb (pre ++ SMeasure o q b ax gi :: post) = Ok (ops, bm) ->
    exists sl bi ops1 ops2,
      py_index (Z.to_nat nq) q = Some sl /\
      py_index (Z.to_nat nb) b = Some bi /\
      ops = ops1 ++ QMeasure q q (meas_count (Z.to_nat nq) sl pre) :: ops2 /\
      Forall2 exported (code pre) ops1 /\ Forall2 exported (code post) ops2.
  Proof.
    intros H. apply export_qs_ok_inv in H. destruct H as [z [Hr [-> _]]].
    apply run_measure_split in Hr.
    destruct Hr as [y [sl [bi [Hpre [Hq [Hb [Hc [_ Hpost]]]]]]]].
    destruct (run_out _ _ _ Hpre) as [ops1 [Ho1 Hf1]].
    destruct (run_out _ _ _ Hpost) as [ops2 [Ho2 Hf2]].
    cbn [init st_out snd] in Ho1, Ho2. rewrite app_nil_r in Ho1.
    exists sl, bi, ops1, ops2. repeat split; try assumption.
    rewrite Ho2. change (snd y) with (st_out y). rewrite Ho1, Hc.
    rewrite rev_app_distr, rev_involutive. cbn [rev]. rewrite rev_involutive.
    rewrite <- app_assoc. reflexivity.
  Qed.

  Corollary acq_index_spec_slot nq nb pre o q b ax gi post ops bm :
    export_qs N nq nb (pre ++ SMeasure o q b ax gi :: post) = Ok (ops, bm) ->
    exists sl, py_index (Z.to_nat nq) q = Some sl /\
      nth_error ops (length (code pre)) =
      Some (QMeasure q q (meas_count (Z.to_nat nq) sl pre)).
  Proof.
    intros H. apply export_measure_at in H.
    destruct H as [sl [bi [ops1 [ops2 [Hq [_ [-> [Hf1 _]]]]]]]].
    exists sl. split; [exact Hq|].
    rewrite (Forall2_len _ _ _ Hf1).
    rewrite nth_error_app2 by lia. rewrite Nat.sub_diag. reflexivity.
  Qed.

  (* the reading "measurements of that same qubit": no negative (aliasing) indices *)
  Definition qubits_nonneg (ir : list (stmt T)) : Prop :=
    forall o q b ax gi, In (SMeasure o q b ax gi) ir -> (0 <= q)%Z.
  Definition bits_nonneg (ir : list (stmt T)) : Prop :=
    forall o q b ax gi, In (SMeasure o q b ax gi) ir -> (0 <= b)%Z.
  Definition meas_of (q : Z) (s : stmt T) : bool :=
    match s with SMeasure _ q' _ _ _ => Z.eqb q' q | _ => false end.
  Definition meas_into (b : Z) (s : stmt T) : bool :=
    match s with SMeasure _ _ b' _ _ => Z.eqb b' b | _ => false end.
  (* number of measurement statements of qubit q in a prefix *)
  Definition earlier_meas (q : Z) (pre : list (stmt T)) : Z :=
    Z.of_nat (length (filter (meas_of q) pre)).

  Lemma meas_count_nonneg lenq q pre :
    (0 <= q < Z.of_nat lenq)%Z -> qubits_nonneg pre ->
    meas_count lenq (Z.to_nat q) pre = earlier_meas q pre.
  Proof.
    intros Hq Hn. unfold meas_count, earlier_meas. f_equal. f_equal.
    apply filter_ext_in. intros s Hin.
    destruct s as [o g gi|o q' b ax gi|o q' gi|t]; cbn [meas_slot meas_of]; try reflexivity.
    pose proof (Hn _ _ _ _ _ Hin) as Hq'.
    destruct (py_index lenq q') as [k|] eqn:E.
    - apply py_index_some in E. destruct E as [[E ->]|[E _]]; [|lia].
      destruct (Nat.eqb_spec (Z.to_nat q') (Z.to_nat q)); destruct (Z.eqb_spec q' q);
        try reflexivity; lia.
    - apply py_index_none in E. destruct (Z.eqb_spec q' q); [lia | reflexivity].
  Qed.

  (* 2. the k-th measurement of qubit q (k = number of EARLIER measurements of
     q) gets acq_index = k and acq_channel = q *)
  Theorem acq_index_spec nq nb pre o q b ax gi post ops bm :
    export_qs N nq nb (pre ++ SMeasure o q b ax gi :: post) = Ok (ops, bm) ->
    (0 <= q < nq)%Z -> qubits_nonneg pre ->
    nth_error ops (length (code pre)) = Some (QMeasure q q (earlier_meas q pre)).
  Proof.
    intros H Hq Hn. apply acq_index_spec_slot in H. destruct H as [sl [Hs H]].
    rewrite py_index_nonneg in Hs by lia. inversion Hs; subst sl.
    rewrite meas_count_nonneg in H by (auto; lia). exact H.
  Qed.

  (* why [qubits_nonneg] is there: Python list indexing lets -1 alias the last
     qubit; the acquisition index counts per slot, the channel is the raw index *)
  Lemma acq_index_negative_alias (ax : axis3 T) :
    export_qs N 1 1 [SMeasure 1 (-1) 0 ax anon; SMeasure 2 0 0 ax anon] =
    Ok ([QMeasure (-1) (-1) 0; QMeasure 0 0 1], [Some (1%Z, 0%Z)]).
  Proof. reflexivity. Qed.

  (* the statement of [acq_index_spec] with only 0 <= q < nq assumed (nothing
     about the other measurements) is false in the model, as it is in Python *)
  Lemma acq_index_spec_without_nonneg_refuted :
    exists nq nb pre o q b ax gi post ops bm,
      export_qs N nq nb (pre ++ SMeasure o q b ax gi :: post) = Ok (ops, bm) /\
      (0 <= q < nq)%Z /\
      nth_error ops (length (code pre)) <> Some (QMeasure q q (earlier_meas q pre)).
  Proof.
    pose (ax := (nofZ N 0, nofZ N 0, nofZ N 1) : axis3 T).
    exists 1%Z, 1%Z, [SMeasure 1 (-1) 0 ax anon], 2%positive, 0%Z, 0%Z, ax, anon, [].
    eexists. eexists. split; [reflexivity|]. split; [lia|].
    cbn. intros H. inversion H.
  Qed.

  (** ** the bit map *)

  (* statement s is a measurement writing slot bi of bit_string_mapping *)
  Definition writes_bit (lenb bi : nat) (s : stmt T) : bool :=
    match s with
    | SMeasure _ _ b _ _ =>
        match py_index lenb b with Some k => Nat.eqb k bi | None => false end
    | _ => false
    end.
  Definition no_write (lenb bi : nat) (ir : list (stmt T)) : Prop :=
    forallb (fun s => negb (writes_bit lenb bi s)) ir = true.

  Lemma step_bm_untouched s x y bi : step s x = Ok y ->
    writes_bit (length (st_bm x)) bi s = false ->
    nth bi (st_bm y) None = nth bi (st_bm x) None.
  Proof.
    destruct s as [o g gi|o q b ax gi|o q gi|t]; intros H Hw.
    - cbn [step] in H. destruct (export_gate N g); [|discriminate]. inversion H; reflexivity.
    - apply step_measure_inv in H. destruct H as [qi [bj [Hq [Hb ->]]]].
      cbn [writes_bit] in Hw. rewrite Hb in Hw. apply Nat.eqb_neq in Hw.
      cbn [st_bm fst snd]. apply nth_list_upd_neq. exact Hw.
    - cbn [step] in H. inversion H; reflexivity.
    - cbn [step] in H. inversion H; reflexivity.
  Qed.

  Lemma run_bm_untouched ir bi : forall x y, run ir x = Ok y ->
    no_write (length (st_bm x)) bi ir ->
    nth bi (st_bm y) None = nth bi (st_bm x) None.
  Proof.
    unfold no_write.
    induction ir as [|s ir IH]; intros x y H Hn.
    - inversion H; reflexivity.
    - apply run_cons_ok_inv in H. destruct H as [x1 [Hs Hr]].
      cbn [forallb] in Hn. apply andb_true_iff in Hn. destruct Hn as [Hn1 Hn2].
      apply negb_true_iff in Hn1.
      rewrite (IH _ _ Hr).
      + eapply step_bm_untouched; eauto.
      + rewrite (step_bm_length _ _ _ Hs). exact Hn2.
  Qed.

  (* 3. (general form) the bit map holds the LAST write *)
  Theorem bitmap_last_write_slot nq nb pre o q b ax gi post ops bm :
    export_qs N nq nb (pre ++ SMeasure o q b ax gi :: post) = Ok (ops, bm) ->
    exists sl bi,
      py_index (Z.to_nat nq) q = Some sl /\ py_index (Z.to_nat nb) b = Some bi /\
      (no_write (Z.to_nat nb) bi post ->
       nth bi bm None = Some (meas_count (Z.to_nat nq) sl pre, q)).
  Proof.
    intros H. apply export_qs_ok_inv in H. destruct H as [z [Hr [_ ->]]].
    apply run_measure_split in Hr.
    destruct Hr as [y [sl [bi [Hpre [Hq [Hb [Hc [Lb Hpost]]]]]]]].
    exists sl, bi. repeat split; try assumption. intros Hn.
    rewrite (run_bm_untouched _ bi _ _ Hpost).
    - cbn [st_bm fst snd]. change (snd (fst y)) with (st_bm y).
      rewrite nth_list_upd_eq.
      + rewrite Hc. reflexivity.
      + rewrite Lb. eapply py_index_lt; eauto.
    - cbn [st_bm fst snd]. change (snd (fst y)) with (st_bm y).
      rewrite list_upd_length, Lb. exact Hn.
  Qed.

  Theorem bitmap_unwritten_slot nq nb ir ops bm bi :
    export_qs N nq nb ir = Ok (ops, bm) ->
    no_write (Z.to_nat nb) bi ir -> nth bi bm None = None.
  Proof.
    intros H Hn. apply export_qs_ok_inv in H. destruct H as [z [Hr [_ ->]]].
    rewrite (run_bm_untouched _ bi _ _ Hr).
    - apply init_bm_nth.
    - rewrite init_bm_length. exact Hn.
  Qed.

  Theorem bitmap_length nq nb ir ops bm :
    export_qs N nq nb ir = Ok (ops, bm) -> length bm = Z.to_nat nb.
  Proof.
    intros H. apply export_qs_ok_inv in H. destruct H as [z [Hr [_ ->]]].
    rewrite (run_bm_length _ _ _ Hr). apply init_bm_length.
  Qed.

  Lemma no_write_nonneg lenb b ir :
    (0 <= b < Z.of_nat lenb)%Z -> bits_nonneg ir ->
    forallb (fun s => negb (meas_into b s)) ir = true ->
    no_write lenb (Z.to_nat b) ir.
  Proof.
    intros Hb Hn Hf. unfold no_write. rewrite forallb_forall in *. intros s Hin.
    specialize (Hf s Hin).
    destruct s as [o g gi|o q' b' ax gi|o q' gi|t]; cbn [writes_bit meas_into] in *; try reflexivity.
    pose proof (Hn _ _ _ _ _ Hin) as Hb'.
    destruct (py_index lenb b') as [k|] eqn:E; [|reflexivity].
    apply py_index_some in E. destruct E as [[E ->]|[E _]]; [|lia].
    apply negb_true_iff in Hf. apply Z.eqb_neq in Hf.
    apply negb_true_iff. apply Nat.eqb_neq. lia.
  Qed.

  (* 3. bit b holds (acq_index, qubit) of the LAST measurement into b ... *)
  Theorem bitmap_last_write nq nb pre o q b ax gi post ops bm :
    export_qs N nq nb (pre ++ SMeasure o q b ax gi :: post) = Ok (ops, bm) ->
    (0 <= q < nq)%Z -> (0 <= b < nb)%Z -> qubits_nonneg pre -> bits_nonneg post ->
    forallb (fun s => negb (meas_into b s)) post = true ->
    nth (Z.to_nat b) bm None = Some (earlier_meas q pre, q).
  Proof.
    intros H Hq Hb Hn1 Hn2 Hlast. apply bitmap_last_write_slot in H.
    destruct H as [sl [bi [Hsl [Hbi H]]]].
    rewrite py_index_nonneg in Hsl by lia. inversion Hsl; subst sl.
    rewrite py_index_nonneg in Hbi by lia. inversion Hbi; subst bi.
    rewrite meas_count_nonneg in H by (auto; lia).
    apply H. apply no_write_nonneg; auto; lia.
  Qed.

  (* ... and None if no measurement writes into b *)
  Theorem bitmap_unwritten nq nb ir ops bm b :
    export_qs N nq nb ir = Ok (ops, bm) ->
    (0 <= b < nb)%Z -> bits_nonneg ir ->
    forallb (fun s => negb (meas_into b s)) ir = true ->
    nth (Z.to_nat b) bm None = None.
  Proof.
    intros H Hb Hn Hf. eapply bitmap_unwritten_slot; eauto.
    apply no_write_nonneg; auto; lia.
  Qed.

  (** ** unsupported gates raise; the first failing statement decides *)

  Lemma export_gate_mat m ops : export_gate N (Mat m ops) = Err EExport.
  Proof. reflexivity. Qed.

  Lemma export_gate_ctrl_nonbsr c g :
    (forall q ax a p, g <> BSR q ax a p) -> export_gate N (Ctrl c g) = Err EExport.
  Proof.
    intros H. destruct g as [q ax a p|c' g'|m ops]; try reflexivity.
    exfalso. eapply H; reflexivity.
  Qed.

  Lemma export_gate_ctrl_bsr c t ax a p :
    export_gate N (Ctrl c (BSR t ax a p)) =
    if bsr_equals_default N "X" t ax a p then Ok (QCNOT c t)
    else if bsr_equals_default N "Z" t ax a p then Ok (QCZ c t)
    else Err EExport.
  Proof. reflexivity. Qed.

  Lemma export_gate_ctrl_other c t ax a p :
    bsr_equals_default N "X" t ax a p = false ->
    bsr_equals_default N "Z" t ax a p = false ->
    export_gate N (Ctrl c (BSR t ax a p)) = Err EExport.
  Proof. intros HX HZ. rewrite export_gate_ctrl_bsr, HX, HZ. reflexivity. Qed.

  Lemma export_bsr_unfold q ax angle :
    export_bsr N q ax angle =
    if nltb N (nabs N (ax_z ax)) (atol N) then
      Ok (QRxy (deg5 N angle) (deg5 N (natan2 N (ax_y ax) (ax_x ax))) q)
    else if nltb N (nabs N (ax_x ax)) (atol N) && nltb N (nabs N (ax_y ax)) (atol N) then
      Ok (QRz (deg5 N (if nltb N (nofZ N 0) (ax_z ax) then angle else nneg N angle)) q)
    else Err EExport.
  Proof. reflexivity. Qed.

  (* a rotation about an axis that is neither in the xy plane nor along z *)
  Lemma export_bsr_err_iff q ax angle e :
    export_bsr N q ax angle = Err e <->
    e = EExport /\
    nltb N (nabs N (ax_z ax)) (atol N) = false /\
    (nltb N (nabs N (ax_x ax)) (atol N) = false \/ nltb N (nabs N (ax_y ax)) (atol N) = false).
  Proof.
    rewrite export_bsr_unfold.
    destruct (nltb N (nabs N (ax_z ax)) (atol N)).
    - split; [discriminate | intros [_ [H _]]; discriminate].
    - destruct (nltb N (nabs N (ax_x ax)) (atol N)); destruct (nltb N (nabs N (ax_y ax)) (atol N));
        cbn [andb]; split; intros H; try discriminate.
      + destruct H as [_ [_ [H|H]]]; discriminate.
      + inversion H. auto.
      + reflexivity || (destruct H as [-> _]; reflexivity).
      + inversion H. auto.
      + destruct H as [-> _]; reflexivity.
      + inversion H. auto.
      + destruct H as [-> _]; reflexivity.
  Qed.

  Lemma export_gate_err_kind g e : export_gate N g = Err e -> e = EExport.
  Proof.
    destruct g as [q ax a p|c g'|m ops]; cbn [export_gate].
    - intros H. apply export_bsr_err_iff in H. tauto.
    - destruct g' as [t ax a p|c' g''|m ops]; try (intros H; inversion H; reflexivity).
      destruct (bsr_equals_default N "X" t ax a p); [discriminate|].
      destruct (bsr_equals_default N "Z" t ax a p); [discriminate|].
      intros H; inversion H; reflexivity.
    - intros H; inversion H; reflexivity.
  Qed.

  Lemma run_gate_err ir o g gi e :
    In (SGate o g gi) ir -> export_gate N g = Err e ->
    forall x, exists e', run ir x = Err e'.
  Proof.
    intros Hin He. induction ir as [|s ir IH]; [destruct Hin|].
    intros x. cbn [run]. destruct Hin as [->|Hin].
    - cbn [step]. rewrite He. eauto.
    - destruct (step s x) as [y|e']; [apply IH; exact Hin | eauto].
  Qed.

  Lemma finish_err r : (exists e, r = Err e) -> exists e, finish r = Err e.
  Proof. intros [e ->]. exists e. reflexivity. Qed.

  (* 4a. an unsupported gate anywhere makes the export fail: nothing is dropped *)
  Theorem unsupported_raises nq nb ir o g gi e :
    In (SGate o g gi) ir -> export_gate N g = Err e ->
    exists e', export_qs N nq nb ir = Err e'.
  Proof.
    intros Hin He. rewrite export_qs_run. apply finish_err.
    eapply run_gate_err; eauto.
  Qed.

  (* an error in a prefix is the error of the whole *)
  Lemma export_qs_prefix_err nq nb pre post e :
    export_qs N nq nb pre = Err e -> export_qs N nq nb (pre ++ post) = Err e.
  Proof.
    rewrite !export_qs_run, run_app.
    destruct (run pre (init nq nb)) as [y|e']; cbn [finish]; [discriminate | auto].
  Qed.

  (* 4b. the first failing statement decides *)
  Theorem first_unsupported_decides nq nb pre o g gi post e r :
    export_qs N nq nb pre = Ok r -> export_gate N g = Err e ->
    export_qs N nq nb (pre ++ SGate o g gi :: post) = Err e.
  Proof.
    intros Hpre He. apply export_qs_ok_run in Hpre. destruct Hpre as [y Hy].
    rewrite export_qs_run, run_app, Hy. cbn [run step]. rewrite He. reflexivity.
  Qed.

  Corollary first_unsupported_is_EExport nq nb pre o g gi post e r :
    export_qs N nq nb pre = Ok r -> export_gate N g = Err e ->
    export_qs N nq nb (pre ++ SGate o g gi :: post) = Err EExport.
  Proof.
    intros Hpre He. rewrite (first_unsupported_decides _ _ _ _ _ _ _ _ _ Hpre He).
    f_equal. eapply export_gate_err_kind; eauto.
  Qed.

  (* conversely: a successful export means every gate statement was exportable *)
  Theorem export_ok_all_supported nq nb ir ops bm o g gi :
    export_qs N nq nb ir = Ok (ops, bm) -> In (SGate o g gi) ir ->
    exists op, export_gate N g = Ok op /\ In op ops.
  Proof.
    intros H Hin. apply export_one_per_stmt in H. destruct H as [Hf _].
    assert (Hc : In (SGate o g gi) (code ir)).
    { unfold code. apply filter_In. split; [exact Hin | reflexivity]. }
    revert Hc. induction Hf as [|s op l l' Hs Hf IH]; intros Hc; [destruct Hc|].
    destruct Hc as [->|Hc].
    - inversion Hs; subst. exists op. split; [assumption | left; reflexivity].
    - destruct (IH Hc) as [op' [H1 H2]]. exists op'. split; [assumption | right; assumption].
  Qed.

  Lemma step_err_kind s x e : step s x = Err e -> e = EExport \/ e = EIndex.
  Proof.
    destruct s as [o g gi|o q b ax gi|o q gi|t]; cbn [step]; intros H; try discriminate.
    - destruct (export_gate N g) eqn:E; [discriminate|]. inversion H; subst.
      left. eapply export_gate_err_kind; eauto.
    - right. destruct (py_index (length (st_acq x)) q); [|inversion H; reflexivity].
      destruct (py_index (length (st_bm x)) b); [discriminate | inversion H; reflexivity].
  Qed.

  Theorem export_qs_err_kind nq nb ir e :
    export_qs N nq nb ir = Err e -> e = EExport \/ e = EIndex.
  Proof.
    rewrite export_qs_run. generalize (init nq nb).
    induction ir as [|s ir IH]; intros x; cbn [run finish]; [discriminate|].
    destruct (step s x) as [y|e'] eqn:E.
    - apply IH.
    - cbn [finish]. intros H; inversion H; subst. eapply step_err_kind; eauto.
  Qed.

  (** ** comments *)

  Lemma run_code ir : forall x, run (code ir) x = run ir x.
  Proof.
    induction ir as [|s ir IH]; intros x; [reflexivity|].
    unfold code in *. cbn [filter]. unfold non_comment at 1.
    destruct s as [o g gi|o q b ax gi|o q gi|t]; cbn [is_comment negb run].
    - destruct (step _ x); auto.
    - destruct (step _ x); auto.
    - destruct (step _ x); auto.
    - cbn [step]. apply IH.
  Qed.

  (* 5. *)
  Theorem comments_contribute_nothing nq nb ir :
    export_qs N nq nb (code ir) = export_qs N nq nb ir.
  Proof. rewrite !export_qs_run, run_code. reflexivity. Qed.

  (** ** index errors *)

  (* 6. Python list indexing: a qubit index outside [-nq, nq) or a bit index
     outside [-nb, nb) raises IndexError at the first such measurement *)
  Theorem measure_index_errors nq nb pre o q b ax gi post r :
    (0 <= nq)%Z -> (0 <= nb)%Z ->
    export_qs N nq nb pre = Ok r ->
    (q < - nq \/ nq <= q)%Z \/ (b < - nb \/ nb <= b)%Z ->
    export_qs N nq nb (pre ++ SMeasure o q b ax gi :: post) = Err EIndex.
  Proof.
    intros Hnq Hnb Hpre Hbad. apply export_qs_ok_run in Hpre. destruct Hpre as [y Hy].
    rewrite export_qs_run, run_app, Hy. cbn [run step].
    destruct (run_acq _ _ _ Hy) as [La _]. pose proof (run_bm_length _ _ _ Hy) as Lb.
    rewrite init_acq_length in La. rewrite init_bm_length in Lb. rewrite La, Lb.
    destruct (py_index (Z.to_nat nq) q) as [qi|] eqn:Eq; [|reflexivity].
    destruct (py_index (Z.to_nat nb) b) as [bi|] eqn:Eb; [|reflexivity].
    exfalso. apply py_index_some in Eq. apply py_index_some in Eb. lia.
  Qed.

  (* and indices inside the windows are accepted, negative ones counting from the end *)
  Theorem measure_index_ok nq nb pre o q b ax gi y :
    (0 <= nq)%Z -> (0 <= nb)%Z ->
    run pre (init nq nb) = Ok y ->
    (- nq <= q < nq)%Z -> (- nb <= b < nb)%Z ->
    exists sl bi y',
      step (SMeasure o q b ax gi) y = Ok y' /\
      Z.of_nat sl = (q mod nq)%Z /\ Z.of_nat bi = (b mod nb)%Z /\
      st_out y' = QMeasure q q (nth sl (st_acq y) 0%Z) :: st_out y.
  Proof.
    intros Hnq Hnb Hy Hq Hb.
    destruct (run_acq _ _ _ Hy) as [La _]. pose proof (run_bm_length _ _ _ Hy) as Lb.
    rewrite init_acq_length in La. rewrite init_bm_length in Lb.
    destruct (proj2 (py_index_in_range (Z.to_nat nq) q)) as [sl Hsl]; [lia|].
    destruct (proj2 (py_index_in_range (Z.to_nat nb) b)) as [bi Hbi]; [lia|].
    exists sl, bi. cbn [step]. rewrite La, Lb, Hsl, Hbi. eexists. split; [reflexivity|].
    apply py_index_mod in Hsl. apply py_index_mod in Hbi.
    rewrite Z2Nat.id in Hsl, Hbi by lia. repeat split; assumption.
  Qed.

  (** ** CNOT / CZ only for targets that compare equal to X / Z *)

  Lemma export_bsr_not_2q q ax angle c t :
    export_bsr N q ax angle <> Ok (QCNOT c t) /\ export_bsr N q ax angle <> Ok (QCZ c t).
  Proof.
    rewrite export_bsr_unfold.
    destruct (nltb N (nabs N (ax_z ax)) (atol N)); [split; discriminate|].
    destruct (nltb N (nabs N (ax_x ax)) (atol N) && nltb N (nabs N (ax_y ax)) (atol N));
      split; discriminate.
  Qed.

  (* 9. a CNOT comes only from a controlled gate whose target == X(target);
     control and target stay in place *)
  Theorem cnot_exact_only g c' t' :
    export_gate N g = Ok (QCNOT c' t') ->
    exists ax a p, g = Ctrl c' (BSR t' ax a p) /\ bsr_equals_default N "X" t' ax a p = true.
  Proof.
    destruct g as [q ax a p|c g'|m ops]; cbn [export_gate]; intros H.
    - exfalso. eapply (proj1 (export_bsr_not_2q _ _ _ _ _)); eauto.
    - destruct g' as [t ax a p|c'' g''|m ops]; try discriminate.
      destruct (bsr_equals_default N "X" t ax a p) eqn:EX.
      + inversion H; subst. eauto.
      + destruct (bsr_equals_default N "Z" t ax a p); discriminate.
    - discriminate.
  Qed.

  Theorem cz_exact_only g c' t' :
    export_gate N g = Ok (QCZ c' t') ->
    exists ax a p, g = Ctrl c' (BSR t' ax a p) /\
      bsr_equals_default N "X" t' ax a p = false /\
      bsr_equals_default N "Z" t' ax a p = true.
  Proof.
    destruct g as [q ax a p|c g'|m ops]; cbn [export_gate]; intros H.
    - exfalso. eapply (proj2 (export_bsr_not_2q _ _ _ _ _)); eauto.
    - destruct g' as [t ax a p|c'' g''|m ops]; try discriminate.
      destruct (bsr_equals_default N "X" t ax a p) eqn:EX; [discriminate|].
      destruct (bsr_equals_default N "Z" t ax a p) eqn:EZ; [|discriminate].
      inversion H; subst. eauto 6.
    - discriminate.
  Qed.

  Corollary cnot_cz_exact_only c t ax a p :
    (forall c' t', export_gate N (Ctrl c (BSR t ax a p)) = Ok (QCNOT c' t') ->
       c' = c /\ t' = t /\ bsr_equals_default N "X" t ax a p = true) /\
    (forall c' t', export_gate N (Ctrl c (BSR t ax a p)) = Ok (QCZ c' t') ->
       c' = c /\ t' = t /\ bsr_equals_default N "Z" t ax a p = true).
  Proof.
    split; intros c' t' H.
    - apply cnot_exact_only in H. destruct H as [ax' [a' [p' [E H]]]].
      inversion E; subst. auto.
    - apply cz_exact_only in H. destruct H as [ax' [a' [p' [E [_ H]]]]].
      inversion E; subst. auto.
  Qed.
End Structural.

Print Assumptions export_one_per_stmt.
Print Assumptions export_measure_at.
Print Assumptions acq_index_spec.
Print Assumptions bitmap_last_write.
Print Assumptions bitmap_unwritten.
Print Assumptions unsupported_raises.
Print Assumptions first_unsupported_decides.
Print Assumptions comments_contribute_nothing.
Print Assumptions measure_index_errors.
Print Assumptions cnot_cz_exact_only.

(* ------------------------------------------------------------------ *)
(** * Numeric theorems at RNum (exact regime) *)

(* Reals after DefaultTable, as in DefaultP.v *)
From Coq Require Import Reals Lra.
From OSQ Require Import Matrix RTrig RNum SU2 ConstructP DefaultP.
Open Scope R_scope.

Ltac rabs_lra := unfold Rabs in *; repeat destruct Rcase_abs; lra.

(* the three-way case split of visit_bloch_sphere_rotation over the reals *)
Lemma export_bsr_RNum q x y z angle :
  export_bsr RNum q (x, y, z) angle =
  if Rlt_dec (Rabs z) (/ 10000000) then
    Ok (QRxy (deg5 RNum angle) (deg5 RNum (atan2 y x)) q)
  else if Rlt_dec (Rabs x) (/ 10000000) then
    if Rlt_dec (Rabs y) (/ 10000000) then
      Ok (QRz (deg5 RNum (if Rlt_dec 0 z then angle else - angle)) q)
    else Err EExport
  else Err EExport.
Proof.
  rewrite export_bsr_unfold, atol_RNum. unfold ax_x, ax_y, ax_z.
  cbn [fst snd nltb nabs natan2 nofZ nneg RNum]. unfold Rltb.
  destruct (Rlt_dec (Rabs z) (/ 10000000)); [reflexivity|].
  destruct (Rlt_dec (Rabs x) (/ 10000000)); destruct (Rlt_dec (Rabs y) (/ 10000000));
    cbn [andb]; try reflexivity.
  destruct (Rlt_dec 0 z); reflexivity.
Qed.

(* 4 (numeric reading): |z| >= ATOL and (|x| >= ATOL or |y| >= ATOL) is unsupported *)
Theorem export_bsr_unsupported q x y z angle :
  / 10000000 <= Rabs z -> (/ 10000000 <= Rabs x \/ / 10000000 <= Rabs y) ->
  export_bsr RNum q (x, y, z) angle = Err EExport.
Proof.
  intros Hz Hxy. rewrite export_bsr_RNum.
  destruct (Rlt_dec (Rabs z) (/ 10000000)); [lra|].
  destruct (Rlt_dec (Rabs x) (/ 10000000)); [|reflexivity].
  destruct (Rlt_dec (Rabs y) (/ 10000000)); [lra | reflexivity].
Qed.

(** ** rounding contract *)

Lemma Rround_error d v : Rabs (Rround d v - v) <= / 2 * / Rpower 10 (IZR d).
Proof.
  unfold Rround. set (p := Rpower 10 (IZR d)).
  assert (Hp : 0 < p) by (unfold p, Rpower; apply exp_pos).
  pose proof (Rfloor_spec (v * p + / 2)) as [Hlo Hhi].
  set (f := Rfloor (v * p + / 2)) in *.
  assert (Hip : 0 < / p) by (apply Rinv_0_lt_compat; exact Hp).
  assert (E : f / p - v = (f - v * p) * / p) by (field; lra).
  rewrite E. apply Rabs_le. split.
  - replace (- (/ 2 * / p)) with ((- / 2) * / p) by ring.
    apply Rmult_le_compat_r; lra.
  - apply Rmult_le_compat_r; lra.
Qed.

Lemma Rpower_10_5 : Rpower 10 5 = 100000.
Proof.
  replace 5 with (INR 5) by (simpl; lra). rewrite Rpower_pow by lra. simpl. lra.
Qed.

(* theta, phi are within half a unit of the 5th decimal of the exact degrees *)
Lemma deg5_error a : Rabs (deg5 RNum a - a * (180 / PI)) <= / 200000.
Proof.
  unfold deg5. cbn [nroundpy ndegrees RNum].
  eapply Rle_trans; [apply Rround_error|]. rewrite Rpower_10_5. lra.
Qed.

(** ** 7. Rxy *)

Lemma unit_xy_nonzero x y : x * x + y * y = 1 -> x <> 0 \/ y <> 0.
Proof.
  intros H. destruct (Req_dec x 0) as [Hx|Hx]; [|left; exact Hx].
  right. intros Hy. subst. lra.
Qed.

(* (cos phi, sin phi, 0) with the unrounded phi = atan2 y x is the axis itself *)
Lemma rxy_axis x y :
  x * x + y * y = 1 -> (cos (atan2 y x), sin (atan2 y x), 0) = (x, y, 0).
Proof.
  intros H. pose proof (unit_xy_nonzero _ _ H) as Hnz.
  rewrite cos_atan2, sin_atan2 by exact Hnz. rewrite H, sqrt_1.
  f_equal. f_equal; field.
Qed.

(* without the unit hypothesis: the normalised axis *)
Lemma rxy_axis_general x y :
  x <> 0 \/ y <> 0 ->
  (cos (atan2 y x), sin (atan2 y x), 0) = mk_axis RNum (x, y, 0).
Proof.
  intros Hnz. rewrite cos_atan2, sin_atan2 by exact Hnz. rewrite mk_axis_RNum.
  pose proof (sqrt_sq_sum_pos _ _ Hnz) as Hs.
  replace (x * x + y * y + 0 * 0) with (x * x + y * y) by ring.
  f_equal. field. lra.
Qed.

Theorem rxy_denotes q x y angle :
  x * x + y * y = 1 ->
  export_bsr RNum q (x, y, 0) angle =
    Ok (QRxy (deg5 RNum angle) (deg5 RNum (atan2 y x)) q) /\
  qrot (cos (atan2 y x), sin (atan2 y x), 0) angle = qrot (x, y, 0) angle.
Proof.
  intros H. split.
  - rewrite export_bsr_RNum.
    destruct (Rlt_dec (Rabs 0) (/ 10000000)) as [Hz|Hz]; [reflexivity|].
    exfalso. apply Hz. rewrite Rabs_R0. lra.
  - rewrite rxy_axis by exact H. reflexivity.
Qed.

(** ** 8. Rz, signed *)

Lemma qrot_neg_axis nx ny nz angle :
  qrot (- nx, - ny, - nz) angle = qrot (nx, ny, nz) (- angle).
Proof.
  unfold qrot, ax_x, ax_y, ax_z. cbn [fst snd].
  replace (- angle / 2) with (- (angle / 2)) by field. rewrite cos_neg, sin_neg.
  apply quat_eq; unfold qw, qx, qy, qz; cbn [fst snd]; ring.
Qed.

Lemma export_bsr_z q z angle :
  / 10000000 <= Rabs z ->
  export_bsr RNum q (0, 0, z) angle =
  Ok (QRz (deg5 RNum (if Rlt_dec 0 z then angle else - angle)) q).
Proof.
  intros Hz. rewrite export_bsr_RNum.
  destruct (Rlt_dec (Rabs z) (/ 10000000)); [lra|].
  destruct (Rlt_dec (Rabs 0) (/ 10000000)) as [H0|H0]; [reflexivity|].
  exfalso. apply H0. rewrite Rabs_R0. lra.
Qed.

Theorem rz_signed q angle :
  export_bsr RNum q (0, 0, 1) angle = Ok (QRz (deg5 RNum angle) q) /\
  export_bsr RNum q (0, 0, -1) angle = Ok (QRz (deg5 RNum (- angle)) q) /\
  qrot (0, 0, -1) angle = qrot (0, 0, 1) (- angle).
Proof.
  repeat split.
  - rewrite export_bsr_z by rabs_lra. destruct (Rlt_dec 0 1); [reflexivity | lra].
  - rewrite export_bsr_z by rabs_lra. destruct (Rlt_dec 0 (-1)); [lra | reflexivity].
  - replace (0, 0, -1) with (- 0, - 0, - (1)) by (repeat f_equal; lra).
    apply qrot_neg_axis.
Qed.

(** ** 9. CNOT / CZ at RNum *)

Lemma close_r_refl a : close_r RNum a a = true.
Proof.
  unfold close_r, atol8, rtol. cbn [nleb nabs nsub nadd nmul ndiv nofZ RNum].
  apply Rleb_true. replace (a - a) with 0 by ring. rewrite Rabs_R0.
  pose proof (Rabs_pos a). lra.
Qed.

Lemma close_axis_refl ax : close_axis RNum ax ax = true.
Proof. unfold close_axis. rewrite !close_r_refl. reflexivity. Qed.

Lemma close_r_far a b : / 2 <= Rabs (a - b) -> Rabs b <= 1 -> close_r RNum a b = false.
Proof.
  intros H1 H2. unfold close_r, atol8, rtol. cbn [nleb nabs nsub nadd nmul ndiv nofZ RNum].
  apply Rleb_false. lra.
Qed.

Ltac far_tac :=
  match goal with
  | |- context [close_r RNum ?a ?b] => rewrite (close_r_far a b) by rabs_lra
  end.

(* BlochSphereRotation.__eq__ is reflexive over the reals *)
Lemma bsr_eq_refl_RNum q ax a p : bsr_eq RNum q ax a p q ax a p = true.
Proof.
  unfold bsr_eq.
  assert (H1 : nleb RNum (nabs RNum (nsub RNum p p)) (atol RNum) = true).
  { change (Rleb (Rabs (p - p)) (atol RNum) = true). apply Rleb_true.
    rewrite atol_RNum. replace (p - p) with 0 by ring. rewrite Rabs_R0. lra. }
  cbv zeta. rewrite H1.
  destruct (nltb RNum (nabs RNum a) (atol RNum) && nltb RNum (nabs RNum a) (atol RNum));
    [reflexivity|].
  rewrite Z.eqb_refl. cbn [negb]. rewrite close_axis_refl.
  cbn [andb].
  change (Rltb (Rabs (a - a)) (atol RNum) = true). apply Rltb_true.
  rewrite atol_RNum. replace (a - a) with 0 by ring. rewrite Rabs_R0. lra.
Qed.

(* far axes are unequal, provided the first rotation is not an identity
   (two identity rotations compare equal whatever their axes) *)
Lemma bsr_eq_far q ax a p q2 ax2 a2 p2 :
  / 10000000 <= Rabs a ->
  close_axis RNum ax ax2 = false -> close_axis RNum ax (neg_axis RNum ax2) = false ->
  bsr_eq RNum q ax a p q2 ax2 a2 p2 = false.
Proof.
  intros Ha H1 H2. unfold bsr_eq. cbv zeta.
  assert (H3 : nltb RNum (nabs RNum a) (atol RNum) = false).
  { change (Rltb (Rabs a) (atol RNum) = false). apply Rltb_false.
    rewrite atol_RNum. exact Ha. }
  rewrite H3. cbn [andb].
  destruct (negb (q =? q2)%Z); [reflexivity|].
  rewrite H1, H2. reflexivity.
Qed.

Lemma PI_not_small : / 10000000 <= Rabs PI.
Proof. pose proof PI2_3_2. rabs_lra. Qed.

Lemma default_X_RNum t :
  default_gate RNum "X" [AQ t] = Ok (BSR t (1, 0, 0) PI (PI / 2), gi "X" [AQ t]).
Proof. rewrite X_eval, X_bsr. reflexivity. Qed.
Lemma default_Z_RNum t :
  default_gate RNum "Z" [AQ t] = Ok (BSR t (0, 0, 1) PI (PI / 2), gi "Z" [AQ t]).
Proof. rewrite Z_eval, Z_bsr. reflexivity. Qed.

Lemma X_equals_X t : bsr_equals_default RNum "X" t (1, 0, 0) PI (PI / 2) = true.
Proof. unfold bsr_equals_default. rewrite default_X_RNum. apply bsr_eq_refl_RNum. Qed.
Lemma Z_equals_Z t : bsr_equals_default RNum "Z" t (0, 0, 1) PI (PI / 2) = true.
Proof. unfold bsr_equals_default. rewrite default_Z_RNum. apply bsr_eq_refl_RNum. Qed.

Lemma Z_not_X t : bsr_equals_default RNum "X" t (0, 0, 1) PI (PI / 2) = false.
Proof.
  unfold bsr_equals_default. rewrite default_X_RNum. apply bsr_eq_far.
  - exact PI_not_small.
  - unfold close_axis, ax_x, ax_y, ax_z. cbn [fst snd].
    far_tac. reflexivity.
  - unfold close_axis, neg_axis, ax_x, ax_y, ax_z. cbn [fst snd nneg RNum].
    far_tac. reflexivity.
Qed.

(* the default X on the target gives CNOT, the default Z gives CZ *)
Theorem cnot_of_default_X c t Xt i :
  default_gate RNum "X" [AQ t] = Ok (Xt, i) ->
  export_gate RNum (Ctrl c Xt) = Ok (QCNOT c t).
Proof.
  rewrite default_X_RNum. intros H; inversion H; subst.
  rewrite export_gate_ctrl_bsr, X_equals_X. reflexivity.
Qed.

Theorem cz_of_default_Z c t Zt i :
  default_gate RNum "Z" [AQ t] = Ok (Zt, i) ->
  export_gate RNum (Ctrl c Zt) = Ok (QCZ c t).
Proof.
  rewrite default_Z_RNum. intros H; inversion H; subst.
  rewrite export_gate_ctrl_bsr, Z_not_X, Z_equals_Z. reflexivity.
Qed.

(* the default two-qubit gates themselves round-trip *)
Theorem default_CNOT_exports c t g i :
  default_gate RNum "CNOT" [AQ c; AQ t] = Ok (g, i) -> export_gate RNum g = Ok (QCNOT c t).
Proof.
  rewrite CNOT_eval, X_bsr. destruct (Z.eq_dec c t) as [->|Hne].
  - rewrite mk_ctrl_bsr_same. discriminate.
  - rewrite mk_ctrl_bsr_ok by exact Hne. cbn [with_info]. intros H; inversion H; subst.
    rewrite export_gate_ctrl_bsr, X_equals_X. reflexivity.
Qed.

Theorem default_CZ_exports c t g i :
  default_gate RNum "CZ" [AQ c; AQ t] = Ok (g, i) -> export_gate RNum g = Ok (QCZ c t).
Proof.
  rewrite CZ_eval, Z_bsr. destruct (Z.eq_dec c t) as [->|Hne].
  - rewrite mk_ctrl_bsr_same. discriminate.
  - rewrite mk_ctrl_bsr_ok by exact Hne. cbn [with_info]. intros H; inversion H; subst.
    rewrite export_gate_ctrl_bsr, Z_not_X, Z_equals_Z. reflexivity.
Qed.

(* and a controlled rotation that is neither is refused, e.g. controlled-Y *)
Lemma default_Y_RNum t :
  default_gate RNum "Y" [AQ t] = Ok (BSR t (0, 1, 0) PI (PI / 2), gi "Y" [AQ t]).
Proof. rewrite Y_eval, mk_bsr_RNum, mk_axis_y, norm_PI, norm_PI2. reflexivity. Qed.

Theorem controlled_Y_unsupported c t Yt i :
  default_gate RNum "Y" [AQ t] = Ok (Yt, i) ->
  export_gate RNum (Ctrl c Yt) = Err EExport.
Proof.
  rewrite default_Y_RNum. intros H; inversion H; subst.
  apply export_gate_ctrl_other; unfold bsr_equals_default.
  - rewrite default_X_RNum. apply bsr_eq_far.
    + exact PI_not_small.
    + unfold close_axis, ax_x, ax_y, ax_z. cbn [fst snd].
      far_tac. reflexivity.
    + unfold close_axis, neg_axis, ax_x, ax_y, ax_z. cbn [fst snd nneg RNum].
      far_tac. reflexivity.
  - rewrite default_Z_RNum. apply bsr_eq_far.
    + exact PI_not_small.
    + unfold close_axis, ax_x, ax_y, ax_z. cbn [fst snd].
      far_tac. rewrite andb_false_r. reflexivity.
    + unfold close_axis, neg_axis, ax_x, ax_y, ax_z. cbn [fst snd nneg RNum].
      far_tac. rewrite andb_false_r. reflexivity.
Qed.

(* the repaired __eq__ identifies a half turn about -n with (minus) the half
   turn about n: X written with the negated axis is still recognised as X *)
Lemma negX_equals_X t :
  bsr_equals_default RNum "X" t (-1, 0, 0) PI (- (PI / 2)) = true.
Proof.
  unfold bsr_equals_default. rewrite default_X_RNum.
  unfold bsr_eq. rewrite Z.eqb_refl. cbn [negb].
  pose proof PI2_3_2 as HPI.
  assert (H1 : nltb RNum (nabs RNum PI) (atol RNum) = false).
  { change (Rltb (Rabs PI) (atol RNum) = false). apply Rltb_false.
    rewrite atol_RNum. exact PI_not_small. }
  rewrite H1. cbn [andb].
  assert (H2 : close_axis RNum (-1, 0, 0) (1, 0, 0) = false).
  { unfold close_axis, ax_x, ax_y, ax_z. cbn [fst snd]. far_tac. reflexivity. }
  rewrite H2.
  assert (H3 : close_axis RNum (-1, 0, 0) (neg_axis RNum (1, 0, 0)) = true).
  { unfold close_axis, neg_axis, ax_x, ax_y, ax_z. cbn [fst snd nneg RNum].
    replace (- 0) with 0 by ring. rewrite !close_r_refl. reflexivity. }
  rewrite H3.
  assert (H4 : nleb RNum (nabs RNum (nsub RNum (- (PI / 2)) (PI / 2))) (atol RNum) = false).
  { change (Rleb (Rabs (- (PI / 2) - PI / 2)) (atol RNum) = false). apply Rleb_false.
    rewrite atol_RNum. rabs_lra. }
  rewrite H4. cbn [andb].
  change (Rleb (Rabs (Rabs (- (PI / 2) - PI / 2) - PI)) (atol RNum) &&
          (Rltb (Rabs (Rabs PI - PI)) (atol RNum) &&
           Rltb (Rabs (Rabs PI - PI)) (atol RNum)) = true).
  rewrite atol_RNum.
  replace (Rabs (- (PI / 2) - PI / 2)) with PI by rabs_lra.
  replace (Rabs PI) with PI by rabs_lra.
  replace (PI - PI) with 0 by ring. rewrite Rabs_R0.
  assert (E1 : Rleb 0 (/ 10000000) = true) by (apply Rleb_true; lra).
  assert (E2 : Rltb 0 (/ 10000000) = true) by (apply Rltb_true; lra).
  rewrite E1, E2. reflexivity.
Qed.

Theorem cnot_negated_representation c t :
  export_gate RNum (Ctrl c (BSR t (-1, 0, 0) PI (- (PI / 2)))) = Ok (QCNOT c t).
Proof. rewrite export_gate_ctrl_bsr, negX_equals_X. reflexivity. Qed.

Print Assumptions rxy_denotes.
Print Assumptions rz_signed.
Print Assumptions deg5_error.
Print Assumptions export_bsr_unsupported.
Print Assumptions cnot_of_default_X.
Print Assumptions default_CNOT_exports.
Print Assumptions controlled_Y_unsupported.

Print Assumptions cnot_negated_representation.
