(* DecomposeP.v — structural theorems about the generic decomposition pass
   (Model/Decompose.v; decomposer/general_decomposer.py) for ANY number type
   [T], ANY [N : Num T] and ANY decomposer function [dec]:
   shape of the output, "every replacement was checked", the failure state,
   the generic replacer, the advertised target gate sets of the built-in
   decomposers (ABA, McKay, CNOT) and freshness of new object identities.
   [check_replacement] is never unfolded: it is an opaque function here. *)
From Coq Require Import ZArith List Bool String Lia PeanoNat.
Import ListNotations.
From OSQ Require Import Num IR Construct DefaultTable Matrix Check ABA Merge McKay CNOTDec Decompose.
Open Scope string_scope.

(* ------------------------------------------------------------------ *)
(** * 0. Small list toolkit                                             *)
(* ------------------------------------------------------------------ *)

(* subsequence (order preserving sublist) *)
Inductive subseq {A : Type} : list A -> list A -> Prop :=
| sub_nil  : subseq [] []
| sub_skip : forall x l1 l2, subseq l1 l2 -> subseq l1 (x :: l2)
| sub_take : forall x l1 l2, subseq l1 l2 -> subseq (x :: l1) (x :: l2).

Lemma subseq_filter {A} (f : A -> bool) (l : list A) : subseq (filter f l) l.
Proof.
  induction l as [|x l IH]; cbn [filter]; [constructor|].
  destruct (f x); now constructor.
Qed.

Lemma subseq_length {A} (l1 l2 : list A) : subseq l1 l2 -> (List.length l1 <= List.length l2)%nat.
Proof. induction 1; cbn [List.length]; lia. Qed.

Lemma subseq_In {A} (l1 l2 : list A) x : subseq l1 l2 -> In x l1 -> In x l2.
Proof.
  induction 1 as [|y l1 l2 _ IH|y l1 l2 _ IH]; intros Hin; auto.
  - right; auto.
  - destruct Hin as [->|Hin]; [now left|right; auto].
Qed.

Lemma subseq_Forall {A} (P : A -> Prop) (l1 l2 : list A) : subseq l1 l2 -> Forall P l2 -> Forall P l1.
Proof.
  intros Hs Hf. apply Forall_forall. intros x Hx.
  rewrite Forall_forall in Hf. eauto using subseq_In.
Qed.

Lemma subseq_filter_length {A} (f : A -> bool) (l1 l2 : list A) :
  subseq l1 l2 -> (List.length (filter f l1) <= List.length (filter f l2))%nat.
Proof.
  induction 1 as [|y l1 l2 _ IH|y l1 l2 _ IH]; cbn [filter]; auto.
  - destruct (f y); cbn [List.length]; lia.
  - destruct (f y); cbn [List.length]; lia.
Qed.

Lemma filter_Forall {A} (f : A -> bool) (l : list A) : Forall (fun x => f x = true) (filter f l).
Proof. apply Forall_forall. intros x Hx. now apply filter_In in Hx. Qed.

Lemma Ok_inj {A} (a b : A) : Ok a = Ok b -> a = b.
Proof. intros H. exact (f_equal (fun r => match r with Ok x => x | Err _ => a end) H). Qed.

Section DecomposeP.
  Context {T : Type} (N : Num T).
  Notation stmtT := (stmt T).
  Notation decomposer := (gate T -> ginfo T -> result (list (ditem T))).

  (* ------------------------------------------------------------------ *)
  (** * 1. Shape of the output of the loop                                *)
  (* ------------------------------------------------------------------ *)

  Definition next_after (next : positive) (items : list (ditem T)) : positive :=
    Pos.of_nat (Pos.to_nat next + max_key items).

  (* an ACCEPTED proposal for the gate [g, gi]: the decomposer returned it and
     the checker accepted exactly that list of gates for exactly that gate *)
  Definition accepted (dec : decomposer) (g : gate T) (gi : ginfo T) (items : list (ditem T)) : Prop :=
    dec g gi = Ok items /\ check_replacement N g (map (item_gate g) items) = Ok tt.

  (* [rewrites dec next todo out]: [out] is the concatenation, in order, over
     the statements of [todo], of [s] itself when [s] is not a gate and of
     the materialisation of an accepted proposal when it is a gate; [next] is
     the first unused object identity. *)
  Inductive rewrites (dec : decomposer) : positive -> list stmtT -> list stmtT -> Prop :=
  | rw_nil  : forall next, rewrites dec next [] []
  | rw_keep : forall next s rest out,
      is_gate s = false -> rewrites dec next rest out ->
      rewrites dec next (s :: rest) (s :: out)
  | rw_gate : forall next o g gi items rest out,
      accepted dec g gi items ->
      rewrites dec (next_after next items) rest out ->
      rewrites dec next (SGate o g gi :: rest) (materialise o g gi next items ++ out).

  Lemma check_ok_tt g l u : check_replacement N g l = Ok u -> check_replacement N g l = Ok tt.
  Proof. now destruct u. Qed.

  Lemma decompose_loop_nongate dec next done s rest :
    is_gate s = false ->
    decompose_loop N dec next done (s :: rest) = decompose_loop N dec next (s :: done) rest.
  Proof. destruct s; cbn; intros H; try discriminate; reflexivity. Qed.

  Lemma decompose_loop_gate_ok dec next done o g gi rest items :
    accepted dec g gi items ->
    decompose_loop N dec next done (SGate o g gi :: rest) =
    decompose_loop N dec (next_after next items) (List.rev (materialise o g gi next items) ++ done)%list rest.
  Proof. intros [Hd Hc]. cbn [decompose_loop]. rewrite Hd, Hc. reflexivity. Qed.

  (* main shape theorem, with the accumulator *)
  Theorem decompose_loop_shape dec : forall todo next done out,
    decompose_loop N dec next done todo = (None, out) ->
    exists out', out = (List.rev done ++ out')%list /\ rewrites dec next todo out'.
  Proof.
    induction todo as [|s rest IH]; intros next done out H.
    - cbn in H. inversion H; subst. exists []. rewrite app_nil_r. split; [reflexivity|constructor].
    - destruct (is_gate s) eqn:Hg.
      + destruct s as [o g gi| | |]; try discriminate. cbn [decompose_loop] in H.
        destruct (dec g gi) as [items|e] eqn:Hd; [|discriminate].
        destruct (check_replacement N g (map (item_gate g) items)) as [u|e] eqn:Hc; [|discriminate].
        apply IH in H. destruct H as [out' [-> Hrw]].
        exists (materialise o g gi next items ++ out')%list. split.
        * rewrite rev_app_distr, rev_involutive, <- app_assoc. reflexivity.
        * constructor; [split; [exact Hd|destruct u; exact Hc]|exact Hrw].
      + rewrite decompose_loop_nongate in H by exact Hg.
        apply IH in H. destruct H as [out' [-> Hrw]].
        exists (s :: out'). split.
        * cbn [List.rev]. rewrite <- app_assoc. reflexivity.
        * now constructor.
  Qed.

  (* converse: the relation determines the result of the loop *)
  Theorem rewrites_decompose_loop dec : forall next todo out',
    rewrites dec next todo out' ->
    forall done, decompose_loop N dec next done todo = (None, (List.rev done ++ out')%list).
  Proof.
    induction 1 as [next|next s rest out Hg _ IH|next o g gi items rest out Hacc _ IH]; intros done.
    - cbn. now rewrite app_nil_r.
    - rewrite decompose_loop_nongate by exact Hg. rewrite IH. cbn [List.rev].
      now rewrite <- app_assoc.
    - rewrite (decompose_loop_gate_ok _ _ _ _ _ _ _ _ Hacc). rewrite IH.
      now rewrite rev_app_distr, rev_involutive, <- app_assoc.
  Qed.

  Corollary decompose_loop_shape_iff dec next ir out :
    decompose_loop N dec next [] ir = (None, out) <-> rewrites dec next ir out.
  Proof.
    split.
    - intros H. apply decompose_loop_shape in H. destruct H as [out' [-> H]]. exact H.
    - intros H. apply (rewrites_decompose_loop _ _ _ _ H []).
  Qed.

  (* the relation is a function of the input: at most one output *)
  Lemma rewrites_functional dec next ir out1 out2 :
    rewrites dec next ir out1 -> rewrites dec next ir out2 -> out1 = out2.
  Proof.
    intros H1 H2. apply decompose_loop_shape_iff in H1, H2. congruence.
  Qed.

  Definition non_gate (s : stmtT) : bool := negb (is_gate s).

  Lemma materialise_all_gates o g gi next items :
    filter non_gate (materialise o g gi next items) = [].
  Proof.
    unfold materialise. induction items as [|[|k g' gi'] items IH]; cbn; auto.
  Qed.

  Lemma rewrites_keeps_non_gates dec next ir out :
    rewrites dec next ir out -> filter non_gate out = filter non_gate ir.
  Proof.
    induction 1 as [next|next s rest out Hg _ IH|next o g gi items rest out Hacc _ IH].
    - reflexivity.
    - cbn [filter]. now rewrite IH.
    - rewrite filter_app, materialise_all_gates, IH. reflexivity.
  Qed.

  (* ------------------------------------------------------------------ *)
  (** * 3. The state left behind by a failing step                        *)
  (* ------------------------------------------------------------------ *)

  Definition step_fails (dec : decomposer) (g : gate T) (gi : ginfo T) (e : err) : Prop :=
    dec g gi = Err e \/
    exists items, dec g gi = Ok items /\ check_replacement N g (map (item_gate g) items) = Err e.

  Lemma decompose_failure_state_gen dec : forall todo next done e out,
    decompose_loop N dec next done todo = (Some e, out) ->
    exists pre o g gi post pre',
      todo = (pre ++ SGate o g gi :: post)%list /\
      decompose_loop N dec next done pre = (None, pre') /\
      out = (pre' ++ SGate o g gi :: post)%list /\
      step_fails dec g gi e.
  Proof.
    induction todo as [|s rest IH]; intros next done e out H.
    - cbn in H. discriminate.
    - destruct (is_gate s) eqn:Hg.
      + destruct s as [o g gi| | |]; try discriminate. cbn [decompose_loop] in H.
        destruct (dec g gi) as [items|e'] eqn:Hd.
        * destruct (check_replacement N g (map (item_gate g) items)) as [u|e'] eqn:Hc.
          -- apply IH in H. destruct H as (pre & o' & g' & gi' & post & pre' & -> & Hpre & -> & Hf).
             exists (SGate o g gi :: pre), o', g', gi', post, pre'. repeat split; auto.
             rewrite <- Hpre. apply decompose_loop_gate_ok. split; [exact Hd|destruct u; exact Hc].
          -- inversion H; subst. exists [], o, g, gi, rest, (List.rev done).
             repeat split; auto. right. exists items. auto.
        * inversion H; subst. exists [], o, g, gi, rest, (List.rev done).
          repeat split; auto. now left.
      + rewrite decompose_loop_nongate in H by exact Hg.
        apply IH in H. destruct H as (pre & o' & g' & gi' & post & pre' & -> & Hpre & -> & Hf).
        exists (s :: pre), o', g', gi', post, pre'. repeat split; auto.
        rewrite decompose_loop_nongate by exact Hg. exact Hpre.
  Qed.

  Theorem decompose_failure_state dec next ir e out :
    decompose_loop N dec next [] ir = (Some e, out) ->
    exists pre o g gi post pre',
      ir = (pre ++ SGate o g gi :: post)%list /\
      decompose_loop N dec next [] pre = (None, pre') /\
      rewrites dec next pre pre' /\
      out = (pre' ++ SGate o g gi :: post)%list /\
      step_fails dec g gi e.
  Proof.
    intros H. apply decompose_failure_state_gen in H.
    destruct H as (pre & o & g & gi & post & pre' & H1 & H2 & H3 & H4).
    exists pre, o, g, gi, post, pre'. repeat split; auto.
    now apply decompose_loop_shape_iff.
  Qed.

  (* comments, measures and resets are the same objects at the same relative
     positions, whether the pass succeeds or stops on an exception *)
  Theorem decompose_keeps_non_gates dec next ir r out :
    decompose_loop N dec next [] ir = (r, out) ->
    filter (fun s => negb (is_gate s)) out = filter (fun s => negb (is_gate s)) ir.
  Proof.
    intros H. destruct r as [e|].
    - apply decompose_failure_state in H.
      destruct H as (pre & o & g & gi & post & pre' & -> & _ & Hrw & -> & _).
      rewrite !filter_app. f_equal. exact (rewrites_keeps_non_gates _ _ _ _ Hrw).
    - apply decompose_loop_shape_iff in H. exact (rewrites_keeps_non_gates _ _ _ _ H).
  Qed.


  (* ------------------------------------------------------------------ *)
  (** * 2. Every replacement was checked                                  *)
  (* ------------------------------------------------------------------ *)

  (* the gates of a statement list, in order *)
  Definition stmt_gates (l : list stmtT) : list (gate T) :=
    flat_map (fun s : stmtT => match s with SGate _ g _ => [g] | _ => [] end) l.

  Lemma materialise_gates o g gi next items :
    stmt_gates (materialise o g gi next items) = map (item_gate g) items.
  Proof.
    unfold stmt_gates, materialise.
    induction items as [|[|k g' gi'] items IH]; cbn; auto; now rewrite <- IH.
  Qed.

  Lemma materialise_same o (g : gate T) gi next : materialise o g gi next [DSame] = [SGate o g gi].
  Proof. reflexivity. Qed.

  Lemma materialise_length o (g : gate T) gi next items :
    List.length (materialise o g gi next items) = List.length items.
  Proof. apply map_length. Qed.

  (* what stands in the output in place of the input statement [s] *)
  Definition chunk_ok (dec : decomposer) (s : stmtT) (chunk : list stmtT) : Prop :=
    match s with
    | SGate o g gi =>
        exists items next',
          accepted dec g gi items /\
          chunk = materialise o g gi next' items /\
          check_replacement N g (stmt_gates chunk) = Ok tt
    | _ => chunk = [s]
    end.

  Lemma rewrites_chunks dec next ir out :
    rewrites dec next ir out ->
    exists chunks, out = List.concat chunks /\ Forall2 (chunk_ok dec) ir chunks.
  Proof.
    induction 1 as [next|next s rest out Hg _ IH|next o g gi items rest out Hacc _ IH].
    - exists []. split; [reflexivity|constructor].
    - destruct IH as [chunks [-> HF]]. exists ([s] :: chunks). split; [reflexivity|].
      constructor; [|exact HF]. destruct s; try discriminate; reflexivity.
    - destruct IH as [chunks [-> HF]]. exists (materialise o g gi next items :: chunks).
      split; [reflexivity|]. constructor; [|exact HF].
      exists items, next. repeat split; try apply Hacc.
      rewrite materialise_gates. apply Hacc.
  Qed.

  (* on success every gate of the input was replaced by a list of statements
     whose gates [check_replacement] accepted for exactly that gate; every
     other statement stands for itself *)
  Theorem decompose_every_replacement_checked dec next ir out :
    decompose_loop N dec next [] ir = (None, out) ->
    exists chunks, out = List.concat chunks /\ Forall2 (chunk_ok dec) ir chunks.
  Proof. intros H. apply decompose_loop_shape_iff in H. eapply rewrites_chunks; eauto. Qed.

  (* a decomposer that answers [the same object] leaves the circuit as it is *)
  Theorem decompose_same_unchanged dec next ir out :
    (forall o g gi, In (SGate o g gi) ir -> dec g gi = Ok [DSame]) ->
    decompose_loop N dec next [] ir = (None, out) -> out = ir.
  Proof.
    intros Hs H. apply decompose_loop_shape_iff in H. revert Hs.
    induction H as [next|next s rest out Hg _ IH|next o g gi items rest out Hacc _ IH]; intros Hs.
    - reflexivity.
    - f_equal. apply IH. intros o' g' gi' Hin'; apply (Hs o'); now right.
    - destruct Hacc as [Hd _]. rewrite (Hs o g gi) in Hd by now left.
      inversion Hd; subst items. rewrite materialise_same. cbn [app]. f_equal.
      apply IH. intros o' g' gi' Hin'; apply (Hs o'); now right.
  Qed.

  (* ------------------------------------------------------------------ *)
  (** * 4. The generic replacer only touches gates with the requested name *)
  (* ------------------------------------------------------------------ *)

  Theorem replacer_only_named target r g gi :
    (gargs gi = None \/ gname gi <> Some target) ->
    run_replacer N target r g gi = Ok [DSame].
  Proof.
    unfold run_replacer. intros [Ha|Hn].
    - now rewrite Ha.
    - destruct (gargs gi) as [args|]; [|reflexivity].
      destruct (gname gi) as [nm|]; [|reflexivity].
      destruct (String.eqb_spec nm target) as [->|Hne]; [now elim Hn|reflexivity].
  Qed.

  Theorem replacer_named target r g gi args :
    gargs gi = Some args -> gname gi = Some target ->
    run_replacer N target r g gi = run_rule N r args.
  Proof. unfold run_replacer. intros -> ->. now rewrite String.eqb_refl. Qed.

  (* both cases in one statement *)
  Corollary replacer_spec target r g gi :
    run_replacer N target r g gi =
    match gargs gi with
    | Some args => if (match gname gi with Some nm => String.eqb nm target | None => false end)
                   then run_rule N r args else Ok [DSame]
    | None => Ok [DSame]
    end.
  Proof. unfold run_replacer. destruct (gargs gi), (gname gi); reflexivity. Qed.

  (* ------------------------------------------------------------------ *)
  (** * 6. New statements carry fresh object identities                   *)
  (* ------------------------------------------------------------------ *)

  Definition stmt_oid (s : stmtT) : option positive :=
    match s with
    | SGate o _ _ | SMeasure o _ _ _ _ | SReset o _ _ => Some o
    | SComment _ => None
    end.

  Lemma max_oid_ge ir : forall s o, In s ir -> stmt_oid s = Some o -> (o <= max_oid ir)%positive.
  Proof.
    induction ir as [|s' ir IH]; intros s o Hin Ho; [contradiction|].
    destruct Hin as [->|Hin].
    - destruct s; cbn in Ho; inversion Ho; subst; cbn [max_oid]; lia.
    - specialize (IH s o Hin Ho). destruct s'; cbn [max_oid]; lia.
  Qed.

  Lemma new_oid_range next k m :
    (k < m)%nat ->
    (next <= Pos.of_nat (Pos.to_nat next + k))%positive /\
    (Pos.of_nat (Pos.to_nat next + k) < Pos.of_nat (Pos.to_nat next + m))%positive.
  Proof.
    intros Hk. pose proof (Pos2Nat.is_pos next) as Hp. split.
    - apply Pos2Nat.inj_le. rewrite Nat2Pos.id by lia. lia.
    - apply Pos2Nat.inj_lt. rewrite !Nat2Pos.id by lia. lia.
  Qed.

  Lemma next_after_ge next items : (next <= next_after next items)%positive.
  Proof.
    unfold next_after. pose proof (Pos2Nat.is_pos next) as Hp.
    apply Pos2Nat.inj_le. rewrite Nat2Pos.id by lia. lia.
  Qed.

  Lemma max_key_gt k (g : gate T) gi items : In (DNew k g gi) items -> (k < max_key items)%nat.
  Proof.
    induction items as [|[|k' g' gi'] items IH]; intros Hin; [contradiction| |].
    - destruct Hin as [Hin|Hin]; [discriminate|]. cbn [max_key]. auto.
    - cbn [max_key]. destruct Hin as [Hin|Hin]; [inversion Hin; subst; lia|].
      specialize (IH Hin). lia.
  Qed.

  (* a materialised statement is either the very same gate statement, or a new
     gate statement whose identity lies in [next, next_after next items) *)
  Theorem materialise_fresh_oids o g gi next items s :
    In s (materialise o g gi next items) ->
    (s = SGate o g gi /\ In DSame items) \/
    exists k g' gi',
      In (DNew k g' gi') items /\
      s = SGate (Pos.of_nat (Pos.to_nat next + k)) g' gi' /\
      (next <= Pos.of_nat (Pos.to_nat next + k))%positive /\
      (Pos.of_nat (Pos.to_nat next + k) < next_after next items)%positive.
  Proof.
    unfold materialise. intros Hin. apply in_map_iff in Hin.
    destruct Hin as [[|k g' gi'] [Hs Hin]].
    - left. auto.
    - right. exists k, g', gi'. repeat split; auto.
      + apply (new_oid_range next k (S k)). lia.
      + apply new_oid_range. eapply max_key_gt; eauto.
  Qed.

  Definition fresh_from (next : positive) (s : stmtT) : Prop :=
    exists o g gi, s = SGate o g gi /\ (next <= o)%positive.

  Lemma fresh_from_mono n1 n2 s : (n1 <= n2)%positive -> fresh_from n2 s -> fresh_from n1 s.
  Proof. intros Hle (o & g & gi & -> & Ho). exists o, g, gi. split; [reflexivity|lia]. Qed.

  (* whatever the outcome, each statement of the resulting list is an input
     statement (the same object) or a new gate with identity >= next *)
  Lemma decompose_loop_fresh dec : forall todo next done r out,
    decompose_loop N dec next done todo = (r, out) ->
    Forall (fun s => In s done \/ In s todo \/ fresh_from next s) out.
  Proof.
    induction todo as [|s rest IH]; intros next done r out H.
    - cbn in H. inversion H; subst. apply Forall_forall. intros s Hs. left. now apply in_rev.
    - assert (Hstop : forall e, (Some e, (List.rev done ++ s :: rest)%list) = (r, out) ->
                Forall (fun s0 => In s0 done \/ In s0 (s :: rest) \/ fresh_from next s0) out).
      { intros e He. inversion He; subst. apply Forall_forall. intros s0 Hs0.
        apply in_app_or in Hs0. destruct Hs0 as [Hs0|Hs0]; [left; now apply in_rev|right; now left]. }
      destruct (is_gate s) eqn:Hg.
      + destruct s as [o g gi| | |]; try discriminate. cbn [decompose_loop] in H.
        destruct (dec g gi) as [items|e] eqn:Hd; [|eapply Hstop; eauto].
        destruct (check_replacement N g (map (item_gate g) items)) as [u|e] eqn:Hc; [|eapply Hstop; eauto].
        apply IH in H. eapply Forall_impl; [|exact H]. cbv beta. intros s0 [Hs0|[Hs0|Hs0]].
        * apply in_app_or in Hs0. destruct Hs0 as [Hs0|Hs0]; [|now left].
          apply in_rev in Hs0. apply materialise_fresh_oids in Hs0.
          destruct Hs0 as [[-> _]|(k & g' & gi' & _ & -> & Hlo & _)].
          -- right; left; now left.
          -- right; right. exists (Pos.of_nat (Pos.to_nat next + k)), g', gi'. auto.
        * right; left; now right.
        * right; right. eapply fresh_from_mono; [|exact Hs0]. apply next_after_ge.
      + rewrite decompose_loop_nongate in H by exact Hg.
        apply IH in H. eapply Forall_impl; [|exact H]. cbv beta. intros s0 [Hs0|[Hs0|Hs0]].
        * destruct Hs0 as [->|Hs0]; [right; left; now left|now left].
        * right; left; now right.
        * now right; right.
  Qed.

  (* started above every identity of the circuit, the pass never produces a new
     statement that aliases an existing one *)
  Theorem decompose_loop_fresh_oids dec ir r out :
    decompose_loop N dec (Pos.succ (max_oid ir)) [] ir = (r, out) ->
    Forall (fun s => In s ir \/
                     exists o g gi, s = SGate o g gi /\ (max_oid ir < o)%positive /\
                                    forall s' o', In s' ir -> stmt_oid s' = Some o' -> o' <> o) out.
  Proof.
    intros H. apply decompose_loop_fresh in H. eapply Forall_impl; [|exact H]. cbv beta.
    intros s [[]|[Hs|(o & g & gi & -> & Ho)]]; [now left|right].
    exists o, g, gi. split; [reflexivity|]. split; [lia|].
    intros s' o' Hin Ho'. pose proof (max_oid_ge _ _ _ Hin Ho'). lia.
  Qed.

  Corollary decompose_fresh_oids d ir r out :
    decompose N d ir = (r, out) ->
    Forall (fun s => In s ir \/
                     exists o g gi, s = SGate o g gi /\ (max_oid ir < o)%positive /\
                                    forall s' o', In s' ir -> stmt_oid s' = Some o' -> o' <> o) out.
  Proof. apply decompose_loop_fresh_oids. Qed.

  Corollary replace_fresh_oids target rule ir r out :
    replace N target rule ir = (r, out) ->
    Forall (fun s => In s ir \/
                     exists o g gi, s = SGate o g gi /\ (max_oid ir < o)%positive /\
                                    forall s' o', In s' ir -> stmt_oid s' = Some o' -> o' <> o) out.
  Proof. apply decompose_loop_fresh_oids. Qed.

  (* new statements made for different gates do not alias each other either:
     those made for the current gate lie below [next_after], everything new
     made later lies at or above it *)
  Theorem rewrites_new_oids_disjoint dec next o g gi items rest out s1 s2 :
    rewrites dec (next_after next items) rest out ->
    In s1 (materialise o g gi next items) -> In s2 out -> ~ In s2 rest ->
    s1 = SGate o g gi \/
    exists o1 o2, stmt_oid s1 = Some o1 /\ stmt_oid s2 = Some o2 /\ (o1 < o2)%positive.
  Proof.
    intros Hrw H1 H2 Hn.
    apply decompose_loop_shape_iff in Hrw. apply decompose_loop_fresh in Hrw.
    rewrite Forall_forall in Hrw. specialize (Hrw _ H2).
    destruct Hrw as [[]|[Hin|(o2 & g2 & gi2 & -> & Ho2)]]; [contradiction|].
    apply materialise_fresh_oids in H1.
    destruct H1 as [[-> _]|(k & g' & gi' & _ & -> & _ & Hhi)]; [now left|right].
    eexists _, o2. cbn [stmt_oid]. repeat split. lia.
  Qed.

End DecomposeP.

(* ------------------------------------------------------------------ *)
(** * 5. Target gate sets of the built-in decomposers                  *)
(* ------------------------------------------------------------------ *)
Section Targets.
  Context {T : Type} (N : Num T).
  Notation pairT := (gate T * ginfo T)%type.

  (** ** 5.0 The default gates used by the decomposers, computed *)

  Lemma default_gate_Rx q t : default_gate N "Rx" [AQ q; AF t] =
    Ok (mk_bsr N q (nofZ N 1, nofZ N 0, nofZ N 0) t (nofZ N 0), mkGinfo (Some "Rx") (Some [AQ q; AF t])).
  Proof. reflexivity. Qed.
  Lemma default_gate_Ry q t : default_gate N "Ry" [AQ q; AF t] =
    Ok (mk_bsr N q (nofZ N 0, nofZ N 1, nofZ N 0) t (nofZ N 0), mkGinfo (Some "Ry") (Some [AQ q; AF t])).
  Proof. reflexivity. Qed.
  Lemma default_gate_Rz q t : default_gate N "Rz" [AQ q; AF t] =
    Ok (mk_bsr N q (nofZ N 0, nofZ N 0, nofZ N 1) t (nofZ N 0), mkGinfo (Some "Rz") (Some [AQ q; AF t])).
  Proof. reflexivity. Qed.
  Lemma default_gate_X90 q : default_gate N "X90" [AQ q] =
    Ok (mk_bsr N q (nofZ N 1, nofZ N 0, nofZ N 0) (ndiv N (npi N) (nofZ N 2)) (nofZ N 0),
        mkGinfo (Some "X90") (Some [AQ q])).
  Proof. reflexivity. Qed.
  Lemma default_gate_X q : default_gate N "X" [AQ q] =
    Ok (mk_bsr N q (nofZ N 1, nofZ N 0, nofZ N 0) (npi N) (ndiv N (npi N) (nofZ N 2)),
        mkGinfo (Some "X") (Some [AQ q])).
  Proof. reflexivity. Qed.

  Definition cnot_pair (c t : Z) : pairT :=
    (Ctrl c (mk_bsr N t (nofZ N 1, nofZ N 0, nofZ N 0) (npi N) (ndiv N (npi N) (nofZ N 2))),
     mkGinfo (Some "CNOT") (Some [AQ c; AQ t])).

  (* CNOT(c, t) raises ValueError when c = t (ControlledGate's operand check) *)
  Lemma default_gate_CNOT c t : default_gate N "CNOT" [AQ c; AQ t] =
    if Z.eqb c t then Err EValue else Ok (cnot_pair c t).
  Proof.
    unfold cnot_pair.
    change (default_gate N "CNOT" [AQ c; AQ t]) with
      (match mk_ctrl c (mk_bsr N t (nofZ N 1, nofZ N 0, nofZ N 0) (npi N) (ndiv N (npi N) (nofZ N 2))) with
       | Err er => Err er
       | Ok g => Ok (g, @mkGinfo T (Some "CNOT") (Some [AQ c; AQ t]))
       end).
    unfold mk_ctrl. cbn [mk_bsr gate_qubits znodup zmem].
    destruct (Z.eqb c t); reflexivity.
  Qed.

  Definition axis_vec (a : axis_id) : axis3 T :=
    match a with
    | AxX => (nofZ N 1, nofZ N 0, nofZ N 0)
    | AxY => (nofZ N 0, nofZ N 1, nofZ N 0)
    | AxZ => (nofZ N 0, nofZ N 0, nofZ N 1)
    end.

  Lemma rot_gate_spec a q t :
    rot_gate N a q t = (mk_bsr N q (axis_vec a) t (nofZ N 0), mkGinfo (Some (axis_gate a)) (Some [AQ q; AF t])).
  Proof. destruct a; reflexivity. Qed.

  Lemma x90_spec q :
    x90 N q = (mk_bsr N q (nofZ N 1, nofZ N 0, nofZ N 0) (ndiv N (npi N) (nofZ N 2)) (nofZ N 0),
               mkGinfo (Some "X90") (Some [AQ q])).
  Proof. reflexivity. Qed.

  Lemma cnot_spec c t cn : cnot N c t = Ok cn -> c <> t /\ cn = cnot_pair c t.
  Proof.
    unfold cnot. rewrite default_gate_CNOT. destruct (Z.eqb_spec c t); [discriminate|].
    intros H; inversion H; auto.
  Qed.

  (** ** 5.1 [news]: numbering a list of new gates *)

  Fixpoint news_from (s : nat) (l : list pairT) : list (ditem T) :=
    match l with [] => [] | x :: r => DNew s (fst x) (snd x) :: news_from (S s) r end.

  Lemma news_eq (l : list pairT) : news l = news_from 0 l.
  Proof.
    unfold news. generalize 0%nat. induction l as [|x l IH]; intros s; cbn; [reflexivity|].
    f_equal. apply IH.
  Qed.

  Lemma news_length (l : list pairT) : List.length (news l) = List.length l.
  Proof. rewrite news_eq. generalize 0%nat. induction l; intros; cbn; auto. Qed.

  (* an item that is a new gate satisfying P *)
  Definition item_in (P : pairT -> Prop) (it : ditem T) : Prop :=
    exists k g gi, it = DNew k g gi /\ P (g, gi).

  Lemma news_Forall (P : pairT -> Prop) l : Forall P l -> Forall (item_in P) (news l).
  Proof.
    intros HF. rewrite news_eq. generalize 0%nat. induction HF as [|x l Hx _ IH]; intros s; cbn; constructor.
    - exists s, (fst x), (snd x). split; [reflexivity|]. now destruct x.
    - apply IH.
  Qed.

  Lemma news_gates g (l : list pairT) : map (item_gate g) (news l) = map fst l.
  Proof. rewrite news_eq. generalize 0%nat. induction l; intros; cbn; f_equal; auto. Qed.

  (* counting by generator name *)
  Definition count_named (nm : string) (l : list pairT) : nat :=
    List.length (filter (fun x => name_is (snd x) nm) l).
  Definition item_named (nm : string) (it : ditem T) : bool :=
    match it with DNew _ _ gi => name_is gi nm | DSame => false end.
  Definition count_items (nm : string) (items : list (ditem T)) : nat :=
    List.length (filter (item_named nm) items).

  Lemma count_news nm l : count_items nm (news l) = count_named nm l.
  Proof.
    unfold count_items, count_named. rewrite news_eq. generalize 0%nat.
    induction l as [|x l IH]; intros s; cbn [news_from filter item_named]; [reflexivity|].
    destruct (name_is (snd x) nm); cbn [List.length]; now rewrite IH.
  Qed.

  Lemma count_named_subseq nm l1 l2 : subseq l1 l2 -> (count_named nm l1 <= count_named nm l2)%nat.
  Proof. apply subseq_filter_length. Qed.

  Lemma count_named_app nm l1 l2 : count_named nm (l1 ++ l2) = (count_named nm l1 + count_named nm l2)%nat.
  Proof. unfold count_named. now rewrite filter_app, app_length. Qed.

  (** ** 5.2 The A-B-A decomposers *)

  Definition is_rot (a : axis_id) (q : Z) (x : pairT) : Prop := exists t, x = rot_gate N a q t.

  Lemma is_rot_named a q x : is_rot a q x ->
    exists t, snd x = mkGinfo (Some (axis_gate a)) (Some [AQ q; AF t]) /\
              fst x = mk_bsr N q (axis_vec a) t (nofZ N 0) /\ gate_qubits (fst x) = [q].
  Proof. intros [t ->]. exists t. rewrite rot_gate_spec. repeat split. Qed.

  Lemma filter_identities_spec l :
    subseq (filter_identities N l) l /\
    Forall (fun x => is_identity N (fst x) = false) (filter_identities N l).
  Proof.
    unfold filter_identities. split; [apply subseq_filter|].
    eapply Forall_impl; [|apply filter_Forall]. cbv beta. intros x Hx.
    now apply negb_true_iff.
  Qed.

  Lemma aba_gates_spec ia ib q ax angle phase l :
    aba_gates N ia ib (BSR q ax angle phase) = Ok l ->
    exists t1 t2 t3,
      aba_angles N ia ib angle ax = Ok (t1, t2, t3) /\
      l = filter_identities N [rot_gate N ia q t1; rot_gate N ib q t2; rot_gate N ia q t3].
  Proof.
    unfold aba_gates. destruct (aba_angles N ia ib angle ax) as [[[t1 t2] t3]|e]; [|discriminate].
    intros H; inversion H. exists t1, t2, t3. auto.
  Qed.

  Definition is_bsr_gate (g : gate T) : bool := match g with BSR _ _ _ _ => true | _ => false end.

  Theorem aba_decompose_target ia ib q ax angle phase gi items :
    aba_decompose N ia ib (BSR q ax angle phase) gi = Ok items ->
    exists t1 t2 t3 l,
      aba_angles N ia ib angle ax = Ok (t1, t2, t3) /\
      l = filter_identities N [rot_gate N ia q t1; rot_gate N ib q t2; rot_gate N ia q t3] /\
      items = news l /\
      subseq l [rot_gate N ia q t1; rot_gate N ib q t2; rot_gate N ia q t3] /\
      (List.length items <= 3)%nat /\
      Forall (fun x => is_identity N (fst x) = false) l /\
      Forall (fun x => is_rot ia q x \/ is_rot ib q x) l /\
      Forall (item_in (fun x => (is_rot ia q x \/ is_rot ib q x) /\ is_identity N (fst x) = false)) items.
  Proof.
    unfold aba_decompose.
    destruct (aba_gates N ia ib (BSR q ax angle phase)) as [l|e] eqn:Hg; [|discriminate].
    intros H; inversion H; subst items; clear H.
    apply aba_gates_spec in Hg. destruct Hg as (t1 & t2 & t3 & Ha & Hl).
    exists t1, t2, t3, l.
    destruct (filter_identities_spec [rot_gate N ia q t1; rot_gate N ib q t2; rot_gate N ia q t3]) as [Hsub Hid].
    rewrite <- Hl in Hsub, Hid.
    assert (Hrot : Forall (fun x => is_rot ia q x \/ is_rot ib q x) l).
    { eapply subseq_Forall; [exact Hsub|].
      constructor; [left; eexists; reflexivity|]. constructor; [right; eexists; reflexivity|].
      constructor; [left; eexists; reflexivity|]. constructor. }
    repeat split; auto.
    - rewrite news_length. apply subseq_length in Hsub. exact Hsub.
    - apply news_Forall. apply Forall_forall. intros x Hx.
      rewrite Forall_forall in Hrot, Hid. auto.
  Qed.

  Theorem aba_decompose_non_bsr ia ib g gi :
    is_bsr_gate g = false -> aba_decompose N ia ib g gi = Ok [DSame].
  Proof. destruct g; cbn; intros H; try discriminate; reflexivity. Qed.


  (** ** 5.3 The McKay decomposer *)

  (* the angle of the middle element of the Z-X-Z list, as the model reads it *)
  Definition zxz_angle_of (zxz : list pairT) : T :=
    match zxz with
    | _ :: (BSR _ _ a1 _, gi1) :: _ => if name_is gi1 "Rx" then a1 else nofZ N 0
    | _ => nofZ N 0
    end.

  Definition mckay_shortcut (q : Z) (zxz : list pairT) : result (list pairT) :=
    match zxz with
    | g0 :: _ :: rest => Ok (g0 :: x90 N q :: rest)
    | _ => Ok zxz
    end.

  Definition opt_if (b : bool) (x : pairT) : list pairT := if b then [x] else [].

  (* the proper McKay branch: X90 X90, or Rz? X90 Rz? X90 Rz? *)
  Definition mckay_full (q : Z) (ax : axis3 T) (angle : T) : result (list pairT) :=
    let sh := nsin N (ndiv N angle (nofZ N 2)) in
    let ch := ncos N (ndiv N angle (nofZ N 2)) in
    let za_mod := nsqrt N (nadd N (nmul N ch ch) (nmul N (nmul N (ax_z ax) sh) (nmul N (ax_z ax) sh))) in
    let zb_mod := nmul N (nabs N sh) (nsqrt N (nadd N (nmul N (ax_x ax) (ax_x ax)) (nmul N (ax_y ax) (ax_y ax)))) in
    let theta := nsub N (pi N) (nmul N (nofZ N 2) (natan2 N zb_mod za_mod)) in
    let alpha := natan2 N (nmul N (nneg N sh) (ax_z ax)) ch in
    let beta := natan2 N (nmul N (nneg N sh) (ax_x ax)) (nmul N (nneg N sh) (ax_y ax)) in
    let lam := normalize_angle N (nsub N beta alpha) in
    let phi := normalize_angle N (nsub N (nsub N (nneg N beta) alpha) (pi N)) in
    let theta := normalize_angle N theta in
    if (nltb N (nabs N theta) (atol N)) && neqb N lam phi then Ok [x90 N q; x90 N q]
    else
      Ok ((if nltb N (atol N) (nabs N lam) then [rz N q lam] else []) ++ [x90 N q] ++
          (if nltb N (atol N) (nabs N theta) then [rz N q theta] else []) ++ [x90 N q] ++
          (if nltb N (atol N) (nabs N phi) then [rz N q phi] else []))%list.

  Lemma mckay_gates_unfold q ax angle :
    mckay_gates N q ax angle =
    if nltb N (nabs N angle) (atol N) then Ok []
    else if neqb N (ax_x ax) (nofZ N 0) && neqb N (ax_y ax) (nofZ N 0) then Ok [rz N q (nmul N angle (ax_z ax))]
    else match aba_gates N AxZ AxX (BSR q ax angle (nofZ N 0)) with
         | Err e => Err e
         | Ok zxz =>
             if nltb N (nabs N (nsub N (zxz_angle_of zxz) (ndiv N (pi N) (nofZ N 2)))) (atol N)
             then mckay_shortcut q zxz
             else mckay_full q ax angle
         end.
  Proof. reflexivity. Qed.

  (* the shapes McKay can deliver *)
  Definition opt_rz (q : Z) (l : list pairT) : Prop := l = [] \/ exists t, l = [rz N q t].

  Inductive mckay_shape (q : Z) : list pairT -> Prop :=
  | ms_empty : mckay_shape q []
  | ms_rz    : forall t, mckay_shape q [rz N q t]
  | ms_short : forall t1 rest, opt_rz q rest -> mckay_shape q (rz N q t1 :: x90 N q :: rest)
  | ms_full  : forall a b c, opt_rz q a -> opt_rz q b -> opt_rz q c ->
               mckay_shape q (a ++ [x90 N q] ++ b ++ [x90 N q] ++ c)%list.

  (* the only numeric fact needed: pi/2 is not within ATOL of 0, i.e. the test
     [abs(zxz_angle - pi/2) < ATOL] fails for the default [zxz_angle = 0.0] *)
  Definition half_pi_not_tiny : Prop :=
    nltb N (nabs N (nsub N (nofZ N 0) (ndiv N (pi N) (nofZ N 2)))) (atol N) = false.

  Lemma zxz_angle_of_cases zxz :
    zxz_angle_of zxz = nofZ N 0 \/
    exists x0 x1 rest, zxz = x0 :: x1 :: rest /\ name_is (snd x1) "Rx" = true.
  Proof.
    destruct zxz as [|x0 [|[g1 gi1] rest]]; try (left; reflexivity).
    destruct g1; try (left; reflexivity). cbn [zxz_angle_of].
    destruct (name_is gi1 "Rx") eqn:Hn; [|left; reflexivity].
    right. eexists _, _, _. split; [reflexivity|exact Hn].
  Qed.

  Lemma subseq_nil_inv {A} (l : list A) : subseq l [] -> l = [].
  Proof. inversion 1; reflexivity. Qed.

  Lemma subseq_cons2_of3 {A} (x0 x1 : A) rest a b c :
    subseq (x0 :: x1 :: rest) [a; b; c] ->
    (x0 = a /\ x1 = b /\ (rest = [] \/ rest = [c])) \/
    (x1 = c /\ rest = []).
  Proof.
    intros H. inversion H as [|? ? ? H1|? ? ? H1]; subst.
    - (* a skipped *) inversion H1 as [|? ? ? H2|? ? ? H2]; subst.
      + inversion H2 as [|? ? ? H3|? ? ? H3]; subst.
        * apply subseq_nil_inv in H3. discriminate.
        * apply subseq_nil_inv in H3. discriminate.
      + inversion H2 as [|? ? ? H3|? ? ? H3]; subst.
        * apply subseq_nil_inv in H3. discriminate.
        * apply subseq_nil_inv in H3. subst. right. auto.
    - (* a taken *) inversion H1 as [|? ? ? H2|? ? ? H2]; subst.
      + inversion H2 as [|? ? ? H3|? ? ? H3]; subst.
        * apply subseq_nil_inv in H3. discriminate.
        * apply subseq_nil_inv in H3. subst. right. auto.
      + left. repeat split.
        inversion H2 as [|? ? ? H3|? ? ? H3]; subst.
        * apply subseq_nil_inv in H3. now left.
        * apply subseq_nil_inv in H3. subst. now right.
  Qed.

  Lemma name_is_rot a q t nm : name_is (snd (rot_gate N a q t)) nm = String.eqb (axis_gate a) nm.
  Proof. rewrite rot_gate_spec. reflexivity. Qed.

  Lemma name_is_x90 q nm : name_is (snd (x90 N q)) nm = String.eqb "X90" nm.
  Proof. reflexivity. Qed.

  Lemma mckay_full_shape q ax angle l : mckay_full q ax angle = Ok l -> mckay_shape q l.
  Proof.
    unfold mckay_full. cbv zeta.
    match goal with |- context [if ?c then Ok [x90 N q; x90 N q] else _] => destruct c end.
    - intros H; inversion H. apply (ms_full q [] [] []); now left.
    - intros H; inversion H. apply ms_full.
      + match goal with |- context [if ?c then _ else _] => destruct c end; [right; eexists; reflexivity|now left].
      + match goal with |- context [if ?c then _ else _] => destruct c end; [right; eexists; reflexivity|now left].
      + match goal with |- context [if ?c then _ else _] => destruct c end; [right; eexists; reflexivity|now left].
  Qed.

  Theorem mckay_gates_shape (Hpi : half_pi_not_tiny) q ax angle l :
    mckay_gates N q ax angle = Ok l -> mckay_shape q l.
  Proof.
    rewrite mckay_gates_unfold.
    destruct (nltb N (nabs N angle) (atol N)); [intros H; inversion H; constructor|].
    destruct (neqb N (ax_x ax) (nofZ N 0) && neqb N (ax_y ax) (nofZ N 0));
      [intros H; inversion H; constructor|].
    destruct (aba_gates N AxZ AxX (BSR q ax angle (nofZ N 0))) as [zxz|e] eqn:Hz; [|discriminate].
    apply aba_gates_spec in Hz. destruct Hz as (t1 & t2 & t3 & _ & Hz).
    destruct (nltb N (nabs N (nsub N (zxz_angle_of zxz) (ndiv N (pi N) (nofZ N 2)))) (atol N)) eqn:Hs;
      [|apply mckay_full_shape].
    destruct (zxz_angle_of_cases zxz) as [H0|(x0 & x1 & rest & Hzz & Hname)].
    - rewrite H0 in Hs. unfold half_pi_not_tiny in Hpi. rewrite Hpi in Hs. discriminate.
    - pose proof (proj1 (filter_identities_spec
        [rot_gate N AxZ q t1; rot_gate N AxX q t2; rot_gate N AxZ q t3])) as Hsub.
      rewrite <- Hz, Hzz in Hsub. apply subseq_cons2_of3 in Hsub.
      destruct Hsub as [(-> & -> & Hrest)|(-> & _)].
      + rewrite Hzz. cbn [mckay_shortcut]. intros H; inversion H.
        apply ms_short. destruct Hrest as [->| ->]; [now left|right; eexists; reflexivity].
      + rewrite name_is_rot in Hname. discriminate.
  Qed.

  (* without the numeric fact: the shortcut branch may be entered with the
     default angle and then hands back (part of) the raw Z-X-Z list *)
  Inductive mckay_shape_weak (q : Z) : list pairT -> Prop :=
  | msw_ok  : forall l, mckay_shape q l -> mckay_shape_weak q l
  | msw_raw : forall t1 t2 t3 zxz l,
      subseq zxz [rot_gate N AxZ q t1; rot_gate N AxX q t2; rot_gate N AxZ q t3] ->
      mckay_shortcut q zxz = Ok l -> mckay_shape_weak q l.

  Theorem mckay_gates_shape_partial q ax angle l :
    mckay_gates N q ax angle = Ok l -> mckay_shape_weak q l.
  Proof.
    rewrite mckay_gates_unfold.
    destruct (nltb N (nabs N angle) (atol N)); [intros H; inversion H; repeat constructor|].
    destruct (neqb N (ax_x ax) (nofZ N 0) && neqb N (ax_y ax) (nofZ N 0));
      [intros H; inversion H; repeat constructor|].
    destruct (aba_gates N AxZ AxX (BSR q ax angle (nofZ N 0))) as [zxz|e] eqn:Hz; [|discriminate].
    apply aba_gates_spec in Hz. destruct Hz as (t1 & t2 & t3 & _ & Hz).
    destruct (nltb N (nabs N (nsub N (zxz_angle_of zxz) (ndiv N (pi N) (nofZ N 2)))) (atol N)) eqn:Hs.
    - intros H. eapply msw_raw; [|exact H]. rewrite Hz. apply filter_identities_spec.
    - intros H. apply msw_ok. eapply mckay_full_shape; eauto.
  Qed.


  (* consequences of the shape: names, length, number of X90 *)
  Definition mckay_elem (q : Z) (x : pairT) : Prop := is_rot AxZ q x \/ x = x90 N q.

  Lemma opt_rz_elem q l : opt_rz q l -> Forall (mckay_elem q) l.
  Proof.
    intros [->|[t ->]]; [constructor|].
    constructor; [left; eexists; reflexivity|constructor].
  Qed.

  Lemma opt_rz_facts q l nm : opt_rz q l ->
    (List.length l <= 1)%nat /\ (nm <> "Rz" -> count_named nm l = 0%nat).
  Proof.
    intros [->|[t ->]]; split; cbn [List.length]; try lia; try reflexivity.
    intros Hn. unfold count_named, rz. cbn [filter]. rewrite name_is_rot. cbn [axis_gate].
    destruct (String.eqb_spec "Rz" nm) as [<-|_]; [now elim Hn|reflexivity].
  Qed.

  Lemma count_named_x90 q nm : count_named nm [x90 N q] = if String.eqb "X90" nm then 1%nat else 0%nat.
  Proof. unfold count_named. cbn [filter]. rewrite name_is_x90. now destruct (String.eqb "X90" nm). Qed.

  Lemma count_named_cons nm x l : count_named nm (x :: l) = (count_named nm [x] + count_named nm l)%nat.
  Proof. apply (count_named_app nm [x] l). Qed.

  Lemma count_named_rot nm a q t :
    count_named nm [rot_gate N a q t] = if String.eqb (axis_gate a) nm then 1%nat else 0%nat.
  Proof. unfold count_named. cbn [filter]. rewrite name_is_rot. now destruct (String.eqb (axis_gate a) nm). Qed.

  Theorem mckay_shape_facts q l : mckay_shape q l ->
    Forall (mckay_elem q) l /\
    (List.length l <= 5)%nat /\
    (count_named "X90" l <= 2)%nat /\
    count_named "Rx" l = 0%nat.
  Proof.
    assert (Hx : mckay_elem q (x90 N q)) by (right; reflexivity).
    assert (Hz : forall t, mckay_elem q (rz N q t)) by (intros t; left; eexists; reflexivity).
    assert (HnX : "X90" <> "Rz") by discriminate. assert (HnR : "Rx" <> "Rz") by discriminate.
    intros [|t|t1 rest Hr|a b c Ha Hb Hc].
    - repeat split; auto; cbn; lia.
    - split; [constructor; [apply Hz|constructor]|]. split; [cbn; lia|].
      unfold rz; rewrite !count_named_rot; cbn; lia.
    - destruct (opt_rz_facts q rest "X90" Hr) as [Hl HcX].
      destruct (opt_rz_facts q rest "Rx" Hr) as [_ HcR].
      repeat split.
      + constructor; auto. constructor; auto. now apply opt_rz_elem.
      + cbn [List.length]. lia.
      + rewrite count_named_cons, (count_named_cons _ (x90 N q)). unfold rz.
        rewrite count_named_rot, count_named_x90, HcX by auto. cbn. lia.
      + rewrite count_named_cons, (count_named_cons _ (x90 N q)). unfold rz.
        rewrite count_named_rot, count_named_x90, HcR by auto. cbn. lia.
    - destruct (opt_rz_facts q a "X90" Ha) as [Hla HaX]. destruct (opt_rz_facts q a "Rx" Ha) as [_ HaR].
      destruct (opt_rz_facts q b "X90" Hb) as [Hlb HbX]. destruct (opt_rz_facts q b "Rx" Hb) as [_ HbR].
      destruct (opt_rz_facts q c "X90" Hc) as [Hlc HcX]. destruct (opt_rz_facts q c "Rx" Hc) as [_ HcR].
      repeat split.
      + repeat (apply Forall_app; split); auto using opt_rz_elem.
      + rewrite !app_length. cbn [List.length]. lia.
      + rewrite !count_named_app, !count_named_x90, HaX, HbX, HcX by auto. cbn. lia.
      + rewrite !count_named_app, !count_named_x90, HaR, HbR, HcR by auto. cbn. lia.
  Qed.

  Lemma mckay_decompose_cases g gi items :
    mckay_decompose N g gi = Ok items ->
    (items = [DSame] /\
     (is_bsr_gate g = false \/ name_is gi "Rz" = true \/ name_is gi "X90" = true)) \/
    exists q ax angle phase l,
      g = BSR q ax angle phase /\ mckay_gates N q ax angle = Ok l /\ items = news l.
  Proof.
    unfold mckay_decompose.
    destruct g as [q ax angle phase| |]; try (intros H; inversion H; left; split; auto; fail).
    destruct (name_is gi "Rz" || name_is gi "X90") eqn:Hn.
    - intros H; inversion H. left. split; [reflexivity|]. right. now apply orb_true_iff.
    - destruct (mckay_gates N q ax angle) as [l|e] eqn:Hl; [|discriminate].
      intros H; inversion H. right. exists q, ax, angle, phase, l. auto.
  Qed.

  (* gates that are passed through as the same object *)
  Theorem mckay_decompose_same g gi :
    (is_bsr_gate g = false \/ name_is gi "Rz" = true \/ name_is gi "X90" = true) ->
    mckay_decompose N g gi = Ok [DSame].
  Proof.
    unfold mckay_decompose. destruct g; try reflexivity.
    intros [H|[H|H]]; [discriminate| |]; rewrite H; [reflexivity|now rewrite orb_true_r].
  Qed.

  (* McKay delivers Rz and X90 only: Rz? X90 Rz? X90 Rz?, or the Z-X-Z
     shortcut Rz X90 Rz?, or a single Rz, or nothing *)
  Theorem mckay_decompose_target (Hpi : half_pi_not_tiny) g gi items :
    mckay_decompose N g gi = Ok items ->
    items = [DSame] \/
    exists q ax angle phase l,
      g = BSR q ax angle phase /\ items = news l /\ mckay_shape q l /\
      Forall (item_in (mckay_elem q)) items /\
      (List.length items <= 5)%nat /\
      (count_items "X90" items <= 2)%nat /\
      count_items "Rx" items = 0%nat.
  Proof.
    intros H. apply mckay_decompose_cases in H.
    destruct H as [[H _]|(q & ax & angle & phase & l & -> & Hl & ->)]; [now left|right].
    apply (mckay_gates_shape Hpi) in Hl. pose proof (mckay_shape_facts q l Hl) as (H1 & H2 & H3 & H4).
    exists q, ax, angle, phase, l. repeat split; auto.
    - now apply news_Forall.
    - now rewrite news_length.
    - now rewrite count_news.
    - now rewrite count_news.
  Qed.

  (* ... and for an arbitrary [N] (no numeric fact at all) an Rx may survive *)
  Definition mckay_elem_weak (q : Z) (x : pairT) : Prop := mckay_elem q x \/ is_rot AxX q x.

  Lemma mckay_shortcut_facts q zxz l (P : pairT -> Prop) :
    mckay_shortcut q zxz = Ok l -> P (x90 N q) -> Forall P zxz ->
    Forall P l /\ List.length l = List.length zxz /\
    (count_named "X90" l <= 1 + count_named "X90" zxz)%nat.
  Proof.
    intros H Hx HF. destruct zxz as [|g0 [|g1 rest]]; cbn [mckay_shortcut] in H; inversion H; subst l.
    - repeat split; auto.
    - repeat split; auto.
    - inversion HF as [|? ? H0 HF1]; subst. inversion HF1 as [|? ? H1 HF2]; subst.
      repeat split; auto.
      rewrite (count_named_cons _ g0 (x90 N q :: rest)), (count_named_cons _ (x90 N q) rest).
      rewrite (count_named_cons _ g0 (g1 :: rest)), (count_named_cons _ g1 rest).
      rewrite count_named_x90. cbn. lia.
  Qed.

  Theorem mckay_shape_weak_facts q l : mckay_shape_weak q l ->
    Forall (mckay_elem_weak q) l /\ (List.length l <= 5)%nat /\ (count_named "X90" l <= 2)%nat.
  Proof.
    intros [l' Hs|t1 t2 t3 zxz l' Hsub Hsc].
    - destruct (mckay_shape_facts q l' Hs) as (H1 & H2 & H3 & _). repeat split; auto.
      eapply Forall_impl; [|exact H1]. intros x Hx. now left.
    - assert (HF : Forall (mckay_elem_weak q) zxz).
      { eapply subseq_Forall; [exact Hsub|].
        constructor; [left; left; eexists; reflexivity|].
        constructor; [right; eexists; reflexivity|].
        constructor; [left; left; eexists; reflexivity|]. constructor. }
      assert (Hx : mckay_elem_weak q (x90 N q)) by (left; right; reflexivity).
      destruct (mckay_shortcut_facts q zxz l' _ Hsc Hx HF) as (H1 & H2 & H3).
      pose proof (subseq_length _ _ Hsub) as Hlen. cbn [List.length] in Hlen.
      pose proof (count_named_subseq "X90" _ _ Hsub) as Hcnt.
      rewrite count_named_cons, (count_named_cons _ (rot_gate N AxX q t2)), !count_named_rot in Hcnt.
      cbn in Hcnt. repeat split; auto; lia.
  Qed.

  (* Full statement (false for an arbitrary N, see [mckay_decompose_target_refuted]):
       forall g gi items, mckay_decompose N g gi = Ok items ->
         items = [DSame] \/ ... Forall (item_in (mckay_elem q)) items ... *)
  Theorem mckay_decompose_target_partial g gi items :
    mckay_decompose N g gi = Ok items ->
    items = [DSame] \/
    exists q ax angle phase l,
      g = BSR q ax angle phase /\ items = news l /\ mckay_shape_weak q l /\
      Forall (item_in (mckay_elem_weak q)) items /\
      (List.length items <= 5)%nat /\
      (count_items "X90" items <= 2)%nat.
  Proof.
    intros H. apply mckay_decompose_cases in H.
    destruct H as [[H _]|(q & ax & angle & phase & l & -> & Hl & ->)]; [now left|right].
    apply mckay_gates_shape_partial in Hl. pose proof (mckay_shape_weak_facts q l Hl) as (H1 & H2 & H3).
    exists q, ax, angle, phase, l. repeat split; auto.
    - now apply news_Forall.
    - now rewrite news_length.
    - now rewrite count_news.
  Qed.


  (* in the Z-X-Z shortcut there is exactly one X90 *)
  Lemma mckay_short_one_x90 q t1 rest :
    opt_rz q rest -> count_named "X90" (rz N q t1 :: x90 N q :: rest) = 1%nat.
  Proof.
    intros Hr. destruct (opt_rz_facts q rest "X90" Hr) as [_ Hc].
    rewrite count_named_cons, (count_named_cons _ (x90 N q)). unfold rz.
    rewrite count_named_rot, count_named_x90, Hc by discriminate. reflexivity.
  Qed.

  (** ** 5.4 The CNOT decomposer *)

  Inductive cnot_elem (c tq : Z) : pairT -> Prop :=
  | ce_cnot : cnot_elem c tq (cnot_pair c tq)
  | ce_ry   : forall t, cnot_elem c tq (rot_gate N AxY tq t)
  | ce_rz   : forall t, cnot_elem c tq (rot_gate N AxZ tq t)
  | ce_rzc  : forall t, cnot_elem c tq (rot_gate N AxZ c t).

  (* the two circuits of the decomposer before identities are dropped:
     one CNOT (A, B, C with B trivial; the control angle is phase -/+ pi/2
     according to a sign computed from the axis and the angles) and the
     general two-CNOT circuit *)
  Definition cnot_list1 (c tq : Z) (a1 a2 a3 a4 a5 : T) : list pairT :=
    [rot_gate N AxZ tq a1; rot_gate N AxY tq a2; cnot_pair c tq; rot_gate N AxY tq a3;
     rot_gate N AxZ tq a4; rot_gate N AxZ c a5].
  Definition cnot_list2 (c tq : Z) (a1 a2 a3 a4 a5 a6 : T) : list pairT :=
    [rot_gate N AxZ tq a1; cnot_pair c tq; rot_gate N AxZ tq a2; rot_gate N AxY tq a3; cnot_pair c tq;
     rot_gate N AxY tq a4; rot_gate N AxZ tq a5; rot_gate N AxZ c a6].

  Theorem cnot_gates_shape c tq ax angle phase l :
    cnot_gates N c tq ax angle phase = Ok l ->
    c <> tq /\
    exists full,
      l = filter_identities N full /\
      ((exists a1 a2 a3 a4 a5, full = cnot_list1 c tq a1 a2 a3 a4 a5 /\
          (a5 = nsub N phase (ndiv N (pi N) (nofZ N 2)) \/
           a5 = nadd N phase (ndiv N (pi N) (nofZ N 2)))) \/
       (exists a1 a2 a3 a4 a5 a6, full = cnot_list2 c tq a1 a2 a3 a4 a5 a6)).
  Proof.
    unfold cnot_gates, ry, rz'.
    destruct (default_gate N "X" [AQ tq]) as [xg|e]; [|discriminate].
    destruct (cnot N c tq) as [cn|e] eqn:Hc; [|discriminate].
    apply cnot_spec in Hc. destruct Hc as [Hne ->].
    destruct (compose_gates N xg (BSR tq ax angle phase, anon)) as [[g' gi']|e]; [|discriminate].
    destruct g' as [q' axx angx phx| |]; try discriminate.
    destruct (aba_angles N AxZ AxY angx axx) as [[[t0x t1x] t2x]|e]; [|discriminate].
    match goal with |- context [if ?b then _ else _] => destruct b end.
    - intros H. apply Ok_inj in H. subst l. split; [exact Hne|]. eexists. split; [reflexivity|].
      left. eexists t2x, (ndiv N t1x (nofZ N 2)), (ndiv N (nneg N t1x) (nofZ N 2)), (nneg N t2x), _.
      split; [reflexivity|].
      match goal with |- context [if ?b then _ else _] => destruct b end; [left|right]; reflexivity.
    - destruct (aba_angles N AxZ AxY angle ax) as [[[t0 t1] t2]|e]; [|discriminate].
      intros H. apply Ok_inj in H. subst l. split; [exact Hne|]. eexists. split; [reflexivity|].
      right. exists (ndiv N (nsub N t0 t2) (nofZ N 2)), (ndiv N (nneg N (nadd N t0 t2)) (nofZ N 2)),
        (ndiv N (nneg N t1) (nofZ N 2)), (ndiv N t1 (nofZ N 2)), t2, phase. reflexivity.
  Qed.

  Lemma cnot_elem_qubits c tq x : cnot_elem c tq x -> incl (gate_qubits (fst x)) [c; tq].
  Proof.
    intros [|t|t|t]; rewrite ?rot_gate_spec; cbn [fst cnot_pair mk_bsr gate_qubits];
      intros z [<-|H]; cbn; auto; try contradiction.
  Qed.

  Lemma name_is_cnot_pair c tq nm : name_is (snd (cnot_pair c tq)) nm = String.eqb "CNOT" nm.
  Proof. reflexivity. Qed.

  Lemma count_named_cnot_pair c tq nm :
    count_named nm [cnot_pair c tq] = if String.eqb "CNOT" nm then 1%nat else 0%nat.
  Proof. unfold count_named. cbn [filter]. rewrite name_is_cnot_pair. now destruct (String.eqb "CNOT" nm). Qed.

  Theorem cnot_gates_target c tq ax angle phase l :
    cnot_gates N c tq ax angle phase = Ok l ->
    c <> tq /\
    Forall (cnot_elem c tq) l /\
    Forall (fun x => incl (gate_qubits (fst x)) [c; tq]) l /\
    Forall (fun x => is_identity N (fst x) = false) l /\
    (count_named "CNOT" l <= 2)%nat /\
    (List.length l <= 8)%nat.
  Proof.
    intros H. apply cnot_gates_shape in H. destruct H as (Hne & full & -> & Hfull).
    destruct (filter_identities_spec full) as [Hsub Hid].
    assert (Hel : Forall (cnot_elem c tq) full /\ (count_named "CNOT" full <= 2)%nat /\ (List.length full <= 8)%nat).
    { destruct Hfull as [(a1 & a2 & a3 & a4 & a5 & -> & _)|(a1 & a2 & a3 & a4 & a5 & a6 & ->)].
      - split; [repeat (constructor; [constructor|]); constructor|]. split; [|cbn; lia].
        unfold cnot_list1. repeat rewrite (count_named_cons _ _ (_ :: _)).
        rewrite !count_named_rot, !count_named_cnot_pair. cbn. lia.
      - split; [repeat (constructor; [constructor|]); constructor|]. split; [|cbn; lia].
        unfold cnot_list2. repeat rewrite (count_named_cons _ _ (_ :: _)).
        rewrite !count_named_rot, !count_named_cnot_pair. cbn. lia. }
    destruct Hel as (HF & Hcnt & Hlen).
    assert (HFl : Forall (cnot_elem c tq) (filter_identities N full)) by (eapply subseq_Forall; eauto).
    repeat split; auto.
    - eapply Forall_impl; [|exact HFl]. intros x Hx. now apply cnot_elem_qubits.
    - pose proof (count_named_subseq "CNOT" _ _ Hsub). lia.
    - pose proof (subseq_length _ _ Hsub). lia.
  Qed.

  Definition is_ctrl_bsr (g : gate T) : bool :=
    match g with Ctrl _ (BSR _ _ _ _) => true | _ => false end.

  (* doubly controlled gates, matrix gates and single-qubit gates are handed back as they are *)
  Theorem cnot_decompose_same g gi : is_ctrl_bsr g = false -> cnot_decompose N g gi = Ok [DSame].
  Proof.
    destruct g as [| c g' |]; try reflexivity. destruct g'; try reflexivity. discriminate.
  Qed.

  Theorem cnot_decompose_target c tq ax angle phase gi items :
    cnot_decompose N (Ctrl c (BSR tq ax angle phase)) gi = Ok items ->
    c <> tq /\
    exists l,
      cnot_gates N c tq ax angle phase = Ok l /\ items = news l /\
      Forall (item_in (fun x => cnot_elem c tq x /\
                                incl (gate_qubits (fst x)) [c; tq] /\
                                is_identity N (fst x) = false)) items /\
      (count_items "CNOT" items <= 2)%nat /\
      (List.length items <= 8)%nat.
  Proof.
    cbn [cnot_decompose].
    destruct (cnot_gates N c tq ax angle phase) as [l|e] eqn:Hl; [|discriminate].
    intros H; inversion H; subst items; clear H.
    pose proof (cnot_gates_target _ _ _ _ _ _ Hl) as (Hne & H1 & H2 & H3 & H4 & H5).
    split; [exact Hne|]. exists l. repeat split; auto.
    - apply news_Forall. rewrite Forall_forall in *. auto.
    - now rewrite count_news.
    - now rewrite news_length.
  Qed.

  (* reading [cnot_elem] as names and operands *)
  Lemma cnot_elem_named c tq x : cnot_elem c tq x ->
    snd x = mkGinfo (Some "CNOT") (Some [AQ c; AQ tq]) \/
    (exists t, snd x = mkGinfo (Some "Ry") (Some [AQ tq; AF t])) \/
    (exists t, snd x = mkGinfo (Some "Rz") (Some [AQ tq; AF t])) \/
    (exists t, snd x = mkGinfo (Some "Rz") (Some [AQ c; AF t])).
  Proof.
    intros [|t|t|t]; rewrite ?rot_gate_spec; cbn [snd cnot_pair axis_gate]; eauto 6.
  Qed.


  (** ** 5.5 Circuit level: what a successful pass leaves in the circuit *)

  Definition gates_sat (Pg : gate T -> ginfo T -> Prop) (l : list (stmt T)) : Prop :=
    Forall (fun s => match s with SGate _ g gi => Pg g gi | _ => True end) l.

  Definition item_sat (Pg : gate T -> ginfo T -> Prop) (g : gate T) (gi : ginfo T) (it : ditem T) : Prop :=
    match it with DSame => Pg g gi | DNew _ g' gi' => Pg g' gi' end.

  Lemma rewrites_gates_sat dec (Pg : gate T -> ginfo T -> Prop) :
    (forall g gi items, accepted N dec g gi items -> Forall (item_sat Pg g gi) items) ->
    forall next ir out, rewrites N dec next ir out -> gates_sat Pg out.
  Proof.
    intros Hdec next ir out H.
    induction H as [next|next s rest out Hg _ IH|next o g gi items rest out Hacc _ IH].
    - constructor.
    - constructor; [|exact IH]. destruct s; try discriminate; exact I.
    - apply Forall_app. split; [|exact IH].
      specialize (Hdec g gi items Hacc). unfold materialise.
      apply Forall_forall. intros s Hs. apply in_map_iff in Hs. destruct Hs as [it [<- Hin]].
      rewrite Forall_forall in Hdec. specialize (Hdec it Hin). destruct it; exact Hdec.
  Qed.

  Lemma item_in_sat (P : pairT -> Prop) (Pg : gate T -> ginfo T -> Prop) g gi items :
    (forall x, P x -> Pg (fst x) (snd x)) ->
    Forall (item_in P) items -> Forall (item_sat Pg g gi) items.
  Proof.
    intros HP HF. eapply Forall_impl; [|exact HF]. intros it (k & g' & gi' & -> & Hx).
    exact (HP _ Hx).
  Qed.

  Lemma name_is_true (gi : ginfo T) nm : name_is gi nm = true -> gname gi = Some nm.
  Proof.
    unfold name_is. destruct (gname gi) as [n|]; [|discriminate].
    intros H. apply String.eqb_eq in H. now subst.
  Qed.

  (* after a successful A-B-A pass every single-qubit rotation is an Ra or an Rb *)
  Theorem aba_pass_target ia ib ir out :
    decompose N (DecABA ia ib) ir = (None, out) ->
    gates_sat (fun g gi => is_bsr_gate g = true ->
                 gname gi = Some (axis_gate ia) \/ gname gi = Some (axis_gate ib)) out.
  Proof.
    intros H. apply decompose_loop_shape_iff in H. eapply rewrites_gates_sat; [|exact H].
    intros g gi items [Hd _]. cbn [run_decomposer] in Hd.
    destruct g as [q ax angle phase|c g'|m ops].
    - apply aba_decompose_target in Hd.
      destruct Hd as (t1 & t2 & t3 & l & _ & _ & _ & _ & _ & _ & _ & HF).
      eapply item_in_sat; [|exact HF]. cbv beta.
      intros x [[[t ->]|[t ->]] _] _; rewrite rot_gate_spec; cbn [snd gname]; auto.
    - cbn in Hd. inversion Hd. constructor; [|constructor]. cbn. discriminate.
    - cbn in Hd. inversion Hd. constructor; [|constructor]. cbn. discriminate.
  Qed.

  (* after a successful McKay pass every single-qubit rotation is an Rz or an X90 *)
  Theorem mckay_pass_target (Hpi : half_pi_not_tiny) ir out :
    decompose N DecMcKay ir = (None, out) ->
    gates_sat (fun g gi => is_bsr_gate g = true -> gname gi = Some "Rz" \/ gname gi = Some "X90") out.
  Proof.
    intros H. apply decompose_loop_shape_iff in H. eapply rewrites_gates_sat; [|exact H].
    intros g gi items [Hd _]. cbn [run_decomposer] in Hd.
    pose proof (mckay_decompose_target Hpi _ _ _ Hd) as Ht.
    apply mckay_decompose_cases in Hd.
    destruct Hd as [[-> Hwhy]|(q & ax & angle & phase & l & -> & Hl & ->)].
    - constructor; [|constructor]. cbn [item_sat]. intros Hb.
      destruct Hwhy as [Hnb|[Hn|Hn]]; [congruence|left|right]; now apply name_is_true.
    - destruct Ht as [Ht|(q' & ax' & angle' & phase' & l' & Heq & _ & _ & HF & _)].
      + exfalso. rewrite news_eq in Ht. destruct l; discriminate.
      + inversion Heq; subst q'. eapply item_in_sat; [|exact HF]. cbv beta.
        intros x [[t ->]| ->] _; [rewrite rot_gate_spec; left|right]; reflexivity.
  Qed.

  (* after a successful CNOT pass the only controlled rotations left are CNOTs *)
  Theorem cnot_pass_target ir out :
    decompose N DecCNOT ir = (None, out) ->
    gates_sat (fun g gi => match g with
                           | Ctrl c (BSR tq _ _ _) => gi = mkGinfo (Some "CNOT") (Some [AQ c; AQ tq])
                           | _ => True
                           end) out.
  Proof.
    intros H. apply decompose_loop_shape_iff in H. eapply rewrites_gates_sat; [|exact H].
    intros g gi items [Hd _]. cbn [run_decomposer] in Hd.
    destruct (is_ctrl_bsr g) eqn:Hg.
    - destruct g as [|c g'|]; try discriminate. destruct g' as [tq ax angle phase| |]; try discriminate.
      apply cnot_decompose_target in Hd. destruct Hd as (_ & l & _ & _ & HF & _).
      eapply item_in_sat; [|exact HF]. cbv beta.
      intros x [[|t|t|t] _]; rewrite ?rot_gate_spec; cbn [fst snd cnot_pair mk_bsr]; auto.
    - rewrite cnot_decompose_same in Hd by exact Hg. inversion Hd.
      constructor; [|constructor]. cbn [item_sat].
      destruct g as [|c g'|]; auto. destruct g'; auto. discriminate.
  Qed.

End Targets.

Arguments half_pi_not_tiny {T} N.

(* ------------------------------------------------------------------ *)
(** * The hypothesis of [mckay_decompose_target] cannot be dropped       *)
(* ------------------------------------------------------------------ *)

(* a degenerate [Num] (pi = 0, x / y = x) in which abs(0 - pi/2) < ATOL *)
Definition ZNum : Num Z := {|
  nofZ := fun z => z; nadd := Z.add; nsub := Z.sub; nmul := Z.mul; ndiv := fun x _ => x;
  nneg := Z.opp; nabs := Z.abs; nsqrt := fun x => x; nsin := fun _ => 0%Z; ncos := fun _ => 0%Z;
  ntan := fun _ => 0%Z; nacos := fun _ => 3%Z; natan2 := fun _ _ => 0%Z; npi := 0%Z;
  nfloordiv := fun _ _ => 0%Z; nmod := fun _ _ => 0%Z; nltb := Z.ltb; nleb := fun _ _ => true;
  neqb := fun _ _ => false; ncopysign := fun x _ => x; nround := fun _ x => x; nroundpy := fun _ x => x;
  nisfinite := fun _ => true; ndegrees := fun x => x |}.

Theorem mckay_decompose_target_refuted :
  exists (T : Type) (N : Num T) (g : gate T) (gi : ginfo T) (k : nat) (g' : gate T) (q : Z) (t : T),
    mckay_decompose N g gi = Ok [DNew k g' (mkGinfo (Some "Rx") (Some [AQ q; AF t]))].
Proof.
  exists Z, ZNum, (BSR 0%Z (0, 0, 1)%Z 5%Z 0%Z), anon. eexists _, _, _, _. vm_compute. reflexivity.
Qed.

Lemma ZNum_half_pi_tiny : ~ half_pi_not_tiny ZNum.
Proof. vm_compute. discriminate. Qed.

(* ------------------------------------------------------------------ *)
(** * The hypothesis holds over the real numbers                         *)
(* ------------------------------------------------------------------ *)
From Coq Require Reals Lra.
From OSQ Require RTrig RNum.

Lemma half_pi_not_tiny_R : half_pi_not_tiny RNum.RNum.
Proof.
  unfold half_pi_not_tiny, atol, pi.
  cbn [nltb nabs nsub nofZ ndiv npi RNum.RNum].
  apply RNum.Rltb_false.
  pose proof RNum.PI_bounds as HPI.
  rewrite Rbasic_fun.Rabs_left by Lra.lra. Lra.lra.
Qed.

Corollary mckay_pass_target_R ir out :
  decompose RNum.RNum DecMcKay ir = (None, out) ->
  gates_sat (fun g gi => is_bsr_gate g = true -> gname gi = Some "Rz" \/ gname gi = Some "X90") out.
Proof. apply mckay_pass_target. exact half_pi_not_tiny_R. Qed.

(* ------------------------------------------------------------------ *)
(** * The same facts stated for the entry points [decompose] / [replace] *)
(* ------------------------------------------------------------------ *)
Section EntryPoints.
  Context {T : Type} (N : Num T).

  Corollary decompose_shape d ir out :
    decompose N d ir = (None, out) <-> rewrites N (run_decomposer N d) (Pos.succ (max_oid ir)) ir out.
  Proof. apply decompose_loop_shape_iff. Qed.

  Corollary replace_shape target rule ir out :
    replace N target rule ir = (None, out) <->
    rewrites N (run_replacer N target rule) (Pos.succ (max_oid ir)) ir out.
  Proof. apply decompose_loop_shape_iff. Qed.

  Corollary decompose_pass_keeps_non_gates d ir r out :
    decompose N d ir = (r, out) ->
    filter (fun s => negb (is_gate s)) out = filter (fun s => negb (is_gate s)) ir.
  Proof. apply decompose_keeps_non_gates. Qed.

  Corollary replace_pass_keeps_non_gates target rule ir r out :
    replace N target rule ir = (r, out) ->
    filter (fun s => negb (is_gate s)) out = filter (fun s => negb (is_gate s)) ir.
  Proof. apply decompose_keeps_non_gates. Qed.

  (* [replace] leaves a circuit without gates of the requested name untouched *)
  Corollary replace_no_target_unchanged target rule ir out :
    (forall o g gi, In (SGate o g gi) ir -> gargs gi = None \/ gname gi <> Some target) ->
    replace N target rule ir = (None, out) -> out = ir.
  Proof.
    intros Hn. apply decompose_same_unchanged.
    intros o g gi Hin. apply replacer_only_named. eauto.
  Qed.
End EntryPoints.

(* ------------------------------------------------------------------ *)
(** * Assumptions                                                       *)
(* ------------------------------------------------------------------ *)
Print Assumptions decompose_loop_shape.
Print Assumptions rewrites_decompose_loop.
Print Assumptions decompose_keeps_non_gates.
Print Assumptions decompose_every_replacement_checked.
Print Assumptions decompose_same_unchanged.
Print Assumptions decompose_failure_state.
Print Assumptions replacer_only_named.
Print Assumptions replacer_named.
Print Assumptions default_gate_CNOT.
Print Assumptions aba_decompose_target.
Print Assumptions aba_decompose_non_bsr.
Print Assumptions mckay_decompose_target.
Print Assumptions mckay_decompose_target_partial.
Print Assumptions mckay_decompose_target_refuted.
Print Assumptions mckay_decompose_same.
Print Assumptions cnot_decompose_target.
Print Assumptions cnot_decompose_same.
Print Assumptions aba_pass_target.
Print Assumptions mckay_pass_target.
Print Assumptions cnot_pass_target.
Print Assumptions materialise_fresh_oids.
Print Assumptions decompose_fresh_oids.
Print Assumptions replace_fresh_oids.
Print Assumptions rewrites_new_oids_disjoint.
Print Assumptions replace_no_target_unchanged.
Print Assumptions half_pi_not_tiny_R.
