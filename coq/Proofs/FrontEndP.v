(* FrontEndP.v — the three front ends AGREE (properties C07 / C13).

   A default instruction can reach the circuit in three ways, all modelled:
     - the direct call of the default instruction (Model/DefaultTable.v:
       [default_gate], and the tables [hand_measures] / [hand_resets]);
     - the circuit builder (Model/Builder.v: [builder_step], [builder_run]);
     - the parser after libqasm (Model/ParserExpand.v: [expand_stmt],
       [eval_call], [parse_program]).

   0. [direct o name args]: the statement the direct call of instruction
      [name] (aliases resolved by [resolve_alias]) on the typed arguments [args]
      builds, with object identity [o].  For a gate it is
      [SGate o g gi] with [default_gate N (resolve_alias name) args = Ok (g, gi)];
      for a measure / a reset it is read off [hand_measures] / [hand_resets]
      ([direct_gate], [direct_measure], [direct_reset]).
   1. [builder_equals_direct]: an accepted builder call appends [direct o name args]
      where [args] are the converted values and [o] the builder's next oid
      (any Python values; [builder_gate_equals_direct], ... give the explicit
      shapes; [builder_iff_direct] is the characterisation on the canonical
      values of typed arguments).
   2. [parser_equals_direct] / [parser_iff_direct]: an AST instruction whose
      operands are single indices q[i] / b[j] and literals evaluates to the
      one statement [direct o name args].
   3. [builder_equals_parser] (one instruction), [program_agree] (whole
      programs: the builder's circuit without its comments IS the parser's
      circuit, oids included when both count from the same oid),
      [program_accept_iff] (the parser accepts the program iff the builder
      accepts every instruction call).  Refusals: [typed_same_error],
      [same_qubit_twice_refused_by_both], [wrong_arity_refused_by_both],
      [out_of_range_only_builder_refuses].
   4. Examples by computation (T := dec, [decNum] of RoundTripP.v).

   Everything holds for ANY T and ANY N : Num T.

   WHERE THE TWO MODELS DISAGREE (observation lemmas [obs_*], each with a
   witness, and the hypothesis each one forces into the theorems, collected in
   [comparable]):
     - [obs_out_of_range]: the builder refuses an index outside the register
       (negative ones included, IndexError); the parser MODEL has no range
       check - in OpenSquirrel this check is libqasm's, which is an oracle of
       the development (ParserExpand.v starts from libqasm's analysed AST).
       Hypothesis: indices in range ([Forall (arg_ok nq nb) args]).
     - [obs_int_as_qubit]: for the builder (Python API) an int IS a qubit
       (QubitLike), "CNOT(0, 1)"; an integer literal operand in the AST is
       never a qubit.  libqasm's type check refuses "CNOT q[0], 1"; outside
       the model.  Hypothesis: [no_int_as_qubit].
     - [obs_no_qubit_operand]: with no qubit operand at all the parser's zip
       is empty: it silently produces NO instruction (libqasm refuses such a
       line before).  Hypothesis: [has_qubit].
     - [obs_reset_many]: "reset" with several operands (or none) is one reset
       per qubit for the parser, a TypeError (IndexError) for the builder.
       Hypothesis: [single_reset].
     - [obs_error_kinds]: when both refuse, the exception may differ (missing
       argument: IndexError / TypeError; measure without a bit register:
       IndexError / TypeError).  The theorems say which refusals carry the
       same exception ([typed_same_error]: all refusals of well-typed calls,
       i.e. control = target, ValueError).
   Other libqasm-level refusals (unknown variable, wrong operand types, index
   ranges, "measure_z" unknown to libqasm 0.6.7) are outside the model. *)
From Coq Require Import ZArith List Bool String Lia.
Import ListNotations.
From OSQ Require Import Num IR Construct Dec DefaultTable ParserExpand Builder.
From OSQ Require Import ParserP BuilderP PassesP RoundTripP.
Local Open Scope string_scope.
Local Open Scope list_scope.

(* ------------------------------------------------------------------ *)
(** * Tables (no T)                                                     *)
(* ------------------------------------------------------------------ *)

Lemma gate_names_not_alias name :
  mem_str name hand_gate_set = true -> assoc_str name hand_aliases = None.
Proof.
  intros H. apply mem_str_In in H. cbv in H.
  repeat (destruct H as [<-|H]; [reflexivity|]). contradiction.
Qed.

Lemma lookup_gate_resolve name fname ps :
  lookup_params name = Ok (KGate, fname, ps) -> fname = resolve_alias name.
Proof.
  intros H. destruct (lookup_params_ok _ _ _ _ H)
    as [(E & _)|[(E & _)|(_ & _ & _ & [[Hg ->]|[Hg Ha]] & _)]]; try discriminate E.
  - unfold resolve_alias. now rewrite (gate_names_not_alias _ Hg).
  - unfold resolve_alias. now rewrite Ha.
Qed.

Lemma lookup_params_functional name r : lookup_params name = Ok r ->
  forall r', lookup_params name = Ok r' -> r' = r.
Proof. congruence. Qed.

Section FrontEnd.
  Context {T : Type} (N : Num T).
  Notation arg := (arg T).
  Notation stmt := (stmt T).
  Notation pyval := (pyval T).
  Notation operand := (operand T).

  (* ------------------------------------------------------------------ *)
  (** * 0. The direct call of a default instruction                       *)
  (* ------------------------------------------------------------------ *)

  (* default_measures.py: Measure(qubit, bit, axis) of the table entry *)
  Definition default_measure (o : positive) (name : string) (args : list arg) : result stmt :=
    match find (fun e => String.eqb (fst (fst e)) name) hand_measures with
    | None => Err EValue
    | Some e =>
        if args_match (snd (fst e)) args then
          match args with
          | [AQ q; AB b] =>
              Ok (SMeasure o q b (Construct.mk_axis N (zaxis N (snd e))) (mkGinfo (Some name) (Some args)))
          | _ => Err EType
          end
        else Err EType
    end.

  (* default_resets.py *)
  Definition default_reset (o : positive) (name : string) (args : list arg) : result stmt :=
    match find (fun e => String.eqb (fst e) name) hand_resets with
    | None => Err EValue
    | Some e =>
        if args_match (snd e) args then
          match args with
          | [AQ q] => Ok (SReset o q (mkGinfo (Some name) (Some args)))
          | _ => Err EType
          end
        else Err EType
    end.

  (* the instruction [name] called on [args]; the statement gets identity [o] *)
  Definition direct (o : positive) (name : string) (args : list arg) : result stmt :=
    if mem_str name hand_measure_set then default_measure o name args
    else if mem_str name hand_reset_set then default_reset o name args
    else match default_gate N (resolve_alias name) args with
         | Ok (g, gi) => Ok (SGate o g gi)
         | Err e => Err e
         end.

  Definition z_axis : axis3 T := Construct.mk_axis N (nofZ N 0, nofZ N 0, nofZ N 1).

  Lemma direct_gate o name args :
    mem_str name hand_measure_set = false -> mem_str name hand_reset_set = false ->
    direct o name args = match default_gate N (resolve_alias name) args with
                         | Ok (g, gi) => Ok (SGate o g gi)
                         | Err e => Err e
                         end.
  Proof. intros Hm Hr. unfold direct. now rewrite Hm, Hr. Qed.

  Lemma direct_measure o name args :
    mem_str name hand_measure_set = true ->
    direct o name args = match args with
                         | [AQ q; AB b] => Ok (SMeasure o q b z_axis (mkGinfo (Some name) (Some [AQ q; AB b])))
                         | _ => Err EType
                         end.
  Proof.
    intros Hm. unfold direct. rewrite Hm. apply mem_str_In in Hm. cbn [hand_measure_set In] in Hm.
    destruct Hm as [<-|[<-|[]]];
      destruct args as [|[q|b|x|z] [|[q'|b'|x'|z'] [|a3 r]]]; reflexivity.
  Qed.

  Lemma direct_reset o name args :
    mem_str name hand_reset_set = true ->
    direct o name args = match args with
                         | [AQ q] => Ok (SReset o q (mkGinfo (Some name) (Some [AQ q])))
                         | _ => Err EType
                         end.
  Proof.
    intros Hm. apply mem_str_In in Hm. cbn [hand_reset_set In] in Hm.
    destruct Hm as [<-|[]]; destruct args as [|[q|b|x|z] [|a2 r]]; reflexivity.
  Qed.

  (* the builder and the parser both end in [eval_call] on the resolved name:
     it is the direct call *)
  Lemma eval_call_direct name k fname ps o args :
    lookup_params name = Ok (k, fname, ps) ->
    eval_call N o (mkCall k fname args) = direct o name args.
  Proof.
    intros Hl. pose proof Hl as Hl0.
    destruct (lookup_params_ok _ _ _ _ Hl)
      as [(-> & -> & Hm & ->)|[(-> & -> & Hm & ->)|(-> & Hm & Hr & _ & _)]].
    - rewrite (direct_measure o name args Hm). unfold eval_call. cbn [c_kind c_args c_name].
      destruct args as [|[q|b|x|z] [|[q'|b'|x'|z'] [|a3 r]]]; reflexivity.
    - rewrite (direct_reset o name args Hm). unfold eval_call. cbn [c_kind c_args c_name].
      destruct args as [|[q|b|x|z] [|a2 r]]; reflexivity.
    - rewrite (direct_gate o name args Hm Hr), <- (lookup_gate_resolve _ _ _ Hl0).
      unfold eval_call. cbn [c_kind c_args c_name].
      destruct (default_gate N fname args) as [[g gi]|e]; reflexivity.
  Qed.

  (* a successful direct call: the name is known and the arguments have the
     kinds of its parameters (in number and in order) *)
  Lemma direct_known o name args s :
    direct o name args = Ok s ->
    exists k fname ps, lookup_params name = Ok (k, fname, ps) /\ args_match ps args = true.
  Proof.
    intros H. destruct (mem_str name hand_measure_set) eqn:Em.
    { rewrite (direct_measure o name args Em) in H.
      apply mem_str_In in Em. cbn [hand_measure_set In] in Em.
      destruct args as [|[q|b|x|z] [|[q'|b'|x'|z'] [|a3 r]]]; try discriminate H.
      destruct Em as [<-|[<-|[]]]; do 3 eexists; split; reflexivity. }
    destruct (mem_str name hand_reset_set) eqn:Er.
    { rewrite (direct_reset o name args Er) in H.
      apply mem_str_In in Er. cbn [hand_reset_set In] in Er.
      destruct args as [|[q|b|x|z] [|a2 r]]; try discriminate H.
      destruct Er as [<-|[]]; do 3 eexists; split; reflexivity. }
    rewrite (direct_gate o name args Em Er) in H.
    destruct (default_gate N (resolve_alias name) args) as [[g gi]|e] eqn:Ed; [|discriminate].
    destruct (default_gate_inv N _ _ _ _ Ed) as (e & Ef & Hma & _).
    exists KGate, (resolve_alias name), (e_params e). split; [|exact Hma].
    unfold lookup_params. rewrite Em, Er.
    destruct (mem_str name hand_gate_set) eqn:Eg.
    - unfold resolve_alias in Ef |- *. rewrite (gate_names_not_alias _ Eg) in Ef |- *. now rewrite Ef.
    - unfold resolve_alias in Ef |- *. destruct (assoc_str name hand_aliases) as [fn|] eqn:Ea.
      + now rewrite Ef.
      + destruct (table_entry _ _ Ef) as (_ & _ & Hg & _). congruence.
  Qed.

  (* arguments of the wrong kinds or number: TypeError *)
  Lemma direct_args_mismatch o name k fname ps args :
    lookup_params name = Ok (k, fname, ps) -> args_match ps args = false ->
    direct o name args = Err EType.
  Proof.
    intros Hl Hma. pose proof Hl as Hl0.
    destruct (lookup_params_ok _ _ _ _ Hl)
      as [(-> & -> & Hm & ->)|[(-> & -> & Hm & ->)|(-> & Hm & Hr & _ & e & Hf & _ & _ & -> & _)]].
    - rewrite (direct_measure o name args Hm).
      destruct args as [|[q|b|x|z] [|[q'|b'|x'|z'] [|a3 r]]]; try reflexivity. discriminate Hma.
    - rewrite (direct_reset o name args Hm).
      destruct args as [|[q|b|x|z] [|a2 r]]; try reflexivity. discriminate Hma.
    - rewrite (direct_gate o name args Hm Hr), <- (lookup_gate_resolve _ _ _ Hl0).
      unfold default_gate. rewrite Hf. cbn [eval_entry]. now rewrite Hma.
  Qed.

  Lemma direct_oid o name args s : direct o name args = Ok s -> ParserP.stmt_oid s = Some o.
  Proof.
    intros H. destruct (direct_known _ _ _ _ H) as (k & fname & ps & Hl & _).
    rewrite <- (eval_call_direct name k fname ps o args Hl) in H.
    exact (ParserP.eval_call_oid N _ _ _ H).
  Qed.

  Lemma direct_not_comment o name args s : direct o name args = Ok s -> is_comment s = false.
  Proof. intros H. apply direct_oid in H. destruct s; [reflexivity..|discriminate H]. Qed.

  (* ------------------------------------------------------------------ *)
  (** * 1. The builder equals the direct call                             *)
  (* ------------------------------------------------------------------ *)

  (** ** 1.1 Any Python values *)

  (** An accepted builder call appends exactly the statement of the direct
      call of the (alias-resolved) instruction on the converted values, with
      the builder's next object identity. *)
  Theorem builder_equals_direct nq nb ir o name (vs : list pyval) ir' o' :
    builder_step N nq nb (ir, o) (BInstr name vs) = Ok (ir', o') ->
    exists k fname ps args s,
      lookup_params name = Ok (k, fname, ps) /\
      converts ps vs args /\ Forall (BuilderP.arg_ok nq nb) args /\
      direct o name args = Ok s /\
      ir' = ir ++ [s] /\ o' = Pos.succ o.
  Proof.
    intros H. apply step_accepts_iff in H.
    destruct H as (k & fname & ps & args & s & Hl & Hlen & HF & Hq & Hb & He & Hst).
    inversion Hst; subst. exists k, fname, ps, args, s.
    split; [exact Hl|]. split; [apply converts_Forall2; now split|].
    split; [apply Forall_arg_ok; now split|].
    split; [now rewrite <- (eval_call_direct name k fname ps o args Hl)|]. now split.
  Qed.

  (* conversely: values that convert, in range, and a direct call that succeeds *)
  Theorem direct_accepted_by_builder nq nb ir o name k fname ps (vs : list pyval) args s :
    lookup_params name = Ok (k, fname, ps) ->
    converts ps vs args -> Forall (BuilderP.arg_ok nq nb) args ->
    direct o name args = Ok s ->
    builder_step N nq nb (ir, o) (BInstr name vs) = Ok (ir ++ [s], Pos.succ o).
  Proof.
    intros Hl Hc Hok Hd. apply step_accepts_iff.
    apply converts_Forall2 in Hc. destruct Hc as [Hlen HF]. apply Forall_arg_ok in Hok.
    exists k, fname, ps, args, s. rewrite (eval_call_direct name k fname ps o args Hl). tauto.
  Qed.

  (** The three explicit shapes.  A gate (or an alias of a gate): *)
  Corollary builder_gate_equals_direct nq nb ir o name fname ps (vs : list pyval) ir' o' :
    lookup_params name = Ok (KGate, fname, ps) ->
    builder_step N nq nb (ir, o) (BInstr name vs) = Ok (ir', o') ->
    fname = resolve_alias name /\
    exists args g gi,
      converts ps vs args /\ Forall (BuilderP.arg_ok nq nb) args /\
      default_gate N fname args = Ok (g, gi) /\
      ir' = ir ++ [SGate o g gi] /\ o' = Pos.succ o.
  Proof.
    intros Hl H. pose proof (lookup_gate_resolve _ _ _ Hl) as Hf. split; [exact Hf|].
    destruct (builder_equals_direct _ _ _ _ _ _ _ _ H) as (k & fname' & ps' & args & s & Hl' & Hc & Hok & Hd & -> & ->).
    rewrite Hl in Hl'. inversion Hl'; subst k fname' ps'.
    destruct (lookup_params_ok _ _ _ _ Hl) as [(E & _)|[(E & _)|(_ & Hm & Hr & _)]]; try discriminate E.
    rewrite (direct_gate o name args Hm Hr), <- Hf in Hd.
    destruct (default_gate N fname args) as [[g gi]|e] eqn:Ed; [|discriminate]. inversion Hd; subst.
    exists args, g, gi. repeat split; auto.
  Qed.

  (* a measure *)
  Corollary builder_measure_equals_direct nq nb ir o name (vs : list pyval) ir' o' :
    mem_str name hand_measure_set = true ->
    builder_step N nq nb (ir, o) (BInstr name vs) = Ok (ir', o') ->
    exists v1 v2 q b,
      vs = [v1; v2] /\ convert KQ v1 = Some (AQ q) /\ convert KB v2 = Some (AB b) /\
      (0 <= q < nq)%Z /\ (0 <= b < nb)%Z /\
      ir' = ir ++ [SMeasure o q b z_axis (mkGinfo (Some name) (Some [AQ q; AB b]))] /\ o' = Pos.succ o.
  Proof.
    intros Hm H.
    destruct (builder_equals_direct _ _ _ _ _ _ _ _ H) as (k & fname & ps & args & s & Hl & Hc & Hok & Hd & -> & ->).
    rewrite (direct_measure o name args Hm) in Hd.
    destruct args as [|[q|b|x|z] [|[q'|b'|x'|z'] [|a3 r]]]; try discriminate Hd. inversion Hd; subst.
    destruct (lookup_params_ok _ _ _ _ Hl) as [(_ & _ & _ & ->)|[(_ & _ & Hr & _)|(_ & Hm' & _)]];
      [| apply mem_str_In in Hm; apply mem_str_In in Hr; cbn in Hm, Hr;
         destruct Hr as [<-|[]]; destruct Hm as [E|[E|[]]]; discriminate E
       | congruence].
    inversion Hc as [|n1 k1 ps1 v1 vs1 a1 args1 Hc1 Hr1]; subst.
    inversion Hr1 as [|n2 k2 ps2 v2 vs2 a2 args2 Hc2 Hr2]; subst. inversion Hr2; subst.
    inversion Hok as [|? ? Hq Hok']; subst. inversion Hok' as [|? ? Hb _]; subst.
    exists v1, v2, q, b'. repeat split; auto; try apply Hq; apply Hb.
  Qed.

  (* a reset *)
  Corollary builder_reset_equals_direct nq nb ir o name (vs : list pyval) ir' o' :
    mem_str name hand_reset_set = true ->
    builder_step N nq nb (ir, o) (BInstr name vs) = Ok (ir', o') ->
    exists v1 q,
      vs = [v1] /\ convert KQ v1 = Some (AQ q) /\ (0 <= q < nq)%Z /\
      ir' = ir ++ [SReset o q (mkGinfo (Some name) (Some [AQ q]))] /\ o' = Pos.succ o.
  Proof.
    intros Hm H.
    destruct (builder_equals_direct _ _ _ _ _ _ _ _ H) as (k & fname & ps & args & s & Hl & Hc & Hok & Hd & -> & ->).
    rewrite (direct_reset o name args Hm) in Hd.
    destruct args as [|[q|b|x|z] [|a2 r]]; try discriminate Hd. inversion Hd; subst.
    assert (Hps : ps = reset_params).
    { apply mem_str_In in Hm. cbn in Hm. destruct Hm as [<-|[]]. cbv in Hl. now inversion Hl. }
    subst ps. inversion Hc as [|n1 k1 ps1 v1 vs1 a1 args1 Hc1 Hr1]; subst. inversion Hr1; subst.
    inversion Hok as [|? ? Hq _]; subst.
    exists v1, q. repeat split; auto; apply Hq.
  Qed.

  (** ** 1.2 Typed arguments and their canonical Python values *)

  (* a Qubit object, a Bit object, a Float object, a plain int *)
  Definition val_of_arg (a : arg) : pyval :=
    match a with AQ q => VQubitObj q | AB b => VBitObj b | AF x => VFloatObj x | AI k => VInt k end.

  (* the parameters of the instruction called [name] *)
  Definition sig_of (name : string) : list (string * pkind) :=
    match lookup_params name with Ok (_, _, ps) => ps | Err _ => [] end.

  (* no integer argument stands where the instruction expects a qubit (for the
     Python API an int there IS the qubit index) *)
  Fixpoint no_int_as_qubit (ps : list (string * pkind)) (args : list arg) : bool :=
    match ps, args with
    | (_, KQ) :: _, AI _ :: _ => false
    | _ :: ps', _ :: args' => no_int_as_qubit ps' args'
    | _, _ => true
    end.

  Lemma convert_val k a a' :
    convert k (val_of_arg a) = Some a' -> a' = a \/ (k = KQ /\ exists z, a = AI z).
  Proof. destruct k, a; cbn; intros H; inversion H; eauto. Qed.

  Lemma converts_vals ps : forall args args',
    converts ps (map val_of_arg args) args' -> no_int_as_qubit ps args = true -> args' = args.
  Proof.
    induction ps as [|[n k] ps IH]; intros args args' Hc Hn.
    - inversion Hc as [E1 E2 E3|]; subst. destruct args; [reflexivity|discriminate].
    - destruct args as [|a r]; [inversion Hc|]. cbn [map] in Hc.
      inversion Hc as [|n1 k1 ps1 v1 vs1 a1 args1 Hc1 Hr1]; subst.
      destruct (convert_val _ _ _ Hc1) as [->|(-> & z & ->)]; [|discriminate Hn].
      f_equal. apply IH; [exact Hr1|]. destruct k, a; cbn [no_int_as_qubit] in Hn; try exact Hn; discriminate Hn.
  Qed.

  Lemma args_match_converts ps : forall args : list arg,
    args_match ps args = true -> converts ps (map val_of_arg args) args.
  Proof.
    induction ps as [|[n k] ps IH]; intros [|a r] H; cbn [args_match] in H; try discriminate.
    - constructor.
    - destruct k; discriminate.
    - destruct k, a; try discriminate H; cbn [map]; (constructor; [reflexivity|now apply IH]).
  Qed.

  Lemma args_match_no_int ps : forall args : list arg,
    args_match ps args = true -> no_int_as_qubit ps args = true.
  Proof.
    induction ps as [|[n k] ps IH]; intros [|a r] H; cbn [args_match] in H; try discriminate; try reflexivity.
    - destruct k; discriminate.
    - destruct k, a; try discriminate H; cbn [no_int_as_qubit]; now apply IH.
  Qed.

  Lemma args_match_length ps : forall args : list arg,
    args_match ps args = true -> List.length args = List.length ps.
  Proof.
    induction ps as [|[n k] ps IH]; intros [|a r] H; cbn [args_match] in H; try discriminate; try reflexivity.
    - destruct k; discriminate.
    - destruct k, a; try discriminate H; cbn [List.length]; f_equal; now apply IH.
  Qed.

  Lemma sig_of_lookup name k fname ps : lookup_params name = Ok (k, fname, ps) -> sig_of name = ps.
  Proof. unfold sig_of. now intros ->. Qed.

  (** On the canonical values of typed arguments the builder accepts exactly
      the calls whose indices are in range and whose direct call succeeds, and
      appends the statement of the direct call. *)
  Theorem builder_iff_direct nq nb ir o name (args : list arg) st' :
    no_int_as_qubit (sig_of name) args = true ->
    (builder_step N nq nb (ir, o) (BInstr name (map val_of_arg args)) = Ok st' <->
     Forall (BuilderP.arg_ok nq nb) args /\
     exists s, direct o name args = Ok s /\ st' = (ir ++ [s], Pos.succ o)).
  Proof.
    intros Hn. split.
    - destruct st' as [ir' o']. intros H.
      destruct (builder_equals_direct _ _ _ _ _ _ _ _ H) as (k & fname & ps & args' & s & Hl & Hc & Hok & Hd & -> & ->).
      rewrite (sig_of_lookup _ _ _ _ Hl) in Hn. pose proof (converts_vals _ _ _ Hc Hn) as ->.
      split; [exact Hok|]. exists s. now split.
    - intros (Hok & s & Hd & ->).
      destruct (direct_known _ _ _ _ Hd) as (k & fname & ps & Hl & Hma).
      eapply direct_accepted_by_builder; eauto. now apply args_match_converts.
  Qed.

  (* the builder looks at the values only through [convert] at the kind of the
     parameter they stand for: any other representation of the arguments (plain
     ints or numpy integers for qubits, bools, Int objects) does the same *)
  Lemma check_args_conv_ext nq nb ps : forall vs vs' : list pyval,
    List.length vs = List.length vs' ->
    (forall i n k v v', nth_error ps i = Some (n, k) -> nth_error vs i = Some v -> nth_error vs' i = Some v' ->
                        convert k v = convert k v') ->
    check_args nq nb ps vs = check_args nq nb ps vs'.
  Proof.
    induction ps as [|[n k] ps IH]; intros vs vs' Hlen H; [reflexivity|].
    destruct vs as [|v vs], vs' as [|v' vs']; try discriminate Hlen; [reflexivity|].
    rewrite !check_args_cons, (H 0%nat n k v v' eq_refl eq_refl eq_refl).
    rewrite (IH vs vs'); [reflexivity|now inversion Hlen|].
    intros i n0 k0 v0 v0' H1 H2 H3. exact (H (S i) n0 k0 v0 v0' H1 H2 H3).
  Qed.

  Theorem builder_step_conv_ext nq nb st name (vs vs' : list pyval) :
    List.length vs = List.length vs' ->
    (forall i n k v v', nth_error (sig_of name) i = Some (n, k) -> nth_error vs i = Some v -> nth_error vs' i = Some v' ->
                        convert k v = convert k v') ->
    builder_step N nq nb st (BInstr name vs) = builder_step N nq nb st (BInstr name vs').
  Proof.
    intros Hlen H. destruct st as [ir o]. cbn [builder_step]. unfold sig_of in H.
    destruct (lookup_params name) as [[[k fname] ps]|e]; [|reflexivity].
    now rewrite (check_args_conv_ext nq nb ps vs vs' Hlen H), Hlen.
  Qed.

  (* e.g. plain ints for the qubits of a well-typed call: "CNOT(0, 1)" *)
  Definition val_of_arg_int (a : arg) : pyval :=
    match a with AQ q => VInt q | AB b => VBitObj b | AF x => VFloatObj x | AI k => VInt k end.

  Lemma args_match_nth ps : forall (args : list arg) i n k a,
    args_match ps args = true -> nth_error ps i = Some (n, k) -> nth_error args i = Some a ->
    BuilderP.arg_kind a = k.
  Proof.
    induction ps as [|[n0 k0] ps IH]; intros [|a0 r] i n k a H Hp Ha; cbn [args_match] in H; try discriminate;
      try (destruct i; discriminate).
    destruct i as [|i]; cbn [nth_error] in Hp, Ha.
    - inversion Hp; inversion Ha; subst. destruct k, a; try discriminate H; reflexivity.
    - apply (IH r i n k a); auto. destruct k0, a0; try discriminate H; exact H.
  Qed.

  Corollary builder_int_qubits nq nb st name (args : list arg) :
    args_match (sig_of name) args = true ->
    builder_step N nq nb st (BInstr name (map val_of_arg_int args)) =
    builder_step N nq nb st (BInstr name (map val_of_arg args)).
  Proof.
    intros Hma. apply builder_step_conv_ext; [now rewrite !map_length|].
    intros i n k v v' Hp Hv Hv'. rewrite nth_error_map in Hv, Hv'.
    destruct (nth_error args i) as [a|] eqn:Ea; [|discriminate]. inversion Hv; inversion Hv'; subst.
    pose proof (args_match_nth _ _ _ _ _ _ Hma Hp Ea) as Hk. destruct a; cbn in Hk; subst k; reflexivity.
  Qed.

  (* ------------------------------------------------------------------ *)
  (** * 2. The parser equals the direct call                              *)
  (* ------------------------------------------------------------------ *)

  (** ** 2.1 The AST of an instruction on single-index operands *)

  (* q[i], b[j], a float literal, an integer literal *)
  Definition op_of_arg (a : arg) : operand :=
    match a with AQ q => qop q | AB b => bop b | AF x => OFloat x | AI k => OInt k end.

  (* libqasm lists the operands of "b[j] = measure q[i]" as (bit, qubit) *)
  Definition ast_of (name : string) (args : list arg) : astmt T :=
    mkAstmt name (if mem_str name hand_measure_set then List.rev (map op_of_arg args) else map op_of_arg args).

  (* one AST instruction through the parser: expansion, then the instruction calls *)
  Definition parse_one (nq nb : Z) (o : positive) (name : string) (args : list arg) : result (list stmt) :=
    match expand_stmt (rt_vars nq nb) (ast_of name args) with
    | Err e => Err e
    | Ok cs => eval_calls N o cs
    end.

  Definition has_qubit (args : list arg) : Prop := exists q, In (AQ q) args.
  Definition single_reset (name : string) (args : list arg) : Prop :=
    mem_str name hand_reset_set = true -> List.length args = 1%nat.
  (* a bit operand refers to a declared bit register *)
  Definition bits_decl (nb : Z) (args : list arg) : Prop := forall b, In (AB b) args -> (0 < nb)%Z.

  (* the operands the parser's expansion takes for an instruction of kind [k] *)
  Definition op_fine (k : ikind) (nb : Z) (a : arg) : bool :=
    match k, a with
    | KGate, AB _ => false
    | KGate, _ => true
    | KMeasure, AQ _ => true
    | KMeasure, AB _ => Z.ltb 0 nb
    | KMeasure, _ => false
    | KReset, AQ _ => true
    | KReset, _ => false
    end.
  Definition ops_fineb (k : ikind) (nb : Z) (args : list arg) : bool := forallb (op_fine k nb) args.

  Lemma collect_map_err {A B} (F : A -> result (list B)) e0 l :
    (forall x e, In x l -> F x = Err e -> e = e0) ->
    (exists x, In x l /\ exists e, F x = Err e) ->
    collect (map F l) = Err e0.
  Proof.
    induction l as [|a l IH]; intros Hk (x & Hx & e & He); [destruct Hx|].
    cbn [map collect]. destruct (F a) as [r|e1] eqn:Ea.
    - rewrite IH; [reflexivity|intros y e' Hy; apply Hk; now right|].
      destruct Hx as [<-|Hx]; [congruence|]. exists x. split; [exact Hx|]. now exists e.
    - f_equal. apply (Hk a e1); [now left|exact Ea].
  Qed.

  Lemma forallb_false_ex {A} (f : A -> bool) l : forallb f l = false -> exists x, In x l /\ f x = false.
  Proof.
    induction l as [|a l IH]; cbn [forallb]; [discriminate|].
    destruct (f a) eqn:Ea; cbn [andb].
    - intros H. destruct (IH H) as (x & Hx & Hf). exists x. split; [now right|exact Hf].
    - intros _. exists a. split; [now left|exact Ea].
  Qed.

  Lemma is_b_bop_undeclared nq nb b : (nb <= 0)%Z -> is_b (rt_vars nq nb) (bop b : operand) = false.
  Proof. intros H. unfold rt_vars. destruct (Z.ltb_spec 0 nb) as [L|L]; [lia|reflexivity]. Qed.

  Lemma gate_cell_op nq nb a : op_fine KGate nb a = true ->
    gate_cell (rt_vars nq nb) (op_of_arg a) 0 = a.
  Proof.
    destruct a as [q|b|x|z]; cbn [op_fine op_of_arg]; try discriminate; intros _.
    - unfold gate_cell. now rewrite is_q_qop, get_qop.
    - reflexivity.
    - reflexivity.
  Qed.

  (** ** 2.2 The expansion *)

  Lemma expand_gate_request nq nb (args : list arg) :
    has_qubit args ->
    expand_gate_args (rt_vars nq nb) (map op_of_arg args)
    = if ops_fineb KGate nb args then Ok [args] else Err EType.
  Proof.
    intros (q0 & Hq0). unfold ops_fineb. destruct (forallb (op_fine KGate nb) args) eqn:Ef.
    - rewrite forallb_forall in Ef.
      rewrite (expand_gate_spec (rt_vars nq nb) _ 1).
      + cbn [seq map]. do 2 f_equal. rewrite map_map. rewrite <- (map_id args) at 2.
        apply map_ext_in. intros a Ha. apply gate_cell_op, Ef, Ha.
      + apply rt_vars_nodup.
      + intros o Ho Hqo. apply in_map_iff in Ho. destruct Ho as (a & <- & Ha).
        destruct a as [q|b|x|z]; cbn [op_of_arg] in *.
        * exists [q]. now rewrite get_qop.
        * now rewrite is_q_bop in Hqo.
        * discriminate Hqo.
        * discriminate Hqo.
      + intros o Ho Hqo. apply in_map_iff in Ho. destruct Ho as (a & <- & Ha).
        specialize (Ef a Ha). destruct a as [q|b|x|z]; cbn [op_of_arg op_fine] in *; try reflexivity; try discriminate;
          try (now rewrite is_q_qop in Hqo).
      + exists (qop q0). split; [|apply is_q_qop]. apply in_map_iff. exists (AQ q0). now split.
    - unfold expand_gate_args. cbv zeta. rewrite map_map.
      rewrite (collect_map_err _ EType); [reflexivity| |].
      + intros a e _. destruct a as [q|b|x|z]; cbn [op_of_arg].
        * rewrite is_q_qop, get_qop. discriminate.
        * rewrite is_q_bop. cbn. intros H; now inversion H.
        * cbn. discriminate.
        * cbn. discriminate.
      + destruct (forallb_false_ex _ _ Ef) as (a & Ha & Hf). exists a. split; [exact Ha|].
        destruct a as [q|b|x|z]; try discriminate Hf. cbn [op_of_arg]. rewrite is_q_bop. cbn. now exists EType.
  Qed.

  Lemma heads_singletons {A} (l : list A) : heads (map (fun a => [a]) l) = Some l.
  Proof. induction l as [|a l IH]; [reflexivity|]. cbn [map heads]. now rewrite IH. Qed.

  Lemma zip_cols_singletons {A} (l : list A) : l <> [] -> zip_cols (map (fun a => [a]) l) = [l].
  Proof.
    destruct l as [|a l]; [congruence|]. intros _. unfold zip_cols. cbn [map List.length zip_rows].
    change ([a] :: map (fun a0 => [a0]) l) with (map (fun a0 : A => [a0]) (a :: l)).
    now rewrite heads_singletons.
  Qed.

  Lemma expand_measure_request nq nb (args : list arg) :
    args <> [] ->
    expand_measure_args (rt_vars nq nb) (List.rev (map op_of_arg args))
    = if ops_fineb KMeasure nb args then Ok [args] else Err EType.
  Proof.
    intros Hne. unfold expand_measure_args. rewrite rev_involutive, map_map.
    unfold ops_fineb. destruct (forallb (op_fine KMeasure nb) args) eqn:Ef.
    - rewrite forallb_forall in Ef. rewrite (collect_map_ok _ (fun a => [a])).
      + now rewrite zip_cols_singletons.
      + intros a Ha. specialize (Ef a Ha). destruct a as [q|b|x|z]; cbn [op_of_arg op_fine] in *; try discriminate.
        * now rewrite is_q_qop, get_qop.
        * apply Z.ltb_lt in Ef. now rewrite is_q_bop, is_b_bop, get_bop.
    - rewrite (collect_map_err _ EType); [reflexivity| |].
      + intros a e _. destruct a as [q|b|x|z]; cbn [op_of_arg].
        * rewrite is_q_qop, get_qop. discriminate.
        * rewrite is_q_bop. destruct (Z.ltb_spec 0 nb) as [L|L].
          -- rewrite is_b_bop, get_bop by exact L. discriminate.
          -- rewrite is_b_bop_undeclared by exact L. intros H; now inversion H.
        * cbn. intros H; now inversion H.
        * cbn. intros H; now inversion H.
      + destruct (forallb_false_ex _ _ Ef) as (a & Ha & Hf). exists a. split; [exact Ha|]. exists EType.
        destruct a as [q|b|x|z]; cbn [op_fine] in Hf; try discriminate Hf; cbn [op_of_arg]; try reflexivity.
        apply Z.ltb_ge in Hf. now rewrite is_q_bop, is_b_bop_undeclared.
  Qed.

  Lemma has_qubit_nonempty (args : list arg) : has_qubit args -> args <> [].
  Proof. intros (q & Hq) ->. destruct Hq. Qed.

  (** What the expansion of one such AST instruction is: the single call of
      the (alias-resolved) instruction on the arguments, or the parser's
      "received argument is not a (qu)bit" TypeError. *)
  Theorem expand_request nq nb name k fname ps (args : list arg) :
    has_qubit args -> single_reset name args ->
    lookup_params name = Ok (k, fname, ps) ->
    expand_stmt (rt_vars nq nb) (ast_of name args)
    = if ops_fineb k nb args then Ok [mkCall k fname args] else Err EType.
  Proof.
    intros Hq Hsr Hl.
    destruct (lookup_params_ok _ _ _ _ Hl)
      as [(-> & -> & Hm & ->)|[(-> & -> & Hm & ->)|(-> & Hm & Hr & Halt & e & Hf & _ & _ & -> & Hg)]].
    - unfold ast_of. rewrite Hm, (measure_stmt (rt_vars nq nb) name _ Hm).
      rewrite (expand_measure_request nq nb args (has_qubit_nonempty _ Hq)).
      destruct (ops_fineb KMeasure nb args); reflexivity.
    - specialize (Hsr Hm). destruct Hq as (q & Hq).
      destruct args as [|a [|a2 r]]; try discriminate Hsr. destruct Hq as [->|[]].
      apply mem_str_In in Hm. cbn in Hm. destruct Hm as [<-|[]].
      unfold rt_vars. destruct (Z.ltb 0 nb); reflexivity.
    - unfold ast_of. rewrite Hm. destruct Halt as [[Hg' ->]|[Hg' Ha]].
      + rewrite (gate_stmt (rt_vars nq nb) name _ Hg'), (expand_gate_request nq nb args Hq).
        destruct (ops_fineb KGate nb args); reflexivity.
      + apply assoc_str_some in Ha. cbn [hand_aliases In] in Ha.
        destruct Ha as [Ha|[Ha|[]]]; inversion Ha; subst;
          [rewrite (proj1 (alias_resolves (rt_vars nq nb) _))|rewrite (proj2 (alias_resolves (rt_vars nq nb) _))];
          rewrite (expand_gate_request nq nb args Hq); destruct (ops_fineb KGate nb args); reflexivity.
  Qed.

  (* an unknown name: ValueError, as in the builder *)
  Lemma expand_unknown nq nb name e (args : list arg) :
    lookup_params name = Err e -> expand_stmt (rt_vars nq nb) (ast_of name args) = Err EValue.
  Proof.
    intros H. pose proof (lookup_params_err _ _ H) as ->. apply lookup_params_unknown in H.
    unfold known_call_name, call_names in H. rewrite !mem_str_app, !orb_false_iff in H.
    destruct H as (Hm & Hr & Hg & Ha). apply assoc_str_none in Ha.
    unfold ast_of. now apply ParserP.unknown_name_refused.
  Qed.

  Lemma direct_unknown o name e (args : list arg) : lookup_params name = Err e -> direct o name args = Err EValue.
  Proof.
    intros H. destruct (direct o name args) as [s|e'] eqn:Ed.
    - destruct (direct_known _ _ _ _ Ed) as (k & fname & ps & Hl & _). congruence.
    - f_equal. pose proof (lookup_params_err _ _ H) as ->. apply lookup_params_unknown in H.
      unfold known_call_name, call_names in H. rewrite !mem_str_app, !orb_false_iff in H.
      destruct H as (Hm & Hr & Hg & Ha). apply assoc_str_none in Ha.
      rewrite (direct_gate o name args Hm Hr) in Ed. unfold resolve_alias in Ed. rewrite Ha in Ed.
      unfold default_gate in Ed. destruct (find_entry name hand_table) as [en|] eqn:Ef.
      + destruct (table_entry _ _ Ef) as (_ & _ & Hg' & _). congruence.
      + now inversion Ed.
  Qed.

  (** ** 2.3 One instruction through the parser *)

  Theorem parse_one_cases nq nb o name k fname ps (args : list arg) :
    has_qubit args -> single_reset name args ->
    lookup_params name = Ok (k, fname, ps) ->
    parse_one nq nb o name args
    = if ops_fineb k nb args
      then match direct o name args with Ok s => Ok [s] | Err e => Err e end
      else Err EType.
  Proof.
    intros Hq Hsr Hl. unfold parse_one. rewrite (expand_request nq nb name k fname ps args Hq Hsr Hl).
    destruct (ops_fineb k nb args); [|reflexivity].
    cbn [eval_calls]. rewrite (eval_call_direct name k fname ps o args Hl).
    destruct (direct o name args); reflexivity.
  Qed.

  Lemma arg_bits_nil_fine nb (args : list arg) : arg_bits args = [] -> ops_fineb KGate nb args = true.
  Proof.
    unfold ops_fineb, arg_bits. induction args as [|a r IH]; [reflexivity|].
    cbn [flat_map forallb]. destruct a; cbn [op_fine app andb]; try exact IH. discriminate.
  Qed.

  (* well-typed arguments (with a declared bit register) are operands the parser takes *)
  Lemma args_match_fine nb name k fname ps (args : list arg) :
    lookup_params name = Ok (k, fname, ps) -> args_match ps args = true -> bits_decl nb args ->
    ops_fineb k nb args = true.
  Proof.
    intros Hl Hma Hb.
    destruct (lookup_params_ok _ _ _ _ Hl)
      as [(-> & -> & Hm & ->)|[(-> & -> & Hm & ->)|(-> & Hm & Hr & _ & e & Hf & Hin & _ & -> & _)]].
    - destruct args as [|[q|b|x|z] [|[q'|b'|x'|z'] [|a3 r]]]; try discriminate Hma.
      cbn. rewrite andb_true_r. apply Z.ltb_lt, (Hb b'). right; now left.
    - destruct args as [|[q|b|x|z] [|a2 r]]; try discriminate Hma. reflexivity.
    - apply arg_bits_nil_fine. exact (gate_table_no_bits e args Hin Hma).
  Qed.

  (** The parser, on one instruction with single-index operands and literal
      parameters, produces exactly the statement of the direct call. *)
  Theorem parser_iff_direct nq nb o name (args : list arg) l :
    has_qubit args -> single_reset name args -> bits_decl nb args ->
    (parse_one nq nb o name args = Ok l <-> exists s, direct o name args = Ok s /\ l = [s]).
  Proof.
    intros Hq Hsr Hb. split.
    - intros H. destruct (lookup_params name) as [[[k fname] ps]|e] eqn:Hl.
      + rewrite (parse_one_cases nq nb o name k fname ps args Hq Hsr Hl) in H.
        destruct (ops_fineb k nb args); [|discriminate].
        destruct (direct o name args) as [s|e]; [|discriminate]. inversion H. now exists s.
      + unfold parse_one in H. now rewrite (expand_unknown nq nb name e args Hl) in H.
    - intros (s & Hd & ->). destruct (direct_known _ _ _ _ Hd) as (k & fname & ps & Hl & Hma).
      rewrite (parse_one_cases nq nb o name k fname ps args Hq Hsr Hl).
      now rewrite (args_match_fine nb name k fname ps args Hl Hma Hb), Hd.
  Qed.

  (* the direction that needs no hypothesis on the bit register, in the words of
     [expand_stmt] / [eval_calls] *)
  Theorem parser_equals_direct nq nb o name (args : list arg) cs l :
    has_qubit args -> single_reset name args ->
    expand_stmt (rt_vars nq nb) (ast_of name args) = Ok cs -> eval_calls N o cs = Ok l ->
    exists k fname ps s,
      lookup_params name = Ok (k, fname, ps) /\ cs = [mkCall k fname args] /\
      direct o name args = Ok s /\ l = [s].
  Proof.
    intros Hq Hsr He Hv. destruct (lookup_params name) as [[[k fname] ps]|e] eqn:Hl.
    - rewrite (expand_request nq nb name k fname ps args Hq Hsr Hl) in He.
      destruct (ops_fineb k nb args); [|discriminate]. inversion He; subst cs.
      cbn [eval_calls] in Hv. rewrite (eval_call_direct name k fname ps o args Hl) in Hv.
      destruct (direct o name args) as [s|e]; [|discriminate]. inversion Hv.
      exists k, fname, ps, s. repeat split.
    - now rewrite (expand_unknown nq nb name e args Hl) in He.
  Qed.

  (** The gate case as the task states it: operands q[i1], ..., q[ik] followed
      by literal parameters. *)
  Definition is_lit (a : arg) : bool := match a with AF _ | AI _ => true | _ => false end.

  Corollary parser_gate_equals_direct nq nb o name (qs : list Z) (lits : list arg) cs l :
    qs <> [] -> mem_str name hand_measure_set = false -> mem_str name hand_reset_set = false ->
    expand_stmt (rt_vars nq nb) (mkAstmt name (map (@qop T) qs ++ map op_of_arg lits)) = Ok cs ->
    eval_calls N o cs = Ok l ->
    exists g gi,
      default_gate N (resolve_alias name) (map (@AQ T) qs ++ lits) = Ok (g, gi) /\
      cs = [mkCall KGate (resolve_alias name) (map (@AQ T) qs ++ lits)] /\
      l = [SGate o g gi].
  Proof.
    intros Hne Hm Hr He Hv.
    assert (Ea : ast_of name (map (@AQ T) qs ++ lits) = mkAstmt name (map (@qop T) qs ++ map op_of_arg lits)).
    { unfold ast_of. rewrite Hm, map_app, map_map. reflexivity. }
    rewrite <- Ea in He.
    assert (Hq : has_qubit (map (@AQ T) qs ++ lits)).
    { destruct qs as [|q qs]; [congruence|]. exists q. now left. }
    assert (Hsr : single_reset name (map (@AQ T) qs ++ lits)) by (intros E; congruence).
    destruct (parser_equals_direct nq nb o name _ cs l Hq Hsr He Hv) as (k & fname & ps & s & Hl & -> & Hd & ->).
    rewrite (direct_gate o name _ Hm Hr) in Hd.
    destruct (default_gate N (resolve_alias name) (map (@AQ T) qs ++ lits)) as [[g gi]|e]; [|discriminate].
    inversion Hd; subst. exists g, gi. split; [reflexivity|]. split; [|reflexivity].
    destruct (lookup_params_ok _ _ _ _ Hl) as [(_ & _ & E & _)|[(_ & _ & E & _)|(-> & _)]]; try congruence.
    now rewrite (lookup_gate_resolve _ _ _ Hl).
  Qed.

  (* ------------------------------------------------------------------ *)
  (** * 3. The builder equals the parser                                  *)
  (* ------------------------------------------------------------------ *)

  (** ** 3.1 One instruction *)

  (* the requests on which the two models can be compared (each conjunct is
     forced by one of the observations of section 5) *)
  Definition comparable (nq nb : Z) (name : string) (args : list arg) : Prop :=
    has_qubit args /\ single_reset name args /\
    no_int_as_qubit (sig_of name) args = true /\
    Forall (BuilderP.arg_ok nq nb) args.

  Lemma arg_ok_bits_decl nq nb (args : list arg) : Forall (BuilderP.arg_ok nq nb) args -> bits_decl nb args.
  Proof.
    intros H b Hb. rewrite Forall_forall in H. specialize (H _ Hb). cbn in H. unfold in_range in H. lia.
  Qed.

  (** For the same instruction name and the same arguments, in range: the
      builder accepts iff the parser does, and then the statement the builder
      appends is the one statement the parser produces (the object identity
      is the same when the parser numbers from the builder's next oid). *)
  Theorem builder_equals_parser nq nb ir o name (args : list arg) :
    comparable nq nb name args ->
    (forall ir' o', builder_step N nq nb (ir, o) (BInstr name (map val_of_arg args)) = Ok (ir', o') ->
       exists s, parse_one nq nb o name args = Ok [s] /\ ir' = ir ++ [s] /\ o' = Pos.succ o) /\
    (forall l, parse_one nq nb o name args = Ok l ->
       exists s, l = [s] /\
         builder_step N nq nb (ir, o) (BInstr name (map val_of_arg args)) = Ok (ir ++ [s], Pos.succ o)).
  Proof.
    intros (Hq & Hsr & Hn & Hok). pose proof (arg_ok_bits_decl _ _ _ Hok) as Hb. split.
    - intros ir' o' H. apply (builder_iff_direct nq nb ir o name args _ Hn) in H.
      destruct H as (_ & s & Hd & Hst). inversion Hst; subst. exists s. split; [|now split].
      apply (parser_iff_direct nq nb o name args _ Hq Hsr Hb). now exists s.
    - intros l H. apply (parser_iff_direct nq nb o name args _ Hq Hsr Hb) in H.
      destruct H as (s & Hd & ->). exists s. split; [reflexivity|].
      apply (builder_iff_direct nq nb ir o name args _ Hn). split; [exact Hok|]. now exists s.
  Qed.

  (* whatever the oids: the same statement up to its oid *)
  Corollary builder_equals_parser_modulo_oid nq nb ir o o_p name (args : list arg) ir' o' l :
    comparable nq nb name args ->
    builder_step N nq nb (ir, o) (BInstr name (map val_of_arg args)) = Ok (ir', o') ->
    parse_one nq nb o_p name args = Ok l ->
    exists s_b s_p, ir' = ir ++ [s_b] /\ l = [s_p] /\ same_modulo_oid [s_b] [s_p].
  Proof.
    intros Hc Hb Hp. pose proof Hc as (Hq & Hsr & Hn & Hok).
    pose proof (arg_ok_bits_decl _ _ _ Hok) as Hbd.
    apply (builder_iff_direct nq nb ir o name args _ Hn) in Hb. destruct Hb as (_ & s & Hd & Hst).
    inversion Hst; subst.
    apply (parser_iff_direct nq nb o_p name args _ Hq Hsr Hbd) in Hp. destruct Hp as (s' & Hd' & ->).
    exists s, s'. split; [reflexivity|]. split; [reflexivity|].
    destruct (direct_known _ _ _ _ Hd) as (k & fname & ps & Hl & _).
    rewrite <- (eval_call_direct name k fname ps o args Hl) in Hd.
    rewrite <- (eval_call_direct name k fname ps o_p args Hl) in Hd'.
    rewrite (BuilderP.eval_call_oid N o_p o), Hd' in Hd. inversion Hd; subst.
    unfold same_modulo_oid, forget_oids, forget_oid. cbn [map]. f_equal. destruct s'; reflexivity.
  Qed.

  (* one succeeds iff the other does; one refuses iff the other does *)
  Corollary acceptance_coincides nq nb ir o name (args : list arg) :
    comparable nq nb name args ->
    ((exists st', builder_step N nq nb (ir, o) (BInstr name (map val_of_arg args)) = Ok st') <->
     (exists l, parse_one nq nb o name args = Ok l)).
  Proof.
    intros Hc. destruct (builder_equals_parser nq nb ir o name args Hc) as [H1 H2]. split.
    - intros [[ir' o'] H]. destruct (H1 _ _ H) as (s & Hp & _). now exists [s].
    - intros [l H]. destruct (H2 _ H) as (s & _ & Hb). eexists. exact Hb.
  Qed.

  Corollary refusals_coincide nq nb ir o name (args : list arg) :
    comparable nq nb name args ->
    ((exists e, builder_step N nq nb (ir, o) (BInstr name (map val_of_arg args)) = Err e) <->
     (exists e, parse_one nq nb o name args = Err e)).
  Proof.
    intros Hc. pose proof (acceptance_coincides nq nb ir o name args Hc) as [H1 H2].
    destruct (builder_step N nq nb (ir, o) (BInstr name (map val_of_arg args))) as [st'|e] eqn:Eb;
      destruct (parse_one nq nb o name args) as [l|e'] eqn:Ep; split; intros [x Hx]; try discriminate Hx.
    - destruct H1 as [l Hl]; [now exists st'|discriminate Hl].
    - destruct H2 as [st' Hs]; [now exists l|discriminate Hs].
    - now exists e'.
    - now exists e.
  Qed.

  (** ** 3.2 Which refusals, with which exception *)

  Lemma arg_qubits_In (args : list arg) q : In q (arg_qubits args) -> In (AQ q) args.
  Proof.
    unfold arg_qubits. induction args as [|a r IH]; cbn [flat_map]; [tauto|].
    intros H. apply in_app_or in H. destruct H as [H|H]; [|right; now apply IH].
    destruct a; cbn in H; try tauto. destruct H as [->|[]]. now left.
  Qed.

  (** A call with the right number of arguments of the right kinds, in range:
      both front ends return what the direct call returns - the statement, or
      the SAME exception. *)
  Theorem typed_same_error nq nb ir o name k fname ps (args : list arg) :
    lookup_params name = Ok (k, fname, ps) -> args_match ps args = true ->
    Forall (BuilderP.arg_ok nq nb) args -> has_qubit args ->
    builder_step N nq nb (ir, o) (BInstr name (map val_of_arg args))
      = match direct o name args with Ok s => Ok (ir ++ [s], Pos.succ o) | Err e => Err e end /\
    parse_one nq nb o name args
      = match direct o name args with Ok s => Ok [s] | Err e => Err e end.
  Proof.
    intros Hl Hma Hok Hq. split.
    - cbn [builder_step]. rewrite Hl.
      assert (Hc : check_args nq nb ps (map val_of_arg args) = Ok args).
      { apply check_args_ok_iff. exists (map val_of_arg args), []. rewrite app_nil_r.
        split; [reflexivity|]. split; [now apply args_match_converts|exact Hok]. }
      rewrite Hc, map_length, (args_match_length _ _ Hma), Nat.ltb_irrefl.
      rewrite (eval_call_direct name k fname ps o args Hl). destruct (direct o name args); reflexivity.
    - assert (Hsr : single_reset name args).
      { intros Hr. destruct (lookup_params_ok _ _ _ _ Hl)
          as [(_ & _ & Hm & _)|[(_ & _ & _ & ->)|(_ & _ & Hr' & _)]]; [|now apply args_match_length in Hma|congruence].
        apply mem_str_In in Hm. apply mem_str_In in Hr. cbn in Hm, Hr.
        destruct Hr as [<-|[]]. destruct Hm as [E|[E|[]]]; discriminate E. }
      rewrite (parse_one_cases nq nb o name k fname ps args Hq Hsr Hl).
      now rewrite (args_match_fine nb name k fname ps args Hl Hma (arg_ok_bits_decl _ _ _ Hok)).
  Qed.

  (** The same qubit twice (control = target of CNOT, CZ, CR, CRk): ValueError
      from both. *)
  Theorem same_qubit_twice_refused_by_both nq nb ir o name fname ps (args : list arg) :
    lookup_params name = Ok (KGate, fname, ps) -> args_match ps args = true ->
    Forall (BuilderP.arg_ok nq nb) args -> znodup (arg_qubits args) = false ->
    builder_step N nq nb (ir, o) (BInstr name (map val_of_arg args)) = Err EValue /\
    parse_one nq nb o name args = Err EValue /\
    direct o name args = Err EValue /\
    In fname ctrl_names /\ exists c, arg_qubits args = [c; c].
  Proof.
    intros Hl Hma Hok Hnd. pose proof Hl as Hl0.
    destruct (lookup_params_ok _ _ _ _ Hl)
      as [(E & _)|[(E & _)|(_ & Hm & Hr & _ & e & Hf & Hin & Hn & -> & _)]]; try discriminate E.
    assert (Hd : direct o name args = Err EValue /\ In fname ctrl_names /\ exists c, arg_qubits args = [c; c]).
    { rewrite (direct_gate o name args Hm Hr), <- (lookup_gate_resolve _ _ _ Hl0). subst fname.
      destruct (default_gate_table N e args Hin Hf Hma) as [(g & _ & _ & Hnd')|(-> & Hc & Hcc)]; [congruence|].
      auto. }
    destruct Hd as (Hd & Hc & c & Hcc).
    assert (Hq : has_qubit args). { exists c. apply arg_qubits_In. rewrite Hcc. now left. }
    destruct (typed_same_error nq nb ir o name KGate fname (e_params e) args Hl0 Hma Hok Hq) as [Hb Hp].
    rewrite Hd in Hb, Hp. repeat split; auto. now exists c.
  Qed.

  (** The wrong number of arguments: both refuse; the parser with TypeError,
      the builder with IndexError (a missing argument) or TypeError. *)
  Theorem wrong_arity_refused_by_both nq nb ir o name k fname ps (args : list arg) :
    lookup_params name = Ok (k, fname, ps) -> List.length args <> List.length ps ->
    has_qubit args -> single_reset name args ->
    (exists e, builder_step N nq nb (ir, o) (BInstr name (map val_of_arg args)) = Err e /\
               (e = EType \/ e = EIndex)) /\
    parse_one nq nb o name args = Err EType.
  Proof.
    intros Hl Hlen Hq Hsr. split.
    - destruct (Nat.lt_ge_cases (List.length args) (List.length ps)) as [L|L].
      + apply (missing_args_refused N nq nb ir o name _ k fname ps Hl). now rewrite map_length.
      + apply (too_many_args_refused N nq nb ir o name _ k fname ps Hl). rewrite map_length. lia.
    - rewrite (parse_one_cases nq nb o name k fname ps args Hq Hsr Hl).
      destruct (ops_fineb k nb args); [|reflexivity].
      rewrite (direct_args_mismatch o name k fname ps args Hl); [reflexivity|].
      destruct (args_match ps args) eqn:Hma; [|reflexivity]. now apply args_match_length in Hma.
  Qed.

  (* the parser's refusals of a known instruction: TypeError, or the direct call's exception *)
  Theorem parse_one_error_kind nq nb o name k fname ps (args : list arg) e :
    lookup_params name = Ok (k, fname, ps) -> has_qubit args -> single_reset name args ->
    parse_one nq nb o name args = Err e -> e = EType \/ direct o name args = Err e.
  Proof.
    intros Hl Hq Hsr H. rewrite (parse_one_cases nq nb o name k fname ps args Hq Hsr Hl) in H.
    destruct (ops_fineb k nb args); [|inversion H; now left].
    destruct (direct o name args); [discriminate|]. inversion H. now right.
  Qed.

  (* an unknown name: ValueError from both *)
  Theorem unknown_name_refused_by_both nq nb ir o name (args : list arg) :
    known_call_name name = false ->
    builder_step N nq nb (ir, o) (BInstr name (map val_of_arg args)) = Err EValue /\
    parse_one nq nb o name args = Err EValue /\ direct o name args = Err EValue.
  Proof.
    intros H. split; [now apply BuilderP.unknown_name_refused|].
    apply lookup_params_unknown in H. unfold parse_one.
    now rewrite (expand_unknown nq nb name _ args H), (direct_unknown o name _ args H).
  Qed.

  (** An index outside the register is refused by the builder ONLY: the parser
      model (which starts after libqasm's own range check) builds the statement
      of the direct call. *)
  Theorem out_of_range_only_builder_refuses nq nb ir o name (args : list arg) s :
    direct o name args = Ok s -> ~ Forall (BuilderP.arg_ok nq nb) args ->
    has_qubit args -> bits_decl nb args ->
    (exists e, builder_step N nq nb (ir, o) (BInstr name (map val_of_arg args)) = Err e) /\
    parse_one nq nb o name args = Ok [s].
  Proof.
    intros Hd Hbad Hq Hb. destruct (direct_known _ _ _ _ Hd) as (k & fname & ps & Hl & Hma). split.
    - destruct (builder_step N nq nb (ir, o) (BInstr name (map val_of_arg args))) as [st'|e] eqn:E; [|now exists e].
      apply builder_iff_direct in E; [now destruct E|].
      rewrite (sig_of_lookup _ _ _ _ Hl). now apply args_match_no_int.
    - assert (Hsr : single_reset name args).
      { intros Hr. rewrite (direct_reset o name args Hr) in Hd.
        destruct args as [|[q|b|x|z] [|a2 r]]; try discriminate Hd. reflexivity. }
      apply (parser_iff_direct nq nb o name args _ Hq Hsr Hb). now exists s.
  Qed.

  (** ** 3.3 Whole programs *)

  (* a front-end call: an instruction on typed arguments, or a comment *)
  Inductive fcall := FInstr (name : string) (args : list arg) | FComment (text : string).

  (* ... as a builder call ... *)
  Definition to_bcall (c : fcall) : bcall T :=
    match c with FInstr n a => BInstr n (map val_of_arg a) | FComment t => BComment t end.
  (* ... and as AST statements (libqasm drops comments) *)
  Definition to_ast (c : fcall) : list (astmt T) :=
    match c with FInstr n a => [ast_of n a] | FComment _ => [] end.

  Definition fcomparable (nq nb : Z) (c : fcall) : Prop :=
    match c with FInstr n a => comparable nq nb n a | FComment _ => True end.
  Definition is_finstr (c : fcall) : bool := match c with FInstr _ _ => true | FComment _ => false end.
  (* the builder accepts the instruction call (comments are not compared) *)
  Definition instr_accepted (nq nb : Z) (c : fcall) : Prop :=
    match c with FInstr _ _ => accepts N nq nb (to_bcall c) = true | FComment _ => True end.

  Lemma eval_calls_renumber (cs : list (call T)) : forall o o' l,
    eval_calls N o cs = Ok l -> eval_calls N o' cs = Ok (renumber o' l).
  Proof.
    induction cs as [|c cs IH]; intros o o' l H; cbn [eval_calls] in *.
    - inversion H. reflexivity.
    - destruct (eval_call N o c) as [s|] eqn:Ec; [|discriminate].
      destruct (eval_calls N (Pos.succ o) cs) as [r|] eqn:Er; [|discriminate]. inversion H; subst.
      rewrite (BuilderP.eval_call_oid N o o' c), Ec, (IH _ (Pos.succ o') _ Er).
      cbn [renumber]. destruct s; reflexivity.
  Qed.

  Lemma strip_app (a b : list stmt) : strip_comments (a ++ b) = strip_comments a ++ strip_comments b.
  Proof. unfold strip_comments. apply filter_app. Qed.

  Lemma expand_single nq nb name (args : list arg) cs :
    has_qubit args -> single_reset name args ->
    expand_stmt (rt_vars nq nb) (ast_of name args) = Ok cs ->
    exists k fname ps, lookup_params name = Ok (k, fname, ps) /\ cs = [mkCall k fname args].
  Proof.
    intros Hq Hsr He. destruct (lookup_params name) as [[[k fname] ps]|e] eqn:Hl.
    - rewrite (expand_request nq nb name k fname ps args Hq Hsr Hl) in He.
      destruct (ops_fineb k nb args); [|discriminate]. inversion He. now exists k, fname, ps.
    - now rewrite (expand_unknown nq nb name e args Hl) in He.
  Qed.

  Lemma program_core nq nb : forall (calls : list fcall) ir o ir' o' log cs l,
    Forall (fcomparable nq nb) calls ->
    builder_run N nq nb (ir, o) (map to_bcall calls) = ((ir', o'), log) ->
    expand_program (rt_vars nq nb) (flat_map to_ast calls) = Ok cs ->
    eval_calls N o cs = Ok l ->
    strip_comments ir' = strip_comments ir ++ l /\ Forall (instr_accepted nq nb) calls.
  Proof.
    induction calls as [|c calls IH]; intros ir o ir' o' log cs l Hc Hb He Hv.
    - cbn in Hb, He. inversion Hb; inversion He; subst. cbn in Hv. inversion Hv.
      rewrite app_nil_r. split; constructor.
    - inversion Hc as [|? ? Hc1 Hc2]; subst. cbn [map] in Hb. rewrite builder_run_cons in Hb.
      destruct c as [name args|t].
      + cbn [flat_map to_ast app expand_program] in He.
        destruct (expand_stmt (rt_vars nq nb) (ast_of name args)) as [c1|] eqn:E1; [|discriminate].
        destruct (expand_program (rt_vars nq nb) (flat_map to_ast calls)) as [c2|] eqn:E2; [|discriminate].
        inversion He; subst cs. destruct Hc1 as (Hq & Hsr & Hn & Hok).
        destruct (expand_single nq nb name args c1 Hq Hsr E1) as (k & fname & ps & Hl & ->).
        cbn [app eval_calls] in Hv.
        destruct (eval_call N o (mkCall k fname args)) as [s|] eqn:Ec; [|discriminate].
        destruct (eval_calls N (Pos.succ o) c2) as [r|] eqn:Er; [|discriminate]. inversion Hv; subst l.
        rewrite (eval_call_direct name k fname ps o args Hl) in Ec.
        assert (Hs : builder_step N nq nb (ir, o) (to_bcall (FInstr name args)) = Ok (ir ++ [s], Pos.succ o)).
        { apply (builder_iff_direct nq nb ir o name args _ Hn). split; [exact Hok|]. now exists s. }
        rewrite Hs in Hb.
        destruct (builder_run N nq nb (ir ++ [s], Pos.succ o) (map to_bcall calls)) as [[ir2 o2] log2] eqn:Eb.
        cbn [fst snd] in Hb. inversion Hb; subst.
        destruct (IH _ _ _ _ _ _ _ Hc2 Eb eq_refl Er) as [IH1 IH2]. split.
        * rewrite IH1, strip_app, <- app_assoc. f_equal. unfold strip_comments. cbn [filter].
          now rewrite (direct_not_comment _ _ _ _ Ec).
        * constructor; [|exact IH2]. cbn [instr_accepted].
          now rewrite (accepts_spec N nq nb ir o), Hs.
      + cbn [flat_map to_ast app] in He. cbn [to_bcall] in Hb. rewrite comment_step in Hb.
        destruct (contains "*/" t).
        * destruct (builder_run N nq nb (ir, o) (map to_bcall calls)) as [[ir2 o2] log2] eqn:Eb.
          cbn [fst snd] in Hb. inversion Hb; subst.
          destruct (IH _ _ _ _ _ _ _ Hc2 Eb He Hv) as [IH1 IH2]. split; [exact IH1|]. constructor; [exact I|exact IH2].
        * destruct (builder_run N nq nb (ir ++ [SComment t], o) (map to_bcall calls)) as [[ir2 o2] log2] eqn:Eb.
          cbn [fst snd] in Hb. inversion Hb; subst.
          destruct (IH _ _ _ _ _ _ _ Hc2 Eb He Hv) as [IH1 IH2]. split; [|constructor; [exact I|exact IH2]].
          rewrite IH1, strip_app. unfold strip_comments at 2. cbn [filter is_comment negb]. now rewrite app_nil_r.
  Qed.

  (** THE WHOLE PROGRAM.  The same calls through the builder (from the empty
      circuit, next oid [o]) and, as an AST over "qubit[nq] q; bit[nb] b",
      through the parser.  If the parser accepts, the builder accepted every
      instruction call, and the builder's circuit without its comments is the
      parser's circuit, statement by statement - exactly, once the parser's
      oids 1, 2, ... are shifted to o, o+1, ... *)
  Theorem program_agree nq nb (calls : list fcall) o ir_b o_b log nq' nb' ir_p :
    Forall (fcomparable nq nb) calls ->
    builder_run N nq nb ([], o) (map to_bcall calls) = ((ir_b, o_b), log) ->
    parse_program N (rt_vars nq nb) (flat_map to_ast calls) = Ok (nq', nb', ir_p) ->
    strip_comments ir_b = renumber o ir_p /\
    same_modulo_oid (strip_comments ir_b) ir_p /\
    nq' = nq /\ ((0 <= nb)%Z -> nb' = nb) /\
    Forall (instr_accepted nq nb) calls.
  Proof.
    intros Hc Hb Hp. unfold parse_program in Hp.
    destruct (expand_program (rt_vars nq nb) (flat_map to_ast calls)) as [cs|] eqn:He; [|discriminate].
    destruct (eval_calls N 1 cs) as [l|] eqn:Hv; [|discriminate]. inversion Hp; subst.
    pose proof (eval_calls_renumber cs 1 o _ Hv) as Hv'.
    destruct (program_core nq nb calls [] o ir_b o_b log cs _ Hc Hb He Hv') as [H1 H2].
    cbn [strip_comments filter app] in H1.
    split; [exact H1|]. split; [unfold same_modulo_oid; rewrite H1; apply forget_renumber|].
    split; [apply rt_reg_size_q|]. split; [apply rt_reg_size_b|exact H2].
  Qed.

  (* both counting from 1: the very same statements, oids included *)
  Corollary program_agree_exact nq nb (calls : list fcall) ir_b o_b log nq' nb' ir_p :
    Forall (fcomparable nq nb) calls ->
    builder_run N nq nb ([], 1%positive) (map to_bcall calls) = ((ir_b, o_b), log) ->
    parse_program N (rt_vars nq nb) (flat_map to_ast calls) = Ok (nq', nb', ir_p) ->
    strip_comments ir_b = ir_p.
  Proof.
    intros Hc Hb Hp. unfold parse_program in Hp.
    destruct (expand_program (rt_vars nq nb) (flat_map to_ast calls)) as [cs|] eqn:He; [|discriminate].
    destruct (eval_calls N 1 cs) as [l|] eqn:Hv; [|discriminate]. inversion Hp; subst.
    exact (proj1 (program_core nq nb calls [] 1 ir_b o_b log cs _ Hc Hb He Hv)).
  Qed.

  (* without comment calls the builder's circuit has no comment to drop *)
  Lemma builder_no_comments nq nb : forall (calls : list fcall) ir o ir' o' log,
    forallb is_finstr calls = true ->
    builder_run N nq nb (ir, o) (map to_bcall calls) = ((ir', o'), log) ->
    strip_comments ir = ir -> strip_comments ir' = ir'.
  Proof.
    induction calls as [|c calls IH]; intros ir o ir' o' log Hf Hb Hs.
    - cbn in Hb. now inversion Hb; subst.
    - cbn [forallb] in Hf. apply andb_true_iff in Hf. destruct Hf as [Hf1 Hf2].
      destruct c as [name args|t]; [|discriminate Hf1].
      cbn [map] in Hb. rewrite builder_run_cons in Hb.
      destruct (builder_step N nq nb (ir, o) (to_bcall (FInstr name args))) as [[ir1 o1]|e] eqn:Es.
      + destruct (builder_run N nq nb (ir1, o1) (map to_bcall calls)) as [[ir2 o2] log2] eqn:Eb.
        cbn [fst snd] in Hb. inversion Hb; subst. apply (IH _ _ _ _ _ Hf2 Eb).
        destruct (builder_equals_direct _ _ _ _ _ _ _ _ Es) as (k & fname & ps & args' & s & _ & _ & _ & Hd & -> & _).
        rewrite strip_app, Hs. unfold strip_comments. cbn [filter].
        now rewrite (direct_not_comment _ _ _ _ Hd).
      + destruct (builder_run N nq nb (ir, o) (map to_bcall calls)) as [[ir2 o2] log2] eqn:Eb.
        cbn [fst snd] in Hb. inversion Hb; subst. exact (IH _ _ _ _ _ Hf2 Eb Hs).
  Qed.

  (** ... as the task states it: instruction calls only, the two circuits are
      the same up to object identities (and the same when both count from 1) *)
  Corollary program_agree_instructions nq nb (calls : list fcall) o ir_b o_b log nq' nb' ir_p :
    Forall (fcomparable nq nb) calls -> forallb is_finstr calls = true ->
    builder_run N nq nb ([], o) (map to_bcall calls) = ((ir_b, o_b), log) ->
    parse_program N (rt_vars nq nb) (flat_map to_ast calls) = Ok (nq', nb', ir_p) ->
    same_modulo_oid ir_b ir_p /\ ir_b = renumber o ir_p /\ Forall (eq None) log.
  Proof.
    intros Hc Hf Hb Hp.
    destruct (program_agree nq nb calls o ir_b o_b log nq' nb' ir_p Hc Hb Hp) as (H1 & H2 & _ & _ & H3).
    rewrite (builder_no_comments nq nb calls [] o ir_b o_b log Hf Hb eq_refl) in H1, H2.
    split; [exact H2|]. split; [exact H1|].
    clear H1 H2 Hp Hc. revert log Hb. generalize (@nil stmt) as ir. revert o.
    induction calls as [|c calls IH]; intros o ir log Hb.
    - cbn in Hb. inversion Hb. constructor.
    - cbn [forallb] in Hf. apply andb_true_iff in Hf. destruct Hf as [Hf1 Hf2].
      inversion H3 as [|? ? Ha H3']; subst.
      destruct c as [name args|t]; [|discriminate Hf1]. cbn [instr_accepted] in Ha.
      rewrite (accepts_spec N nq nb ir o) in Ha. cbn [map] in Hb. rewrite builder_run_cons in Hb.
      destruct (builder_step N nq nb (ir, o) (to_bcall (FInstr name args))) as [[ir1 o1]|e]; [|discriminate Ha].
      destruct (builder_run N nq nb (ir1, o1) (map to_bcall calls)) as [[ir2 o2] log2] eqn:Eb.
      cbn [fst snd] in Hb. inversion Hb; subst. constructor; [reflexivity|]. exact (IH Hf2 H3' _ _ _ Eb).
  Qed.

  (** ** 3.4 One front end accepts iff the other does *)

  Lemma program_parse_of_accepted nq nb : forall (calls : list fcall) o,
    Forall (fcomparable nq nb) calls -> Forall (instr_accepted nq nb) calls ->
    exists cs l, expand_program (rt_vars nq nb) (flat_map to_ast calls) = Ok cs /\ eval_calls N o cs = Ok l.
  Proof.
    induction calls as [|c calls IH]; intros o Hc Ha.
    - exists [], []. split; reflexivity.
    - inversion Hc as [|? ? Hc1 Hc2]; inversion Ha as [|? ? Ha1 Ha2]; subst.
      destruct c as [name args|t].
      + cbn [instr_accepted] in Ha1. rewrite (accepts_spec N nq nb [] o) in Ha1.
        destruct (builder_step N nq nb ([], o) (to_bcall (FInstr name args))) as [[ir1 o1]|e] eqn:Es; [|discriminate Ha1].
        destruct (proj1 (builder_equals_parser nq nb [] o name args Hc1) _ _ Es) as (s & Hp & _).
        unfold parse_one in Hp.
        destruct (expand_stmt (rt_vars nq nb) (ast_of name args)) as [c1|] eqn:E1; [|discriminate].
        destruct Hc1 as (Hq & Hsr & _).
        destruct (expand_single nq nb name args c1 Hq Hsr E1) as (k & fname & ps & Hl & ->).
        cbn [eval_calls] in Hp.
        destruct (eval_call N o (mkCall k fname args)) as [s'|] eqn:Ec; [|discriminate].
        destruct (IH (Pos.succ o) Hc2 Ha2) as (cs2 & l2 & E2 & Er).
        exists (mkCall k fname args :: cs2), (s' :: l2).
        cbn [flat_map to_ast app expand_program eval_calls]. now rewrite E1, E2, Ec, Er.
      + exact (IH o Hc2 Ha2).
  Qed.

  (** The parser accepts the program iff the builder accepts every one of its
      instruction calls (the parser stops at the first refusal; the builder
      raises, stays as it was, and can go on). *)
  Theorem program_accept_iff nq nb (calls : list fcall) :
    Forall (fcomparable nq nb) calls ->
    ((exists r, parse_program N (rt_vars nq nb) (flat_map to_ast calls) = Ok r) <->
     Forall (instr_accepted nq nb) calls).
  Proof.
    intros Hc. split.
    - intros [[[nq' nb'] ir_p] Hp].
      destruct (builder_run N nq nb ([], 1%positive) (map to_bcall calls)) as [[ir_b o_b] log] eqn:Hb.
      exact (proj2 (proj2 (proj2 (proj2 (program_agree nq nb calls 1 ir_b o_b log nq' nb' ir_p Hc Hb Hp))))).
    - intros Ha. destruct (program_parse_of_accepted nq nb calls 1 Hc Ha) as (cs & l & He & Hv).
      unfold parse_program. rewrite He, Hv. eexists. reflexivity.
  Qed.

  (* ... in terms of the builder's log of exceptions *)
  Lemma builder_log_accepts nq nb : forall (calls : list fcall) st st' log,
    builder_run N nq nb st (map to_bcall calls) = (st', log) ->
    Forall2 (fun c e => e = None <-> accepts N nq nb (to_bcall c) = true) calls log.
  Proof.
    induction calls as [|c calls IH]; intros [ir o] st' log Hb.
    - cbn in Hb. inversion Hb. constructor.
    - cbn [map] in Hb. rewrite builder_run_cons in Hb.
      pose proof (accepts_spec N nq nb ir o (to_bcall c)) as Ha.
      destruct (builder_step N nq nb (ir, o) (to_bcall c)) as [st1|e].
      + destruct (builder_run N nq nb st1 (map to_bcall calls)) as [st2 log2] eqn:Eb.
        cbn [fst snd] in Hb. inversion Hb; subst. constructor; [tauto|exact (IH _ _ _ Eb)].
      + destruct (builder_run N nq nb (ir, o) (map to_bcall calls)) as [st2 log2] eqn:Eb.
        cbn [fst snd] in Hb. inversion Hb; subst.
        constructor; [rewrite Ha; split; discriminate|exact (IH _ _ _ Eb)].
  Qed.

  Corollary program_accept_iff_log nq nb (calls : list fcall) st st' log :
    Forall (fcomparable nq nb) calls ->
    builder_run N nq nb st (map to_bcall calls) = (st', log) ->
    ((exists r, parse_program N (rt_vars nq nb) (flat_map to_ast calls) = Ok r) <->
     Forall2 (fun c e => is_finstr c = true -> e = None) calls log).
  Proof.
    intros Hc Hb. rewrite (program_accept_iff nq nb calls Hc).
    pose proof (builder_log_accepts nq nb calls st st' log Hb) as HF. clear Hb Hc.
    induction HF as [|c e calls log H HF IH].
    - split; constructor.
    - split.
      + intros Ha. inversion Ha as [|? ? Ha1 Ha2]; subst. constructor; [|now apply IH].
        destruct c; [|discriminate]. intros _. now apply H.
      + intros Ha. inversion Ha as [|? ? ? ? Ha1 Ha2]; subst. constructor; [|now apply IH].
        destruct c as [name args|t]; [|exact I]. cbn [instr_accepted]. apply H, Ha1. reflexivity.
  Qed.

  (* ------------------------------------------------------------------ *)
  (** * 5. Where the two models disagree: witnesses                       *)
  (* ------------------------------------------------------------------ *)
  (* two qubits, no bit register; every hypothesis of [comparable] is needed *)

  (* in range is needed: the builder refuses, the parser model builds the gate
     (the range check is libqasm's) *)
  Lemma obs_out_of_range :
    builder_step N 2 0 ([], 1%positive) (BInstr "H" (map val_of_arg [AQ 5%Z])) = Err EIndex /\
    builder_step N 2 0 ([], 1%positive) (BInstr "H" (map val_of_arg [AQ (-1)%Z])) = Err EIndex /\
    (exists s, parse_one 2 0 1 "H" [AQ 5%Z] = Ok [s] /\ direct 1 "H" [AQ 5%Z] = Ok s) /\
    (exists s, parse_one 2 0 1 "H" [AQ (-1)%Z] = Ok [s] /\ direct 1 "H" [AQ (-1)%Z] = Ok s).
  Proof. repeat split; try reflexivity; eexists; split; reflexivity. Qed.

  (* [no_int_as_qubit] is needed: CNOT(Qubit(0), 1) is CNOT(0, 1) for the
     builder; "CNOT q[0], 1" is a TypeError for the parser *)
  Lemma obs_int_as_qubit :
    (exists g gi, default_gate N "CNOT" [AQ 0%Z; AQ 1%Z] = Ok (g, gi) /\
       builder_step N 2 0 ([], 1%positive) (BInstr "CNOT" (map val_of_arg [AQ 0%Z; AI 1%Z]))
       = Ok ([SGate 1 g gi], 2%positive)) /\
    parse_one 2 0 1 "CNOT" [AQ 0%Z; AI 1%Z] = Err EType /\
    direct 1 "CNOT" [AQ 0%Z; AI 1%Z] = Err EType /\
    no_int_as_qubit (sig_of "CNOT") [AQ 0%Z; AI 1%Z] = false.
  Proof. split; [do 2 eexists; split; reflexivity|]. repeat split; reflexivity. Qed.

  (* [has_qubit] is needed: without a qubit operand the parser produces no
     instruction at all, and does not fail *)
  Lemma obs_no_qubit_operand :
    parse_one 2 0 1 "H" [AI 0%Z] = Ok [] /\
    (exists s, builder_step N 2 0 ([], 1%positive) (BInstr "H" (map val_of_arg [AI 0%Z])) = Ok ([s], 2%positive)) /\
    parse_one 2 0 1 "H" [] = Ok [] /\
    builder_step N 2 0 ([], 1%positive) (BInstr "H" (map val_of_arg [])) = Err EIndex /\
    parse_one 2 0 1 "Rx" [AF (nofZ N 0)] = Ok [] /\
    builder_step N 2 0 ([], 1%positive) (BInstr "Rx" (map val_of_arg [AF (nofZ N 0)])) = Err EType.
  Proof. repeat split; try reflexivity. eexists. reflexivity. Qed.

  (* [single_reset] is needed: "reset q[0], q[1]" and the bare "reset" are one
     reset per qubit for the parser *)
  Lemma obs_reset_many :
    parse_one 2 0 1 "reset" [AQ 0%Z; AQ 1%Z]
      = Ok [SReset 1 0%Z (mkGinfo (Some "reset") (Some [AQ 0%Z])); SReset 2 1%Z (mkGinfo (Some "reset") (Some [AQ 1%Z]))] /\
    builder_step N 2 0 ([], 1%positive) (BInstr "reset" (map val_of_arg [AQ 0%Z; AQ 1%Z])) = Err EType /\
    parse_one 2 0 1 "reset" []
      = Ok [SReset 1 0%Z (mkGinfo (Some "reset") (Some [AQ 0%Z])); SReset 2 1%Z (mkGinfo (Some "reset") (Some [AQ 1%Z]))] /\
    builder_step N 2 0 ([], 1%positive) (BInstr "reset" (map val_of_arg [])) = Err EIndex.
  Proof. repeat split; reflexivity. Qed.

  (* both refuse, with different exceptions: a missing argument; a measure
     without a bit register *)
  Lemma obs_error_kinds :
    builder_step N 2 0 ([], 1%positive) (BInstr "CNOT" (map val_of_arg [AQ 0%Z])) = Err EIndex /\
    parse_one 2 0 1 "CNOT" [AQ 0%Z] = Err EType /\
    builder_step N 2 0 ([], 1%positive) (BInstr "measure" (map val_of_arg [AQ 0%Z; AB 0%Z])) = Err EIndex /\
    parse_one 2 0 1 "measure" [AQ 0%Z; AB 0%Z] = Err EType.
  Proof. repeat split; reflexivity. Qed.

  (* the iff of [builder_equals_parser] without its hypotheses is refuted *)
  Theorem builder_iff_parser_unconditional_refuted :
    exists nq nb name (args : list arg),
      ~ ((exists st', builder_step N nq nb ([], 1%positive) (BInstr name (map val_of_arg args)) = Ok st') <->
         (exists l, parse_one nq nb 1 name args = Ok l)).
  Proof.
    exists 2%Z, 0%Z, "H", [AQ 5%Z]. intros [_ H].
    destruct H as [st' H]; [eexists; reflexivity|]. discriminate H.
  Qed.
End FrontEnd.

Arguments fcall : clear implicits.
Arguments FInstr {T} name args.
Arguments FComment {T} text.

(* ------------------------------------------------------------------ *)
(** * 4. Non-vacuity: a concrete program through the three front ends   *)
(* ------------------------------------------------------------------ *)
(* T := dec, [decNum] and [ex_mk] (the direct call of a default gate) of
   RoundTripP.v; two qubits, one bit *)

Definition ex_half : dec := DFin false [5;0;0;0;0;0;0;0]%nat (-1).   (* 0.5 *)

Definition ex_calls : list (fcall dec) :=
  [ FComment "bell";
    FInstr "H" [AQ 0%Z];
    FInstr "CNOT" [AQ 0%Z; AQ 1%Z];
    FInstr "Rx" [AQ 1%Z; AF ex_half];
    FInstr "Hadamard" [AQ 1%Z];                    (* an alias *)
    FInstr "CRk" [AQ 1%Z; AQ 0%Z; AI 3%Z];
    FInstr "measure" [AQ 1%Z; AB 0%Z];
    FInstr "reset" [AQ 0%Z] ].

(* the direct calls, numbered 1 .. 7 *)
Definition ex_direct : list (stmt dec) :=
  [ ex_mk 1 "H" [AQ 0%Z];
    ex_mk 2 "CNOT" [AQ 0%Z; AQ 1%Z];
    ex_mk 3 "Rx" [AQ 1%Z; AF ex_half];
    ex_mk 4 "H" [AQ 1%Z];
    ex_mk 5 "CRk" [AQ 1%Z; AQ 0%Z; AI 3%Z];
    SMeasure 6 1%Z 0%Z ex_zaxis (mkGinfo (Some "measure") (Some [AQ 1%Z; AB 0%Z]));
    SReset 7 0%Z (mkGinfo (Some "reset") (Some [AQ 0%Z])) ].

Example ex_direct_are_gates : forallb (fun s => negb (is_comment s)) ex_direct = true.
Proof. reflexivity. Qed.

(* the calls as the builder and as the parser see them *)
Example ex_calls_builder :
  map (to_bcall (T:=dec)) ex_calls =
  [ BComment "bell";
    BInstr "H" [VQubitObj 0%Z];
    BInstr "CNOT" [VQubitObj 0%Z; VQubitObj 1%Z];
    BInstr "Rx" [VQubitObj 1%Z; VFloatObj ex_half];
    BInstr "Hadamard" [VQubitObj 1%Z];
    BInstr "CRk" [VQubitObj 1%Z; VQubitObj 0%Z; VInt 3%Z];
    BInstr "measure" [VQubitObj 1%Z; VBitObj 0%Z];
    BInstr "reset" [VQubitObj 0%Z] ].
Proof. reflexivity. Qed.

Example ex_calls_ast :
  (rt_vars 2 1, flat_map (to_ast (T:=dec)) ex_calls) =
  ([mkVar "q" VQubit 2; mkVar "b" VBit 1],
   [ mkAstmt "H" [OIndex "q" [0%Z]];
     mkAstmt "CNOT" [OIndex "q" [0%Z]; OIndex "q" [1%Z]];
     mkAstmt "Rx" [OIndex "q" [1%Z]; OFloat ex_half];
     mkAstmt "Hadamard" [OIndex "q" [1%Z]];
     mkAstmt "CRk" [OIndex "q" [1%Z]; OIndex "q" [0%Z]; OInt 3%Z];
     mkAstmt "measure" [OIndex "b" [0%Z]; OIndex "q" [1%Z]];
     mkAstmt "reset" [OIndex "q" [0%Z]] ]).
Proof. reflexivity. Qed.

(* the builder: every call accepted, the comment kept *)
Example ex_builder_result :
  builder_run decNum 2 1 ([], 1%positive) (map (to_bcall (T:=dec)) ex_calls)
  = ((SComment "bell" :: ex_direct, 8%positive), repeat None 8).
Proof. reflexivity. Qed.

(* the parser: the same statements *)
Example ex_parser_result :
  parse_program decNum (rt_vars 2 1) (flat_map (to_ast (T:=dec)) ex_calls) = Ok (2%Z, 1%Z, ex_direct).
Proof. reflexivity. Qed.

(* both, compared *)
Example ex_builder_equals_parser :
  match parse_program decNum (rt_vars 2 1) (flat_map (to_ast (T:=dec)) ex_calls) with
  | Ok (_, _, ir_p) =>
      strip_comments (fst (fst (builder_run decNum 2 1 ([], 1%positive) (map (to_bcall (T:=dec)) ex_calls)))) = ir_p
  | Err _ => False
  end.
Proof. vm_compute. reflexivity. Qed.

(* plain ints for the qubits ("CNOT(0, 1)"): the same builder result *)
Example ex_builder_ints :
  builder_run decNum 2 1 ([], 1%positive)
    [ BComment "bell"; BInstr "H" [VInt 0%Z]; BInstr "CNOT" [VInt 0%Z; VIntObj 1%Z];
      BInstr "Rx" [VInt 1%Z; VFloatObj ex_half]; BInstr "Hadamard" [VBool true];
      BInstr "CRk" [VInt 1%Z; VInt 0%Z; VInt 3%Z]; BInstr "measure" [VInt 1%Z; VBitObj 0%Z];
      BInstr "reset" [VInt 0%Z] ]
  = ((SComment "bell" :: ex_direct, 8%positive), repeat None 8).
Proof. reflexivity. Qed.

(* the hypotheses of the theorems hold for this program *)
Ltac comparable_tac :=
  cbn [fcomparable]; unfold comparable;
  split; [eexists; left; reflexivity|];
  split; [intros E; first [reflexivity|cbv in E; discriminate E]|];
  split; [reflexivity|];
  repeat (apply Forall_cons; [cbn [BuilderP.arg_ok]; unfold in_range; try lia; exact I|]); apply Forall_nil.
Lemma ex_calls_comparable : Forall (fcomparable 2 1) ex_calls.
Proof.
  unfold ex_calls. repeat (apply Forall_cons; [|]); try apply Forall_nil; try exact I; comparable_tac.
Qed.

(* the general theorems applied to the example *)
Example ex_by_theorem ir_b o_b log nq' nb' ir_p :
  builder_run decNum 2 1 ([], 1%positive) (map (to_bcall (T:=dec)) ex_calls) = ((ir_b, o_b), log) ->
  parse_program decNum (rt_vars 2 1) (flat_map (to_ast (T:=dec)) ex_calls) = Ok (nq', nb', ir_p) ->
  strip_comments ir_b = ir_p /\ same_modulo_oid (strip_comments ir_b) ir_p.
Proof.
  intros Hb Hp. split.
  - exact (program_agree_exact decNum 2 1 ex_calls ir_b o_b log nq' nb' ir_p ex_calls_comparable Hb Hp).
  - exact (proj1 (proj2 (program_agree decNum 2 1 ex_calls 1 ir_b o_b log nq' nb' ir_p ex_calls_comparable Hb Hp))).
Qed.

Example ex_accept_by_theorem :
  Forall (instr_accepted decNum 2 1) ex_calls.
Proof.
  apply (program_accept_iff decNum 2 1 ex_calls ex_calls_comparable).
  eexists. exact ex_parser_result.
Qed.

(* a refused call (control = target): ValueError from both; the builder goes
   on, the parser stops *)
Definition ex_calls_bad : list (fcall dec) :=
  [ FInstr "H" [AQ 0%Z]; FInstr "CNOT" [AQ 1%Z; AQ 1%Z]; FInstr "reset" [AQ 0%Z] ].

Example ex_bad_both :
  snd (builder_run decNum 2 1 ([], 1%positive) (map (to_bcall (T:=dec)) ex_calls_bad)) = [None; Some EValue; None] /\
  parse_program decNum (rt_vars 2 1) (flat_map (to_ast (T:=dec)) ex_calls_bad) = Err EValue /\
  direct decNum 1 "CNOT" [AQ 1%Z; AQ 1%Z] = Err EValue.
Proof. vm_compute. repeat split; reflexivity. Qed.

Lemma ex_calls_bad_comparable : Forall (fcomparable 2 1) ex_calls_bad.
Proof.
  unfold ex_calls_bad. repeat (apply Forall_cons; [|]); try apply Forall_nil; comparable_tac.
Qed.

Example ex_bad_by_theorem :
  ~ exists r, parse_program decNum (rt_vars 2 1) (flat_map (to_ast (T:=dec)) ex_calls_bad) = Ok r.
Proof.
  intros H.
  apply (program_accept_iff_log decNum 2 1 ex_calls_bad ([], 1%positive) _ _ ex_calls_bad_comparable
           (surjective_pairing _)) in H.
  rewrite (proj1 ex_bad_both) in H. unfold ex_calls_bad in H. inversion H as [|? ? ? ? _ H2]; subst. inversion H2 as [|? ? ? ? H3 _]; subst.
  discriminate (H3 eq_refl).
Qed.

Print Assumptions eval_call_direct.
Print Assumptions builder_equals_direct.
Print Assumptions direct_accepted_by_builder.
Print Assumptions builder_gate_equals_direct.
Print Assumptions builder_measure_equals_direct.
Print Assumptions builder_reset_equals_direct.
Print Assumptions builder_iff_direct.
Print Assumptions builder_step_conv_ext.
Print Assumptions builder_int_qubits.
Print Assumptions expand_request.
Print Assumptions parse_one_cases.
Print Assumptions parser_iff_direct.
Print Assumptions parser_equals_direct.
Print Assumptions parser_gate_equals_direct.
Print Assumptions builder_equals_parser.
Print Assumptions builder_equals_parser_modulo_oid.
Print Assumptions acceptance_coincides.
Print Assumptions refusals_coincide.
Print Assumptions typed_same_error.
Print Assumptions same_qubit_twice_refused_by_both.
Print Assumptions wrong_arity_refused_by_both.
Print Assumptions parse_one_error_kind.
Print Assumptions unknown_name_refused_by_both.
Print Assumptions out_of_range_only_builder_refuses.
Print Assumptions program_agree.
Print Assumptions program_agree_exact.
Print Assumptions program_agree_instructions.
Print Assumptions program_accept_iff.
Print Assumptions program_accept_iff_log.
Print Assumptions obs_out_of_range.
Print Assumptions obs_int_as_qubit.
Print Assumptions obs_no_qubit_operand.
Print Assumptions obs_reset_many.
Print Assumptions obs_error_kinds.
Print Assumptions builder_iff_parser_unconditional_refuted.
Print Assumptions ex_builder_equals_parser.
Print Assumptions ex_by_theorem.
Print Assumptions ex_bad_by_theorem.
