(* DecP.v — proofs about Model/Dec.v against the float-literal grammar of
   Theory/Lexer.v:
     render_fix_is_literal   the repaired writer only emits parseable literals
     render_unfixed_refuted  the unrepaired rendering does not ("1e-05")
     render_fix_value        the literal denotes the decimal it was made from *)
From Coq Require Import ZArith QArith Qpower List Bool String Ascii Lia.
From Coq Require Import Decimal DecimalString DecimalFacts DecimalPos.
Import ListNotations.
From OSQ Require Import Dec Lexer.
Open Scope string_scope.

(* ------------------------------------------------------------------ *)
(* well-formed decimals and their value                                 *)

Definition le9 (d : nat) : Prop := (d <= 9)%nat.

(* exactly 8 digits, each at most 9, the first one non-zero unless all are zero *)
Definition wf_dec (d : dec) : Prop :=
  match d with
  | DFin _ digits _ =>
      List.length digits = 8%nat /\ Forall le9 digits /\
      (hd 0%nat digits <> 0%nat \/ forallb (Nat.eqb 0) digits = true)
  | _ => True
  end.

Definition dec_finite (d : dec) : Prop :=
  match d with DFin _ _ _ => True | _ => False end.

(* Horner on a list of digits *)
Fixpoint dnum (acc : Z) (l : list nat) : Z :=
  match l with [] => acc | d :: l' => dnum (10 * acc + Z.of_nat d) l' end.

(* d0.d1...d(n-1) * 10^e  =  (d0 d1 ... d(n-1)) * 10^(e + 1 - n) *)
Definition dec_value (d : dec) : option Q :=
  match d with
  | DFin neg digits e =>
      let v := inject_Z (dnum 0 digits) * pow10 (e + 1 - Z.of_nat (List.length digits)) in
      Some (if neg then - v else v)
  | _ => None
  end.

Definition optQeq (a b : option Q) : Prop :=
  match a, b with
  | Some x, Some y => x == y
  | None, None => True
  | _, _ => False
  end.

(* ------------------------------------------------------------------ *)
(* digits and strings of digits                                         *)

Lemma digit_char_facts (d : nat) : le9 d ->
  is_digit (ascii_of_nat (48 + d)) = true /\
  digit_val (ascii_of_nat (48 + d)) = Z.of_nat d /\
  Ascii.eqb (ascii_of_nat (48 + d)) "e" = false /\
  Ascii.eqb (ascii_of_nat (48 + d)) "." = false.
Proof.
  intros H. unfold le9 in H.
  do 10 (destruct d as [|d]; [repeat split; reflexivity|]). lia.
Qed.

Lemma digits_string_app (a b : list nat) :
  digits_string (a ++ b)%list = digits_string a ++ digits_string b.
Proof.
  induction a as [|x a IH]; [reflexivity|].
  change (digit_char x ++ digits_string (a ++ b)%list = (digit_char x ++ digits_string a) ++ digits_string b).
  rewrite IH, sapp_assoc. reflexivity.
Qed.

Lemma zeros_repeat (n : nat) : zeros n = digits_string (repeat 0%nat n).
Proof. induction n as [|n IH]; cbn [zeros repeat digits_string]; [reflexivity | now rewrite IH]. Qed.

Lemma digits_string_all_digits (l : list nat) : Forall le9 l -> all_digits (digits_string l) = true.
Proof.
  induction 1 as [|d l Hd _ IH]; [reflexivity|].
  cbn [digits_string]. unfold digit_char. cbn [append all_digits].
  destruct (digit_char_facts d Hd) as (-> & _). exact IH.
Qed.

Lemma digits_string_length (l : list nat) : String.length (digits_string l) = List.length l.
Proof. induction l as [|d l IH]; cbn; [reflexivity | now rewrite IH]. Qed.

Lemma digits_string_val (l : list nat) : Forall le9 l ->
  forall acc, digits_val acc (digits_string l) = dnum acc l.
Proof.
  induction 1 as [|d l Hd _ IH]; intros acc; [reflexivity|].
  cbn [digits_string dnum]. unfold digit_char. cbn [append digits_val].
  destruct (digit_char_facts d Hd) as (_ & -> & _). apply IH.
Qed.

Lemma digits_string_nonempty (l : list nat) : l <> [] -> digits_string l <> "".
Proof. destruct l; [congruence|]. cbn. discriminate. Qed.

Lemma le9_0 : le9 0. Proof. unfold le9; lia. Qed.

Lemma Forall_le9_repeat0 (n : nat) : Forall le9 (repeat 0%nat n).
Proof. induction n; cbn; constructor; [apply le9_0 | assumption]. Qed.

(* Horner facts *)
Lemma dnum_app (acc : Z) (a b : list nat) : dnum acc (a ++ b) = dnum (dnum acc a) b.
Proof. revert acc. induction a as [|x a IH]; intros acc; cbn; [reflexivity | apply IH]. Qed.

Lemma dnum_repeat0 (acc : Z) (n : nat) : dnum acc (repeat 0%nat n) = (acc * 10 ^ Z.of_nat n)%Z.
Proof.
  revert acc. induction n as [|n IH]; intros acc.
  - cbn. lia.
  - cbn [repeat dnum]. rewrite IH, Nat2Z.inj_succ, Z.pow_succ_r by lia. cbn [Z.of_nat]. ring.
Qed.

Lemma dnum_zero_prefix (l : list nat) : dnum 0 (0%nat :: l) = dnum 0 l.
Proof. reflexivity. Qed.

Lemma dnum_all_zero (l : list nat) : forallb (Nat.eqb 0) l = true -> dnum 0 l = 0%Z.
Proof.
  induction l as [|d l IH]; [reflexivity|]. cbn [forallb]. intros H.
  apply andb_true_iff in H. destruct H as [Hd Hl]. apply Nat.eqb_eq in Hd. subst d.
  rewrite dnum_zero_prefix. auto.
Qed.

(* ------------------------------------------------------------------ *)
(* strip_trailing_zeros                                                 *)

Lemma strip_cons_nz (d : nat) (l : list nat) : d <> 0%nat ->
  strip_trailing_zeros (d :: l) = d :: strip_trailing_zeros l.
Proof.
  intros Hd. cbn [strip_trailing_zeros].
  destruct (strip_trailing_zeros l); [|reflexivity].
  destruct (Nat.eqb_spec d 0); [contradiction | reflexivity].
Qed.

Lemma strip_decomp (l : list nat) :
  exists m, l = (strip_trailing_zeros l ++ repeat 0%nat m)%list.
Proof.
  induction l as [|d l [m IH]].
  - exists 0%nat. reflexivity.
  - cbn [strip_trailing_zeros]. destruct (strip_trailing_zeros l) as [|x r] eqn:E.
    + destruct (Nat.eqb_spec d 0) as [-> | Hd].
      * exists (S m). cbn in IH. rewrite IH at 1. reflexivity.
      * exists m. cbn in IH. rewrite IH at 1. reflexivity.
    + exists m. rewrite IH at 1. reflexivity.
Qed.

Lemma strip_le9 (l : list nat) : Forall le9 l -> Forall le9 (strip_trailing_zeros l).
Proof.
  intros H. destruct (strip_decomp l) as [m Hm]. rewrite Hm in H.
  apply Forall_app in H. tauto.
Qed.

(* ------------------------------------------------------------------ *)
(* split_e, has_dot, fix_literal                                        *)

Fixpoint no_e (s : string) : bool :=
  match s with EmptyString => true | String c s' => negb (Ascii.eqb c "e") && no_e s' end.

Lemma no_e_app (a b : string) : no_e (a ++ b) = no_e a && no_e b.
Proof. induction a as [|c a IH]; cbn; [reflexivity | now rewrite IH, andb_assoc]. Qed.

Lemma split_e_no_e (s : string) : no_e s = true -> split_e s = (s, None).
Proof.
  induction s as [|c s IH]; [reflexivity|]. cbn [no_e split_e]. intros H.
  apply andb_true_iff in H. destruct H as [Hc Hs]. apply negb_true_iff in Hc.
  rewrite Hc, (IH Hs). reflexivity.
Qed.

Lemma split_e_app (a b : string) : no_e a = true -> split_e (a ++ "e" ++ b) = (a, Some b).
Proof.
  induction a as [|c a IH]; [reflexivity|]. cbn [no_e append split_e]. intros H.
  apply andb_true_iff in H. destruct H as [Hc Hs]. apply negb_true_iff in Hc.
  rewrite Hc. cbn [append] in IH. rewrite (IH Hs). reflexivity.
Qed.

Lemma fix_literal_no_e (s : string) : no_e s = true -> fix_literal s = s.
Proof. intros H. unfold fix_literal. now rewrite (split_e_no_e s H). Qed.

Lemma fix_literal_exp (m ex : string) : no_e m = true ->
  fix_literal (m ++ "e" ++ ex) = (if has_dot m then m else m ++ ".0") ++ "e" ++ ex.
Proof. intros H. unfold fix_literal. now rewrite (split_e_app m ex H). Qed.

Definition sign_str (neg : bool) : string := if neg then "-" else "".

Lemma fix_literal_sign (neg : bool) (s : string) :
  fix_literal (sign_str neg ++ s) = sign_str neg ++ fix_literal s.
Proof.
  destruct neg; [|reflexivity]. unfold fix_literal. cbn [sign_str append split_e].
  change (Ascii.eqb "-" "e") with false. cbv iota.
  destruct (split_e s) as [m [ex|]]; [|reflexivity].
  cbn [has_dot]. change (Ascii.eqb "-" ".") with false. cbn [orb].
  destruct (has_dot m); reflexivity.
Qed.

Lemma all_digits_no_e (s : string) : all_digits s = true -> no_e s = true.
Proof.
  induction s as [|c s IH]; [reflexivity|]. cbn [all_digits no_e]. intros H.
  apply andb_true_iff in H. destruct H as [Hc Hs]. rewrite (IH Hs), andb_true_r.
  apply negb_true_iff. destruct (Ascii.eqb c "e") eqn:E; [|reflexivity].
  apply Ascii.eqb_eq in E. subst c. discriminate.
Qed.

Lemma all_digits_no_dot (s : string) : all_digits s = true -> has_dot s = false.
Proof.
  induction s as [|c s IH]; [reflexivity|]. cbn [all_digits has_dot]. intros H.
  apply andb_true_iff in H. destruct H as [Hc Hs]. rewrite (IH Hs), orb_false_r.
  destruct (Ascii.eqb c ".") eqn:E; [|reflexivity].
  apply Ascii.eqb_eq in E. subst c. discriminate.
Qed.

Lemma has_dot_app (a b : string) : has_dot (a ++ b) = has_dot a || has_dot b.
Proof. induction a as [|c a IH]; cbn; [reflexivity | now rewrite IH, orb_assoc]. Qed.

(* ------------------------------------------------------------------ *)
(* string_of_Z on non-negative integers                                 *)

Lemma nilempty_all_digits (u : uint) : all_digits (NilEmpty.string_of_uint u) = true.
Proof. induction u; cbn; auto. Qed.

Lemma nilempty_val (u : uint) : forall acc,
  digits_val acc (NilEmpty.string_of_uint u) =
  (acc * 10 ^ Z.of_N (Unsigned.usize u) + Z.of_N (Unsigned.of_lu (rev u)))%Z.
Proof.
  induction u; intros acc; [cbn; lia | ..];
  (unfold rev at 1; cbn [revapp]; rewrite (Unsigned.of_lu_revapp u);
   cbn [NilEmpty.string_of_uint digits_val Unsigned.usize]; rewrite IHu;
   rewrite N2Z.inj_succ, Z.pow_succ_r by lia;
   rewrite N2Z.inj_add, N2Z.inj_mul, N2Z.inj_pow;
   match goal with |- context [digit_val ?c] =>
     let v := eval vm_compute in (digit_val c) in change (digit_val c) with v end;
   match goal with |- context [Z.of_N (Unsigned.of_lu (?f Nil))] =>
     let v := eval vm_compute in (Z.of_N (Unsigned.of_lu (f Nil))) in
     change (Z.of_N (Unsigned.of_lu (f Nil))) with v end;
   change (Z.of_N 10) with 10%Z; ring).
Qed.

Lemma string_of_Z_nonneg (a : Z) : (0 <= a)%Z ->
  all_digits (string_of_Z a) = true /\ string_of_Z a <> "" /\ digits_val 0 (string_of_Z a) = a.
Proof.
  intros Ha. destruct a as [|p|p]; [repeat split; discriminate | | lia].
  unfold string_of_Z, Z.to_int, NilZero.string_of_int, NilZero.string_of_uint.
  pose proof (Unsigned.of_to p) as Hp. rewrite Unsigned.of_uint_alt in Hp.
  destruct (Pos.to_uint p) as [|u|u|u|u|u|u|u|u|u|u] eqn:E;
    [ cbn in Hp; discriminate | .. ];
    (split; [apply nilempty_all_digits | split; [discriminate|]]);
    rewrite nilempty_val, Hp; reflexivity.
Qed.

Lemma two_digits_facts (e : Z) :
  digits1 (two_digits e) = true /\ digits_val 0 (two_digits e) = Z.abs e.
Proof.
  unfold two_digits. destruct (string_of_Z_nonneg (Z.abs e) (Z.abs_nonneg e)) as (Ha & Hn & Hv).
  destruct (Z.ltb (Z.abs e) 10).
  - split; [cbn; exact Ha | cbn [append digits_val]; exact Hv].
  - split; [|exact Hv]. unfold digits1. rewrite Ha, andb_true_r.
    destruct (string_of_Z (Z.abs e)); [congruence | reflexivity].
Qed.

(* ------------------------------------------------------------------ *)
(* the shape of the repaired rendering                                  *)

(* sign, integer digits, '.', fraction digits, exponent part *)
Definition lit (neg : bool) (IP FP : list nat) (ex : string) : string :=
  sign_str neg ++ digits_string IP ++ "." ++ digits_string FP ++ ex.

Definition exp_str (e : Z) : string :=
  "e" ++ (if Z.ltb e 0 then "-" else "+") ++ two_digits e.

Lemma exp_str_facts (e : Z) : is_opt_exp (exp_str e) = true /\ exp_val (exp_str e) = e.
Proof.
  destruct (two_digits_facts e) as (Hd & Hv). unfold exp_str.
  destruct (Z.ltb_spec e 0) as [He|He]; cbn [append is_opt_exp is_exp exp_val].
  - split; [cbn; exact Hd | cbn; rewrite Hv; lia].
  - split; [cbn; exact Hd | cbn; rewrite Hv; lia].
Qed.

Lemma value_of_stripped (digits ds : list nat) (m : nat) (e : Z) :
  digits = (ds ++ repeat 0%nat m)%list ->
  inject_Z (dnum 0 digits) * pow10 (e + 1 - Z.of_nat (List.length digits)) ==
  inject_Z (dnum 0 ds) * pow10 (e + 1 - Z.of_nat (List.length ds)).
Proof.
  intros ->. rewrite dnum_app, dnum_repeat0, app_length, repeat_length, Nat2Z.inj_add.
  replace (e + 1 - (Z.of_nat (List.length ds) + Z.of_nat m))%Z
    with ((e + 1 - Z.of_nat (List.length ds)) - Z.of_nat m)%Z by lia.
  apply pow10_scale.
Qed.

Definition in_fixed_range (e : Z) : bool := Z.leb (-4) e && Z.ltb e 7.

Lemma no_e_lit_body (IP FP : list nat) : Forall le9 IP -> Forall le9 FP ->
  no_e (digits_string IP ++ "." ++ digits_string FP) = true.
Proof.
  intros H1 H2. rewrite !no_e_app.
  rewrite (all_digits_no_e _ (digits_string_all_digits _ H1)).
  rewrite (all_digits_no_e _ (digits_string_all_digits _ H2)). reflexivity.
Qed.

Ltac split_and := repeat match goal with |- _ /\ _ => split end.

Theorem render_fix_shape (neg : bool) (digits : list nat) (e : Z) :
  wf_dec (DFin neg digits e) ->
  exists IP FP ex,
    fix_literal (render_py8 (DFin neg digits e)) = lit neg IP FP ex /\
    Forall le9 IP /\ Forall le9 FP /\ IP <> [] /\ FP <> [] /\
    is_opt_exp ex = true /\
    (ex = "" <-> (forallb (Nat.eqb 0) digits || in_fixed_range e) = true) /\
    inject_Z (dnum 0 (IP ++ FP)) * pow10 (exp_val ex - Z.of_nat (List.length FP)) ==
    inject_Z (dnum 0 digits) * pow10 (e + 1 - Z.of_nat (List.length digits)).
Proof.
  intros (Hlen & H9 & Hhd).
  cbn [render_py8]. fold (sign_str neg).
  assert (H0 : Forall le9 [0%nat]) by (constructor; [apply le9_0 | constructor]).
  destruct (forallb (Nat.eqb 0) digits) eqn:Hz.
  { (* zero *)
    exists [0%nat], [0%nat], "". split_and.
    - destruct neg; reflexivity.
    - exact H0.
    - exact H0.
    - discriminate.
    - discriminate.
    - reflexivity.
    - split; reflexivity.
    - rewrite (dnum_all_zero _ Hz). cbn [dnum app].
      change (inject_Z (10 * (10 * 0 + Z.of_nat 0) + Z.of_nat 0)) with (inject_Z 0).
      change (inject_Z 0) with 0%Q. rewrite !Qmult_0_l. reflexivity. }
  destruct Hhd as [Hhd | Hhd]; [|discriminate].
  destruct digits as [|d0 tl]; [discriminate|]. cbn [hd] in Hhd.
  rewrite (strip_cons_nz d0 tl Hhd).
  destruct (strip_decomp (d0 :: tl)) as [m Hm]. rewrite (strip_cons_nz d0 tl Hhd) in Hm.
  pose proof (strip_le9 _ H9) as Hds9. rewrite (strip_cons_nz d0 tl Hhd) in Hds9.
  set (rest := strip_trailing_zeros tl) in *.
  pose proof (value_of_stripped _ _ m e Hm) as Hval.
  set (ds := d0 :: rest) in *.
  cbn [orb]. fold (in_fixed_range e).
  destruct (in_fixed_range e) eqn:Hrange.
  - (* fixed notation *)
    destruct (Z.ltb_spec e 0) as [He|He].
    + (* 0.000ddd *)
      exists [0%nat], (repeat 0%nat (Z.to_nat (- e - 1)) ++ ds)%list, "".
      assert (HFP : Forall le9 (repeat 0%nat (Z.to_nat (- e - 1)) ++ ds)%list).
      { apply Forall_app. split; [apply Forall_le9_repeat0 | exact Hds9]. }
      split_and.
      * rewrite fix_literal_sign. unfold lit. f_equal.
        rewrite zeros_repeat, <- digits_string_app, sapp_nil_r.
        apply (fix_literal_no_e _ (no_e_lit_body [0%nat] _ H0 HFP)).
      * exact H0.
      * exact HFP.
      * discriminate.
      * unfold ds. destruct (repeat 0%nat (Z.to_nat (- e - 1))); discriminate.
      * reflexivity.
      * split; reflexivity.
      * rewrite Hval. rewrite (dnum_app 0 [0%nat]). change (dnum 0 [0%nat]) with 0%Z.
        rewrite dnum_app, dnum_repeat0.
        rewrite Z.mul_0_l, app_length, repeat_length. cbn [exp_val].
        replace (0 - Z.of_nat (Z.to_nat (- e - 1) + List.length ds))%Z
          with (e + 1 - Z.of_nat (List.length ds))%Z by lia.
        reflexivity.
    + (* ddd.ddd *)
      set (k := S (Z.to_nat e)).
      destruct (Nat.le_gt_cases (List.length ds) k) as [Hk|Hk].
      * (* all digits before the point *)
        rewrite (firstn_all2 ds Hk), (skipn_all2 ds Hk).
        exists (ds ++ repeat 0%nat (k - List.length ds))%list, [0%nat], "".
        assert (HIP : Forall le9 (ds ++ repeat 0%nat (k - List.length ds))%list).
        { apply Forall_app. split; [exact Hds9 | apply Forall_le9_repeat0]. }
        split_and.
        -- rewrite fix_literal_sign. unfold lit. f_equal.
           rewrite zeros_repeat, sapp_nil_r.
           rewrite <- (sapp_assoc (digits_string ds)), <- digits_string_app.
           apply (fix_literal_no_e _ (no_e_lit_body _ [0%nat] HIP H0)).
        -- exact HIP.
        -- exact H0.
        -- unfold ds. discriminate.
        -- discriminate.
        -- reflexivity.
        -- split; reflexivity.
        -- rewrite Hval. rewrite !dnum_app, dnum_repeat0. cbn [dnum exp_val List.length].
           replace (10 * (dnum 0 ds * 10 ^ Z.of_nat (k - List.length ds)) + Z.of_nat 0)%Z
             with (dnum 0 ds * 10 ^ Z.of_nat (S (k - List.length ds)))%Z
             by (rewrite Nat2Z.inj_succ, Z.pow_succ_r by lia; cbn [Z.of_nat]; ring).
           replace (0 - Z.of_nat 1)%Z
             with ((e + 1 - Z.of_nat (List.length ds)) - Z.of_nat (S (k - List.length ds)))%Z by lia.
           apply pow10_scale.
      * (* a fraction remains *)
        assert (Hfl : List.length (firstn k ds) = k) by (apply firstn_length_le; lia).
        rewrite Hfl, Nat.sub_diag. cbn [zeros].
        exists (firstn k ds), (skipn k ds), "".
        assert (Hsplit : (firstn k ds ++ skipn k ds)%list = ds) by apply firstn_skipn.
        assert (HIP : Forall le9 (firstn k ds)).
        { rewrite <- Hsplit in Hds9. apply Forall_app in Hds9. tauto. }
        assert (HFP : Forall le9 (skipn k ds)).
        { rewrite <- Hsplit in Hds9. apply Forall_app in Hds9. tauto. }
        assert (Hsl : List.length (skipn k ds) = (List.length ds - k)%nat) by apply skipn_length.
        assert (Hne : skipn k ds <> []).
        { intros E. rewrite E in Hsl. change (List.length (@nil nat)) with 0%nat in Hsl. lia. }
        split_and.
        -- rewrite fix_literal_sign. unfold lit. f_equal. rewrite sapp_nil_r.
           cbn [append].
           destruct (skipn k ds) as [|f fr] eqn:Efr; [congruence|].
           apply (fix_literal_no_e _ (no_e_lit_body _ _ HIP HFP)).
        -- exact HIP.
        -- exact HFP.
        -- intros E. rewrite E in Hfl. cbn in Hfl. unfold k in Hfl. discriminate.
        -- exact Hne.
        -- reflexivity.
        -- split; reflexivity.
        -- rewrite Hval, Hsplit, Hsl. cbn [exp_val].
           replace (0 - Z.of_nat (List.length ds - k))%Z
             with (e + 1 - Z.of_nat (List.length ds))%Z by lia.
           reflexivity.
  - (* exponent notation *)
    destruct (exp_str_facts e) as (Hex & Hev).
    assert (Hd0 : le9 d0) by (inversion Hds9; assumption).
    assert (Hrest : Forall le9 rest) by (inversion Hds9; assumption).
    change ("e" ++ (if (e <? 0)%Z then "-" else "+") ++ two_digits e) with (exp_str e).
    assert (Hexne : exp_str e <> "") by (unfold exp_str; cbn; discriminate).
    assert (HIP : Forall le9 [d0]) by (constructor; [exact Hd0 | constructor]).
    pose proof (digits_string_all_digits [d0] HIP) as Hd0s. cbn [digits_string] in Hd0s.
    rewrite sapp_nil_r in Hd0s.
    unfold ds in *. clearbody rest.
    destruct rest as [|r1 rest'].
    + (* one-digit mantissa: the repair adds ".0" *)
      exists [d0], [0%nat], (exp_str e). split_and.
      * rewrite fix_literal_sign. unfold lit. f_equal.
        unfold exp_str at 1. rewrite fix_literal_exp by (apply all_digits_no_e; exact Hd0s).
        rewrite (all_digits_no_dot _ Hd0s).
        cbn [digits_string]. rewrite !sapp_nil_r, !sapp_assoc. reflexivity.
      * exact HIP.
      * exact H0.
      * discriminate.
      * discriminate.
      * exact Hex.
      * split; [intros E; congruence | discriminate].
      * rewrite Hval, Hev. change ([d0] ++ [0%nat])%list with [d0; 0%nat].
        cbn [dnum List.length].
        replace (10 * (10 * 0 + Z.of_nat d0) + Z.of_nat 0)%Z
          with ((10 * 0 + Z.of_nat d0) * 10 ^ Z.of_nat 1)%Z
          by (change (10 ^ Z.of_nat 1)%Z with 10%Z; change (Z.of_nat 0) with 0%Z; ring).
        replace (e + 1 - Z.of_nat 1)%Z with e by lia.
        apply pow10_scale.
    + exists [d0], (r1 :: rest'), (exp_str e). split_and.
      * rewrite fix_literal_sign. unfold lit. f_equal.
        set (R := digits_string (r1 :: rest')).
        assert (HR : all_digits R = true) by (apply digits_string_all_digits; exact Hrest).
        unfold exp_str at 1.
        replace ((digit_char d0 ++ "." ++ R) ++ "e" ++ (if (e <? 0)%Z then "-" else "+") ++ two_digits e)
          with ((digit_char d0 ++ "." ++ R) ++ "e" ++ ((if (e <? 0)%Z then "-" else "+") ++ two_digits e))
          by reflexivity.
        rewrite fix_literal_exp.
        2:{ rewrite !no_e_app, (all_digits_no_e _ Hd0s), (all_digits_no_e _ HR). reflexivity. }
        rewrite !has_dot_app. cbn [has_dot]. rewrite Ascii.eqb_refl, orb_true_r.
        cbn [orb digits_string]. rewrite !sapp_nil_r, !sapp_assoc. reflexivity.
      * exact HIP.
      * exact Hrest.
      * discriminate.
      * discriminate.
      * exact Hex.
      * split; [intros E; congruence | discriminate].
      * rewrite Hval, Hev. change ([d0] ++ r1 :: rest')%list with (d0 :: r1 :: rest').
        cbn [List.length].
        replace (e - Z.of_nat (S (List.length rest')))%Z
          with (e + 1 - Z.of_nat (S (S (List.length rest'))))%Z by lia.
        reflexivity.
Qed.

(* ------------------------------------------------------------------ *)
(* main theorems                                                        *)

Lemma lit_is_literal (neg : bool) (IP FP : list nat) (ex : string) :
  Forall le9 IP -> Forall le9 FP -> IP <> [] -> is_opt_exp ex = true ->
  is_signed_float_literal (lit neg IP FP ex) = true.
Proof.
  intros H1 H2 Hne Hex.
  assert (HL : is_float_literal (digits_string IP ++ "." ++ digits_string FP ++ ex) = true).
  { apply is_float_literal_spec. constructor.
    - now apply digits_string_all_digits.
    - now apply digits_string_all_digits.
    - left. now apply digits_string_nonempty.
    - now apply is_opt_exp_spec. }
  unfold lit. destruct neg; cbn [sign_str].
  - now apply neg_float_is_signed_float.
  - now apply float_is_signed_float.
Qed.

(* the repaired writer only emits float literals the cQASM 3 lexer accepts, for every exponent *)
Theorem render_fix_is_literal (d : dec) :
  wf_dec d -> dec_finite d ->
  is_signed_float_literal (fix_literal (render_py8 d)) = true.
Proof.
  intros Hwf Hfin. destruct d as [| |neg digits e]; try contradiction.
  destruct (render_fix_shape neg digits e Hwf) as (IP & FP & ex & -> & H1 & H2 & Hn1 & _ & Hex & _).
  now apply lit_is_literal.
Qed.

(* without the repair it does not: 1.0000000e-5 is rendered "1e-05" *)
Theorem render_unfixed_refuted :
  exists d, wf_dec d /\ is_signed_float_literal (render_py8 d) = false.
Proof.
  exists (DFin false [1;0;0;0;0;0;0;0]%nat (-5)%Z). split; [|reflexivity].
  cbn. repeat split; auto. repeat constructor; unfold le9; lia.
Qed.

(* the statement with the decimal repaired holds for the same witness *)
Theorem render_unfixed_refuted_witness :
  let d := DFin false [1;0;0;0;0;0;0;0]%nat (-5)%Z in
  wf_dec d /\ dec_finite d /\ render_py8 d = "1e-05" /\
  is_signed_float_literal (render_py8 d) = false /\
  fix_literal (render_py8 d) = "1.0e-05" /\
  is_signed_float_literal (fix_literal (render_py8 d)) = true.
Proof.
  cbn zeta. split; [|repeat split; reflexivity].
  cbn. repeat split; auto. repeat constructor; unfold le9; lia.
Qed.

Example render_unfixed_text : render_py8 (DFin false [1;0;0;0;0;0;0;0]%nat (-5)%Z) = "1e-05".
Proof. reflexivity. Qed.
Example render_fixed_text : fix_literal (render_py8 (DFin false [1;0;0;0;0;0;0;0]%nat (-5)%Z)) = "1.0e-05".
Proof. reflexivity. Qed.

(* the repair is the identity on strings that already are literals *)
Lemma split_e_spec (s : string) :
  match split_e s with
  | (m, None) => s = m /\ no_e m = true
  | (m, Some ex) => s = m ++ "e" ++ ex /\ no_e m = true
  end.
Proof.
  induction s as [|c s IH]; cbn [split_e]; [auto|].
  destruct (Ascii.eqb c "e") eqn:E.
  - apply Ascii.eqb_eq in E. subst c. auto.
  - destruct (split_e s) as [m [ex|]]; destruct IH as (-> & Hm); cbn [no_e append]; rewrite E, Hm; auto.
Qed.

Lemma dot_before_e (a : string) : forall m x y,
  no_e m = true -> no_e a = true -> m ++ "e" ++ x = a ++ "." ++ y -> has_dot m = true.
Proof.
  induction a as [|c a IH]; intros m x y Hm Ha H.
  - destruct m as [|c' m']; cbn in H; [discriminate|]. inversion H; subst. reflexivity.
  - destruct m as [|c' m']; cbn [append] in H.
    + inversion H; subst. cbn in Ha. discriminate.
    + inversion H; subst. cbn [no_e] in Hm, Ha.
      apply andb_true_iff in Hm. apply andb_true_iff in Ha.
      cbn [has_dot]. rewrite (IH m' x y); [apply orb_true_r | tauto | tauto | assumption].
Qed.

Theorem fix_literal_id_on_literals (s : string) :
  is_signed_float_literal s = true -> fix_literal s = s.
Proof.
  intros H. unfold fix_literal. pose proof (split_e_spec s) as Hs.
  destruct (split_e s) as [m [ex|]]; destruct Hs as (-> & Hm); [|reflexivity].
  enough (has_dot m = true) as -> by reflexivity.
  apply is_signed_float_literal_spec in H.
  remember (m ++ "e" ++ ex) as s eqn:Es.
  destruct H as [H | (s' & Hs' & H)].
  - destruct H as [ip fp ex' Hip Hfp Hne Hex].
    apply (dot_before_e ip m ex (fp ++ ex') Hm (all_digits_no_e _ Hip)). symmetry. exact Es.
  - destruct H as [ip fp ex' Hip Hfp Hne Hex].
    apply (dot_before_e ("-" ++ ip) m ex (fp ++ ex') Hm).
    + cbn. apply (all_digits_no_e _ Hip).
    + rewrite <- Es, Hs'. now rewrite sapp_assoc.
Qed.

Lemma fix_literal_id_if_no_e (s : string) : no_e (fix_literal s) = true -> fix_literal s = s.
Proof.
  unfold fix_literal. pose proof (split_e_spec s) as Hs.
  destruct (split_e s) as [m [ex|]]; destruct Hs as (-> & Hm); [|reflexivity].
  rewrite !no_e_app. cbn. rewrite andb_false_r. discriminate.
Qed.

(* for well-formed decimals: the plain rendering is a literal iff the repair did nothing *)
Theorem render_unfixed_literal_iff_fix_id (d : dec) :
  wf_dec d -> dec_finite d ->
  (is_signed_float_literal (render_py8 d) = true <-> fix_literal (render_py8 d) = render_py8 d).
Proof.
  intros Hwf Hfin. split.
  - apply fix_literal_id_on_literals.
  - intros <-. now apply render_fix_is_literal.
Qed.

(* the unrepaired rendering fails exactly for one-digit mantissas in exponent notation *)
Theorem render_unfixed_literal_iff (neg : bool) (digits : list nat) (e : Z) :
  wf_dec (DFin neg digits e) ->
  (is_signed_float_literal (render_py8 (DFin neg digits e)) = false <->
   (forallb (Nat.eqb 0) digits = false /\ in_fixed_range e = false /\
    List.length (strip_trailing_zeros digits) = 1%nat)).
Proof.
  intros Hwf.
  rewrite <- not_true_iff_false, (render_unfixed_literal_iff_fix_id _ Hwf I).
  destruct (render_fix_shape neg digits e Hwf)
    as (IP & FP & ex & Heq & H1 & H2 & _ & _ & _ & Hex0 & _).
  destruct Hwf as (Hlen & H9 & Hhd).
  destruct (forallb (Nat.eqb 0) digits || in_fixed_range e) eqn:Hfixed.
  { (* zero or fixed notation: no 'e' at all *)
    assert (ex = "") as -> by (now apply Hex0).
    split.
    - intros Hbad. exfalso. apply Hbad. apply fix_literal_id_if_no_e. rewrite Heq.
      unfold lit. rewrite sapp_nil_r, no_e_app, (no_e_lit_body IP FP H1 H2).
      destruct neg; reflexivity.
    - intros (Ha & Hb & _). rewrite Ha, Hb in Hfixed. discriminate. }
  apply orb_false_iff in Hfixed. destruct Hfixed as (Hz & Hrange).
  clear Heq Hex0.
  cbn [render_py8]. fold (sign_str neg). rewrite Hz. fold (in_fixed_range e). rewrite Hrange.
  destruct Hhd as [Hhd | Hhd]; [|congruence].
  destruct digits as [|d0 tl]; [discriminate|]. cbn [hd] in Hhd.
  pose proof (strip_le9 _ H9) as Hds9.
  rewrite (strip_cons_nz d0 tl Hhd) in *.
  assert (Hd0 : le9 d0) by (inversion Hds9; assumption).
  assert (HIP : Forall le9 [d0]) by (constructor; [exact Hd0 | constructor]).
  pose proof (digits_string_all_digits [d0] HIP) as Hd0s. cbn [digits_string] in Hd0s.
  rewrite sapp_nil_r in Hd0s.
  rewrite fix_literal_sign.
  destruct (strip_trailing_zeros tl) as [|r1 rest'].
  - split; [intros _; auto|]. intros _.
    rewrite fix_literal_exp by (apply all_digits_no_e; exact Hd0s).
    rewrite (all_digits_no_dot _ Hd0s). intros Hbad.
    apply (f_equal String.length) in Hbad. rewrite !slength_app in Hbad. cbn in Hbad. lia.
  - split; [|intros (_ & _ & H); cbn in H; discriminate].
    intros Hbad. exfalso. apply Hbad. f_equal.
    assert (Hrest : Forall le9 (r1 :: rest')) by (inversion Hds9; assumption).
    set (R := digits_string (r1 :: rest')).
    assert (HR : all_digits R = true) by (apply digits_string_all_digits; exact Hrest).
    rewrite fix_literal_exp.
    2:{ rewrite !no_e_app, (all_digits_no_e _ Hd0s), (all_digits_no_e _ HR). reflexivity. }
    rewrite !has_dot_app. cbn [has_dot]. rewrite Ascii.eqb_refl, orb_true_r. reflexivity.
Qed.

(* the value of the emitted literal is the value of the decimal *)
Lemma lit_value (neg : bool) (IP FP : list nat) (ex : string) :
  Forall le9 IP -> Forall le9 FP -> IP <> [] -> is_opt_exp ex = true ->
  signed_literal_value (lit neg IP FP ex) =
  Some (let v := inject_Z (dnum 0 (IP ++ FP)) * pow10 (exp_val ex - Z.of_nat (List.length FP)) in
        if neg then - v else v).
Proof.
  intros H1 H2 Hne Hex.
  pose proof (digits_string_all_digits _ H1) as A1.
  pose proof (digits_string_all_digits _ H2) as A2.
  assert (HV : literal_value (digits_string IP ++ "." ++ digits_string FP ++ ex) =
               Some (inject_Z (dnum 0 (IP ++ FP)) * pow10 (exp_val ex - Z.of_nat (List.length FP)))).
  { rewrite (literal_value_parts _ _ _ A1 A2 (or_introl (digits_string_nonempty _ Hne)) Hex).
    rewrite <- digits_string_app, digits_string_length.
    rewrite digits_string_val by (apply Forall_app; split; assumption). reflexivity. }
  unfold lit. destruct neg; cbn [sign_str].
  - rewrite signed_literal_value_neg, HV. reflexivity.
  - change ("" ++ digits_string IP ++ "." ++ digits_string FP ++ ex)
      with (digits_string IP ++ "." ++ digits_string FP ++ ex).
    rewrite signed_literal_value_pos, HV; [reflexivity|].
    apply literal_value_some_iff. eexists; exact HV.
Qed.

Theorem render_fix_value (d : dec) :
  wf_dec d -> dec_finite d ->
  optQeq (signed_literal_value (fix_literal (render_py8 d))) (dec_value d).
Proof.
  intros Hwf Hfin. destruct d as [| |neg digits e]; try contradiction.
  destruct (render_fix_shape neg digits e Hwf)
    as (IP & FP & ex & -> & H1 & H2 & Hn1 & _ & Hex & _ & Hval).
  rewrite (lit_value neg IP FP ex H1 H2 Hn1 Hex). cbn [dec_value optQeq].
  destruct neg; [now rewrite Hval | exact Hval].
Qed.

(* inf and nan are not literals (the writer would emit text the parser refuses) *)
Lemma render_nonfinite_not_literal (d : dec) :
  ~ dec_finite d -> is_signed_float_literal (fix_literal (render_py8 d)) = false.
Proof. destruct d as [[|]| |]; cbn; intros H; try reflexivity. exfalso; auto. Qed.

Print Assumptions render_fix_shape.
Print Assumptions render_fix_is_literal.
Print Assumptions render_unfixed_refuted.
Print Assumptions fix_literal_id_on_literals.
Print Assumptions render_unfixed_literal_iff.
Print Assumptions render_fix_value.
