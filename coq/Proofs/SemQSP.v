(* SemQSP.v — C11, the whole-circuit statement for the quantify-scheduler
   exporter (Model/QSExport.v): executing the exported schedule does what the
   circuit does.

   1. the schedule operations are given a meaning [qsop_stmt] in the Kraus
      semantics of Theory/Kraus.v (degrees are converted back to radians);
      [kraus_ops n o ops] is the Kraus operator of a schedule.
   2. [export_qs_same_operation]: for the exporter with the 5-decimal rounding
      of the degrees idealised (instance [RNumX] of Proofs/ComposeP.v, where
      nround / nroundpy are the identity) and in the exact regime [exact_ir]
      (the tolerant tests of the exporter idealised: rotation axes are unit
      and exactly in the xy plane or exactly along z; a controlled target that
      the exporter recognises as X / Z is exactly X / Z; measurements are
      along z, the exporter drops the axis), for every assignment of
      measurement / reset outcomes the schedule denotes the Kraus operator of
      the circuit up to a global phase. [export_qs_defined_iff]: the schedule
      is executable for exactly the outcome assignments / registers for which
      the circuit is. Per gate: [export_gate_denotes]; the congruence:
      [kraus_pointwise_mequiv].
      Each of the three idealisations is necessary:
      [measure_axis_needed_refuted], [xy_tolerance_refuted],
      [ctrl_tolerance_refuted].
      [export_qs_effects], [export_qs_bookkeeping]: the non-unitary statements
      of the schedule are those of the circuit, in order, on the same qubits,
      consuming the same outcome numbers, with the acquisition index of
      [acq_index_spec].
   3. the rounding, bounded: [export_qs_rounding] (the real exporter, [RNum],
      produces the idealised schedule with every angle moved by at most 5e-6
      degrees), [qsop_close_operator] / [export_bsr_rounded_denotes] (each
      rotation operator is entry-wise within 1/6000000 of the exact one).
   4. [ex_*]: a concrete circuit satisfying every hypothesis. *)
From Coq Require Import String ZArith List Bool Lia.
Import ListNotations.
From OSQ Require Import Num IR Construct DefaultTable Check QSExport.
Open Scope list_scope.
From Coq Require Import Reals Lra.
From OSQ Require Import Matrix RTrig RNum SU2 ConstructP DefaultP MatrixP Kraus SemBaseP QSExportP
                        ABAP ComposeP RoundP.
Open Scope R_scope.

(* ------------------------------------------------------------------ *)
(** * 0. the idealised instance: only the rounding of the degrees changes *)

Lemma default_gate_X name args : default_gate RNumX name args = default_gate RNum name args.
Proof. reflexivity. Qed.

Lemma bsr_equals_default_X name t ax a p :
  bsr_equals_default RNumX name t ax a p = bsr_equals_default RNum name t ax a p.
Proof. reflexivity. Qed.

(* deg5 uses nroundpy, which RNumX makes the identity: the exact degrees *)
Lemma deg5_X x : deg5 RNumX x = x * (180 / PI).
Proof. reflexivity. Qed.

(* RNum rounds them to 5 decimals *)
Lemma deg5_R x : deg5 RNum x = Rround 5 (x * (180 / PI)).
Proof. reflexivity. Qed.

(* the three-way case split is the same at both instances *)
Lemma export_bsr_X q x y z angle :
  export_bsr RNumX q (x, y, z) angle =
  if Rlt_dec (Rabs z) (/ 10000000) then
    Ok (QRxy (angle * (180 / PI)) (atan2 y x * (180 / PI)) q)
  else if Rlt_dec (Rabs x) (/ 10000000) then
    if Rlt_dec (Rabs y) (/ 10000000) then
      Ok (QRz ((if Rlt_dec 0 z then angle else - angle) * (180 / PI)) q)
    else Err EExport
  else Err EExport.
Proof.
  rewrite export_bsr_unfold. change (atol RNumX) with (atol RNum). rewrite atol_RNum.
  unfold ax_x, ax_y, ax_z.
  cbn [fst snd nltb nabs natan2 nofZ nneg RNumX]. unfold Rltb. rewrite !deg5_X.
  destruct (Rlt_dec (Rabs z) (/ 10000000)); [reflexivity|].
  destruct (Rlt_dec (Rabs x) (/ 10000000)); destruct (Rlt_dec (Rabs y) (/ 10000000));
    cbn [andb]; try reflexivity.
  destruct (Rlt_dec 0 z); reflexivity.
Qed.

(* ------------------------------------------------------------------ *)
(** * 1. the meaning of a schedule *)

(* degrees to radians *)
Definition d2r (x : R) : R := x * (PI / 180).

Lemma d2r_deg x : d2r (x * (180 / PI)) = x.
Proof. unfold d2r. field. apply PI_neq0. Qed.

(* Rxy(theta, phi, q): rotation by theta about (cos phi, sin phi, 0); Rz(theta, q): rotation about z;
   CNOT / CZ: the controlled default-table X / Z (rotation by PI about x / z with phase PI/2);
   Measure: the z measurement (its record slot is the acquisition index); Reset: reset. *)
Definition qsop_stmt (op : qsop R) : stmt R :=
  match op with
  | QRxy theta phi q => SGate 1 (BSR q (cos (d2r phi), sin (d2r phi), 0) (d2r theta) 0) anon
  | QRz theta q => SGate 1 (BSR q (0, 0, 1) (d2r theta) 0) anon
  | QCNOT c t => SGate 1 (Ctrl c (BSR t (1, 0, 0) PI (PI / 2))) anon
  | QCZ c t => SGate 1 (Ctrl c (BSR t (0, 0, 1) PI (PI / 2))) anon
  | QMeasure q _ idx => SMeasure 1 q idx (0, 0, 1) anon
  | QReset q => SReset 1 q anon
  end.

Definition kraus_ops (n : Z) (o : nat -> bool) (ops : list (qsop R)) : result matR :=
  kraus n o (map qsop_stmt ops).

(* the two-qubit operations are the default-table gates *)
Lemma qsop_cnot_default c t g i :
  default_gate RNum "CNOT" [AQ c; AQ t] = Ok (g, i) -> qsop_stmt (QCNOT c t) = SGate 1 g anon.
Proof.
  rewrite CNOT_eval, X_bsr. destruct (Z.eq_dec c t) as [->|Hne].
  - rewrite mk_ctrl_bsr_same. discriminate.
  - rewrite mk_ctrl_bsr_ok by exact Hne. cbn [with_info]. intros H; inversion H; reflexivity.
Qed.

Lemma qsop_cz_default c t g i :
  default_gate RNum "CZ" [AQ c; AQ t] = Ok (g, i) -> qsop_stmt (QCZ c t) = SGate 1 g anon.
Proof.
  rewrite CZ_eval, Z_bsr. destruct (Z.eq_dec c t) as [->|Hne].
  - rewrite mk_ctrl_bsr_same. discriminate.
  - rewrite mk_ctrl_bsr_ok by exact Hne. cbn [with_info]. intros H; inversion H; reflexivity.
Qed.

(* and their operators on the register are the standard X / Z matrices on the target, controlled *)
Lemma qsop_cnot_target : can1 RNum (1, 0, 0) PI (PI / 2) = X_std.
Proof. exact X_can1. Qed.
Lemma qsop_cz_target : can1 RNum (0, 0, 1) PI (PI / 2) = Z_std.
Proof. exact Z_can1. Qed.

(* ------------------------------------------------------------------ *)
(** * 2. statement lists whose statements correspond pointwise *)

(* s' does what s does: same consumption of outcomes, and wherever s denotes an operator s' denotes the same
   operator up to a global phase *)
Definition stmt_sim (n : Z) (s s' : stmt R) : Prop :=
  forall o k,
    snd (stmt_op n o k s') = snd (stmt_op n o k s) /\
    match fst (stmt_op n o k s) with
    | Ok (Some M) => exists M', fst (stmt_op n o k s') = Ok (Some M') /\ mequiv M' M
    | Ok None => fst (stmt_op n o k s') = Ok None
    | Err _ => True
    end.

Lemma kraus_from_pointwise n o l l' :
  Forall2 (stmt_sim n) l l' ->
  forall k acc acc' A, mequiv acc' acc -> kraus_from n o k acc l = Ok A ->
    exists A', kraus_from n o k acc' l' = Ok A' /\ mequiv A' A.
Proof.
  induction 1 as [|s s' l l' Hs Hl IH]; intros k acc acc' A Hacc HA.
  - cbn [kraus_from] in *. injection HA as <-. exists acc'. split; [reflexivity | exact Hacc].
  - cbn [kraus_from] in *. destruct (Hs o k) as [Hk Hf].
    destruct (stmt_op n o k s) as [r k1]. destruct (stmt_op n o k s') as [r' k1'].
    cbn [fst snd] in Hk, Hf. subst k1'.
    destruct r as [[M|]|e]; [| |discriminate].
    + destruct Hf as [M' [-> HM]].
      apply (IH k1 (mmul RNum M acc) (mmul RNum M' acc') A); [|exact HA].
      apply mequiv_mmul; assumption.
    + subst r'. apply (IH k1 acc acc' A); assumption.
Qed.

(* statement lists of equal length whose i-th statements correspond have Kraus operators equal up to a
   global phase, for every assignment of outcomes *)
Theorem kraus_pointwise_mequiv n o l l' A :
  Forall2 (stmt_sim n) l l' -> kraus n o l = Ok A ->
  exists A', kraus n o l' = Ok A' /\ mequiv A' A.
Proof.
  intros H HA. unfold kraus in *.
  exact (kraus_from_pointwise n o l l' H 0%nat _ _ A (mequiv_refl _) HA).
Qed.

(* comments do nothing *)
Lemma kraus_from_code n o (ir : list (stmt R)) : forall k acc,
  kraus_from n o k acc (code ir) = kraus_from n o k acc ir.
Proof.
  induction ir as [|s ir IH]; intros k acc; [reflexivity|].
  unfold code in *. cbn [filter]. unfold non_comment at 1.
  destruct s as [oid g gi|oid q b ax gi|oid q gi|t]; cbn [is_comment negb kraus_from].
  - destruct (stmt_op n o k (SGate oid g gi)) as [[[M|]|e] k1]; auto.
  - destruct (stmt_op n o k (SMeasure oid q b ax gi)) as [[[M|]|e] k1]; auto.
  - destruct (stmt_op n o k (SReset oid q gi)) as [[[M|]|e] k1]; auto.
  - cbn [stmt_op]. apply IH.
Qed.

Lemma kraus_code n o (ir : list (stmt R)) : kraus n o (code ir) = kraus n o ir.
Proof. apply kraus_from_code. Qed.

(* ------------------------------------------------------------------ *)
(** * 3. one gate *)

Definition Xtarget : matR := can1 RNum (1, 0, 0) PI (PI / 2).
Definition Ztarget : matR := can1 RNum (0, 0, 1) PI (PI / 2).

(* the exact regime of the exporter's tolerant tests:
   - a rotation has a unit axis lying exactly in the xy plane or exactly along z
     (the exporter accepts |z| < 1e-7, resp. |x|, |y| < 1e-7);
   - a controlled rotation that BlochSphereRotation.__eq__ (tolerant) identifies with X (resp. Z)
     has exactly the operator of X (resp. Z). *)
Definition exact_gate (g : gate R) : Prop :=
  match g with
  | BSR _ ax _ _ => unit_axis ax /\ (ax_z ax = 0 \/ (ax_x ax = 0 /\ ax_y ax = 0))
  | Ctrl _ (BSR t ax a p) =>
      (bsr_equals_default RNumX "X" t ax a p = true -> can1 RNum ax a p = Xtarget) /\
      (bsr_equals_default RNumX "X" t ax a p = false ->
       bsr_equals_default RNumX "Z" t ax a p = true -> can1 RNum ax a p = Ztarget)
  | _ => True
  end.

(* the operator does not depend on the phase, up to a global phase *)
Lemma can1_mequiv_phase ax a p p' : mequiv (can1 RNum ax a p) (can1 RNum ax a p').
Proof.
  rewrite !can1_phase. fold (mscale (cis RNum p) (qmat (qrot ax a))).
  fold (mscale (cis RNum p') (qmat (qrot ax a))).
  apply (mequiv_trans _ (qmat (qrot ax a))).
  - apply mequiv_mscale, unit_c_cis.
  - apply mequiv_sym, mequiv_mscale, unit_c_cis.
Qed.

Lemma can1_neg_z a p : can1 RNum (0, 0, -1) a p = can1 RNum (0, 0, 1) (- a) p.
Proof.
  rewrite !can1_phase. f_equal. f_equal.
  replace (0, 0, -1) with (- 0, - 0, - (1)) by (repeat f_equal; lra).
  apply qrot_neg_axis.
Qed.

Lemma get_matrix_ctrl_target n c t ax a p ax' a' p' :
  can1 RNum ax a p = can1 RNum ax' a' p' ->
  get_matrix RNum n (Ctrl c (BSR t ax a p)) = get_matrix RNum n (Ctrl c (BSR t ax' a' p')).
Proof. intros H. cbn [get_matrix]. rewrite H. reflexivity. Qed.

(* per gate: the exported operation denotes the gate's operator on the register, up to a global phase *)
Theorem export_gate_denotes n g op A :
  export_gate RNumX g = Ok op -> exact_gate g -> get_matrix RNum n g = Ok A ->
  exists g' B, qsop_stmt op = SGate 1 g' anon /\ get_matrix RNum n g' = Ok B /\ mequiv B A.
Proof.
  intros He Hx HA. destruct g as [q ax a p|c g1|m ops]; cbn [export_gate] in He; [| |discriminate].
  - (* rotation *)
    destruct ax as [[x y] z]. destruct Hx as [Hu Hplane].
    unfold unit_axis, ax_x, ax_y, ax_z in Hu, Hplane. cbn [fst snd] in Hu, Hplane.
    rewrite get_matrix_bsr_embed1 in HA. apply embed1_ok_lift1 in HA. destruct HA as [Hq ->].
    rewrite export_bsr_X in He.
    destruct (Rlt_dec (Rabs z) (/ 10000000)) as [Hz|Hz].
    + (* Rxy *)
      assert (Hz0 : z = 0).
      { destruct Hplane as [Hz0|[Hx0 Hy0]]; [exact Hz0|]. subst x y.
        exfalso. assert (Hzz : z * z = 1) by lra. revert Hz. unfold Rabs. destruct (Rcase_abs z); nra. }
      subst z. assert (Hxy : x * x + y * y = 1) by lra.
      injection He as <-. cbn [qsop_stmt]. rewrite !d2r_deg, (rxy_axis x y Hxy).
      eexists. eexists. split; [reflexivity|]. split.
      * apply get_matrix_bsr_lift1. exact Hq.
      * apply lift1_mequiv; [apply shape_can1 | apply can1_mequiv_phase].
    + destruct (Rlt_dec (Rabs x) (/ 10000000)) as [Hx1|Hx1]; [|discriminate].
      destruct (Rlt_dec (Rabs y) (/ 10000000)) as [Hy1|Hy1]; [|discriminate].
      (* Rz *)
      assert (Hxy0 : x = 0 /\ y = 0).
      { destruct Hplane as [Hz0|H0]; [|exact H0]. exfalso. apply Hz. rewrite Hz0, Rabs_R0. lra. }
      destruct Hxy0 as [-> ->]. assert (Hzz : z * z = 1) by lra.
      injection He as <-. cbn [qsop_stmt]. rewrite d2r_deg.
      eexists. eexists. split; [reflexivity|]. split.
      * apply get_matrix_bsr_lift1. exact Hq.
      * apply lift1_mequiv; [apply shape_can1|].
        destruct (Rlt_dec 0 z) as [Hpos|Hneg].
        -- assert (z = 1) by nra. subst z. apply can1_mequiv_phase.
        -- assert (z = -1) by nra. subst z. rewrite can1_neg_z. apply can1_mequiv_phase.
  - (* controlled *)
    destruct g1 as [t ax a p|c' g2|m ops]; try discriminate.
    cbn [exact_gate] in Hx. destruct Hx as [HX HZ].
    destruct (bsr_equals_default RNumX "X" t ax a p) eqn:EX.
    + injection He as <-. cbn [qsop_stmt]. eexists. exists A. split; [reflexivity|].
      split; [|apply mequiv_refl].
      rewrite <- HA. symmetry. apply get_matrix_ctrl_target. exact (HX eq_refl).
    + destruct (bsr_equals_default RNumX "Z" t ax a p) eqn:EZ; [|discriminate].
      injection He as <-. cbn [qsop_stmt]. eexists. exists A. split; [reflexivity|].
      split; [|apply mequiv_refl].
      rewrite <- HA. symmetry. apply get_matrix_ctrl_target. exact (HZ eq_refl eq_refl).
Qed.

(* ------------------------------------------------------------------ *)
(** * 4. one statement, then the circuit *)

(* gates in the exact regime; measurements along z (the exporter drops the axis) *)
Definition exact_stmt (s : stmt R) : Prop :=
  match s with
  | SGate _ g _ => exact_gate g
  | SMeasure _ _ _ ax _ => ax = (0, 0, 1)
  | _ => True
  end.
Definition exact_ir (ir : list (stmt R)) : Prop := Forall exact_stmt ir.

(* a gate is exported as a gate operation *)
Lemma export_gate_kind {T} (N : Num T) g op :
  export_gate N g = Ok op ->
  match op with QMeasure _ _ _ | QReset _ => False | _ => True end.
Proof.
  destruct g as [q ax a p|c g1|m ops]; cbn [export_gate]; [| |discriminate].
  - rewrite export_bsr_unfold.
    destruct (nltb N (nabs N (ax_z ax)) (atol N)); [intros H; injection H as <-; exact I|].
    destruct (nltb N (nabs N (ax_x ax)) (atol N) && nltb N (nabs N (ax_y ax)) (atol N));
      [intros H; injection H as <-; exact I | discriminate].
  - destruct g1 as [t ax a p|c' g2|m ops]; try discriminate.
    destruct (bsr_equals_default N "X" t ax a p); [intros H; injection H as <-; exact I|].
    destruct (bsr_equals_default N "Z" t ax a p); [intros H; injection H as <-; exact I | discriminate].
Qed.

Lemma exported_stmt_sim n s op :
  exported RNumX s op -> exact_stmt s -> stmt_sim n s (qsop_stmt op).
Proof.
  intros He Hx o k. destruct He as [oid g gi op He|oid q b ax gi idx|oid q gi].
  - cbn [exact_stmt] in Hx. cbn [stmt_op fst snd].
    destruct (get_matrix RNum n g) as [A|e] eqn:EA.
    + destruct (export_gate_denotes n g op A He Hx EA) as [g' [B [-> [HB HBA]]]].
      cbn [stmt_op fst snd]. rewrite HB. split; [reflexivity|]. exists B. split; [reflexivity | exact HBA].
    + split; [|exact I].
      pose proof (export_gate_kind RNumX g op He) as Hk.
      destruct op; try contradiction; reflexivity.
  - cbn [exact_stmt] in Hx. subst ax. cbn [qsop_stmt stmt_op fst snd]. split; [reflexivity|].
    destruct (embed1 n q (proj_axis (0, 0, 1) (o k))) as [P|e]; [|exact I].
    exists P. split; [reflexivity | apply mequiv_refl].
  - cbn [qsop_stmt stmt_op fst snd]. split; [reflexivity|].
    destruct (embed1 n q (reset_op (o k))) as [P|e]; [|exact I].
    exists P. split; [reflexivity | apply mequiv_refl].
Qed.

Lemma exact_ir_code ir : exact_ir ir -> exact_ir (code ir).
Proof.
  unfold exact_ir, code. rewrite !Forall_forall. intros H s Hs. apply filter_In in Hs. apply H, Hs.
Qed.

Lemma exported_all_sim n l ops :
  Forall2 (exported RNumX) l ops -> exact_ir l -> Forall2 (stmt_sim n) l (map qsop_stmt ops).
Proof.
  induction 1 as [|s op l ops Hs Hl IH]; intros Hx; cbn [map]; constructor.
  - apply exported_stmt_sim; [exact Hs | exact (Forall_inv Hx)].
  - apply IH. exact (Forall_inv_tail Hx).
Qed.

(* THE THEOREM: for every assignment of measurement / reset outcomes, executing the exported schedule
   applies the Kraus operator of the circuit, up to a global phase *)
Theorem export_qs_same_operation nq nb ir ops bm :
  export_qs RNumX nq nb ir = Ok (ops, bm) -> exact_ir ir ->
  forall o K, kraus nq o ir = Ok K ->
    exists K', kraus_ops nq o ops = Ok K' /\ mequiv K' K.
Proof.
  intros He Hx o K HK. apply export_one_per_stmt in He. destruct He as [Hf _].
  rewrite <- kraus_code in HK. unfold kraus_ops.
  apply (kraus_pointwise_mequiv nq o (code ir) (map qsop_stmt ops) K); [|exact HK].
  apply exported_all_sim; [exact Hf | apply exact_ir_code; exact Hx].
Qed.

(* the other direction of definedness: the schedule refuses (qubit out of the register) only where the
   circuit does *)
Lemma exported_stmt_err n s op o k e :
  exported RNumX s op -> fst (stmt_op n o k s) = Err e -> exists e', fst (stmt_op n o k (qsop_stmt op)) = Err e'.
Proof.
  intros He HE. destruct He as [oid g gi op He|oid q b ax gi idx|oid q gi].
  - cbn [stmt_op fst] in HE. destruct (get_matrix RNum n g) as [A|e0] eqn:EA; [discriminate|].
    destruct g as [q ax a p|c g1|m ops]; cbn [export_gate] in He; [| |discriminate].
    + rewrite get_matrix_bsr_embed1 in EA.
      unfold export_bsr in He.
      destruct (nltb RNumX (nabs RNumX (ax_z ax)) (atol RNumX)).
      * injection He as <-. cbn [qsop_stmt stmt_op fst]. rewrite get_matrix_bsr_embed1.
        rewrite (embed1_err _ _ _ _ _ EA). eauto.
      * destruct (nltb RNumX (nabs RNumX (ax_x ax)) (atol RNumX) && nltb RNumX (nabs RNumX (ax_y ax)) (atol RNumX));
          [|discriminate].
        injection He as <-. cbn [qsop_stmt stmt_op fst]. rewrite get_matrix_bsr_embed1.
        rewrite (embed1_err _ _ _ _ _ EA). eauto.
    + destruct g1 as [t ax a p|c' g2|m ops]; try discriminate.
      assert (Hgen : forall ax' a' p', exists e', get_matrix RNum n (Ctrl c (BSR t ax' a' p')) = Err e').
      { intros ax' a' p'. cbn [get_matrix] in EA |- *.
        destruct (Z.geb c n); [eauto|].
        change (if Z.geb t n then Err EIndex else if Z.ltb t 0 then Err EValue
                else Ok (kron RNum (kron RNum (eye RNum (zpow2 (n - t - 1))) (can1 RNum ax a p)) (eye RNum (zpow2 t))))
          with (embed1 n t (can1 RNum ax a p)) in EA.
        change (if Z.geb t n then Err EIndex else if Z.ltb t 0 then Err EValue
                else Ok (kron RNum (kron RNum (eye RNum (zpow2 (n - t - 1))) (can1 RNum ax' a' p')) (eye RNum (zpow2 t))))
          with (embed1 n t (can1 RNum ax' a' p')).
        destruct (embed1 n t (can1 RNum ax a p)) as [M|e1] eqn:EM.
        - apply embed1_ok_lift1 in EM. destruct EM as [Ht _]. rewrite (embed1_lift1 n t _ Ht).
          destruct (Z.ltb c 0); [eauto | discriminate].
        - rewrite (embed1_err _ _ _ _ _ EM). eauto. }
      destruct (bsr_equals_default RNumX "X" t ax a p).
      * injection He as <-. cbn [qsop_stmt stmt_op fst].
        destruct (Hgen (1, 0, 0) PI (PI / 2)) as [e' ->]. eauto.
      * destruct (bsr_equals_default RNumX "Z" t ax a p); [|discriminate].
        injection He as <-. cbn [qsop_stmt stmt_op fst].
        destruct (Hgen (0, 0, 1) PI (PI / 2)) as [e' ->]. eauto.
  - cbn [stmt_op fst] in HE. cbn [qsop_stmt stmt_op fst].
    destruct (embed1 n q (proj_axis ax (o k))) as [P|e0] eqn:EP; [discriminate|].
    rewrite (embed1_err _ _ _ _ _ EP). eauto.
  - cbn [stmt_op fst] in HE. cbn [qsop_stmt stmt_op fst]. rewrite HE. eauto.
Qed.

(* ------------------------------------------------------------------ *)
(** * 4b. definedness: the schedule is executable exactly when the circuit is *)

Definition stmt_errsim (n : Z) (s s' : stmt R) : Prop :=
  forall o k,
    snd (stmt_op n o k s') = snd (stmt_op n o k s) /\
    forall e, fst (stmt_op n o k s) = Err e -> exists e', fst (stmt_op n o k s') = Err e'.

Lemma exported_stmt_errsim n s op : exported RNumX s op -> stmt_errsim n s (qsop_stmt op).
Proof.
  intros He o k. split; [|intros e; apply exported_stmt_err; exact He].
  destruct He as [oid g gi op He|oid q b ax gi idx|oid q gi]; try reflexivity.
  pose proof (export_gate_kind RNumX g op He) as Hk.
  destruct op; try contradiction; reflexivity.
Qed.

Lemma kraus_from_err_pointwise n o l l' :
  Forall2 (stmt_errsim n) l l' ->
  forall k acc acc' e, kraus_from n o k acc l = Err e -> exists e', kraus_from n o k acc' l' = Err e'.
Proof.
  induction 1 as [|s s' l l' Hs Hl IH]; intros k acc acc' e HE; [discriminate|].
  cbn [kraus_from] in *. destruct (Hs o k) as [Hk Hf].
  destruct (stmt_op n o k s) as [r k1]. destruct (stmt_op n o k s') as [r' k1'].
  cbn [fst snd] in Hk, Hf. subst k1'.
  destruct r as [[M|]|e0].
  - destruct r' as [[M'|]|e0']; [| |eauto]; eapply IH; exact HE.
  - destruct r' as [[M'|]|e0']; [| |eauto]; eapply IH; exact HE.
  - destruct (Hf e0 eq_refl) as [e' ->]. eauto.
Qed.

Theorem export_qs_defined_iff nq nb ir ops bm :
  export_qs RNumX nq nb ir = Ok (ops, bm) -> exact_ir ir ->
  forall o, (exists K, kraus nq o ir = Ok K) <-> (exists K', kraus_ops nq o ops = Ok K').
Proof.
  intros He Hx o. split.
  - intros [K HK]. destruct (export_qs_same_operation _ _ _ _ _ He Hx o K HK) as [K' [HK' _]]. eauto.
  - intros [K' HK']. destruct (kraus nq o ir) as [K|e] eqn:EK; [eauto|]. exfalso.
    apply export_one_per_stmt in He. destruct He as [Hf _].
    rewrite <- kraus_code in EK. unfold kraus_ops, kraus in *.
    assert (Hsim : Forall2 (stmt_errsim nq) (code ir) (map qsop_stmt ops)).
    { clear -Hf. induction Hf as [|s op l ops' Hs Hl IH]; cbn [map]; constructor;
        [apply exported_stmt_errsim; exact Hs | exact IH]. }
    destruct (kraus_from_err_pointwise nq o _ _ Hsim _ _ (eye RNum (zpow2 nq)) _ EK) as [e' He'].
    rewrite He' in HK'. discriminate.
Qed.

(* ------------------------------------------------------------------ *)
(** * 5. the bookkeeping half *)

(* an effect without its classical bit (the schedule has acquisition indices instead; the bit map of
   [bitmap_last_write] ties the two) *)
Definition eff_site (e : effect) : bool * Z * axis3 R :=
  match e with
  | EMeasure q _ ax => (true, q, ax)
  | EReset q => (false, q, (0, 0, 0))
  end.

Lemma exported_effects s op :
  exported RNumX s op -> exact_stmt s ->
  map eff_site (effects [qsop_stmt op]) = map eff_site (effects [s]) /\
  nonunitary [qsop_stmt op] = nonunitary [s].
Proof.
  intros He Hx. destruct He as [oid g gi op He|oid q b ax gi idx|oid q gi].
  - pose proof (export_gate_kind RNumX g op He) as Hk.
    destruct op; try contradiction; split; reflexivity.
  - cbn [exact_stmt] in Hx. subst ax. split; reflexivity.
  - split; reflexivity.
Qed.

Lemma exported_all_effects l ops :
  Forall2 (exported RNumX) l ops -> exact_ir l ->
  map eff_site (effects (map qsop_stmt ops)) = map eff_site (effects l) /\
  nonunitary (map qsop_stmt ops) = nonunitary l.
Proof.
  induction 1 as [|s op l ops Hs Hl IH]; intros Hx; [split; reflexivity|].
  destruct (IH (Forall_inv_tail Hx)) as [IH1 IH2].
  destruct (exported_effects s op Hs (Forall_inv Hx)) as [H1 H2].
  cbn [map]. change (qsop_stmt op :: map qsop_stmt ops) with ([qsop_stmt op] ++ map qsop_stmt ops).
  change (s :: l) with ([s] ++ l).
  rewrite !effects_app, !map_app, !nonunitary_app, H1, H2, IH1, IH2. split; reflexivity.
Qed.

Lemma effects_code (ir : list (stmt R)) : effects (code ir) = effects ir.
Proof.
  induction ir as [|s ir IH]; [reflexivity|].
  unfold code in *. cbn [filter]. unfold non_comment at 1.
  destruct s; cbn [is_comment negb effects]; rewrite ?IH; reflexivity.
Qed.

Lemma nonunitary_code (ir : list (stmt R)) : nonunitary (code ir) = nonunitary ir.
Proof. rewrite <- !length_effects, effects_code. reflexivity. Qed.

(* the measurements and resets of the schedule are those of the circuit: same kind, same qubit, same
   axis, in the same order (so the k-th outcome of the schedule is the k-th outcome of the circuit, which is
   what [export_qs_same_operation] uses) *)
Theorem export_qs_effects nq nb ir ops bm :
  export_qs RNumX nq nb ir = Ok (ops, bm) -> exact_ir ir ->
  map eff_site (effects (map qsop_stmt ops)) = map eff_site (effects ir).
Proof.
  intros He Hx. apply export_one_per_stmt in He. destruct He as [Hf _].
  destruct (exported_all_effects _ _ Hf (exact_ir_code _ Hx)) as [H _].
  rewrite H, effects_code. reflexivity.
Qed.

(* the measurement statement standing after [pre], which consumes outcome number [nonunitary pre] of the
   circuit, is the operation at position [length (code pre)] of the schedule, consumes the same outcome
   number there, and carries acq_channel = q and acq_index = number of earlier measurements of q
   ([acq_index_spec], reused) *)
Theorem export_qs_bookkeeping nq nb pre oid q b ax gi post ops bm :
  export_qs RNumX nq nb (pre ++ SMeasure oid q b ax gi :: post) = Ok (ops, bm) ->
  exact_ir pre -> (0 <= q < nq)%Z -> qubits_nonneg pre ->
  exists ops1 ops2,
    ops = ops1 ++ QMeasure q q (earlier_meas q pre) :: ops2 /\
    length ops1 = length (code pre) /\ length ops2 = length (code post) /\
    nonunitary (map qsop_stmt ops1) = nonunitary pre /\
    nth_error (map qsop_stmt ops) (length (code pre)) =
      Some (SMeasure 1 q (earlier_meas q pre) (0, 0, 1) anon).
Proof.
  intros He Hx Hq Hn.
  pose proof (acq_index_spec RNumX _ _ _ _ _ _ _ _ _ _ _ He Hq Hn) as Hacq.
  apply export_measure_at in He.
  destruct He as [sl [bi [ops1 [ops2 [_ [_ [-> [Hf1 Hf2]]]]]]]].
  pose proof (Forall2_len _ _ _ Hf1) as L1. pose proof (Forall2_len _ _ _ Hf2) as L2.
  rewrite L1, nth_error_app2, Nat.sub_diag in Hacq by lia. cbn [nth_error] in Hacq.
  injection Hacq as Hidx.
  exists ops1, ops2. rewrite Hidx. repeat split; try (symmetry; assumption).
  - destruct (exported_all_effects _ _ Hf1 (exact_ir_code _ Hx)) as [_ H].
    rewrite H. apply nonunitary_code.
  - rewrite map_app, L1, nth_error_app2 by (rewrite map_length; lia).
    rewrite map_length, Nat.sub_diag. reflexivity.
Qed.

(* ------------------------------------------------------------------ *)
(** * 6. each idealisation is necessary *)

Lemma kraus_single n o s M : fst (stmt_op n o 0 s) = Ok (Some M) -> kraus n o [s] = Ok M.
Proof.
  intros H. unfold kraus. rewrite kraus_from_cons, H. cbn [kraus_from]. f_equal.
  apply (mmul_eye_r (zpow2 n) (zpow2 n) M (zpow2_pos n)). exact (stmt_op_wf _ _ _ _ _ H).
Qed.

(* a one-qubit register: the lifted operator is the operator *)
Lemma lift1_1_0 (a b c d : CR) : lift1 1 0 [[a; b]; [c; d]] = [[a; b]; [c; d]].
Proof.
  unfold lift1.
  cbn [kron flat_map map app eye seq unit_row zpow2 Z.sub Z.to_nat Nat.pow Z.add Z.opp Z.pos_sub
       Nat.mul Nat.add Nat.eqb].
  change (Num.c1 RNum) with (cone RNum).
  rewrite !cmulR_1_l, !cmulR_1_r. reflexivity.
Qed.

Lemma unit_c_nonzero z : unit_c z -> z <> (0, 0).
Proof. intros H E. subst z. unfold unit_c in H. cbn [fst snd] in H. lra. Qed.

(* a scalar that maps a nonzero entry to zero is zero *)
Lemma cmul_zero_inv (z w : CR) : cmul RNum z w = (0, 0) -> w <> (0, 0) -> z = (0, 0).
Proof.
  destruct z as [a b], w as [c d]. unfold cmul. rnum_cbn. intros H Hw. injection H as H1 H2.
  assert (Hcd : c * c + d * d <> 0).
  { intros E. apply Hw. destruct (Rplus_sqr_eq_0 c d E) as [-> ->]. reflexivity. }
  assert (Ha : a * (c * c + d * d) = 0).
  { replace (a * (c * c + d * d)) with (c * (a * c - b * d) + d * (a * d + b * c)) by ring.
    rewrite H1, H2. ring. }
  assert (Hb : b * (c * c + d * d) = 0).
  { replace (b * (c * c + d * d)) with (c * (a * d + b * c) - d * (a * c - b * d)) by ring.
    rewrite H1, H2. ring. }
  apply Rmult_integral in Ha. apply Rmult_integral in Hb.
  destruct Ha as [->|Ha]; [|contradiction]. destruct Hb as [->|Hb]; [|contradiction]. reflexivity.
Qed.

Lemma not_mequiv_entry (A B : matR) r c :
  mget RNum A r c = (0, 0) -> mget RNum B r c <> (0, 0) -> ~ mequiv A B.
Proof.
  intros HA HB [z [Hz E]]. rewrite E, mget_mscale in HA.
  apply (unit_c_nonzero z Hz). exact (cmul_zero_inv _ _ HA HB).
Qed.

(* (a) a measurement along another axis is exported as the same Measure *)
Theorem measure_axis_needed_refuted :
  exists nq nb ir ops bm o K,
    export_qs RNumX nq nb ir = Ok (ops, bm) /\ kraus nq o ir = Ok K /\
    ~ exists K', kraus_ops nq o ops = Ok K' /\ mequiv K' K.
Proof.
  exists 1%Z, 1%Z, [SMeasure 1 0 0 (1, 0, 0) anon], [QMeasure 0 0 0], [Some (0, 0)%Z], (fun _ => false).
  eexists. split; [reflexivity|]. split.
  - apply kraus_single. cbn [stmt_op fst]. rewrite embed1_lift1 by lia. reflexivity.
  - intros [K' [HK' Heq]]. unfold kraus_ops in HK'. cbn [map qsop_stmt] in HK'.
    rewrite (kraus_single 1 _ _ (lift1 1 0 (proj_axis (0, 0, 1) false))) in HK'
      by (cbn [stmt_op fst]; rewrite embed1_lift1 by lia; reflexivity).
    injection HK' as <-. revert Heq. unfold proj_axis. rewrite !lift1_1_0.
    apply (not_mequiv_entry _ _ 1 1); unfold mget, ax_x, ax_y, ax_z; cbn [nth fst snd].
    + apply pair_eq; lra.
    + intros E. injection E as E1. lra.
Qed.

(* (b) a unit axis tilted out of the xy plane by less than the exporter's tolerance: accepted, exported as an
   Rxy about an axis IN the plane, which is another operator *)
Definition tilt_c : R := 200000000 / 10000000000000001.
Definition tilt_a : R := 9999999999999999 / 10000000000000001.

Lemma tilt_unit : unit_axis (tilt_a, 0, tilt_c).
Proof. unfold unit_axis, ax_x, ax_y, ax_z, tilt_a, tilt_c. cbn [fst snd]. field. Qed.

Lemma can1_00_half_turn_plane nx ny : mget RNum (can1 RNum (nx, ny, 0) PI 0) 0 0 = (0, 0).
Proof.
  unfold mget, can1, nhalf, n2, cmul, cis, ax_x, ax_y, ax_z. cbn [nth fst snd]. rnum_cbn.
  rewrite cos_0, sin_0, cos_PI2, sin_PI2. apply pair_eq; ring.
Qed.

Lemma can1_00_half_turn nx ny nz : mget RNum (can1 RNum (nx, ny, nz) PI 0) 0 0 = (0, - nz).
Proof.
  unfold mget, can1, nhalf, n2, cmul, cis, ax_x, ax_y, ax_z. cbn [nth fst snd]. rnum_cbn.
  rewrite cos_0, sin_0, cos_PI2, sin_PI2. apply pair_eq; ring.
Qed.

Lemma can1_entries ax a p : exists u00 u01 u10 u11, can1 RNum ax a p = [[u00; u01]; [u10; u11]].
Proof. unfold can1. do 4 eexists. reflexivity. Qed.

Lemma lift1_1_0_can1 ax a p : lift1 1 0 (can1 RNum ax a p) = can1 RNum ax a p.
Proof. destruct (can1_entries ax a p) as [u00 [u01 [u10 [u11 ->]]]]. apply lift1_1_0. Qed.

Theorem xy_tolerance_refuted :
  exists nq nb q ax a p ops bm o K,
    unit_axis ax /\
    export_qs RNumX nq nb [SGate 1 (BSR q ax a p) anon] = Ok (ops, bm) /\
    kraus nq o [SGate 1 (BSR q ax a p) anon] = Ok K /\
    ~ exists K', kraus_ops nq o ops = Ok K' /\ mequiv K' K.
Proof.
  exists 1%Z, 1%Z, 0%Z, (tilt_a, 0, tilt_c), PI, 0.
  eexists. eexists. exists (fun _ => false). eexists.
  split; [exact tilt_unit|]. split; [|split].
  - unfold export_qs. cbn [export_loop export_gate]. rewrite export_bsr_X.
    destruct (Rlt_dec (Rabs tilt_c) (/ 10000000)) as [H|H]; [reflexivity|].
    exfalso. apply H. unfold tilt_c. rewrite Rabs_pos_eq; lra.
  - apply kraus_single. cbn [stmt_op fst]. rewrite get_matrix_bsr_lift1 by lia. reflexivity.
  - intros [K' [HK' Heq]]. unfold kraus_ops in HK'. cbn [map qsop_stmt rev] in HK'.
    cbn [rev app map qsop_stmt] in HK'. rewrite !d2r_deg in HK'.
    erewrite kraus_single in HK'
      by (cbn [stmt_op fst]; rewrite get_matrix_bsr_lift1 by lia; reflexivity).
    injection HK' as <-. revert Heq. rewrite !lift1_1_0_can1.
    apply (not_mequiv_entry _ _ 0 0).
    + apply can1_00_half_turn_plane.
    + rewrite can1_00_half_turn. intros E. injection E as E1. unfold tilt_c in E1. lra.
Qed.

(* (c) a controlled rotation whose target differs from X by less than the tolerance of
   BlochSphereRotation.__eq__ (here: in the phase) is exported as CNOT; for a controlled gate the phase of
   the target is not global *)
Definition eps8 : R := / 100000000.

Lemma almost_X_equals_X t : bsr_equals_default RNumX "X" t (1, 0, 0) PI (PI / 2 + eps8) = true.
Proof.
  rewrite bsr_equals_default_X. unfold bsr_equals_default. rewrite default_X_RNum.
  unfold bsr_eq. rewrite Z.eqb_refl. cbn [negb]. rewrite close_axis_refl.
  assert (H1 : nltb RNum (nabs RNum PI) (atol RNum) = false).
  { change (Rltb (Rabs PI) (atol RNum) = false). apply Rltb_false. rewrite atol_RNum. exact PI_not_small. }
  rewrite H1. cbn [andb].
  assert (H2 : nleb RNum (nabs RNum (nsub RNum (PI / 2 + eps8) (PI / 2))) (atol RNum) = true).
  { change (Rleb (Rabs (PI / 2 + eps8 - PI / 2)) (atol RNum) = true). apply Rleb_true.
    rewrite atol_RNum. replace (PI / 2 + eps8 - PI / 2) with eps8 by ring.
    unfold eps8. rewrite Rabs_pos_eq; lra. }
  rewrite H2. cbn [andb].
  change (Rltb (Rabs (PI - PI)) (atol RNum) = true). apply Rltb_true.
  rewrite atol_RNum. replace (PI - PI) with 0 by ring. rewrite Rabs_R0. lra.
Qed.

Lemma mequiv_same_one (A B : matR) r c :
  mequiv A B -> mget RNum A r c = (1, 0) -> mget RNum B r c = (1, 0) ->
  forall r' c', mget RNum A r' c' = mget RNum B r' c'.
Proof.
  intros [z [_ E]] HA HB r' c'. rewrite E, mget_mscale, HB in HA.
  change (1, 0) with (cone RNum) in HA. rewrite cmulR_1_r in HA. subst z.
  rewrite E, mget_mscale. apply cmulR_1_l.
Qed.

(* two qubits, control 1, target 0: entries of the controlled operator *)
Lemma ctrl10_matrix ax a p :
  get_matrix RNum 2 (Ctrl 1 (BSR 0 ax a p)) = Ok (ctrl_matrix RNum 1 (lift1 2 0 (can1 RNum ax a p))).
Proof. apply get_matrix_ctrl_eq; [lia|]. apply get_matrix_bsr_lift1. lia. Qed.

Lemma ctrl10_00 (U : matR) : wf_mat 2 U -> mget RNum (ctrl_matrix RNum 1 (lift1 2 0 U)) 0 0 = (1, 0).
Proof.
  intros HU. pose proof (lift1_wf 2 0 U ltac:(lia) HU) as [HL _].
  rewrite mget_ctrl_matrix by (rewrite HL; change (zpow2 2) with 4%nat; lia). reflexivity.
Qed.

Lemma ctrl10_23 (U : matR) : wf_mat 2 U -> mget RNum (ctrl_matrix RNum 1 (lift1 2 0 U)) 2 3 = mget RNum U 0 1.
Proof.
  intros HU. pose proof (lift1_wf 2 0 U ltac:(lia) HU) as [HL _].
  rewrite mget_ctrl_matrix by (rewrite HL; change (zpow2 2) with 4%nat; lia).
  change (N.testbit (N.of_nat 3) (Z.to_N 1)) with true. cbv iota.
  unfold lift1. change (zpow2 (2 - 0 - 1)) with 2%nat. change (zpow2 0) with 1%nat.
  pose proof (shape_eye RNum 2) as HI2. pose proof (shape_eye RNum 1) as HI1.
  pose proof (shape_kron RNum _ _ _ _ _ _ HI2 HU) as HK.
  rewrite (mget_kron RNum (2 * 2) (2 * 2) 1 1 _ _ 2 3 HK HI1) by (cbn; lia).
  change (2 / 1)%nat with 2%nat. change (3 / 1)%nat with 3%nat.
  change (2 mod 1)%nat with 0%nat. change (3 mod 1)%nat with 0%nat.
  rewrite (mget_kron RNum 2 2 2 2 _ _ 2 3 HI2 HU) by (cbn; lia).
  change (2 / 2)%nat with 1%nat. change (3 / 2)%nat with 1%nat.
  change (2 mod 2)%nat with 0%nat. change (3 mod 2)%nat with 1%nat.
  rewrite !mget_eye by lia. cbn [Nat.eqb]. rewrite cmulR_1_l, cmulR_1_r. reflexivity.
Qed.

Theorem ctrl_tolerance_refuted :
  exists nq nb g ops bm o K,
    export_qs RNumX nq nb [SGate 1 g anon] = Ok (ops, bm) /\
    kraus nq o [SGate 1 g anon] = Ok K /\
    ~ exists K', kraus_ops nq o ops = Ok K' /\ mequiv K' K.
Proof.
  exists 2%Z, 0%Z, (Ctrl 1 (BSR 0 (1, 0, 0) PI (PI / 2 + eps8))), [QCNOT 1 0], [], (fun _ => false).
  eexists. split; [|split].
  - unfold export_qs. cbn [export_loop export_gate]. rewrite almost_X_equals_X. reflexivity.
  - apply kraus_single. cbn [stmt_op fst]. rewrite ctrl10_matrix. reflexivity.
  - intros [K' [HK' Heq]]. unfold kraus_ops in HK'. cbn [map qsop_stmt] in HK'.
    erewrite kraus_single in HK' by (cbn [stmt_op fst]; rewrite ctrl10_matrix; reflexivity).
    injection HK' as <-.
    pose proof (mequiv_same_one _ _ 0 0 Heq (ctrl10_00 _ (shape_can1 RNum _ _ _))
                  (ctrl10_00 _ (shape_can1 RNum _ _ _)) 2%nat 3%nat) as H.
    rewrite !ctrl10_23 in H by apply shape_can1.
    revert H. unfold mget, can1, nhalf, n2, cmul, cis, ax_x, ax_y, ax_z. cbn [nth fst snd]. rnum_cbn.
    rewrite cos_PI2, sin_PI2.
    replace (PI / 2 + eps8) with (eps8 + PI / 2) by ring.
    intros H. injection H as H1 H2.
    assert (Hs : 0 < sin eps8).
    { apply sin_gt_0; unfold eps8; pose proof PI_bounds; lra. }
    rewrite cos_plus, sin_plus, cos_PI2, sin_PI2 in H2. lra.
Qed.

(* ------------------------------------------------------------------ *)
(** * 7. the rounding, bounded *)

(* the real exporter ([RNum]: degrees rounded to 5 decimals) against the idealised one ([RNumX]) *)

(* two schedule operations of the same kind on the same qubits whose angles (degrees) differ by at most d *)
Definition qsop_close (d : R) (op opx : qsop R) : Prop :=
  match op, opx with
  | QRxy th ph q, QRxy th' ph' q' => q = q' /\ Rabs (th - th') <= d /\ Rabs (ph - ph') <= d
  | QRz th q, QRz th' q' => q = q' /\ Rabs (th - th') <= d
  | QCNOT _ _, QCNOT _ _ | QCZ _ _, QCZ _ _ | QMeasure _ _ _, QMeasure _ _ _ | QReset _, QReset _ => op = opx
  | _, _ => False
  end.

Lemma qsop_close_refl d op : 0 <= d -> qsop_close d op op.
Proof.
  intros Hd. destruct op; cbn [qsop_close]; try reflexivity;
    repeat split; rewrite ?Rminus_diag_eq, ?Rabs_R0 by reflexivity; auto.
Qed.

Lemma deg5_close a : Rabs (deg5 RNum a - deg5 RNumX a) <= / 200000.
Proof. rewrite deg5_X. apply deg5_error. Qed.

(* both exporters take the same decisions; the angles differ by the rounding *)
Lemma export_bsr_rounding q ax a :
  match export_bsr RNum q ax a, export_bsr RNumX q ax a with
  | Ok op, Ok opx => qsop_close (/ 200000) op opx
  | Err e, Err e' => e = e'
  | _, _ => False
  end.
Proof.
  destruct ax as [[x y] z]. rewrite export_bsr_RNum, export_bsr_X.
  destruct (Rlt_dec (Rabs z) (/ 10000000)).
  - cbn [qsop_close]. rewrite <- !deg5_X. repeat split; apply deg5_close.
  - destruct (Rlt_dec (Rabs x) (/ 10000000)); [|reflexivity].
    destruct (Rlt_dec (Rabs y) (/ 10000000)); [|reflexivity].
    cbn [qsop_close]. rewrite <- !deg5_X. split; [reflexivity | apply deg5_close].
Qed.

Lemma export_gate_rounding g :
  match export_gate RNum g, export_gate RNumX g with
  | Ok op, Ok opx => qsop_close (/ 200000) op opx
  | Err e, Err e' => e = e'
  | _, _ => False
  end.
Proof.
  destruct g as [q ax a p|c g1|m ops]; cbn [export_gate]; [apply export_bsr_rounding| |reflexivity].
  destruct g1 as [t ax a p|c' g2|m ops]; try reflexivity.
  rewrite !bsr_equals_default_X.
  destruct (bsr_equals_default RNum "X" t ax a p); [reflexivity|].
  destruct (bsr_equals_default RNum "Z" t ax a p); reflexivity.
Qed.

Lemma Forall2_rev_app {A B} (P : A -> B -> Prop) l l' :
  Forall2 P l l' -> forall m m', Forall2 P m m' -> Forall2 P (rev l ++ m) (rev l' ++ m').
Proof.
  induction 1 as [|a b l l' Hab Hl IH]; intros m m' Hm; [exact Hm|].
  cbn [rev]. rewrite <- !app_assoc. apply IH. constructor; assumption.
Qed.

Lemma export_loop_rounding ir : forall acq bm out outx,
  Forall2 (qsop_close (/ 200000)) out outx ->
  match export_loop RNum ir acq bm out, export_loop RNumX ir acq bm outx with
  | Ok (ops, b), Ok (opsx, bx) => b = bx /\ Forall2 (qsop_close (/ 200000)) ops opsx
  | Err e, Err e' => e = e'
  | _, _ => False
  end.
Proof.
  induction ir as [|s ir IH]; intros acq bm out outx Ho.
  - cbn [export_loop]. split; [reflexivity|].
    rewrite <- (app_nil_r (rev out)), <- (app_nil_r (rev outx)).
    apply Forall2_rev_app; [exact Ho | constructor].
  - destruct s as [oid g gi|oid q b ax gi|oid q gi|t]; cbn [export_loop].
    + pose proof (export_gate_rounding g) as Hg.
      destruct (export_gate RNum g) as [op|e]; destruct (export_gate RNumX g) as [opx|e'];
        try contradiction; [|exact Hg].
      apply IH. constructor; assumption.
    + destruct (py_index (length acq) q) as [qi|]; [|reflexivity].
      destruct (py_index (length bm) b) as [bi|]; [|reflexivity].
      apply IH. constructor; [reflexivity | exact Ho].
    + apply IH. constructor; [reflexivity | exact Ho].
    + apply IH. exact Ho.
Qed.

(* the real schedule is, operation by operation, the idealised schedule with every angle moved by at most
   5e-6 degrees; same refusals, same bit map *)
Theorem export_qs_rounding nq nb ir :
  match export_qs RNum nq nb ir, export_qs RNumX nq nb ir with
  | Ok (ops, bm), Ok (opsx, bmx) => bm = bmx /\ Forall2 (qsop_close (/ 200000)) ops opsx
  | Err e, Err e' => e = e'
  | _, _ => False
  end.
Proof. unfold export_qs. apply export_loop_rounding. constructor. Qed.

(* the 2x2 operator of a rotation operation of the schedule *)
Definition rot_op (op : qsop R) : matR :=
  match op with
  | QRxy theta phi _ => can1 RNum (cos (d2r phi), sin (d2r phi), 0) (d2r theta) 0
  | QRz theta _ => can1 RNum (0, 0, 1) (d2r theta) 0
  | _ => eye RNum 2
  end.

Lemma d2r_close x y e : Rabs (x - y) <= e -> Rabs (d2r x - d2r y) <= e * (PI / 180).
Proof.
  intros H. unfold d2r. replace (x * (PI / 180) - y * (PI / 180)) with ((x - y) * (PI / 180)) by ring.
  pose proof PI_bounds as [HP _].
  rewrite Rabs_mult, (Rabs_pos_eq (PI / 180)) by lra.
  apply Rmult_le_compat_r; lra.
Qed.

Lemma prod_close a a' b b' da db :
  Rabs (a' - a) <= da -> Rabs (b' - b) <= db -> Rabs b' <= 1 -> Rabs a <= 1 ->
  Rabs (a' * b' - a * b) <= da + db.
Proof.
  intros Ha Hb Hb1 Ha1.
  replace (a' * b' - a * b) with ((a' - a) * b' + a * (b' - b)) by ring.
  eapply Rle_trans; [apply Rabs_triang|]. rewrite !Rabs_mult.
  pose proof (Rabs_pos (a' - a)). pose proof (Rabs_pos (b' - b)).
  pose proof (Rabs_pos b'). pose proof (Rabs_pos a). nra.
Qed.

Lemma Rabs_le_inv' x a : Rabs x <= a -> - a <= x <= a.
Proof. unfold Rabs. destruct (Rcase_abs x); lra. Qed.

Lemma Rabs_sin_le1 x : Rabs (sin x) <= 1.
Proof. apply Rabs_le. pose proof (SIN_bound x). lra. Qed.
Lemma Rabs_cos_le1 x : Rabs (cos x) <= 1.
Proof. apply Rabs_le. pose proof (COS_bound x). lra. Qed.

Lemma half_close x y e : Rabs (x - y) <= e -> Rabs (x / 2 - y / 2) <= e / 2.
Proof.
  intros H. replace (x / 2 - y / 2) with ((x - y) * / 2) by field.
  rewrite Rabs_mult, (Rabs_pos_eq (/ 2)) by lra. lra.
Qed.

(* Rxy in radians: Lipschitz in the rotation angle (1/2) and in the azimuth of the axis (1) *)
Lemma rxy_close th th' ph ph' E :
  Rabs (th' - th) <= E -> Rabs (ph' - ph) <= E ->
  mclose (3 / 2 * E) (can1 RNum (cos ph', sin ph', 0) th' 0) (can1 RNum (cos ph, sin ph, 0) th 0).
Proof.
  intros Hth Hph. pose proof (Rabs_pos (th' - th)) as HE.
  pose proof (half_close _ _ _ Hth) as Hh.
  assert (Hc : Rabs (cos (th' / 2) - cos (th / 2)) <= E / 2)
    by (eapply Rle_trans; [apply cos_lipschitz | exact Hh]).
  assert (Hs : Rabs (sin (th' / 2) - sin (th / 2)) <= E / 2)
    by (eapply Rle_trans; [apply sin_lipschitz | exact Hh]).
  assert (Hcp : Rabs (cos ph' - cos ph) <= E)
    by (eapply Rle_trans; [apply cos_lipschitz | exact Hph]).
  assert (Hsp : Rabs (sin ph' - sin ph) <= E)
    by (eapply Rle_trans; [apply sin_lipschitz | exact Hph]).
  pose proof (prod_close _ _ _ _ _ _ Hs Hcp (Rabs_cos_le1 ph') (Rabs_sin_le1 (th / 2))) as Hsc.
  pose proof (prod_close _ _ _ _ _ _ Hs Hsp (Rabs_sin_le1 ph') (Rabs_sin_le1 (th / 2))) as Hss.
  apply Rabs_le_inv' in Hc, Hsc, Hss.
  rewrite !can1_is_qmat. unfold qmat, qrot, qw, qx, qy, qz, ax_x, ax_y, ax_z. cbn [fst snd].
  apply mclose_intro; unfold cclose; cbn [fst snd]; split; apply Rabs_le; lra.
Qed.

Lemma rz_close th th' E :
  Rabs (th' - th) <= E ->
  mclose (3 / 2 * E) (can1 RNum (0, 0, 1) th' 0) (can1 RNum (0, 0, 1) th 0).
Proof.
  intros Hth. pose proof (Rabs_pos (th' - th)) as HE.
  pose proof (half_close _ _ _ Hth) as Hh.
  assert (Hc : Rabs (cos (th' / 2) - cos (th / 2)) <= E / 2)
    by (eapply Rle_trans; [apply cos_lipschitz | exact Hh]).
  assert (Hs : Rabs (sin (th' / 2) - sin (th / 2)) <= E / 2)
    by (eapply Rle_trans; [apply sin_lipschitz | exact Hh]).
  apply Rabs_le_inv' in Hc, Hs.
  rewrite !can1_is_qmat. unfold qmat, qrot, qw, qx, qy, qz, ax_x, ax_y, ax_z. cbn [fst snd].
  apply mclose_intro; unfold cclose; cbn [fst snd]; split; apply Rabs_le; lra.
Qed.

(* 5e-6 degrees are less than 1e-7 radians; with the factor 3/2 of [rxy_close]: 1/6000000 < 1.7e-7 *)
Lemma deg_eps_rad : 3 / 2 * (/ 200000 * (PI / 180)) <= / 6000000.
Proof. pose proof PI_bounds. lra. Qed.

Theorem qsop_close_operator op opx :
  qsop_close (/ 200000) op opx -> mclose (/ 6000000) (rot_op op) (rot_op opx).
Proof.
  intros H. apply (mclose_mono (3 / 2 * (/ 200000 * (PI / 180)))); [exact deg_eps_rad|].
  destruct op as [th ph q|th q|c t|c t|q ch idx|q]; destruct opx as [th' ph' q'|th' q'|c' t'|c' t'|q' ch' idx'|q'];
    cbn [qsop_close] in H; try contradiction; cbn [rot_op].
  - destruct H as [_ [H1 H2]]. apply rxy_close; apply d2r_close; assumption.
  - destruct H as [_ H1]. apply rz_close; apply d2r_close; assumption.
  - intros r0 c0 Hr Hc. apply cclose_refl. pose proof PI_bounds. lra.
  - intros r0 c0 Hr Hc. apply cclose_refl. pose proof PI_bounds. lra.
  - intros r0 c0 Hr Hc. apply cclose_refl. pose proof PI_bounds. lra.
  - intros r0 c0 Hr Hc. apply cclose_refl. pose proof PI_bounds. lra.
Qed.

(* hence: every rotation exported by the real exporter has, as 2x2 operator, entries within 1/6000000
   (real and imaginary parts) of the operator exported by the idealised exporter, which by
   [export_gate_denotes] is the gate's operator up to a global phase *)
Theorem export_bsr_rounding_bound q ax a op opx :
  export_bsr RNum q ax a = Ok op -> export_bsr RNumX q ax a = Ok opx ->
  mclose (/ 6000000) (rot_op op) (rot_op opx).
Proof.
  intros H1 H2. pose proof (export_bsr_rounding q ax a) as H. rewrite H1, H2 in H.
  apply qsop_close_operator. exact H.
Qed.

(* rot_op is the operator that [qsop_stmt] puts on the register *)
Lemma rot_op_stmt n op q :
  (0 <= q < n)%Z ->
  match op with QRxy _ _ q' | QRz _ q' => q' = q | _ => False end ->
  fst (stmt_op n (fun _ => false) 0 (qsop_stmt op)) = Ok (Some (lift1 n q (rot_op op))).
Proof.
  intros Hq Hop. destruct op; try contradiction; subst; cbn [qsop_stmt stmt_op fst rot_op];
    rewrite get_matrix_bsr_lift1 by exact Hq; reflexivity.
Qed.

(* the 2x2 form of [export_gate_denotes] for rotations *)
Lemma export_bsr_denotes_2x2 q ax a p opx :
  export_bsr RNumX q ax a = Ok opx -> exact_gate (BSR q ax a p) ->
  mequiv (rot_op opx) (can1 RNum ax a p).
Proof.
  intros He [Hu Hplane]. destruct ax as [[x y] z].
  unfold unit_axis, ax_x, ax_y, ax_z in Hu, Hplane. cbn [fst snd] in Hu, Hplane.
  rewrite export_bsr_X in He.
  destruct (Rlt_dec (Rabs z) (/ 10000000)) as [Hz|Hz].
  - assert (Hz0 : z = 0).
    { destruct Hplane as [Hz0|[Hx0 Hy0]]; [exact Hz0|]. subst x y.
      exfalso. assert (Hzz : z * z = 1) by lra. revert Hz. unfold Rabs. destruct (Rcase_abs z); nra. }
    subst z. assert (Hxy : x * x + y * y = 1) by lra.
    injection He as <-. cbn [rot_op]. rewrite !d2r_deg, (rxy_axis x y Hxy). apply can1_mequiv_phase.
  - destruct (Rlt_dec (Rabs x) (/ 10000000)) as [Hx1|Hx1]; [|discriminate].
    destruct (Rlt_dec (Rabs y) (/ 10000000)) as [Hy1|Hy1]; [|discriminate].
    assert (Hxy0 : x = 0 /\ y = 0).
    { destruct Hplane as [Hz0|H0]; [|exact H0]. exfalso. apply Hz. rewrite Hz0, Rabs_R0. lra. }
    destruct Hxy0 as [-> ->]. assert (Hzz : z * z = 1) by lra.
    injection He as <-. cbn [rot_op]. rewrite d2r_deg.
    destruct (Rlt_dec 0 z) as [Hpos|Hneg].
    + assert (z = 1) by nra. subst z. apply can1_mequiv_phase.
    + assert (z = -1) by nra. subst z. rewrite can1_neg_z. apply can1_mequiv_phase.
Qed.

(* the real exporter, rotation by rotation: the exported operator is within 1/6000000 (entry-wise) of the
   gate's operator times a global phase *)
Theorem export_bsr_rounded_denotes q ax a p op :
  export_bsr RNum q ax a = Ok op -> exact_gate (BSR q ax a p) ->
  exists U, mequiv U (can1 RNum ax a p) /\ mclose (/ 6000000) (rot_op op) U.
Proof.
  intros H1 Hx. pose proof (export_bsr_rounding q ax a) as H. rewrite H1 in H.
  destruct (export_bsr RNumX q ax a) as [opx|e] eqn:H2; [|contradiction].
  exists (rot_op opx). split.
  - exact (export_bsr_denotes_2x2 q ax a p opx H2 Hx).
  - apply qsop_close_operator. exact H.
Qed.

(* ------------------------------------------------------------------ *)
(** * 8. non-vacuity: a concrete circuit *)

(* X90 q[0]; Rz(0.5) q[1]; CNOT q[0], q[1]; b[0] = measure q[1]; reset q[0]   (2 qubits, 1 bit) *)
Definition ex_ir : list (stmt R) :=
  [ SGate 1 (BSR 0 (1, 0, 0) (PI / 2) 0) (gi "X90" [AQ 0%Z]);
    SGate 2 (BSR 1 (0, 0, 1) (1 / 2) 0) (gi "Rz" [AQ 1%Z; AF (1 / 2)]);
    SGate 3 (Ctrl 0 (BSR 1 (1, 0, 0) PI (PI / 2))) (gi "CNOT" [AQ 0%Z; AQ 1%Z]);
    SMeasure 4 1 0 (0, 0, 1) anon;
    SReset 5 0 anon ].

(* Rxy(90, 0, q0); Rz(90/PI ~ 28.65, q1); CNOT(q0, q1); Measure(q1, acq_channel 1, acq_index 0); Reset(q0) *)
Definition ex_ops : list (qsop R) :=
  [ QRxy 90 0 0; QRz (90 / PI) 1; QCNOT 0 1; QMeasure 1 1 0; QReset 0 ].

(* the gates are those of the default table *)
Lemma ex_ir_default :
  default_gate RNum "X90" [AQ 0%Z] = Ok (BSR 0 (1, 0, 0) (PI / 2) 0, gi "X90" [AQ 0%Z]) /\
  default_gate RNum "Rz" [AQ 1%Z; AF (1 / 2)] = Ok (BSR 1 (0, 0, 1) (1 / 2) 0, gi "Rz" [AQ 1%Z; AF (1 / 2)]) /\
  default_gate RNum "CNOT" [AQ 0%Z; AQ 1%Z] =
    Ok (Ctrl 0 (BSR 1 (1, 0, 0) PI (PI / 2)), gi "CNOT" [AQ 0%Z; AQ 1%Z]).
Proof.
  pose proof PI_bounds as [HP _]. repeat split.
  - rewrite X90_eval, mk_bsr_RNum, mk_axis_x, norm_PI2, norm_0. reflexivity.
  - rewrite Rz_eval, mk_bsr_RNum, mk_axis_z, norm_0, (normalize_id (1 / 2)) by lra. reflexivity.
  - rewrite CNOT_eval, X_bsr, mk_ctrl_bsr_ok by lia. reflexivity.
Qed.

(* the default X / Z as controlled targets are in the exact regime, and so is X written with the negated axis
   ([cnot_negated_representation]) *)
Lemma exact_ctrl_X c t : exact_gate (Ctrl c (BSR t (1, 0, 0) PI (PI / 2))).
Proof.
  cbn [exact_gate]. rewrite !bsr_equals_default_X, X_equals_X. split; [reflexivity | discriminate].
Qed.

Lemma exact_ctrl_Z c t : exact_gate (Ctrl c (BSR t (0, 0, 1) PI (PI / 2))).
Proof.
  cbn [exact_gate]. rewrite !bsr_equals_default_X, Z_not_X. split; [discriminate | reflexivity].
Qed.

Lemma exact_ctrl_negX c t : exact_gate (Ctrl c (BSR t (-1, 0, 0) PI (- (PI / 2)))).
Proof.
  cbn [exact_gate]. rewrite !bsr_equals_default_X, negX_equals_X. split; [intros _ | discriminate].
  unfold Xtarget, can1, nhalf, n2, cmul, cis, ax_x, ax_y, ax_z. cbn [fst snd]. rnum_cbn.
  rewrite cos_neg, sin_neg, cos_PI2, sin_PI2. mat_eq.
Qed.

Lemma exact_rot_x q a p : exact_gate (BSR q (1, 0, 0) a p).
Proof. split; [unfold unit_axis, ax_x, ax_y, ax_z; cbn [fst snd]; ring | left; reflexivity]. Qed.
Lemma exact_rot_y q a p : exact_gate (BSR q (0, 1, 0) a p).
Proof. split; [unfold unit_axis, ax_x, ax_y, ax_z; cbn [fst snd]; ring | left; reflexivity]. Qed.
Lemma exact_rot_z q a p : exact_gate (BSR q (0, 0, 1) a p).
Proof. split; [unfold unit_axis, ax_x, ax_y, ax_z; cbn [fst snd]; ring | right; split; reflexivity]. Qed.

Lemma atan2_0_1 : atan2 0 1 = 0.
Proof.
  unfold atan2. destruct (Rlt_dec 0 1) as [_|H]; [|lra].
  replace (0 / 1) with 0 by field. apply atan_0.
Qed.

Example ex_export : export_qs RNumX 2 1 ex_ir = Ok (ex_ops, [Some (0, 1)%Z]).
Proof.
  unfold export_qs, ex_ir, ex_ops. cbn [export_loop export_gate].
  rewrite !export_bsr_X.
  destruct (Rlt_dec (Rabs 0) (/ 10000000)) as [_|H]; [|exfalso; apply H; rewrite Rabs_R0; lra].
  destruct (Rlt_dec (Rabs 1) (/ 10000000)) as [H|_]; [exfalso; rewrite Rabs_R1 in H; lra|].
  destruct (Rlt_dec 0 1) as [_|H]; [|lra].
  rewrite bsr_equals_default_X, X_equals_X.
  change (Z.to_nat 2) with 2%nat. change (Z.to_nat 1) with 1%nat. cbn [repeat length].
  change (py_index 2 1) with (Some 1%nat). change (py_index 1 0) with (Some 0%nat).
  cbn [nth list_upd export_loop rev app].
  rewrite atan2_0_1.
  replace (PI / 2 * (180 / PI)) with 90 by (field; apply PI_neq0).
  replace (0 * (180 / PI)) with 0 by (field; apply PI_neq0).
  replace (1 / 2 * (180 / PI)) with (90 / PI) by (field; apply PI_neq0).
  reflexivity.
Qed.

Example ex_exact : exact_ir ex_ir.
Proof.
  unfold exact_ir, ex_ir.
  apply Forall_cons; [apply exact_rot_x|].
  apply Forall_cons; [apply exact_rot_z|].
  apply Forall_cons; [apply exact_ctrl_X|].
  apply Forall_cons; [reflexivity|].
  apply Forall_cons; [exact I | apply Forall_nil].
Qed.

Example ex_defined o : exists K, kraus 2 o ex_ir = Ok K.
Proof.
  unfold kraus, ex_ir. cbn [kraus_from stmt_op].
  rewrite !get_matrix_bsr_lift1 by lia.
  rewrite (get_matrix_ctrl_eq RNum 2 0 _ _ ltac:(lia) (get_matrix_bsr_lift1 2 1 _ _ _ ltac:(lia))).
  rewrite !embed1_lift1 by lia. eexists. reflexivity.
Qed.

(* the theorem applies: the schedule does what the circuit does, for all four outcome combinations *)
Example ex_same_operation o :
  exists K K', kraus 2 o ex_ir = Ok K /\ kraus_ops 2 o ex_ops = Ok K' /\ mequiv K' K.
Proof.
  destruct (ex_defined o) as [K HK].
  destruct (export_qs_same_operation _ _ _ _ _ ex_export ex_exact o K HK) as [K' [HK' Heq]].
  exists K, K'. auto.
Qed.

(* and the bookkeeping: the measurement is operation number 3, with acq_channel 1 and acq_index 0, and bit 0
   is mapped to (acq_index 0, qubit 1) *)
Example ex_bookkeeping :
  nth_error ex_ops 3 = Some (QMeasure 1 1 0) /\
  map eff_site (effects (map qsop_stmt ex_ops)) = map eff_site (effects ex_ir).
Proof. split; reflexivity. Qed.

(* the real exporter on the same circuit: same schedule up to 5e-6 degrees per angle *)
Example ex_rounded :
  exists ops, export_qs RNum 2 1 ex_ir = Ok (ops, [Some (0, 1)%Z]) /\
              Forall2 (qsop_close (/ 200000)) ops ex_ops.
Proof.
  pose proof (export_qs_rounding 2 1 ex_ir) as H. rewrite ex_export in H.
  destruct (export_qs RNum 2 1 ex_ir) as [[ops bm]|e]; [|contradiction].
  destruct H as [-> H]. exists ops. split; [reflexivity | exact H].
Qed.

(* ------------------------------------------------------------------ *)
Print Assumptions kraus_pointwise_mequiv.
Print Assumptions export_gate_denotes.
Print Assumptions export_qs_same_operation.
Print Assumptions export_qs_defined_iff.
Print Assumptions export_qs_effects.
Print Assumptions export_qs_bookkeeping.
Print Assumptions measure_axis_needed_refuted.
Print Assumptions xy_tolerance_refuted.
Print Assumptions ctrl_tolerance_refuted.
Print Assumptions export_qs_rounding.
Print Assumptions qsop_close_operator.
Print Assumptions export_bsr_rounded_denotes.
Print Assumptions ex_export.
Print Assumptions ex_same_operation.
