(* WriterP.v — structural theorems about Model/Writer.v (cQASM 3 writer and
   cQASM 1 exporter), for any scalar type T and any oracles dec8, anon_text. *)
From Coq Require Import ZArith List Bool String Ascii Lia.
From Coq Require Import Decimal DecimalString.
Import ListNotations.
From OSQ Require Import Num IR Dec Writer ParserExpand Builder Lexer DecP.
Open Scope string_scope.

(* ------------------------------------------------------------------ *)
(* rstrip                                                               *)

Fixpoint all_ws (s : string) : bool :=
  match s with EmptyString => true | String c s' => is_ws c && all_ws s' end.

(* the last character is not whitespace (vacuously for the empty string) *)
Fixpoint last_nonws (s : string) : bool :=
  match s with
  | EmptyString => true
  | String c EmptyString => negb (is_ws c)
  | String _ s' => last_nonws s'
  end.

Lemma rstrip_cons_nonws (c : ascii) (s : string) :
  is_ws c = false -> rstrip (String c s) = String c (rstrip s).
Proof. intros H. cbn [rstrip]. destruct (rstrip s); [now rewrite H | reflexivity]. Qed.

Lemma rstrip_cons_nonempty (c : ascii) (s : string) :
  rstrip s <> "" -> rstrip (String c s) = String c (rstrip s).
Proof. intros H. cbn [rstrip]. destruct (rstrip s); [congruence | reflexivity]. Qed.

(* a prefix that ends with a non-blank survives *)
Lemma rstrip_app_ends_nonws (p t : string) :
  p <> "" -> last_nonws p = true -> rstrip (p ++ t) = p ++ rstrip t.
Proof.
  induction p as [|c p IH]; [congruence|]. intros _ H.
  destruct p as [|c' p'].
  - cbn [last_nonws] in H. apply negb_true_iff in H. cbn [append]. now apply rstrip_cons_nonws.
  - change (String c (String c' p') ++ t) with (String c (String c' p' ++ t)).
    change (last_nonws (String c (String c' p'))) with (last_nonws (String c' p')) in H.
    assert (Hne : String c' p' <> "") by discriminate.
    rewrite rstrip_cons_nonempty; rewrite (IH Hne H); [reflexivity | discriminate].
Qed.

Lemma rstrip_all_ws (t : string) : all_ws t = true -> rstrip t = "".
Proof.
  induction t as [|c t IH]; [reflexivity|]. cbn [all_ws rstrip]. intros H.
  apply andb_true_iff in H. destruct H as [Hc Ht]. now rewrite (IH Ht), Hc.
Qed.

Lemma rstrip_last_nonws (s : string) : last_nonws (rstrip s) = true.
Proof.
  induction s as [|c s IH]; [reflexivity|]. cbn [rstrip].
  destruct (rstrip s) as [|c' r] eqn:E.
  - destruct (is_ws c) eqn:Hc; [reflexivity|]. cbn. now rewrite Hc.
  - exact IH.
Qed.

(* s = rstrip s ++ blanks *)
Lemma rstrip_decomp (s : string) : exists t, s = rstrip s ++ t /\ all_ws t = true.
Proof.
  induction s as [|c s (t & Hs & Ht)]; [exists ""; auto|]. cbn [rstrip].
  destruct (rstrip s) as [|c' r] eqn:E.
  - cbn [append] in Hs. subst t. destruct (is_ws c) eqn:Hc.
    + exists (String c s). cbn. now rewrite Hc, Ht.
    + exists s. auto.
  - exists t. split; [|exact Ht]. rewrite Hs at 1. reflexivity.
Qed.

Lemma rstrip_fixpoint (p : string) : last_nonws p = true -> rstrip p = p.
Proof.
  intros H. destruct p as [|c p]; [reflexivity|].
  rewrite <- (sapp_nil_r (String c p)) at 1.
  rewrite rstrip_app_ends_nonws by (auto; discriminate). apply sapp_nil_r.
Qed.

(* characterisation: the unique split into a part not ending with a blank, and blanks *)
Theorem rstrip_unique (s p t : string) :
  s = p ++ t -> last_nonws p = true -> all_ws t = true -> rstrip s = p.
Proof.
  intros -> Hp Ht. destruct p as [|c p].
  - cbn [append]. now apply rstrip_all_ws.
  - rewrite rstrip_app_ends_nonws by (auto; discriminate).
    rewrite (rstrip_all_ws t Ht). apply sapp_nil_r.
Qed.

(* [rstrip s] is a prefix of [s] whose last character is not a blank, what follows is blank,
   and it is the longest such prefix *)
Theorem rstrip_spec (s : string) :
  (exists t, s = rstrip s ++ t /\ all_ws t = true) /\
  last_nonws (rstrip s) = true /\
  (forall p t, s = p ++ t -> last_nonws p = true ->
     (String.length p <= String.length (rstrip s))%nat /\ exists u, rstrip s = p ++ u).
Proof.
  split; [apply rstrip_decomp|]. split; [apply rstrip_last_nonws|].
  intros p t -> Hp. destruct p as [|c p].
  - split; [cbn; lia | exists (rstrip t); reflexivity].
  - rewrite rstrip_app_ends_nonws by (auto; discriminate).
    rewrite slength_app. split; [lia | eexists; reflexivity].
Qed.

Theorem rstrip_idempotent (s : string) : rstrip (rstrip s) = rstrip s.
Proof. apply rstrip_fixpoint, rstrip_last_nonws. Qed.

(* ------------------------------------------------------------------ *)
(* strings without newline                                              *)

Definition is_nl (c : ascii) : bool := Ascii.eqb c (ascii_of_nat 10).

Fixpoint no_nl (s : string) : bool :=
  match s with EmptyString => true | String c s' => negb (is_nl c) && no_nl s' end.

Lemma no_nl_app (a b : string) : no_nl (a ++ b) = no_nl a && no_nl b.
Proof. induction a as [|c a IH]; cbn; [reflexivity | now rewrite IH, andb_assoc]. Qed.

Lemma all_digits_no_nl (s : string) : all_digits s = true -> no_nl s = true.
Proof.
  induction s as [|c s IH]; [reflexivity|]. cbn [all_digits no_nl]. intros H.
  apply andb_true_iff in H. destruct H as [Hc Hs]. rewrite (IH Hs), andb_true_r.
  apply negb_true_iff. unfold is_nl. destruct (Ascii.eqb c (ascii_of_nat 10)) eqn:E; [|reflexivity].
  apply Ascii.eqb_eq in E. subst c. discriminate.
Qed.

Lemma string_of_uint_no_nl (u : uint) : no_nl (NilZero.string_of_uint u) = true.
Proof.
  unfold NilZero.string_of_uint. destruct u; try reflexivity;
    apply all_digits_no_nl; apply nilempty_all_digits.
Qed.

Lemma string_of_Z_no_nl (z : Z) : no_nl (string_of_Z z) = true.
Proof.
  unfold string_of_Z, NilZero.string_of_int. destruct (Z.to_int z) as [u|u].
  - apply string_of_uint_no_nl.
  - cbn [no_nl]. rewrite string_of_uint_no_nl. reflexivity.
Qed.

Lemma qstr_no_nl (q : Z) : no_nl (qstr q) = true.
Proof. unfold qstr. rewrite !no_nl_app, string_of_Z_no_nl. reflexivity. Qed.

Lemma bstr_no_nl (b : Z) : no_nl (bstr b) = true.
Proof. unfold bstr. rewrite !no_nl_app, string_of_Z_no_nl. reflexivity. Qed.

Lemma join_no_nl (sep : string) (l : list string) :
  no_nl sep = true -> Forall (fun x => no_nl x = true) l -> no_nl (join sep l) = true.
Proof.
  intros Hsep. induction 1 as [|x l Hx Hl IH]; [reflexivity|].
  destruct l as [|y l']; [exact Hx|].
  change (join sep (x :: y :: l')) with (x ++ sep ++ join sep (y :: l')).
  now rewrite !no_nl_app, Hx, Hsep, IH.
Qed.

Lemma opt_exp_no_nl (ex : string) : is_opt_exp ex = true -> no_nl ex = true.
Proof.
  intros H. apply is_opt_exp_spec in H. destruct H as [-> | H]; [reflexivity|].
  destruct H as [c sg ds Hc Hs Hd]. unfold digits1 in Hd. apply andb_true_iff in Hd.
  destruct Hd as [_ Hd]. cbn [no_nl]. rewrite no_nl_app, (all_digits_no_nl _ Hd).
  destruct Hc as [-> | ->]; destruct Hs as [-> | [-> | ->]]; reflexivity.
Qed.

(* the decimal strings of well-formed decimals have no newline *)
Lemma render_fix_no_nl (d : dec) : wf_dec d -> no_nl (fix_literal (render_py8 d)) = true.
Proof.
  intros Hwf. destruct d as [[|]| |neg digits e]; try reflexivity.
  destruct (render_fix_shape neg digits e Hwf) as (IP & FP & ex & -> & H1 & H2 & _ & _ & Hex & _).
  unfold lit. rewrite !no_nl_app.
  rewrite (all_digits_no_nl _ (digits_string_all_digits _ H1)).
  rewrite (all_digits_no_nl _ (digits_string_all_digits _ H2)).
  rewrite (opt_exp_no_nl _ Hex). destruct neg; reflexivity.
Qed.

(* ------------------------------------------------------------------ *)
(* generic list/option facts                                            *)

Lemma prefix_app (a b : string) : String.prefix a (a ++ b) = true.
Proof.
  induction a as [|c a IH]; [destruct b; reflexivity|]. cbn [append String.prefix].
  destruct (ascii_dec c c); [exact IH | congruence].
Qed.

Lemma concat_empty_sep (x : string) (l : list string) :
  String.concat "" (x :: l) = x ++ String.concat "" l.
Proof. destruct l; cbn; [now rewrite sapp_nil_r | reflexivity]. Qed.

Lemma concat_opt_spec (l : list (option string)) (body : string) :
  concat_opt l = Some body ->
  exists lines, l = map Some lines /\ body = String.concat "" lines.
Proof.
  revert body. induction l as [|o l IH]; intros body H; cbn [concat_opt] in H.
  - inversion H; subst. exists []. auto.
  - destruct o as [x|]; [|discriminate].
    destruct (concat_opt l) as [r|] eqn:E; [|discriminate]. inversion H; subst.
    destruct (IH r eq_refl) as (lines & -> & ->). exists (x :: lines).
    split; [reflexivity | now rewrite concat_empty_sep].
Qed.

Lemma concat_opt_none (l : list (option string)) :
  concat_opt l = None <-> In None l.
Proof.
  induction l as [|o l IH]; cbn [concat_opt In].
  - split; [discriminate | tauto].
  - destruct o as [x|].
    + destruct (concat_opt l) as [r|]; split.
      * discriminate.
      * intros [H|H]; [discriminate|]. apply IH in H. discriminate.
      * intros _. right. now apply IH.
      * reflexivity.
    + split; auto.
Qed.

(* ------------------------------------------------------------------ *)
Section WriterP.
  Context {T : Type}.
  Variable dec8 : T -> dec.
  Variable anon_text : gate T -> string.

  Notation stmt := (stmt T).
  Notation arg := (arg T).
  Notation v3_stmt := (v3_stmt dec8 anon_text).
  Notation v3_arg := (v3_arg dec8).
  Notation v1_stmt := (v1_stmt dec8).
  Notation v1_arg := (v1_arg dec8).

  (* ---------------- item 5: the header, the body ---------------- *)

  Definition header3 (nq nb : Z) : string :=
    "version 3.0" ++ NL ++ NL ++ "qubit[" ++ string_of_Z nq ++ "] q" ++ NL ++
    (if Z.ltb 0 nb then "bit[" ++ string_of_Z nb ++ "] b" ++ NL else "") ++ NL.

  Definition body3 (ir : list stmt) : option string := concat_opt (map v3_stmt ir).

  Theorem write3_decomp (nq nb : Z) (ir : list stmt) (body : string) :
    body3 ir = Some body ->
    write3 dec8 anon_text nq nb ir = Ok (rstrip (header3 nq nb ++ body) ++ NL).
  Proof.
    unfold body3, write3, header3. intros ->. do 3 f_equal.
    rewrite !sapp_assoc. reflexivity.
  Qed.

  Theorem write3_error (nq nb : Z) (ir : list stmt) :
    body3 ir = None -> write3 dec8 anon_text nq nb ir = Err EType.
  Proof. unfold body3, write3. now intros ->. Qed.

  (* the declarations that always survive the final rstrip *)
  Definition decl3 (nq nb : Z) : string :=
    "version 3.0" ++ NL ++ NL ++ "qubit[" ++ string_of_Z nq ++ "] q" ++
    (if Z.ltb 0 nb then NL ++ "bit[" ++ string_of_Z nb ++ "] b" else "").

  Lemma last_nonws_app (a b : string) : b <> "" -> last_nonws (a ++ b) = last_nonws b.
  Proof.
    intros Hb. induction a as [|c a IH]; [reflexivity|].
    cbn [append]. destruct (a ++ b) as [|c' r] eqn:E.
    - destruct a; cbn in E; [congruence | discriminate].
    - exact IH.
  Qed.

  Lemma decl3_last_nonws (nq nb : Z) : last_nonws (decl3 nq nb) = true /\ decl3 nq nb <> "".
  Proof.
    split; [|discriminate]. unfold decl3. destruct (Z.ltb 0 nb).
    - rewrite <- !sapp_assoc. rewrite last_nonws_app by discriminate. reflexivity.
    - rewrite sapp_nil_r. rewrite <- !sapp_assoc. rewrite last_nonws_app by discriminate. reflexivity.
  Qed.

  Lemma header3_decl3 (nq nb : Z) : header3 nq nb = decl3 nq nb ++ NL ++ NL.
  Proof.
    unfold header3, decl3. destruct (Z.ltb 0 nb); rewrite !sapp_assoc; cbn [append];
      rewrite ?sapp_assoc; reflexivity.
  Qed.

  (* the text starts with "version 3.0\n\nqubit[nq] q", then "\nbit[nb] b" iff nb > 0,
     then the stripped rest and one newline *)
  Theorem write3_header (nq nb : Z) (ir : list stmt) (text : string) :
    write3 dec8 anon_text nq nb ir = Ok text ->
    exists body,
      body3 ir = Some body /\
      text = decl3 nq nb ++ rstrip (NL ++ NL ++ body) ++ NL /\
      String.prefix (decl3 nq nb) text = true.
  Proof.
    intros H. destruct (body3 ir) as [body|] eqn:E.
    - exists body. split; [reflexivity|]. rewrite (write3_decomp nq nb ir body E) in H.
      assert (Ht : text = rstrip (header3 nq nb ++ body) ++ NL) by congruence.
      clear H. subst text. destruct (decl3_last_nonws nq nb) as [Hl Hne].
      rewrite header3_decl3, !sapp_assoc, rstrip_app_ends_nonws by assumption.
      rewrite !sapp_assoc. split; [reflexivity|].
      apply prefix_app.
    - rewrite (write3_error nq nb ir E) in H. discriminate.
  Qed.

  (* ---------------- item 6: one line per statement ---------------- *)

  Theorem body3_lines (ir : list stmt) (body : string) :
    concat_opt (map v3_stmt ir) = Some body ->
    exists lines, Forall2 (fun s l => v3_stmt s = Some l) ir lines /\ body = String.concat "" lines.
  Proof.
    intros H. apply concat_opt_spec in H. destruct H as (lines & Hmap & ->).
    exists lines. split; [|reflexivity].
    revert lines Hmap. induction ir as [|s ir IH]; intros [|l lines] Hmap; try discriminate.
    - constructor.
    - cbn [map] in Hmap. inversion Hmap. constructor; [assumption | now apply IH].
  Qed.

  (* the writer raises exactly on a named measure with fewer than two arguments
     or a named reset without argument *)
  Definition v3_malformed (s : stmt) : Prop :=
    match s with
    | SMeasure _ _ _ _ gi => exists l, gargs gi = Some l /\ (List.length l < 2)%nat
    | SReset _ _ gi => gargs gi = Some []
    | _ => False
    end.

  Lemma v3_stmt_none_iff (s : stmt) : v3_stmt s = None <-> v3_malformed s.
  Proof.
    destruct s as [o g gi|o q b ax gi|o q gi|t]; cbn [Writer.v3_stmt v3_malformed].
    - destruct (gargs gi); split; try discriminate; tauto.
    - destruct (gargs gi) as [[|a0 [|a1 l]]|]; split; try discriminate.
      + intros _. eexists; split; [reflexivity | cbn; lia].
      + reflexivity.
      + intros _. eexists; split; [reflexivity | cbn; lia].
      + reflexivity.
      + intros (l' & E & Hl). inversion E; subst. cbn in Hl. lia.
      + intros (l' & E & _). discriminate.
    - destruct (gargs gi) as [[|a0 l]|]; split; try discriminate; auto.
    - split; [discriminate | tauto].
  Qed.

  Theorem write3_fails_iff (nq nb : Z) (ir : list stmt) :
    (forall text, write3 dec8 anon_text nq nb ir <> Ok text) <->
    exists s, In s ir /\ v3_malformed s.
  Proof.
    unfold write3. destruct (concat_opt (map v3_stmt ir)) as [body|] eqn:E.
    - split.
      + intros H. exfalso. eapply H. reflexivity.
      + intros (s & Hin & Hs). exfalso. apply v3_stmt_none_iff in Hs.
        assert (In None (map v3_stmt ir)) by (rewrite <- Hs; now apply in_map).
        apply concat_opt_none in H. congruence.
    - split; [|intros _ text; discriminate]. intros _.
      apply concat_opt_none in E. apply in_map_iff in E. destruct E as (s & Hs & Hin).
      exists s. split; [assumption | now apply v3_stmt_none_iff].
  Qed.

  (* the writer either produces a text or raises TypeError on a malformed measure/reset *)
  Theorem write3_result (nq nb : Z) (ir : list stmt) :
    (exists text, write3 dec8 anon_text nq nb ir = Ok text /\ Forall (fun s => ~ v3_malformed s) ir) \/
    (write3 dec8 anon_text nq nb ir = Err EType /\ exists s, In s ir /\ v3_malformed s).
  Proof.
    destruct (body3 ir) as [body|] eqn:E.
    - left. eexists. split; [apply (write3_decomp nq nb ir body E)|].
      apply Forall_forall. intros s Hin Hs. apply v3_stmt_none_iff in Hs.
      assert (H : In None (map v3_stmt ir)) by (rewrite <- Hs; now apply in_map).
      apply concat_opt_none in H. unfold body3 in E. congruence.
    - right. split; [now apply write3_error|].
      unfold body3 in E. apply concat_opt_none in E. apply in_map_iff in E.
      destruct E as (s & Hs & Hin). exists s. split; [assumption | now apply v3_stmt_none_iff].
  Qed.

  (* names, anonymous-gate texts and decimals without newline *)
  Definition name_ok (gi : ginfo T) : Prop :=
    match gname gi with Some n => no_nl n = true | None => True end.

  Definition stmt_text_ok (s : stmt) : Prop :=
    match s with
    | SGate _ g gi => name_ok gi /\ (gargs gi = None -> no_nl (anon_text g) = true)
    | SMeasure _ _ _ _ gi => name_ok gi
    | SReset _ _ gi => name_ok gi
    | SComment _ => True
    end.

  Definition is_comment (s : stmt) : bool := match s with SComment _ => true | _ => false end.

  Hypothesis float_no_nl : forall x, no_nl (v3_float dec8 x) = true.

  Lemma v3_arg_no_nl (a : arg) : no_nl (v3_arg a) = true.
  Proof.
    destruct a; cbn [Writer.v3_arg];
      [apply qstr_no_nl | apply bstr_no_nl | apply float_no_nl | apply string_of_Z_no_nl].
  Qed.

  Lemma name_of_no_nl (gi : ginfo T) (dflt : string) :
    name_ok gi -> no_nl dflt = true -> no_nl (name_of gi dflt) = true.
  Proof. unfold name_ok, name_of. destruct (gname gi); auto. Qed.

  Lemma map_v3_arg_no_nl (l : list arg) : Forall (fun x => no_nl x = true) (map v3_arg l).
  Proof. apply Forall_forall. intros x Hx. apply in_map_iff in Hx. destruct Hx as (a & <- & _). apply v3_arg_no_nl. Qed.

  (* every gate, measure and reset statement is written as exactly one line *)
  Theorem v3_stmt_one_line (s : stmt) (line : string) :
    is_comment s = false -> stmt_text_ok s ->
    v3_stmt s = Some line ->
    exists l0, line = l0 ++ NL /\ no_nl l0 = true.
  Proof.
    intros Hc Hok H. destruct s as [o g gi|o q b ax gi|o q gi|t]; [| | |discriminate];
      cbn [Writer.v3_stmt stmt_text_ok] in *.
    - destruct Hok as [Hn Ha]. destruct (gargs gi) as [args|].
      + injection H as <-.
        set (ps := map v3_arg (filter (fun a => negb (is_qarg a)) args)).
        set (qs := map v3_arg (filter is_qarg args)).
        exists ((name_of gi "" ++ match ps with [] => "" | _ :: _ => "(" ++ join ", " ps ++ ")" end) ++
                " " ++ join ", " qs).
        split; [rewrite !sapp_assoc; reflexivity|].
        rewrite !no_nl_app. rewrite (name_of_no_nl gi "" Hn eq_refl).
        rewrite (join_no_nl ", " qs eq_refl (map_v3_arg_no_nl _)).
        assert (Hps : no_nl (join ", " ps) = true) by apply (join_no_nl ", " ps eq_refl (map_v3_arg_no_nl _)).
        destruct ps as [|p ps']; [reflexivity|].
        rewrite !no_nl_app, Hps. reflexivity.
      + injection H as <-. eexists. split; [reflexivity | auto].
    - destruct (gargs gi) as [[|a0 [|a1 l]]|]; try discriminate; injection H as <-.
      + exists (v3_arg a1 ++ " = " ++ name_of gi "" ++ " " ++ v3_arg a0).
        split; [rewrite !sapp_assoc; reflexivity|].
        rewrite !no_nl_app, !v3_arg_no_nl, (name_of_no_nl gi "" Hok eq_refl). reflexivity.
      + eexists. split; [reflexivity | now apply name_of_no_nl].
    - destruct (gargs gi) as [[|a0 l]|]; try discriminate; injection H as <-.
      + exists (name_of gi "" ++ " " ++ v3_arg a0).
        split; [rewrite !sapp_assoc; reflexivity|].
        rewrite !no_nl_app, !v3_arg_no_nl, (name_of_no_nl gi "" Hok eq_refl). reflexivity.
      + eexists. split; [reflexivity | now apply name_of_no_nl].
  Qed.

  (* a comment is written as an empty line, the comment, an empty line *)
  Lemma v3_comment_shape (t : string) :
    v3_stmt (SComment t) = Some (NL ++ "/* " ++ t ++ " */" ++ NL ++ NL).
  Proof. reflexivity. Qed.

  (* one line per non-comment statement, in order, none omitted *)
  Theorem write3_one_line_each (ir : list stmt) (body : string) :
    Forall stmt_text_ok ir -> Forall (fun s => is_comment s = false) ir ->
    body3 ir = Some body ->
    exists lines, List.length lines = List.length ir /\
      Forall (fun l => no_nl l = true) lines /\
      body = String.concat "" (map (fun l => l ++ NL) lines).
  Proof.
    intros Hok Hnc H. apply body3_lines in H. destruct H as (lines & HF & ->).
    clear - HF Hok Hnc float_no_nl. induction HF as [|s l ir lines Hs HF IH].
    - exists []. repeat split; constructor.
    - inversion Hok; subst. inversion Hnc; subst.
      destruct (v3_stmt_one_line s l H3 H1 Hs) as (l0 & -> & Hl0).
      destruct (IH H2 H4) as (ls & Hlen & Hall & Heq).
      exists (l0 :: ls). split; [cbn; now rewrite Hlen|]. split; [now constructor|].
      cbn [map]. rewrite !concat_empty_sep, Heq. reflexivity.
  Qed.

  (* ---------------- item 7: the shape of gate lines ---------------- *)

  Definition params_of (args : list arg) : list arg := filter (fun a => negb (is_qarg a)) args.
  Definition qubits_of (args : list arg) : list arg := filter is_qarg args.

  (* name(p1, p2, ...) q[..], q[..]  for any name and any signature *)
  Theorem v3_gate_shape (o : positive) (g : gate T) (name : string) (args : list arg) :
    let params := map v3_arg (params_of args) in
    let qubits := map v3_arg (qubits_of args) in
    v3_stmt (SGate o g (mkGinfo (Some name) (Some args))) =
    Some (name ++ (match params with [] => "" | _ => "(" ++ join ", " params ++ ")" end) ++
          " " ++ join ", " qubits ++ NL).
  Proof. cbn. unfold name_of. cbn. now rewrite sapp_assoc. Qed.

  (* the same for any generator information with captured arguments *)
  Theorem v3_gate_shape_gen (o : positive) (g : gate T) (gi : ginfo T) (args : list arg) :
    gargs gi = Some args ->
    let params := map v3_arg (params_of args) in
    let qubits := map v3_arg (qubits_of args) in
    v3_stmt (SGate o g gi) =
    Some (name_of gi "" ++ (match params with [] => "" | _ => "(" ++ join ", " params ++ ")" end) ++
          " " ++ join ", " qubits ++ NL).
  Proof. intros E. cbn [Writer.v3_stmt]. rewrite E. cbn zeta. now rewrite sapp_assoc. Qed.

  (* an anonymous gate is written as its text on one line *)
  Lemma v3_anonymous_shape (o : positive) (g : gate T) (gi : ginfo T) :
    gargs gi = None -> v3_stmt (SGate o g gi) = Some (anon_text g ++ NL).
  Proof. intros E. cbn [Writer.v3_stmt]. now rewrite E. Qed.

  Lemma params_of_nil_iff (args : list arg) :
    params_of args = [] <-> forallb is_qarg args = true.
  Proof.
    unfold params_of. induction args as [|a l IH]; cbn [filter forallb]; [tauto|].
    destruct (is_qarg a); cbn [negb andb]; [exact IH | split; discriminate].
  Qed.

  (* the two lists partition the arguments, keeping their order *)
  Lemma qubits_of_spec (args : list arg) :
    map v3_arg (qubits_of args) =
    flat_map (fun a => match a with AQ q => [qstr q] | _ => [] end) args.
  Proof.
    unfold qubits_of. induction args as [|a l IH]; [reflexivity|].
    cbn [filter flat_map]. destruct a; cbn [is_qarg map app v3_arg]; now rewrite IH.
  Qed.

  Lemma params_of_spec (args : list arg) :
    map v3_arg (params_of args) =
    flat_map (fun a => match a with AQ _ => [] | _ => [v3_arg a] end) args.
  Proof.
    unfold params_of. induction args as [|a l IH]; [reflexivity|].
    cbn [filter flat_map]. destruct a; cbn [is_qarg negb map app]; now rewrite IH.
  Qed.

  Lemma params_qubits_length (args : list arg) :
    (List.length (params_of args) + List.length (qubits_of args) = List.length args)%nat.
  Proof.
    unfold params_of, qubits_of. induction args as [|a l IH]; [reflexivity|].
    cbn [filter]. destruct (is_qarg a); cbn [negb List.length]; lia.
  Qed.

  (* a user-defined gate with an arbitrary signature: float, qubit, int, qubit *)
  Example v3_user_gate (o : positive) (g : gate T) (x : T) :
    v3_stmt (SGate o g (mkGinfo (Some "MyGate") (Some [AF x; AQ 3%Z; AI 2%Z; AQ 1%Z]))) =
    Some ("MyGate(" ++ v3_float dec8 x ++ ", 2) q[3], q[1]" ++ NL).
  Proof. cbn. unfold name_of. cbn. now rewrite !sapp_assoc. Qed.

  (* --- cQASM 1 --- *)
  Definition v1_text (a : arg) : string :=
    match a with AQ q => qstr q | AF x => v1_float dec8 x | AI k => string_of_Z k | AB b => "" end.
  Definition is_barg (a : arg) : bool := match a with AB _ => true | _ => false end.

  Lemma all_some_v1 (l : list arg) :
    forallb (fun a => negb (is_barg a)) l = true ->
    all_some (map v1_arg l) = Some (map v1_text l).
  Proof.
    induction l as [|a l IH]; [reflexivity|]. cbn [forallb]. intros H.
    apply andb_true_iff in H. destruct H as [Ha Hl].
    cbn [map all_some]. destruct a; try discriminate; cbn [Writer.v1_arg]; now rewrite (IH Hl).
  Qed.

  Lemma all_some_v1_bit (l : list arg) :
    forallb (fun a => negb (is_barg a)) l = false -> all_some (map v1_arg l) = None.
  Proof.
    induction l as [|a l IH]; [discriminate|]. cbn [forallb]. intros H.
    cbn [map all_some]. destruct a; cbn [Writer.v1_arg is_barg negb andb] in *;
      try (rewrite (IH H); reflexivity). reflexivity.
  Qed.

  Lemma forallb_filter_sub {A} (p f : A -> bool) (l : list A) :
    forallb p l = true -> forallb p (filter f l) = true.
  Proof.
    induction l as [|a l IH]; [reflexivity|]. cbn [forallb filter]. intros H.
    apply andb_true_iff in H. destruct H as [Ha Hl]. destruct (f a); cbn [forallb]; [rewrite Ha|]; auto.
  Qed.

  (* lower(name) q[..], q[..], p1, p2  for any name and signature without bit arguments *)
  Theorem v1_gate_shape (o : positive) (g : gate T) (name : string) (args : list arg) :
    forallb (fun a => negb (is_barg a)) args = true ->
    let params := map v1_text (params_of args) in
    let qubits := map v1_text (qubits_of args) in
    v1_stmt (SGate o g (mkGinfo (Some name) (Some args))) =
    Ok (lower name ++ " " ++ join ", " qubits ++
        (match params with [] => "" | _ => ", " ++ join ", " params end) ++ NL).
  Proof.
    intros H. cbn [Writer.v1_stmt gargs gname].
    fold (params_of args). fold (qubits_of args).
    rewrite (all_some_v1 (params_of args)) by (now apply forallb_filter_sub).
    rewrite (all_some_v1 (qubits_of args)) by (now apply forallb_filter_sub).
    reflexivity.
  Qed.

  Theorem v1_gate_shape_gen (o : positive) (g : gate T) (gi : ginfo T) (args : list arg) :
    gargs gi = Some args ->
    forallb (fun a => negb (is_barg a)) args = true ->
    let params := map v1_text (params_of args) in
    let qubits := map v1_text (qubits_of args) in
    v1_stmt (SGate o g gi) =
    Ok (lower (name_of gi "") ++ " " ++ join ", " qubits ++
        (match params with [] => "" | _ => ", " ++ join ", " params end) ++ NL).
  Proof.
    intros E H. cbn [Writer.v1_stmt]. rewrite E.
    fold (params_of args). fold (qubits_of args).
    rewrite (all_some_v1 (params_of args)) by (now apply forallb_filter_sub).
    rewrite (all_some_v1 (qubits_of args)) by (now apply forallb_filter_sub).
    reflexivity.
  Qed.

  (* a bit argument is a malformed cQASM 1 gate *)
  Theorem v1_gate_bit_arg (o : positive) (g : gate T) (gi : ginfo T) (args : list arg) :
    gargs gi = Some args ->
    forallb (fun a => negb (is_barg a)) args = false ->
    v1_stmt (SGate o g gi) = Err EType.
  Proof.
    intros E H. cbn [Writer.v1_stmt]. rewrite E.
    fold (params_of args). fold (qubits_of args).
    assert (Hq : forallb (fun a => negb (is_barg a)) (qubits_of args) = true).
    { unfold qubits_of. clear. induction args as [|a l IH]; [reflexivity|].
      cbn [filter]. destruct a; cbn [is_qarg forallb is_barg negb andb]; exact IH. }
    assert (Hp : forallb (fun a => negb (is_barg a)) (params_of args) = false).
    { unfold params_of. clear - H. induction args as [|a l IH]; [discriminate|].
      cbn [forallb] in H. cbn [filter].
      destruct a; cbn [is_qarg negb forallb is_barg andb] in *; auto. }
    rewrite (all_some_v1_bit _ Hp). reflexivity.
  Qed.

  Theorem v1_measure_reset :
    (forall o q b ax gi q' rest, gargs gi = Some (AQ q' :: rest) ->
       v1_stmt (SMeasure o q b ax gi) = Ok ("measure_z " ++ qstr q' ++ NL)) /\
    (forall o q gi q' rest, gargs gi = Some (AQ q' :: rest) ->
       v1_stmt (SReset o q gi) = Ok ("prep_z " ++ qstr q' ++ NL)).
  Proof. split; intros; cbn [Writer.v1_stmt]; rewrite H; reflexivity. Qed.

  Lemma v1_anonymous_stmt (o : positive) (g : gate T) (gi : ginfo T) :
    gargs gi = None -> v1_stmt (SGate o g gi) = Err EExport.
  Proof. intros E. cbn [Writer.v1_stmt]. now rewrite E. Qed.

  Lemma concat_res_ok (l : list (result string)) (body : string) :
    concat_res l = Ok body -> Forall (fun r => exists x, r = Ok x) l.
  Proof.
    revert body. induction l as [|r l IH]; intros body H; [constructor|].
    cbn [concat_res] in H. destruct r as [x|e]; [|discriminate].
    destruct (concat_res l) as [b|e] eqn:E; [|discriminate].
    constructor; [eexists; reflexivity | now apply (IH b)].
  Qed.

  Lemma concat_res_first_error (pre post : list (result string)) (e : err) :
    Forall (fun r => exists x, r = Ok x) pre ->
    concat_res (pre ++ Err e :: post) = Err e.
  Proof.
    induction 1 as [|r pre (x & ->) _ IH]; [reflexivity|].
    cbn [List.app concat_res]. now rewrite IH.
  Qed.

  (* export succeeds only if no statement is an anonymous gate *)
  Theorem v1_anonymous_refused (nq : Z) (ir : list stmt) (text : string) :
    export_v1 dec8 nq ir = Ok text ->
    forall o g gi, In (SGate o g gi) ir -> gargs gi <> None.
  Proof.
    unfold export_v1. intros H o g gi Hin Hanon.
    destruct (concat_res (map v1_stmt ir)) as [body|e] eqn:E; [|discriminate].
    apply concat_res_ok in E. rewrite Forall_forall in E.
    destruct (E (v1_stmt (SGate o g gi)) (in_map _ _ _ Hin)) as (x & Hx).
    rewrite (v1_anonymous_stmt o g gi Hanon) in Hx. discriminate.
  Qed.

  (* first error wins: the first anonymous gate after exportable statements
     raises UnsupportedGateError, whatever follows *)
  Theorem v1_anonymous_first_error (nq : Z) (pre post : list stmt) (o : positive) (g : gate T) (gi : ginfo T) :
    Forall (fun s => exists l, v1_stmt s = Ok l) pre ->
    gargs gi = None ->
    export_v1 dec8 nq (pre ++ SGate o g gi :: post) = Err EExport.
  Proof.
    intros Hpre Hanon. unfold export_v1. rewrite map_app. cbn [map].
    rewrite (v1_anonymous_stmt o g gi Hanon).
    rewrite concat_res_first_error; [reflexivity|].
    apply Forall_forall. intros r Hr. apply in_map_iff in Hr. destruct Hr as (s & <- & Hs).
    rewrite Forall_forall in Hpre. now apply Hpre.
  Qed.
End WriterP.

(* with an oracle that returns well-formed decimals, the hypothesis on floats holds *)
Corollary v3_stmt_one_line_wf {T : Type} (dec8 : T -> dec) (anon_text : gate T -> string) :
  (forall x, wf_dec (dec8 x)) ->
  forall (s : stmt T) (line : string),
    is_comment s = false -> stmt_text_ok anon_text s ->
    v3_stmt dec8 anon_text s = Some line ->
    exists l0, line = l0 ++ NL /\ no_nl l0 = true.
Proof.
  intros Hwf. apply v3_stmt_one_line. intros x. unfold v3_float. apply render_fix_no_nl, Hwf.
Qed.

(* every float argument the cQASM 3 writer prints is a float literal of the grammar *)
Corollary v3_float_is_literal {T : Type} (dec8 : T -> dec) (x : T) :
  wf_dec (dec8 x) -> dec_finite (dec8 x) ->
  is_signed_float_literal (v3_float dec8 x) = true.
Proof. apply render_fix_is_literal. Qed.

(* ------------------------------------------------------------------ *)
(* item 8: comments                                                     *)

Lemma prefix_close_app (c : ascii) (t : string) :
  String.prefix "*/" (String c t) = false ->
  String.prefix "*/" (String c t ++ " */") = false.
Proof.
  intros H. cbn [append]. cbn [String.prefix] in *.
  destruct (ascii_dec "*" c); [|reflexivity].
  destruct t as [|d t']; [reflexivity|].
  cbn [append]. cbn [String.prefix] in *.
  destruct (ascii_dec "/" d); [|reflexivity].
  destruct t'; cbn in H; discriminate H.
Qed.

Lemma index_close_tail (t : string) :
  contains "*/" t = false ->
  String.index 0 "*/" (t ++ " */") = Some (String.length t + 1)%nat.
Proof.
  induction t as [|c t IH]; [reflexivity|]. cbn [contains]. intros H.
  apply orb_false_iff in H. destruct H as [Hp Hc].
  change (String c t ++ " */") with (String c (t ++ " */")).
  cbn [String.index]. change (String c (t ++ " */")) with (String c t ++ " */").
  rewrite (prefix_close_app c t Hp). rewrite (IH Hc). reflexivity.
Qed.

Lemma index_cons_noprefix (s1 : string) (b : ascii) (s2 : string) :
  String.prefix s1 (String b s2) = false ->
  String.index 0 s1 (String b s2) = option_map S (String.index 0 s1 s2).
Proof. intros H. cbn [String.index]. rewrite H. destruct (String.index 0 s1 s2); reflexivity. Qed.

(* in the text of a comment whose body has no terminator, the first terminator is the final one *)
Theorem comment_terminates (t : string) :
  contains "*/" t = false ->
  String.index 0 "*/" ("/* " ++ t ++ " */") = Some (3 + String.length t + 1)%nat.
Proof.
  intros H. cbn [append].
  rewrite index_cons_noprefix by reflexivity.
  rewrite index_cons_noprefix by reflexivity.
  rewrite index_cons_noprefix by reflexivity.
  rewrite (index_close_tail t H). reflexivity.
Qed.

(* spelled out: it is an occurrence, it is the end of the text, and there is none before *)
Corollary comment_terminates_spec (t : string) :
  contains "*/" t = false ->
  let s := "/* " ++ t ++ " */" in
  let i := (3 + String.length t + 1)%nat in
  substring i 2 s = "*/" /\ String.length s = (i + 2)%nat /\
  forall p, (p < i)%nat -> substring p 2 s <> "*/".
Proof.
  intros H s i. pose proof (comment_terminates t H) as Hi. fold s in Hi. fold i in Hi.
  split; [exact (index_correct1 0 i "*/" s Hi)|]. split.
  - unfold s, i. rewrite !slength_app. cbn. lia.
  - intros p Hp. apply (index_correct2 0 i "*/" s Hi p); [lia | exact Hp].
Qed.

(* without the hypothesis the comment ends early *)
Example comment_early_end :
  String.index 0 "*/" ("/* " ++ "a */ b" ++ " */") = Some 5%nat.
Proof. reflexivity. Qed.

(* the builder refuses exactly the comments containing a terminator *)
Theorem builder_comment_refused {T : Type} (N : Num T) (nq nb : Z) (ir : list (stmt T)) (next : positive) (t : string) :
  (builder_step N nq nb (ir, next) (BComment t) = Err EValue <-> contains "*/" t = true) /\
  (contains "*/" t = false ->
   builder_step N nq nb (ir, next) (BComment t) = Ok ((ir ++ [SComment t])%list, next)).
Proof.
  cbn [builder_step]. destruct (contains "*/" t); split; try tauto; try discriminate.
  split; discriminate.
Qed.

(* a comment accepted by the builder is written as a comment that ends where it should *)
Corollary builder_comment_terminates {T : Type} (N : Num T) (nq nb : Z) (ir ir' : list (stmt T)) (next next' : positive) (t : string) :
  builder_step N nq nb (ir, next) (BComment t) = Ok (ir', next') ->
  ir' = (ir ++ [SComment t])%list /\
  String.index 0 "*/" ("/* " ++ t ++ " */") = Some (3 + String.length t + 1)%nat.
Proof.
  cbn [builder_step]. destruct (contains "*/" t) eqn:E; [discriminate|].
  intros H. inversion H; subst. split; [reflexivity | now apply comment_terminates].
Qed.

Print Assumptions rstrip_spec.
Print Assumptions rstrip_idempotent.
Print Assumptions write3_decomp.
Print Assumptions write3_header.
Print Assumptions body3_lines.
Print Assumptions write3_fails_iff.
Print Assumptions write3_result.
Print Assumptions v3_stmt_one_line.
Print Assumptions v3_stmt_one_line_wf.
Print Assumptions write3_one_line_each.
Print Assumptions v3_gate_shape.
Print Assumptions v3_gate_shape_gen.
Print Assumptions v1_gate_shape.
Print Assumptions v1_gate_shape_gen.
Print Assumptions v1_gate_bit_arg.
Print Assumptions v1_measure_reset.
Print Assumptions v1_anonymous_refused.
Print Assumptions v1_anonymous_first_error.
Print Assumptions comment_terminates.
Print Assumptions comment_terminates_spec.
Print Assumptions builder_comment_refused.
